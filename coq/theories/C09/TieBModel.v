(* C09, second tie — the list functions of TieBSrc.v (what the interpreted source computes on tabulated tensors, element by
   element) are PV.C09.Model's functions (which work on whole CELLS: a cell = the F flattened trailing features).
   Pure list reasoning; no interpreter here.  The generic part restates TieModel.v's lifting lemmas for an arbitrary
   row type (TieModel.v has them for pad_variable's rows only). *)
From Coq Require Import List ZArith Bool Arith Lia ZifyBool ZifyNat.
From PV Require Import MiniPy.Syntax MiniTorch.OpsC09 MiniTorch.LemmasC09 MiniTorch.OpsC09B MiniTorch.LemmasC09B.
From PV Require Import C09.Model C09.Proofs C09.TieSrc C09.TieModel C09.TieBSrc.
Import ListNotations.
Local Open Scope nat_scope.

(* ---- a batch of rows of any type, tabulated ------------------------------------------------------------------ *)
Section Gen.
  Context {R : Type}.
  Variables (N F : nat) (mk : nat -> R).

  Definition rowsG : list R := map mk (seq 0 N).

  Lemma len_rowsG : length rowsG = N.
  Proof. unfold rowsG. now rewrite map_length, seq_length. Qed.

  Lemma match_rowsG {W} (a b : W) : match rowsG with [] => a | _ :: _ => b end = match N with 0 => a | S _ => b end.
  Proof. unfold rowsG. destruct N; reflexivity. Qed.

  Lemma concat_rowsG {Y} (g : R -> list Y) W (h : nat -> nat -> Y) :
    (forall i, i < N -> g (mk i) = tab1 W (h i)) -> concat (map g rowsG) = tab2 N W h.
  Proof.
    intros H. unfold rowsG. rewrite map_map, tab2_concat. f_equal. apply map_ext_in. intros i Hi. apply in_seq in Hi.
    apply H. lia.
  Qed.

  Lemma map_rowsG {Y} (g : R -> Y) : map g rowsG = tab1 N (fun i => g (mk i)).
  Proof. unfold rowsG, tab1. now rewrite map_map. Qed.

  Lemma list_max_rowsG (g : R -> nat) : list_max (map g rowsG) = list_max (map (fun i => g (mk i)) (seq 0 N)).
  Proof. unfold rowsG. now rewrite map_map. Qed.

  Lemma existsb_rowsG (p : R -> bool) : existsb p rowsG = existsb (fun i => p (mk i)) (seq 0 N).
  Proof. unfold rowsG. apply existsb_map. Qed.

  (* one flat selection of the source = the concatenated cells of the model's selection *)
  Lemma select_liftG W (mb : nat -> nat -> bool) (ef : nat -> nat -> nat -> val)
        (gM : R -> list bool) (gG : R -> list (list val)) (mb' : nat -> nat -> bool) (cf : nat -> nat -> list val) :
    (forall i, i < N -> gM (mk i) = tab1 W (mb' i)) -> (forall i, i < N -> gG (mk i) = tab1 W (cf i)) ->
    (forall i j, i < N -> j < W -> mb i j = mb' i j) ->
    (forall i j, i < N -> j < W -> tab1 F (ef i j) = cf i j) ->
    OpsC09.mselect (tab3 N W F (fun i j _ => mb i j)) (tab3 N W F ef) = concat (select2 (map gM rowsG) (map gG rowsG)).
  Proof.
    intros HM HG Hm He. unfold select2. rewrite (concat_rowsG gM W mb' HM), (concat_rowsG gG W cf HG).
    assert (HC : cellsF F (tab2 N W cf)).
    { apply cellsF_tab2. intros i j Hi Hj. rewrite <- He by assumption. apply tab1_length. }
    rewrite tab3_xpand, tab3_cells, mselect_eq. rewrite (tab2_ext N W mb mb' Hm).
    rewrite (tab2_ext N W (fun i j => tab1 F (ef i j)) cf He). now apply mselect_cells.
  Qed.

  Lemma select_lift_cellsG W (gM : R -> list bool) (gG : R -> list (list val)) (cf : nat -> nat -> list val) :
    (forall i, i < N -> gG (mk i) = tab1 W (cf i)) -> (forall i j, i < N -> j < W -> length (cf i j) = F) ->
    cellsF F (select2 (map gM rowsG) (map gG rowsG)).
  Proof.
    intros HG Hc. unfold select2. rewrite (concat_rowsG gG W cf HG). apply cellsF_mselect. now apply cellsF_tab2.
  Qed.

  (* one flat scatter of the source = the concatenated cells of the model's scatter, failing together *)
  Lemma scatter_liftG W (mb mb' : nat -> nat -> bool) (gM : R -> list bool) (D S : list (list val)) :
    0 < F -> (forall i, i < N -> gM (mk i) = tab1 W (mb' i)) ->
    (forall i j, i < N -> j < W -> mb i j = mb' i j) -> cellsF F D -> cellsF F S ->
    OpsC09.mscatter (tab3 N W F (fun i j _ => mb i j)) (concat D) (concat S)
    = option_map (@concat val) (Model.mscatter (concat (map gM rowsG)) D S).
  Proof.
    intros HF HM Hm HD HS. rewrite (concat_rowsG gM W mb' HM), tab3_xpand, mscatter_eq, (tab2_ext N W mb mb' Hm).
    now apply mscatter_cells.
  Qed.

  Lemma mask_rows_lengthG (gM : R -> list bool) W (mb' : nat -> nat -> bool) :
    (forall i, i < N -> gM (mk i) = tab1 W (mb' i)) -> length (concat (map gM rowsG)) = N * W.
  Proof. intros HM. rewrite (concat_rowsG gM W mb' HM). apply tab2_length. Qed.

  Lemma padded_rowsG {Y} (fill : Y) W : concat (repeat (repeat fill W) N) = tab2 N W (fun _ _ => fill).
  Proof.
    rewrite tab2_concat, (repeat_tab1 (repeat fill W) N). unfold tab1 at 1. f_equal. apply map_ext. intros _. apply repeat_tab1.
  Qed.
End Gen.

(* the flat (N, W, F) block of a fill value = the concatenated cells of N rows of W fill cells *)
Lemma fill_block N W F (value : val) :
  tab3 N W F (fun _ _ _ => value) = concat (concat (repeat (repeat (repeat value F) W) N)).
Proof. rewrite padded_rowsG, tab3_cells. f_equal. apply tab2_ext. intros. symmetry. apply repeat_tab1. Qed.

Lemma fill_block_cells N W F (value : val) : cellsF F (concat (repeat (repeat (repeat value F) W) N)).
Proof. rewrite padded_rowsG. apply cellsF_tab2. intros. apply repeat_length. Qed.

Lemma fill_block_length N W F (value : val) : length (concat (repeat (repeat (repeat value F) W) N)) = N * W.
Proof. rewrite padded_rowsG. apply tab2_length. Qed.

(* what a successful model-side scatter of whole cells gives: N rows of W cells of F values, and their flat content *)
Definition rows_wf (N W F : nat) (out : list (list (list val))) : Prop :=
  length out = N /\ Forall (fun row => length row = W /\ cellsF F row) out.

Lemma unflatten_rows N W F (l : list (list val)) :
  length l = N * W -> cellsF F l ->
  concat (map (@concat val) (unflatten N W l)) = concat l /\ rows_wf N W F (unflatten N W l).
Proof.
  intros HL HC. split; [now rewrite <- concat_concat_map, concat_unflatten by assumption|].
  split; [apply unflatten_length|now apply unflatten_wf].
Qed.

(* ---- pad_masked_sequence, batch-first core ----------------------------------------------------------------------- *)
Lemma countZ_count_true m f : countZ m f = Z.of_nat (count_true (tab1 m f)).
Proof.
  unfold countZ, count_true, tab1. induction (seq 0 m) as [|a l IH]; [reflexivity|]. cbn [map fold_right filter].
  rewrite IH. destruct (f a); cbn [length]; lia.
Qed.

Section ModMasked.
  Variables (N T F : nat) (xf : nat -> nat -> nat -> val) (mf : nat -> nat -> bool).

  Definition mcell (i j : nat) : list val := tab1 F (xf i j).
  Definition mkM (i : nat) : list (list val) * list bool := (tab1 T (mcell i), tab1 T (mf i)).
  Definition rowsMk : list (list (list val) * list bool) := rowsG N mkM.

  Definition masked_rel (m : res (list (list (list val)) * list nat)) (s : option (list val)) : Prop :=
    match m with
    | Ok (out, lens) => s = Some (concat (map (@concat val) out)) /\ rows_wf N T F out
                        /\ map Z.of_nat lens = tab1 N (mlensZ T mf)
    | ErrRuntime => s = None
    | _ => False
    end.

  Theorem src_masked_model value :
    0 < F -> masked_rel (pad_masked_rows T (repeat value F) rowsMk) (src_masked_flat N T F xf mf value).
  Proof.
    intros HF. unfold pad_masked_rows, src_masked_flat, rowsMk.
    assert (Exs : OpsC09.mselect (tab3 N T F (fun i j _ => mf i j)) (tab3 N T F xf)
                  = concat (select2 (map snd (rowsG N mkM)) (map fst (rowsG N mkM)))).
    { apply (select_liftG N F mkM T _ _ _ _ mf mcell (fun i _ => eq_refl) (fun i _ => eq_refl)); reflexivity. }
    assert (Cxs : cellsF F (select2 (map snd (rowsG N mkM)) (map fst (rowsG N mkM)))).
    { apply (select_lift_cellsG N F mkM T _ _ mcell (fun i _ => eq_refl)). intros. apply tab1_length. }
    rewrite Exs. set (xs := select2 _ _) in *.
    assert (ED : map (fun r : list (list val) * list bool => map (fun _ => repeat value F) (fst r)) (rowsG N mkM)
                 = repeat (repeat (repeat value F) T) N).
    { rewrite map_rowsG, (repeat_tab1 _ N). apply tab1_ext. intros i Hi. cbn [mkM fst].
      rewrite map_tab1. symmetry. apply repeat_tab1. }
    rewrite ED, fill_block. unfold scatter2, lt_mask. rewrite len_rowsG.
    match goal with |- context [Model.mscatter (concat (map ?g (rowsG N mkM))) ?D xs] =>
      rewrite (scatter_liftG N F mkM T _ (fun i j => j <? count_true (tab1 T (mf i))) g D xs HF (fun i _ => eq_refl))
        by (try apply fill_block_cells; try assumption;
            intros i j Hi Hj; unfold mlensZ; rewrite countZ_count_true; lia);
      pose proof (mask_rows_lengthG N mkM g T _ (fun i _ => eq_refl)) as LM;
      destruct (Model.mscatter (concat (map g (rowsG N mkM))) D xs) as [l1|] eqn:E1
    end; cbn [option_map Model.bind masked_rel]; [|reflexivity].
    pose proof (cellsF_mscatter F _ _ _ _ E1 (fill_block_cells N T F value) Cxs) as C1.
    assert (L1 : length l1 = N * T) by (rewrite (mscatter_length _ _ _ _ E1), LM, fill_block_length; lia).
    destruct (unflatten_rows N T F l1 L1 C1) as [EU WU].
    split; [now rewrite EU|]. split; [exact WU|].
    rewrite map_map, map_rowsG. apply tab1_ext. intros i Hi. cbn [mkM snd]. unfold mlensZ. now rewrite countZ_count_true.
  Qed.
End ModMasked.
