(* C06, second tie, part 1 — the VECTOR-INDEX path of `_lookup_calc_idx_log_probs` (idx a tensor with one index per
   batch element, B >= 2): the tensor program [TieRun.lookup_fn] (= the interpreted source for every tensor argument,
   TieRunMain.lookup_run) evaluated on the encoding of the model's buffers, a (T, B) history and an index vector is the
   encoding of the rows [Proofs.batch_rows] = what Model.lookup_batch computes (Proofs.lookup_batch_vec).
   New here: the per-element context window - `range_ = arange(hist.size(0))`, the mask
   `(hidx.unsqueeze(1) - N < range_) & (hidx.unsqueeze(1) > range_)`, `hist.T.masked_select(mask).view(B, N - 1).T` -
   on tabulated tensors ([window_vec]); everything after the window is TieSrc.main_tab, as for a scalar index. *)
From Coq Require Import List ZArith QArith Bool Arith Lia ZifyBool ZifyNat.
From PV Require Import C06.Model C06.Spec C06.Proofs MiniTorch.OpsC06 MiniTorch.LemmasC06 MiniTorch.OpsC06B
  MiniTorch.LemmasC06B C06.SrcRun C06.TieRun C06.TieSrc C06.TieTop.
Import ListNotations.
Local Open Scope Z_scope.

Lemma nth_firstn_lt {A} (d : A) : forall (Y : list A) m j, (j < m)%nat -> nth j (firstn m Y) d = nth j Y d.
Proof.
  induction Y as [|y Y IH]; intros m j H; [rewrite firstn_nil; reflexivity|].
  destruct m as [|m]; [lia|]. destruct j as [|j]; [reflexivity|]. cbn [firstn nth]. apply IH. lia.
Qed.

(* a rectangular history as a tabulated 2-D tensor *)
Lemma hist_T2 (rows : list (list Z)) B : rect rows B ->
  hist_tensor rows B = T2 (seq 0 (length rows)) (seq 0 B) (fun r bi => CI (nth bi (nth r rows []) 0)).
Proof.
  intros Hr. unfold hist_tensor, T2. rewrite !seq_length. f_equal. apply (concat_rect_tab rows B Hr).
Qed.

Lemma ivec_T1 (xs : list Z) : ivec xs = T1 (seq 0 (length xs)) (fun bi => CI (nth bi xs 0)).
Proof. unfold ivec. change (T6 [length xs] (map CI xs)) with (T1 xs CI). apply (T1_positions CI 0 xs). Qed.

Lemma arange_seq (m : nat) : arange (Z.of_nat m) = Some (T1 (seq 0 m) (fun i => CI (Z.of_nat i))).
Proof. unfold arange, T1. replace (0 <=? Z.of_nat m) with true by lia. rewrite Nat2Z.id, seq_length. reflexivity. Qed.

Lemma batch_rows_nth b sh hist B (l : list nat) : length l = B ->
  batch_rows b sh hist B l = map (fun bi => elem_row b sh (column hist bi) (nth bi l 0%nat)) (seq 0 B).
Proof.
  intros <-. unfold batch_rows.
  assert (H : forall (s : nat) (l : list nat),
             combine (seq s (length l)) l = map (fun bi => (bi, nth (bi - s) l 0%nat)) (seq s (length l))).
  { intros s l0. revert s. induction l0 as [|x l0 IH]; intros s; [reflexivity|]. cbn [length seq combine map].
    rewrite Nat.sub_diag. cbn [nth]. f_equal. rewrite IH. apply map_ext_in. intros bi Hbi. apply in_seq in Hbi.
    replace (bi - s)%nat with (S (bi - S s)) by lia. reflexivity. }
  rewrite H, map_map. apply map_ext. intros bi. cbn [fst snd]. rewrite Nat.sub_0_r. reflexivity.
Qed.

Section Vec.
  Variable b : bufs.
  Variable sh : shape.
  Variable hist : list (list Z).
  Variable B : nat.
  Variable l : list nat.             (* the index of every batch element *)

  Let Vn := Z.to_nat (vocab sh).
  Local Notation N := (Z.of_nat (order sh)).
  Local Notation n := (order sh).

  Hypothesis Hrect : rect hist B.
  Hypothesis HlB : length l = B.
  Hypothesis Hil : Forall (fun i => (i <= length hist)%nat) l.

  Definition ix (bi : nat) : nat := nth bi l 0%nat.
  Definition ws_vec : list (list Z) := map (fun bi => ctx_of sh hist (ix bi) bi) (seq 0 B).

  Lemma ix_le bi : (bi < B)%nat -> (ix bi <= length hist)%nat.
  Proof. intros Hb. rewrite Forall_forall in Hil. apply Hil. apply nth_In. lia. Qed.

  (* the per-element window selection on the (padded) history *)
  Lemma window_vec (k : nat) (rem hmin : Z) :
    (2 <= B)%nat -> (2 <= n)%nat -> (k <= n - 1)%nat -> (forall bi, (bi < B)%nat -> (n - 1 <= ix bi + k)%nat) ->
    window_fn (hist_tensor (repeat (repeat (sos sh) B) k ++ hist) B) (ivec (map (fun i => Z.of_nat (i + k)) l))
      (Z.of_nat B) N rem hmin
    = Some (wt sh B ws_vec).
  Proof.
    intros HB Hn Hk Hik.
    set (rows := repeat (repeat (sos sh) B) k ++ hist).
    assert (Hrows : rect rows B).
    { apply Forall_app. split; [|exact Hrect]. apply Forall_forall. intros r Hr. apply repeat_spec in Hr. subst r.
      apply repeat_length. }
    assert (HL : length rows = (k + length hist)%nat) by (unfold rows; rewrite app_length, repeat_length; reflexivity).
    set (hx' := fun bi => Z.of_nat (ix bi + k)).
    assert (Hidx : ivec (map (fun i => Z.of_nat (i + k)) l) = T1 (seq 0 B) (fun bi => CI (hx' bi))).
    { rewrite ivec_T1, map_length, HlB. apply T1_ext. intros bi Hbi. apply in_seq in Hbi. f_equal. unfold hx', ix.
      rewrite (nth_indep _ 0 (Z.of_nat (0 + k))) by (rewrite map_length; lia).
      apply (map_nth (fun i => Z.of_nat (i + k)) l 0%nat). }
    unfold window_fn. rewrite Hidx.
    replace (Z.of_nat (numel (T1 (seq 0 B) (fun bi => CI (hx' bi)))) =? 1) with false
      by (unfold numel, T1; cbn [sh6 prodn fold_right]; rewrite seq_length; lia).
    replace (size (hist_tensor rows B) 0) with (Some (length rows)) by reflexivity. cbn [bo].
    rewrite arange_seq. cbn [bo]. rewrite unsqueeze_T1. cbn [bo].
    unfold sub_s. rewrite (map_cells_TC (seq 0 B) _ _ (fun bi => CI (hx' bi - N))) by reflexivity. cbn [bo].
    unfold lt. rewrite (bc2_outer (seq 0 B) (seq 0 (length rows)) (cmpc Z.ltb) _ _
                          (fun bi r => CB (hx' bi - N <? Z.of_nat r))) by reflexivity. cbn [bo].
    unfold gt. rewrite (bc2_outer (seq 0 B) (seq 0 (length rows)) (cmpc Z.gtb) _ _
                          (fun bi r => CB (hx' bi >? Z.of_nat r))) by reflexivity. cbn [bo].
    unfold band. rewrite (bc2_T2 (seq 0 B) (seq 0 (length rows)) andc _ _
                            (fun bi r => CB ((hx' bi - N <? Z.of_nat r) && (hx' bi >? Z.of_nat r)))) by reflexivity.
    cbn [bo].
    rewrite (hist_T2 rows B Hrows), transpose_T2. cbn [bo].
    rewrite masked_select_T2. cbn [bo]. cbv zeta.
    (* every row of the selection is the context window of its batch element *)
    set (G := fun bi j => CI (nth j (ctx_of sh hist (ix bi) bi) 0)).
    assert (Hd : flat_map (fun bi => map (fun r => CI (nth bi (nth r rows []) 0))
                                         (filter (fun r => (hx' bi - N <? Z.of_nat r) && (hx' bi >? Z.of_nat r))
                                                 (seq 0 (length rows)))) (seq 0 B)
                 = flat_map (fun bi => map (G bi) (seq 0 (n - 1))) (seq 0 B)).
    { apply flat_map_ext_in. intros bi Hbi. apply in_seq in Hbi. pose proof (ix_le bi ltac:(lia)) as Hi.
      pose proof (Hik bi ltac:(lia)) as Hk2.
      rewrite (filter_ext _ (fun r => Nat.leb (ix bi + k - (n - 1)) r && Nat.ltb r (ix bi + k))).
      2:{ intros r. unfold hx'.
          destruct (Nat.leb (ix bi + k - (n - 1)) r) eqn:A, (Nat.ltb r (ix bi + k)) eqn:A2;
            try apply Nat.leb_le in A; try apply Nat.leb_gt in A;
            try apply Nat.ltb_lt in A2; try apply Nat.ltb_ge in A2; lia. }
      rewrite filter_range by lia.
      replace (ix bi + k - (ix bi + k - (n - 1)))%nat with (n - 1)%nat by lia.
      rewrite <- (Nat.add_0_r (ix bi + k - (n - 1))) at 1.
      rewrite <- (map_seq_add (fun r => CI (nth bi (nth r rows []) 0)) (ix bi + k - (n - 1)) (n - 1) 0).
      apply map_ext_in. intros j Hj. apply in_seq in Hj. unfold G, ctx_of. f_equal.
      rewrite <- (window_padded (sos sh) k (ix bi) n (column hist bi)) by (rewrite ?column_length; lia).
      rewrite nth_firstn_lt by lia. rewrite <- nth_skipn'.
      rewrite <- (column_repeat (sos sh) B k bi) by lia. rewrite <- column_app. fold rows.
      symmetry. apply nth_column. }
    rewrite Hd.
    pose proof (view_T2 (seq 0 B) (seq 0 (n - 1)) G) as Hv. cbv zeta in Hv. rewrite !seq_length in Hv.
    replace (N - 1) with (Z.of_nat (n - 1)) by lia. rewrite Hv. cbn [bo]. rewrite transpose_T2. f_equal.
    unfold wt. apply T2_ext. intros j bi _ Hbi. apply in_seq in Hbi. unfold G, win, ws_vec. f_equal. f_equal.
    rewrite nth_map_seq by lia. reflexivity.
  Qed.

  Hypothesis Hlens : lens_ok b sh = true.
  Hypothesis Ho : (1 <= n)%nat.
  Hypothesis HV : 1 <= vocab sh.
  Hypothesis HVP : vocab sh <= zlen (logps b).
  Hypothesis HS : Z.of_nat (maxdesc sh) <= vocab sh + 1.
  Hypothesis HB : (2 <= B)%nat.
  Hypothesis Hsafe : (2 <= n)%nat -> forall bi v h, (bi < B)%nat -> (v < Vn)%nat -> N - 1 <= h ->
    lookup1_safe b sh h (mapwin sh (ctx_of sh hist (ix bi) bi)) (Z.of_nat v).

  Theorem lookup_fn_vec :
    lookup_fn (hist_tensor hist B) (idx_tensor (Vec (map Z.of_nat l))) (ivec (offsets b)) (ivec (ids b))
      (fvec (logps b)) (fvec (logbs b)) (sos sh) (vocab sh) N (gnodes sh) (Z.of_nat (maxdesc sh))
    = Some (rows_tensor B Vn (batch_rows b sh hist B l)).
  Proof.
    unfold lookup_fn. rewrite size_hist. cbn [bo]. cbv zeta. unfold idx_tensor.
    rewrite !(numel_ivec sh), !(numel_fvec sh). rewrite (usize_eq sh Ho). rewrite shift_eq.
    replace (N =? 0) with false by lia.
    assert (H1 : (zlen (ids b) =? zlen (offsets b) + gnodes sh - usize sh) = true)
      by (unfold lens_ok, psize, osize in Hlens; lia).
    assert (H2 : (zlen (logps b) =? zlen (offsets b) + gnodes sh) = true) by (unfold lens_ok, psize, osize in Hlens; lia).
    assert (H3 : (zlen (logbs b) =? zlen (offsets b)) = true) by (unfold lens_ok, psize, osize in Hlens; lia).
    rewrite H1, H2, H3. cbn [andb].
    change (zlen (offsets b) + gnodes sh) with (psize b sh). change (zlen (offsets b)) with (osize b).
    replace (zlen (map Z.of_nat l) =? 0) with false by (unfold zlen; rewrite map_length; lia).
    rewrite (slice_logps b sh HVP) by lia. cbn [bo]. fold Vn.
    rewrite (batch_rows_nth b sh hist B l HlB). unfold rows_tensor.
    destruct (Nat.eqb_spec n 1) as [E1|E1].
    - (* unigram model *)
      replace (N =? 1) with true by lia. unfold expand. cbn [nats_of]. replace (0 <=? Z.of_nat B) with true by lia.
      replace (0 <=? vocab sh) with true by lia. cbn [option_map sh6 dt6 T1]. rewrite !Nat2Z.id. fold Vn.
      rewrite seq_length, Nat.eqb_refl.
      f_equal. f_equal. unfold elem_row. rewrite E1. cbn [Nat.eqb]. fold Vn.
      rewrite (firstn_map_nth (logps b) NaN Vn) by (unfold Vn, zlen in *; lia).
      rewrite repeat_as_map, concat_map, !map_map. f_equal. apply map_ext. intros _.
      apply map_ext. intros v. unfold zget. replace (Z.of_nat v <? 0) with false by lia. rewrite Nat2Z.id. reflexivity.
    - assert (HN2 : (2 <= n)%nat) by lia.
      replace (N =? 1) with false by lia.
      assert (Hex : exists i0 r, l = i0 :: r) by (clear - HlB HB; destruct l as [|i0 r]; [cbn in HlB; lia|eauto]).
      destruct Hex as (i0 & r & El).
      set (m := fold_right Z.min (Z.of_nat i0) (map Z.of_nat r)).
      assert (Htmin : tmin (ivec (map Z.of_nat l)) = Some (T6 [] [CI m])).
      { unfold tmin, ivec. cbn [dt6]. rewrite map_map. cbn [int_of]. rewrite sequence_map_some, map_id. rewrite El. reflexivity. }
      rewrite Htmin. cbn [bo]. unfold item. cbn [dt6 numel sh6 prodn fold_right Nat.eqb bo].
      assert (Hm_le : forall i, In i l -> m <= Z.of_nat i).
      { intros i Hi. apply fold_min_le. change (In (Z.of_nat i) (map Z.of_nat (i0 :: r))). rewrite <- El.
        apply in_map. assumption. }
      assert (Hm_in : exists im, In im l /\ m = Z.of_nat im).
      { pose proof (fold_min_in (Z.of_nat i0) (map Z.of_nat r)) as H.
        change (In m (map Z.of_nat (i0 :: r))) in H. rewrite <- El in H. apply in_map_iff in H as (im & E & Hin). eauto. }
      set (k := if 0 <? N - 1 - m then Z.to_nat (N - 1 - m) else 0%nat).
      assert (Hk : (k <= n - 1)%nat /\ forall i, In i l -> (n - 1 <= i + k)%nat).
      { destruct Hm_in as (im & Him & Em). subst k. destruct (0 <? N - 1 - m) eqn:Ep.
        - split; [lia|]. intros i Hi. specialize (Hm_le i Hi). lia.
        - split; [lia|]. intros i Hi. specialize (Hm_le i Hi). lia. }
      destruct Hk as [Hk1 Hk2].
      assert (Hik : forall bi, (bi < B)%nat -> (n - 1 <= ix bi + k)%nat).
      { intros bi Hb. apply Hk2. apply nth_In. lia. }
      set (hexp := map (fun i => Z.of_nat (i + k)) l).
      assert (Hhx : forall bi, (bi < B)%nat -> hx hexp bi = Z.of_nat (ix bi + k)).
      { intros bi Hb. unfold hx, hexp, ix. rewrite (nth_indep _ 0 (Z.of_nat (0 + k))) by (rewrite map_length; lia).
        apply (map_nth (fun i => Z.of_nat (i + k)) l 0%nat). }
      assert (Hexp : (do hi <- as_int (ivec hexp); expand hi [Z.of_nat B]) = Some (T1 (seq 0 B) (fun bi => CI (hx hexp bi)))).
      { change (ivec hexp) with (T1 hexp CI). rewrite as_int_T1. cbn [bo]. unfold expand, T1. cbn [nats_of].
        replace (0 <=? Z.of_nat B) with true by lia. cbn [option_map sh6 dt6]. rewrite Nat2Z.id.
        assert (Hl' : length hexp = B) by (unfold hexp; rewrite map_length; exact HlB).
        rewrite Hl', Nat.eqb_refl, seq_length. f_equal. f_equal. unfold hx.
        rewrite <- Hl'. apply (map_nth_positions CI 0 hexp). }
      assert (Hlw : length ws_vec = B) by (unfold ws_vec; rewrite map_length, seq_length; reflexivity).
      assert (Hnw : forall bi, (bi < B)%nat -> nth bi ws_vec [] = ctx_of sh hist (ix bi) bi).
      { intros bi Hb. unfold ws_vec. rewrite nth_map_seq by lia. reflexivity. }
      assert (Hlen : forall bi, (bi < B)%nat -> length (nth bi ws_vec []) = (n - 1)%nat).
      { intros bi Hb. rewrite Hnw by exact Hb. apply context_length. }
      assert (Hwm : forall bi, (bi < B)%nat -> win (map (mapwin sh) ws_vec) bi = mapwin sh (ctx_of sh hist (ix bi) bi)).
      { intros bi Hb. unfold win. rewrite (nth_indep _ [] (mapwin sh [])) by (rewrite map_length; lia).
        rewrite map_nth, Hnw by exact Hb. reflexivity. }
      (* the result of main_tab is the model's rows *)
      assert (Hres : T6 [B; Vn] (map (fun e => CF (fl_of (lookup1 b sh (hx hexp (fst e)) (win (map (mapwin sh) ws_vec) (fst e)) (Z.of_nat (vof e))))) (nl B Vn))
                = T6 [B; Vn] (map (fun v => CF (fl_of v)) (concat (map (fun bi => elem_row b sh (column hist bi) (nth bi l 0%nat)) (seq 0 B))))).
      { f_equal. unfold elem_row. replace (n =? 1)%nat with false by lia.
        rewrite (rows_nl sh B (fun bi => lookup1 b sh (N - 1) (mapwin sh (context n (sos sh) (firstn (nth bi l 0%nat) (column hist bi)))))).
        apply map_ext_in. intros e He. apply nl_in in He as (bi & v & -> & Hb & Hv). cbn [fst snd vof].
        rewrite Hwm by exact Hb. rewrite (Hhx bi Hb). specialize (Hik bi Hb). f_equal. f_equal.
        apply lookup1_hidx; rewrite mapwin_length; unfold ctx_of; rewrite context_length; lia. }
      rewrite <- Hres.
      assert (Hsf : forall bi v, (bi < B)%nat -> (v < Vn)%nat ->
                lookup1_safe b sh (hx hexp bi) (win (map (mapwin sh) ws_vec) bi) (Z.of_nat v)).
      { intros bi v Hb Hv. rewrite Hwm by exact Hb. apply Hsafe; try assumption. rewrite (Hhx bi Hb).
        specialize (Hik bi Hb). lia. }
      destruct (0 <? N - 1 - m) eqn:Epad.
      + (* some history is too short: all are left-padded with sos *)
        assert (Ek : N - 1 - m = Z.of_nat k) by (unfold k; try rewrite Epad; lia).
        rewrite Ek. rewrite (full_pad sh B k). cbn [bo]. rewrite (cat_pad sh hist B k). cbn [bo].
        assert (Hadd : add_s (ivec (map Z.of_nat l)) (Z.of_nat k) = Some (ivec hexp)).
        { change (ivec (map Z.of_nat l)) with (T1 (map Z.of_nat l) CI). unfold add_s.
          rewrite (map_cells_T1 _ _ _ (fun z => CI (z + Z.of_nat k))) by reflexivity.
          unfold T1, ivec, hexp. rewrite !map_length, !map_map. f_equal. f_equal. apply map_ext. intros i. f_equal. lia. }
        rewrite Hadd. cbn [bo].
        apply (main_tab b sh B ws_vec hexp); try assumption; try lia.
        apply (window_vec k); assumption.
      + assert (Ek : k = 0%nat) by (unfold k; try rewrite Epad; reflexivity).
        assert (Hhe : map Z.of_nat l = hexp).
        { unfold hexp. apply map_ext. intros i. rewrite Ek. f_equal. lia. }
        rewrite Hhe.
        apply (main_tab b sh B ws_vec hexp); try assumption; try lia.
        pose proof (window_vec k (N - 1 - m) m HB HN2 Hk1 Hik) as Hw. rewrite Ek in Hw at 1. cbn [repeat app] in Hw.
        exact Hw.
  Qed.
End Vec.
