(* MiniTorch, unit C19 - the algebra of OpsC19.v needed by the C19 tie (no new definitions of meaning). *)
From Coq Require Import List ZArith QArith Bool Arith Lia.
From PV Require Import MiniTorch.Ops MiniTorch.Lemmas MiniTorch.OpsC19.
Import ListNotations.

(* ---- shapes, map2 ---------------------------------------------------------------------------------- *)
Lemma shape_eqb_refl : forall s, shape_eqb s s = true.
Proof. induction s as [|x s IH]; [reflexivity|]. cbn. now rewrite Nat.eqb_refl. Qed.

Lemma shape_eqb_eq : forall a b, shape_eqb a b = true -> a = b.
Proof.
  induction a as [|x a IH]; intros [|y b] H; try discriminate; [reflexivity|].
  cbn in H. apply andb_prop in H. destruct H as [H1 H2]. apply Nat.eqb_eq in H1. f_equal; auto.
Qed.

Lemma map2_length : forall f a b, length a = length b -> length (map2 f a b) = length a.
Proof. intros f a b H. unfold map2. rewrite map_length, combine_length. lia. Qed.

Lemma map2_cons : forall f x a y b, map2 f (x :: a) (y :: b) = f x y :: map2 f a b.
Proof. reflexivity. Qed.

Lemma map2_maps : forall {A B} f (g : A -> Q) (h : B -> Q) a b,
  map2 f (map g a) (map h b) = map (fun xy => f (g (fst xy)) (h (snd xy))) (combine a b).
Proof.
  intros A B f g h. induction a as [|x a IH]; intros [|y b]; try reflexivity.
  cbn [map]. rewrite map2_cons. cbn [combine map fst snd]. now rewrite IH.
Qed.

Lemma nth_map2 : forall f a b i, length a = length b -> (i < length a)%nat ->
  nth i (map2 f a b) 0%Q = f (nth i a 0%Q) (nth i b 0%Q).
Proof.
  intros f. induction a as [|x a IH]; intros [|y b] i Hl Hi; cbn [length] in *; try lia.
  rewrite map2_cons. destruct i; [reflexivity|]. cbn [nth]. apply IH; lia.
Qed.

(* ---- integers inside Q --------------------------------------------------------------------------------- *)
Lemma Qred_z_minus : forall a b, Qred (inject_Z a - inject_Z b) = inject_Z (a - b).
Proof.
  intros. rewrite <- (Qred_inject_Z (a - b)). apply Qred_complete.
  unfold Qeq, Qminus, Qplus, Qopp, inject_Z. cbn. lia.
Qed.

Lemma Qred_z_plus : forall a b, Qred (inject_Z a + inject_Z b) = inject_Z (a + b).
Proof.
  intros. rewrite <- (Qred_inject_Z (a + b)). apply Qred_complete.
  unfold Qeq, Qplus, inject_Z. cbn. lia.
Qed.

Lemma Qred_z_mult : forall a b, Qred (inject_Z a * inject_Z b) = inject_Z (a * b).
Proof.
  intros. rewrite <- (Qred_inject_Z (a * b)). apply Qred_complete.
  unfold Qeq, Qmult, inject_Z. cbn. lia.
Qed.

Lemma Qle_bool_z : forall a b, Qle_bool (inject_Z a) (inject_Z b) = (a <=? b)%Z.
Proof. intros. unfold Qle_bool, inject_Z. cbn. now rewrite !Z.mul_1_r. Qed.

Lemma Qeq_bool_z : forall a b, Qeq_bool (inject_Z a) (inject_Z b) = (a =? b)%Z.
Proof.
  intros. destruct (Z.eqb_spec a b) as [E|E].
  - subst. apply Qeq_bool_iff. reflexivity.
  - destruct (Qeq_bool (inject_Z a) (inject_Z b)) eqn:H; [|reflexivity].
    apply Qeq_bool_iff in H. unfold Qeq, inject_Z in H. cbn in H. lia.
Qed.

Lemma qmax_z : forall c x, qmax (inject_Z c) (inject_Z x) = inject_Z (Z.max x c).
Proof.
  intros. unfold qmax. rewrite Qle_bool_z. destruct (Z.leb_spec c x); f_equal; lia.
Qed.

Lemma qmin_z : forall c x, qmin (inject_Z c) (inject_Z x) = inject_Z (Z.min x c).
Proof.
  intros. unfold qmin. rewrite Qle_bool_z. destruct (Z.leb_spec x c); f_equal; lia.
Qed.

Lemma int_of_q_z : forall z, int_of_q (inject_Z z) = z.
Proof. intros. unfold int_of_q, inject_Z. cbn. apply Z.quot_1_r. Qed.

Lemma is_int_q_z : forall z, is_int_q (inject_Z z) = true.
Proof. intros. unfold is_int_q. rewrite int_of_q_z. apply Qeq_bool_iff. reflexivity. Qed.

Lemma qbool_z : forall b, qbool b = inject_Z (if b then 1 else 0).
Proof. destruct b; reflexivity. Qed.

Lemma qtrue_qbool : forall b, qtrue (qbool b) = b.
Proof. destruct b; reflexivity. Qed.

Lemma q_gt_z : forall a b, q_gt (inject_Z a) (inject_Z b) = (b <? a)%Z.
Proof. intros. unfold q_gt. rewrite Qle_bool_z. now rewrite Z.ltb_antisym. Qed.

Lemma q_lt_z : forall a b, q_lt (inject_Z a) (inject_Z b) = (a <? b)%Z.
Proof. intros. unfold q_lt. rewrite Qle_bool_z. now rewrite Z.ltb_antisym. Qed.

(* ---- max of a list of integers ------------------------------------------------------------------------ *)
Definition zmax1 (a : Z) (r : list Z) : Z := fold_left Z.max r a.

Lemma fold_left_qmax_z : forall r a, fold_left qmax (map inject_Z r) (inject_Z a) = inject_Z (zmax1 a r).
Proof.
  induction r as [|x r IH]; intros a; [reflexivity|]. cbn [map fold_left]. unfold zmax1. cbn [fold_left].
  rewrite qmax_z. rewrite IH. f_equal. unfold zmax1. f_equal. lia.
Qed.

Lemma max_all_z : forall sh a r, max_all (mkTens sh (map inject_Z (a :: r))) = Some (inject_Z (zmax1 a r)).
Proof. intros. unfold max_all. cbn [tdata map]. now rewrite fold_left_qmax_z. Qed.

Lemma zmax1_ge_init : forall r a, (a <= zmax1 a r)%Z.
Proof.
  induction r as [|x r IH]; intros a; unfold zmax1; cbn [fold_left]; [lia|].
  specialize (IH (Z.max a x)). unfold zmax1 in IH. lia.
Qed.

Lemma zmax1_cons : forall a y r, zmax1 a (y :: r) = zmax1 (Z.max a y) r.
Proof. reflexivity. Qed.

Lemma zmax1_ge : forall r a x, In x (a :: r) -> (x <= zmax1 a r)%Z.
Proof.
  induction r as [|y r IH]; intros a x H.
  - destruct H as [H|[]]. subst. unfold zmax1. cbn. lia.
  - rewrite zmax1_cons. pose proof (IH (Z.max a y) (Z.max a y) (or_introl eq_refl)) as Hm.
    destruct H as [H|[H|H]]; subst; try lia. apply IH. now right.
Qed.

Lemma zmax1_in : forall r a, In (zmax1 a r) (a :: r).
Proof.
  induction r as [|y r IH]; intros a; [now left|].
  rewrite zmax1_cons. destruct (IH (Z.max a y)) as [H|H].
  - rewrite <- H. destruct (Z.max_spec a y) as [[_ E]|[_ E]]; rewrite E; [right; now left|now left].
  - right. now right.
Qed.

(* ---- lists ---------------------------------------------------------------------------------------------- *)
Lemma existsb_map' : forall {A B} (f : B -> bool) (g : A -> B) l, existsb f (map g l) = existsb (fun x => f (g x)) l.
Proof. induction l as [|x l IH]; [reflexivity|]. cbn. now rewrite IH. Qed.

Lemma existsb_ext' : forall {A} (f g : A -> bool) l, (forall x, f x = g x) -> existsb f l = existsb g l.
Proof. intros A f g l H. induction l as [|x l IH]; [reflexivity|]. cbn. now rewrite H, IH. Qed.

Lemma forallb_map' : forall {A B} (f : B -> bool) (g : A -> B) l, forallb f (map g l) = forallb (fun x => f (g x)) l.
Proof. induction l as [|x l IH]; [reflexivity|]. cbn. now rewrite IH. Qed.

Lemma forallb_true' : forall {A} (f : A -> bool) l, (forall x, f x = true) -> forallb f l = true.
Proof. intros A f l H. induction l as [|x l IH]; [reflexivity|]. cbn. now rewrite H, IH. Qed.

Lemma numel_app : forall a b, numel (a ++ b) = (numel a * numel b)%nat.
Proof.
  induction a as [|x a IH]; intros b.
  - cbn [app]. unfold numel at 2. cbn [fold_right]. lia.
  - change (numel ((x :: a) ++ b)) with (x * numel (a ++ b))%nat. change (numel (x :: a)) with (x * numel a)%nat. rewrite IH. lia.
Qed.

Lemma numel_cons : forall n sh, numel (n :: sh) = (n * numel sh)%nat.
Proof. reflexivity. Qed.

Lemma length_tab2 : forall n m f, length (tdata (tab2 n m f)) = (n * m)%nat.
Proof.
  intros. unfold tab2. cbn [tdata]. rewrite (length_flat_map_const _ _ m).
  - now rewrite seq_length.
  - intros a _. now rewrite map_length, seq_length.
Qed.

Lemma Qcompare_z : forall a b, (inject_Z a ?= inject_Z b)%Q = (a ?= b)%Z.
Proof. intros. unfold Qcompare, inject_Z. cbn. now rewrite !Z.mul_1_r. Qed.

Lemma length_concat_uniform : forall {A} (rows : list (list A)) N,
  Forall (fun r => length r = N) rows -> length (concat rows) = (length rows * N)%nat.
Proof.
  intros A rows N H. induction H as [|r rs Hr _ IH]; [reflexivity|]. cbn [concat length]. rewrite app_length, IH, Hr. lia.
Qed.
