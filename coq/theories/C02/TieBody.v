(* C02 - the WHOLE body of `_string_matching` as one term (PV.Gen.C02Src.er_body): it is the sequence of the blocks
   er_pre; er_row0; <flag block; loop; exits; gather>; er_fin, where the loop differs from er_loop only in the name of a
   tuple-unpacking temporary of the cost-only branch (the translator numbers them per translated term).  The loop body
   is run again with the scripts of TieLoop / TieLoopU; everything else is literally the blocks. *)
From Coq Require Import ZArith QArith List String Bool Arith Lia ZifyBool ZifyNat.
From PV Require Import MiniPy.Syntax MiniPy.Interp MiniPy.Lemmas MiniTorch.Ops MiniTorch.Lemmas MiniTorch.OpsC07 MiniTorch.LemmasC07
  MiniTorch.OpsC01 MiniTorch.LemmasC01 MiniTorch.OpsC02 MiniTorch.LemmasC02.
From PV Require Import Gen.C02Src C01.SrcRun C01.TieLib C01.TieMath C02.SrcRun C02.TieLib C02.TieMath C02.TieInner C02.TieLoop C02.TieLoopU C02.TieBlocks C02.TieWhole.
From PV Require C01.Model C01.Proofs C02.Model.
Import ListNotations.
Local Open Scope string_scope.

#[local] Arguments dec01 : simpl never.
#[local] Arguments enc_b : simpl never.
#[local] Arguments enc_i : simpl never.
#[local] Arguments enc_x : simpl never.
#[local] Arguments tab2 : simpl never.
#[local] Arguments tab3 : simpl never.
#[local] Arguments qz : simpl never.
#[local] Arguments Z.add : simpl never.
#[local] Arguments Z.sub : simpl never.
#[local] Arguments Z.of_nat : simpl never.
#[local] Arguments select0 : simpl never.
#[local] Arguments set_select0 : simpl never.
#[local] Arguments slice0 : simpl never.
#[local] Arguments set_slice0 : simpl never.
#[local] Arguments broadcast : simpl never.
#[local] Arguments where_f : simpl never.
#[local] Arguments min_dim : simpl never.
#[local] Arguments gather0 : simpl never.
#[local] Arguments unsqueeze : simpl never.
#[local] Arguments squeeze_dim : simpl never.
#[local] Arguments expand2 : simpl never.
#[local] Arguments triu_f : simpl never.
#[local] Arguments transpose2 : simpl never.
#[local] Arguments arange_f : simpl never.
#[local] Arguments full : simpl never.
#[local] Arguments fadd : simpl never.
#[local] Arguments fsub : simpl never.
#[local] Arguments fmul : simpl never.
#[local] Arguments fdiv : simpl never.
#[local] Arguments fmin : simpl never.
#[local] Arguments fge : simpl never.
#[local] Arguments b2f : simpl never.
#[local] Arguments z2f : simpl never.
#[local] Arguments ext01 : simpl never.
#[local] Arguments ext02 : simpl never.
#[local] Arguments zf : simpl never.
#[local] Arguments ofx : simpl never.
#[local] Arguments argmin_3 : simpl never.
#[local] Arguments seq : simpl never.
#[local] Arguments fmin_list : simpl never.
#[local] Arguments zrange : simpl never.
#[local] Arguments sw : simpl never.
#[local] Arguments swp : simpl never.

Definition loop3 : stmt := match seq_drop 19 er_body with SSeq a _ => a | _ => SPass end.
Definition body3 : stmt := match loop3 with SFor _ _ b => b | _ => SPass end.
Lemma loop3_eq : loop3 = SFor "hyp_idx" loop_iter body3.
Proof. reflexivity. Qed.

Lemma er_body_split : forall st,
  exec ext02 er_body st =
  exec ext02 (SSeq er_pre (SSeq er_row0 (SSeq (SSeq main_flags (SSeq loop3 main_rest)) er_fin))) st.
Proof. intros st. rewrite !exec_flatten. f_equal. Qed.

Section Body3.
  Variables (s : positive) (ci cd cs : Z) (R N H : nat) (rf hf : nat -> nat -> Z) (hl : nat -> nat).
  Variables (vrl vmult vnorm vwarn : val).

  Theorem body_run3 : forall st k lf mf, (1 <= k <= H)%nat -> body_pre s ci cd cs R N H rf hf hl vrl vmult vnorm vwarn lf mf st ->
    runs_to (body_pre s ci cd cs R N H rf hf hl vrl vmult vnorm vwarn
               (fun i n => nth i (fst (step_col ci cd cs R H rf hf hl k lf mf n)) 0%Z)
               (fun i n => nth i (snd (step_col ci cd cs R H rf hf hl k lf mf n)) 0%Z))
            (exec ext02 body3 (set_var "hyp_idx" (VInt (Z.of_nat k)) st)).
  Proof.
    intros st k lf mf Hk (Hexcl & Hmist & Hmask & Hprf & Hhl & Href & Hhyp & Hci & Hcs & Hcd & Hmr & Hrl & Hmu & Hno & Hwa & Hrow & Hmi).
    unfold body3, loop3, er_body. cbn [seq_drop]. cbv iota. unfold step_col.
    body_script s ci cd cs R N H rf hf hl lf mf k Hk.
  Qed.

  Theorem body_runU3 : forall st k lf, (1 <= k <= H)%nat -> body_preU s ci cd cs R N H rf hf hl vrl vmult vnorm vwarn lf st ->
    runs_to (body_preU s ci cd cs R N H rf hf hl vrl vmult vnorm vwarn (fun i n => nth i (step_colU ci cd cs R H rf hf hl k lf n) 0%Z))
            (exec ext02 body3 (set_var "hyp_idx" (VInt (Z.of_nat k)) st)).
  Proof.
    intros st k lf Hk (Hexcl & Hmist & Hmask & Hprf & Hhl & Href & Hhyp & Hci & Hcs & Hdm & Hrl & Hmu & Hno & Hwa & Hrow).
    unfold body3, loop3, er_body. cbn [seq_drop]. cbv iota. unfold step_colU. body_scriptU k Hk.
  Qed.
End Body3.

Lemma loop3_ok : loop_ok loop3.
Proof.
  split; intros; rewrite loop3_eq.
  - apply (loop_tie_gen s ci cd cs R N H rf hf hl vrl vmult vnorm vwarn body3); [apply body_run3|assumption|assumption].
  - apply (loop_tie_genU s ci cd cs R N H rf hf hl vrl vmult vnorm vwarn body3); [apply body_runU3|assumption|assumption].
Qed.
