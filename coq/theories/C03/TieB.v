(* C03, second tie - the blocks of `hard_optimal_completion_distillation_loss` (PV.Gen.C03BSrc.loss_checks / loss_call / loss_ce /
   loss_red), interpreted with SrcRunB.ext03B on tabulated tensors: closed forms of what the statements leave (no interpreter in
   them).  TieBModel.v shows that these are PV.C03.Model.hard_ocd_loss; TieBWhole.v runs the whole body. *)
From Coq Require Import ZArith QArith List String Bool Arith Lia ZifyBool ZifyNat.
From PV Require Import MiniPy.Syntax MiniPy.Interp MiniPy.Lemmas MiniTorch.Ops MiniTorch.Lemmas MiniTorch.OpsC07 MiniTorch.LemmasC07
  MiniTorch.OpsC01 MiniTorch.LemmasC01 MiniTorch.OpsC03 MiniTorch.LemmasC03 MiniTorch.OpsC03B MiniTorch.LemmasC03B.
From PV Require Import Gen.C03Src Gen.C03BSrc C01.SrcRun C01.TieLib C03.SrcRun C03.TieLib C03.TieOcLib C03.SrcRunB C03.TieBLib.
Import ListNotations.
Local Open Scope string_scope.

#[local] Arguments dec01 : simpl never.
#[local] Arguments enc_b : simpl never.
#[local] Arguments enc_i : simpl never.
#[local] Arguments enc_x : simpl never.
#[local] Arguments tab2 : simpl never.
#[local] Arguments tab3 : simpl never.
#[local] Arguments tab4 : simpl never.
#[local] Arguments Z.add : simpl never.
#[local] Arguments Z.sub : simpl never.
#[local] Arguments Z.of_nat : simpl never.
#[local] Arguments Z.max : simpl never.
#[local] Arguments broadcast : simpl never.
#[local] Arguments unsqueeze : simpl never.
#[local] Arguments any_dim : simpl never.
#[local] Arguments sum_dim_b : simpl never.
#[local] Arguments sum_dim_f : simpl never.
#[local] Arguments expand4 : simpl never.
#[local] Arguments flatten_range : simpl never.
#[local] Arguments view_as : simpl never.
#[local] Arguments size_dim : simpl never.
#[local] Arguments cross_entropy_none : simpl never.
#[local] Arguments masked_fill : simpl never.
#[local] Arguments div_xi : simpl never.
#[local] Arguments not_b : simpl never.
#[local] Arguments clamp_min_i : simpl never.
#[local] Arguments eq_s : simpl never.
#[local] Arguments sum_all_f : simpl never.
#[local] Arguments mean_all_f : simpl never.
#[local] Arguments fsum : simpl never.
#[local] Arguments fdiv : simpl never.
#[local] Arguments ce_entry : simpl never.
#[local] Arguments count_row : simpl never.
#[local] Arguments weight_val : simpl never.
#[local] Arguments ext01 : simpl never.
#[local] Arguments ext03 : simpl never.
#[local] Arguments ext03_sm : simpl never.
#[local] Arguments ext03_oc : simpl never.
#[local] Arguments ext03B : simpl never.
#[local] Arguments seq : simpl never.
#[local] Arguments call_body_oc : simpl never.

(* ---- loss_ce: from the logits (A x B x V) and ANY (A x B x C) targets to the un-reduced loss (A x B) ------------------------ *)
Section CE.
  Variable lsm : list fx -> list Q.
  Variables (A B C V : nat) (lf : nat -> nat -> nat -> fx) (tf : nat -> nat -> nat -> Z) (w : option (list Q)) (ign : Z).
  Variables (bfv redv : val).

  Definition ce_stage0 : list (string * val) :=
    [("logits", enc_x (mkTn [A; B; V] (tab3 A B V lf))); ("optimals", enc_i (mkTn [A; B; C] (tab3 A B C tf)));
     ("weight", weight_val w); ("ignore_index", VInt ign); ("batch_first", bfv); ("reduction", redv)].

  (* cross_entropy(..., reduction="none") at (a, b, c) *)
  Definition cef (a b c : nat) : fx := ce_entry lsm (option_map (map Fq) w) ign (map (lf a b) (seq 0 V)) (tf a b c).
  (* loss.masked_fill(padding_mask, 0.0).sum(2) / (~padding_mask).sum(2).clamp_min(1) *)
  Definition lossf (a b : nat) : fx :=
    fdiv (fsum (map (fun c => if (tf a b c =? ign)%Z then Fq 0 else cef a b c) (seq 0 C)))
         (z2f (Z.max (count_row (map (fun c => negb (tf a b c =? ign)%Z) (seq 0 C))) 1)).

  Definition ce_stage1 : list (string * val) :=
    [("loss", enc_x (mkTn [A; B] (tab2 A B lossf)));
     ("padding_mask", enc_b (mkTn [A; B; C] (tab3 A B C (fun a b c => (tf a b c =? ign)%Z))));
     ("batch_first", bfv); ("reduction", redv)].

  Hypothesis Hw : match w with Some wv => List.length wv = V | None => True end.
  Hypothesis Hok : forall a b c, (a < A)%nat -> (b < B)%nat -> (c < C)%nat -> class_ok ign V (tf a b c) = true.

  Lemma Hw' : match option_map (map Fq) w with Some wv => List.length wv = V | None => True end.
  Proof. destruct w as [wv|]; [|exact I]. cbn [option_map]. now rewrite map_length. Qed.

  Lemma ce_run : forall st, known3 st ce_stage0 ->
    runs_to (fun st' => known3 st' ce_stage1) (exec (ext03B lsm) loss_ce st).
  Proof.
    intros st K0. unfold ce_stage0 in K0. open_known3 K0. unfold loss_ce.
    asgb. asgb. asgb.
    assign3x ltac:(evnb; rewrite (cross_entropy_tab lsm A B C V lf tf _ ign Hw' Hok); evnb; reflexivity).
    asgb. asgb. asgb.
    apply runs_to_ok. unfold ce_stage1, lossf, cef. close_known3.
  Qed.
End CE.

(* ---- loss_red: the reductions, from ANY un-reduced loss (A x B) and padding mask (A x B x C) ----------------------------------- *)
Section Red.
  Variable lsm : list fx -> list Q.
  Variables (A B C : nat) (g : nat -> nat -> fx) (pm : nat -> nat -> nat -> bool).

  Definition red_stage (bf : bool) (red : string) : list (string * val) :=
    [("loss", enc_x (mkTn [A; B] (tab2 A B g))); ("padding_mask", enc_b (mkTn [A; B; C] (tab3 A B C pm)));
     ("batch_first", VBool bf); ("reduction", VStr red)].

  (* (~padding_mask).any(2) *)
  Definition hasf (a b : nat) : bool := existsb (fun x => x) (map (fun c => negb (pm a b c)) (seq 0 C)).
  (* loss.sum(seq_dim) / (~padding_mask).any(2).sum(seq_dim).clamp_min(1): seq_dim = 1 / 0 *)
  Definition seq_bf (a : nat) : fx :=
    fdiv (fsum (map (g a) (seq 0 B))) (z2f (Z.max (count_row (map (hasf a) (seq 0 B))) 1)).
  Definition seq_tf (b : nat) : fx :=
    fdiv (fsum (map (fun a => g a b) (seq 0 A))) (z2f (Z.max (count_row (map (fun a => hasf a b) (seq 0 A))) 1)).

  Lemma red_none : forall bf st, known3 st (red_stage bf "none") ->
    returns3 (enc_x (mkTn [A; B] (tab2 A B g))) (exec (ext03B lsm) loss_red st).
  Proof.
    intros bf st K0. unfold red_stage in K0. open_known3 K0. unfold loss_red.
    ifstepb. ifstepb. ifstepb. seqnorm3. cbn [exec eval]. look. cbn [bind]. eexists. reflexivity.
  Qed.

  Lemma red_sum : forall bf st, known3 st (red_stage bf "sum") ->
    returns3 (enc_x (sum_all_f (mkTn [A; B] (tab2 A B g)))) (exec (ext03B lsm) loss_red st).
  Proof.
    intros bf st K0. unfold red_stage in K0. open_known3 K0. unfold loss_red.
    ifstepb. ifstepb. asgb. cbn [exec eval]. look. cbn [bind]. eexists. reflexivity.
  Qed.

  Lemma red_mean_bf : forall st, known3 st (red_stage true "mean") ->
    returns3 (enc_x (mean_all_f (mkTn [A] (map seq_bf (seq 0 A))))) (exec (ext03B lsm) loss_red st).
  Proof.
    intros st K0. unfold red_stage in K0. open_known3 K0. unfold loss_red.
    ifstepb. asgb. asgb. cbn [exec eval]. look. cbn [bind]. eexists. reflexivity.
  Qed.

  Lemma red_mean_tf : forall st, known3 st (red_stage false "mean") ->
    returns3 (enc_x (mean_all_f (mkTn [B] (map seq_tf (seq 0 B))))) (exec (ext03B lsm) loss_red st).
  Proof.
    intros st K0. unfold red_stage in K0. open_known3 K0. unfold loss_red.
    ifstepb. asgb. asgb. cbn [exec eval]. look. cbn [bind]. eexists. reflexivity.
  Qed.

  (* any other string: RuntimeError (after everything has been computed) *)
  Lemma red_bad : forall bf red st, String.eqb red "mean" = false -> String.eqb red "sum" = false -> String.eqb red "none" = false ->
    known3 st (red_stage bf red) -> exists st', exec (ext03B lsm) loss_red st = Exc "RuntimeError" st'.
  Proof.
    intros bf red st E1 E2 E3 K0. unfold red_stage in K0. open_known3 K0. unfold loss_red.
    ifstep3_t ltac:(evnb; rewrite ?E1, ?E2, ?E3; reflexivity). cbn [negb truthy].
    ifstep3_t ltac:(evnb; rewrite ?E1, ?E2, ?E3; reflexivity). cbn [negb truthy].
    ifstep3_t ltac:(evnb; rewrite ?E1, ?E2, ?E3; reflexivity). cbn [negb truthy].
    cbn [exec bind]. eexists. reflexivity.
  Qed.
End Red.
