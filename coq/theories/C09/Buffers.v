(* C09 — _get_padding_buffers: the flat left / right buffers are the concatenation, row by row,
   of the left / right parts of the standard padding rule. *)
From Coq Require Import List Arith Bool Lia ZArith ZifyBool ZifyNat.
From PV Require Import C09.Model C09.Spec C09.Proofs.
Import ListNotations.
Local Open Scope nat_scope.

Section Parts.
  Context {A : Type}.

  Definition lpart (md : mode) (v : A) (l : nat) (s : list A) : list A :=
    match md with
    | Constant => repeat v l
    | Reflect => rev (firstn l (skipn 1 s))
    | Replicate => repeat (hd v s) l
    | OtherMode => []
    end.

  Definition rpart (md : mode) (v : A) (r : nat) (s : list A) : list A :=
    match md with
    | Constant => repeat v r
    | Reflect => firstn r (skipn 1 (rev s))
    | Replicate => repeat (last s v) r
    | OtherMode => []
    end.

  Lemma pad1_parts md v l r (s : list A) :
    md <> OtherMode -> pad1 md v l r s = lpart md v l s ++ s ++ rpart md v r s.
  Proof. destruct md; intros H; try reflexivity. congruence. Qed.

  Lemma lpart_length md v l r (s : list A) :
    legalb md l r (length s) = true -> length (lpart md v l s) = l.
  Proof.
    destruct md; cbn [legalb lpart]; intros H; try discriminate; rewrite ?repeat_length; try reflexivity.
    rewrite rev_length, firstn_length, skipn_length. lia.
  Qed.

  Lemma rpart_length md v l r (s : list A) :
    legalb md l r (length s) = true -> length (rpart md v r s) = r.
  Proof.
    destruct md; cbn [legalb rpart]; intros H; try discriminate; rewrite ?repeat_length; try reflexivity.
    rewrite firstn_length, skipn_length, rev_length. lia.
  Qed.

  (* ----- nth helpers (not in the 8.16 library) ----- *)
  Lemma nth_skipn (l : list A) k i d : nth i (skipn k l) d = nth (k + i) l d.
  Proof.
    revert l; induction k as [|k IH]; intros l; [reflexivity|].
    destruct l as [|a l]; [destruct i; reflexivity|]. cbn. apply IH.
  Qed.

  Lemma nth_firstn_lt (l : list A) n i d : i < n -> nth i (firstn n l) d = nth i l d.
  Proof.
    revert l i; induction n as [|n IH]; intros l i H; [lia|].
    destruct l as [|a l]; [reflexivity|]. destruct i as [|i]; [reflexivity|].
    cbn. apply IH. lia.
  Qed.

  Lemma firstn_snoc (l : list A) n d : n < length l -> firstn (S n) l = firstn n l ++ [nth n l d].
  Proof.
    revert l; induction n as [|n IH]; intros [|a l] H; cbn in H; try lia; [reflexivity|].
    cbn [firstn nth app]. f_equal. apply IH. lia.
  Qed.

  Lemma last_nth (l : list A) v : last l v = nth (length l - 1) l v.
  Proof.
    induction l as [|a l IH]; [reflexivity|].
    destruct l as [|b l]; [reflexivity|].
    change (last (a :: b :: l) v) with (last (b :: l) v). rewrite IH.
    cbn [length]. replace (S (S (length l)) - 1) with (S (S (length l) - 1)) by lia. reflexivity.
  Qed.

  Lemma firstn_seq n a m : firstn n (seq a m) = seq a (Nat.min n m).
  Proof.
    revert a m; induction n as [|n IH]; intros a [|m]; try reflexivity.
    cbn. now rewrite IH.
  Qed.

  (* ----- reflect: the gathered indices are the mirrored cells ----- *)
  Lemma reflect_left (s : list A) l d :
    l < length s -> map (fun j => nth (l - j) s d) (seq 0 l) = rev (firstn l (skipn 1 s)).
  Proof.
    induction l as [|l IH]; intros H; [reflexivity|].
    rewrite <- cons_seq, <- seq_shift, map_cons, map_map.
    rewrite (firstn_snoc (skipn 1 s) l d) by (rewrite skipn_length; lia).
    rewrite rev_app_distr. cbn [rev app]. rewrite nth_skipn. f_equal.
    rewrite <- IH by lia. apply map_ext. intros j. reflexivity.
  Qed.

  Lemma reflect_right (s : list A) r d :
    r < length s ->
    map (fun j => nth (length s - j - 2) s d) (seq 0 r) = firstn r (skipn 1 (rev s)).
  Proof.
    induction r as [|r IH]; intros H; [reflexivity|].
    rewrite seq_S, map_app, IH by lia. cbn [map plus].
    rewrite (firstn_snoc (skipn 1 (rev s)) r d) by (rewrite skipn_length, rev_length; lia).
    f_equal. rewrite nth_skipn, rev_nth by lia. f_equal. f_equal. lia.
  Qed.

  Lemma hd_firstn (cells : list A) len v d :
    1 <= len -> 1 <= length cells -> nth 0 cells d = hd v (firstn len cells).
  Proof. destruct cells, len; cbn; intros; try lia. reflexivity. Qed.

  Lemma last_firstn (cells : list A) len v d :
    1 <= len -> len <= length cells -> nth (len - 1) cells d = last (firstn len cells) v.
  Proof.
    intros H1 H2. rewrite last_nth, firstn_length, Nat.min_l by lia.
    rewrite nth_firstn_lt by lia. apply nth_indep. lia.
  Qed.
End Parts.

Lemma list_max_in (l : list nat) x : In x l -> x <= list_max l.
Proof.
  intros H. pose proof (proj1 (list_max_le l (list_max l)) (le_n _)) as F.
  rewrite Forall_forall in F. now apply F.
Qed.

Lemma list_max_map_in {R} (f : R -> nat) (rows : list R) r : In r rows -> f r <= list_max (map f rows).
Proof. intros H. apply list_max_in, in_map, H. Qed.

Lemma list_max_map_le {R} (f : R -> nat) (rows : list R) n :
  (forall r, In r rows -> f r <= n) -> list_max (map f rows) <= n.
Proof.
  intros H. apply list_max_le, Forall_forall. intros x Hx.
  apply in_map_iff in Hx as (r & <- & Hr). now apply H.
Qed.

Lemma match_nonempty {X Y} (l : list X) (a b : Y) :
  l <> [] -> match l with [] => a | _ :: _ => b end = b.
Proof. destruct l; [contradiction|reflexivity]. Qed.

Lemma existsb_false {X} (f : X -> bool) (l : list X) :
  (forall x, In x l -> f x = false) -> existsb f l = false.
Proof.
  intros H. destruct (existsb f l) eqn:E; [|reflexivity].
  apply existsb_exists in E as (x & Hx & Hf). rewrite H in Hf by assumption. discriminate.
Qed.

Ltac seg_solve :=
  unfold seg_mask; intros; cbn beta;
  rewrite ?app_length, ?rev_length, ?map_length, ?seq_length, ?repeat_length; cbn [length]; lia.

Section Buffers.
  Context {A R : Type}.
  Variable cellsf : R -> list A.
  Variable lenf plf prf : R -> nat.

  Definition seqf (r : R) : list A := firstn (lenf r) (cellsf r).

  Definition rows_ok (T : nat) (md : mode) (rows : list R) : Prop :=
    forall r, In r rows ->
      length (cellsf r) = T /\ lenf r <= T /\ legalb md (plf r) (prf r) (lenf r) = true.

  Lemma seqf_length T md rows r : rows_ok T md rows -> In r rows -> length (seqf r) = lenf r.
  Proof.
    intros H Hr. destruct (H r Hr) as (H1 & H2 & _). unfold seqf. rewrite firstn_length. lia.
  Qed.

  Theorem padding_buffers_correct T d v md rows :
    rows <> [] -> rows_ok T md rows -> md = Reflect \/ md = Replicate ->
    get_padding_buffers cellsf lenf plf prf T d md rows
    = Ok (concat (map (fun r => lpart md v (plf r) (seqf r)) rows),
          concat (map (fun r => rpart md v (prf r) (seqf r)) rows)).
  Proof.
    intros Hne Hok Hmd.
    set (lmax := list_max (map plf rows)). set (rmax := list_max (map prf rows)).
    destruct Hmd as [-> | ->]; unfold get_padding_buffers.
    - (* reflect *)
      rewrite existsb_false.
      2:{ intros r Hr. destruct (Hok r Hr) as (_ & _ & Hl). cbn [legalb] in Hl. lia. }
      rewrite match_nonempty by assumption. fold lmax rmax.
      assert (HlT : lmax <= T).
      { apply list_max_map_le. intros r Hr. destruct (Hok r Hr) as (_ & ? & Hl). cbn [legalb] in Hl. lia. }
      assert (HrT : rmax <= T).
      { apply list_max_map_le. intros r Hr. destruct (Hok r Hr) as (_ & ? & Hl). cbn [legalb] in Hl. lia. }
      f_equal. f_equal.
      + (* left *)
        erewrite (map_ext_in _ (fun r => map (fun t => t <? plf r) (seq 0 lmax)) rows).
        2:{ intros r _. rewrite firstn_map, firstn_seq, Nat.min_l by lia. reflexivity. }
        erewrite (map_ext_in (fun r => map _ (firstn lmax (seq 0 T)))
                    (fun r => [] ++ map (fun j => nth (plf r - j) (cellsf r) d) (seq 0 (plf r))
                                 ++ map (fun j => nth (plf r - j) (cellsf r) d) (seq (plf r) (lmax - plf r))) rows).
        2:{ intros r Hr. rewrite firstn_seq, Nat.min_l by lia.
            pose proof (list_max_map_in plf rows r Hr). fold lmax in H.
            replace lmax with (plf r + (lmax - plf r)) at 1 by lia.
            rewrite seq_app, map_app. reflexivity. }
        rewrite (select2_seg rows (fun r t => t <? plf r) lmax).
        * f_equal. apply map_ext_in. intros r Hr. destruct (Hok r Hr) as (Hc & HT & Hl). cbn [legalb] in Hl.
          cbn [lpart]. rewrite <- (reflect_left (seqf r) (plf r) d) by (rewrite (seqf_length T Reflect rows) by assumption; lia).
          apply map_ext_in. intros j Hj. apply in_seq in Hj. unfold seqf.
          rewrite nth_firstn_lt by lia. reflexivity.
        * intros r Hr. pose proof (list_max_map_in plf rows r Hr). fold lmax in H.
          rewrite !map_length, !seq_length. cbn [length]. split; [lia|].
          seg_solve.
      + (* right *)
        erewrite (map_ext_in (fun r => map (fun t => t <? prf r) (firstn rmax (seq 0 T)))
                    (fun r => map (fun t => t <? prf r) (seq 0 rmax)) rows).
        2:{ intros r _. rewrite firstn_seq, Nat.min_l by lia. reflexivity. }
        erewrite (map_ext_in (fun r => map _ (firstn rmax (seq 0 T)))
                    (fun r => [] ++ map (fun j => nth (lenf r - j - 2) (cellsf r) d) (seq 0 (prf r))
                                 ++ map (fun j => nth (lenf r - j - 2) (cellsf r) d) (seq (prf r) (rmax - prf r))) rows).
        2:{ intros r Hr. rewrite firstn_seq, Nat.min_l by lia.
            pose proof (list_max_map_in prf rows r Hr). fold rmax in H.
            replace rmax with (prf r + (rmax - prf r)) at 1 by lia.
            rewrite seq_app, map_app. reflexivity. }
        rewrite (select2_seg rows (fun r t => t <? prf r) rmax).
        * f_equal. apply map_ext_in. intros r Hr. destruct (Hok r Hr) as (Hc & HT & Hl). cbn [legalb] in Hl.
          pose proof (seqf_length T Reflect rows r Hok Hr) as Hs.
          cbn [rpart]. rewrite <- (reflect_right (seqf r) (prf r) d) by lia.
          apply map_ext_in. intros j Hj. apply in_seq in Hj. rewrite Hs. unfold seqf.
          rewrite nth_firstn_lt by lia. reflexivity.
        * intros r Hr. pose proof (list_max_map_in prf rows r Hr). fold rmax in H.
          rewrite !map_length, !seq_length. cbn [length]. split; [lia|].
          seg_solve.
    - (* replicate *)
      rewrite existsb_false.
      2:{ intros r Hr. destruct (Hok r Hr) as (_ & _ & Hl). cbn [legalb] in Hl. lia. }
      rewrite match_nonempty by assumption. fold lmax rmax.
      f_equal. f_equal.
      + erewrite (map_ext_in (fun r => map (fun t => t <? plf r) (firstn lmax _))
                    (fun r => map (fun t => t <? plf r) (seq 0 lmax)) rows).
        2:{ intros r _. rewrite firstn_seq, Nat.min_l by lia. reflexivity. }
        erewrite (map_ext_in (fun r => repeat _ lmax)
                    (fun r => [] ++ repeat (nth 0 (cellsf r) d) (plf r)
                                 ++ repeat (nth 0 (cellsf r) d) (lmax - plf r)) rows).
        2:{ intros r Hr. pose proof (list_max_map_in plf rows r Hr). fold lmax in H.
            cbn [app]. rewrite <- repeat_app. f_equal. lia. }
        rewrite (select2_seg rows (fun r t => t <? plf r) lmax).
        * f_equal. apply map_ext_in. intros r Hr. destruct (Hok r Hr) as (Hc & HT & Hl). cbn [legalb] in Hl.
          cbn [lpart]. f_equal. unfold seqf. apply hd_firstn; lia.
        * intros r Hr. pose proof (list_max_map_in plf rows r Hr). fold lmax in H.
          rewrite !repeat_length. cbn [length]. split; [lia|]. seg_solve.
      + erewrite (map_ext_in (fun r => map (fun t => t <? prf r) (firstn rmax _))
                    (fun r => map (fun t => t <? prf r) (seq 0 rmax)) rows).
        2:{ intros r _. rewrite firstn_seq, Nat.min_l by lia. reflexivity. }
        erewrite (map_ext_in (fun r => repeat _ rmax)
                    (fun r => [] ++ repeat (nth (lenf r - 1) (cellsf r) d) (prf r)
                                 ++ repeat (nth (lenf r - 1) (cellsf r) d) (rmax - prf r)) rows).
        2:{ intros r Hr. pose proof (list_max_map_in prf rows r Hr). fold rmax in H.
            cbn [app]. rewrite <- repeat_app. f_equal. lia. }
        rewrite (select2_seg rows (fun r t => t <? prf r) rmax).
        * f_equal. apply map_ext_in. intros r Hr. destruct (Hok r Hr) as (Hc & HT & Hl). cbn [legalb] in Hl.
          cbn [rpart]. f_equal. unfold seqf. apply last_firstn; lia.
        * intros r Hr. pose proof (list_max_map_in prf rows r Hr). fold rmax in H.
          rewrite !repeat_length. cbn [length]. split; [lia|]. seg_solve.
  Qed.

  (* the error branches: an illegal row makes the whole call raise *)
  Theorem padding_buffers_illegal T d md rows r :
    In r rows -> legalb md (plf r) (prf r) (lenf r) = false ->
    match md with
    | Constant => False
    | Reflect => get_padding_buffers cellsf lenf plf prf T d md rows = ErrNotImpl
    | Replicate => get_padding_buffers cellsf lenf plf prf T d md rows = ErrRuntime
    | OtherMode => get_padding_buffers cellsf lenf plf prf T d md rows = ErrValue
    end.
  Proof.
    intros Hr Hl. destruct md; cbn [legalb] in Hl; try discriminate; unfold get_padding_buffers.
    - replace (existsb _ rows) with true; [reflexivity|].
      symmetry. apply existsb_exists. exists r. split; [assumption|]. lia.
    - replace (existsb _ rows) with true; [reflexivity|].
      symmetry. apply existsb_exists. exists r. split; [assumption|]. lia.
    - reflexivity.
  Qed.
End Buffers.
