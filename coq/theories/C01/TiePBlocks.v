(* C01, prefix tie - the blocks of `_string_matching` around the loop, run in the configuration of prefix_edit_distances
   (return_prf_dsts = True, either exclude_last) under [ext01p g]: the preamble (sm_pre: asserts, checks, uniform-cost
   shortcut, layout, sizes, lengths), row 0 and del_mat (sm_row0), the flag block before the loop (the uninitialised table
   `torch.empty`, its row 0 = ref_lens * del_cost), and the exit after the loop (mult, the normalisation with the
   empty-reference convention, the padding past each hypothesis length, the layout, `return prefix_ers`).  The scripts of
   TieBlocks / TiePre re-run with the flags of this configuration. *)
From Coq Require Import ZArith QArith List String Bool Arith Lia ZifyBool ZifyNat.
From PV Require Import MiniPy.Syntax MiniPy.Interp MiniPy.Lemmas MiniTorch.Ops MiniTorch.Lemmas MiniTorch.OpsC07 MiniTorch.LemmasC07
  MiniTorch.OpsC01 MiniTorch.LemmasC01 MiniTorch.OpsC01P MiniTorch.LemmasC01P.
From PV Require Import Gen.C01Src C01.SrcRun C01.SrcRunP C01.TieLib C01.TieMath C01.TieLoop C01.TieBlocks C01.TieWhole C01.TieLens
  C01.TiePre C01.TieBody C01.TiePLib C01.TiePMath C01.TiePLoop.
From PV Require C01.Model C01.Proofs.
Import ListNotations.
Local Open Scope string_scope.

#[local] Arguments dec01 : simpl never.
#[local] Arguments enc_b : simpl never.
#[local] Arguments enc_i : simpl never.
#[local] Arguments enc_x : simpl never.
#[local] Arguments tab2 : simpl never.
#[local] Arguments tab3 : simpl never.
#[local] Arguments qz : simpl never.
#[local] Arguments Z.add : simpl never.
#[local] Arguments Z.sub : simpl never.
#[local] Arguments Z.of_nat : simpl nomatch.
#[local] Arguments select0 : simpl never.
#[local] Arguments slice0 : simpl never.
#[local] Arguments set_slice0 : simpl never.
#[local] Arguments broadcast : simpl never.
#[local] Arguments where_f : simpl never.
#[local] Arguments min_dim : simpl never.
#[local] Arguments gather0 : simpl never.
#[local] Arguments unsqueeze : simpl never.
#[local] Arguments squeeze_dim : simpl never.
#[local] Arguments expand2 : simpl never.
#[local] Arguments triu_f : simpl never.
#[local] Arguments transpose2 : simpl never.
#[local] Arguments arange_f : simpl never.
#[local] Arguments full : simpl never.
#[local] Arguments fadd : simpl never.
#[local] Arguments fsub : simpl never.
#[local] Arguments fmul : simpl never.
#[local] Arguments fdiv : simpl never.
#[local] Arguments fmin : simpl never.
#[local] Arguments b2f : simpl never.
#[local] Arguments z2f : simpl never.
#[local] Arguments empty2 : simpl never.
#[local] Arguments set_select0 : simpl never.
#[local] Arguments size_dim : simpl never.
#[local] Arguments expand_as2 : simpl never.
#[local] Arguments arange : simpl never.
#[local] Arguments ge_t : simpl never.
#[local] Arguments masked_fill : simpl never.
#[local] Arguments long_mul_float : simpl never.

#[local] Arguments ext01 : simpl never.
#[local] Arguments ext01p : simpl never.
#[local] Arguments ext01p_new : simpl never.
#[local] Arguments zf : simpl never.
#[local] Arguments ofx : simpl never.
#[local] Arguments seq : simpl never.
#[local] Arguments Qeq_bool : simpl never.
#[local] Arguments Qcompare : simpl never.
#[local] Arguments Z.eqb : simpl nomatch.
#[local] Arguments any_b : simpl never.
#[local] Arguments tsize : simpl never.

Lemma greturns_seq : forall E (P : state -> Prop) v a b st,
  runs_to P (exec E a st) -> (forall st1, P st1 -> returns v (exec E b st1)) ->
  returns v (exec E (SSeq a b) st).
Proof. intros E P v a b st [st1 [He P1]] Hb. cbn [exec]. rewrite He. cbn [bind]. now apply Hb. Qed.

(* the arguments of the call made by prefix_edit_distances *)
Definition params_p (s : positive) (c : C01.Model.cfg) (R N H : nat) (rf hf : nat -> nat -> Z) (w : bool) : list (string * val) :=
  [("ref", enc_i (in_tensor (C01.Model.c_bf c) R N rf)); ("hyp", enc_i (in_tensor (C01.Model.c_bf c) H N hf));
   ("eos", opt_int (C01.Model.c_eos c)); ("include_eos", VBool (C01.Model.c_incl c));
   ("batch_first", VBool (C01.Model.c_bf c));
   ("ins_cost", VQ (qz s (C01.Model.c_ins c))); ("del_cost", VQ (qz s (C01.Model.c_del c)));
   ("sub_cost", VQ (qz s (C01.Model.c_sub c)));
   ("warn", VBool w); ("norm", VBool (C01.Model.c_norm c)); ("return_mask", VBool false);
   ("return_prf_dsts", VBool true); ("exclude_last", VBool (C01.Model.c_excl c)); ("padding", VInt (C01.Model.c_pad c));
   ("return_mistakes", VBool false); ("torch", torch_module)].

Section PreP.
  Variable g : nat -> fx.
  Variables (s : positive) (c : C01.Model.cfg) (R N H : nat) (rf hf : nat -> nat -> Z) (w : bool).
  Notation E := (ext01p g).
  Notation excl := (C01.Model.c_excl c).

  Lemma sm_pre_split_p : forall st, exec E sm_pre st = exec E (SSeq pre_a (SSeq pre_b pre_c)) st.
  Proof.
    intros st. unfold pre_a, pre_b, pre_c. rewrite <- (gexec_take_drop E 5 sm_pre st).
    cbn [exec]. destruct (exec E (seq_take 5 sm_pre) st) as [[|v] st1|n st1|q]; cbn [bind]; try reflexivity.
    change (seq_drop 14 sm_pre) with (seq_drop 9 (seq_drop 5 sm_pre)).
    symmetry. apply (gexec_take_drop E 9 (seq_drop 5 sm_pre) st1).
  Qed.

  (* after the argument checks and the uniform-cost shortcut *)
  Definition stageP1p : list (string * val) :=
    [("ref", enc_i (in_tensor (C01.Model.c_bf c) R N rf)); ("hyp", enc_i (in_tensor (C01.Model.c_bf c) H N hf));
     ("eos", opt_int (C01.Model.c_eos c)); ("include_eos", VBool (C01.Model.c_incl c));
     ("batch_first", VBool (C01.Model.c_bf c));
     ("ins_cost", VQ (qz (eff_scale s c) (eff_ci c))); ("del_cost", VQ (qz (eff_scale s c) (eff_cd c)));
     ("sub_cost", VQ (qz (eff_scale s c) (eff_cs c))); ("mult", VQ (eff_mult s c));
     ("warn", VBool w); ("norm", VBool (C01.Model.c_norm c)); ("return_mask", VBool false);
     ("return_prf_dsts", VBool true); ("exclude_last", VBool excl); ("padding", VInt (C01.Model.c_pad c));
     ("return_mistakes", VBool false); ("torch", torch_module)].

  Lemma cost_cond_p : forall st,
    lookup "ins_cost" (vars st) = Some (VQ (qz s (C01.Model.c_ins c))) ->
    lookup "del_cost" (vars st) = Some (VQ (qz s (C01.Model.c_del c))) ->
    lookup "sub_cost" (vars st) = Some (VQ (qz s (C01.Model.c_sub c))) ->
    exists v, eval E (EAnd (ECmp Eq (EName "ins_cost") (EName "del_cost"))
                        (EAnd (ECmp Eq (EName "del_cost") (EName "sub_cost"))
                              (ECmp Gt (EName "sub_cost") (EConst (VQ (0 # 1)%Q))))) st = Ok v st /\
              truthy v = uniformb (C01.Model.c_ins c) (C01.Model.c_del c) (C01.Model.c_sub c).
  Proof.
    intros st Hi Hd Hs. unfold uniformb.
    destruct (C01.Model.c_ins c =? C01.Model.c_del c)%Z eqn:E1;
    destruct (C01.Model.c_del c =? C01.Model.c_sub c)%Z eqn:E2;
    destruct (0 <? C01.Model.c_sub c)%Z eqn:E3;
    (eexists; split;
     [ repeat (progress (cbn; look; rewrite ?qz_eqb, ?qz_gt0, ?E1, ?E2, ?E3)); reflexivity | reflexivity ]).
  Qed.

  Lemma pre_a_run_p : forall st, known st (params_p s c R N H rf hf w) ->
    runs_to (fun st' => known st' stageP1p) (exec E pre_a st).
  Proof.
    intros st K. unfold params_p in K. open_known K. unfold pre_a, sm_pre. cbn [seq_take].
    passertstep.
    pseqnorm.
    match goal with
    | |- context [exec ?E0 (SSeq (SAssert ?e) ?b) ?st0] =>
        assert (Hev : eval E0 e st0 = Ok (VBool true) st0) by (destruct excl; pevn; reflexivity);
        rewrite (gexec_seq_assert E0 e b st0 _ Hev eq_refl); clear Hev
    end.
    pifstep_t ltac:(repeat (progress (pevn; rewrite ?in_tensor_rank)); reflexivity).
    pasg. pseqnorm.
    match goal with
    | Hi : lookup "ins_cost" (vars ?st0) = _, Hd : lookup "del_cost" (vars ?st0) = _, Hs : lookup "sub_cost" (vars ?st0) = _
      |- context [exec ?E0 (SSeq (SIf ?cc ?t ?f) ?b) ?st0] =>
        destruct (cost_cond_p st0 Hi Hd Hs) as [v [Hv Ht]]; rewrite (gexec_seq_if E0 cc t f b st0 v st0 Hv), Ht; clear Hv Ht v
    end.
    unfold stageP1p, eff_scale, eff_ci, eff_cd, eff_cs, eff_mult.
    destruct (uniformb (C01.Model.c_ins c) (C01.Model.c_del c) (C01.Model.c_sub c)).
    - pifstep. pasg. passign3. pasg. pseqnorm. apply runs_to_ok. close_known.
    - pifstep. pseqnorm. apply runs_to_ok. close_known.
  Qed.

  (* after the transposition and the size queries: time-major tensors *)
  Definition stageP2p : list (string * val) :=
    [("ref", enc_i (mkTn [R; N] (tab2 R N rf))); ("hyp", enc_i (mkTn [H; N] (tab2 H N hf)));
     ("eos", opt_int (C01.Model.c_eos c)); ("include_eos", VBool (C01.Model.c_incl c));
     ("batch_first", VBool (C01.Model.c_bf c));
     ("ins_cost", VQ (qz (eff_scale s c) (eff_ci c))); ("del_cost", VQ (qz (eff_scale s c) (eff_cd c)));
     ("sub_cost", VQ (qz (eff_scale s c) (eff_cs c))); ("mult", VQ (eff_mult s c));
     ("warn", VBool w); ("norm", VBool (C01.Model.c_norm c)); ("return_mask", VBool false);
     ("return_prf_dsts", VBool true); ("exclude_last", VBool excl); ("padding", VInt (C01.Model.c_pad c));
     ("return_mistakes", VBool false); ("torch", torch_module);
     ("max_ref_steps", VInt (Z.of_nat R)); ("batch_size", VInt (Z.of_nat N)); ("max_hyp_steps", VInt (Z.of_nat H));
     ("device", device_token)].

  Ltac pasg_t tac := passign ltac:(repeat (progress (pevn; tac)); reflexivity).

  Lemma pre_b_run_p : forall st, known st stageP1p -> runs_to (fun st' => known st' stageP2p) (exec E pre_b st).
  Proof.
    intros st K. unfold stageP1p in K. open_known K. unfold pre_b, sm_pre, stageP2p. cbn [seq_take seq_drop].
    destruct (C01.Model.c_bf c); unfold in_tensor in *.
    - pifstep. pasg. pasg.
      passign3. pasg. pasg. pasg. pasg. pasg. pasg. pasg. pasg. pasg. pasg.
      pifstep_t ltac:(repeat (progress (pevn; rewrite ?Z.eqb_refl)); reflexivity).
      pseqnorm. apply runs_to_ok. close_known.
    - pifstep.
      passign3. pasg. pasg. pasg. pasg. pasg. pasg. pasg. pasg. pasg. pasg.
      pifstep_t ltac:(repeat (progress (pevn; rewrite ?Z.eqb_refl)); reflexivity).
      pseqnorm. apply runs_to_ok. close_known.
  Qed.

  Notation rlen := (ref_len c R rf).
  Notation hlen := (hyp_len c H hf).

  (* after the preamble: flags of the prefix configuration, time-major tensors, sizes, effective costs, mult, lengths *)
  Definition stageAp : list (string * val) :=
    [("exclude_last", VBool excl); ("return_mistakes", VBool false); ("return_mask", VBool false);
     ("return_prf_dsts", VBool true); ("norm", VBool (C01.Model.c_norm c)); ("warn", VBool w);
     ("padding", VInt (C01.Model.c_pad c)); ("batch_first", VBool (C01.Model.c_bf c));
     ("ref", enc_i (mkTn [R; N] (tab2 R N rf))); ("hyp", enc_i (mkTn [H; N] (tab2 H N hf)));
     ("max_ref_steps", VInt (Z.of_nat R)); ("batch_size", VInt (Z.of_nat N)); ("max_hyp_steps", VInt (Z.of_nat H));
     ("device", device_token); ("torch", torch_module);
     ("ins_cost", VQ (qz (eff_scale s c) (eff_ci c))); ("del_cost", VQ (qz (eff_scale s c) (eff_cd c)));
     ("sub_cost", VQ (qz (eff_scale s c) (eff_cs c))); ("mult", VQ (eff_mult s c));
     ("ref_lens", lens_tensor N rlen); ("hyp_lens", lens_tensor N hlen)].

  Ltac close_lens_p :=
    match goal with
    | L : lookup ?x (vars ?st) = Some _ |- lookup ?x (vars ?st) = Some _ =>
        rewrite L; unfold lens_tensor, ref_len, hyp_len; do 3 f_equal; apply map_ext_seq; intros n Hn;
        first [ apply (fixup_any rf hf)
              | apply (fixup_none rf hf);
                match goal with Hany : any_b _ = false |- _ => exact (any_false_at rf hf _ _ n Hn Hany) end
              | reflexivity ]
    end.

  Lemma pre_c_run_p : forall st, (C01.Model.c_eos c <> None -> R <> 0%nat /\ H <> 0%nat) ->
    known st stageP2p -> runs_to (fun st' => known st' stageAp) (exec E pre_c st).
  Proof.
    intros st Hnz K. unfold stageP2p in K. open_known K. unfold pre_c, sm_pre, stageAp. cbn [seq_drop].
    unfold ref_len, hyp_len. destruct (C01.Model.c_eos c) as [e|]; cbn [opt_int] in *.
    - destruct (Hnz ltac:(discriminate)) as [HR HH].
      destruct (lens_run_2 (fun x => x) R N rf e HR) as [sr Hr].
      destruct (lens_run_2 (fun x => x) H N hf e HH) as [sh Hh].
      pifstep.
      passign ltac:(pev; rewrite extp_lens; unfold C07.SrcRun.call_body; rewrite Hr; reflexivity).
      passign ltac:(pev; rewrite extp_lens; unfold C07.SrcRun.call_body; rewrite Hh; reflexivity).
      clear Hr Hh sr sh.
      destruct (C01.Model.c_incl c).
      + destruct w.
        * pifstep. pasg. pasg. pifstep.
          match goal with |- context [if any_b ?m then _ else _] => destruct (any_b m) eqn:? end;
          [ pifstep; pasg | idtac ];
          (pasg; pasg; pifstep;
           match goal with |- context [if any_b ?m then _ else _] => destruct (any_b m) eqn:? end;
           [ pifstep; pasg | idtac ];
           pseqnorm; apply runs_to_ok; close_known; close_lens_p).
        * pifstep. pasg. pasg. pifstep.
          match goal with |- context [if any_b ?m then _ else _] => destruct (any_b m) eqn:? end;
          [ pifstep; pasg | idtac ];
          (pasg; pasg; pifstep;
           match goal with |- context [if any_b ?m then _ else _] => destruct (any_b m) eqn:? end;
           [ pifstep; pasg | idtac ];
           pseqnorm; apply runs_to_ok; close_known; close_lens_p).
      + pifstep. pseqnorm. apply runs_to_ok. close_known; close_lens_p.
    - pifstep.
      pasg_t ltac:(replace (Z.of_nat N <? 0)%Z with false by lia; rewrite ?Nat2Z.id, ?full_vec).
      pasg_t ltac:(replace (Z.of_nat N <? 0)%Z with false by lia; rewrite ?Nat2Z.id, ?full_vec).
      apply runs_to_ok. close_known;
      match goal with
      | L : lookup ?x (vars ?st) = Some _ |- lookup ?x (vars ?st) = Some _ =>
          rewrite L; unfold lens_tensor; do 3 f_equal; apply map_ext_seq; intros n Hn;
          cbn [C01.Model.eff_len]; now rewrite colf_length
      end.
  Qed.

  Theorem pre_run_p : forall st, (C01.Model.c_eos c <> None -> R <> 0%nat /\ H <> 0%nat) ->
    known st (params_p s c R N H rf hf w) -> runs_to (fun st' => known st' stageAp) (exec E sm_pre st).
  Proof.
    intros st Hnz K. rewrite sm_pre_split_p.
    eapply gruns_to_seq; [apply pre_a_run_p; exact K|]. intros st1 K1.
    eapply gruns_to_seq; [apply pre_b_run_p; exact K1|]. intros st2 K2.
    apply pre_c_run_p; assumption.
  Qed.
End PreP.

(* ---- from the preamble's state on: row 0, the flag block, the loop, the exit ------------------------------------------ *)
Section TailP.
  Variable g : nat -> fx.
  Variables (s : positive) (ci cd cs : Z) (mult : Q) (R N H : nat) (rf hf : nat -> nat -> Z) (rl hl : nat -> nat).
  Variables (nm w bf excl : bool) (pad : Z).
  Hypothesis Hrl : forall n, (n < N)%nat -> (rl n <= R)%nat.
  Notation E := (ext01p g).
  Notation T := (tsize H excl).

  Definition stageA' : list (string * val) :=
    [("exclude_last", VBool excl); ("return_mistakes", VBool false); ("return_mask", VBool false);
     ("return_prf_dsts", VBool true); ("norm", VBool nm); ("warn", VBool w);
     ("padding", VInt pad); ("batch_first", VBool bf);
     ("ref", enc_i (mkTn [R; N] (tab2 R N rf))); ("hyp", enc_i (mkTn [H; N] (tab2 H N hf)));
     ("max_ref_steps", VInt (Z.of_nat R)); ("batch_size", VInt (Z.of_nat N)); ("max_hyp_steps", VInt (Z.of_nat H));
     ("device", device_token); ("torch", torch_module);
     ("ins_cost", VQ (qz s ci)); ("del_cost", VQ (qz s cd)); ("sub_cost", VQ (qz s cs)); ("mult", VQ mult);
     ("ref_lens", lens_tensor N rl); ("hyp_lens", lens_tensor N hl)].

  Lemma row0_run_p : forall st, known st stageA' ->
    runs_to (fun st' => known st' (stageA' ++ stageB s cd R N)) (exec E sm_row0 st).
  Proof.
    intros st K. unfold stageA' in K. open_known K. unfold sm_row0.
    passign ltac:(pevn; replace (Z.of_nat R + 1)%Z with (Z.of_nat (S R)) by lia; rewrite arange_f_nat; pevn; reflexivity).
    pifstep. rewrite !gexec_seq_assoc.
    pasg. pasg.
    passign ltac:(pevn; change 1%Z with (Z.of_nat 1); rewrite full_mat, triu_mat; pevn; reflexivity).
    pasg.
    passign ltac:(pevn; replace (Z.of_nat R + 1)%Z with (Z.of_nat (S R)) by lia; rewrite expand2_col; pevn; reflexivity).
    apply runs_to_ok. unfold stageA', stageB. close_known.
    - match goal with L : lookup "del_mat" _ = _ |- _ => rewrite L end. do 3 f_equal. apply tab2_ext. intros i j Hi Hj.
      apply del_entry_src.
    - match goal with L : lookup "row" _ = _ |- _ => rewrite L end. do 3 f_equal. apply tab2_ext. intros i j Hi Hj.
      apply fmul_z2f_zf.
  Qed.

  (* the table when the loop starts: row 0 = ref_lens * del_cost, the rest uninitialised *)
  Definition tab0 : nat -> nat -> fx :=
    fun i n => if (i =? 0)%nat then zf s (Z.of_nat (rl n) * cd) else g (i * N + n)%nat.

  Notation pre_loop := (body_pre_p s ci cd cs R N H rf hf rl hl excl (VQ mult) (VBool nm) (VBool w) (VInt pad) (VBool bf)).

  Lemma flags_run_p : forall st, (0 < T)%nat -> known st (stageA' ++ stageB s cd R N) ->
    runs_to (fun st' => pre_loop (fun i _ => (Z.of_nat i * cd)%Z) tab0 st' /\
                        lookup "max_hyp_steps" (vars st') = Some (VInt (Z.of_nat H)))
            (exec E main_flags st).
  Proof.
    intros st HT K. unfold stageA', stageB in K. open_known K. unfold main_flags, sm_main. cbv iota.
    pifstep. pifstep.
    passign_v (enc_x (mkTn [T; N] (tab2 T N (fun i j => g (i * N + j)%nat))))
      ltac:(unfold tsize; destruct excl; pevn;
            [replace (Z.of_nat H + 0)%Z with (Z.of_nat (H + 0)) by lia | replace (Z.of_nat H + 1)%Z with (Z.of_nat (H + 1)) by lia];
            rewrite empty2_nat; reflexivity).
    unfold lens_tensor in *.
    psetitem_t ltac:(repeat (progress (pevn; change 0%Z with (Z.of_nat 0); rewrite ?set_select0_row by exact HT)); reflexivity).
    apply runs_to_ok. split; [|assumption]. unfold body_pre_p, lens_tensor. repeat (split; [assumption|]).
    match goal with L : lookup "prefix_ers" _ = _ |- _ => rewrite L end. do 3 f_equal. apply tab2_ext. intros i n Hi Hn.
    unfold tab0. destruct (i =? 0)%nat; [apply fmul_z2f_zf|reflexivity].
  Qed.

End TailP.
