(* MiniTorch, unit C08 - the algebra of OpsC08.v needed by the C08 tie (no new definitions of meaning):
   the operations on tensors in canonical form ([T1 n f], [T2 n m f]) are again in canonical form. *)
From Coq Require Import List ZArith QArith Qround Bool Arith Lia.
From Coq Require String.
From PV Require Import MiniPy.Syntax MiniTorch.Ops MiniTorch.OpsC08.
From PV Require MiniTorch.Lemmas C08.Model.
Import ListNotations.

(* ---- tables ------------------------------------------------------------------------------------- *)
Lemma get2_tabl {X} (d : X) n m (f : nat -> nat -> X) i j :
  (i < n)%nat -> (j < m)%nat -> get2 d m (tabl n m f) i j = f i j.
Proof.
  intros Hi Hj. unfold get2, tabl.
  rewrite (Lemmas.nth_flat_map_const _ _ m i j 0%nat d).
  - rewrite seq_nth by assumption. cbn [Nat.add]. now apply Lemmas.nth_map_seq.
  - intros x _. now rewrite map_length, seq_length.
  - now rewrite seq_length.
  - assumption.
Qed.

Lemma tabl_ext {X} n m (f g : nat -> nat -> X) :
  (forall i j, (i < n)%nat -> (j < m)%nat -> f i j = g i j) -> tabl n m f = tabl n m g.
Proof.
  intros H. unfold tabl. apply Lemmas.flat_map_ext_in. intros i Hi. apply in_seq in Hi.
  apply map_ext_in. intros j Hj. apply in_seq in Hj. apply H; lia.
Qed.

Lemma T2_ext {X} n m (f g : nat -> nat -> X) :
  (forall i j, (i < n)%nat -> (j < m)%nat -> f i j = g i j) -> T2 n m f = T2 n m g.
Proof. intros H. unfold T2. f_equal. now apply tabl_ext. Qed.

Lemma T1_ext {X} n (f g : nat -> X) : (forall i, (i < n)%nat -> f i = g i) -> T1 n f = T1 n g.
Proof. intros H. unfold T1. f_equal. apply map_ext_in. intros i Hi. apply in_seq in Hi. apply H. lia. Qed.

Lemma tabl_length {X} n m (f : nat -> nat -> X) : length (tabl n m f) = (n * m)%nat.
Proof.
  unfold tabl. rewrite (Lemmas.length_flat_map_const _ _ m), seq_length; [reflexivity|].
  intros i _. now rewrite map_length, seq_length.
Qed.

Lemma map_tabl {X Y} (h : X -> Y) n m (f : nat -> nat -> X) : map h (tabl n m f) = tabl n m (fun i j => h (f i j)).
Proof.
  unfold tabl. rewrite Lemmas.map_flat_map. apply Lemmas.flat_map_ext_in. intros i _. now rewrite map_map.
Qed.

Lemma tabl_row {X} n (f : nat -> X) : tabl 1 n (fun _ => f) = map f (seq 0 n).
Proof. unfold tabl. cbn [seq flat_map]. now rewrite app_nil_r. Qed.

Lemma tabl_col {X} n (f : nat -> X) : tabl n 1 (fun i _ => f i) = map f (seq 0 n).
Proof. unfold tabl. cbn [seq map]. now rewrite (Lemmas.flat_map_singleton f). Qed.

(* row-major enumeration of n * m positions *)
Lemma nth_tabl {X} (d : X) n m (f : nat -> nat -> X) k :
  (k < n * m)%nat -> nth k (tabl n m f) d = f (k / m)%nat (k mod m)%nat.
Proof.
  intros Hk. assert (Hm : m <> 0%nat) by (intros ->; lia).
  pose proof (Nat.div_mod k m Hm) as E. pose proof (Nat.mod_upper_bound k m Hm) as Hr.
  assert (Hq : (k / m < n)%nat) by (apply Nat.div_lt_upper_bound; [assumption|lia]).
  rewrite <- (get2_tabl d n m f (k / m) (k mod m) Hq Hr). unfold get2. f_equal. lia.
Qed.

Lemma map_seq_tabl {X} (g : nat -> X) n m :
  map g (seq 0 (n * m)) = tabl n m (fun i j => g (i * m + j)%nat).
Proof.
  destruct (Nat.eq_dec m 0) as [->|Hm].
  - rewrite Nat.mul_0_r. cbn [seq map]. unfold tabl. cbn [seq map]. induction (seq 0 n); [reflexivity|assumption].
  - apply (nth_ext _ _ (g 0%nat) (g 0%nat)).
    + now rewrite map_length, seq_length, tabl_length.
    + intros k Hk. rewrite map_length, seq_length in Hk.
      rewrite nth_tabl by assumption. rewrite Lemmas.nth_map_seq by assumption.
      f_equal. pose proof (Nat.div_mod k m Hm). lia.
Qed.

(* ---- canonical forms ---------------------------------------------------------------------------- *)
Lemma tmap_T1 {X Y} (h : X -> Y) n f : tmap h (T1 n f) = T1 n (fun i => h (f i)).
Proof. unfold tmap, T1. cbn [shp dat]. now rewrite map_map. Qed.

Lemma tmap_T2 {X Y} (h : X -> Y) n m f : tmap h (T2 n m f) = T2 n m (fun i j => h (f i j)).
Proof. unfold tmap, T2. cbn [shp dat]. now rewrite map_tabl. Qed.

Lemma unsqueeze_T1_1 {X} n (f : nat -> X) : unsqueeze (T1 n f) 1 = Some (T2 n 1 (fun i _ => f i)).
Proof.
  unfold unsqueeze, T1, T2. cbn [shp dat length].
  change (wrap_dim 2 1) with (Some 1%nat). cbn [firstn skipn app]. now rewrite tabl_col.
Qed.

Lemma rand_1 rnd k n : rand rnd k [n] = T1 n (rnd k).
Proof. unfold rand, T1, numel. cbn [fold_right]. now rewrite Nat.mul_1_r. Qed.

Lemma rand_2 rnd k n m : rand rnd k [n; m] = T2 n m (fun i j => rnd k (i * m + j)%nat).
Proof. unfold rand, T2, numel. cbn [fold_right]. rewrite Nat.mul_1_r. now rewrite map_seq_tabl. Qed.

(* ---- broadcasting -------------------------------------------------------------------------------- *)
Lemma bidx_self n i : (i < n)%nat -> bidx n i = i.
Proof. intros H. unfold bidx. destruct (Nat.eqb_spec n 1); lia. Qed.

Lemma bidx_one i : bidx 1 i = 0%nat.
Proof. reflexivity. Qed.

Lemma bdim_same n : bdim n n = Some n.
Proof. unfold bdim. now rewrite Nat.eqb_refl. Qed.

Lemma bdim_n_1 n : bdim n 1 = Some n.
Proof. unfold bdim. destruct (Nat.eqb_spec n 1) as [->|]; [reflexivity|]. destruct (Nat.eqb_spec n 1); [lia|reflexivity]. Qed.

Lemma bdim_1_n n : bdim 1 n = Some n.
Proof. unfold bdim. destruct (Nat.eqb_spec 1 n) as [<-|]; reflexivity. Qed.

Lemma bc2_tabl {X Y W} (dx : X) (dy : Y) (h : X -> Y -> W) sa sb na ma a nb mb b n m :
  as2 sa = Some (na, ma) -> as2 sb = Some (nb, mb) -> bdim na nb = Some n -> bdim ma mb = Some m ->
  bc2 dx dy h (mkTn sa (tabl na ma a)) (mkTn sb (tabl nb mb b)) =
  Some (mkTn (skipn (2 - Nat.max (length sa) (length sb)) [n; m])
             (tabl n m (fun i j => h (a (bidx na i) (bidx ma j)) (b (bidx nb i) (bidx mb j))))).
Proof.
  intros Ha Hb Hn Hm. unfold bc2. cbn [shp dat]. rewrite Ha, Hb, Hn, Hm. f_equal. f_equal.
  apply tabl_ext. intros i j Hi Hj.
  rewrite !get2_tabl by eauto using Lemmas.bidx_lt_l, Lemmas.bidx_lt_r. reflexivity.
Qed.

(* (n) op (n) *)
Lemma bc2_T1_T1 {X Y W} (dx : X) (dy : Y) (h : X -> Y -> W) n a b :
  bc2 dx dy h (T1 n a) (T1 n b) = Some (T1 n (fun i => h (a i) (b i))).
Proof.
  unfold T1. rewrite <- !tabl_row.
  rewrite (bc2_tabl dx dy h [n] [n] 1 n _ 1 n _ 1 n eq_refl eq_refl eq_refl (bdim_same n)).
  cbn [length Nat.max Nat.sub skipn]. f_equal. f_equal.
  apply tabl_ext. intros i j Hi Hj. cbv beta. now rewrite ?bidx_one, ?(bidx_self _ i Hi), ?(bidx_self _ j Hj).
Qed.

(* (n, m) op (n, 1) *)
Lemma bc2_T2_col {X Y W} (dx : X) (dy : Y) (h : X -> Y -> W) n m a b :
  bc2 dx dy h (T2 n m a) (T2 n 1 b) = Some (T2 n m (fun i j => h (a i j) (b i 0%nat))).
Proof.
  unfold T2.
  rewrite (bc2_tabl dx dy h [n; m] [n; 1%nat] n m _ n 1 _ n m eq_refl eq_refl (bdim_same n) (bdim_n_1 m)).
  cbn [length Nat.max Nat.sub skipn]. f_equal. f_equal.
  apply tabl_ext. intros i j Hi Hj. cbv beta. now rewrite ?bidx_one, ?(bidx_self _ i Hi), ?(bidx_self _ j Hj).
Qed.

(* (n, 1) op (n, m) *)
Lemma bc2_col_T2 {X Y W} (dx : X) (dy : Y) (h : X -> Y -> W) n m a b :
  bc2 dx dy h (T2 n 1 a) (T2 n m b) = Some (T2 n m (fun i j => h (a i 0%nat) (b i j))).
Proof.
  unfold T2.
  rewrite (bc2_tabl dx dy h [n; 1%nat] [n; m] n 1 _ n m _ n m eq_refl eq_refl (bdim_same n) (bdim_1_n m)).
  cbn [length Nat.max Nat.sub skipn]. f_equal. f_equal.
  apply tabl_ext. intros i j Hi Hj. cbv beta. now rewrite ?bidx_one, ?(bidx_self _ i Hi), ?(bidx_self _ j Hj).
Qed.

(* (n, m) op (n, m) *)
Lemma bc2_T2_T2 {X Y W} (dx : X) (dy : Y) (h : X -> Y -> W) n m a b :
  bc2 dx dy h (T2 n m a) (T2 n m b) = Some (T2 n m (fun i j => h (a i j) (b i j))).
Proof.
  unfold T2.
  rewrite (bc2_tabl dx dy h [n; m] [n; m] n m _ n m _ n m eq_refl eq_refl (bdim_same n) (bdim_same m)).
  cbn [length Nat.max Nat.sub skipn]. f_equal. f_equal.
  apply tabl_ext. intros i j Hi Hj. cbv beta. now rewrite ?bidx_one, ?(bidx_self _ i Hi), ?(bidx_self _ j Hj).
Qed.

(* (n, 1) op (m) *)
Lemma bc2_col_T1 {X Y W} (dx : X) (dy : Y) (h : X -> Y -> W) n m a b :
  bc2 dx dy h (T2 n 1 a) (T1 m b) = Some (T2 n m (fun i j => h (a i 0%nat) (b j))).
Proof.
  unfold T2, T1. rewrite <- (tabl_row m b).
  rewrite (bc2_tabl dx dy h [n; 1%nat] [m] n 1 _ 1 m _ n m eq_refl eq_refl (bdim_n_1 n) (bdim_1_n m)).
  cbn [length Nat.max Nat.sub skipn]. f_equal. f_equal.
  apply tabl_ext. intros i j Hi Hj. cbv beta. now rewrite ?bidx_one, ?(bidx_self _ i Hi), ?(bidx_self _ j Hj).
Qed.

(* ---- encodings ------------------------------------------------------------------------------------ *)
Lemma dec_nats_enc l : dec_nats (map (fun n => VInt (Z.of_nat n)) l) = Some l.
Proof.
  induction l as [|x l IH]; [reflexivity|]. cbn [map dec_nats].
  replace (0 <=? Z.of_nat x)%Z with true by (symmetry; apply Z.leb_le; lia).
  rewrite IH, Nat2Z.id. reflexivity.
Qed.

Lemma dec_list_q l : dec_list val_q (map VQ l) = Some l.
Proof. induction l as [|x l IH]; [reflexivity|]. cbn [map dec_list val_q]. now rewrite IH. Qed.
Lemma dec_list_z l : dec_list val_z (map VInt l) = Some l.
Proof. induction l as [|x l IH]; [reflexivity|]. cbn [map dec_list val_z]. now rewrite IH. Qed.
Lemma dec_list_b l : dec_list val_b (map VBool l) = Some l.
Proof. induction l as [|x l IH]; [reflexivity|]. cbn [map dec_list val_b]. now rewrite IH. Qed.

Lemma dec_any_enc_f t : dec_any (enc_f t) = Some (TF t).
Proof. destruct t as [s d]. unfold dec_any, enc_f, enc_shape. cbn [shp dat]. rewrite dec_nats_enc. cbn. now rewrite dec_list_q. Qed.
Lemma dec_any_enc_l t : dec_any (enc_l t) = Some (TL t).
Proof. destruct t as [s d]. unfold dec_any, enc_l, enc_shape. cbn [shp dat]. rewrite dec_nats_enc. cbn. now rewrite dec_list_z. Qed.
Lemma dec_any_enc_b t : dec_any (enc_b t) = Some (TB t).
Proof. destruct t as [s d]. unfold dec_any, enc_b, enc_shape. cbn [shp dat]. rewrite dec_nats_enc. cbn. now rewrite dec_list_b. Qed.

Lemma dec_feats_enc sh eps : dec_feats (enc_feats sh eps) = Some (sh, eps).
Proof. unfold dec_feats, enc_feats, enc_shape. cbn. now rewrite dec_nats_enc. Qed.

Lemma dec_any_feats sh eps : dec_any (enc_feats sh eps) = None.
Proof. reflexivity. Qed.
