(* MiniTorch, unit C20B - algebra of the operations of OpsC20B.v (and of the view operations of OpsC07 /
   the linear of OpsC20 as MultiHeadedAttention uses them): on materialised model tensors they are the
   model's index maps (Model.linear, unflatten_last, flatten_last2, unsq, expand).  No axioms. *)
From Coq Require Import List ZArith QArith Bool Arith Lia ZifyBool ZifyNat.
From PV Require Import MiniPy.Syntax MiniTorch.Ops MiniTorch.OpsC07 MiniTorch.LemmasC07 MiniTorch.OpsC20 MiniTorch.LemmasC20.
From PV Require Import MiniTorch.OpsC20B.
From PV Require Import C20.Model C20.Spec C20.Index C20.Broadcast.
Import ListNotations.
Local Open Scope nat_scope.

(* ---- lists ------------------------------------------------------------------------------------------ *)
Lemma seq_add a d : seq a d = map (fun j => a + j) (seq 0 d).
Proof.
  induction a as [|a IH].
  - rewrite <- (map_id (seq 0 d)) at 1. apply map_ext. reflexivity.
  - rewrite <- seq_shift, IH, map_map. apply map_ext. intros; reflexivity.
Qed.

(* the positions 0 .. H*d-1 enumerated block by block *)
Lemma seq_split {A} (f : nat -> A) d : forall H,
  map f (seq 0 (H * d)) = flat_map (fun h => map (fun j => f (h * d + j)) (seq 0 d)) (seq 0 H).
Proof.
  induction H as [|H IH]; [reflexivity|].
  replace (S H * d) with (H * d + d) by lia.
  rewrite seq_app, map_app, IH, seq_S, flat_map_app. cbn [flat_map]. rewrite app_nil_r. f_equal.
  cbn [Nat.add]. rewrite (seq_add (H * d) d), map_map. reflexivity.
Qed.

Lemma flat_map_map {A B C} (k : A -> B) (F : B -> list C) l : flat_map F (map k l) = flat_map (fun x => F (k x)) l.
Proof. induction l as [|x l IH]; [reflexivity|]. cbn. now rewrite IH. Qed.

Lemma map_flat_map {A B C} (g : B -> C) (F : A -> list B) l : map g (flat_map F l) = flat_map (fun x => map g (F x)) l.
Proof. induction l as [|x l IH]; [reflexivity|]. cbn. now rewrite map_app, IH. Qed.

Lemma flat_map_flat_map {A B C} (F : B -> list C) (G : A -> list B) l :
  flat_map F (flat_map G l) = flat_map (fun x => flat_map F (G x)) l.
Proof. induction l as [|x l IH]; [reflexivity|]. cbn. now rewrite flat_map_app, IH. Qed.

Lemma flat_map_ext_in {A B} (F G : A -> list B) l : (forall x, List.In x l -> F x = G x) -> flat_map F l = flat_map G l.
Proof.
  induction l as [|x l IH]; intros H; [reflexivity|]. cbn. rewrite (H x) by (left; reflexivity).
  rewrite IH; [reflexivity|]. intros y Hy. apply H. right. exact Hy.
Qed.

(* ---- the last axis of size H*d seen as two axes (H, d): same row-major order ------------------------- *)
Lemma map_renum_split {A} (g : index -> A) H d s :
  map g (renum ((H * d) :: s))
  = map (fun i => match i with j :: h :: r => g ((h * d + j) :: r) | _ => g [] end) (renum (d :: H :: s)).
Proof.
  cbn [renum]. rewrite flat_map_flat_map, !map_flat_map.
  apply flat_map_ext_in. intros r _.
  rewrite map_map, (seq_split (fun x => g (x :: r)) d H).
  rewrite flat_map_map, map_flat_map. apply flat_map_ext_in. intros h _.
  rewrite !map_map. reflexivity.
Qed.

Lemma valid2 d H s i : valid (d :: H :: s) i -> exists j h r, i = j :: h :: r /\ j < d /\ h < H /\ valid s r.
Proof.
  intros Hv. destruct i as [|j i]; [inversion Hv|].
  apply valid_cons_inv in Hv. destruct Hv as [Hj Hv].
  destruct i as [|h r]; [inversion Hv|].
  apply valid_cons_inv in Hv. destruct Hv as [Hh Hv].
  exists j, h, r. repeat split; assumption.
Qed.

(* unflatten(x, -1, [H, d]) is a view: the data of the model's index map are the data of its argument *)
Lemma to_flat_unflatten H d (T : tensor Q) : hd 0 (tshape T) = H * d -> tshape T <> [] ->
  to_flat (unflatten_last H d T) = to_flat T.
Proof.
  intros Hh Hne. destruct (tshape T) as [|n s] eqn:E; [congruence|]. cbn [hd] in Hh. subst n.
  unfold to_flat. rewrite E. cbn [unflatten_last tshape tat]. rewrite E. cbn [tl].
  rewrite (map_renum_split (tat T) H d s).
  apply map_ext_in. intros i Hi. apply renum_valid in Hi.
  destruct (valid2 _ _ _ _ Hi) as [j [h [r [-> _]]]]. reflexivity.
Qed.

(* x.flatten(-2) likewise *)
Lemma to_flat_flatten d H s (T : tensor Q) : tshape T = d :: H :: s ->
  to_flat (flatten_last2 T) = to_flat T.
Proof.
  intros E. unfold to_flat. cbn [flatten_last2 tshape tat]. rewrite E. cbn [hd tl].
  rewrite (map_renum_split _ H d s).
  apply map_ext_in. intros i Hi. apply renum_valid in Hi.
  destruct (valid2 _ _ _ _ Hi) as [j [h [r [-> [Hj _]]]]].
  assert (Hd : d <> 0) by lia.
  replace (h * d + j) with (j + h * d) by lia.
  rewrite Nat.mod_add, Nat.div_add, Nat.mod_small, Nat.div_small by assumption. reflexivity.
Qed.

Lemma unflatten_last_mat H d (T : tensor Q) : hd 0 (tshape T) = H * d -> tshape T <> [] ->
  OpsC20B.unflatten_last (mat T) [H; d] = Some (mat (Model.unflatten_last H d T)).
Proof.
  intros Hh Hne. unfold OpsC20B.unflatten_last. rewrite rshp_mat.
  destruct (tshape T) as [|n s] eqn:E; [congruence|]. cbn [hd] in Hh. subst n.
  cbn [numel]. rewrite Nat.eqb_refl. f_equal. unfold mat. cbn [shp dat].
  rewrite to_flat_unflatten; [|rewrite E; reflexivity|rewrite E; discriminate].
  cbn [Model.unflatten_last tshape]. rewrite E. cbn [tl rev]. rewrite <- !app_assoc. reflexivity.
Qed.

Lemma wrap_dim_m2 n : wrap_dim (S (S n)) (-2) = Some n.
Proof.
  unfold wrap_dim.
  assert (B : ((- Z.of_nat (S (S n)) <=? -2)%Z && (-2 <? Z.of_nat (S (S n)))%Z)%bool = true) by lia.
  rewrite B. f_equal. replace (-2 <? 0)%Z with true by reflexivity. lia.
Qed.

Lemma flatten_from_mat d H s (T : tensor Q) : tshape T = d :: H :: s ->
  flatten_from (mat T) (-2) = Some (mat (flatten_last2 T)).
Proof.
  intros E. unfold flatten_from. rewrite rank_mat, E. cbn [length]. rewrite wrap_dim_m2. f_equal.
  unfold mat. cbn [shp dat]. rewrite (to_flat_flatten d H s) by exact E.
  cbn [flatten_last2 tshape]. rewrite E. cbn [hd tl rev].
  rewrite <- !app_assoc. cbn [app].
  rewrite <- (rev_length s) at 1 2. rewrite firstn_app_exact, skipn_app_exact. cbn [numel].
  reflexivity.
Qed.

(* mask.unsqueeze(-1): a trailing axis of size 1, the data unchanged *)
Lemma to_flat_unsq0 {X} (T : tensor X) : to_flat (unsq 0 T) = to_flat T.
Proof.
  unfold to_flat. cbn [unsq tshape tat firstn skipn app renum].
  induction (renum (tshape T)) as [|r L IH]; [reflexivity|].
  cbn [flat_map seq map app]. f_equal. exact IH.
Qed.

Lemma runsq0_mat {X} (T : tensor X) : runsq 0 (mat T) = mat (unsq 0 T).
Proof.
  unfold runsq, mat. cbn [shp dat]. rewrite to_flat_unsq0, rev_involutive. reflexivity.
Qed.

(* ---- linear ------------------------------------------------------------------------------------------- *)
Definition rows_tn (cols : nat) (W : list (list Q)) : tn Q := mkTn [length W; cols] (concat W).
Definition vec_tn (b : list Q) : tn Q := mkTn [length b] b.

Lemma nth_concat_rows {A} (d : A) n : forall (W : list (list A)) t j,
  Forall (fun w => length w = n) W -> t < length W -> j < n ->
  nth (t * n + j) (concat W) d = nth j (nth t W []) d.
Proof.
  induction W as [|w W IH]; intros t j Hall Ht Hj; [cbn in Ht; lia|].
  inversion Hall as [|? ? Hw Hall']; subst. cbn [concat].
  destruct t as [|t].
  - cbn [Nat.mul Nat.add nth]. apply app_nth1. lia.
  - rewrite app_nth2 by lia. replace (S t * length w + j - length w) with (t * length w + j) by lia.
    cbn [nth]. apply IH; [exact Hall'|cbn in Ht; lia|exact Hj].
Qed.

Lemma map_nth_seq {A} (d : A) (l : list A) : map (fun j => nth j l d) (seq 0 (length l)) = l.
Proof.
  induction l as [|x l IH]; [reflexivity|]. cbn [length seq map nth]. f_equal.
  rewrite <- seq_shift, map_map. exact IH.
Qed.

Lemma weight_row n W t : Forall (fun w => length w = n) W -> t < length W ->
  map (fun j => tat (rd 0%Q (rows_tn n W)) [j; t]) (seq 0 n) = nth t W [].
Proof.
  intros Hall Ht.
  assert (Hlen : length (nth t W []) = n) by (rewrite Forall_forall in Hall; apply Hall, nth_In; exact Ht).
  etransitivity; [|apply (map_nth_seq 0%Q)]. rewrite Hlen.
  apply map_ext_in. intros c Hc. apply in_seq in Hc.
  unfold rd, rows_tn, of_flat. cbn [shp dat rev app tat rfi].
  replace ((0 * length W + t) * n + c) with (t * n + c) by lia.
  apply nth_concat_rows; [exact Hall|lia|lia].
Qed.

(* F.linear on a materialised tensor = the model's linear, materialised: weight rows of the input's feature
   size, a bias (if any) with one entry per row *)
Lemma linear_mat (T : tensor Q) W b n s :
  tshape T = n :: s -> Forall (fun w => length w = n) W ->
  match b with None => True | Some bl => length bl = length W end ->
  OpsC20.linear (mat T) (rows_tn n W) (option_map vec_tn b) = Some (mat (Model.linear W b T)).
Proof.
  intros E Hall Hb. unfold OpsC20.linear. cbn [rows_tn shp]. rewrite rshp_mat, E, Nat.eqb_refl.
  assert (Hbb : match option_map vec_tn b with None => true | Some bt => nats_eqb (shp bt) [length W] end = true).
  { destruct b as [bl|]; [|reflexivity]. cbn [option_map vec_tn shp nats_eqb]. rewrite Hb, Nat.eqb_refl. reflexivity. }
  rewrite Hbb. cbn [andb]. f_equal.
  unfold Model.linear. rewrite E. cbn [tl hd].
  apply mat_ext. intros ci Hv. destruct ci as [|c i]; [reflexivity|].
  apply valid_cons_inv in Hv. destruct Hv as [Hc Hi].
  assert (Hrow : map (fun j => tat (rd 0%Q (mat T)) (j :: i)) (seq 0 n) = map (fun j => tat T (j :: i)) (seq 0 n)).
  { apply map_ext_in. intros j Hj. apply in_seq in Hj. apply tat_rd_mat. rewrite E. apply valid_cons; [lia|exact Hi]. }
  rewrite Hrow, (weight_row n W c Hall Hc).
  destruct b as [bl|]; cbn [option_map]; [|reflexivity].
  f_equal.
Qed.

(* ---- expand, cat, tanh, squeeze (ConcatSoftAttention) --------------------------------------------------------------- *)
Lemma nats_eqb_refl s : nats_eqb s s = true.
Proof. induction s as [|x s IH]; [reflexivity|]. cbn. now rewrite Nat.eqb_refl, IH. Qed.

(* query.unsqueeze(dim).expand(shape + [query_size]) *)
Lemma expand_unsq_mat p (T : tensor Q) bs :
  p <= length (tshape T) -> intob (ins p 1 (tshape T)) bs = true ->
  expand_to (runsq p (mat T)) (rev bs) = Some (mat (mkT bs (fun i => bget (unsq p T) i))).
Proof.
  intros Hp Hi. unfold expand_to. rewrite rshp_runsq, rshp_mat, rev_involutive, Hi. f_equal.
  apply mat_ext. intros i Hv. apply (bget_rd_runsq 0%Q p T bs); assumption.
Qed.

(* key.expand(shape + [key_size]) *)
Lemma expand_mat (T : tensor Q) bs :
  intob (tshape T) bs = true -> expand_to (mat T) (rev bs) = Some (mat (mkT bs (fun i => bget T i))).
Proof.
  intros Hi. unfold expand_to. rewrite rshp_mat, rev_involutive, Hi. f_equal.
  apply mat_ext. intros i Hv. apply (bget_rd_mat 0%Q T bs); assumption.
Qed.

Lemma cat_last_mat (A B : tensor Q) na nb s : tshape A = na :: s -> tshape B = nb :: s ->
  cat_last (mat A) (mat B)
  = Some (mat (mkT ((na + nb) :: s)
                   (fun ci => match ci with
                              | c :: i => if c <? na then tat A (c :: i) else tat B ((c - na) :: i)
                              | [] => 0%Q
                              end))).
Proof.
  intros EA EB. unfold cat_last. rewrite !rshp_mat, EA, EB, nats_eqb_refl. f_equal.
  apply mat_ext. intros ci Hv. destruct ci as [|c i]; [reflexivity|].
  apply valid_cons_inv in Hv. destruct Hv as [Hc Hi].
  destruct (c <? na) eqn:L.
  - apply Nat.ltb_lt in L. apply tat_rd_mat. rewrite EA. apply valid_cons; assumption.
  - apply Nat.ltb_ge in L. apply tat_rd_mat. rewrite EB. apply valid_cons; [lia|assumption].
Qed.

Lemma tanh_mat f (T : tensor Q) : tanh_t f (mat T) = mat (mkT (tshape T) (fun i => f (tat T i))).
Proof. unfold tanh_t. apply (map_mat f). Qed.

(* v.unsqueeze(0): the vector as a one-row weight matrix *)
Lemma unsqueeze_vec v : unsqueeze (vec_tn v) 0 = Some (rows_tn (length v) [v]).
Proof. unfold unsqueeze, vec_tn, rows_tn. cbn. rewrite app_nil_r. reflexivity. Qed.

Lemma to_flat_head1 {X} (T : tensor X) s : tshape T = 1 :: s -> to_flat T = map (fun i => tat T (0 :: i)) (renum s).
Proof.
  intros E. unfold to_flat. rewrite E. cbn [renum].
  induction (renum s) as [|r L IH]; [reflexivity|]. cbn [flat_map seq map app]. f_equal. exact IH.
Qed.

Lemma wrap_dim_m1 n : wrap_dim (S n) (-1) = Some n.
Proof.
  unfold wrap_dim.
  assert (B : ((- Z.of_nat (S n) <=? -1)%Z && (-1 <? Z.of_nat (S n))%Z)%bool = true) by lia.
  rewrite B. f_equal. replace (-1 <? 0)%Z with true by reflexivity. lia.
Qed.

(* x.squeeze(-1) on a tensor whose last dimension has size 1 *)
Lemma squeeze_last_mat (T : tensor Q) s : tshape T = 1 :: s ->
  squeeze_dim (mat T) (-1) = Some (mat (mkT s (fun i => tat T (0 :: i)))).
Proof.
  intros E. unfold squeeze_dim. rewrite rank_mat, E. cbn [length]. rewrite wrap_dim_m1.
  unfold extent, drop_dim. rewrite shp_mat, E. cbn [rev].
  assert (Hn : nth (length s) (rev s ++ [1]) 0 = 1).
  { rewrite app_nth2 by (rewrite rev_length; lia). rewrite rev_length, Nat.sub_diag. reflexivity. }
  rewrite Hn. cbn [Nat.eqb]. f_equal. unfold mat at 2. cbn [tshape tat]. f_equal.
  - rewrite <- (rev_length s) at 1. rewrite firstn_app_exact.
    replace (S (length s)) with (length (rev s ++ [1])) by (rewrite app_length, rev_length; cbn; lia).
    rewrite skipn_all. apply app_nil_r.
  - cbn [dat mat]. apply (to_flat_head1 T s E).
Qed.
