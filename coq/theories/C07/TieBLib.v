(* C07, second source tie - what the interpreter does with one statement (generic over [ext]) and what reaches
   [SrcRunB.ext07B], call by call.  Used by TieBGreedy / TieBAdv / TieBPs. *)
From Coq Require Import ZArith QArith List String Bool Arith Lia ZifyBool ZifyNat.
From PV Require Import MiniPy.Syntax MiniPy.Interp MiniTorch.Ops MiniTorch.OpsC07 MiniTorch.LemmasC07 MiniTorch.OpsC07B.
From PV Require Import C07.SrcRun C07.SrcRunB.
Import ListNotations.
Local Open Scope string_scope.

(* ---- one statement ---------------------------------------------------------------------------------------------- *)
Section Exec.
  Variable E : string -> list val -> list (string * val) -> state -> outcome val.

  Definition then_ (b : stmt) (c : ctl) (st1 : state) : outcome ctl :=
    match c with CNormal => exec E b st1 | CReturn v => Ok c st1 end.

  Lemma exec_seq a b st : exec E (SSeq a b) st = bind (exec E a st) (then_ b).
  Proof. reflexivity. Qed.

  Lemma exec_assign1 x e st : exec E (SAssign [TName x] e) st = bind (eval E e st) (fun v st1 => Ok CNormal (set_var x v st1)).
  Proof. cbn [exec assign_all place_of store]. destruct (eval E e st); reflexivity. Qed.

  Lemma exec_if c a b st :
    exec E (SIf c a b) st = bind (eval E c st) (fun cv st1 => if truthy cv then exec E a st1 else exec E b st1).
  Proof. reflexivity. Qed.

  Lemma exec_aug1 x op e st :
    exec E (SAug (TName x) op e) st =
    bind (eval E (EName x) st) (fun old st1 => bind (eval E e st1) (fun v st2 =>
      bind (match binop_eval op old v st2 with
            | Stuck _ => E "operator" [VStr (binop_name op); old; v] [] st2
            | o => o
            end) (fun nv st3 => Ok CNormal (set_var x nv st3)))).
  Proof.
    cbn [exec place_of store eval]. destruct (lookup x (vars st)) as [old|]; cbn [bind]; [|reflexivity].
    destruct (eval E e st) as [v st2|n st2|w]; cbn [bind]; try reflexivity.
  Qed.

  Lemma exec_raise n st : exec E (SRaise n) st = Exc n st.  Proof. reflexivity. Qed.
  Lemma exec_pass st : exec E SPass st = Ok CNormal st.  Proof. reflexivity. Qed.
  Lemma exec_return e st : exec E (SReturn e) st = bind (eval E e st) (fun v st1 => Ok (CReturn v) st1).
  Proof. reflexivity. Qed.

  Definition fin (o : outcome ctl) : outcome val :=
    match o with
    | Ok CNormal st => Ok VNone st
    | Ok (CReturn v) st => Ok v st
    | Exc n st => Exc n st
    | Stuck w => Stuck w
    end.

  Lemma run_fin body vars0 : Interp.run E body vars0 = fin (exec E body (mkState vars0 [])).
  Proof. reflexivity. Qed.
End Exec.

(* ---- tensors inside the interpreter ------------------------------------------------------------------------------- *)
Lemma method_enc_i t m args : method (enc_i t) m args = None.  Proof. reflexivity. Qed.
Lemma method_enc_b t m args : method (enc_b t) m args = None.  Proof. reflexivity. Qed.
Lemma method_enc_f t m args : method (enc_f t) m args = None.  Proof. reflexivity. Qed.
Lemma attribute_enc_i E t a st : attribute E (enc_i t) a st = E ("$attr." ++ a) [enc_i t] [] st.  Proof. reflexivity. Qed.
Lemma attribute_enc_f E t a st : attribute E (enc_f t) a st = E ("$attr." ++ a) [enc_f t] [] st.  Proof. reflexivity. Qed.
Lemma foreign_enc_i t : foreign (enc_i t) = true.  Proof. reflexivity. Qed.
Lemma foreign_enc_b t : foreign (enc_b t) = true.  Proof. reflexivity. Qed.
Lemma foreign_enc_f t : foreign (enc_f t) = true.  Proof. reflexivity. Qed.
Lemma binop_enc_bb op t u st : exists m, binop_eval op (enc_b t) (enc_b u) st = Stuck m.
Proof. destruct op; eexists; reflexivity. Qed.
Lemma binop_and_enc t u st : binop_eval BitAnd (enc_b t) (enc_b u) st = Stuck "and".  Proof. reflexivity. Qed.
Lemma binop_or_enc t u st : binop_eval BitOr (enc_b t) (enc_b u) st = Stuck "or".  Proof. reflexivity. Qed.
Lemma binop_add_ff t u st : binop_eval Add (enc_f t) (enc_f u) st = Stuck "add".  Proof. reflexivity. Qed.
Lemma subscript_b_tuple t k st : subscript (enc_b t) (VTuple k) st = Stuck "subscript".  Proof. reflexivity. Qed.
Lemma subscript_i_tuple t k st : subscript (enc_i t) (VTuple k) st = Stuck "subscript".  Proof. reflexivity. Qed.
Lemma subscript_f_i t u st : subscript (enc_f t) (enc_i u) st = Stuck "subscript".  Proof. reflexivity. Qed.
Lemma cmp_isnot_enc_i t : cmp_eval IsNot (enc_i t) VNone = Some true.  Proof. reflexivity. Qed.
Lemma cmp_is_enc_i t : cmp_eval Is (enc_i t) VNone = Some false.  Proof. reflexivity. Qed.
Lemma truthy_enc_i t : truthy (enc_i t) = true.  Proof. reflexivity. Qed.
Lemma subscript_pair_0 a b st : subscript (VTuple [a; b]) (VInt 0) st = Ok a st.  Proof. reflexivity. Qed.
Lemma subscript_pair_1 a b st : subscript (VTuple [a; b]) (VInt 1) st = Ok b st.  Proof. reflexivity. Qed.
Lemma subscript_quad_0 t u c d st : subscript (VTuple [enc_f t; u; c; d]) (VInt 0) st = Ok (enc_f t) st.  Proof. reflexivity. Qed.
Lemma subscript_quad_1 t u c d st : subscript (VTuple [enc_f t; u; c; d]) (VInt 1) st = Ok u st.  Proof. reflexivity. Qed.
Lemma subscript_quad_2 t u c d st : subscript (VTuple [enc_f t; u; c; d]) (VInt 2) st = Ok c st.  Proof. reflexivity. Qed.
Lemma subscript_quad_3 t u c d st : subscript (VTuple [enc_f t; u; c; d]) (VInt 3) st = Ok d st.  Proof. reflexivity. Qed.
Lemma subscript_quadi_0 t u c d st : subscript (VTuple [enc_i t; u; c; d]) (VInt 0) st = Ok (enc_i t) st.  Proof. reflexivity. Qed.
Lemma cmp_isnot_none : cmp_eval IsNot VNone VNone = Some false.  Proof. reflexivity. Qed.
Lemma cmp_is_none : cmp_eval Is VNone VNone = Some true.  Proof. reflexivity. Qed.
Lemma cmp_ne_int a b : cmp_eval NotEq (VInt a) (VInt b) = Some (negb (a =? b)%Z).  Proof. reflexivity. Qed.
Lemma cmp_lt_int a b : cmp_eval Lt (VInt a) (VInt b) = Some (a <? b)%Z.
Proof. cbn. unfold Qcompare, Z.ltb. cbn [Qnum Qden inject_Z]. rewrite !Z.mul_1_r. destruct (a ?= b)%Z; reflexivity. Qed.
Lemma cmp_gt_int a b : cmp_eval Gt (VInt a) (VInt b) = Some (a >? b)%Z.
Proof. cbn. unfold Qcompare, Z.gtb. cbn [Qnum Qden inject_Z]. rewrite !Z.mul_1_r. destruct (a ?= b)%Z; reflexivity. Qed.
Lemma cmp_ge_int a b : cmp_eval GtE (VInt a) (VInt b) = Some (a >=? b)%Z.
Proof. cbn. unfold Qcompare, Z.geb. cbn [Qnum Qden inject_Z]. rewrite !Z.mul_1_r. destruct (a ?= b)%Z; reflexivity. Qed.
Lemma cmp_ne_shape1 (a b : nat) : cmp_eval NotEq (VTuple [VInt (Z.of_nat a)]) (VTuple [VInt (Z.of_nat b)]) = Some (negb (Nat.eqb a b)).
Proof. cbn. rewrite andb_true_r. f_equal. f_equal. destruct (Nat.eqb_spec a b), (Z.eqb_spec (Z.of_nat a) (Z.of_nat b)); try reflexivity; lia. Qed.

(* ---- what reaches ext07B --------------------------------------------------------------------------------------------- *)
#[local] Arguments dec_any : simpl never.
#[local] Arguments enc_b : simpl never.
#[local] Arguments enc_i : simpl never.
#[local] Arguments enc_f : simpl never.

Ltac ext_tac := intros; unfold ext07B, ext07_ops; cbn;
  rewrite ?dec_any_enc_f, ?dec_any_enc_i, ?dec_any_enc_b; cbn; try reflexivity.

Section ExtLemmas.
  Variable lsm : tn xq -> tn xq.
  Variable mn : tn xq -> tn Z.
  Notation E := (ext07B lsm mn).

  Lemma ext_dim_f x st : E "$method.dim" [enc_f x] [] st = Ok (VInt (Z.of_nat (List.length (shp x)))) st.
  Proof. ext_tac. Qed.
  Lemma ext_dim_i x st : E "$method.dim" [enc_i x] [] st = Ok (VInt (Z.of_nat (List.length (shp x)))) st.
  Proof. ext_tac. Qed.
  Lemma ext_shape_f x st : E "$attr.shape" [enc_f x] [] st = Ok (VTuple (map (fun n => VInt (Z.of_nat n)) (shp x))) st.
  Proof. ext_tac. Qed.
  Lemma ext_shape_i x st : E "$attr.shape" [enc_i x] [] st = Ok (VTuple (map (fun n => VInt (Z.of_nat n)) (shp x))) st.
  Proof. ext_tac. Qed.
  Lemma ext_device_i x st : E "$attr.device" [enc_i x] [] st = Ok device_token st.
  Proof. ext_tac. Qed.

  Lemma ext_size_f x d k st : wrap_dim (List.length (shp x)) d = Some k ->
    E "$method.size" [enc_f x; VInt d] [] st = Ok (VInt (Z.of_nat (nth k (shp x) 0%nat))) st.
  Proof. intros H. ext_tac. now rewrite H. Qed.
  Lemma ext_size_i x d k st : wrap_dim (List.length (shp x)) d = Some k ->
    E "$method.size" [enc_i x; VInt d] [] st = Ok (VInt (Z.of_nat (nth k (shp x) 0%nat))) st.
  Proof. intros H. ext_tac. now rewrite H. Qed.

  Lemma ext_lsm_m x d k st : wrap_dim (rank x) d = Some k -> Nat.eqb (rank x) (S k) = true -> nats_eqb (shp (lsm x)) (shp x) = true ->
    E "$method.log_softmax" [enc_f x; VInt d] [] st = Ok (enc_f (lsm x)) st.
  Proof. intros H1 H2 H3. ext_tac. unfold rank in *. now rewrite H1, H2, H3. Qed.

  Lemma ext_lsm_f x st : (rank x =? 0)%nat = false -> nats_eqb (shp (lsm x)) (shp x) = true ->
    E "torch.nn.functional.log_softmax" [enc_f x; VInt (-1)] [] st = Ok (enc_f (lsm x)) st.
  Proof. intros H1 H2. ext_tac. unfold rank in *. now rewrite H1, H2. Qed.

  Lemma ext_transpose_f x st :
    E "$method.transpose" [enc_f x; VInt 0; VInt 1] [] st = ret_any "transpose" (option_map TF (transpose01 xzero x)) st.
  Proof. ext_tac. Qed.

  Lemma ext_t_i x st : List.length (shp x) = 2%nat ->
    E "$method.t" [enc_i x] [] st = ret_any "t" (option_map TI (transpose01 0%Z x)) st.
  Proof. intros H. ext_tac. unfold is_rank2. cbn. now rewrite H. Qed.

  Lemma ext_T_i x st : List.length (shp x) = 2%nat ->
    E "$attr.T" [enc_i x] [] st = ret_any "t" (option_map TI (transpose01 0%Z x)) st.
  Proof. intros H. ext_tac. unfold is_rank2. cbn. now rewrite H. Qed.

  Lemma ext_max_f x d st :
    E "$method.max" [enc_f x; VInt d] [] st =
    match max_last x d with
    | Some (Some (v, i)) => Ok (VTuple [enc_f v; enc_i i]) st
    | Some None => Exc index_error st
    | None => oob "max"
    end.
  Proof. ext_tac. Qed.

  Lemma ext_max_all x st :
    E "$method.max" [enc_i x] [] st = match max_all x with Some m => Ok (enc_i m) st | None => Exc runtime_error st end.
  Proof. ext_tac. Qed.

  Lemma ext_item x st : E "$method.item" [enc_i x] [] st = match item x with Some z => Ok (VInt z) st | None => oob "item" end.
  Proof. ext_tac. Qed.

  Lemma ext_int z st : E "int" [VInt z] [] st = Ok (VInt z) st.
  Proof. reflexivity. Qed.

  Lemma ext_ne_s x c st : E "compare" [VStr "ne"; enc_i x; VInt c] [] st = Ok (enc_b (ne_s x c)) st.
  Proof. ext_tac. Qed.
  Lemma ext_ne_t x y st : E "compare" [VStr "ne"; enc_i x; enc_i y] [] st = ret_any "ne" (option_map TB (ne_t x y)) st.
  Proof. ext_tac. Qed.
  Lemma ext_lt_t x y st : E "compare" [VStr "lt"; enc_i x; enc_i y] [] st = ret_any "lt" (option_map TB (lt_t x y)) st.
  Proof. ext_tac. Qed.

  Lemma ext_cols_b x lo hi l h st : bound lo = Some l -> bound hi = Some h ->
    E "$getitem" [enc_b x; VTuple [VTuple [VStr "$slice"; VNone; VNone; VNone]; VTuple [VStr "$slice"; lo; hi; VNone]]] [] st =
    ret_any "x[:, a:b]" (option_map TB (slice_cols false x l h)) st.
  Proof. intros H1 H2. ext_tac. now rewrite H1, H2. Qed.
  Lemma ext_cols_i x lo hi l h st : bound lo = Some l -> bound hi = Some h ->
    E "$getitem" [enc_i x; VTuple [VTuple [VStr "$slice"; VNone; VNone; VNone]; VTuple [VStr "$slice"; lo; hi; VNone]]] [] st =
    ret_any "x[:, a:b]" (option_map TI (slice_cols 0%Z x l h)) st.
  Proof. intros H1 H2. ext_tac. now rewrite H1, H2. Qed.

  Lemma ext_index1 x i st :
    E "$getitem" [enc_f x; enc_i i] [] st = ret_any "x[idx]" (option_map TF (index1 xzero x i)) st.
  Proof. intros. unfold ext07B. cbn. unfold enc_i at 1. cbn. rewrite dec_any_enc_f. fold (enc_i i). now rewrite dec_any_enc_i. Qed.

  Lemma ext_cat_b x y d st : E "torch.cat" [VList [enc_b x; enc_b y]; VInt d] [] st = ret_any "cat" (option_map TB (cat2 false x y d)) st.
  Proof. ext_tac. Qed.
  Lemma ext_cat_i x y d st : E "torch.cat" [VList [enc_i x; enc_i y]; VInt d] [] st = ret_any "cat" (option_map TI (cat2 0%Z x y d)) st.
  Proof. ext_tac. Qed.

  Lemma ext_and x y st : E "operator" [VStr "and"; enc_b x; enc_b y] [] st = ret_any "and" (option_map TB (band x y)) st.
  Proof. ext_tac. Qed.
  Lemma ext_or x y st : E "operator" [VStr "or"; enc_b x; enc_b y] [] st = ret_any "or" (option_map TB (bor x y)) st.
  Proof. ext_tac. Qed.
  Lemma ext_add_ff x y st : E "operator" [VStr "add"; enc_f x; enc_f y] [] st = ret_any "add" (option_map TF (add_t x y)) st.
  Proof. ext_tac. Qed.

  Lemma ext_arange_dev n st :
    E "torch.arange" [VInt n] [("device", device_token)] st = ret_any "arange" (option_map TI (arange n)) st.
  Proof. reflexivity. Qed.
  Lemma ext_arange n st : E "torch.arange" [VInt n] [] st = ret_any "arange" (option_map TI (arange n)) st.
  Proof. reflexivity. Qed.

  Lemma ext_unsqueeze_i x d st :
    E "$method.unsqueeze" [enc_i x; VInt d] [] st = ret_any "unsqueeze" (option_map TI (unsqueeze x d)) st.
  Proof. ext_tac. Qed.
  Lemma ext_squeeze_f x d st :
    E "$method.squeeze" [enc_f x; VInt d] [] st = ret_any "squeeze" (option_map TF (squeeze_dim x d)) st.
  Proof. ext_tac. Qed.

  Lemma ext_invert x st : E "$invert" [enc_b x] [] st = Ok (enc_b (bnot x)) st.
  Proof. ext_tac. Qed.
  Lemma ext_long x st : E "$method.long" [enc_b x] [] st = Ok (enc_i (to_long x)) st.
  Proof. ext_tac. Qed.
  Lemma ext_to_long x st : E "$method.to" [enc_b x; long_token] [] st = Ok (enc_i (to_long x)) st.
  Proof. ext_tac. Qed.

  Lemma ext_mfill_f x m q st :
    E "$method.masked_fill" [enc_f x; enc_b m; VQ q] [] st = ret_any "masked_fill" (option_map TF (masked_fill x m (Fin q))) st.
  Proof. ext_tac. Qed.
  Lemma ext_mfill_i x m c st :
    E "$method.masked_fill" [enc_i x; enc_b m; VInt c] [] st = ret_any "masked_fill" (option_map TI (masked_fill x m c)) st.
  Proof. ext_tac. Qed.

  Lemma ext_lt_s x c st : E "$method.lt" [enc_i x; VInt c] [] st = Ok (enc_b (lt_s x c)) st.
  Proof. ext_tac. Qed.
  Lemma ext_ge_s x c st : E "$method.ge" [enc_i x; VInt c] [] st = Ok (enc_b (ge_s x c)) st.
  Proof. ext_tac. Qed.

  Lemma ext_sum_i x d st : E "$method.sum" [enc_i x; VInt d] [] st = ret_any "sum" (option_map TI (sum_long x d)) st.
  Proof. ext_tac. Qed.
  Lemma ext_sum_f x d st : E "$method.sum" [enc_f x; VInt d] [] st = ret_any "sum" (option_map TF (sum_dim x d)) st.
  Proof. ext_tac. Qed.
  Lemma ext_prod x d st : E "$method.prod" [enc_f x; VInt d] [] st = ret_any "prod" (option_map TF (prod_dim x d)) st.
  Proof. ext_tac. Qed.

  Lemma ext_mselect x m st :
    E "$method.masked_select" [enc_i x; enc_b m] [] st = ret_any "masked_select" (option_map TI (masked_select x m)) st.
  Proof. ext_tac. Qed.
  Lemma ext_mscatter x m s st :
    E "$method.masked_scatter_" [enc_i x; enc_b m; enc_i s] [] st =
    ret_any "masked_scatter_" (option_map TI (masked_scatter x m s)) st.
  Proof. ext_tac. Qed.

  Lemma ext_exp x st : E "$method.exp" [enc_f x] [] st = Ok (VTuple [VStr exp_tag; enc_f x]) st.
  Proof. ext_tac. Qed.
  Lemma ext_multinomial x N V st : shp x = [N; V] -> shp (mn x) = [N; 1%nat] ->
    E "torch.multinomial" [VTuple [VStr exp_tag; enc_f x]; VInt 1; VBool true] [] st = Ok (enc_i (mn x)) st.
  Proof. intros H1 H2. ext_tac. rewrite H1, H2. cbn. now rewrite Nat.eqb_refl. Qed.

  Lemma ext_gather1 x y st : rank x = 2%nat -> rank y = 2%nat ->
    E "$method.gather" [enc_f x; VInt 1; enc_i y] [] st = ret_any "gather" (option_map TF (gather_last x y)) st.
  Proof. intros H1 H2. ext_tac. unfold rank in *. now rewrite H1, H2. Qed.

  Lemma ext_scatter x i s st :
    E "$method.scatter" [enc_i x; VInt 0; enc_i i; enc_i s] [] st = ret_any "scatter" (option_map TI (scatter0 x i s)) st.
  Proof. ext_tac. Qed.

  Lemma ext_index_select x d i st :
    E "torch.index_select" [enc_i x; VInt d; enc_i i] [] st = ret_any "index_select" (option_map TI (index_select2 0%Z x d i)) st.
  Proof. ext_tac. Qed.

  Lemma ext_pack x l b st :
    E "torch.nn.utils.rnn.pack_padded_sequence" [enc_i x; enc_i l] [("batch_first", VBool b)] st =
    match pack_padded x l b with
    | Some (d, bs) => Ok (VTuple [enc_i d; enc_i bs; VNone; VNone]) st
    | None => oob "pack_padded_sequence"
    end.
  Proof. ext_tac. Qed.

  Lemma ext_spoof a b st : E "SpoofPackedSequence" [a; b; VNone; VNone] [] st = Ok (VTuple [a; b; VNone; VNone]) st.
  Proof. reflexivity. Qed.

  Lemma ext_pad x bs st :
    E "torch.nn.utils.rnn.pad_packed_sequence" [VTuple [enc_f x; enc_i bs; VNone; VNone]] [("batch_first", VBool true)] st =
    match pad_packed x bs with
    | Some (p, l) => Ok (VTuple [enc_f p; enc_i l]) st
    | None => oob "pad_packed_sequence"
    end.
  Proof. ext_tac. Qed.
End ExtLemmas.

(* ---- small shape facts ---------------------------------------------------------------------------------------------- *)
Lemma unsqueeze_1_0 {X} T (d : list X) : unsqueeze (mkTn [T] d) 0 = Some (mkTn [1%nat; T] d).
Proof. reflexivity. Qed.
Lemma unsqueeze_1_1 {X} N (d : list X) : unsqueeze (mkTn [N] d) 1 = Some (mkTn [N; 1%nat] d).
Proof. reflexivity. Qed.
Lemma arange_nat T : arange (Z.of_nat T) = Some (mkTn [T] (map Z.of_nat (seq 0 T))).
Proof. unfold arange. replace (Z.of_nat T <? 0)%Z with false by lia. now rewrite Nat2Z.id. Qed.
Lemma masked_select_same {X} sh (a : list X) m :
  masked_select (mkTn sh a) (mkTn sh m) = Some (mkTn [List.length (select m a)] (select m a)).
Proof. unfold masked_select. cbn [shp dat]. now rewrite nats_eqb_refl. Qed.
Lemma masked_scatter_same {X} sh (a : list X) m sh' s :
  masked_scatter (mkTn sh a) (mkTn sh m) (mkTn sh' s) = option_map (mkTn sh) (mscat m s a).
Proof. unfold masked_scatter. cbn [shp dat]. now rewrite nats_eqb_refl. Qed.
