(* C18 — the lemmas behind Properties.v, collected from the per-topic files:
     QLemmas (sums), Tensor (row-major tensors), Stats (population statistics),
     ProofsMvn (accumulate / store / mean_var_norm), ProofsPad + ProofsDeltas (delta features),
     ProofsLayout (N-dimensional layout of feat_deltas), ProofsReturn (returns). *)
From PV Require Export C18.Model C18.Spec C18.QLemmas C18.Tensor C18.Stats
  C18.ProofsMvn C18.ProofsPad C18.ProofsDeltas C18.ProofsLayout C18.ProofsReturn.
