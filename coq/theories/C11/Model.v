(* C11 - transcript files (src/pydrobert/torch/_parsing.py: _AltTree, _trn_line_to_transcript,
   read_trn_iter/read_trn, write_trn, read_ctm, write_ctm, read_textgrid, write_textgrid,
   transcript_to_token, token_to_transcript; _textgrid.py for the "short" TextGrid layout that
   write_textgrid emits).

   Executable model of what the code does.  No proofs in this file.

   A Python string is a list of Unicode code points ([char := Z]); a text file is a string.
   Oracles (not modelled below their interface): float printing ("{}".format(x) / float(s) is the
   identity on values, f"{x:.pf}" is correct round-half-even decimal rounding), the regex engine
   (the TextGrid reader is modelled at line level for the files write_textgrid emits), the ctm text
   layer (fields joined by one space / str.split()), multiprocessing.Pool.imap (yields results in
   submission order whatever the completion order).  warnings.warn side effects are not modelled. *)
From Coq Require Import List ZArith Bool QArith Qround Qabs.
Import ListNotations.
Local Open Scope Z_scope.

Definition char := Z.
Definition str := list char.

Definition c_nl : char := 10.
Definition c_sp : char := 32.
Definition c_quote : char := 34.
Definition c_lpar : char := 40.
Definition c_rpar : char := 41.
Definition c_minus : char := 45.
Definition c_dot : char := 46.
Definition c_slash : char := 47.
Definition c_lbrace : char := 123.
Definition c_rbrace : char := 125.

(* str.isspace() / what str.strip() and str.split() remove (checked against CPython over all
   code points by the harness) *)
Definition is_space (c : char) : bool :=
  ((9 <=? c) && (c <=? 13)) || ((28 <=? c) && (c <=? 32)) || (c =? 133) || (c =? 160)
  || (c =? 5760) || ((8192 <=? c) && (c <=? 8202)) || (c =? 8232) || (c =? 8233)
  || (c =? 8239) || (c =? 8287) || (c =? 12288).

Fixpoint str_eqb (a b : str) : bool :=
  match a, b with
  | [], [] => true
  | x :: a', y :: b' => (x =? y) && str_eqb a' b'
  | _, _ => false
  end.

(* Python's ordering of str (lexicographic by code point) and of tuples (the first differing
   component decides), as three-way comparisons *)
Definition lexc (c1 c2 : comparison) : comparison := match c1 with Eq => c2 | _ => c1 end.

Fixpoint str_cmp (a b : str) : comparison :=
  match a, b with
  | [], [] => Eq
  | [], _ :: _ => Lt
  | _ :: _, [] => Gt
  | x :: a', y :: b' => lexc (x ?= y) (str_cmp a' b')
  end.

Definition pair_cmp {A B} (ca : A -> A -> comparison) (cb : B -> B -> comparison)
  (a b : A * B) : comparison := lexc (ca (fst a) (fst b)) (cb (snd a) (snd b)).

Definition leb_of {A} (cmp : A -> A -> comparison) (a b : A) : bool :=
  match cmp a b with Gt => false | _ => true end.

Definition str_ltb (a b : str) : bool := match str_cmp a b with Lt => true | _ => false end.

Fixpoint drop_while {A} (f : A -> bool) (l : list A) : list A :=
  match l with
  | [] => []
  | x :: t => if f x then drop_while f t else l
  end.

(* str.strip() *)
Definition strip (l : str) : str := rev (drop_while is_space (rev (drop_while is_space l))).

(* str.rindex(c): position of the last occurrence *)
Fixpoint rindex (c : char) (l : str) : option nat :=
  match l with
  | [] => None
  | x :: t => match rindex c t with
              | Some i => Some (S i)
              | None => if x =? c then Some O else None
              end
  end.

(* sep.join(l) *)
Fixpoint join (sep : str) (l : list str) : str :=
  match l with
  | [] => []
  | x :: t => match t with [] => x | _ :: _ => x ++ sep ++ join sep t end
  end.

(* iterating over a text file: pieces between "\n" (the terminator is dropped here; every
   consumer strips the line anyway); a trailing piece without terminator is a line if non-empty *)
Fixpoint lines_aux (cur : str) (l : str) : list str :=
  match l with
  | [] => match cur with [] => [] | _ :: _ => [rev cur] end
  | c :: t => if c =? c_nl then rev cur :: lines_aux [] t else lines_aux (c :: cur) t
  end.
Definition lines (l : str) : list str := lines_aux [] l.

(* outcome of a call: a value or the exception class raised *)
Inductive exn := IOError | ValueError | KeyError | IndexError | TypeError.
Inductive res (A : Type) := Ok (a : A) | Raise (e : exn).
Arguments Ok {A} a.
Arguments Raise {A} e.

Definition bind {A B} (r : res A) (f : A -> res B) : res B :=
  match r with Ok a => f a | Raise e => Raise e end.

(* run f over a list, stopping at the first exception (a Python for loop) *)
Fixpoint map_res {A B} (f : A -> res B) (l : list A) : res (list B) :=
  match l with
  | [] => Ok []
  | x :: t => match f x with
              | Raise e => Raise e
              | Ok y => match map_res f t with Raise e => Raise e | Ok ys => Ok (y :: ys) end
              end
  end.

(* ====================================================================================== *)
(* trn                                                                                    *)
(* ====================================================================================== *)

(* an element of a transcript: a token, or a list of alternates, each a list of elements.
   (Python: nested alternates are bare lists; at top level they are wrapped as (alts, -1, -1),
   and write_trn drops the start/end of (x, start, end) first - the harness does that
   unwrapping.) *)
Inductive elem := Tok (t : str) | Alt (branches : list (list elem)).

(* write_trn._handle_x *)
Fixpoint handle_x (x : elem) : str :=
  match x with
  | Tok t => t ++ [c_sp]
  | Alt brs => [c_lbrace; c_sp]
               ++ join [c_slash; c_sp] (map (fun alts => concat (map handle_x alts)) brs)
               ++ [c_rbrace; c_sp]
  end.

Definition write_elems (xs : list elem) : str := concat (map handle_x xs).

Definition write_trn_line (ut : str * list elem) : str :=
  write_elems (snd ut) ++ [c_lpar] ++ fst ut ++ [c_rpar; c_nl].

(* write_trn to an open file; the path entry point opens the file and calls this *)
Definition write_trn_file (ts : list (str * list elem)) : str := concat (map write_trn_line ts).
Definition write_trn_path (ts : list (str * list elem)) : str := write_trn_file ts.

(* _trn_line_to_transcript.  One frame per open "{": the finished branches and the branch
   being filled (= _AltTree.tokens; the aliasing parent.tokens[-1] = [branch, ...] is replaced
   by inserting the finished alternate into the parent when "}" is met - the parent's branch is
   not touched in between, and unclosed alternates are discarded either way). *)
Record frame := mkF { f_done : list (list elem); f_cur : list elem }.
Record pst := mkP { p_out : list elem; p_tok : str; p_stack : list frame }.

(* "if token: (transcript | alt_tree.tokens).append(token); token = ''" *)
Definition flush (s : pst) : pst :=
  match p_tok s with
  | [] => s
  | _ :: _ =>
      match p_stack s with
      | [] => mkP (p_out s ++ [Tok (p_tok s)]) [] []
      | f :: fs => mkP (p_out s) [] (mkF (f_done f) (f_cur f ++ [Tok (p_tok s)]) :: fs)
      end
  end.

Definition step (c : char) (s : pst) : res pst :=
  if c =? c_lbrace then
    let s' := flush s in Ok (mkP (p_out s') [] (mkF [] [] :: p_stack s'))
  else if (c =? c_slash) && negb (match p_stack s with [] => true | _ => false end) then
    let s' := flush s in
    match p_stack s' with
    | f :: fs => Ok (mkP (p_out s') [] (mkF (f_done f ++ [f_cur f]) [] :: fs))
    | [] => Ok s'
    end
  else if (c =? c_rbrace) && negb (match p_stack s with [] => true | _ => false end) then
    let s' := flush s in
    match p_stack s' with
    | f :: fs =>
        match f_cur f with
        | [] => Raise IOError                         (* 'Empty alternate found ("{ }")' *)
        | _ :: _ =>
            let a := Alt (f_done f ++ [f_cur f]) in
            match fs with
            | [] => Ok (mkP (p_out s' ++ [a]) [] [])
            | g :: gs => Ok (mkP (p_out s') [] (mkF (f_done g) (f_cur g ++ [a]) :: gs))
            end
        end
    | [] => Ok s'
    end
  else if c =? c_sp then Ok (flush s)
  else Ok (mkP (p_out s) (p_tok s ++ [c]) (p_stack s)).

Fixpoint run (s : pst) (l : str) : res pst :=
  match l with
  | [] => Ok s
  | c :: t => match step c s with Ok s' => run s' t | Raise e => Raise e end
  end.

(* "if token and alt_tree.parent is None: transcript.append(token)" *)
Definition finish (s : pst) : list elem :=
  match p_tok s, p_stack s with
  | _ :: _, [] => p_out s ++ [Tok (p_tok s)]
  | _, _ => p_out s
  end.

Definition sub (l : str) (i j : nat) : str := firstn (j - i) (skipn i l).

(* None = blank line (skipped) *)
Definition trn_line (line : str) : option (res (str * list elem)) :=
  let l := strip line in
  match l with
  | [] => None
  | _ :: _ =>
      Some match rindex c_lpar l, rindex c_rpar l with
           | Some o, Some c =>
               if (c <? o)%nat then Raise IOError
               else match run (mkP [] [] []) (strip (firstn o l)) with
                    | Ok s => Ok (sub l (S o) c, finish s)
                    | Raise e => Raise e
                    end
           | _, _ => Raise IOError               (* "Line does not end in utterance id" *)
           end
  end.

Fixpoint collect {A} (l : list (option (res A))) : res (list A) :=
  match l with
  | [] => Ok []
  | None :: t => collect t
  | Some (Raise e) :: _ => Raise e
  | Some (Ok a) :: t => match collect t with Ok r => Ok (a :: r) | Raise e => Raise e end
  end.

(* read_trn, processes = 0 *)
Definition read_trn_serial (file : str) : res (list (str * list elem)) :=
  collect (map trn_line (lines file)).

(* processes > 0: Pool.imap(f, lines, chunk_size).  The lines are cut into chunks; the workers
   complete the chunks in the order [sched] (any permutation of the chunk indices); imap hands
   the results back by chunk index. *)
Fixpoint chunks_fuel {A} (fuel : nat) (k : nat) (l : list A) : list (list A) :=
  match fuel with
  | O => []
  | S fuel' => match l with
               | [] => []
               | _ :: _ => firstn k l :: chunks_fuel fuel' k (skipn k l)
               end
  end.
Definition chunks {A} (k : nat) (l : list A) : list (list A) :=
  chunks_fuel (length l) (Nat.max 1 k) l.

Fixpoint lookup_nat {B} (i : nat) (l : list (nat * B)) : option B :=
  match l with
  | [] => None
  | (j, b) :: t => if Nat.eqb i j then Some b else lookup_nat i t
  end.

Definition imap {A B} (f : A -> B) (sched : list nat) (k : nat) (l : list A) : list B :=
  let cs := chunks k l in
  let completed := map (fun i => (i, map f (nth i cs []))) sched in
  concat (map (fun i => match lookup_nat i completed with Some r => r | None => [] end)
              (seq 0 (length cs))).

Definition read_trn_pool (sched : list nat) (chunk_size : nat) (file : str)
  : res (list (str * list elem)) :=
  collect (imap trn_line sched chunk_size (lines file)).

(* read_trn(trn, warn, processes, chunk_size): processes = 0 -> serial.  The path entry point
   re-calls read_trn_iter(file, warn, processes) - chunk_size falls back to the default 1000. *)
Definition read_trn_file (processes : nat) (sched : list nat) (chunk_size : nat) (file : str) :=
  match processes with
  | O => read_trn_serial file
  | S _ => read_trn_pool sched chunk_size file
  end.
Definition read_trn_path (processes : nat) (sched : list nat) (chunk_size : nat) (file : str) :=
  read_trn_file processes sched 1000 file.

(* ====================================================================================== *)
(* ctm (field level: a line is its five fields; times on a grid, as Z)                    *)
(* ====================================================================================== *)

Definition seg := (str * str * Z * Z * str)%type.   (* wfn, chan, start, duration, token *)
Definition timed := (str * Z * Z)%type.             (* token, start, end *)

Fixpoint assoc {K V} (eqb : K -> K -> bool) (k : K) (l : list (K * V)) : option V :=
  match l with
  | [] => None
  | (k', v) :: t => if eqb k k' then Some v else assoc eqb k t
  end.

Definition wc_eqb (a b : str * str) : bool := str_eqb (fst a) (fst b) && str_eqb (snd a) (snd b).

(* Python tuple comparison of (wfn, chan, start, duration, token) = ((((wfn, chan), start), duration), token) *)
Definition wc_cmp : str * str -> str * str -> comparison := pair_cmp str_cmp str_cmp.
Definition seg_cmp : seg -> seg -> comparison :=
  pair_cmp (pair_cmp (pair_cmp wc_cmp Z.compare) Z.compare) str_cmp.
Definition seg_leb : seg -> seg -> bool := leb_of seg_cmp.

(* sorted(): stable; insertion after the last element that is <= *)
Fixpoint insert_by {A} (leb : A -> A -> bool) (x : A) (l : list A) : list A :=
  match l with
  | [] => [x]
  | y :: t => if leb y x then y :: insert_by leb x t else x :: l
  end.
Definition sort_by {A} (leb : A -> A -> bool) (l : list A) : list A :=
  fold_left (fun acc x => insert_by leb x acc) l [].

(* utt2wc: a dict or a channel string *)
Definition utt2wc_t := (list (str * (str * str)) + str)%type.

Definition ctm_segments_of (m : utt2wc_t) (ut : str * list (str * option (Z * Z)))
  : res (list seg) :=
  let '(utt, tr) := ut in
  match (match m with
         | inl d => match assoc str_eqb utt d with Some wc => Ok wc | None => Raise KeyError end
         | inr ch => Ok (utt, ch)
         end) with
  | Raise e => Raise e
  | Ok (wfn, chan) =>
      map_res (fun tup : str * option (Z * Z) =>
                 match snd tup with
                 | None => Raise ValueError                    (* no timing info *)
                 | Some (s, e) =>
                     if (s <? 0) || (e <? 0) then Raise ValueError
                     else if e - s <? 0 then Raise ValueError  (* negative duration *)
                     else Ok (wfn, chan, s, e - s, fst tup)
                 end) tr
  end.

Definition write_ctm_file (ts : list (str * list (str * option (Z * Z)))) (m : utt2wc_t)
  : res (list seg) :=
  match map_res (ctm_segments_of m) ts with
  | Raise e => Raise e
  | Ok segs => Ok (sort_by seg_leb (concat segs))
  end.
Definition write_ctm_path := write_ctm_file.

(* OrderedDict.setdefault(utt, []).append(x) *)
Fixpoint od_append {V} (k : str) (v : V) (d : list (str * list V)) : list (str * list V) :=
  match d with
  | [] => [(k, [v])]
  | (k', vs) :: t => if str_eqb k k' then (k', vs ++ [v]) :: t else (k', vs) :: od_append k v t
  end.

Definition timed_start_leb (a b : timed) : bool := snd (fst a) <=? snd (fst b).

Definition read_ctm_step (wc2utt : option (list ((str * str) * str)))
  (acc : res (list (str * list timed))) (l : seg) : res (list (str * list timed)) :=
  match acc with
  | Raise e => Raise e
  | Ok d =>
      let '(wfn, chan, start, dur, token) := l in
      match (match wc2utt with
             | None => Ok wfn
             | Some m => match assoc wc_eqb (wfn, chan) m with
                         | Some u => Ok u | None => Raise KeyError end
             end) with
      | Raise e => Raise e
      | Ok utt =>
          let e := start + dur in
          if (start <? 0) || (e <? start) then Raise ValueError
          else Ok (od_append utt (token, start, e) d)
      end
  end.

Definition read_ctm_file (ls : list seg) (wc2utt : option (list ((str * str) * str)))
  : res (list (str * list timed)) :=
  match fold_left (read_ctm_step wc2utt) ls (Ok []) with
  | Raise e => Raise e
  | Ok d => Ok (map (fun ut => (fst ut, sort_by timed_start_leb (snd ut))) d)
  end.
Definition read_ctm_path := read_ctm_file.

(* ====================================================================================== *)
(* TextGrid                                                                               *)
(* ====================================================================================== *)

(* f"{x:.pf}": x*10^p rounded half-to-even, printed with p decimals *)
Definition pow10 (p : nat) : Z := 10 ^ Z.of_nat p.

Definition round_half_even (x : Q) : Z :=
  let f := Qfloor x in
  let r := (x - inject_Z f)%Q in
  match Qcompare r (1 # 2) with
  | Lt => f
  | Gt => f + 1
  | Eq => if Z.even f then f else f + 1
  end.

Definition digit (d : Z) : char := 48 + d.

(* exactly p digits of r, most significant first *)
Fixpoint frac_digits (p : nat) (r : Z) : str :=
  match p with
  | O => []
  | S p' => frac_digits p' (r / 10) ++ [digit (r mod 10)]
  end.

Fixpoint strip_zeros (l : str) : str :=
  match l with
  | c :: ((_ :: _) as t) => if c =? 48 then strip_zeros t else l
  | _ => l
  end.

Definition int_digits (q : Z) : str :=
  strip_zeros (frac_digits (S (Z.to_nat (Z.log2 q))) q).

(* decimal string of n / 10^p  (n >= 0) *)
Definition dec_str (p : nat) (n : Z) : str :=
  int_digits (n / pow10 p)
  ++ match p with O => [] | S _ => c_dot :: frac_digits p (n mod pow10 p) end.

Definition fmt_num (p : nat) (x : Q) : Z := round_half_even (Qabs x * inject_Z (pow10 p))%Q.

Definition fmt_time (p : nat) (x : Q) : str :=
  (if Qlt_le_dec x 0 then [c_minus] else []) ++ dec_str p (fmt_num p x).

(* float(s) for s of the shape digits[.digits]; None if s is not of that shape
   (the reader's regex \d+\.?\d* would not match either) *)
Definition digit_val (c : char) : option Z :=
  if (48 <=? c) && (c <=? 57) then Some (c - 48) else None.

Fixpoint of_digits (acc : Z) (l : str) : option Z :=
  match l with
  | [] => Some acc
  | c :: t => match digit_val c with Some d => of_digits (10 * acc + d) t | None => None end
  end.

Fixpoint split_at (c : char) (l : str) : str * option str :=
  match l with
  | [] => ([], None)
  | x :: t => if x =? c then ([], Some t)
              else let '(a, b) := split_at c t in (x :: a, b)
  end.

Definition parse_time (s : str) : option Q :=
  let '(a, b) := split_at c_dot s in
  match a with
  | [] => None
  | _ :: _ =>
      match of_digits 0 a, b with
      | Some i, None => Some (inject_Z i)
      | Some i, Some fr =>
          match of_digits 0 fr with
          | Some f => Some (Qmake (i * pow10 (length fr) + f) (Z.to_pos (pow10 (length fr))))
          | None => None
          end
      | None, _ => None
      end
  end.

Definition entry := (str * Q * Q)%type.   (* token, start, end *)

Definition qmin (a b : Q) : Q := if Qlt_le_dec b a then b else a.   (* Python min: first wins ties *)
Definition qmax (a b : Q) : Q := if Qlt_le_dec a b then b else a.   (* Python max: first wins ties *)

Definition e_tok (x : entry) : str := fst (fst x).
Definition e_start (x : entry) : Q := snd (fst x).
Definition e_end (x : entry) : Q := snd x.

Definition quoted (s : str) : str := c_quote :: s ++ [c_quote].

Definition s_filetype : str :=   (* File type = "ooTextFile" *)
  [70;105;108;101;32;116;121;112;101;32;61;32;34;111;111;84;101;120;116;70;105;108;101;34].
Definition s_objclass : str :=   (* Object class = "TextGrid" *)
  [79;98;106;101;99;116;32;99;108;97;115;115;32;61;32;34;84;101;120;116;71;114;105;100;34].
Definition s_exists : str := [60;101;120;105;115;116;115;62].                     (* <exists> *)
Definition s_texttier : str := [84;101;120;116;84;105;101;114].                   (* TextTier *)
Definition s_intervaltier : str := [73;110;116;101;114;118;97;108;84;105;101;114]. (* IntervalTier *)
Definition s_xmin : str := [120;109;105;110].                                     (* xmin *)

Definition unlines (ls : list str) : str := concat (map (fun l => l ++ [c_nl]) ls).

(* write_textgrid to an open file, all options *)
Definition write_textgrid_file (tr : list entry) (start_time end_time : option Q)
  (tier_name : str) (point_tier : option bool) (precision : nat) : res str :=
  match tr with
  | [] => Raise ValueError
  | x0 :: rest =>
      let tier_start := fold_left (fun m x => qmin m (e_start x)) rest (e_start x0) in
      let tier_end := fold_left (fun m x => qmax m (e_end x)) rest (e_end x0) in
      match (match start_time with
             | None => Ok tier_start
             | Some s => if Qlt_le_dec tier_start s then Raise ValueError else Ok s
             end) with
      | Raise e => Raise e
      | Ok st =>
          match (match end_time with
                 | None => Ok tier_end
                 | Some e => if Qlt_le_dec e tier_end then Raise ValueError else Ok e
                 end) with
          | Raise e => Raise e
          | Ok en =>
              let f := fmt_time precision in
              let pt := match point_tier with
                        | Some b => b
                        | None => forallb (fun x => str_eqb (f (e_start x)) (f (e_end x))) tr
                        end in
              Ok (unlines
                    ([s_filetype; s_objclass; f st; f en; s_exists; [49];
                      quoted (if pt then s_texttier else s_intervaltier); quoted tier_name;
                      f tier_start; f tier_end; int_digits (Z.of_nat (length tr))]
                     ++ concat (map (fun x => if pt then [f (e_start x); quoted (e_tok x)]
                                              else [f (e_start x); f (e_end x); quoted (e_tok x)])
                                    tr)))
          end
      end
  end.

(* write_textgrid given a path, AS CODED: re-calls itself with
   (transcript, file, start_time, end_time, tier_name) - point_tier and precision are dropped
   (known finding K5) *)
Definition write_textgrid_path (tr : list entry) (start_time end_time : option Q)
  (tier_name : str) (point_tier : option bool) (precision : nat) : res str :=
  write_textgrid_file tr start_time end_time tier_name None 3.

(* what the path entry point would do with the options passed through *)
Definition write_textgrid_path_repaired := write_textgrid_file.

(* ---- reader, line level, for single-tier "short" files ------------------------------------ *)

Definition unquote (l : str) : option str :=
  match l with
  | c :: t => if c =? c_quote then
                match rev t with
                | c' :: t' => if c' =? c_quote then Some (rev t') else None
                | [] => None
                end
              else None
  | [] => None
  end.

(* Tier.make_simple_transcript: (xmin, xmax, text) resp. (time, text) string tuples *)
Fixpoint tg_entries (fuel : nat) (point : bool) (ls : list str) : list (str * str * str) :=
  match fuel with
  | O => []
  | S fuel' =>
      if point then
        match ls with
        | a :: b :: t => match unquote b with
                         | Some tok => (a, a, tok) :: tg_entries fuel' point t
                         | None => []
                         end
        | _ => []
        end
      else
        match ls with
        | a :: b :: c :: t => match unquote c with
                              | Some tok => (a, b, tok) :: tg_entries fuel' point t
                              | None => []
                              end
        | _ => []
        end
  end.

(* how read_textgrid orders the entries.
   StringSort (AS CODED): sorted() on the tuples of strings the regexes captured.
   NumericSort (repaired): stable sort by the parsed start time. *)
Inductive sort_mode := StringSort | NumericSort.

(* tuples of strings: (xmin, xmax, text); for a point tier (time, mark), stored as (time, time, mark) *)
Definition raw_cmp : str * str * str -> str * str * str -> comparison :=
  pair_cmp (pair_cmp str_cmp str_cmp) str_cmp.
Definition raw_leb : str * str * str -> str * str * str -> bool := leb_of raw_cmp.

Definition entry_start_leb (a b : entry) : bool :=
  if Qlt_le_dec (e_start b) (e_start a) then false else true.

Definition to_entry (r : str * str * str) : option entry :=
  let '(a, b, tok) := r in
  match parse_time a, parse_time b with
  | Some s, Some e => Some (tok, s, e)
  | _, _ => None
  end.

Fixpoint all_some {A} (l : list (option A)) : option (list A) :=
  match l with
  | [] => Some []
  | None :: _ => None
  | Some a :: t => match all_some t with Some r => Some (a :: r) | None => None end
  end.

(* the gap-filling loop of read_textgrid *)
Fixpoint fill_gaps (fill : option str) (start_time xmax : Q) (tr : list entry) : list entry :=
  match tr with
  | [] => match fill with
          | Some ft => if Qlt_le_dec start_time xmax then [(ft, start_time, xmax)] else []
          | None => []
          end
  | x :: t =>
      (match fill with
       | Some ft => if Qlt_le_dec start_time (e_start x) then [(ft, start_time, e_start x)] else []
       | None => []
       end) ++ x :: fill_gaps fill (e_end x) xmax t
  end.

Definition tier_id_t := (str + Z)%type.    (* tier name or index *)

Definition read_textgrid_file (mode : sort_mode) (file : str) (tier_id : tier_id_t)
  (fill : option str) : res (list entry * Q * Q) :=
  match lines file with
  | l0 :: _ :: _ :: _ :: _ :: _ :: lclass :: lname :: lxmin :: lxmax :: _ :: body =>
      match unquote lclass, unquote lname, parse_time lxmin, parse_time lxmax with
      | Some classid, Some nameid, Some xmin, Some xmax =>
          if negb (str_eqb (strip l0) s_filetype) then Raise TypeError   (* TextGrid._check_type *)
          else if negb (match tier_id with
                   | inl nm => str_eqb nm nameid
                   | inr i => (i =? 0) || (i =? -1)
                   end)
          then Raise (match tier_id with inl _ => ValueError | inr _ => IndexError end)
          else
            let point := str_eqb classid s_texttier in
            let raw := tg_entries (length body) point body in
            match mode with
            | StringSort =>
                match all_some (map to_entry (sort_by raw_leb raw)) with
                | Some tr => Ok (fill_gaps fill xmin xmax tr, xmin, xmax)
                | None => Raise ValueError
                end
            | NumericSort =>
                match all_some (map to_entry raw) with
                | Some tr => Ok (fill_gaps fill xmin xmax (sort_by entry_start_leb tr), xmin, xmax)
                | None => Raise ValueError
                end
            end
      | _, _, _, _ => Raise IndexError
      end
  | _ => Raise IndexError
  end.

(* the path entry point passes tier_id and fill_token through *)
Definition read_textgrid_path := read_textgrid_file.

(* ====================================================================================== *)
(* transcript <-> token tensor                                                            *)
(* ====================================================================================== *)

(* a Python token: an int or a str *)
Inductive tk := TInt (z : Z) | TStr (s : str).

Definition tk_eqb (a b : tk) : bool :=
  match a, b with
  | TInt x, TInt y => x =? y
  | TStr x, TStr y => str_eqb x y
  | _, _ => false
  end.

Inductive item := Plain (t : tk) | Timed (t : tk) (s e : Q).

(* Python's // on non-negative/any reals: floor of the quotient *)
Definition floordiv (a b : Q) : Z := Qfloor (a / b).

(* Q -> int(): truncation toward zero *)
Definition qtrunc (x : Q) : Z := if Qlt_le_dec x 0 then - Qfloor (- x) else Qfloor x.

Definition frames_of (fs : option Q) (s e : Q) : Z * Z :=
  match fs with
  | Some d =>
      if Qeq_bool s e then let f := floordiv (1000 * s) d in (f, f)
      else let sf := floordiv (1000 * s) d in
           let ef := floordiv (1000 * e + (1 # 2) * d) d in
           (sf, Z.max ef (sf + 1))
  | None => (qtrunc s, qtrunc e)
  end.

(* frame_shift_ms "falsy" (None or 0) is None here *)
Definition transcript_to_token (tr : list item) (token2id : option (list (tk * Z)))
  (frame_shift : option Q) (unk : option tk) (skip_frame_times : bool)
  : res (list (Z * Z * Z)) :=
  let unk' : option tk :=
    match token2id, unk with
    | Some d, Some u => match assoc tk_eqb u d with Some i => Some (TInt i) | None => Some u end
    | _, _ => unk
    end in
  map_res (fun it =>
    let '(t, (s, e)) := match it with
                        | Plain t => (t, (-1, -1))
                        | Timed t s e => (t, frames_of frame_shift s e)
                        end in
    let id_ : tk :=
      match token2id with
      | None => t
      | Some d => match assoc tk_eqb t d with
                  | Some i => TInt i
                  | None => match unk' with None => t | Some u => u end
                  end
      end in
    match id_ with
    | TInt i => Ok (i, if skip_frame_times then -1 else s, if skip_frame_times then -1 else e)
    | TStr _ => Raise TypeError      (* a str cannot be stored in a long tensor *)
    end) tr.

Definition token_to_transcript (ref : list (Z * Z * Z)) (id2token : option (list (Z * tk)))
  (frame_shift : option Q) : list item :=
  map (fun row =>
    let '(i, s, e) := row in
    let t := match id2token with
             | None => TInt i
             | Some d => match assoc Z.eqb i d with Some t => t | None => TInt i end
             end in
    if (s =? -1) || (e =? -1) then Plain t
    else match frame_shift with
         | Some d => Timed t (inject_Z s * d / 1000) (inject_Z e * d / 1000)
         | None => Timed t (inject_Z s) (inject_Z e)
         end) ref.

(* ====================================================================================== *)
(* correspondence entry points (all return bool)                                          *)
(* ====================================================================================== *)

Fixpoint elem_eqb (a b : elem) {struct a} : bool :=
  match a, b with
  | Tok s, Tok t => str_eqb s t
  | Alt x, Alt y =>
      (fix go (x y : list (list elem)) {struct x} : bool :=
         match x, y with
         | [], [] => true
         | bx :: x', by_ :: y' =>
             (fix go2 (p q : list elem) {struct p} : bool :=
                match p, q with
                | [], [] => true
                | e1 :: p', e2 :: q' => elem_eqb e1 e2 && go2 p' q'
                | _, _ => false
                end) bx by_ && go x' y'
         | _, _ => false
         end) x y
  | _, _ => false
  end.

Fixpoint list_eqb {A} (eqb : A -> A -> bool) (a b : list A) : bool :=
  match a, b with
  | [], [] => true
  | x :: a', y :: b' => eqb x y && list_eqb eqb a' b'
  | _, _ => false
  end.

Definition exn_eqb (a b : exn) : bool :=
  match a, b with
  | IOError, IOError | ValueError, ValueError | KeyError, KeyError
  | IndexError, IndexError | TypeError, TypeError => true
  | _, _ => false
  end.

Definition res_eqb {A} (eqb : A -> A -> bool) (a b : res A) : bool :=
  match a, b with
  | Ok x, Ok y => eqb x y
  | Raise e, Raise f => exn_eqb e f
  | _, _ => false
  end.

Definition utt_eqb (a b : str * list elem) : bool :=
  str_eqb (fst a) (fst b) && list_eqb elem_eqb (snd a) (snd b).

Definition check_write_trn (ts : list (str * list elem)) (impl : str) : bool :=
  str_eqb (write_trn_file ts) impl.

Definition check_read_trn (processes : nat) (sched : list nat) (chunk : nat) (file : str)
  (impl : res (list (str * list elem))) : bool :=
  res_eqb (list_eqb utt_eqb) (read_trn_file processes sched chunk file) impl.

Definition seg_eqb (a b : seg) : bool :=
  let '(w1, c1, s1, d1, t1) := a in
  let '(w2, c2, s2, d2, t2) := b in
  str_eqb w1 w2 && str_eqb c1 c2 && (s1 =? s2) && (d1 =? d2) && str_eqb t1 t2.

Definition check_write_ctm ts m (impl : res (list seg)) : bool :=
  res_eqb (list_eqb seg_eqb) (write_ctm_file ts m) impl.

Definition timed_eqb (a b : timed) : bool :=
  let '(t1, s1, e1) := a in let '(t2, s2, e2) := b in str_eqb t1 t2 && (s1 =? s2) && (e1 =? e2).

Definition check_read_ctm ls wc2utt (impl : res (list (str * list timed))) : bool :=
  res_eqb (list_eqb (fun a b => str_eqb (fst a) (fst b) && list_eqb timed_eqb (snd a) (snd b)))
          (read_ctm_file ls wc2utt) impl.

Definition check_write_textgrid (path : bool) tr st en name pt p (impl : res str) : bool :=
  res_eqb str_eqb
    ((if path then write_textgrid_path else write_textgrid_file) tr st en name pt p) impl.

Definition entry_eqb (a b : entry) : bool :=
  str_eqb (e_tok a) (e_tok b) && Qeq_bool (e_start a) (e_start b) && Qeq_bool (e_end a) (e_end b).

Definition tg_out_eqb (a b : list entry * Q * Q) : bool :=
  let '(t1, s1, e1) := a in let '(t2, s2, e2) := b in
  list_eqb entry_eqb t1 t2 && Qeq_bool s1 s2 && Qeq_bool e1 e2.

Definition check_read_textgrid mode file tier_id fill (impl : res (list entry * Q * Q)) : bool :=
  res_eqb tg_out_eqb (read_textgrid_file mode file tier_id fill) impl.

Definition row_eqb (a b : Z * Z * Z) : bool :=
  let '(i1, s1, e1) := a in let '(i2, s2, e2) := b in (i1 =? i2) && (s1 =? s2) && (e1 =? e2).

Definition check_to_token tr t2i fs unk skip (impl : res (list (Z * Z * Z))) : bool :=
  res_eqb (list_eqb row_eqb) (transcript_to_token tr t2i fs unk skip) impl.

Definition item_eqb (a b : item) : bool :=
  match a, b with
  | Plain x, Plain y => tk_eqb x y
  | Timed x s e, Timed y s' e' => tk_eqb x y && Qeq_bool s s' && Qeq_bool e e'
  | _, _ => false
  end.

Definition check_to_transcript ref i2t fs (impl : list item) : bool :=
  list_eqb item_eqb (token_to_transcript ref i2t fs) impl.
