(* C12 — tie (part 3f) of the blocks of `_info_and_validate`: one iteration of the glue loop (feature block; alignment block; reference block) = Model.step_utt.  See TieVTac.v for the method. *)
From Coq Require Import ZArith QArith List String Bool Arith Lia ZifyBool.
From PV Require Import MiniPy.Syntax MiniPy.Interp MiniPy.Lemmas MiniTorch.OpsC12 MiniTorch.LemmasC12 MiniTorch.LemmasC12V Gen.C12ValSrc.
From PV Require Import C12.SrcRun C12.SrcRunV C12.TieLib C12.TieLibV C12.TieVTac C12.TieVAli C12.TieVRef C12.TieVRef2 C12.TieVFeat.
From PV Require C12.Model.
Import ListNotations.
Local Open Scope string_scope.

#[local] Arguments enc12 : simpl never.
#[local] Arguments dec12 !v /.
#[local] Arguments T1 : simpl never.
#[local] Arguments T2 : simpl never.
#[local] Arguments NZ : simpl never.
#[local] Arguments new_full : simpl never.
#[local] Arguments cat : simpl never.
#[local] Arguments ndim : simpl never.
#[local] Arguments size : simpl never.
#[local] Arguments numel : simpl never.
#[local] Arguments select_col : simpl never.
#[local] Arguments set_item : simpl never.
#[local] Arguments get_item : simpl never.
#[local] Arguments item : simpl never.
#[local] Arguments unsqueeze : simpl never.
#[local] Arguments slice0 : simpl never.
#[local] Arguments nonzero : simpl never.
#[local] Arguments eq_scalar : simpl never.
#[local] Arguments cpu : simpl never.
#[local] Arguments long : simpl never.
#[local] Arguments then_ ext b !c st /.
#[local] Arguments exec : simpl never.
#[local] Arguments for_loop : simpl never.
#[local] Arguments q_cmp : simpl never.
#[local] Arguments fill_slice : simpl never.
#[local] Arguments set_row : simpl never.
#[local] Arguments rows_of : simpl never.
#[local] Arguments tolist2 : simpl never.
#[local] Arguments full_long : simpl never.
#[local] Arguments row3 : simpl never.
#[local] Arguments inject_Z : simpl never.
#[local] Arguments firstn : simpl never.
#[local] Arguments skipn : simpl never.
#[local] Arguments cmp_eval op !a !b /.
#[local] Arguments Z.of_nat : simpl never.
#[local] Arguments torch_module : simpl never.
#[local] Arguments store : simpl never.
#[local] Arguments set_var x v !st /.
#[local] Arguments ext12 env f !args kw st /.
#[local] Arguments bind {A B} !o f /.
#[local] Arguments Z.add : simpl never.
#[local] Arguments Z.sub : simpl never.
#[local] Arguments ds_obj : simpl never.
#[local] Arguments isinstance12 : simpl never.
#[local] Arguments instance_of : simpl never.
#[local] Arguments feat_tens : simpl never.
#[local] Arguments ids_val : simpl never.
#[local] Arguments subscript !o !k st /.
#[local] Arguments utt_tuple : simpl never.
#[local] Arguments env_ds : simpl never.
#[local] Arguments class_token : simpl never.


(* ---- the store between iterations: the three state variables hold the model's vstate, every other slot anything ---- *)
Definition good_state (ids : list string) (fx : option Z) (vst : Model.vstate) (evs : list event) (st : state) : Prop :=
  exists idx fn t1 feat ali ref wb prefix dir_ prefix_ msg t2 T F Tp idx2 r tok start end_,
    st = mkState (mkvars ids fx idx (nf_val (Model.s_nf vst)) (r2d_val (Model.s_2d vst)) (dt_val (Model.s_dt vst))
                         fn t1 feat ali ref wb prefix dir_ prefix_ msg t2 T F Tp idx2 r tok start end_) evs.

Ltac good := unfold good_state; do 20 eexists; reflexivity.

(* a saved file of utterance i *)
Definition sv (t : tens) (sub : string) (i : nat) : event := ("torch.save", [enc12 t; VStr (path_of sub (uid i))]).

Definition local_to (i : nat) (E : list event) : Prop :=
  Forall (fun ev => exists t sub, ev = sv t sub i /\ (sub = "feat" \/ sub = "ali" \/ sub = "ref")) E.

Definition utt_shape_ok (c : Model.cfg) (u : Model.utt) : Prop :=
  (forall a, Model.u_ali u = Some a -> ali_shape_ok a)
  /\ (forall r lr, Model.u_ref u = Some r -> Model.load_ref c r = inr lr -> ref_shape_ok2 lr).

(* ---- reading the saved files back ---- *)
Definition oe (b : bool) (e : event) : list event := if b then [e] else [].

Lemma add_if_oe : forall (b : bool) (e : event) (l : list event), (if b then l ++ [e] else l)%list = (l ++ oe b e)%list.
Proof. intros [|] e l; cbn; [reflexivity|now rewrite app_nil_r]. Qed.

Lemma path_same : forall sub id, String.eqb (path_of sub id) (path_of sub id) = true.
Proof. intros. apply String.eqb_refl. Qed.
Lemma path_feat_ali : forall id, String.eqb (path_of "feat" id) (path_of "ali" id) = false. Proof. reflexivity. Qed.
Lemma path_feat_ref : forall id, String.eqb (path_of "feat" id) (path_of "ref" id) = false. Proof. reflexivity. Qed.
Lemma path_ali_feat : forall id, String.eqb (path_of "ali" id) (path_of "feat" id) = false. Proof. reflexivity. Qed.
Lemma path_ali_ref : forall id, String.eqb (path_of "ali" id) (path_of "ref" id) = false. Proof. reflexivity. Qed.
Lemma path_ref_feat : forall id, String.eqb (path_of "ref" id) (path_of "feat" id) = false. Proof. reflexivity. Qed.
Lemma path_ref_ali : forall id, String.eqb (path_of "ref" id) (path_of "ali" id) = false. Proof. reflexivity. Qed.

Lemma last_save_nil : forall p, last_save [] p = None. Proof. reflexivity. Qed.
Lemma last_save_snoc : forall l t sub i p,
  last_save (l ++ [sv t sub i]) p = if String.eqb (path_of sub (uid i)) p then Some t else last_save l p.
Proof.
  intros. unfold last_save. rewrite fold_left_app. cbn [fold_left sv]. rewrite dec12_enc12.
  replace (String.eqb "torch.save" "torch.save") with true by reflexivity. cbn [andb]. reflexivity.
Qed.
Lemma last_save_cons1 : forall t sub i p,
  last_save [sv t sub i] p = if String.eqb (path_of sub (uid i)) p then Some t else None.
Proof. intros. apply (last_save_snoc [] t sub i p). Qed.

Lemma feat_roundtrip : forall f, feat_of_tens (feat_tens f) = f. Proof. now intros []. Qed.

Lemma post_three : forall (b1 b2 b3 : bool) tf ta tr i u,
  post_utt (oe b1 (sv tf "feat" i) ++ oe b2 (sv ta "ali" i) ++ oe b3 (sv tr "ref" i)) i u
  = Model.mkUtt (if b1 then feat_of_tens tf else Model.u_feat u)
      (match Model.u_ali u with None => None | Some a => Some (if b2 then ali_of_tens ta else a) end)
      (match Model.u_ref u with None => None | Some r => Some (if b3 then ref_of_tens tr else r) end).
Proof.
  intros. unfold post_utt, last_save, oe, sv.
  destruct b1, b2, b3; cbn [app fold_left]; rewrite ?dec12_enc12; cbn [andb];
  repeat (replace (String.eqb "torch.save" "torch.save") with true by reflexivity; cbn [andb]);
  rewrite ?path_same, ?path_feat_ali, ?path_feat_ref, ?path_ali_feat, ?path_ali_ref, ?path_ref_feat, ?path_ref_ali;
  reflexivity.
Qed.

Lemma dtype_beq_true : forall a b, Model.dtype_beq a b = true -> a = b.
Proof. destruct a, b; cbn; intros H; try discriminate H; reflexivity. Qed.

Lemma feat_part_post : forall fx vst f f' T F vst1,
  Model.feat_part true fx vst f = inr (f', T, F, vst1) ->
  (if Model.f_cuda f then feat_of_tens (feat_tens f') else f) = f'.
Proof.
  intros fx vst [cu dt sh] f' T F vst1. unfold Model.feat_part. cbn [Model.f_cuda Model.f_dtype Model.f_shape andb].
  destruct (negb _); [discriminate|]. destruct (cu && negb (Model.is_some fx))%bool; [discriminate|].
  destruct sh as [|a [|b [|c0 sh']]]; try discriminate.
  destruct (Model.s_nf vst) as [nf|]; [destruct (negb (b =? nf)%nat); [discriminate|]|];
  intros H; inversion H; subst; destruct cu; reflexivity.
Qed.

Lemma ali_part_post : forall fx T a a',
  Model.ali_part true fx T a = inr a' -> (if ali_wb T a then ali_of_tens (ali_tens a') else a) = a'.
Proof.
  intros fx T [cu dt data] a'. unfold Model.ali_part, ali_wb. cbn [Model.a_cuda Model.a_dtype Model.a_data negb].
  destruct (cu && negb (Model.is_some fx))%bool eqn:E1; [discriminate|].
  destruct (negb (Model.dtype_beq dt Model.DI64) && negb (Model.is_some fx && Model.upcastable dt))%bool eqn:E2; [discriminate|].
  destruct data as [v|dims flat]; [|discriminate].
  rewrite of_nat_eqb.
  destruct (List.length v =? T)%nat eqn:EL.
  - intros H; inversion H; subst. cbn [negb orb].
    destruct cu; cbn [orb]; [reflexivity|]. destruct (Model.dtype_beq dt Model.DI64) eqn:Ed; cbn [negb]; [|reflexivity].
    now rewrite (dtype_beq_true _ _ Ed).
  - rewrite !orb_true_r. destruct fx as [k|]; [|discriminate].
    destruct ((Z.of_nat T + k >=? Z.of_nat (List.length v))%Z && (Z.of_nat (List.length v) >? Z.of_nat T)%Z)%bool; [|discriminate].
    intros H; inversion H; subst. reflexivity.
Qed.

Lemma chunks3_row3 : forall rows, chunks (List.length (map row3 rows)) 3 (List.concat (map row3 rows)) = map row3 rows.
Proof. intros. apply chunks_concat. apply Forall_row3. Qed.

Lemma ref_roundtrip_R2 : forall rows, ref_of_tens (tens_of_ref (Model.mkRef false Model.DI64 (Model.R2 rows)))
                                   = Model.mkRef false Model.DI64 (Model.R2 rows).
Proof.
  intros. unfold ref_of_tens, tens_of_ref, rdata_of_tens. cbn [Model.r_cuda Model.r_dtype Model.r_data tens_of_rdata].
  unfold T2. cbn [t_cuda t_dtype t_shape t_data]. rewrite chunks3_row3, map_map. do 2 f_equal.
  rewrite <- (map_id rows) at 2. apply map_ext. now intros [[a b] cc].
Qed.

Lemma ref_roundtrip_R1 : forall l, ref_of_tens (tens_of_ref (Model.mkRef false Model.DI64 (Model.R1 l)))
                                = Model.mkRef false Model.DI64 (Model.R1 l).
Proof. reflexivity. Qed.

Lemma ref_part_canon : forall fx T vst lr r' wb vst',
  Model.ref_part fx T vst lr = inr (r', wb, vst') ->
  ref_of_tens (tens_of_ref r') = r' /\ exists rows, Model.ref_rows (Model.r_data r') = Some rows.
Proof.
  intros fx T vst [cu dt data] r' wb vst'. unfold Model.ref_part. cbn [Model.r_cuda Model.r_dtype Model.r_data].
  destruct (cu && negb (Model.is_some fx))%bool; [discriminate|].
  destruct (negb (Model.dtype_beq dt Model.DI64) && negb (Model.is_some fx && Model.upcastable dt))%bool; [discriminate|].
  destruct data as [l|rows|w rows|nd]; try discriminate.
  - destruct (Model.s_2d vst) as [[|]|]; try discriminate; intros H; inversion H; subst; (split; [apply ref_roundtrip_R1|eexists; reflexivity]).
  - destruct (Model.s_2d vst) as [[|]|]; try discriminate;
    (destruct (Model.rows_part fx (Z.of_nat T) rows) as [e|[rows' wbr]]; [discriminate|]);
    intros H; inversion H; subst; (split; [apply ref_roundtrip_R2|eexists; reflexivity]).
Qed.

Lemma enc12_not_none : forall t (A : Type) (x y : A), match enc12 t with VNone => x | _ => y end = y.
Proof. reflexivity. Qed.

Lemma ref_part_keeps : forall fx T vst lr r' wb vst',
  Model.ref_part fx T vst lr = inr (r', wb, vst') -> Model.s_nf vst' = Model.s_nf vst /\ Model.s_dt vst' = Model.s_dt vst.
Proof.
  intros fx T vst [cu dt data] r' wb vst'. unfold Model.ref_part. cbn [Model.r_cuda Model.r_dtype Model.r_data].
  destruct (cu && negb (Model.is_some fx))%bool; [discriminate|].
  destruct (negb (Model.dtype_beq dt Model.DI64) && negb (Model.is_some fx && Model.upcastable dt))%bool; [discriminate|].
  destruct data as [l|rows|w rows|nd]; try discriminate.
  - destruct (Model.s_2d vst) as [[|]|]; try discriminate; intros H; inversion H; subst; split; reflexivity.
  - destruct (Model.s_2d vst) as [[|]|]; try discriminate;
    (destruct (Model.rows_part fx (Z.of_nat T) rows) as [e|[rows' wbr]]; [discriminate|]);
    intros H; inversion H; subst; split; reflexivity.
Qed.

Lemma rows_part_err : forall fx T rows e, Model.rows_part fx T rows = inl e -> e = Model.ValueErr.
Proof.
  intros fx T rows e. induction rows as [|[[a b] cc] rows IH]; cbn [Model.rows_part]; [discriminate|].
  destruct (Model.row_part fx T (a, b, cc)) as [x|[r' w1]] eqn:ER.
  - intros H; inversion H; subst. revert ER. unfold Model.row_part.
    repeat match goal with |- context [if ?b then _ else _] => destruct b | |- context [match fx with _ => _ end] => destruct fx end;
    intros H1; now inversion H1.
  - destruct (Model.rows_part fx T rows) as [x|[rest' w2]]; [intros H; inversion H; subst; now apply IH|discriminate].
Qed.

Lemma ref_part_err : forall fx T vst lr e, Model.ref_part fx T vst lr = inl e -> e = Model.ValueErr.
Proof.
  intros fx T vst [cu dt data] e. unfold Model.ref_part. cbn [Model.r_cuda Model.r_dtype Model.r_data].
  destruct (cu && negb (Model.is_some fx))%bool; [intros H; now inversion H|].
  destruct (negb (Model.dtype_beq dt Model.DI64) && negb (Model.is_some fx && Model.upcastable dt))%bool; [intros H; now inversion H|].
  destruct data as [l|rows|w rows|nd]; try (intros H; now inversion H).
  - destruct (Model.s_2d vst) as [[|]|]; intros H; now inversion H.
  - destruct (Model.s_2d vst) as [[|]|]; try (intros H; now inversion H);
    (destruct (Model.rows_part fx (Z.of_nat T) rows) as [x|[rows' wbr]] eqn:ERP; [|discriminate]);
    intros H; inversion H; subst; eapply rows_part_err; eauto.
Qed.

Lemma post_nil : forall i u, post_utt [] i u = u.
Proof. intros i [f [a|] [r|]]; reflexivity. Qed.

Lemma local_oe : forall i (b : bool) t sub, (sub = "feat" \/ sub = "ali" \/ sub = "ref") -> local_to i (oe b (sv t sub i)).
Proof. intros i [|] t sub H; constructor; [|constructor]. exists t, sub. now split. Qed.

Lemma local_app : forall i E1 E2, local_to i E1 -> local_to i E2 -> local_to i (E1 ++ E2).
Proof. intros. apply Forall_app. now split. Qed.

Lemma save_ali_sv : forall i t, TieVAli.save_ev (uid i ++ ".pt") t "d/ali" = sv t "ali" i. Proof. reflexivity. Qed.
Lemma save_ref_sv : forall i t, TieVRef2.save_ev (uid i ++ ".pt") t "d/ref" = sv t "ref" i. Proof. reflexivity. Qed.
Lemma save_feat_sv : forall i t, save_feat t (uid i ++ ".pt") = sv t "feat" i. Proof. reflexivity. Qed.

Section Step.
  Variables (c : Model.cfg) (d : Model.dir) (ids : list string) (fx : option Z).
  Local Notation ext := (ext12 (env_ds c d)).

  (* the state between the blocks of one iteration *)
  Definition stI (i : nat) (vst : Model.vstate) (t1 feat ali ref wb prefix dir_ prefix_ msg t2 : val) (Tn : nat) (F Tp idx2 r tok start end_ : val)
             (evs : list event) : state :=
    mkState (mkvars ids fx (VInt (Z.of_nat i)) (nf_val (Model.s_nf vst)) (r2d_val (Model.s_2d vst)) (dt_val (Model.s_dt vst))
                    (VStr (uid i ++ ".pt")) t1 feat ali ref wb prefix dir_ prefix_ msg t2 (VInt (Z.of_nat Tn)) F Tp idx2 r tok start end_) evs.

  (* -- `if ref is not None:` (glue) and the reference block -- *)
  Lemma step_ref : forall i vst acc (lref : option Model.ref) t1 feat ali prefix dir_ prefix_ msg t2 Tn F Tp idx2 r tok start end_ evs,
    (forall lr, lref = Some lr -> ref_shape_ok2 lr) ->
    let st2 := stI i vst t1 feat ali (opt_tens (option_map tens_of_ref lref)) (VBool false) prefix dir_ prefix_ msg t2 Tn F Tp idx2 r tok start end_ evs in
    let go := match lookup "ref" (vars st2) with
              | Some VNone => Ok CNormal st2
              | Some _ => exec ext iv_ref st2
              | None => Stuck "ref"
              end in
    match lref with
    | None => go = Ok CNormal st2
    | Some lr =>
        match Model.ref_part fx Tn vst lr with
        | inl _ => exists st', go = Exc "ValueError" st' /\ events st' = evs
        | inr (r', wb, vst') =>
            match Model.ref_rows (Model.r_data r') with
            | Some rows =>
                match Model.ref_info_rows false acc rows with
                | inl _ => exists st', go = Exc "ValueError" st' /\ events st' = (evs ++ oe wb (sv (tens_of_ref r') "ref" i))%list
                | inr _ => exists st', go = Ok CNormal st' /\ good_state ids fx vst' (evs ++ oe wb (sv (tens_of_ref r') "ref" i))%list st'
                end
            | None => True
            end
        end
    end.
  Proof.
    intros i vst acc lref t1 feat ali prefix dir_ prefix_ msg t2 Tn F Tp idx2 r tok start end_ evs Hok st2 go. subst go st2.
    destruct lref as [lr|]; cbn [option_map opt_tens].
    - unfold stI at 1. unfold mkvars at 1. cbn [lookup vars String.eqb Ascii.eqb Bool.eqb]. rewrite enc12_not_none.
      pose proof (ref_block c d ids fx (VInt (Z.of_nat i)) (nf_val (Model.s_nf vst)) (dt_val (Model.s_dt vst)) feat ali prefix F Tp
                    (uid i ++ ".pt") Tn lr vst acc dir_ prefix_ msg t1 idx2 r t2 tok start end_ evs (Hok lr eq_refl)) as RB.
      cbv zeta in RB. unfold TieVRef.stR in RB.
      destruct (Model.ref_part fx Tn vst lr) as [e|[[r' wb] vst']] eqn:ERP; [exact RB|].
      destruct (ref_part_keeps _ _ _ _ _ _ _ ERP) as [K1 K2].
      destruct (Model.ref_rows (Model.r_data r')) as [rows|]; [|exact I].
      rewrite add_if_oe, save_ref_sv in RB.
      destruct (Model.ref_info_rows false acc rows) as [e|acc'].
      + exact RB.
      + destruct RB as (msg' & ref' & t1' & idx2' & r'' & t2' & tok' & start' & end' & RB). eexists. split; [exact RB|]. rewrite <- K1, <- K2. good.
    - unfold stI, mkvars. cbn [lookup vars String.eqb Ascii.eqb Bool.eqb]. reflexivity.
  Qed.

  Definition outcome_ok (i : nat) (u : Model.utt) (evs : list event) (go : outcome ctl)
             (res : Model.utt * (Model.exn + (Model.vstate * Model.iacc))) : Prop :=
    match res with
    | (u', inl e) => exists st' E, go = Exc (name_of_exn e) st' /\ events st' = (evs ++ E)%list /\ local_to i E /\ post_utt E i u = u'
    | (u', inr (vst', acc')) => exists st' E, go = Ok CNormal st' /\ good_state ids fx vst' (evs ++ E)%list st' /\ local_to i E /\ post_utt E i u = u'
    end.

  (* the reference part, with everything before it summarised: E12 = the files saved so far in this iteration *)
  Lemma step_fin : forall i u vst1 acc (lref : option Model.ref) f' a'o (b1 b2 : bool) tf ta
                          t1 prefix dir_ prefix_ msg t2 Tn F Tp idx2 r tok start end_ evs,
    (forall lr, lref = Some lr -> ref_shape_ok2 lr) ->
    (match lref with Some _ => Model.u_ref u <> None | None => True end) ->
    (if b1 then feat_of_tens tf else Model.u_feat u) = f' ->
    match Model.u_ali u with None => None | Some a => Some (if b2 then ali_of_tens ta else a) end = a'o ->
    let E12 := (oe b1 (sv tf "feat" i) ++ oe b2 (sv ta "ali" i))%list in
    let st2 := stI i vst1 t1 (enc12 (feat_tens f')) (opt_tens (option_map ali_tens a'o)) (opt_tens (option_map tens_of_ref lref)) (VBool false)
                   prefix dir_ prefix_ msg t2 Tn F Tp idx2 r tok start end_ (evs ++ E12)%list in
    let go := match lookup "ref" (vars st2) with
              | Some VNone => Ok CNormal st2
              | Some _ => exec ext iv_ref st2
              | None => Stuck "ref"
              end in
    let u2 := Model.mkUtt f' a'o (Model.u_ref u) in
    outcome_ok i u evs go
      (match lref with
       | Some lr =>
           match Model.ref_part fx Tn vst1 lr with
           | inl e => (u2, inl e)
           | inr (r', wb0, st2') =>
               match Model.ref_rows (Model.r_data r') with
               | Some rows =>
                   match Model.ref_info_rows false acc rows with
                   | inl e => (Model.mkUtt f' a'o (if wb0 then Some r' else Model.u_ref u), inl e)
                   | inr acc3 => (Model.mkUtt f' a'o (if wb0 then Some r' else Model.u_ref u), inr (st2', acc3))
                   end
               | None => (Model.mkUtt f' a'o (if wb0 then Some r' else Model.u_ref u), inl Model.ValueErr)
               end
           end
       | None => (u2, inr (vst1, acc))
       end).
  Proof.
    intros i u vst1 acc lref f' a'o b1 b2 tf ta t1 prefix dir_ prefix_ msg t2 Tn F Tp idx2 r tok start end_ evs Hok Hu Hf Ha E12 st2 go u2.
    pose proof (step_ref i vst1 acc lref t1 (enc12 (feat_tens f')) (opt_tens (option_map ali_tens a'o)) prefix dir_ prefix_ msg t2 Tn F Tp
                  idx2 r tok start end_ (evs ++ E12)%list Hok) as SR.
    cbv zeta in SR. fold st2 in SR. fold go in SR.
    assert (P12 : forall b3 tr, post_utt (E12 ++ oe b3 (sv tr "ref" i)) i u
                  = Model.mkUtt f' a'o (match Model.u_ref u with None => None | Some r0 => Some (if b3 then ref_of_tens tr else r0) end)).
    { intros. unfold E12. rewrite <- app_assoc, post_three, Hf, Ha. reflexivity. }
    assert (L12 : forall b3 tr, local_to i (E12 ++ oe b3 (sv tr "ref" i))).
    { intros. unfold E12. repeat apply local_app; apply local_oe; auto. }
    destruct lref as [lr|].
    - destruct (Model.ref_part fx Tn vst1 lr) as [e|[[r' wb] vst']] eqn:ERP.
      + destruct SR as [st' [S1 S2]]. exists st', E12. rewrite (ref_part_err _ _ _ _ _ ERP). cbn [name_of_exn].
        split; [exact S1|]. split; [exact S2|]. split; [rewrite <- (app_nil_r E12); apply (L12 false (tens_of_ref lr))|].
        specialize (P12 false (tens_of_ref lr)). cbn [oe] in P12. rewrite app_nil_r in P12. rewrite P12. unfold u2. f_equal.
        now destruct (Model.u_ref u).
      + destruct (ref_part_canon _ _ _ _ _ _ _ ERP) as [RT [rows ER]]. rewrite ER in *.
        assert (Hpost : post_utt (E12 ++ oe wb (sv (tens_of_ref r') "ref" i)) i u
                        = Model.mkUtt f' a'o (if wb then Some r' else Model.u_ref u)).
        { rewrite P12. f_equal. destruct (Model.u_ref u) as [r0|]; [|now contradiction Hu]. destruct wb; [now rewrite RT|reflexivity]. }
        destruct (Model.ref_info_rows false acc rows) as [e|acc3] eqn:ERI.
        * destruct SR as [st' [S1 S2]]. exists st', (E12 ++ oe wb (sv (tens_of_ref r') "ref" i))%list.
          assert (e = Model.ValueErr) as ->.
          { revert ERI. clear. generalize acc. induction rows as [|[[a b] cc] rows IH]; intros acc0; cbn; [discriminate|].
            destruct (a <? 0)%Z; [intros H; now inversion H|apply IH]. }
          split; [exact S1|]. split; [now rewrite app_assoc|]. split; [apply L12|exact Hpost].
        * destruct SR as [st' [S1 S2]]. exists st', (E12 ++ oe wb (sv (tens_of_ref r') "ref" i))%list.
          split; [exact S1|]. split; [now rewrite app_assoc|]. split; [apply L12|exact Hpost].
    - exists st2, E12. split; [exact SR|]. split; [unfold st2, stI; good|].
      split; [rewrite <- (app_nil_r E12); apply (L12 false (mkT false Model.DI64 [] []))|].
      specialize (P12 false (mkT false Model.DI64 [] [])). cbn [oe] in P12. rewrite app_nil_r in P12. rewrite P12. unfold u2. f_equal.
      now destruct (Model.u_ref u).
  Qed.

  Lemma ali_part_err : forall T a e, Model.ali_part true fx T a = inl e -> e = Model.ValueErr.
  Proof.
    intros T [cu dt data] e. unfold Model.ali_part. cbn [Model.a_cuda Model.a_dtype Model.a_data negb].
    repeat match goal with
           | |- context [if ?b then _ else _] => destruct b
           | |- context [match data with _ => _ end] => destruct data
           | |- context [match fx with _ => _ end] => destruct fx
           end; intros H; now inversion H.
  Qed.

  Lemma feat_part_err : forall vst f e, Model.feat_part true fx vst f = inl e -> e = Model.ValueErr.
  Proof.
    intros vst [cu dt sh] e. unfold Model.feat_part. cbn [Model.f_cuda Model.f_dtype Model.f_shape andb].
    repeat match goal with
           | |- context [if ?b then _ else _] => destruct b
           | |- context [match sh with _ => _ end] => destruct sh as [|? [|? [|? ?]]]
           | |- context [match Model.s_nf vst with _ => _ end] => destruct (Model.s_nf vst)
           end; intros H; now inversion H.
  Qed.

  Lemma feat_part_2d : forall vst f f' T F vst1, Model.feat_part true fx vst f = inr (f', T, F, vst1) -> Model.s_2d vst1 = Model.s_2d vst.
  Proof.
    intros vst [cu dt sh] f' T F vst1. unfold Model.feat_part. cbn [Model.f_cuda Model.f_dtype Model.f_shape andb].
    repeat match goal with
           | |- context [if ?b then _ else _] => destruct b
           | |- context [match sh with _ => _ end] => destruct sh as [|? [|? [|? ?]]]
           | |- context [match Model.s_nf vst with _ => _ end] => destruct (Model.s_nf vst)
           end; intros H; inversion H; reflexivity.
  Qed.

  (* -- from the feature checks on (the state right after `prefix_ = ...`) -- *)
  Lemma step_rest : forall i u vst acc evs (lref : option Model.ref) t1 msg t2 T F Tp idx2 r tok start end_,
    Model.c_suppress_alis c = false -> utt_shape_ok c u ->
    (match Model.u_ref u with
     | Some r0 => match Model.load_ref c r0 with inl e => inl e | inr lr => inr (Some lr) end
     | None => inr None
     end) = inr lref ->
    let st1 := mkState (mkvars ids fx (VInt (Z.of_nat i)) (nf_val (Model.s_nf vst)) (r2d_val (Model.s_2d vst)) (dt_val (Model.s_dt vst))
                               (VStr (uid i ++ ".pt")) t1 (enc12 (feat_tens (Model.u_feat u)))
                               (opt_tens (option_map ali_tens (Model.u_ali u))) (opt_tens (option_map tens_of_ref lref)) (VBool false)
                               (VStr "") (VStr "d/feat") (VStr "") msg t2 T F Tp idx2 r tok start end_) evs in
    let go := bind (exec ext (seq_drop 6 iv_feat) st1) (fun _ st1' =>
              bind (exec ext iv_ali st1') (fun _ st2 =>
              match lookup "ref" (vars st2) with
              | Some VNone => Ok CNormal st2
              | Some _ => exec ext iv_ref st2
              | None => Stuck "ref"
              end)) in
    outcome_ok i u evs go (Model.step_utt false true c fx vst acc u).
  Proof.
    intros i u vst acc evs lref t1 msg t2 T F Tp idx2 r tok start end_ Hsup [Hali Href] Hload st1 go.
    unfold Model.step_utt. rewrite Hload, Hsup.
    assert (Hlr : forall lr, lref = Some lr -> ref_shape_ok2 lr).
    { intros lr ->. destruct (Model.u_ref u) as [r0|] eqn:Er; [|discriminate].
      destruct (Model.load_ref c r0) as [e|lr0] eqn:El; [discriminate|]. inversion Hload; subst. eapply Href; eauto. }
    assert (Hur : match lref with Some _ => Model.u_ref u <> None | None => True end).
    { destruct lref; [|exact I]. destruct (Model.u_ref u); [discriminate|discriminate]. }
    pose proof (feat_tail_run c d ids fx (r2d_val (Model.s_2d vst)) Tp idx2 r tok start end_ i (Model.u_feat u) vst (uid i ++ ".pt") t1
                  (opt_tens (option_map ali_tens (Model.u_ali u))) (opt_tens (option_map tens_of_ref lref)) (VStr "") (VStr "") msg t2 T F evs) as FT.
    cbv zeta in FT. unfold TieVFeat.stF in FT. fold st1 in FT.
    destruct (Model.feat_part true fx vst (Model.u_feat u)) as [e|[[[f' Tn] Fn] vst1]] eqn:EF.
    - (* the feature checks raise *)
      destruct FT as [st' [F1 F2]]. exists st', []. rewrite (feat_part_err _ _ _ EF). cbn [name_of_exn].
      subst go. rewrite F1. cbn [bind]. rewrite app_nil_r.
      split; [reflexivity|]. split; [exact F2|]. split; [constructor|apply post_nil].
    - destruct FT as (msg' & t2' & F1). subst go. rewrite F1. cbn [bind]. rewrite add_if_oe, save_feat_sv.
      pose proof (feat_part_post _ _ _ _ _ _ _ EF) as Hf.
      destruct (Model.u_ali u) as [a|] eqn:Ea; cbn [option_map opt_tens].
      + pose proof (ali_block_some c d ids fx (VInt (Z.of_nat i)) (nf_val (Model.s_nf vst1)) (r2d_val (Model.s_2d vst)) (dt_val (Model.s_dt vst1))
                      t1 (enc12 (feat_tens f')) (opt_tens (option_map tens_of_ref lref)) (VStr "") t2' (VInt (Z.of_nat Fn)) idx2 r tok start end_
                      (uid i ++ ".pt") Tn (VStr "d/feat") (VStr "") msg' a Tp
                      (evs ++ oe (Model.f_cuda (Model.u_feat u)) (sv (feat_tens f') "feat" i))%list (Hali a eq_refl)) as AB.
        unfold TieVAli.stA in AB.
        destruct (Model.ali_part true fx Tn a) as [e|a'] eqn:EA.
        * (* the alignment checks raise *)
          destruct AB as [st' [A1 A2]]. exists st', (oe (Model.f_cuda (Model.u_feat u)) (sv (feat_tens f') "feat" i)).
          rewrite (ali_part_err _ _ _ EA). cbn [name_of_exn].
          rewrite A1. cbn [bind]. split; [reflexivity|]. split; [exact A2|]. split; [apply local_oe; auto|].
          pose proof (post_three (Model.f_cuda (Model.u_feat u)) false false (feat_tens f') (feat_tens f') (feat_tens f') i u) as P3.
          cbn [oe] in P3. rewrite !app_nil_r in P3. rewrite P3, feat_roundtrip, Ea.
          f_equal; [|now destruct (Model.u_ref u)].
          rewrite <- Hf at 2. rewrite feat_roundtrip. reflexivity.
        * (* alignment accepted *)
          destruct AB as (msg'' & Tp' & A1). rewrite A1. cbn [bind]. rewrite add_if_oe, save_ali_sv, <- app_assoc.
          rewrite <- (feat_part_2d _ _ _ _ _ _ EF).
          apply (step_fin i u vst1 acc lref f' (Some a') (Model.f_cuda (Model.u_feat u)) (ali_wb Tn a) (feat_tens f') (ali_tens a')
                   t1 (VStr "") (VStr "d/ali") (VStr "") msg'' t2' Tn (VInt (Z.of_nat Fn)) Tp' idx2 r tok start end_ evs Hlr Hur).
          -- rewrite <- Hf at 2. rewrite feat_roundtrip. reflexivity.
          -- rewrite Ea. f_equal. apply (ali_part_post _ _ _ _ EA).
      + (* no alignments *)
        pose proof (ali_block_none c d ids fx (VInt (Z.of_nat i)) (nf_val (Model.s_nf vst1)) (r2d_val (Model.s_2d vst)) (dt_val (Model.s_dt vst1))
                   t1 (enc12 (feat_tens f')) (opt_tens (option_map tens_of_ref lref)) (VStr "") t2' (VInt (Z.of_nat Fn)) idx2 r tok start end_
                   (uid i ++ ".pt") Tn (VStr "d/feat") (VStr "") msg' (VBool false) Tp
                   (evs ++ oe (Model.f_cuda (Model.u_feat u)) (sv (feat_tens f') "feat" i))%list) as AN.
        unfold TieVAli.stA in AN. rewrite AN.
        cbn [bind]. rewrite <- (feat_part_2d _ _ _ _ _ _ EF).
        pose proof (step_fin i u vst1 acc lref f' None (Model.f_cuda (Model.u_feat u)) false (feat_tens f') (feat_tens f')
                   t1 (VStr "") (VStr "d/feat") (VStr "") msg' t2' Tn (VInt (Z.of_nat Fn)) Tp idx2 r tok start end_ evs Hlr Hur) as SF.
        cbv zeta in SF. cbn [oe option_map opt_tens] in SF. rewrite app_nil_r in SF. apply SF.
        -- rewrite <- Hf at 2. rewrite feat_roundtrip. reflexivity.
        -- now rewrite Ea.
  Qed.

  (* -- one iteration of the glue loop = Model.step_utt -- *)
  Theorem step_tie : forall i u vst acc evs st,
    nth_error d i = Some u -> nth_error ids i = Some (uid i) -> Model.c_suppress_alis c = false -> utt_shape_ok c u ->
    good_state ids fx vst evs st ->
    outcome_ok i u evs (step_src ext (set_var "idx" (VInt (Z.of_nat i)) st)) (Model.step_utt false true c fx vst acc u).
  Proof.
    intros i u vst acc evs st Hu Hid Hsup Hshape Hst.
    destruct Hst as (idx & fn & t1 & feat & ali & ref & wb & prefix & dir_ & prefix_ & msg & t2 & T & F & Tp & idx2 & r & tok & start & end_ & ->).
    unfold step_src.
    change (set_var "idx" ?v (mkState (mkvars ?a ?b _ ?n ?r2 ?f ?g ?h ?i0 ?j ?k ?l ?m ?o ?p ?q ?s ?t ?u0 ?v0 ?w ?x ?y ?z ?aa) ?e))
      with (mkState (mkvars a b v n r2 f g h i0 j k l m o p q s t u0 v0 w x y z aa) e).
    pose proof (feat_head_run c d ids fx (r2d_val (Model.s_2d vst)) Tp idx2 r tok start end_ i u (uid i)
                  (nf_val (Model.s_nf vst)) (dt_val (Model.s_dt vst)) fn t1 feat ali ref wb prefix dir_ prefix_ msg t2 T F evs Hu Hid Hsup) as FH.
    cbv zeta in FH. unfold TieVFeat.stF, loaded_ref in FH.
    destruct (match Model.u_ref u with
              | Some r0 => match Model.load_ref c r0 with inl e => inl e | inr lr => inr (Some lr) end
              | None => inr None
              end) as [e|lref] eqn:Hload.
    - (* loading the reference raises *)
      assert (E1 : match Model.u_ref u with
                   | Some r0 => match Model.load_ref c r0 with inl e0 => inl e0 | inr lr => inr (Some (tens_of_ref lr)) end
                   | None => inr None
                   end = @inl Model.exn (option tens) e).
      { destruct (Model.u_ref u) as [r0|]; [|discriminate]. destruct (Model.load_ref c r0); [now inversion Hload|discriminate]. }
      rewrite E1 in FH. destruct FH as [st' [F1 F2]].
      unfold Model.step_utt. rewrite Hload. exists st', []. rewrite F1. cbn [bind]. rewrite app_nil_r.
      split; [reflexivity|]. split; [exact F2|]. split; [constructor|apply post_nil].
    - assert (E1 : match Model.u_ref u with
                   | Some r0 => match Model.load_ref c r0 with inl e0 => inl e0 | inr lr => inr (Some (tens_of_ref lr)) end
                   | None => inr None
                   end = @inr Model.exn (option tens) (option_map tens_of_ref lref)).
      { destruct (Model.u_ref u) as [r0|]; [|now inversion Hload]. destruct (Model.load_ref c r0); [discriminate|now inversion Hload]. }
      rewrite E1 in FH. destruct FH as [t1' F1]. rewrite F1.
      apply (step_rest i u vst acc evs lref t1' msg t2 T F Tp idx2 r tok start end_ Hsup Hshape Hload).
  Qed.
End Step.
