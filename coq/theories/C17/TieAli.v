(* C17 - tie between the Python text of the two alignment <-> token workers of command_line.py and PV.C17.Model,
   checked by the kernel.  PV.Gen.C17Src.ali2tok_body / tok2ali_body are the MiniPy terms that
   harness/py2coq/translate.py regenerates from /repo/src/pydrobert/torch/command_line.py on every run;
   PV.MiniPy.Interp is their semantics; the torch calls mean what PV.MiniTorch.OpsC17 says and the file system is
   data (SrcRun.ext17).  For EVERY file system, directory and base name, every stored alignment / token tensor:
   the interpreted worker saves exactly the tensor the model computes, at os.path.join(out_dir, basename), and
   nothing else; it raises exactly the model's exception, before any save.  If the source is edited so that this
   stops being true, this file stops compiling and the C17 check reports the broken obligation. *)
From Coq Require Import ZArith QArith List String Bool Arith Lia ZifyBool ZifyNat.
From PV Require Import C11.Model C17.Model.
From PV Require Import MiniPy.Syntax MiniPy.Interp MiniTorch.OpsC17 MiniTorch.ValueC17 MiniTorch.LemmasC17 Gen.C17Src
  C17.SrcRun C17.TieLib C17.TieAliSpec.
Import ListNotations.
Local Open Scope string_scope.

(* ---- lists: the stacked columns are the model's segments ---- *)
Lemma runs_rle : forall v, runs v = rle v.
Proof.
  induction v as [|x t IH]; [reflexivity|]. cbn [runs rle]. rewrite IH. reflexivity.
Qed.

Lemma cumsum_from_cons : forall s x l, cumsum_from s (x :: l) = (s + x)%Z :: cumsum_from (s + x) l.
Proof. reflexivity. Qed.

Lemma transpose_segs : forall rs s,
  transpose (List.length rs) [map fst rs; removelast (s :: cumsum_from s (map snd rs)); cumsum_from s (map snd rs)]
  = segs s rs.
Proof.
  induction rs as [|[v c] t IH]; intros s; [reflexivity|].
  cbn [List.length map fst snd segs]. rewrite cumsum_from_cons.
  change (removelast (s :: (s + c)%Z :: cumsum_from (s + c) (map snd t)))
    with (s :: removelast ((s + c)%Z :: cumsum_from (s + c) (map snd t))).
  unfold transpose; fold transpose. cbn [map hd tl]. f_equal. apply IH.
Qed.

#[local] Arguments enc17 : simpl never.
#[local] Arguments dec17 : simpl never.
#[local] Arguments zeros1 : simpl never.
#[local] Arguments unique_consecutive_counts : simpl never.
#[local] Arguments cat1 : simpl never.
#[local] Arguments cumsum : simpl never.
#[local] Arguments get_slice1 : simpl never.
#[local] Arguments get_block : simpl never.
#[local] Arguments get_col : simpl never.
#[local] Arguments get_cell : simpl never.
#[local] Arguments stack_last : simpl never.
#[local] Arguments repeat_interleave : simpl never.
#[local] Arguments compare : simpl never.
#[local] Arguments sub : simpl never.
#[local] Arguments any : simpl never.
#[local] Arguments ndim : simpl never.
#[local] Arguments size : simpl never.
#[local] Arguments shape : simpl never.
#[local] Arguments then_ : simpl never.
#[local] Arguments path : simpl never.
#[local] Arguments slice_list : simpl never.
#[local] Arguments cumsum_from : simpl never.
#[local] Arguments transpose : simpl never.
#[local] Arguments runs : simpl never.
#[local] Arguments Z.of_nat : simpl never.

Ltac tstep :=
  cbn; change (Pos.to_nat 1) with 1%nat; change (Pos.to_nat 2) with 2%nat; change (Pos.to_nat 3) with 3%nat; cbv iota;
  change (Z.of_nat 3) with 3%Z; change (Z.of_nat 2) with 2%Z; change (Z.of_nat 1) with 1%Z; change (Z.of_nat 0) with 0%Z;
  rewrite ?method_enc17, ?foreign_enc17, ?subscript_enc17, ?attribute_enc17, ?binop_sub_enc17, ?binop_and_enc17,
    ?dec17_enc17, ?on1_enc, ?on2_enc, ?on1v_enc, ?operand_enc17,
    ?zeros1_1, ?ucc_L1, ?cat1_2, ?cumsum_L1, ?get_slice1_L1, ?stack_last_3,
    ?ndim_L1, ?ndim_L2, ?size_L2_0, ?size_L2_1, ?size_L1_0, ?shape_L1, ?shape_L2,
    ?get_block_L2, ?compare_L2_Z, ?compare_L1_L1, ?any_B1, ?any_B2, ?sub_L1, ?repeat_interleave_L1.
Ltac stmt := open_seq; repeat (progress tstep).

Lemma stack_is_segs : forall v,
  (if ((List.length (slice_list None (Some (-1)%Z) (cumsum_from 0 (0%Z :: map snd (runs v))))
        =? List.length (map fst (runs v)))%nat
       && ((List.length (slice_list (Some 1%Z) None (cumsum_from 0 (0%Z :: map snd (runs v))))
            =? List.length (map fst (runs v)))%nat && true))%bool
   then Some (L2 3 (transpose (List.length (map fst (runs v)))
                      [map fst (runs v);
                       slice_list None (Some (-1)%Z) (cumsum_from 0 (0%Z :: map snd (runs v)));
                       slice_list (Some 1%Z) None (cumsum_from 0 (0%Z :: map snd (runs v)))]))
   else None)
  = Some (L2 3 (segs 0 (rle v))).
Proof.
  intros v. rewrite cumsum_from_cons. change (0 + 0)%Z with 0%Z. rewrite slice_butlast, slice_from1.
  rewrite removelast_length. cbn [List.length pred]. rewrite cumsum_from_length, !map_length, Nat.eqb_refl. cbn [andb].
  rewrite transpose_segs, runs_rle. reflexivity.
Qed.

(* ---- ali -> tokens: the whole worker ---------------------------------------------------------------------- *)
Theorem ali2tok_tie : forall fs b ad rd v,
  dict_get fs (path ad b) = Some (enc_tensor (Vec v)) ->
  exists st, run_ali2tok fs b ad rd = Ok VNone st
             /\ events st = [save_event (enc_tensor (Mat 3 (segs 0 (rle v)))) (path rd b)].
Proof.
  intros fs b ad rd v H. unfold run_ali2tok. eexists. split.
  - apply run_of_exec. unfold ali2tok_body, ali2tok_vars.
    stmt. close_stmt.
    stmt. close_stmt.
    stmt. rewrite H. cbn [bind]. close_stmt. unfold enc_tensor, lten_of.
    stmt. close_stmt.
    stmt. close_stmt.
    stmt. close_stmt.
    stmt. rewrite stack_is_segs. repeat (progress tstep). close_stmt.
    repeat (progress tstep). reflexivity.
  - reflexivity.
Qed.

(* ---- tokens -> ali ------------------------------------------------------------------------------------------ *)
Lemma if_len_eq : forall A a b (X : A), a = b -> (if Nat.eqb a b then Some X else None) = Some X.
Proof. intros. subst. now rewrite Nat.eqb_refl. Qed.

Lemma get_col_3 : forall rows a b k, (k < 3)%nat ->
  get_col (L2 3 rows) a b (Z.of_nat k) = Some (L1 (map (fun r => nth k r 0%Z) (slice_list a b rows))).
Proof. intros rows a b k H. unfold get_col. now rewrite norm_index_lit by exact H. Qed.

Lemma get_cell_3 : forall rows i k, (i < List.length rows)%nat -> (k < 3)%nat ->
  get_cell (L2 3 rows) (Z.of_nat i) (Z.of_nat k) = Some (nth k (nth i rows []) 0%Z).
Proof. intros rows i k Hi Hk. unfold get_cell. now rewrite !norm_index_lit by assumption. Qed.

Lemma get_cell_3_last : forall rows k, (0 < List.length rows)%nat -> (k < 3)%nat ->
  get_cell (L2 3 rows) (-1) (Z.of_nat k) = Some (nth k (nth (pred (List.length rows)) rows []) 0%Z).
Proof. intros rows k Hi Hk. unfold get_cell. now rewrite norm_index_last, norm_index_lit by assumption. Qed.

Lemma get_col_3_0 : forall rows a b, get_col (L2 3 rows) a b 0 = Some (L1 (map (fun r => nth 0 r 0%Z) (slice_list a b rows))).
Proof. intros. exact (get_col_3 rows a b 0 ltac:(lia)). Qed.
Lemma get_col_3_1 : forall rows a b, get_col (L2 3 rows) a b 1 = Some (L1 (map (fun r => nth 1 r 0%Z) (slice_list a b rows))).
Proof. intros. exact (get_col_3 rows a b 1 ltac:(lia)). Qed.
Lemma get_col_3_2 : forall rows a b, get_col (L2 3 rows) a b 2 = Some (L1 (map (fun r => nth 2 r 0%Z) (slice_list a b rows))).
Proof. intros. exact (get_col_3 rows a b 2 ltac:(lia)). Qed.
Lemma get_cell_first : forall r rows, get_cell (L2 3 (r :: rows)) 0 1 = Some (nth 1 (nth 0 (r :: rows) []) 0%Z).
Proof. intros. apply (get_cell_3 (r :: rows) 0 1); cbn; lia. Qed.
Lemma get_cell_last : forall r rows,
  get_cell (L2 3 (r :: rows)) (-1) 2 = Some (nth 2 (nth (pred (List.length (r :: rows))) (r :: rows) []) 0%Z).
Proof. intros. apply (get_cell_3_last (r :: rows) 2); cbn; lia. Qed.

Lemma gap_lengths : forall (rows : list (list Z)) (f g : list Z -> Z),
  List.length (map f (slice_list None (Some (-1)%Z) rows)) = List.length (map g (slice_list (Some 1%Z) None rows)).
Proof.
  intros. rewrite !map_length, slice_butlast, slice_from1_tl, removelast_length. destruct rows; reflexivity.
Qed.

Lemma of_nat_S_eqb0 : forall n, (Z.of_nat (S n) =? 0)%Z = false.
Proof. intros. lia. Qed.

Definition feat_env (fs : list (val * val)) (b fdv : val) (fl : option (option tensor)) : Prop :=
  match fl with
  | None => fdv = VNone
  | Some x => (exists s, fdv = VStr s) /\ dict_get fs (path fdv b) = option_map enc_tensor x
  end.


Lemma size0_tlen : forall f, option_map vnat (size (lten_of f) 0) = Some (VInt (tlen f)).
Proof. intros [v|w rows]; reflexivity. Qed.

Ltac subst_body := repeat match goal with H : ?x = _ |- context [exec _ ?x _] => subst x end.
Ltac tstep2 := repeat (progress (tstep; rewrite ?get_col_3_0, ?get_col_3_1, ?get_col_3_2, ?get_cell_first, ?get_cell_last)).
Ltac stmt2 := open_seq; tstep2.

Lemma reps_len : forall rows, List.length (col 0 rows) = List.length (reps rows).
Proof. intros. unfold reps, col. rewrite map2_length; now rewrite !map_length. Qed.

(* the last two statements: ali = torch.repeat_interleave(..); torch.save(ali, ..) *)
Ltac tail_tac :=
  stmt2; rewrite if_len_eq by (now rewrite !map_length); tstep2;
  match goal with |- context [map2 Z.sub (map _ (slice_list None None ?x)) _] =>
    fold (col 2 x); fold (col 1 x); fold (reps x); fold (col 0 x) end;
  rewrite if_len_eq by apply reps_len; tstep2;
  match goal with |- context [existsb ?p (reps ?x)] => destruct (existsb p (reps x)) end; [reflexivity|];
  cbn [bind]; close_stmt; tstep2; reflexivity.

Definition tok2ali_state (b rd ad fdv : val) : state :=
  mkState [("basename", b); ("ref_dir", rd); ("ali_dir", ad); ("feat_dir", fdv); ("torch", torch_module)] [].

Lemma tok2ali_rows : forall fs b rd ad fdv fl r rows,
  dict_get fs (path rd b) = Some (enc_tensor (Mat 3 (r :: rows))) ->
  feat_env fs b fdv fl ->
  obs (exec (ext17 fs) tok2ali_body (tok2ali_state b rd ad fdv))
  = Some (exp_of (spec_tok2ali (feat_len fl) (r :: rows)) (path ad b)).
Proof.
  intros fs b rd ad fdv fl r rows H FE. unfold tok2ali_body, tok2ali_state, spec_tok2ali.
  stmt. close_stmt. stmt. rewrite H. cbn [bind]. close_stmt. unfold enc_tensor, lten_of.
  stmt. close_stmt. stmt. rewrite of_nat_S_eqb0. repeat (progress tstep). close_stmt.
  stmt. fold (g_neg (r :: rows)). destruct (g_neg (r :: rows)); [reflexivity|]. cbn [bind]. close_stmt.
  stmt2.
  destruct (negb (nth 1 r 0 =? 0)%Z); [reflexivity|]. cbn [bind]. close_stmt.
  stmt2. rewrite if_len_eq by apply gap_lengths. tstep2.
  fold (g_gap (r :: rows)). destruct (g_gap (r :: rows)); [reflexivity|]. cbn [bind]. close_stmt.
  destruct fl as [[f|]|]; cbn [feat_env feat_len option_map] in *.
  - destruct FE as [[s ->] FE]. open_seq. open_if. tstep2. subst bt.
    stmt2. close_stmt. stmt2. rewrite FE. tstep2. unfold enc_tensor. rewrite on1v_enc, size0_tlen. tstep2. close_stmt.
    open_if. tstep2.
    match goal with |- context [if ?c then exec _ bt _ else _] => destruct c end; subst_body; [reflexivity|].
    tstep2. close_stmt. tail_tac.
  - destruct FE as [[s ->] FE]. open_seq. open_if. tstep2. subst_body.
    stmt2. close_stmt. stmt2. rewrite FE. reflexivity.
  - subst fdv. open_seq. open_if. tstep2. subst_body. tstep2. close_stmt. tail_tac.
Qed.

(* ---- tokens -> ali: the whole worker, every stored tensor ---------------------------------------------------- *)
Lemma early_fail : forall fl t, ali_of_ref None t = Fail EValue -> ali_of_ref_fl fl t = Fail EValue.
Proof. intros fl t H. unfold ali_of_ref_fl. rewrite H. destruct fl; reflexivity. Qed.

Theorem tok2ali_tie : forall fs b rd ad fdv fl t,
  wf_tensor t -> dict_get fs (path rd b) = Some (enc_tensor t) -> feat_env fs b fdv fl ->
  worker_outcome (run_tok2ali fs b rd ad fdv) (path ad b) (ali_of_ref_fl fl t).
Proof.
  intros fs b rd ad fdv fl t W H FE. unfold run_tok2ali. apply worker_of_obs. fold (tok2ali_state b rd ad fdv).
  destruct t as [v|w [|r rows]].
  - (* a vector: ndim != 2 *)
    rewrite early_fail by reflexivity. unfold tok2ali_body, tok2ali_state.
    stmt. close_stmt. stmt. rewrite H. cbn [bind]. close_stmt. unfold enc_tensor, lten_of.
    stmt. close_stmt. stmt. reflexivity.
  - (* no rows *)
    rewrite early_fail by (unfold ali_of_ref; now rewrite orb_true_r). unfold tok2ali_body, tok2ali_state.
    stmt. close_stmt. stmt. rewrite H. cbn [bind]. close_stmt. unfold enc_tensor, lten_of.
    stmt. close_stmt. stmt. reflexivity.
  - destruct (Nat.eq_dec w 3) as [->|Hw].
    + rewrite <- spec_tok2ali_model by exact W. apply tok2ali_rows; assumption.
    + rewrite early_fail by (unfold ali_of_ref; apply Nat.eqb_neq in Hw; now rewrite Hw).
      unfold tok2ali_body, tok2ali_state.
      stmt. close_stmt. stmt. rewrite H. cbn [bind]. close_stmt. unfold enc_tensor, lten_of.
      stmt. close_stmt. stmt. rewrite of_nat_S_eqb0. repeat (progress tstep).
      replace (Z.of_nat w =? 3)%Z with false by lia. reflexivity.
Qed.
