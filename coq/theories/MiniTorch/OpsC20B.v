(* MiniTorch, unit C20B - the meaning given to the torch operations that occur in the translated
   `MultiHeadedAttention.forward` / `check_input`, `ConcatSoftAttention.score` and
   `_concat_soft_attention` (_attn.py) and that PV.MiniTorch.OpsC20 / OpsC07 do not define yet.
   DEFINITIONS ONLY (the algebra is in LemmasC20B.v); NEW definitions only: unsqueeze, squeeze(dim),
   flatten(start_dim) are OpsC07's, linear / broadcast_shapes / the encodings are OpsC20's.

   Conventions are those of OpsC20.v: tensors are OpsC07's [tn] (torch-order shape, row-major data);
   where an operation has to READ elements under broadcasting it does so through the index vocabulary
   of PV.C20.Model ([rd], [mat], [bget], [intob], r-coordinates = innermost axis first), which is
   SHARED with the model and validated against torch on every run ([SrcRunB.src_*_check]).  The
   view operations (unflatten, flatten, squeeze, unsqueeze) are defined directly on the flat tensor:
   the shape changes, the row-major data do not.  [None] = outside the modelled domain (the unit's ext
   turns it into Stuck).  dtypes, devices, strides, rounding are not modelled.  TRUSTED by the tie. *)
From Coq Require Import List ZArith QArith Bool Arith String.
From PV Require Import MiniPy.Syntax MiniTorch.Ops MiniTorch.OpsC07 MiniTorch.OpsC20.
From PV Require C20.Model.
Import ListNotations.
Local Open Scope nat_scope.

(* pydrobert.torch._compat.unflatten(x, dim, shape) with dim = -1 (the text of the compat function:
   `full_shape = full_shape[:dim] + shape + full_shape[dim + 1:]; return x.view(full_shape)`;
   torch.unflatten: "Expands a dimension of the input tensor over multiple dimensions"; Tensor.view:
   "Returns a new tensor with the same data as the self tensor but of a different shape ... must have
   the same number of elements").  The last dimension is replaced by [sizes], the data are unchanged.
   None: a 0-d tensor, or the product of [sizes] is not the size of the last dimension (torch raises) *)
Definition unflatten_last {X} (x : tn X) (sizes : list nat) : option (tn X) :=
  match rev (shp x) with
  | n :: r => if numel sizes =? n then Some (mkTn (rev r ++ sizes) (dat x)) else None
  | [] => None
  end.

(* Tensor.size(dim): "Returns the size of the self tensor.  If dim is specified, returns an int holding
   the size of that dimension."  A function of the shape alone.  None: dim outside [-rank, rank)
   (torch: IndexError) *)
Definition size_dim (sh : list nat) (d : Z) : option nat :=
  option_map (fun k => nth k sh 0) (wrap_dim (List.length sh) d).

(* Tensor.expand( *sizes): "Returns a new view of the self tensor with singleton dimensions expanded to a
   larger size. ... Tensor can be also expanded to a larger number of dimensions, and the new ones will be
   appended at the front."  Every element of the result is the element of self at the same index with the
   singleton axes read at 0 and the new leading axes dropped ([Model.bget]); materialised.  Sizes of -1 are
   not modelled.  None: a non-singleton dimension differs from the requested size, or fewer sizes than
   dimensions (torch raises RuntimeError) *)
Definition expand_to (x : tn Q) (sizes : list nat) : option (tn Q) :=
  if Model.intob (rev (shp x)) (rev sizes)
  then Some (mat (Model.mkT (rev sizes) (fun i => Model.bget (rd 0%Q x) i)))
  else None.

(* torch.cat([a, b], -1): "Concatenates the given sequence of tensors in tensors in the given dimension.
   All tensors must either have the same shape (except in the concatenating dimension) or be a 1-D empty
   tensor."  Two tensors, last dimension: entry c of a row of the result is entry c of a's row for
   c < a.size(-1), entry c - a.size(-1) of b's row otherwise.  None: 0-d operands, or the leading sizes
   differ (torch raises) *)
Definition cat_last (a b : tn Q) : option (tn Q) :=
  match rev (shp a), rev (shp b) with
  | na :: s, nb :: s' =>
      if nats_eqb s s'
      then Some (mat (Model.mkT ((na + nb) :: s)
                        (fun ci => match ci with
                                   | c :: i => if c <? na then Model.tat (rd 0%Q a) (c :: i)
                                               else Model.tat (rd 0%Q b) ((c - na) :: i)
                                   | [] => 0%Q
                                   end)))
      else None
  | _, _ => None
  end.

(* torch.tanh(input): "Returns a new tensor with the hyperbolic tangent of the elements of input."  The
   function itself is the ORACLE [tanhf] (PV.C20.Model does the same: the theorems hold for every function;
   the correspondence supplies torch's float64 values) *)
Definition tanh_t (tanhf : Q -> Q) (x : tn Q) : tn Q := mkTn (shp x) (map tanhf (dat x)).
