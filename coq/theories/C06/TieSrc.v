(* C06 — tie, part 2: the tensor program [TieRun.lookup_fn] / [body_fn] / [main_fn] evaluated on the encoding of the
   model's buffers is the encoding of what the model computes.  All tensors of the loop are TABULATED over the lanes of
   the batch (MiniTorch.LemmasC06: (batch element, Some candidate) for the n path, (batch element, None) for the p
   path); one iteration of the loop is the model's [step] on every lane ([body_tab]), the loop is [descend]
   ([loop_tab], induction over the remaining orders), the statements after the context window produce
   [lookup1] for every (batch element, candidate) ([main_tab]).  Hypothesis throughout: every index a lane forms lies
   inside its buffer ([lane_safe] / [dsafe] / [lookup1_safe]; discharged from the validator in TieSafe.v).  No axioms. *)
From Coq Require Import List ZArith QArith Bool Arith Lia ZifyBool ZifyNat.
From PV Require Import C06.Model C06.Proofs MiniTorch.OpsC06 MiniTorch.LemmasC06 C06.SrcRun C06.TieRun.
Import ListNotations.
Local Open Scope Z_scope.

(* ---- the model's child search, lane-wise ---- *)
Section ExtTab.
  Variable b : bufs.
  Variable sh : shape.

  Definition st_of (d : Z) : Z := zget (offsets b) d 0 + d.
  Definition en_of (d : Z) : Z := zget (offsets b) (d + 1) 0 + d + 1.
  Definition mm (d tok : Z) (k : nat) : bool :=
    (en_of d >? st_of d + Z.of_nat k) && (tok =? idat b sh (st_of d + Z.of_nat k)).

  Lemma ext_tab_gen (d tok : Z) (ks : list nat) :
    let m := filter (fun pos => idat b sh pos =? tok)
               (filter (fun pos => pos <? en_of d) (map (fun k => st_of d + Z.of_nat k) ks)) in
    (match m with [] => true | _ => false end) = negb (existsb (mm d tok) ks) /\
    zsum m = fold_right Z.add 0 (map (fun k => if mm d tok k then st_of d + Z.of_nat k else 0) ks).
  Proof.
    induction ks as [|k ks IH]; [split; reflexivity|].
    cbn [map filter existsb]. unfold mm at 1 3.
    destruct (st_of d + Z.of_nat k <? en_of d) eqn:E1.
    - replace (en_of d >? st_of d + Z.of_nat k) with true by lia. cbn [filter andb].
      rewrite (Z.eqb_sym tok). destruct (idat b sh (st_of d + Z.of_nat k) =? tok) eqn:E2.
      + cbn [orb negb zsum fold_right]. split; [reflexivity|]. destruct IH as [_ IH]. unfold zsum in IH. rewrite IH. reflexivity.
      + cbn [orb]. destruct IH as [IH1 IH2]. split; [exact IH1|]. rewrite IH2. cbn [fold_right]. lia.
    - replace (en_of d >? st_of d + Z.of_nat k) with false by lia. cbn [andb orb].
      destruct IH as [IH1 IH2]. split; [exact IH1|]. rewrite IH2. cbn [fold_right]. lia.
  Qed.

  Lemma ext_tab (p : Z * bool) (tok : Z) :
    let d := fst p in
    let f := existsb (mm d tok) (seq 0 (maxdesc sh)) && snd p in
    ext b sh p tok =
    ((if f then fold_right Z.add 0 (map (fun k => if mm d tok k then st_of d + Z.of_nat k else 0) (seq 0 (maxdesc sh)))
      else d), f).
  Proof.
    cbv zeta. unfold ext, cands. fold (st_of (fst p)) (en_of (fst p)).
    destruct (ext_tab_gen (fst p) tok (seq 0 (maxdesc sh))) as [H1 H2]. cbv zeta in H1, H2.
    rewrite H1, H2, negb_involutive. reflexivity.
  Qed.
End ExtTab.

(* ---- buffers as tensors: gathers ---- *)
Lemma fadd_fl_of a c : fadd (fl_of a) (fl_of c) = fl_of (vadd a c).
Proof.
  destruct a as [x| |], c as [y| |]; try reflexivity. cbn [fl_of vadd fadd]. f_equal.
  apply Qred_complete. rewrite !Qred_correct. unfold Qeq, Qplus. cbn [Qnum Qden]. lia.
Qed.

Lemma zget_map_CI (xs : list Z) i : 0 <= i -> nth (Z.to_nat i) (map CI xs) (CI 0) = CI (zget xs i 0).
Proof. intros H. unfold zget. replace (i <? 0) with false by lia. apply (map_nth CI xs 0). Qed.

Lemma index1_ivec_T1 {X} (xs : list Z) (l : list X) (i : X -> Z) :
  (forall e, In e l -> 0 <= i e < zlen xs) ->
  index1 (ivec xs) (T1 l (fun e => CI (i e))) = Some (T1 l (fun e => CI (zget xs (i e) 0))).
Proof.
  intros H. unfold ivec. rewrite <- (map_length CI xs). apply index1_T1. intros e He. specialize (H e He).
  unfold zlen in H. rewrite pick_in by (rewrite map_length; lia). rewrite zget_map_CI by lia. reflexivity.
Qed.

Lemma index1_ivec_T2 {X Y} (xs : list Z) (l : list X) (ks : list Y) (i : X -> Y -> Z) :
  (forall e k, In e l -> In k ks -> 0 <= i e k < zlen xs) ->
  index1 (ivec xs) (T2 l ks (fun e k => CI (i e k))) = Some (T2 l ks (fun e k => CI (zget xs (i e k) 0))).
Proof.
  intros H. unfold ivec. rewrite <- (map_length CI xs). apply index1_T2. intros e k He Hk. specialize (H e k He Hk).
  unfold zlen in H. rewrite pick_in by (rewrite map_length; lia). rewrite zget_map_CI by lia. reflexivity.
Qed.

Lemma index1_fvec_T1 {X} (xs : list val) (l : list X) (i : X -> Z) :
  (forall e, In e l -> 0 <= i e < zlen xs) ->
  index1 (fvec xs) (T1 l (fun e => CI (i e))) = Some (T1 l (fun e => CF (fl_of (zget xs (i e) NaN)))).
Proof.
  intros H. unfold fvec. rewrite <- (map_length (fun v => CF (fl_of v)) xs). apply index1_T1. intros e He.
  specialize (H e He). unfold zlen in H. rewrite pick_in by (rewrite map_length; lia).
  unfold zget. replace (i e <? 0) with false by lia.
  rewrite (nth_indep _ (CI 0) (CF (fl_of NaN))) by (rewrite map_length; lia).
  rewrite (map_nth (fun v => CF (fl_of v)) xs NaN). reflexivity.
Qed.

Lemma as_int_T1 {X} (l : list X) (z : X -> Z) : as_int (T1 l (fun e => CI (z e))) = Some (T1 l (fun e => CI (z e))).
Proof. apply map_cells_T1. reflexivity. Qed.

Lemma isfinite_T1 {X} (l : list X) (v : X -> val) :
  isfinite (T1 l (fun e => CF (fl_of (v e)))) = Some (T1 l (fun e => CB (vfinite (v e)))).
Proof. apply map_cells_T1. intros e _. destruct (v e); reflexivity. Qed.

(* ---- one iteration of the loop on tabulated lanes ---- *)
Section Body.
  Variable b : bufs.
  Variable sh : shape.
  Variable B : nat.
  Variable ws : list (list Z).       (* the context window of every batch element, oldest token first *)
  Variable hs : list Z.              (* its (padded) index *)

  Let Vn := Z.to_nat (vocab sh).
  Let Sn := maxdesc sh.
  Let N := Z.of_nat (order sh).

  Definition win (bi : nat) : list Z := nth bi ws [].
  Definition hx (bi : nat) : Z := nth bi hs 0.
  Definition lanes : list lane := nl B Vn ++ pl B.

  Definition path (SS : nat -> nat -> pstate) (PP : nat -> Z * bool) (e : lane) : Z * bool :=
    match snd e with Some v => dn (SS (fst e) v) | None => PP (fst e) end.

  Definition tab_state (SS : nat -> nat -> pstate) (PP : nat -> Z * bool) : lstate :=
    LS (T1 lanes (fun e => CI (fst (path SS PP e))))
       (T1 lanes (fun e => CB (snd (path SS PP e))))
       (T1 (nl B Vn) (fun e => CF (fl_of (lastp (SS (fst e) (vof e))))))
       (T1 (nl B Vn) (fun e => CF (fl_of (lastb (SS (fst e) (vof e)))))).

  Definition wt : tens6 := T2 (seq 0 (order sh - 1)) (seq 0 B) (fun i bi => CI (nth i (win bi) 0)).

  Definition cst : lconst :=
    LC wt (T1 (seq 0 B) (fun bi => CI (hx bi))) (ivec (offsets b)) (ivec (ids b)) (fvec (logps b)) (fvec (logbs b))
       (T1 (seq 0 Sn) (fun k => CI (Z.of_nat k)))
       (vocab sh) N (Z.of_nat B * vocab sh) (osize b) (psize b sh) (usize sh) (Z.of_nat B).

  Definition tokn (n : Z) (bi : nat) : Z := nth (order sh - 1 - Z.to_nat n) (win bi) 0.
  Definition tokp (n : Z) (bi : nat) : Z := tokn (Z.min (n + 1) (N - 1)) bi.
  Definition tok (n : Z) (e : lane) : Z := match snd e with Some _ => tokn n (fst e) | None => tokp n (fst e) end.

  (* every index the step forms lies inside its buffer *)
  Definition lane_safe (n : Z) (p : Z * bool) (tk : Z) (is_n : bool) : Prop :=
    let d := fst p in
    0 <= d /\ d + 1 < osize b /\
    (forall k, (k < Sn)%nat -> 0 <= Z.min (st_of b d + Z.of_nat k) (psize b sh - 1) - usize sh < zlen (ids b)) /\
    let d' := fst (ext b sh p tk) in
    (if is_n then 0 <= d' < zlen (logps b)
     else (n =? N - 1) = false -> 0 <= Z.min d' (osize b - 1) < zlen (logbs b)).

  Lemma body_tab n SS PP :
    0 <= vocab sh -> 1 <= n <= N - 1 ->
    (forall bi v, dp (SS bi v) = PP bi) ->
    (forall e, In e lanes -> lane_safe n (path SS PP e) (tok n e) (match snd e with Some _ => true | None => false end)) ->
    body_fn cst n (tab_state SS PP) =
    Some (tab_state (fun bi v => step b sh (hx bi) n (tokn n bi) (tokp n bi) (n =? N - 1) (SS bi v))
                    (fun bi => ext b sh (PP bi) (tokp n bi))).
  Proof.
    intros HV Hn Hcoh Hsafe.
    assert (HVn : vocab sh = Z.of_nat Vn) by (unfold Vn; lia).
    assert (HN : N = Z.of_nat (order sh)) by reflexivity.
    set (d := fun e => fst (path SS PP e)). set (f := fun e => snd (path SS PP e)).
    unfold body_fn, cst, tab_state.
    cbn [c_hist c_hidx c_offsets c_ids c_logps c_logbs c_srange c_V c_N c_M c_O c_P c_U c_B l_desc l_found l_lastp l_lastb].
    change (T1 lanes (fun e => CI (fst (path SS PP e)))) with (T1 lanes (fun e => CI (d e))).
    change (T1 lanes (fun e => CB (snd (path SS PP e)))) with (T1 lanes (fun e => CB (f e))).
    (* hist[-n], hist[-min(n + 1, N - 1)] *)
    assert (Hsel : forall m, 1 <= m <= N - 1 ->
              select0 wt (- m) = Some (T1 (seq 0 B) (fun bi => CI (tokn m bi)))).
    { intros m Hm. unfold wt.
      rewrite (select0_T2 _ _ _ _ O) by (cbv zeta; rewrite seq_length; replace (- m <? 0) with true by lia; lia).
      rewrite seq_length. replace (- m <? 0) with true by lia.
      rewrite seq_nth by lia. cbn [Nat.add]. f_equal. apply T1_ext. intros bi _. unfold tokn. f_equal. f_equal.
      lia. }
    rewrite (Hsel n Hn). cbn [bo].
    rewrite (repeat_interleave_nl B Vn _ _ HVn). cbn [bo].
    rewrite (Hsel (Z.min (n + 1) (N - 1))) by lia. cbn [bo].
    rewrite (T1_ext (nl B Vn) _ (fun e => CI (tok n e))).
    2:{ intros e He. apply nl_in in He as (bi & v & -> & _). reflexivity. }
    change (T1 (seq 0 B) (fun bi => CI (tokn (Z.min (n + 1) (N - 1)) bi))) with (T1 (seq 0 B) (fun bi => CI (tok n (bi, None)))).
    rewrite <- (T1_pl B (fun e => CI (tok n e))). rewrite cat0_T1. cbn [bo]. fold lanes.
    (* offsets[desc], offsets[desc + 1] *)
    assert (Hs1 : forall e, In e lanes -> 0 <= d e /\ d e + 1 < osize b).
    { intros e He. destruct (Hsafe e He) as (H1 & H2 & _). split; assumption. }
    rewrite (index1_ivec_T1 (offsets b) lanes d) by (intros e He; destruct (Hs1 e He); unfold osize in *; lia).
    cbn [bo]. rewrite as_int_T1. cbn [bo].
    unfold add. rewrite (bc2_T1 lanes addc _ _ (fun e => CI (st_of b (d e)))) by reflexivity. cbn [bo].
    unfold add_s at 1. rewrite (map_cells_T1 lanes _ _ (fun e => CI (d e + 1))) by reflexivity. cbn [bo].
    rewrite (index1_ivec_T1 (offsets b) lanes (fun e => d e + 1)) by (intros e He; destruct (Hs1 e He); unfold osize in *; lia).
    cbn [bo]. rewrite as_int_T1. cbn [bo].
    rewrite (bc2_T1 lanes addc _ _ (fun e => CI (zget (offsets b) (d e + 1) 0 + d e))) by reflexivity. cbn [bo].
    unfold add_s. rewrite (map_cells_T1 lanes _ _ (fun e => CI (en_of b (d e)))) by reflexivity. cbn [bo].
    (* pos_desc, the masks *)
    rewrite unsqueeze_T1. cbn [bo].
    rewrite (bc2_outer lanes (seq 0 Sn) addc _ _ (fun e k => CI (st_of b (d e) + Z.of_nat k))) by reflexivity. cbn [bo].
    rewrite unsqueeze_T1. cbn [bo].
    unfold gt. rewrite (bc2_rowwise lanes (seq 0 Sn) (cmpc Z.gtb) _ _
                          (fun e k => CB (en_of b (d e) >? st_of b (d e) + Z.of_nat k))) by reflexivity. cbn [bo].
    unfold clamp_max at 1. rewrite (map_cells_T2 lanes (seq 0 Sn) _ _
                          (fun e k => CI (Z.min (st_of b (d e) + Z.of_nat k) (psize b sh - 1)))) by reflexivity. cbn [bo].
    unfold sub_s. rewrite (map_cells_T2 lanes (seq 0 Sn) _ _
                          (fun e k => CI (Z.min (st_of b (d e) + Z.of_nat k) (psize b sh - 1) - usize sh))) by reflexivity. cbn [bo].
    rewrite (index1_ivec_T2 (ids b) lanes (seq 0 Sn)).
    2:{ intros e k He Hk. destruct (Hsafe e He) as (_ & _ & H3 & _). apply H3. apply in_seq in Hk. lia. }
    cbn [bo]. rewrite unsqueeze_T1. cbn [bo].
    unfold eq. rewrite (bc2_rowwise lanes (seq 0 Sn) (cmpc Z.eqb) _ _
                          (fun e k => CB (tok n e =? idat b sh (st_of b (d e) + Z.of_nat k)))) by reflexivity. cbn [bo].
    unfold band at 1. rewrite (bc2_T2 lanes (seq 0 Sn) andc _ _ (fun e k => CB (mm b sh (d e) (tok n e) k))) by reflexivity. cbn [bo].
    rewrite any1_T2. cbn [bo].
    set (f' := fun e => existsb (mm b sh (d e) (tok n e)) (seq 0 Sn) && f e).
    unfold band at 1. rewrite (bc2_T1 lanes andc _ _ (fun e => CB (f' e))) by reflexivity. cbn [bo].
    unfold invert at 1. rewrite (map_cells_T2 lanes (seq 0 Sn) _ _ (fun e k => CB (negb (mm b sh (d e) (tok n e) k)))) by reflexivity. cbn [bo].
    rewrite masked_fill_T2. cbn [bo].
    rewrite (T2_ext lanes (seq 0 Sn) _ (fun e k => CI (if mm b sh (d e) (tok n e) k then st_of b (d e) + Z.of_nat k else 0))).
    2:{ intros e k _ _. destruct (mm b sh (d e) (tok n e) k); reflexivity. }
    rewrite sum1_T2. cbn [bo].
    rewrite twhere_T1. cbn [bo].
    (* the new paths are the model's *)
    set (p' := fun e => ext b sh (path SS PP e) (tok n e)).
    assert (Hp' : forall e, p' e = ((if f' e then fold_right Z.add 0 (map (fun k => if mm b sh (d e) (tok n e) k then st_of b (d e) + Z.of_nat k else 0) (seq 0 Sn)) else d e), f' e)).
    { intros e. unfold p'. rewrite ext_tab. reflexivity. }
    rewrite (T1_ext lanes _ (fun e => CI (fst (p' e)))).
    2:{ intros e _. rewrite Hp'. cbn [fst]. destruct (f' e); reflexivity. }
    rewrite (T1_ext lanes (fun e => CB (f' e)) (fun e => CB (snd (p' e)))).
    2:{ intros e _. rewrite Hp'. reflexivity. }
    unfold lanes at 1 2 3 4.
    (* logps[desc[:M]] *)
    rewrite slice0_T1_front by (rewrite nl_length; lia). cbn [bo].
    rewrite (index1_fvec_T1 (logps b) (nl B Vn) (fun e => fst (p' e))).
    2:{ intros e He. assert (Hl : In e lanes) by (apply in_or_app; left; exact He).
        destruct (Hsafe e Hl) as (_ & _ & _ & H4). apply nl_in in He as (bi & v & -> & _). exact H4. }
    cbn [bo].
    set (cb := fun bi => if n =? N - 1 then Fin 0
                         else if snd (p' (bi, None)) then zget (logbs b) (Z.min (fst (p' (bi, None))) (osize b - 1)) NaN else Fin 0).
    assert (Hcb : (if n =? N - 1 then Some (zeros_like (T1 (nl B Vn) (fun e => CF (fl_of (lastb (SS (fst e) (vof e)))))))
                   else
                     do dm <- slice0 (T1 (nl B Vn ++ pl B) (fun e => CI (fst (p' e)))) (Some (Z.of_nat B * vocab sh)) None;
                     do cl <- clamp_max dm (osize b - 1);
                     do g <- index1 (fvec (logbs b)) cl;
                     do fm <- slice0 (T1 (nl B Vn ++ pl B) (fun e => CB (snd (p' e)))) (Some (Z.of_nat B * vocab sh)) None;
                     do ifm <- invert fm;
                     do mfb <- masked_fill g ifm (CF (FQ 0));
                     repeat_interleave mfb (vocab sh))
                  = Some (T1 (nl B Vn) (fun e => CF (fl_of (cb (fst e)))))).
    { subst cb. cbv beta. destruct (n =? N - 1) eqn:En.
      - rewrite zeros_like_T1. reflexivity.
      - rewrite slice0_T1_back by (rewrite nl_length; lia). cbn [bo].
        unfold clamp_max. rewrite (map_cells_T1 (pl B) _ _ (fun e => CI (Z.min (fst (p' e)) (osize b - 1)))) by reflexivity. cbn [bo].
        rewrite (index1_fvec_T1 (logbs b) (pl B) (fun e => Z.min (fst (p' e)) (osize b - 1))).
        2:{ intros e He. assert (Hl : In e lanes) by (apply in_or_app; right; exact He).
            destruct (Hsafe e Hl) as (_ & _ & _ & H4). apply pl_in in He as (bi & -> & _). cbn [snd] in H4. apply H4. exact En. }
        cbn [bo]. rewrite slice0_T1_back by (rewrite nl_length; lia). cbn [bo].
        unfold invert. rewrite (map_cells_T1 (pl B) _ _ (fun e => CB (negb (snd (p' e))))) by reflexivity. cbn [bo].
        rewrite masked_fill_T1. cbn [bo]. rewrite T1_pl.
        rewrite (repeat_interleave_nl B Vn _ _ HVn). f_equal. apply T1_ext. intros e _.
        destruct (snd (p' (fst e, None))); reflexivity. }
    rewrite Hcb. clear Hcb. cbn [bo].
    rewrite isfinite_T1. cbn [bo].
    rewrite slice0_T1_front by (rewrite nl_length; lia). cbn [bo].
    set (lpd := fun e => zget (logps b) (fst (p' e)) NaN).
    set (clob := fun e => vfinite (lpd e) && snd (p' e)).
    unfold band. rewrite (bc2_T1 (nl B Vn) andc _ _ (fun e => CB (clob e))) by reflexivity. cbn [bo].
    rewrite (bc2_T1 (nl B Vn) addc _ _ (fun e => CF (fl_of (vadd (lastp (SS (fst e) (vof e))) (cb (fst e)))))).
    2:{ intros e _. cbn [addc]. rewrite fadd_fl_of. reflexivity. }
    cbn [bo].
    rewrite (bc2_T1 (nl B Vn) addc _ _ (fun e => CF (fl_of (vadd (vadd (lastp (SS (fst e) (vof e))) (cb (fst e))) (lastb (SS (fst e) (vof e))))))).
    2:{ intros e _. cbn [addc]. rewrite fadd_fl_of. reflexivity. }
    cbn [bo].
    rewrite twhere_T1. cbn [bo].
    unfold invert. rewrite (map_cells_T1 (nl B Vn) _ _ (fun e => CB (negb (clob e)))) by reflexivity. cbn [bo].
    rewrite masked_fill_T1. cbn [bo].
    unfold ge_s. rewrite (map_cells_T1 (seq 0 B) _ _ (fun bi => CB (n <=? hx bi))) by reflexivity. cbn [bo].
    rewrite (repeat_interleave_nl B Vn _ _ HVn). cbn [bo].
    rewrite twhere_T1. cbn [bo].
    (* the four tensors are the tabulation of the model's step *)
    f_equal. unfold tab_state, lanes. f_equal.
    - apply T1_ext. intros e _. unfold path, p'. destruct e as [bi [v|]]; cbn [fst snd]; [|reflexivity].
      unfold step. cbn [dn]. reflexivity.
    - apply T1_ext. intros e _. unfold path, p'. destruct e as [bi [v|]]; cbn [fst snd]; reflexivity.
    - apply T1_ext. intros e He. apply nl_in in He as (bi & v & -> & _). cbn [fst snd vof].
      unfold step. cbn [lastp]. unfold clob, lpd, p', path, cb. cbn [fst snd]. rewrite Hcoh.
      destruct (n <=? hx bi); [|reflexivity].
      destruct (vfinite _ && snd _); reflexivity.
    - apply T1_ext. intros e He. apply nl_in in He as (bi & v & -> & _). cbn [fst snd vof].
      unfold step. cbn [lastb]. unfold clob, lpd, p', path, cb. cbn [fst snd]. rewrite Hcoh.
      destruct (vfinite _ && snd _); reflexivity.
  Qed.
End Body.

(* ---- the loop ---- *)
Section Loop.
  Variable b : bufs.
  Variable sh : shape.
  Variable B : nat.
  Variable ws : list (list Z).
  Variable hs : list Z.

  Let Vn := Z.to_nat (vocab sh).
  Let N := Z.of_nat (order sh).

  (* the model's descent with its lookahead, every index in range *)
  Fixpoint dsafe (hidx n : Z) (r : list Z) (s : pstate) : Prop :=
    match r with
    | [] => True
    | tn :: r' =>
        let tp := match r' with [] => tn | x :: _ => x end in
        let is_last := match r' with [] => true | _ => false end in
        lane_safe b sh n (dn s) tn true /\ lane_safe b sh n (dp s) tp false /\
        dsafe hidx (n + 1) r' (step b sh hidx n tn tp is_last s)
    end.

  Lemma tab_state_ext SS1 PP1 SS2 PP2 :
    (forall bi v, (bi < B)%nat -> (v < Vn)%nat -> SS1 bi v = SS2 bi v) ->
    (forall bi, (bi < B)%nat -> PP1 bi = PP2 bi) ->
    tab_state sh B SS1 PP1 = tab_state sh B SS2 PP2.
  Proof.
    intros HS HP. unfold tab_state. 
    assert (Hpath : forall e, In e (lanes sh B) -> path SS1 PP1 e = path SS2 PP2 e).
    { intros e He. unfold lanes in He. apply in_app_or in He as [He|He].
      - apply nl_in in He as (bi & v & -> & Hb & Hv). unfold path. cbn [fst snd]. rewrite HS by assumption. reflexivity.
      - apply pl_in in He as (bi & -> & Hb). unfold path. cbn [fst snd]. apply HP. assumption. }
    f_equal.
    - apply T1_ext. intros e He. rewrite Hpath by assumption. reflexivity.
    - apply T1_ext. intros e He. rewrite Hpath by assumption. reflexivity.
    - apply T1_ext. intros e He. apply nl_in in He as (bi & v & -> & Hb & Hv). cbn [fst snd vof]. rewrite HS by assumption. reflexivity.
    - apply T1_ext. intros e He. apply nl_in in He as (bi & v & -> & Hb & Hv). cbn [fst snd vof]. rewrite HS by assumption. reflexivity.
  Qed.

  Lemma skipn_nth_cons (r : list Z) : forall k, (k < length r)%nat -> skipn k r = nth k r 0 :: skipn (S k) r.
  Proof.
    induction r as [|x r IH]; intros k Hk; cbn in Hk; [lia|]. destruct k as [|k]; [reflexivity|].
    cbn [skipn nth]. apply IH. lia.
  Qed.

  Lemma rev_window (w : list Z) (n : Z) : length w = (order sh - 1)%nat -> 1 <= n <= N - 1 ->
    skipn (Z.to_nat n - 1) (rev w) = nth (order sh - 1 - Z.to_nat n) w 0 :: skipn (Z.to_nat n) (rev w).
  Proof.
    intros Hl Hn. assert (HN : N = Z.of_nat (order sh)) by reflexivity.
    assert (Hlr : length (rev w) = (order sh - 1)%nat) by (rewrite rev_length; exact Hl).
    rewrite skipn_nth_cons by lia. replace (S (Z.to_nat n - 1)) with (Z.to_nat n) by lia. f_equal.
    rewrite rev_nth by lia. f_equal. lia.
  Qed.

  Lemma loop_tab : forall (k : nat) (n : Z) SS PP,
    Z.of_nat k = N - n -> 1 <= n -> 1 <= vocab sh ->
    (forall bi, (bi < B)%nat -> length (win ws bi) = (order sh - 1)%nat) ->
    (forall bi v, dp (SS bi v) = PP bi) ->
    (forall bi v, (bi < B)%nat -> (v < Vn)%nat ->
       dsafe (hx hs bi) n (skipn (Z.to_nat n - 1) (rev (win ws bi))) (SS bi v)) ->
    exists PP',
    loop_fn (cst b sh B ws hs) (zrange_z n N) (tab_state sh B SS PP) =
    Some (tab_state sh B (fun bi v => descend b sh (hx hs bi) n (skipn (Z.to_nat n - 1) (rev (win ws bi))) (SS bi v)) PP').
  Proof.
    assert (HN : N = Z.of_nat (order sh)) by reflexivity.
    induction k as [|k IH]; intros n SS PP Hk Hn HV Hlen Hcoh Hsafe.
    - exists PP. unfold zrange_z. replace (Z.to_nat (N - n)) with O by lia. cbn [seq map loop_fn].
      f_equal. apply tab_state_ext; [|reflexivity]. intros bi v Hb Hv.
      rewrite skipn_all2 by (rewrite rev_length, Hlen by assumption; lia). reflexivity.
    - unfold zrange_z. replace (Z.to_nat (N - n)) with (S k) by lia. cbn [seq map loop_fn].
      replace (n + Z.of_nat 0) with n by lia.
      rewrite (body_tab b sh B ws hs n SS PP); [ | lia | lia | assumption | ].
      2:{ intros e He. unfold lanes in He. apply in_app_or in He as [He|He].
          - apply nl_in in He as (bi & v & -> & Hb & Hv). specialize (Hsafe bi v Hb Hv).
            rewrite (rev_window (win ws bi) n) in Hsafe by (try apply Hlen; try assumption; lia).
            cbn [dsafe] in Hsafe. destruct Hsafe as (H1 & _ & _). unfold path, tok. cbn [fst snd]. exact H1.
          - apply pl_in in He as (bi & -> & Hb).
            assert (Hv : (0 < Vn)%nat) by (unfold Vn; lia). specialize (Hsafe bi O Hb Hv).
            rewrite (rev_window (win ws bi) n) in Hsafe by (try apply Hlen; try assumption; lia).
            cbn [dsafe] in Hsafe. destruct Hsafe as (_ & H2 & _). unfold path, tok. cbn [fst snd].
            rewrite Hcoh in H2. unfold tokp, tokn.
            destruct (Z.eq_dec n (N - 1)) as [E|E].
            + rewrite skipn_all2 in H2 by (rewrite rev_length, Hlen by assumption; lia).
              replace (Z.min (n + 1) (Z.of_nat (order sh) - 1)) with n by lia. exact H2.
            + pose proof (rev_window (win ws bi) (n + 1) (Hlen bi Hb) ltac:(lia)) as Hw.
              replace (Z.to_nat (n + 1) - 1)%nat with (Z.to_nat n) in Hw by lia. rewrite Hw in H2.
              replace (Z.min (n + 1) (Z.of_nat (order sh) - 1)) with (n + 1) by lia. exact H2. }
      cbn [bo].
      match goal with |- context [tab_state sh B ?S1 ?P1] => set (SS1 := S1); set (PP1 := P1) end.
      destruct (IH (n + 1) SS1 PP1) as (PP' & R); try lia; try assumption.
      { intros bi v. unfold SS1, PP1, step. cbn [dp]. rewrite Hcoh. reflexivity. }
      { intros bi v Hb Hv. specialize (Hsafe bi v Hb Hv).
        rewrite (rev_window (win ws bi) n) in Hsafe by (try apply Hlen; try assumption; lia).
        cbn [dsafe] in Hsafe. destruct Hsafe as (_ & _ & H3).
        replace (Z.to_nat (n + 1) - 1)%nat with (Z.to_nat n) by lia. unfold SS1.
        assert (Htp : (match skipn (Z.to_nat n) (rev (win ws bi)) with [] => nth (order sh - 1 - Z.to_nat n) (win ws bi) 0 | x :: _ => x end) = tokp sh ws n bi
                      /\ (match skipn (Z.to_nat n) (rev (win ws bi)) with [] => true | _ => false end) = (n =? N - 1)).
        { unfold tokp, tokn. destruct (Z.eq_dec n (N - 1)) as [E|E].
          - rewrite skipn_all2 by (rewrite rev_length, Hlen by assumption; lia).
            replace (Z.min (n + 1) (Z.of_nat (order sh) - 1)) with n by lia. split; [reflexivity|lia].
          - pose proof (rev_window (win ws bi) (n + 1) (Hlen bi Hb) ltac:(lia)) as Hw.
            replace (Z.to_nat (n + 1) - 1)%nat with (Z.to_nat n) in Hw by lia. rewrite Hw.
            replace (Z.min (n + 1) (Z.of_nat (order sh) - 1)) with (n + 1) by lia. split; [reflexivity|lia]. }
        destruct Htp as [Ht1 Ht2]. rewrite Ht1, Ht2 in H3. exact H3. }
      exists PP'. change (map (fun i => n + Z.of_nat i) (seq 1 k)) with (map (fun i => n + Z.of_nat i) (seq 1 k)).
      assert (Hz : map (fun i => n + Z.of_nat i) (seq 1 k) = zrange_z (n + 1) N).
      { unfold zrange_z. replace (Z.to_nat (N - (n + 1))) with k by lia. rewrite <- seq_shift, map_map.
        apply map_ext. intros i. lia. }
      rewrite Hz, R. f_equal. apply tab_state_ext; [|reflexivity]. intros bi v Hb Hv.
      replace (Z.to_nat (n + 1) - 1)%nat with (Z.to_nat n) by lia.
      rewrite (rev_window (win ws bi) n) by (try apply Hlen; try assumption; lia). cbn [descend].
      unfold SS1. f_equal.
      unfold tokp, tokn. destruct (Z.eq_dec n (N - 1)) as [E|E].
      + rewrite skipn_all2 by (rewrite rev_length, Hlen by assumption; lia).
        replace (Z.min (n + 1) (Z.of_nat (order sh) - 1)) with n by lia. f_equal. lia.
      + pose proof (rev_window (win ws bi) (n + 1) (Hlen bi Hb) ltac:(lia)) as Hw.
        replace (Z.to_nat (n + 1) - 1)%nat with (Z.to_nat n) in Hw by lia. rewrite Hw.
        replace (Z.min (n + 1) (Z.of_nat (order sh) - 1)) with (n + 1) by lia. f_equal. lia.
  Qed.
End Loop.

Lemma nth_map_lt {A C} (f : A -> C) (l : list A) i d d' : (i < length l)%nat -> nth i (map f l) d' = f (nth i l d).
Proof. intros H. rewrite (nth_indep _ d' (f d)) by (rewrite map_length; lia). apply map_nth. Qed.

(* ---- everything after the context window ---- *)
Section Main.
  Variable b : bufs.
  Variable sh : shape.
  Variable B : nat.

  Let Vn := Z.to_nat (vocab sh).
  Let Sn := maxdesc sh.
  Let N := Z.of_nat (order sh).

  (* the state the descent of (batch element, candidate v) starts in *)
  Definition init_st (w : list Z) (v : Z) : pstate :=
    let h1 := hd 0 (rev w) in mkSt (v, true) (h1, true) (zget (logps b) v NaN) (zget (logbs b) h1 NaN).

  (* every index the lookup of one (window, candidate) forms lies inside its buffer *)
  Definition lookup1_safe (hidx : Z) (w : list Z) (v : Z) : Prop :=
    0 <= hd 0 (rev w) < zlen (logbs b) /\ dsafe b sh hidx 1 (rev w) (init_st w v).

  Lemma arange_T1 (m : nat) : arange (Z.of_nat m) = Some (T1 (seq 0 m) (fun i => CI (Z.of_nat i))).
  Proof. unfold arange, T1. replace (0 <=? Z.of_nat m) with true by lia. rewrite Nat2Z.id, seq_length. reflexivity. Qed.

  Lemma T1_seq_split (m k : nat) (F : nat -> cell) : (k <= m)%nat ->
    T1 (seq 0 m) F = T1 (seq 0 k ++ seq k (m - k)) F.
  Proof. intros H. rewrite <- seq_app. replace (k + (m - k))%nat with m by lia. reflexivity. Qed.

  Lemma ones_lanes : 0 <= vocab sh ->
    ones_bool (Z.of_nat B * vocab sh + Z.of_nat B) = Some (T1 (lanes sh B) (fun _ => CB true)).
  Proof.
    intros HV.
    assert (Hl : Z.to_nat (Z.of_nat B * vocab sh + Z.of_nat B) = length (lanes sh B)).
    { unfold lanes. rewrite app_length, nl_length, pl_length. lia. }
    unfold ones_bool, full, T1. cbn [nats_of].
    replace (0 <=? Z.of_nat B * vocab sh + Z.of_nat B) with true by lia. cbn [option_map prodn fold_right].
    rewrite Hl, Nat.mul_1_r. f_equal. f_equal.
    generalize (lanes sh B). intros l. induction l as [|e l IH]; [reflexivity|]. cbn. rewrite IH. reflexivity.
  Qed.

  Lemma view_rows (F : lane -> cell) : 0 <= vocab sh ->
    view (T1 (nl B Vn) F) [Z.of_nat B; vocab sh] = Some (T6 [B; Vn] (map F (nl B Vn))).
  Proof.
    intros HV. unfold view, T1. cbn [nats_of]. replace (0 <=? Z.of_nat B) with true by lia.
    replace (0 <=? vocab sh) with true by lia. cbn [option_map numel sh6 dt6 prodn fold_right].
    rewrite nl_length, Nat2Z.id. fold Vn. replace (B * (Vn * 1) =? B * Vn * 1)%nat with true by lia. reflexivity.
  Qed.

  Variable ws0 : list (list Z).      (* the windows as sliced from the (padded) history *)
  Variable hexp : list Z.            (* hidx.expand(B) *)

  Let ws := map (mapwin sh) ws0.

  Lemma main_tab (histT hidxT : tens6) (rem hmin : Z) :
    (2 <= order sh)%nat -> 1 <= vocab sh -> vocab sh <= zlen (logps b) -> Z.of_nat Sn <= vocab sh + 1 ->
    length ws0 = B -> (forall bi, (bi < B)%nat -> length (nth bi ws0 []) = (order sh - 1)%nat) ->
    window_fn histT hidxT (Z.of_nat B) N rem hmin = Some (wt sh B ws0) ->
    (do hi <- as_int hidxT; expand hi [Z.of_nat B]) = Some (T1 (seq 0 B) (fun bi => CI (hx hexp bi))) ->
    (forall bi v, (bi < B)%nat -> (v < Vn)%nat -> lookup1_safe (hx hexp bi) (win ws bi) (Z.of_nat v)) ->
    main_fn histT hidxT (ivec (offsets b)) (ivec (ids b)) (fvec (logps b)) (fvec (logbs b))
      (T1 (seq 0 Vn) (fun v => CF (fl_of (zget (logps b) (Z.of_nat v) NaN))))
      (sos sh) (vocab sh) N (Z.of_nat Sn) (Z.of_nat B) (Z.of_nat B * vocab sh) (osize b) (psize b sh) (usize sh)
      (shiftz (vocab sh) (sos sh)) hmin rem
    = Some (T6 [B; Vn]
              (map (fun e => CF (fl_of (lookup1 b sh (hx hexp (fst e)) (win ws (fst e)) (Z.of_nat (vof e))))) (nl B Vn))).
  Proof.
    intros HN2 HV HVP HS Hlw Hlen Hwin Hexp Hsafe.
    assert (HNz : N = Z.of_nat (order sh)) by reflexivity.
    assert (HVn : vocab sh = Z.of_nat Vn) by (unfold Vn; lia).
    unfold main_fn. rewrite Hwin. cbn [bo].
    (* assert hist.shape == (N - 1, B) *)
    unfold wt at 1. cbn [sh6 T2]. rewrite !seq_length.
    replace (Z.to_nat (N - 1)) with (order sh - 1)%nat by lia. rewrite Nat2Z.id. cbn [shape_eqb].
    rewrite !Nat.eqb_refl. replace (0 <=? N - 1) with true by lia. replace (0 <=? Z.of_nat B) with true by lia.
    cbn [andb negb].
    (* if shift: hist = hist.masked_fill(hist.eq(sos), V) *)
    assert (Hmap : (if negb (shiftz (vocab sh) (sos sh) =? 0)
                    then do e <- eq_s (wt sh B ws0) (sos sh); masked_fill (wt sh B ws0) e (CI (vocab sh))
                    else Some (wt sh B ws0)) = Some (wt sh B ws)).
    { unfold shiftz. assert (Hws : forall bi, win ws bi = mapwin sh (win ws0 bi)).
      { intros bi. unfold win, ws. destruct (Nat.lt_ge_cases bi (length ws0)) as [Hb|Hb].
        - rewrite (nth_indep _ [] (mapwin sh [])) by (rewrite map_length; exact Hb). apply map_nth.
        - rewrite !nth_overflow by (try rewrite map_length; exact Hb). unfold mapwin. destruct (shiftb _ _); reflexivity. }
      destruct (shiftb (vocab sh) (sos sh)) eqn:Esh; cbn [Z.eqb negb].
      - unfold eq_s, wt. rewrite (map_cells_T2 _ _ _ _ (fun i bi => CB (nth i (win ws0 bi) 0 =? sos sh))) by reflexivity.
        cbn [bo]. rewrite masked_fill_T2. f_equal. apply T2_ext. intros i bi Hi Hb. apply in_seq in Hi, Hb.
        rewrite Hws. unfold mapwin. rewrite Esh.
        rewrite (nth_map_lt (fun x => if x =? sos sh then vocab sh else x) (win ws0 bi) i 0 0)
          by (unfold win; rewrite Hlen by lia; lia). destruct (nth i (win ws0 bi) 0 =? sos sh); reflexivity.
      - f_equal. unfold wt. apply T2_ext. intros i bi _ _. rewrite Hws. unfold mapwin. rewrite Esh. reflexivity. }
    rewrite Hmap. clear Hmap. cbn [bo].
    change (as_int (ivec (ids b))) with (as_int (T1 (ids b) (fun z => CI z))). rewrite as_int_T1. cbn [bo].
    unfold wt at 1. unfold as_int at 1. rewrite (map_cells_T2 _ _ _ _ (fun i bi => CI (nth i (win ws bi) 0))) by reflexivity.
    cbn [bo]. fold (wt sh B ws).
    (* vrange, hidx, srange *)
    replace (vocab sh + 1) with (Z.of_nat (Vn + 1)) by lia. rewrite arange_T1. cbn [bo].
    destruct (as_int hidxT) as [hi|]; [|discriminate Hexp]. cbn [bo] in Hexp |- *. rewrite Hexp. cbn [bo].
    rewrite (T1_seq_split (Vn + 1) Sn) by (unfold Sn in *; lia).
    rewrite slice0_T1_front by (rewrite seq_length; reflexivity). cbn [bo].
    rewrite <- (T1_seq_split (Vn + 1) Sn) by (unfold Sn in *; lia).
    rewrite (T1_seq_split (Vn + 1) Vn) by lia.
    rewrite slice0_T1_front by (rewrite seq_length; lia). cbn [bo].
    rewrite repeat1_nl. cbn [bo].
    (* hist[-1] *)
    assert (Hh1 : select0 (wt sh B ws) (- (1)) = Some (T1 (seq 0 B) (fun bi => CI (tokn sh ws 1 bi)))).
    { unfold wt. rewrite (select0_T2 _ _ _ _ O) by (cbv zeta; rewrite seq_length; replace (- (1) <? 0) with true by lia; lia).
      rewrite seq_length. replace (- (1) <? 0) with true by lia. rewrite seq_nth by lia. cbn [Nat.add].
      f_equal. apply T1_ext. intros bi _. unfold tokn. f_equal. f_equal. lia. }
    change (Z.opp 1) with (- (1)). rewrite Hh1. cbn [bo]. rewrite as_int_T1. cbn [bo].
    set (SS0 := fun bi v => init_st (win ws bi) (Z.of_nat v)).
    set (PP0 := fun bi : nat => (tokn sh ws 1 bi, true)).
    assert (Hhd : forall bi, (bi < B)%nat -> hd 0 (rev (win ws bi)) = tokn sh ws 1 bi).
    { intros bi Hb. unfold tokn. assert (Hl : length (win ws bi) = (order sh - 1)%nat).
      { unfold win, ws. rewrite (nth_indep _ [] (mapwin sh [])) by (rewrite map_length; lia).
        rewrite map_nth, mapwin_length. apply Hlen. exact Hb. }
      rewrite <- (rev_involutive (win ws bi)) at 2. rewrite rev_nth by (rewrite rev_length; lia).
      rewrite rev_length, Hl. replace (order sh - 1 - S (order sh - 1 - Z.to_nat 1))%nat with O by lia.
      destruct (rev (win ws bi)); reflexivity. }
    rewrite (T1_ext (nl B Vn) _ (fun e => CI (fst (path SS0 PP0 e)))).
    2:{ intros e He. apply nl_in in He as (bi & v & -> & _). reflexivity. }
    change (T1 (seq 0 B) (fun bi => CI (tokn sh ws 1 bi))) with (T1 (seq 0 B) (fun bi => CI (fst (path SS0 PP0 (bi, None))))).
    rewrite <- (T1_pl B (fun e => CI (fst (path SS0 PP0 e)))). rewrite cat0_T1. cbn [bo].
    (* last_logps, last_backoffs, found *)
    replace (Z.of_nat B) with (Z.of_nat B) at 1 by reflexivity.
    rewrite repeat1_nl. cbn [bo].
    rewrite slice0_T1_back by (rewrite nl_length; lia). cbn [bo].
    rewrite (index1_fvec_T1 (logbs b) (pl B) (fun e => fst (path SS0 PP0 e))).
    2:{ intros e He. apply pl_in in He as (bi & -> & Hb). unfold path, PP0. cbn [fst snd].
        assert (Hv : (0 < Vn)%nat) by lia. destruct (Hsafe bi O Hb Hv) as [H1 _]. rewrite Hhd in H1 by exact Hb. exact H1. }
    cbn [bo]. rewrite T1_pl. rewrite (repeat_interleave_nl B Vn _ _ HVn). cbn [bo].
    rewrite ones_lanes by lia. cbn [bo].
    (* the loop *)
    assert (Hst : LS (T1 (nl B Vn ++ pl B) (fun e => CI (fst (path SS0 PP0 e)))) (T1 (lanes sh B) (fun _ => CB true))
                     (T1 (nl B Vn) (fun e => CF (fl_of (zget (logps b) (Z.of_nat (vof e)) NaN))))
                     (T1 (nl B Vn) (fun e => CF (fl_of (zget (logbs b) (fst (path SS0 PP0 (fst e, None))) NaN))))
                  = tab_state sh B SS0 PP0).
    { unfold tab_state. fold Vn. f_equal.
      - apply T1_ext. intros e He. unfold lanes in He. apply in_app_or in He as [He|He].
        + apply nl_in in He as (bi & v & -> & _). reflexivity.
        + apply pl_in in He as (bi & -> & _). reflexivity.
      - apply T1_ext. intros e He. apply nl_in in He as (bi & v & -> & Hb & _). unfold SS0, init_st, path, PP0. cbn [fst snd vof lastb].
        rewrite Hhd by exact Hb. reflexivity. }
    rewrite Hst. clear Hst.
    change (LC (wt sh B ws) (T1 (seq 0 B) (fun bi => CI (hx hexp bi))) (ivec (offsets b)) (ivec (ids b)) (fvec (logps b))
               (fvec (logbs b)) (T1 (seq 0 Sn) (fun i => CI (Z.of_nat i))) (vocab sh) N (Z.of_nat B * vocab sh) (osize b)
               (psize b sh) (usize sh) (Z.of_nat B)) with (cst b sh B ws hexp).
    destruct (loop_tab b sh B ws hexp (order sh - 1) 1 SS0 PP0) as (PP' & R); try lia.
    { intros bi Hb. unfold win, ws. rewrite (nth_indep _ [] (mapwin sh [])) by (rewrite map_length; lia).
      rewrite map_nth, mapwin_length. apply Hlen. exact Hb. }
    { intros bi v. unfold SS0, init_st, PP0. cbn [dp]. f_equal.
      destruct (Nat.lt_ge_cases bi B) as [Hb|Hb]; [apply Hhd; exact Hb|].
      unfold tokn, win, ws. rewrite !(nth_overflow (map (mapwin sh) ws0)) by (rewrite map_length; lia). cbn [rev hd]. match goal with |- context [nth ?k [] 0] => destruct k end; reflexivity. }
    { intros bi v Hb Hv. cbn [Z.to_nat Pos.to_nat Pos.iter_op Nat.sub skipn]. apply (Hsafe bi v Hb Hv). }
    unfold N. rewrite R. cbn [bo l_lastp tab_state]. fold Vn.
    rewrite view_rows by lia. reflexivity.
  Qed.
End Main.
