(* C19 - property theorems (stage 1 placeholder) *)
From PV Require Import C19.Model C19.Spec C19.Proofs.
Theorem c19_stage1_placeholder : True. Proof. exact placeholder_true. Qed.
Print Assumptions c19_stage1_placeholder.
