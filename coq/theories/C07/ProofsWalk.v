(* C07 - RandomWalk: length/eos bookkeeping, the log-probability chain, and the agreement with
   the distribution wrapper's log_prob. *)
From Coq Require Import List ZArith Bool Arith Lia.
From PV Require Import C07.Model C07.Spec C07.Lib C07.ProofsSlp.
Import ListNotations.

Lemma nth_repeat' {X} (x d : X) n N : n < N -> nth n (repeat x N) d = x.
Proof. revert n; induction N as [|N IH]; intros [|n] H; cbn; try lia; [reflexivity|apply IH; lia]. Qed.

Lemma all_some_spec {X} (d : X) : forall (l : list (option X)) r,
  all_some l = Some r ->
  length r = length l /\ forall n, n < length l -> nth n l None = Some (nth n r d).
Proof.
  induction l as [|o l IH]; intros r H; cbn in H.
  - injection H as <-. split; [reflexivity|cbn; lia].
  - destruct o as [x|]; [|discriminate]. destruct (all_some l) as [r'|]; [|discriminate].
    injection H as <-. destruct (IH r' eq_refl) as [Hl Hn]. split; [cbn; lia|].
    intros [|n] Hlt; [reflexivity|]. cbn in *. apply Hn. lia.
Qed.

Lemma list_max_ge x l : In x l -> x <= list_max l.
Proof.
  induction l as [|y l IH]; intros H; [destruct H|].
  change (list_max (y :: l)) with (Nat.max y (list_max l)).
  destruct H as [->|H]; [lia|]. specialize (IH H). lia.
Qed.

Lemma all_true_false l : all_true l = false -> exists n, n < length l /\ nth n l false = false.
Proof.
  induction l as [|b l IH]; intros H; [discriminate|].
  cbn in H. destruct b.
  - destruct (IH H) as (n & Hn & Hf). exists (S n). split; [cbn; lia|exact Hf].
  - exists 0. split; [cbn; lia|reflexivity].
Qed.

Lemma all_true_nth l n : all_true l = true -> n < length l -> nth n l false = true.
Proof.
  revert n; induction l as [|b l IH]; intros n H Hn; [cbn in Hn; lia|].
  cbn in H. apply andb_true_iff in H as [Hb Hl]. destruct n; [exact Hb|]. apply IH; [exact Hl|cbn in Hn; lia].
Qed.

Lemma map2_seq_id {X} (f : nat -> X -> X) : forall (y : list X) s d,
  (forall r, r < length y -> f (s + r) (nth r y d) = nth r y d) ->
  map2 f (seq s (length y)) y = y.
Proof.
  induction y as [|x y IH]; intros s d H; [reflexivity|].
  cbn [length seq map2]. f_equal.
  - specialize (H 0). cbn in H. rewrite Nat.add_0_r in H. apply H. lia.
  - apply (IH (S s) d). intros r Hr. specialize (H (S r)). cbn in H.
    rewrite Nat.add_succ_r in H. apply H. lia.
Qed.

Lemma map3_id {X Y} (f : X -> Y -> Y -> Y) : forall (l1 : list X) (l2 l3 : list Y) dx dy,
  length l1 = length l3 -> length l2 = length l3 ->
  (forall n, n < length l3 -> f (nth n l1 dx) (nth n l2 dy) (nth n l3 dy) = nth n l3 dy) ->
  map3 f l1 l2 l3 = l3.
Proof.
  induction l1 as [|x l1 IH]; intros [|y l2] [|u l3] dx dy H1 H2 H; try discriminate; [reflexivity|].
  cbn [map3]. f_equal.
  - apply (H 0). cbn; lia.
  - apply (IH l2 l3 dx dy); [cbn in *; lia..|].
    intros n Hn. apply (H (S n)). cbn; lia.
Qed.

Lemma canonical_no_eos e s : first_eos e s = None -> canonical e s = true.
Proof.
  induction s as [|k t IH]; intros H; [reflexivity|]. cbn in *.
  destruct (k =? e)%Z; [discriminate|]. apply IH. destruct (first_eos e t); [discriminate|reflexivity].
Qed.

Lemma canonical_nth e : forall s i r, first_eos e s = Some i -> canonical e s = true ->
  i <= r -> r < length s -> nth r s 0%Z = e.
Proof.
  induction s as [|k t IH]; intros i r Hf Hc Hir Hr; [cbn in Hr; lia|]. cbn in *.
  destruct (k =? e)%Z eqn:E.
  - injection Hf as <-. destruct r; [apply Z.eqb_eq; exact E|].
    rewrite forallb_forall in Hc. specialize (Hc (nth r t 0%Z)).
    symmetry. apply Z.eqb_eq. apply Hc. apply nth_In. lia.
  - destruct (first_eos e t) as [j|] eqn:F; [|discriminate]. cbn in Hf. injection Hf as <-.
    destruct r; [lia|]. apply (IH j r eq_refl Hc); lia.
Qed.

Lemma first_eos_snoc_none e : forall s k, first_eos e s = None ->
  first_eos e (s ++ [k]) = if (k =? e)%Z then Some (length s) else None.
Proof.
  induction s as [|x t IH]; intros k H; cbn in *.
  - destruct (k =? e)%Z; reflexivity.
  - destruct (x =? e)%Z; [discriminate|].
    destruct (first_eos e t); [discriminate|]. rewrite (IH k eq_refl).
    destruct (k =? e)%Z; reflexivity.
Qed.

Lemma first_eos_app_some e : forall s u i, first_eos e s = Some i -> first_eos e (s ++ u) = Some i.
Proof.
  induction s as [|x t IH]; intros u i H; cbn in *; [discriminate|].
  destruct (x =? e)%Z; [exact H|].
  destruct (first_eos e t) as [j|]; [|discriminate]. rewrite (IH u j eq_refl). exact H.
Qed.

Lemma canonical_snoc_none e : forall s k, first_eos e s = None -> canonical e (s ++ [k]) = true.
Proof.
  induction s as [|x t IH]; intros k H; cbn in *.
  - destruct (k =? e)%Z; reflexivity.
  - destruct (x =? e)%Z; [discriminate|]. apply IH. destruct (first_eos e t); [discriminate|reflexivity].
Qed.

Lemma canonical_snoc_some e : forall s i, first_eos e s = Some i -> canonical e s = true ->
  canonical e (s ++ [e]) = true.
Proof.
  induction s as [|x t IH]; intros i Hf Hc; cbn in *; [discriminate|].
  destruct (x =? e)%Z.
  - rewrite forallb_app, Hc. cbn. rewrite Z.eqb_refl. reflexivity.
  - destruct (first_eos e t) as [j|]; [|discriminate]. apply (IH j eq_refl Hc).
Qed.

Section Walk.
  Context {A : Type} (op : A -> A -> A) (unit : A).
  Hypothesis unit_l : forall x, op unit x = x.
  Hypothesis unit_r : forall x, op x unit = x.
  Hypothesis op_assoc : forall x y z, op x (op y z) = op (op x y) z.

  Variable lm : nat -> list Z -> list A.
  Variable V : Z.

  (* ---------- the declarative sum under extension of the path ------------------------------- *)

  Definition open_path (eos : option Z) (col : list Z) : Prop :=
    match eos with None => True | Some e => first_eos e col = None end.

  Lemma spec_slp_snoc_open eos : forall col rows r k,
    open_path eos col -> length rows = length col ->
    spec_slp op unit V eos (rows ++ [r]) (col ++ [k]) =
    op (spec_slp op unit V eos rows col) (if in_vocab V k then nth (Z.to_nat k) r unit else unit).
  Proof.
    induction col as [|c col IH]; intros rows r k Ho Hl.
    - destruct rows; [|discriminate]. cbn [app spec_slp].
      assert (E : match eos with Some e => if (k =? e)%Z then unit else unit | None => unit end = unit)
        by (destruct eos as [e|]; [destruct (k =? e)%Z|]; reflexivity).
      rewrite E.
      rewrite unit_l. destruct (in_vocab V k); [apply unit_r|reflexivity].
    - destruct rows as [|rw rows]; [discriminate|]. cbn [app spec_slp].
      assert (Ho' : open_path eos col /\ match eos with Some e => (c =? e)%Z = false | None => True end).
      { destruct eos as [e|]; cbn in *; [|split; exact I].
        destruct (c =? e)%Z; [discriminate|]. destruct (first_eos e col); [discriminate|]. split; reflexivity. }
      destruct Ho' as [Ho1 Ho2].
      rewrite (IH rows r k Ho1) by (cbn in Hl; lia).
      destruct eos as [e|]; [rewrite Ho2|]; destruct (in_vocab V c); try reflexivity; apply op_assoc.
  Qed.

  Lemma spec_slp_closed e : forall col rows rs ks i,
    first_eos e col = Some i -> length rows = length col ->
    spec_slp op unit V (Some e) (rows ++ rs) (col ++ ks) = spec_slp op unit V (Some e) rows col.
  Proof.
    induction col as [|c col IH]; intros rows rs ks i Hf Hl; [discriminate|].
    destruct rows as [|rw rows]; [discriminate|]. cbn [app spec_slp]. cbn in Hf.
    destruct (c =? e)%Z; [reflexivity|].
    destruct (first_eos e col) as [j|]; [|discriminate].
    rewrite (IH rows rs ks j eq_refl) by (cbn in Hl; lia). reflexivity.
  Qed.

  Lemma spec_slp_more_rows eos : forall col rows rs, length rows = length col ->
    spec_slp op unit V eos (rows ++ rs) col = spec_slp op unit V eos rows col.
  Proof.
    induction col as [|c col IH]; intros rows rs Hl.
    - destruct rows; [|discriminate]. destruct rs; reflexivity.
    - destruct rows as [|rw rows]; [discriminate|]. cbn [app spec_slp].
      rewrite IH by (cbn in Hl; lia). reflexivity.
  Qed.

  Lemma lm_rows_length n s : length (lm_rows lm n s) = length s.
  Proof. unfold lm_rows. now rewrite map_length, seq_length. Qed.

  Lemma lm_rows_app n s u : lm_rows lm n (s ++ u) =
    lm_rows lm n s ++ map (fun i => lm n (firstn i (s ++ u))) (seq (length s) (length u)).
  Proof.
    unfold lm_rows. rewrite app_length, seq_app, map_app. f_equal.
    apply map_ext_in. intros i Hi. apply in_seq in Hi. rewrite firstn_app_le by lia. reflexivity.
  Qed.

  Lemma lm_rows_snoc n s k : lm_rows lm n (s ++ [k]) = lm_rows lm n s ++ [lm n s].
  Proof. rewrite lm_rows_app. cbn. rewrite firstn_app_exact. reflexivity. Qed.

  (* ---------- invariants ---------------------------------------------------------------------------- *)

  Variable eos : option Z.
  Variable N : nat.

  Definition col_inv (n t : nat) (col : list Z) (len : nat) (fin : bool) (lp : A) : Prop :=
    length col = t /\
    lp = spec_slp op unit V eos (lm_rows lm n col) col /\
    match eos with
    | None => fin = false /\ len = t
    | Some e => if fin then exists i, first_eos e col = Some i /\ len = i + 1 /\ canonical e col = true
                else first_eos e col = None /\ len = t
    end.

  Definition Inv (done : list (list Z)) (st : wstate) : Prop :=
    wy st = done /\ (forall d, In d done -> length d = N) /\
    length (wlens st) = N /\ length (wfin st) = N /\ length (wlp st) = N /\
    forall n, n < N ->
      col_inv n (length done) (column 0%Z n done) (nth n (wlens st) 0) (nth n (wfin st) false)
              (nth n (wlp st) unit).

  Lemma inv_init : Inv [] (init_state unit N).
  Proof.
    unfold Inv, init_state. cbn [wy wlens wfin wlp]. rewrite !repeat_length.
    split; [reflexivity|]. split; [intros d []|]. split; [reflexivity|]. split; [reflexivity|].
    split; [reflexivity|].
    intros n Hn. unfold col_inv. rewrite !nth_repeat' by exact Hn. cbn.
    repeat split. destruct eos; split; reflexivity.
  Qed.

  Local Notation draw_ok := (draw_ok V N).

  Lemma draw_ok_nth d n : draw_ok d -> n < N -> in_vocab V (nth n d 0%Z) = true.
  Proof.
    intros [Hl Hf] Hn. rewrite forallb_forall in Hf. apply Hf. apply nth_In. lia.
  Qed.

  (* the buffer logic of random_walk_advance never changes what was drawn *)
  Lemma rw_advance_id done st d vals :
    Inv done st -> draw_ok d -> all_true (wfin st) = false ->
    all_some (map3 (ext_val unit eos) (wfin st)
                   (map (fun n => lm n (column 0%Z n (wy st))) (seq 0 N)) d) = Some vals ->
    rw_advance (wy st) (wlens st) d = done ++ [d].
  Proof.
    intros (Hy & Hrows & Hl1 & Hl2 & Hl3 & Hcol) [Hd Hdv] Hnf Hv.
    rewrite Hy. unfold rw_advance. destruct done as [|d0 done'] eqn:Ed; [reflexivity|].
    rewrite <- Ed in *. clear Ed d0 done'.
    destruct (all_true_false _ Hnf) as (n0 & Hn0 & Hf0). rewrite Hl2 in Hn0.
    assert (Hmax : length done <= list_max (wlens st)).
    { destruct (Hcol n0 Hn0) as (_ & _ & Hc). rewrite Hf0 in Hc.
      assert (nth n0 (wlens st) 0 = length done) as <- by (destruct eos; destruct Hc; assumption).
      apply list_max_ge, nth_In. lia. }
    apply Nat.leb_le in Hmax. rewrite Hmax.
    unfold scatter0.
    apply (map2_seq_id _ (done ++ [d]) 0 []).
    intros r Hr. cbn [Nat.add].
    apply (map3_id _ (wlens st) d (nth r (done ++ [d]) []) 0 0%Z).
    - rewrite Hl1. destruct (Nat.eq_dec r (length done)) as [->|Hne].
      + rewrite app_nth2, Nat.sub_diag by lia. cbn. lia.
      + rewrite app_length in Hr. cbn in Hr. rewrite app_nth1 by lia.
        symmetry. apply Hrows. apply nth_In. lia.
    - destruct (Nat.eq_dec r (length done)) as [->|Hne].
      + rewrite app_nth2, Nat.sub_diag by lia. reflexivity.
      + rewrite app_length in Hr. cbn in Hr. rewrite app_nth1 by lia.
        rewrite Hd. symmetry. apply Hrows. apply nth_In. lia.
    - intros n Hn.
      destruct (Nat.eqb_spec (nth n (wlens st) 0) r) as [Hlr|]; [|reflexivity].
      destruct (Nat.eq_dec r (length done)) as [->|Hne].
      + rewrite app_nth2, Nat.sub_diag by lia. reflexivity.
      + rewrite app_length in Hr. cbn in Hr. rewrite app_nth1 in * by lia.
        assert (HnN : n < N) by (rewrite (Hrows (nth r done [])) in Hn by (apply nth_In; lia); exact Hn).
        destruct (Hcol n HnN) as (Hlen & _ & Hc).
        destruct eos as [e|]; [|destruct Hc; lia].
        destruct (nth n (wfin st) false) eqn:Hfin; [|destruct Hc; lia].
        destruct Hc as (i & Hfe & Hlen' & Hcan).
        (* the draw of a finished path is eos *)
        destruct (all_some_spec unit _ _ Hv) as [_ Hvn].
        specialize (Hvn n). rewrite map3_length, Hl2, map_length, seq_length, Hd in Hvn.
        specialize (Hvn ltac:(lia)).
        rewrite (map3_nth _ _ _ _ n false [] 0%Z) in Hvn
          by (rewrite ?Hl2, ?map_length, ?seq_length, ?Hd; lia).
        rewrite Hfin in Hvn. cbn [ext_val] in Hvn.
        destruct (Z.eqb_spec (nth n d 0%Z) e) as [He|]; [|discriminate].
        rewrite He. rewrite <- column_nth.
        symmetry. apply (canonical_nth e _ i r Hfe Hcan); [lia|]. rewrite column_length. lia.
  Qed.

  (* one step of one column *)
  Definition len_next (len : nat) (fin : bool) : nat :=
    match eos with Some _ => len + b2n (negb fin) | None => S len end.
  Definition fin_next (col' : list Z) (len' : nat) (fin : bool) : bool :=
    match eos with Some e => (nth (len' - 1) col' 0 =? e)%Z | None => fin end.

  Lemma col_step n t col len fin lp tok val :
    col_inv n t col len fin lp -> in_vocab V tok = true ->
    ext_val unit eos fin (lm n col) tok = Some val ->
    col_inv n (S t) (col ++ [tok]) (len_next len fin)
            (fin_next (col ++ [tok]) (len_next len fin) fin) (op lp val).
  Proof.
    intros (Hlen & Hlp & Hc) Hiv Hval. unfold col_inv, len_next, fin_next.
    split; [rewrite app_length; cbn; lia|].
    rewrite lm_rows_snoc.
    destruct eos as [e|].
    - cbn [ext_val] in Hval. destruct fin.
      + destruct Hc as (i & Hfe & Hl & Hcan).
        destruct (Z.eqb_spec tok e) as [->|]; [|discriminate]. injection Hval as <-.
        pose proof (first_eos_lt e col i Hfe) as Hi.
        split.
        * rewrite unit_r, Hlp. symmetry. apply (spec_slp_closed e col _ _ _ i Hfe).
          apply lm_rows_length.
        * cbn [negb b2n]. rewrite Nat.add_0_r. subst len.
          replace (i + 1 - 1) with i by lia. rewrite app_nth1 by lia.
          rewrite (canonical_nth e col i i Hfe Hcan) by lia. rewrite Z.eqb_refl.
          exists i. split; [apply first_eos_app_some; exact Hfe|]. split; [reflexivity|].
          apply (canonical_snoc_some e col i Hfe Hcan).
      + destruct Hc as (Hfe & Hl). injection Hval as <-.
        split.
        * rewrite Hlp. rewrite (spec_slp_snoc_open (Some e)) by (try exact Hfe; apply lm_rows_length).
          rewrite Hiv. reflexivity.
        * cbn [negb b2n]. subst len. replace (t + 1 - 1) with t by lia.
          rewrite app_nth2, Hlen, Nat.sub_diag by lia. cbn [nth].
          rewrite (first_eos_snoc_none e col tok Hfe).
          destruct (tok =? e)%Z.
          -- exists (length col). split; [reflexivity|]. split; [lia|].
             apply canonical_snoc_none. exact Hfe.
          -- split; [reflexivity|lia].
    - cbn [ext_val] in Hval. injection Hval as <-. destruct Hc as [-> ->].
      split; [|split; reflexivity].
      rewrite Hlp. rewrite (spec_slp_snoc_open None) by (try exact I; apply lm_rows_length).
      rewrite Hiv. reflexivity.
  Qed.

  Lemma walk_step_inv done st d st' :
    Inv done st -> draw_ok d -> all_true (wfin st) = false ->
    walk_step op unit lm eos N st d = Some st' -> Inv (done ++ [d]) st'.
  Proof.
    intros HI Hd Hnf Hs. unfold walk_step in Hs.
    destruct (all_some _) as [vals|] eqn:Hv; [|discriminate].
    rewrite (rw_advance_id done st d vals HI Hd Hnf Hv) in Hs.
    pose proof (draw_ok_nth d) as Hdn. specialize (fun n => Hdn n Hd).
    destruct HI as (Hy & Hrows & Hl1 & Hl2 & Hl3 & Hcol). destruct Hd as [Hdl Hdv].
    destruct (all_some_spec unit _ _ Hv) as [Hvl Hvn].
    rewrite map3_length, Hl2, map_length, seq_length, Hdl in Hvl, Hvn.
    replace (Nat.min N (Nat.min N N)) with N in * by lia.
    assert (Hval : forall n, n < N ->
              ext_val unit eos (nth n (wfin st) false) (lm n (column 0%Z n done)) (nth n d 0%Z)
              = Some (nth n vals unit)).
    { intros n Hn. rewrite <- (Hvn n Hn).
      rewrite (map3_nth _ _ _ _ n false [] 0%Z) by (rewrite ?Hl2, ?map_length, ?seq_length, ?Hdl; lia).
      rewrite nth_map_seq by exact Hn. rewrite Hy. reflexivity. }
    assert (Hstep : forall n, n < N ->
              col_inv n (S (length done)) (column 0%Z n (done ++ [d]))
                      (len_next (nth n (wlens st) 0) (nth n (wfin st) false))
                      (fin_next (column 0%Z n (done ++ [d]))
                                (len_next (nth n (wlens st) 0) (nth n (wfin st) false))
                                (nth n (wfin st) false))
                      (op (nth n (wlp st) unit) (nth n vals unit))).
    { intros n Hn. rewrite column_app. cbn [column map].
      apply col_step; [apply Hcol; exact Hn|apply Hdn; exact Hn|apply Hval; exact Hn]. }
    assert (Hlen' : length (done ++ [d]) = S (length done)) by (rewrite app_length; cbn; lia).
    assert (Hrows' : forall d', In d' (done ++ [d]) -> length d' = N).
    { intros d' Hin. apply in_app_or in Hin as [Hin|[<-|[]]]; [apply Hrows; exact Hin|exact Hdl]. }
    unfold Inv. rewrite Hlen'.
    destruct eos as [e|] eqn:Eeos; injection Hs as <-; cbn [wy wlens wfin wlp];
      (split; [reflexivity|]); (split; [exact Hrows'|]).
    - rewrite !map2_length, seq_length, Hl1, Hl2, Hl3, Hvl.
      split; [lia|]. split; [lia|]. split; [lia|].
      intros n Hn. specialize (Hstep n Hn). unfold len_next, fin_next in Hstep. rewrite Eeos in Hstep.
      rewrite (map2_nth _ _ _ n 0 false 0) by lia.
      rewrite (map2_nth _ _ _ n 0 0 false) by (rewrite ?seq_length, ?map2_length; lia).
      rewrite seq_nth by lia. cbn [Nat.add].
      rewrite (map2_nth _ _ _ n 0 false 0) by lia.
      rewrite (map2_nth _ _ _ n unit unit unit) by lia.
      rewrite <- column_nth. exact Hstep.
    - rewrite map_length, map2_length, Hl1, Hl2, Hl3, Hvl.
      split; [lia|]. split; [lia|]. split; [lia|].
      intros n Hn. specialize (Hstep n Hn). unfold len_next, fin_next in Hstep. rewrite Eeos in Hstep.
      rewrite (nth_map' S _ n 0 0) by lia.
      rewrite (map2_nth _ _ _ n unit unit unit) by lia.
      exact Hstep.
  Qed.

  (* ---------- the loop -------------------------------------------------------------------------------- *)

  Lemma walk_loop_inv mi : forall draws done st st',
    Inv done st -> (forall d, In d draws -> draw_ok d) ->
    (forall m, mi = Some m -> length done <= m) ->
    walk_loop op unit lm eos N mi draws (length done) st = Some st' ->
    Inv (done ++ draws) st' /\ walk_stop mi (length (done ++ draws)) st' = true /\
    (forall m, mi = Some m -> length (done ++ draws) <= m).
  Proof.
    induction draws as [|d ds IH]; intros done st st' HI Hd Hm Hw; cbn [walk_loop] in Hw.
    - rewrite app_nil_r. destruct (walk_stop mi (length done) st) eqn:Hst; [|discriminate].
      injection Hw as <-. split; [exact HI|]. split; [exact Hst|exact Hm].
    - destruct (walk_stop mi (length done) st) eqn:Hst; [discriminate|].
      destruct (walk_step op unit lm eos N st d) as [st1|] eqn:Hs; [|discriminate].
      unfold walk_stop in Hst. apply orb_false_iff in Hst as [Hst1 Hst2].
      pose proof (walk_step_inv done st d st1 HI (Hd d (or_introl eq_refl)) Hst2 Hs) as HI1.
      replace (done ++ d :: ds) with ((done ++ [d]) ++ ds) by (rewrite <- app_assoc; reflexivity).
      apply (IH (done ++ [d]) st1 st' HI1).
      + intros d' Hin. apply Hd. now right.
      + intros m ->. rewrite app_length. cbn. apply Nat.leb_gt in Hst1. lia.
      + replace (length (done ++ [d])) with (S (length done)) by (rewrite app_length; cbn; lia).
        exact Hw.
  Qed.

  (* ---------- what a completed walk returns -------------------------------------------------------- *)

  Theorem walk_correct mi draws st :
    (forall d, In d draws -> draw_ok d) ->
    walk op unit lm eos N mi draws = Some st ->
    wy st = draws /\ length (wlens st) = N /\ length (wlp st) = N /\
    (forall m, mi = Some m -> length draws <= m) /\
    ((exists m, mi = Some m /\ length draws = m) \/ all_true (wfin st) = true) /\
    forall n, n < N ->
      let col := column 0%Z n draws in
      nth n (wlens st) 0 = path_len eos col /\
      nth n (wlp st) unit = spec_slp op unit V eos (lm_rows lm n col) col /\
      (forall e, eos = Some e -> canonical e col = true) /\
      (nth n (wfin st) false = true <-> exists e i, eos = Some e /\ first_eos e col = Some i).
  Proof.
    intros Hd Hw. unfold walk in Hw.
    destruct (walk_loop_inv mi draws [] (init_state unit N) st inv_init Hd
                (fun m _ => Nat.le_0_l m) Hw) as (HI & Hstop & Hm).
    cbn [app] in *. destruct HI as (Hy & Hrows & Hl1 & Hl2 & Hl3 & Hcol).
    split; [exact Hy|]. split; [exact Hl1|]. split; [exact Hl3|]. split; [exact Hm|]. split.
    - unfold walk_stop in Hstop. apply orb_true_iff in Hstop as [Hs|Hs]; [left|right; exact Hs].
      destruct mi as [m|]; [|discriminate]. exists m. split; [reflexivity|].
      apply Nat.leb_le in Hs. specialize (Hm m eq_refl). lia.
    - intros n Hn. destruct (Hcol n Hn) as (Hlen & Hlp & Hc). set (col := column 0%Z n draws) in *.
      split; [|split; [exact Hlp|]].
      + unfold path_len. destruct eos as [e|].
        * destruct (nth n (wfin st) false).
          -- destruct Hc as (i & -> & -> & _). reflexivity.
          -- destruct Hc as (-> & ->). symmetry. exact Hlen.
        * destruct Hc as (_ & ->). symmetry. exact Hlen.
      + split.
        * intros e He. rewrite He in Hc. destruct (nth n (wfin st) false).
          -- destruct Hc as (i & _ & _ & Hcan). exact Hcan.
          -- destruct Hc as (Hfe & _). apply canonical_no_eos. exact Hfe.
        * destruct eos as [e|].
          -- destruct (nth n (wfin st) false).
             ++ destruct Hc as (i & Hfe & _). split; [intros _; exists e, i; split; [reflexivity|exact Hfe]|reflexivity].
             ++ destruct Hc as (Hfe & _). split; [discriminate|].
                intros (e' & i & He & Hfe'). injection He as <-. congruence.
          -- destruct Hc as (-> & _). split; [discriminate|]. intros (e' & i & He & _). discriminate.
  Qed.

  (* ---------- the wrapper's log_prob is the declarative sum over the model's outputs --------------- *)

  Lemma lm_full_rows n s : s <> [] -> lm_full lm n s = lm_rows lm n s.
  Proof.
    intros Hs. unfold lm_full, lm_rows.
    assert (Hl : length (removelast s) + 1 = length s).
    { destruct (exists_last Hs) as (s' & k & ->). rewrite removelast_last, app_length. cbn. lia. }
    rewrite Hl. apply map_ext_in. intros i Hi. apply in_seq in Hi.
    destruct (exists_last Hs) as (s' & k & ->). rewrite removelast_last.
    rewrite app_length in Hi. cbn in Hi. rewrite firstn_app_le by lia. reflexivity.
  Qed.

  Lemma dist_log_prob_spec value : (forall s, In s value -> s <> []) ->
    dist_log_prob op unit lm V eos value =
    map2 (fun n s => spec_slp op unit V eos (lm_rows lm n s) s) (seq 0 (length value)) value.
  Proof.
    intros Hne. unfold dist_log_prob.
    generalize 0 as s0. induction value as [|s value IH]; intros s0; [reflexivity|].
    cbn [length seq map2]. f_equal.
    - rewrite lm_full_rows by (apply Hne; left; reflexivity).
      apply (slp_col_correct op unit unit_l). apply lm_rows_length.
    - apply IH. intros s' Hin. apply Hne. now right.
  Qed.

  Theorem dist_logprob_eq_walk mi draws st :
    (forall d, In d draws -> draw_ok d) -> draws <> [] ->
    walk op unit lm eos N mi draws = Some st ->
    dist_log_prob op unit lm V eos (paths_of N (wy st)) = wlp st.
  Proof.
    intros Hd Hne Hw.
    destruct (walk_correct mi draws st Hd Hw) as (Hy & _ & Hl3 & _ & _ & Hcol).
    rewrite Hy. rewrite dist_log_prob_spec.
    - unfold paths_of. rewrite map_length, seq_length.
      rewrite (list_eq_map_nth unit (wlp st)), Hl3.
      rewrite map2_map_r, map2_same. apply map_ext_in. intros n Hn. apply in_seq in Hn.
      destruct (Hcol n ltac:(lia)) as (_ & Hlp & _). symmetry. exact Hlp.
    - intros s Hin. unfold paths_of in Hin. apply in_map_iff in Hin as (n & <- & _).
      destruct draws; [congruence|]. discriminate.
  Qed.

  (* padding a finished path with eos (sample stacking) does not change its score *)
  Lemma spec_slp_padded e n s pad i : eos = Some e -> first_eos e s = Some i ->
    spec_slp op unit V eos (lm_rows lm n (s ++ pad)) (s ++ pad) =
    spec_slp op unit V eos (lm_rows lm n s) s.
  Proof.
    intros -> Hf. rewrite lm_rows_app. apply (spec_slp_closed e s _ _ _ i Hf). apply lm_rows_length.
  Qed.

  (* sample stacking: a walk that ended early is padded with rows of eos up to the longest walk
     of the batch of samples; re-scoring the padded paths still gives the walk's log-probabilities *)
  Theorem stacked_logprob_eq_walk mi draws st e k :
    eos = Some e ->
    (forall d, In d draws -> draw_ok d) -> draws <> [] ->
    walk op unit lm eos N mi draws = Some st ->
    (k = 0 \/ all_true (wfin st) = true) ->
    dist_log_prob op unit lm V eos (paths_of N (wy st ++ repeat (repeat e N) k)) = wlp st.
  Proof.
    intros He Hd Hne Hw Hk.
    destruct (walk_correct mi draws st Hd Hw) as (Hy & _ & Hl3 & _ & _ & Hcol).
    assert (Hlf : length (wfin st) = N).
    { unfold walk in Hw.
      destruct (walk_loop_inv mi draws [] (init_state unit N) st inv_init Hd
                  (fun m _ => Nat.le_0_l m) Hw) as ((_ & _ & _ & H & _) & _). exact H. }
    rewrite Hy. rewrite dist_log_prob_spec.
    - unfold paths_of. rewrite map_length, seq_length.
      rewrite (list_eq_map_nth unit (wlp st)), Hl3.
      rewrite map2_map_r, map2_same. apply map_ext_in. intros n Hn. apply in_seq in Hn.
      destruct (Hcol n ltac:(lia)) as (_ & Hlp & _ & Hfin). rewrite Hlp.
      rewrite column_app.
      assert (Hpad : column 0%Z n (repeat (repeat e N) k) = repeat e k).
      { unfold column. clear -Hn. induction k as [|k IH]; [reflexivity|]. cbn [repeat map].
        rewrite IH. f_equal. apply nth_repeat'. lia. }
      rewrite Hpad. destruct Hk as [->|Hall].
      + cbn [repeat]. rewrite app_nil_r. reflexivity.
      + pose proof (all_true_nth (wfin st) n Hall ltac:(lia)) as Hf.
        apply Hfin in Hf as (e' & i & He' & Hfe). rewrite He in He'. injection He' as <-.
        apply (spec_slp_padded e n _ _ i He Hfe).
    - intros s Hin. unfold paths_of in Hin. apply in_map_iff in Hin as (n & <- & _).
      destruct draws; [congruence|]. discriminate.
  Qed.
End Walk.
