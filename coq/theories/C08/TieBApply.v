(* C08, second tie - `spec_augment_apply_parameters` WITHOUT a warp (w_0 / w and v_0 / v None or without element):
   the whole body, interpreted, returns the feature tensor with exactly the cells of the time / frequency bands
   overwritten by 0.0 - PV.C08.Model.apply_masks, batch element by batch element.

   The body is the sequence of its marked blocks ([body_splitA]): head (argument check, N T F, lengths, the eight
   parameter tensors), time grid, frequency grid, resampling (all three skipped here), mask initialisation, time
   masks, frequency masks, masked_fill + return (TieBMask.v).  Everything holds under [ext_core a spl gso nested]
   for ANY oracles and ANY [nested]: no kernel and no translated function is called on this path. *)
From Coq Require Import ZArith QArith Qround List String Bool Arith Lia.
From PV Require Import MiniPy.Syntax MiniPy.Interp MiniTorch.Ops MiniTorch.OpsC08 MiniTorch.LemmasC08.
From PV Require Import MiniTorch.OpsC08B MiniTorch.LemmasC08B.
From PV Require Import Gen.C08BSrc C08.SrcRun C08.TieLib C08.SrcRunB C08.TieBLib C08.TieBMask.
From PV Require C08.Model C08.ProofsMask MiniTorch.Lemmas.
Import ListNotations.
Local Open Scope string_scope.
Local Open Scope list_scope.

#[local] Arguments Z.of_nat : simpl never.
#[local] Arguments Z.eqb : simpl never.
#[local] Arguments cmp_eval : simpl never.
#[local] Arguments numel : simpl never.
#[local] Arguments subscript : simpl never.
#[local] Arguments enc_pars : simpl never.

(* `x[i]` on a tuple whose first component is not a tag *)
Lemma subscript_tuple l i st :
  foreign_item (VTuple l) (VInt i) = false -> ((0 <=? i)%Z && (i <? Z.of_nat (List.length l))%Z)%bool = true ->
  subscript (VTuple l) (VInt i) st = Ok (nth (Z.to_nat i) l VNone) st.
Proof.
  intros Hf Hi. unfold subscript. rewrite Hf.
  apply andb_true_iff in Hi. destruct Hi as [H0 H1]. apply Z.leb_le in H0.
  replace (i <? 0)%Z with false by (symmetry; apply Z.ltb_ge; exact H0).
  now rewrite (proj2 (Z.leb_le 0 i) H0), H1.
Qed.

Lemma vars_set_var x v st : vars (set_var x v st) = update x v (vars st).
Proof. reflexivity. Qed.

Lemma subscript_pars p i st : ((0 <=? i)%Z && (i <? 8)%Z)%bool = true ->
  subscript (enc_pars p) (VInt i) st
  = Ok (nth (Z.to_nat i) [enc_par (q_w0 p); enc_par (q_w p); enc_par (q_v0 p); enc_par (q_v p);
                          enc_par (q_t0 p); enc_par (q_t p); enc_par (q_f0 p); enc_par (q_f p)] VNone) st.
Proof.
  intros Hi. unfold enc_pars. apply subscript_tuple; [|exact Hi].
  destruct (q_w0 p); reflexivity.
Qed.

(* ---- the body is the sequence of its blocks ------------------------------------------------------------- *)
Lemma exec_assocB ext s1 s2 s3 st : exec ext (SSeq (SSeq s1 s2) s3) st = exec ext (SSeq s1 (SSeq s2 s3)) st.
Proof.
  cbn [exec]. destruct (exec ext s1 st) as [c st1|n st1|w]; cbn [bind]; [|reflexivity|reflexivity].
  destruct c; [|reflexivity]. reflexivity.
Qed.

Lemma exec_seq_congB ext s1 x y :
  (forall st, exec ext x st = exec ext y st) -> forall st, exec ext (SSeq s1 x) st = exec ext (SSeq s1 y) st.
Proof.
  intros H st. cbn [exec]. destruct (exec ext s1 st) as [c st1|n st1|w]; cbn [bind]; [|reflexivity|reflexivity].
  destruct c; [apply H|reflexivity].
Qed.

Ltac seq_norm := repeat first [ rewrite !exec_assocB | (revert_last_state; apply exec_seq_congB; intro) ]
with revert_last_state := match goal with st : state |- _ => revert st end.

Definition blocksA : stmt :=
  SSeq apply_head (SSeq apply_tgrid (SSeq apply_fgrid (SSeq apply_warp
    (SSeq apply_minit (SSeq apply_tmask (SSeq apply_fmask apply_fill)))))).

Lemma body_splitA ext st : exec ext apply_body st = exec ext blocksA st.
Proof.
  unfold blocksA, apply_body, apply_head, apply_minit, apply_fill.
  fold apply_tgrid. fold apply_fgrid. fold apply_warp. fold apply_tmask. fold apply_fmask.
  seq_norm. reflexivity.
Qed.

(* ---- shape well-formedness of the mask parameters ------------------------------------------------------------ *)
(* a mask group (start tensor, width tensor): OFF when one of the two is None or has no element; ON: two long
   tensors of one shape (N, M) with at least one element *)
Inductive mspec := MOff (p0 p : par) | MOn (M : nat) (f0 f : nat -> nat -> Z).

Definition mspec_ok (N : nat) (m : mspec) : Prop :=
  match m with
  | MOff p0 p => (par_on p0 && par_on p)%bool = false
  | MOn M _ _ => Nat.eqb (numel [N; M]) 0 = false
  end.
Definition mspec_p0 (N : nat) (m : mspec) : par := match m with MOff p0 _ => p0 | MOn M f0 _ => PL (T2 N M f0) end.
Definition mspec_p (N : nat) (m : mspec) : par := match m with MOff _ p => p | MOn M _ f => PL (T2 N M f) end.

(* the mask a group contributes, as the source computes it *)
Definition mspec_t (m : mspec) : option (nat -> nat -> nat -> bool) :=
  match m with MOff _ _ => None | MOn M f0 f => Some (fun n t _ => s_any M f0 f n t) end.
Definition mspec_f (m : mspec) : option (nat -> nat -> nat -> bool) :=
  match m with MOff _ _ => None | MOn M f0 f => Some (fun n _ x => s_any M f0 f n x) end.

(* ... and as the model takes it: the (start, width) pairs of batch element n *)
Definition mspec_bands (m : mspec) (n : nat) : option (list (Z * Z)) :=
  match m with MOff _ _ => None | MOn M f0 f => Some (map (fun h => (f0 n h, f n h)) (seq 0 M)) end.

(* the float lengths the head computes (not used on this path): lengths.to(feats.dtype) *)
Definition L_ofB (a : Model.arith) (T : nat) (lens : option (list Z)) (n : nat) : Q :=
  match lens with
  | None => Model.r32 a (Model.z2q (Z.of_nat T))
  | Some l => Model.r32 a (Model.z2q (nth n l 0%Z))
  end.

Definition lens_okB (N T : nat) (lens : option (list Z)) : Prop :=
  match lens with None => True | Some l => List.length l = N /\ lens_in_range T l = true end.

Lemma tmap_listB {X Y} (f : X -> Y) (d : X) (l : list X) :
  tmap f (mkTn [List.length l] l) = T1 (List.length l) (fun n => f (nth n l d)).
Proof.
  unfold tmap, T1. cbn [shp dat]. f_equal.
  apply (nth_ext _ _ (f d) (f d)); [now rewrite !map_length, seq_length|].
  intros n Hn. rewrite map_length in Hn. rewrite map_nth.
  rewrite (MiniTorch.Lemmas.nth_map_seq (fun n => f (nth n l d))) by assumption. reflexivity.
Qed.

Section Apply.
  Variable a : Model.arith.
  Variable spl : nat -> list val -> list Q.
  Variable gso : nat -> list val -> list val.
  Variable nested : string -> list val -> state -> option (outcome val).
  Notation ext := (ext_core a spl gso nested).

  Ltac extH_rw := progress rewrite ?extB_shape_c, ?extB_device_c, ?extB_dtype_c, ?extB_full_l, ?extB_to_l, ?extB_check_none.
  Ltac runH := repeat first [ runB1 | extH_rw | rewrite subscript_pars by reflexivity | rewrite subscript_tuple by reflexivity
                            | progress (change (Pos.to_nat 1) with 1%nat; change (Pos.to_nat 2) with 2%nat; change (Pos.to_nat 3) with 3%nat;
                                        change (Pos.to_nat 4) with 4%nat; change (Pos.to_nat 5) with 5%nat; change (Pos.to_nat 6) with 6%nat;
                                        change (Pos.to_nat 7) with 7%nat)
                            | progress (unfold float_of_long, full_l; rewrite ?tmap_T1) ].

  (* ---- head ------------------------------------------------------------------------------------------------ *)
  Lemma headA_run eps N T F cells (p : pars) order lens ev : lens_okB N T lens ->
    exists vs1,
      exec ext apply_head (mkState (apply_vars eps (mkTn [N; T; F] cells) (enc_pars p) order lens) ev) = Ok CNormal (mkState vs1 ev)
      /\ lookup "N" vs1 = Some (VInt (Z.of_nat N)) /\ lookup "T" vs1 = Some (VInt (Z.of_nat T))
      /\ lookup "F" vs1 = Some (VInt (Z.of_nat F)) /\ lookup "device" vs1 = Some device_token
      /\ lookup "lengths" vs1 = Some (enc_f (T1 N (L_ofB a T lens)))
      /\ lookup "interpolation_order" vs1 = Some (VInt order)
      /\ lookup "w_0" vs1 = Some (enc_par (q_w0 p)) /\ lookup "w" vs1 = Some (enc_par (q_w p))
      /\ lookup "v_0" vs1 = Some (enc_par (q_v0 p)) /\ lookup "v" vs1 = Some (enc_par (q_v p))
      /\ lookup "t_0" vs1 = Some (enc_par (q_t0 p)) /\ lookup "t" vs1 = Some (enc_par (q_t p))
      /\ lookup "f_0" vs1 = Some (enc_par (q_f0 p)) /\ lookup "f" vs1 = Some (enc_par (q_f p))
      /\ lookup "new_feats" vs1 = Some (enc_c eps (mkTn [N; T; F] cells))
      /\ lookup "time_grid" vs1 = Some VNone /\ lookup "freq_grid" vs1 = Some VNone
      /\ lookup "do_warp" vs1 = Some (VBool false).
  Proof.
    intros Hok. unfold apply_head, apply_vars, globalsB, lengths_val. destruct lens as [l|].
    - destruct Hok as [HN HR]. subst N. eexists. split.
      + erewrite exec_seq_okB; [ | runB; rewrite (extB_check_lens a spl gso nested (List.length l) T F eps cells l _ eq_refl HR); reflexivity ].
        erewrite exec_seq_okB; [ | solve [runH; reflexivity] ].
        erewrite exec_seq_okB; [ | solve [runH; reflexivity] ].
        erewrite exec_seq_okB; [ | solve [runH; reflexivity] ].
        erewrite exec_seq_okB; [ | solve [runH; reflexivity] ].
        erewrite exec_seq_okB; [ | solve [runH; reflexivity] ].
        runH. reflexivity.
      + rewrite !vars_set_var. cbn [vars]. rewrite (tmap_listB _ 0%Z). repeat split; reflexivity.
    - eexists. split.
      + erewrite exec_seq_okB; [ | solve [runH; reflexivity] ].
        erewrite exec_seq_okB; [ | solve [runH; reflexivity] ].
        erewrite exec_seq_okB; [ | solve [runH; reflexivity] ].
        erewrite exec_seq_okB; [ | solve [runH; reflexivity] ].
        erewrite exec_seq_okB; [ | solve [runH; reflexivity] ].
        erewrite exec_seq_okB; [ | solve [runH; reflexivity] ].
        runH. reflexivity.
      + rewrite !vars_set_var. cbn [vars]. repeat split; reflexivity.
  Qed.

  (* ---- the three warp blocks when no warp is requested ---------------------------------------------------------- *)
  Lemma tgrid_off_run vs ev p0 p :
    lookup "w_0" vs = Some (enc_par p0) -> lookup "w" vs = Some (enc_par p) -> (par_on p0 && par_on p)%bool = false ->
    exec ext apply_tgrid (mkState vs ev) = Ok CNormal (mkState vs ev).
  Proof.
    intros H0 H1 Hoff. unfold apply_tgrid.
    destruct (group_cond a spl gso nested vs ev "w_0" "w" p0 p H0 H1) as [v [Ev Tv]].
    unfold group_test in Ev. erewrite exec_if_valB by exact Ev. rewrite Tv, Hoff. reflexivity.
  Qed.

  Lemma fgrid_off_run vs ev p0 p :
    lookup "v_0" vs = Some (enc_par p0) -> lookup "v" vs = Some (enc_par p) -> (par_on p0 && par_on p)%bool = false ->
    exec ext apply_fgrid (mkState vs ev) = Ok CNormal (mkState vs ev).
  Proof.
    intros H0 H1 Hoff. unfold apply_fgrid.
    destruct (group_cond a spl gso nested vs ev "v_0" "v" p0 p H0 H1) as [v [Ev Tv]].
    unfold group_test in Ev. erewrite exec_if_valB by exact Ev. rewrite Tv, Hoff. reflexivity.
  Qed.

  Lemma warp_off_run vs ev : lookup "do_warp" vs = Some (VBool false) ->
    exec ext apply_warp (mkState vs ev) = Ok CNormal (mkState vs ev).
  Proof. intros H. unfold apply_warp. erewrite exec_if_valB by (cbn; rewrite H; reflexivity). reflexivity. Qed.

  (* ---- one mask group, on or off ------------------------------------------------------------------------------------ *)
  Lemma tmask_run vs ev N T m : mspec_ok N m ->
    lookup "t_0" vs = Some (enc_par (mspec_p0 N m)) -> lookup "t" vs = Some (enc_par (mspec_p N m)) ->
    lookup "tmask" vs = Some VNone ->
    lookup "T" vs = Some (VInt (Z.of_nat T)) -> lookup "device" vs = Some device_token ->
    exists vs', exec ext apply_tmask (mkState vs ev) = Ok CNormal (mkState vs' ev)
      /\ lookup "tmask" vs' = Some (opt_mask (option_map (T3 N T 1) (mspec_t m)))
      /\ forall x, String.eqb x "tmask" = false -> String.eqb x "t_1" = false -> lookup x vs' = lookup x vs.
  Proof.
    intros Hok H0 H1 Hm HT Hd. destruct m as [p0 p|M f0 f]; cbn [mspec_ok mspec_p0 mspec_p mspec_t option_map opt_mask] in *.
    - exists vs. split; [now apply (tmask_off_run a spl gso nested vs ev p0 p)|]. split; [exact Hm|reflexivity].
    - apply (tmask_on_run a spl gso nested vs ev N M T f0 f); assumption.
  Qed.

  Lemma fmask_run vs ev N F m : mspec_ok N m ->
    lookup "f_0" vs = Some (enc_par (mspec_p0 N m)) -> lookup "f" vs = Some (enc_par (mspec_p N m)) ->
    lookup "fmask" vs = Some VNone ->
    lookup "F" vs = Some (VInt (Z.of_nat F)) -> lookup "device" vs = Some device_token ->
    exists vs', exec ext apply_fmask (mkState vs ev) = Ok CNormal (mkState vs' ev)
      /\ lookup "fmask" vs' = Some (opt_mask (option_map (T3 N 1 F) (mspec_f m)))
      /\ forall x, String.eqb x "fmask" = false -> String.eqb x "f_1" = false -> lookup x vs' = lookup x vs.
  Proof.
    intros Hok H0 H1 Hm HF Hd. destruct m as [p0 p|M g0 g]; cbn [mspec_ok mspec_p0 mspec_p mspec_f option_map opt_mask] in *.
    - exists vs. split; [now apply (fmask_off_run a spl gso nested vs ev p0 p)|]. split; [exact Hm|reflexivity].
    - apply (fmask_on_run a spl gso nested vs ev N M F g0 g); assumption.
  Qed.

  (* ---- the whole body, no warp ------------------------------------------------------------------------------------------ *)
  Definition pars_nowarp (N : nat) (pw0 pw pv0 pv : par) (tm fm : mspec) : pars :=
    mkPars pw0 pw pv0 pv (mspec_p0 N tm) (mspec_p N tm) (mspec_p0 N fm) (mspec_p N fm).

  Theorem apply_nowarp_run eps N T F cells pw0 pw pv0 pv tm fm order lens ev :
    lens_okB N T lens ->
    (par_on pw0 && par_on pw)%bool = false -> (par_on pv0 && par_on pv)%bool = false ->
    mspec_ok N tm -> mspec_ok N fm ->
    exists vs',
      exec ext apply_body (mkState (apply_vars eps (T3 N T F cells) (enc_pars (pars_nowarp N pw0 pw pv0 pv tm fm)) order lens) ev)
      = Ok (CReturn (enc_c eps (T3 N T F (filled (mspec_t tm) (mspec_f fm) cells)))) (mkState vs' ev).
  Proof.
    intros Hl Hw Hv Htm Hfm. rewrite body_splitA. unfold blocksA.
    destruct (headA_run eps N T F (tabl3 N T F cells) (pars_nowarp N pw0 pw pv0 pv tm fm) order lens ev Hl)
      as [vs1 [E1 [LN [LT [LF [Ld [LL [Lo [Lw0 [Lw [Lv0 [Lv [Lt0 [Lt [Lf0 [Lf [Lnf [Ltg [Lfg Ldw]]]]]]]]]]]]]]]]]]].
    cbn [pars_nowarp q_w0 q_w q_v0 q_v q_t0 q_t q_f0 q_f] in *.
    change (mkTn [N; T; F] (tabl3 N T F cells)) with (T3 N T F cells) in *.
    rewrite (exec_seq_okB _ _ _ _ _ E1).
    rewrite (exec_seq_okB _ _ _ _ _ (tgrid_off_run vs1 ev pw0 pw Lw0 Lw Hw)).
    rewrite (exec_seq_okB _ _ _ _ _ (fgrid_off_run vs1 ev pv0 pv Lv0 Lv Hv)).
    rewrite (exec_seq_okB _ _ _ _ _ (warp_off_run vs1 ev Ldw)).
    rewrite (exec_seq_okB _ _ _ _ _ (minit_run a spl gso nested vs1 ev)).
    set (vs2 := update "fmask" VNone (update "tmask" VNone vs1)).
    assert (K : forall x, String.eqb x "fmask" = false -> String.eqb x "tmask" = false -> lookup x vs2 = lookup x vs1).
    { intros x Hx1 Hx2. unfold vs2. now rewrite !lookup_update, Hx1, Hx2. }
    destruct (tmask_run vs2 ev N T tm Htm) as [vs3 [E3 [Ltm K3]]];
      try (rewrite K by reflexivity; assumption); [unfold vs2; rewrite !lookup_update; reflexivity|].
    rewrite (exec_seq_okB _ _ _ _ _ E3).
    destruct (fmask_run vs3 ev N F fm Hfm) as [vs4 [E4 [Lfm K4]]];
      try (rewrite K3 by reflexivity; rewrite K by reflexivity; assumption);
      [rewrite K3 by reflexivity; unfold vs2; rewrite !lookup_update; reflexivity|].
    rewrite (exec_seq_okB _ _ _ _ _ E4).
    apply (fill_run a spl gso nested vs4 ev eps N T F cells (mspec_t tm) (mspec_f fm)).
    - rewrite K4 by reflexivity. rewrite K3 by reflexivity. rewrite K by reflexivity. exact Lnf.
    - rewrite K4 by reflexivity. exact Ltm.
    - exact Lfm.
  Qed.
End Apply.

(* ---- the result is the model's apply_masks --------------------------------------------------------------------------------- *)
Lemma mapi_from_map_seq {A B} (f : Z -> A -> B) (g : nat -> A) n : forall s i,
  Model.mapi_from i f (map g (seq s n)) = map (fun k => f (i + Z.of_nat (k - s))%Z (g k)) (seq s n).
Proof.
  induction n as [|n IH]; intros s i; [reflexivity|]. cbn [seq map Model.mapi_from].
  rewrite Nat.sub_diag, Z.add_0_r. f_equal. rewrite IH. apply map_ext_in. intros k Hk. apply in_seq in Hk.
  replace (i + 1 + Z.of_nat (k - S s))%Z with (i + Z.of_nat (k - s))%Z by lia. reflexivity.
Qed.

Lemma fill_table {A} (zero : A) (m : Z -> Z -> bool) (c : nat -> nat -> A) T F :
  Model.fill zero m (map (fun t => map (fun f => c t f) (seq 0 F)) (seq 0 T))
  = map (fun t => map (fun f => if m (Z.of_nat t) (Z.of_nat f) then zero else c t f) (seq 0 F)) (seq 0 T).
Proof.
  unfold Model.fill. rewrite mapi_from_map_seq. apply map_ext_in. intros t _.
  rewrite mapi_from_map_seq. apply map_ext_in. intros f _. now rewrite !Nat.sub_0_r, !Z.add_0_l.
Qed.

Lemma img_of_tabl3 {X} (d : X) N T F (c : nat -> nat -> nat -> X) n : (n < N)%nat ->
  img_of d T F (tabl3 N T F c) n = map (fun t => map (fun f => c n t f) (seq 0 F)) (seq 0 T).
Proof.
  intros Hn. unfold img_of. apply map_ext_in. intros t Ht. apply in_seq in Ht.
  apply map_ext_in. intros f Hf. apply in_seq in Hf. apply get3_tabl3; lia.
Qed.

Lemma s_any_masked M f0 f n x :
  s_any M f0 f n x = Model.masked (map (fun h => (f0 n h, f n h)) (seq 0 M)) (Z.of_nat x).
Proof.
  unfold s_any, Model.masked. induction (seq 0 M) as [|h l IH]; [reflexivity|].
  cbn [existsb map]. rewrite IH. f_equal. unfold s_in, Model.in_band. cbn [fst snd]. now rewrite Z.geb_leb.
Qed.

Theorem filled_is_apply_masks N T F (cells : nat -> nat -> nat -> val) tm fm n : (n < N)%nat ->
  img_of VNone T F (tabl3 N T F (filled (mspec_t tm) (mspec_f fm) cells)) n
  = Model.apply_masks (VQ 0) (mspec_bands tm n) (mspec_bands fm n) (img_of VNone T F (tabl3 N T F cells) n).
Proof.
  intros Hn. rewrite !img_of_tabl3 by exact Hn. unfold Model.apply_masks, filled, mk.
  destruct tm as [p0 p|M f0 f], fm as [q0 q|M' g0 g]; cbn [mspec_t mspec_f mspec_bands].
  - apply map_ext. intros t. apply map_ext. intros f. reflexivity.
  - rewrite fill_table. apply map_ext. intros t. apply map_ext. intros f. now rewrite s_any_masked.
  - rewrite fill_table. apply map_ext. intros t. apply map_ext. intros x. now rewrite s_any_masked, orb_false_r.
  - rewrite fill_table. apply map_ext. intros t. apply map_ext. intros x. now rewrite !s_any_masked.
Qed.
