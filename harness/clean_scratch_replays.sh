#!/bin/sh
# developer tool: delete replay files left by scratch-tree runs (their "repo" field is not /repo)
cd "$(dirname "$0")/../replays" || exit 0
for f in *.json; do
  [ -f "$f" ] || continue
  if python3 - "$f" <<'PY'
import json,sys
try:
    d=json.load(open(sys.argv[1]))
except Exception:
    sys.exit(1)
r=str(d.get("repo",""))
sys.exit(0 if r.startswith("/tmp/") else 1)
PY
  then rm -f "$f"; fi
done
