"""Shared machinery for the per-property checks (see DESIGN.md section 2).

A check = (1) re-check the property theorems with coqc, (2) run the implementation in /repo
and the Gallina model (evaluated inside Coq with vm_compute) on the same cases and compare,
(3) on a disagreement look for a concrete failing input and report, (4) write evidence.
"""
import fcntl
import hashlib
import json
import contextlib
import os
import random
import re
import shutil
import subprocess
import sys
import time
import traceback
from concurrent.futures import ThreadPoolExecutor
from fractions import Fraction
from pathlib import Path

VERIF = Path(__file__).resolve().parent.parent
REPO = Path(os.environ.get("VERIF_REPO", "/repo"))
# developer-only: scratch runs against a patched tree (VERIF_REPO) work on a private COPY of the Coq tree (VERIF_COQ), so that
# the Gen/*.v regenerated from the patched source never land in /verif/coq; the registered commands set neither variable
COQ = Path(os.environ["VERIF_COQ"]) if os.environ.get("VERIF_COQ") and os.environ.get("VERIF_REPO") else VERIF / "coq"
GUARD = "PYDROBERT_TORCH_VERIF"

STD_AXIOMS_OK = {
    # axioms declared by Coq's standard library that the brief allows, when named
    "ClassicalDedekindReals.sig_forall_dec",
    "ClassicalDedekindReals.sig_not_dec",
    "FunctionalExtensionality.functional_extensionality_dep",
    "functional_extensionality_dep",
    "sig_forall_dec",
    "sig_not_dec",
    "Classical_Prop.classic",
    "classic",
    "ProofIrrelevance.proof_irrelevance",
    "Eqdep.Eq_rect_eq.eq_rect_eq",
    "JMeq.JMeq_eq",
}

FORBIDDEN = re.compile(
    r"\b(Admitted|admit|Axiom|Axioms|Parameter|Parameters|Conjecture|Admit Obligations|"
    r"bypass_check|native_compute)\b|Unset\s+Guard|Unset\s+Positivity|Unset\s+Universe|type-in-type|impredicative-set"
)


def setup_impl_path():
    """Make `import pydrobert.torch` resolve to REPO's current working tree."""
    src = str(REPO / "src")
    if src in sys.path:
        sys.path.remove(src)
    sys.path.insert(0, src)
    os.environ[GUARD] = "1"


def reexec_if_needed():
    """Fix PYTHONHASHSEED (must be set before the interpreter starts)."""
    if os.environ.get("PYTHONHASHSEED") != "0":
        env = dict(os.environ, PYTHONHASHSEED="0", OMP_NUM_THREADS=os.environ.get("OMP_NUM_THREADS", "1"),
                   MKL_NUM_THREADS=os.environ.get("MKL_NUM_THREADS", "1"))
        os.execve(sys.executable, [sys.executable] + sys.argv, env)


# ----------------------------------------------------------------------------------------
# Coq literal emitters
# ----------------------------------------------------------------------------------------


def cz(n):
    n = int(n)
    return f"({n})%Z"


def cn(n):
    n = int(n)
    assert 0 <= n < 5000, f"nat literal too large: {n}"
    return f"{n}%nat"


def cb(b):
    return "true" if b else "false"


def cl(items):
    return "[" + "; ".join(items) + "]"


def clz(xs):
    return cl([cz(x) for x in xs])


def cln(xs):
    return cl([cn(x) for x in xs])


def cp(*items):
    return "(" + ", ".join(items) + ")"


def co(x):
    return "None" if x is None else f"(Some {x})"


def cq(x):
    x = Fraction(x)
    return f"({x.numerator} # {x.denominator})%Q"


# ----------------------------------------------------------------------------------------
# build + proof obligations
# ----------------------------------------------------------------------------------------


def _flock(path):
    
    f = open(path, "w")
    fcntl.flock(f, fcntl.LOCK_EX)
    return f


def ensure_build(prop=None):
    """Full .vo build of what the property needs (a no-op when fresh): theories/<prop>/*.vo and
    their dependencies; everything when prop is None (that is what MANIFEST.setup_cmd does).
    build.sh serialises concurrent builds with flock.  Returns (ok, log)."""
    targets = []
    if prop is not None:
        targets = sorted(str(v.relative_to(COQ))[:-2] + ".vo" for v in (COQ / "theories" / prop).glob("*.v"))
    p = subprocess.run(["./build.sh"] + targets, cwd=COQ, capture_output=True, text=True)
    return p.returncode == 0, (p.stdout + p.stderr)[-4000:]


class Infrastructure(RuntimeError):
    """a failure of the tooling (coqc missing, build lock, disk) as opposed to a breakdown of the correspondence"""


class ImplTimeout(BaseException):
    """the implementation (or the correspondence around it) did not finish within its time budget
    (BaseException: the broad `except Exception` around implementation calls in the props modules must not swallow it)"""


@contextlib.contextmanager
def time_limit(seconds, what=""):
    """SIGALRM-based budget for one call into the implementation (main thread only; nested use keeps the outer alarm's
    remaining time).  A changed library that no longer terminates on a case (a walk that never sees its eos and runs to the
    'practically infinite' default step limit, say) must become a verdict about that case, not a check that hangs."""
    import signal
    import time as _t

    start = _t.monotonic()
    state = {"outer_left": 0.0, "outer_handler": None}

    def _raise(signum, frame):
        # an enclosing budget that ran out while this one was active is reported as the ENCLOSING one
        if state["outer_left"] and callable(state["outer_handler"]) and _t.monotonic() - start >= state["outer_left"] - 1e-3:
            state["outer_handler"](signum, frame)
        raise ImplTimeout(f"no result within {seconds} s: {what}")

    old_handler = signal.signal(signal.SIGALRM, _raise)
    old_left = signal.setitimer(signal.ITIMER_REAL, 0)[0]      # seconds (float) left on an enclosing budget, 0 if none
    state["outer_left"], state["outer_handler"] = old_left, old_handler
    signal.setitimer(signal.ITIMER_REAL, float(seconds) if not old_left else max(1e-4, min(float(seconds), old_left)))
    try:
        yield
    finally:
        signal.setitimer(signal.ITIMER_REAL, 0)
        signal.signal(signal.SIGALRM, old_handler)
        if old_left:
            # the enclosing budget keeps running (float arithmetic: thousands of sub-second inner budgets must not pause it)
            signal.setitimer(signal.ITIMER_REAL, max(1e-4, old_left - (_t.monotonic() - start)))


def regen_sources(prop):
    """Re-translate the property's Python source units (harness/py2coq) from REPO's working tree into
    coq/theories/Gen/*.v.  Returns {unit: {source, functions, problems}} (empty when the property has none)."""
    sys.path.insert(0, str(VERIF / "harness" / "py2coq"))
    try:
        import translate as tr
    finally:
        sys.path.pop(0)
    units = tr.units_of(prop)
    if not units:
        return {}
    lock = _flock(COQ / ".build.lock")
    try:
        gen = COQ / "theories" / "Gen"
        res = tr.regenerate(str(REPO), str(gen), units)
        # units of OTHER properties that this property's files may import (C02/C03 import C01's and C07's ties): a fresh
        # checkout has no Gen directory, and build.sh only regenerates everything when the directory is absent - so make
        # sure every unit exists (missing ones only; an existing file of another property is never rewritten here)
        missing = [u for u in sorted(tr.UNITS) if u not in units and not (gen / f"{u}.v").exists()]
        if missing:
            tr.regenerate(str(REPO), str(gen), missing)
    finally:
        lock.close()
    return {u: {"source": tr.UNITS[u][1], "functions": [q for _, q, _ in tr.UNITS[u][2]], "problems": res[u]}
            for u in units}


def scan_forbidden(prop=None):
    """grep the development for anything that would weaken the kernel's guarantee."""
    hits = []
    files = sorted((COQ / "theories").rglob("*.v"))
    if prop is not None:
        # the property's own files and everything they import from this development
        seen, todo = set(), [COQ / "theories" / prop / "Properties.v"]
        todo += sorted((COQ / "theories" / prop).glob("*.v"))
        while todo:
            f = todo.pop()
            if f in seen or not f.exists():
                continue
            seen.add(f)
            for d, n in re.findall(r"\b([A-Z][A-Za-z0-9_]*)\.([A-Z][A-Za-z0-9_]*)\b", f.read_text()):
                cand = COQ / "theories" / d / (n + ".v")
                if cand.exists():
                    todo.append(cand)
        files = sorted(seen)
    for v in files:
        text = v.read_text()
        # strip comments (non-nested is enough for our files; nested handled by loop)
        prev = None
        while prev != text:
            prev = text
            text = re.sub(r"\(\*[^()]*?\*\)", "", text, flags=re.S)
        text = re.sub(r"\(\*.*?\*\)", "", text, flags=re.S)
        for m in FORBIDDEN.finditer(text):
            hits.append(f"{v.relative_to(COQ)}: {m.group(0)}")
    return hits


_THM_RE = re.compile(r"^\s*(Theorem|Lemma|Corollary|Example|Fact|Remark|Proposition)\s+([A-Za-z0-9_']+)", re.M)


def check_proofs(prop, timeout=900):
    """Re-run coqc on theories/<prop>/Properties.v; parse Print Assumptions output."""
    pfile = COQ / "theories" / prop / "Properties.v"
    text = pfile.read_text()
    theorems = [m.group(2) for m in _THM_RE.finditer(text)]
    printed = re.findall(r"Print Assumptions\s+([A-Za-z0-9_']+)\s*\.", text)
    cmd = ["coqc", "-Q", "theories", "PV", f"theories/{prop}/Properties.v"]
    t0 = time.time()
    try:
        p = subprocess.run(["timeout", str(timeout)] + cmd, cwd=COQ, capture_output=True, text=True)
        out, err, rc = p.stdout, p.stderr, p.returncode
    except Exception as e:  # pragma: no cover
        out, err, rc = "", repr(e), 99
    blocks = re.split(r"(?=Closed under the global context|Axioms:)", out)
    blocks = [b for b in blocks if b.startswith("Closed under") or b.startswith("Axioms:")]
    axioms = {}
    bad_axioms = []
    for name, b in zip(printed, blocks):
        if b.startswith("Axioms:"):
            names = re.findall(r"^([A-Za-z_][A-Za-z0-9_.']*)\s*:", b[len("Axioms:"):], flags=re.M)
            axioms[name] = names
            for a in names:
                if a not in STD_AXIOMS_OK and a.split(".")[-1] not in STD_AXIOMS_OK:
                    bad_axioms.append(f"{name}: {a}")
        else:
            axioms[name] = []
    ok = rc == 0 and len(blocks) == len(printed) and not bad_axioms
    # every theorem except Examples must have a Print Assumptions
    missing = [t for t in theorems if t not in printed and not t.endswith("nonvacuous") and "_ex" not in t]
    discharged = len(theorems) if rc == 0 else len(blocks)
    return {
        "ok": ok and not missing,
        "rc": rc,
        "obligations": len(theorems),
        "discharged": discharged if ok else min(discharged, max(len(theorems) - 1, 0)),
        "theorems": theorems,
        "axioms": axioms,
        "bad_axioms": bad_axioms,
        "missing_print_assumptions": missing,
        "cmd": "cd /verif/coq && " + " ".join(cmd),
        "wall_s": round(time.time() - t0, 2),
        "log": (out[-1500:] + "\n" + err[-3000:]) if rc != 0 else "",
    }


def run_coqchk(prop, timeout=1500):
    cmd = ["coqchk", "-silent", "-o", "-Q", "theories", "PV", f"PV.{prop}.Properties"]
    p = subprocess.run(["timeout", str(timeout)] + cmd, cwd=COQ, capture_output=True, text=True)
    return p.returncode == 0, (p.stdout + p.stderr)[-3000:], "cd /verif/coq && " + " ".join(cmd)


# ----------------------------------------------------------------------------------------
# evaluating the model inside Coq
# ----------------------------------------------------------------------------------------

_HEADER = """From Coq Require Import List ZArith QArith Bool String Ascii.
Import ListNotations.
Local Open Scope Z_scope.
Fixpoint vfailing (i : nat) (l : list bool) : list nat :=
  match l with [] => [] | b :: t => if b then vfailing (S i) t else i :: vfailing (S i) t end.
"""


class CoqError(RuntimeError):
    pass


def _coqc_file(path, timeout):
    p = subprocess.run(
        ["timeout", str(timeout), "coqc", "-Q", str(COQ / "theories"), "PV", "-w", "-all", str(path)],
        cwd=path.parent, capture_output=True, text=True,
    )
    if p.returncode != 0:
        raise CoqError(f"coqc failed on {path}:\n{p.stdout[-1500:]}\n{p.stderr[-3000:]}")
    return p.stdout


def coq_eval_bools(workdir, imports, terms, shard=300, jobs=None, timeout=900, tag="cases"):
    """terms: Coq expressions of type bool.  Returns the list of their values (vm_compute)."""
    if not terms:
        return []
    jobs = jobs or int(os.environ.get("VERIF_JOBS", "16"))
    workdir = Path(workdir)
    shards = [terms[i:i + shard] for i in range(0, len(terms), shard)]
    files = []
    for k, sh in enumerate(shards):
        f = workdir / f"{tag}_{k}.v"
        body = ";\n  ".join(sh)
        f.write_text(
            _HEADER + imports + f"\nDefinition vcases : list bool := [\n  {body}\n].\n"
            "Definition vres := Eval vm_compute in vfailing 0 vcases.\n"
            "Print vres.\n"
        )
        files.append(f)

    def one(f):
        out = _coqc_file(f, timeout)
        m = re.search(r"vres\s*=\s*(.*?)\s*:\s*list nat", out, flags=re.S)
        if not m:
            raise CoqError(f"cannot parse coqc output for {f}: {out[-500:]}")
        return [int(x) for x in re.findall(r"\d+", m.group(1))]

    with ThreadPoolExecutor(max_workers=jobs) as ex:
        fails = list(ex.map(one, files))
    res = []
    for sh, fl in zip(shards, fails):
        bad = set(fl)
        res.extend([i not in bad for i in range(len(sh))])
    return res


def coq_eval_print(workdir, imports, term, timeout=300, tag="show"):
    """Raw text of `Eval vm_compute in term` (for replay files)."""
    f = Path(workdir) / f"{tag}_{abs(hash(term)) % 10**8}.v"
    f.write_text(_HEADER + imports + f"\nDefinition vshow := Eval vm_compute in ({term}).\nPrint vshow.\n")
    try:
        out = _coqc_file(f, timeout)
    except CoqError as e:
        return f"<coq error: {e}>"
    return re.sub(r"\s+", " ", out).strip()[:4000]


# ----------------------------------------------------------------------------------------
# exception canonicalisation
# ----------------------------------------------------------------------------------------


def exc_kind(e):
    for k in (ValueError, RuntimeError, NotImplementedError, IndexError, KeyError, TypeError,
              ZeroDivisionError, AssertionError, IOError):
        if isinstance(e, k):
            return k.__name__
    return "other:" + type(e).__name__


def digest(obj):
    return hashlib.sha1(json.dumps(obj, sort_keys=True, default=str).encode()).hexdigest()[:12]


# ----------------------------------------------------------------------------------------
# the check driver
# ----------------------------------------------------------------------------------------


class Check:
    def __init__(self, prop, tier, seed, replay=None):
        self.prop, self.tier, self.seed = prop, tier, int(seed)
        self.t0 = time.time()
        self.rng = random.Random(self.seed)
        self.workdir = VERIF / ".work" / f"{prop}-{os.getpid()}"
        self.workdir.mkdir(parents=True, exist_ok=True)
        self.violations = []  # list of dicts (already filtered by known findings)
        self.known_hits = {}  # id -> (entry, count)
        self.evaluations = 0
        self.nontrivial = set()
        self.samples = []
        self.hist = {}
        self.streams = {}
        self.rule = ""
        self.assumptions = []
        self.proofs = None
        self.extra = {}
        self.notes = []
        kf = VERIF / "known_findings.json"
        self.known = [e for e in json.loads(kf.read_text())["findings"]
                      if e["property"] == prop] if kf.exists() else []
        kd = VERIF / "known_findings.d" / f"{prop}.json"  # per-property part of the same committed list
        if kd.exists():
            self.known += [e for e in json.loads(kd.read_text())["findings"] if e["property"] == prop]

    # -- bookkeeping ----------------------------------------------------------------
    def count(self, key, n=1):
        self.hist[key] = self.hist.get(key, 0) + n

    def note_case(self, case, nontrivial, stream="random"):
        self.evaluations += 1
        self.streams[stream] = self.streams.get(stream, 0) + 1
        if nontrivial:
            self.nontrivial.add(digest(case))
        if len(self.samples) < 6 or (len(self.samples) < 12 and stream not in {s.get("stream") for s in self.samples}):
            self.samples.append({"stream": stream, "case": case})

    # -- step 1 -----------------------------------------------------------------------
    def run_proofs(self):
        gen = regen_sources(self.prop)
        ok, log = ensure_build(self.prop)
        forb = scan_forbidden(self.prop)
        pr = check_proofs(self.prop) if ok else {
            "ok": False, "rc": 2, "obligations": len(_THM_RE.findall((COQ / "theories" / self.prop / "Properties.v").read_text())),
            "discharged": 0, "theorems": [], "axioms": {}, "bad_axioms": [], "missing_print_assumptions": [],
            "cmd": "cd /verif/coq && ./build.sh", "wall_s": 0, "log": log}
        pr["forbidden"] = forb
        pr["build_ok"] = ok
        if gen:
            pr["translated_units"] = gen
            self.extra["translated_source_units"] = gen
            bad = {u: g["problems"] for u, g in gen.items() if g["problems"]}
            if bad:
                pr["ok"] = False
                pr["log"] = (pr.get("log") or "") + "\npy2coq could not translate: " + json.dumps(bad)
        if forb:
            pr["ok"] = False
        if self.tier == "thorough" and pr["ok"] and os.environ.get("VERIF_SKIP_COQCHK") != "1":
            cok, clog, ccmd = run_coqchk(self.prop)
            pr["coqchk_ok"], pr["coqchk_cmd"], pr["coqchk_tail"] = cok, ccmd, clog[-1200:]
            if not cok:
                pr["ok"] = False
        self.proofs = pr
        return pr

    # -- step 3: reporting ---------------------------------------------------------------
    def known_match(self, signature_fn, record):
        """signature_fn(entry, record) -> bool for entries with status 'known'."""
        for e in self.known:
            if e.get("status") != "known":
                continue
            try:
                if signature_fn(e, record):
                    return e
            except Exception:
                continue
        return None

    def report(self, record, signature_fn=None, no_failing_input=False):
        """record: dict describing the failing case (goes to the replay file)."""
        e = self.known_match(signature_fn, record) if signature_fn and not no_failing_input else None
        if e is not None:
            ent = self.known_hits.setdefault(e["id"], [e, 0])
            ent[1] += 1
            return "known"
        record = dict(record)
        record["property"] = self.prop
        record["seed"] = self.seed
        record["tier"] = self.tier
        record["repo"] = str(REPO)
        record["no_failing_input_found"] = bool(no_failing_input)
        rp = VERIF / "replays"
        rp.mkdir(exist_ok=True)
        path = rp / f"{self.prop}-{digest(record)}.json"
        path.write_text(json.dumps(record, indent=1, default=str))
        if any(v["replay"] == str(path) for v in self.violations):
            return "violation"
        self.violations.append({"replay": str(path), "nfi": bool(no_failing_input),
                                "what": record.get("what", "")})
        return "violation"

    # -- step 4 ---------------------------------------------------------------------------
    def finish(self):
        pr = self.proofs or {"ok": False, "obligations": 0, "discharged": 0, "axioms": {}, "cmd": ""}
        if not pr["ok"] and not any(not v["nfi"] for v in self.violations):
            # proofs no longer check and the search found no failing input
            self.report({"what": "proof obligations of " + self.prop + " no longer check",
                         "theorem_file": f"coq/theories/{self.prop}/Properties.v",
                         "failing": {k: pr.get(k) for k in ("rc", "bad_axioms", "forbidden", "missing_print_assumptions", "build_ok", "coqchk_ok")},
                         "log": pr.get("log", "")}, no_failing_input=True)
        all_ax = sorted({a for v in pr.get("axioms", {}).values() for a in v})
        tb = [
            "Coq 8.16.1 kernel (coqc); vm_compute used for Examples/witnesses and to evaluate the model in the correspondence; no native_compute",
            "axioms per Print Assumptions: " + (", ".join(all_ax) if all_ax else "none (every theorem 'Closed under the global context')"),
            "hand-written Gallina model tied to /repo by the differential correspondence of this run (harness/props/%s.py): generators, canonicalisation and comparison are trusted" % self.prop.lower(),
            "PyTorch/NumPy/CPython primitives used by the anchored code are modelled by their documented semantics",
        ]
        cov = {
            "obligations": pr["obligations"],
            "discharged": pr["discharged"],
            "checker_cmd": pr.get("cmd", ""),
            "trusted_base": tb + list(self.extra.get("trusted_base", [])),
            "theorems": pr.get("theorems", []),
            "axioms_by_theorem": pr.get("axioms", {}),
            "evaluations": self.evaluations,
            "distinct_nontrivial": len(self.nontrivial),
            "rule": self.rule,
            "samples": self.samples[:12],
            "streams": self.streams,
            "histogram": dict(sorted(self.hist.items())),
            "exhaustive": bool(self.extra.get("exhaustive", False)),
            "known_findings_hit": {k: v[1] for k, v in self.known_hits.items()},
        }
        for k in ("coqchk_ok", "coqchk_cmd", "coqchk_tail"):
            if k in pr:
                cov[k] = pr[k]
        for k, v in self.extra.items():
            if k not in ("trusted_base", "exhaustive"):
                cov[k] = v
        ev = {
            "property_id": self.prop,
            "tier": self.tier,
            "seed": self.seed,
            "level": "proof",
            "coverage": cov,
            "assumptions": self.assumptions,
            "wall_s": round(time.time() - self.t0, 2),
            "violations": len(self.violations),
        }
        # evidence describes /repo; developer runs against a scratch tree (VERIF_REPO) must not overwrite it
        evdir = VERIF / "evidence" if str(REPO) == "/repo" else VERIF / ".work" / "evidence-scratch"
        evdir.mkdir(parents=True, exist_ok=True)
        (evdir / f"{self.prop}.json").write_text(json.dumps(ev, indent=1, default=str) + "\n")
        for kid, (e, n) in sorted(self.known_hits.items()):
            print(f"KNOWN-FINDING: property={self.prop} {kid}: {e['what']} ({n} cases this run)")
        for v in self.violations:
            tail = " no-failing-input-found" if v["nfi"] else ""
            print(f"VIOLATION property={self.prop} replay={v['replay']}{tail}")
        print(f"[{self.prop}] tier={self.tier} seed={self.seed} proofs={pr['discharged']}/{pr['obligations']} "
              f"cases={self.evaluations} nontrivial={len(self.nontrivial)} violations={len(self.violations)} "
              f"wall={ev['wall_s']}s")
        shutil.rmtree(self.workdir, ignore_errors=True)
        return 1 if self.violations else 0


def shrink(case, still_fails, candidates, budget=40):
    """Greedy delta-debugging: candidates(case) yields smaller cases; still_fails(case)->bool."""
    n = 0
    improved = True
    while improved and n < budget:
        improved = False
        for c in candidates(case):
            n += 1
            if n > budget:
                break
            try:
                if still_fails(c):
                    case = c
                    improved = True
                    break
            except Exception:
                continue
    return case


def load_corpus(prop):
    d = VERIF / "corpus" / prop
    out = []
    if d.is_dir():
        for f in sorted(d.glob("*.json")):
            try:
                out.append(json.loads(f.read_text()))
            except Exception:
                pass
    return out
