(* C15 — tie lemmas, part 2a: the learning-rate block. *)
From Coq Require Import ZArith QArith List String Bool Arith Lia ZifyBool ZifyNat ZifyComparison.
From PV Require Import C15.Model.
From PV Require Import MiniPy.Syntax MiniPy.Interp Gen.C15Src C15.SrcRun C15.TieLib C15.TieLoop.
Import ListNotations.
Local Open Scope string_scope.
Local Open Scope Z_scope.

#[local] Arguments Z.sub : simpl never.
#[local] Arguments Z.add : simpl never.
#[local] Arguments Z.mul : simpl never.
#[local] Arguments Z.max : simpl never.
#[local] Arguments Z.of_nat : simpl never.
#[local] Arguments Z.to_nat : simpl never.
#[local] Arguments Z.eqb : simpl never.
#[local] Arguments Z.leb : simpl never.
#[local] Arguments Z.ltb : simpl never.
#[local] Arguments Z.compare : simpl never.
#[local] Arguments Qred : simpl never.
#[local] Arguments Qmult : simpl never.
#[local] Arguments Qminus : simpl never.
#[local] Arguments Qplus : simpl never.
#[local] Arguments Qcompare : simpl never.
#[local] Arguments Qeq_bool : simpl never.
#[local] Arguments Qle_bool : simpl never.
#[local] Arguments enc_cache : simpl never.
#[local] Arguments enc_user : simpl never.

(* rlr_epoch = ...; rlr_info = self.get_info(rlr_epoch); the learning-rate countdown statement *)
Lemma rlr_tie p c os dflt r u epoch va train cont x y lr : r_lr r = Some lr ->
  rlr_expected p c os dflt r u epoch va cont lr
    (exec ext15 ufe_rlr (st_of (vars_es (enc_self p c) (enc_opt os dflt) (enc_row_u r u) epoch va train cont x y))).
Proof.
  intros Hlr. rewrite enc_opt_optv.
  unfold rlr_expected, var_in, rlr_step, Qlt_b, below, nonzero, ufe_rlr, st_of, vars_es, vars_ctl, enc_row_u,
    enc_self, enc_params, set_rlr, optv, vlog10.
  rewrite Hlr.
  rlr_script.
Qed.

