(* C05 - the whole search (Model.search): the loop, freezing of finished elements, and the
   clauses of the property that talk about the returned beam. *)
From Coq Require Import List Arith Bool QArith Qcanon Lia.
From PV Require Import C05.Model C05.ProofsNum C05.ProofsModel.
Import ListNotations.
Local Open Scope nat_scope.

(* ---- order on masses ---------------------------------------------------------------------- *)

Definition mle (a b : mass) : Prop :=
  match a, b with
  | NegInf, _ => True
  | Fin _, NegInf => False
  | Fin x, Fin y => (x <= y)%Qc
  end.

Lemma mge0_mle : forall a b, mge_eps 0%Qc a b = true -> mle b a.
Proof.
  destruct a, b; cbn; intros H; auto; try discriminate.
  apply qleb_true in H. replace (q + 0)%Qc with q in H by ring. auto.
Qed.

Lemma mle_trans : forall a b c, mle a b -> mle b c -> mle a c.
Proof. destruct a, b, c; cbn; intros; auto; try tauto. eapply qle_trans; eauto. Qed.

Lemma mle_refl : forall a, mle a a.
Proof. destruct a; cbn; auto. apply qle_refl. Qed.

Definition sorted_desc (l : list mass) : Prop :=
  forall i j, i <= j -> j < length l -> mle (nth j l NegInf) (nth i l NegInf).

Lemma sorted_eps_desc : forall l, sorted_eps 0%Qc l = true -> sorted_desc l.
Proof.
  induction l as [|x l]; intros H i j Lij Lj; [cbn in Lj; lia|].
  assert (Hl : sorted_eps 0%Qc l = true).
  { destruct l; auto. cbn [sorted_eps] in H. apply andb_true_iff in H. tauto. }
  destruct i.
  - destruct j; [apply mle_refl|]. cbn [nth]. cbn [length] in Lj.
    (* x >= head of l >= l[j] *)
    destruct l as [|y l]; [cbn in Lj; lia|].
    cbn [sorted_eps] in H. apply andb_true_iff in H. destruct H as [H1 _].
    apply mle_trans with y; [|apply mge0_mle; auto].
    apply (IHl Hl 0 j); [lia|cbn [length] in *; lia].
  - destruct j; [lia|]. cbn [nth]. apply IHl; auto; cbn [length] in Lj; lia.
Qed.

Lemma sorted_eps_neginf' : forall n, sorted_eps 0%Qc (NegInf :: repeat NegInf n) = true.
Proof.
  induction n; [reflexivity|]. change (repeat NegInf (S n)) with (NegInf :: repeat NegInf n).
  change (sorted_eps 0%Qc (NegInf :: NegInf :: repeat NegInf n))
    with (mge_eps 0%Qc NegInf NegInf && sorted_eps 0%Qc (NegInf :: repeat NegInf n)).
  rewrite IHn. reflexivity.
Qed.

Lemma sorted_eps_neginf : forall n, sorted_eps 0%Qc (repeat NegInf n) = true.
Proof. destruct n; auto. apply sorted_eps_neginf'. Qed.

Lemma sorted_eps_app_neginf : forall l n, sorted_eps 0%Qc l = true ->
  sorted_eps 0%Qc (l ++ repeat NegInf n) = true.
Proof.
  induction l as [|x l]; intros n H.
  - apply sorted_eps_neginf.
  - destruct l as [|y l].
    + cbn [app]. destruct n; auto. pose proof (sorted_eps_neginf' n) as SN.
      change (repeat NegInf (S n)) with (NegInf :: repeat NegInf n).
      change (sorted_eps 0%Qc (x :: NegInf :: repeat NegInf n))
        with (mge_eps 0%Qc x NegInf && sorted_eps 0%Qc (NegInf :: repeat NegInf n)).
      rewrite SN. destruct x; reflexivity.
    + cbn [app sorted_eps] in *. apply andb_true_iff in H. destruct H as [H1 H2].
      rewrite H1. apply (IHl n H2).
Qed.

Lemma sorted_desc_neginf_last : forall l i j, sorted_desc l -> i <= j -> j < length l ->
  nth i l NegInf = NegInf -> nth j l NegInf = NegInf.
Proof.
  intros l i j S Lij Lj H. specialize (S i j Lij Lj). rewrite H in S.
  destruct (nth j l NegInf); auto. destruct S.
Qed.

(* ---- map2 ------------------------------------------------------------------------------------ *)

Lemma map2_map : forall {A B C D} (f : B -> C -> D) (g : A -> B) (h : A -> C) l,
  map2 f (map g l) (map h l) = map (fun x => f (g x) (h x)) l.
Proof. induction l; cbn; auto. f_equal; auto. Qed.

Lemma map2_app : forall {A B C} (f : A -> B -> C) l1 l2 m1 m2, length l1 = length m1 ->
  map2 f (l1 ++ l2) (m1 ++ m2) = map2 f l1 m1 ++ map2 f l2 m2.
Proof.
  induction l1; destruct m1; cbn; intros; auto; try lia. f_equal. apply IHl1. lia.
Qed.

Lemma map2_repeat : forall {A B C} (f : A -> B -> C) a b n,
  map2 f (repeat a n) (repeat b n) = repeat (f a b) n.
Proof. induction n; cbn; auto. f_equal; auto. Qed.

Lemma map2_length : forall {A B C} (f : A -> B -> C) l m, length l = length m ->
  length (map2 f l m) = length l.
Proof. induction l; destruct m; cbn; intros; auto; try lia. Qed.

Lemma map2_nth : forall {A B C} (f : A -> B -> C) l m i da db dc, length l = length m ->
  i < length l -> nth i (map2 f l m) dc = f (nth i l da) (nth i m db).
Proof.
  induction l; destruct m; cbn [length]; intros; try lia.
  destruct i; cbn; auto. apply IHl; lia.
Qed.

(* ---- the step function returns masses in non-increasing order ----------------------------- *)

Definition probs_of (bm : beam) : list mass := map2 madd (b_nb bm) (b_b bm).

Lemma cnb_cb_cand : forall V fr bm ind, 1 <= V -> ind < ncand V bm ->
  madd (c_nb V fr bm ind) (c_b V fr bm ind) = cand V fr bm ind.
Proof.
  intros V fr bm ind Vpos R. unfold c_nb, c_b, cand, c_src, c_nonext. unfold ncand in R.
  destruct (Kp bm * V <=? ind) eqn:E1.
  - apply Nat.leb_le in E1. replace (ind <? Kp bm * V) with false by (symmetry; apply Nat.ltb_ge; auto).
    reflexivity.
  - apply Nat.leb_gt in E1. replace (ind <? Kp bm * V) with true by (symmetry; apply Nat.ltb_lt; auto).
    replace (Nat.min ind (Kp bm * V - 1)) with ind by lia.
    destruct (nb_ext_c V fr bm (ind / V) (ind mod V)); cbn; auto. f_equal. ring.
Qed.

Record topk_facts V fr bm width choice : Prop := mkTopk
  { tk_len : length choice = Kout V bm width;
    tk_range : forall i, In i choice -> i < ncand V bm;
    tk_nodup : NoDup choice;
    tk_sorted : sorted_eps 0%Qc (map (cand V fr bm) choice) = true;
    tk_dom : forall u, u < ncand V bm -> ~ In u choice ->
             forall c, In c choice -> mle (cand V fr bm u) (cand V fr bm c) }.

Lemma nth_map_seq : forall {A} (f : nat -> A) n i d, i < n -> nth i (map f (seq 0 n)) d = f i.
Proof.
  intros. rewrite (nth_indep _ d (f 0)) by (rewrite map_length, seq_length; auto).
  rewrite map_nth, seq_nth; auto.
Qed.

Lemma last_nth : forall {A} (l : list A) d, last l d = nth (length l - 1) l d.
Proof.
  induction l as [|a l]; intros; auto. destruct l as [|b t]; auto.
  change (last (a :: b :: t) d) with (last (b :: t) d). rewrite IHl.
  cbn [length]. replace (S (S (length t)) - 1) with (S (length t - 0)) by lia.
  replace (S (length t) - 1) with (length t - 0) by lia. reflexivity.
Qed.

Lemma sorted_desc_last : forall l i, sorted_desc l -> i < length l -> mle (last l NegInf) (nth i l NegInf).
Proof. intros l i S L. rewrite last_nth. apply S; lia. Qed.

Lemma topk_ok_facts : forall V fr bm width choice,
  topk_ok V fr bm 0%Qc width choice = true -> topk_facts V fr bm width choice.
Proof.
  intros V fr bm width choice H. unfold topk_ok in H.
  repeat (apply andb_true_iff in H; destruct H as [H ?]).
  apply Nat.eqb_eq in H.
  assert (R : forall i, In i choice -> i < ncand V bm).
  { intros i Hi. rewrite forallb_forall in H3. apply Nat.ltb_lt. auto. }
  assert (EQ : map (fun i => nth i (map (cand V fr bm) (seq 0 (ncand V bm))) NegInf) choice
               = map (cand V fr bm) choice).
  { apply map_ext_in. intros i Hi. apply nth_map_seq. auto. }
  rewrite EQ in *.
  constructor; auto.
  - apply nodupb_NoDup; auto.
  - intros u Ru NI c Hc. rewrite forallb_forall in H0.
    specialize (H0 u (proj2 (in_seq _ _ _) (conj (Nat.le_0_l _) Ru))).
    apply orb_true_iff in H0. destruct H0 as [H0|H0].
    + exfalso. apply NI. apply existsb_exists in H0. destruct H0 as (x & Hx & E).
      apply Nat.eqb_eq in E. subst. auto.
    + rewrite nth_map_seq in H0 by auto. apply mge0_mle in H0.
      apply mle_trans with (last (map (cand V fr bm) choice) NegInf); auto.
      apply In_nth with (d := 0) in Hc. destruct Hc as (i & Li & <-).
      rewrite <- (map_nth (cand V fr bm)) with (d := 0).
      rewrite (nth_indep _ (cand V fr bm 0) NegInf) by (rewrite map_length; auto).
      apply sorted_desc_last; [apply sorted_eps_desc; auto|rewrite map_length; auto].
Qed.

Lemma advance_probs : forall V fr bm width choice, 1 <= V ->
  length choice = Kout V bm width -> (forall i, In i choice -> i < ncand V bm) ->
  probs_of (fst (advance V fr bm width choice))
  = map (cand V fr bm) choice ++ repeat NegInf (width - Kout V bm width).
Proof.
  intros V fr bm width choice Vpos CL CR. unfold probs_of, advance. cbn [fst b_nb b_b].
  rewrite map2_app by (rewrite !map_length; auto). rewrite map2_map, map2_repeat. f_equal.
  apply map_ext_in. intros i Hi. apply cnb_cb_cand; auto.
Qed.

Lemma advance_sorted : forall V fr bm width choice, 1 <= V ->
  topk_ok V fr bm 0%Qc width choice = true ->
  sorted_eps 0%Qc (probs_of (fst (advance V fr bm width choice))) = true.
Proof.
  intros V fr bm width choice Vpos H. apply topk_ok_facts in H. destruct H.
  rewrite advance_probs by auto. apply sorted_eps_app_neginf. auto.
Qed.

(* ---- what a caller sees of a beam ------------------------------------------------------------ *)

Definition observe (r : list (list nat) * list nat * list mass)
  : list (list nat) * list nat * list mass :=
  let '(y, ls, ps) := r in (map2 (fun l c => firstn l c) ls y, ls, ps).

Definition kpb (bm : beam) : nat := length (b_nb bm).

Definition bobs (width : nat) (bm : beam) : list (list nat) * list nat * list mass :=
  if (kpb bm =? 1) && negb (width =? 1) then
    (repeat (pref bm 0) width, repeat (lens bm 0) width, probs_of bm ++ repeat NegInf (width - 1))
  else (map (pref bm) (seq 0 (kpb bm)), b_lens bm, probs_of bm).

Record wfv (bm : beam) : Prop := mkWfv
  { wfv_pos : 1 <= kpb bm;
    wfv_b : length (b_b bm) = kpb bm;
    wfv_y : length (b_y bm) = kpb bm;
    wfv_lens : length (b_lens bm) = kpb bm;
    wfv_le : forall k, k < kpb bm -> lens bm k <= length (col bm k) }.

Lemma wf_wfv : forall bm, wf bm -> wfv bm.
Proof.
  intros bm W. destruct W. constructor; auto.
  intros k L. rewrite wf_col by auto. apply wf_len.
Qed.

Lemma map2_seq : forall {A B C} (f : A -> B -> C) l m da db, length l = length m ->
  map2 f l m = map (fun k => f (nth k l da) (nth k m db)) (seq 0 (length l)).
Proof.
  induction l; destruct m; cbn [length]; intros; try lia; auto.
  cbn [map2 seq map nth]. f_equal. rewrite (IHl m da db) by lia.
  rewrite <- seq_shift, map_map. reflexivity.
Qed.

Lemma map_const_repeat : forall {A} (f : nat -> A) c n, (forall k, k < n -> f k = c) ->
  map f (seq 0 n) = repeat c n.
Proof.
  intros A f c n H. apply nth_ext with (d := f 0) (d' := c).
  - rewrite map_length, seq_length, repeat_length. auto.
  - intros i Li. rewrite map_length, seq_length in Li.
    rewrite map_nth, seq_nth, nth_repeat by auto. cbn. apply H. auto.
Qed.

Lemma observe_search : forall V width fus lm len frames choices,
  wfv (sloop V width fus lm len 0 frames choices init_beam) ->
  observe (search V width fus lm len frames choices)
  = bobs width (sloop V width fus lm len 0 frames choices init_beam).
Proof.
  intros V width fus lm len frames choices Wv. unfold search, bobs.
  set (bm := sloop V width fus lm len 0 frames choices init_beam) in *. unfold kpb.
  destruct ((length (b_nb bm) =? 1) && negb (width =? 1)); unfold observe.
  - rewrite map2_repeat. reflexivity.
  - f_equal. f_equal. rewrite (map2_seq _ _ _ 0 []) by (rewrite (wfv_lens bm Wv), (wfv_y bm Wv); auto).
    rewrite (wfv_lens bm Wv). reflexivity.
Qed.

(* ---- a finished element: nothing visible changes --------------------------------------------- *)

Lemma frozen_step : forall V width fus lm nonext blank choice bm, 1 <= width ->
  wfv bm -> (kpb bm = width \/ kpb bm = 1) ->
  let bm' := sstep V width fus lm true nonext blank choice bm in
  bobs width bm' = bobs width bm /\ wfv bm' /\ kpb bm' = width.
Proof.
  intros V width fus lm nonext blank choice bm Wpos Wv KP. cbv zeta.
  unfold sstep. set (nx := fst (advance V _ bm width choice)).
  fold (kpb bm). destruct Wv as [P1 P2 P3 P4 P5].
  destruct (Nat.eq_dec (kpb bm) width) as [E|NE].
  - (* the beam already has its full width *)
    unfold widen, pad_inf. replace (kpb bm <? width) with false by (symmetry; apply Nat.ltb_ge; lia).
    split; [|split].
    + unfold bobs, kpb, probs_of. cbn [b_nb b_b b_lens].
      fold (kpb bm). destruct ((kpb bm =? 1) && negb (width =? 1)) eqn:C.
      * apply andb_true_iff in C. destruct C as [C1 C2]. apply Nat.eqb_eq in C1.
        apply negb_true_iff, Nat.eqb_neq in C2. lia.
      * f_equal. f_equal. apply map_ext_in. intros k Hk. apply in_seq in Hk.
        unfold pref, prefix_of. cbn [b_lens b_y].
        rewrite (nth_indep _ [] ([] ++ [0])) by (rewrite map_length; lia).
        rewrite (map_nth (fun c => c ++ [0])). apply firstn_app_le. apply (P5 k). lia.
    + constructor; unfold kpb; cbn [b_nb b_b b_y b_lens]; auto; try (rewrite map_length; auto).
      intros k Lk. unfold lens, col. cbn [b_lens b_y].
      rewrite (nth_indep _ [] ([] ++ [0])) by (rewrite map_length; fold (kpb bm) in Lk; lia).
      rewrite (map_nth (fun c => c ++ [0])), app_length. specialize (P5 k Lk). unfold lens, col in P5. lia.
    + unfold kpb. cbn [b_nb]. auto.
  - (* the initial one-slot beam is widened: one real slot, the rest invalid *)
    assert (K1 : kpb bm = 1) by lia.
    unfold widen, pad_inf. replace (kpb bm <? width) with true by (symmetry; apply Nat.ltb_lt; lia).
    assert (LNB : length (b_nb bm ++ repeat NegInf (width - kpb bm)) = width).
    { rewrite app_length, repeat_length. fold (kpb bm). lia. }
    match goal with |- bobs width ?b = _ /\ _ => set (bm' := b) end.
    assert (KB : kpb bm' = width) by (unfold kpb, bm'; cbn [b_nb]; exact LNB).
    split; [|split].
    + unfold bobs at 1. rewrite KB.
      replace ((width =? 1) && negb (width =? 1)) with false by (destruct (width =? 1); reflexivity).
      unfold bobs. rewrite K1. cbn [Nat.eqb andb]. unfold bm'.
      replace (negb (width =? 1)) with true by (symmetry; apply negb_true_iff, Nat.eqb_neq; lia).
      f_equal; [f_equal|]; try reflexivity.
      * apply map_const_repeat. intros k Lk. unfold pref, prefix_of. cbn [b_lens b_y].
        rewrite nth_repeat_if. apply Nat.ltb_lt in Lk. rewrite Lk.
        rewrite (nth_indep _ [] ([] ++ [0])) by (rewrite map_length, repeat_length; apply Nat.ltb_lt; auto).
        rewrite (map_nth (fun c => c ++ [0])), nth_repeat_if, Lk.
        apply firstn_app_le. apply (P5 0). lia.
      * unfold probs_of. cbn [b_nb b_b]. rewrite map2_app by (fold (kpb bm); lia).
        rewrite map2_repeat. rewrite K1. reflexivity.
    + constructor; rewrite ?KB; unfold bm'; cbn [b_nb b_b b_y b_lens]; try lia.
      * rewrite app_length, repeat_length, P2. lia.
      * rewrite map_length, repeat_length. auto.
      * rewrite repeat_length. auto.
      * intros k Lk. unfold lens, col. cbn [b_lens b_y]. rewrite nth_repeat_if.
        apply Nat.ltb_lt in Lk. rewrite Lk.
        rewrite (nth_indep _ [] ([] ++ [0])) by (rewrite map_length, repeat_length; apply Nat.ltb_lt; auto).
        rewrite (map_nth (fun c => c ++ [0])), nth_repeat_if, Lk, app_length.
        assert (L0 : 0 < kpb bm) by lia. specialize (P5 0 L0). unfold lens, col in P5. lia.
    + exact KB.
Qed.

Lemma dead_phase : forall V width fus lm len frames choices t bm, 1 <= width -> len <= t ->
  wfv bm -> (kpb bm = width \/ kpb bm = 1) ->
  bobs width (sloop V width fus lm len t frames choices bm) = bobs width bm /\
  wfv (sloop V width fus lm len t frames choices bm).
Proof.
  intros V width fus lm len. induction frames as [|[nonext blank] frames]; intros choices t bm Wpos L Wv KP; auto.
  cbn [sloop]. replace (len <=? t) with true by (symmetry; apply Nat.leb_le; auto).
  destruct (frozen_step V width fus lm nonext blank (hd [] choices) bm Wpos Wv KP) as (E & Wv' & KP').
  destruct (IHframes (tl choices) (S t) _ Wpos (Nat.le_le_succ_r _ _ L) Wv' (or_introl KP')) as [E2 W2].
  split; auto. congruence.
Qed.

(* ---- the steps an element really takes -------------------------------------------------------- *)

Lemma sloop_app : forall V width fus lm len f1 f2 choices t bm,
  sloop V width fus lm len t (f1 ++ f2) choices bm
  = sloop V width fus lm len (t + length f1) f2 (skipn (length f1) choices)
      (sloop V width fus lm len t f1 choices bm).
Proof.
  intros V width fus lm len. induction f1 as [|[nonext blank] f1]; intros f2 choices t bm.
  - cbn. rewrite Nat.add_0_r. reflexivity.
  - cbn [app sloop length]. rewrite IHf1. replace (S t + length f1) with (t + S (length f1)) by lia.
    destruct choices; cbn [tl skipn]; auto. rewrite skipn_nil. reflexivity.
Qed.

Lemma choices_ok_app : forall V width fus lm eps len f1 f2 choices t bm,
  choices_ok V width fus lm eps len t (f1 ++ f2) choices bm = true ->
  choices_ok V width fus lm eps len t f1 choices bm = true.
Proof.
  intros V width fus lm eps len. induction f1 as [|[nonext blank] f1]; intros f2 choices t bm H; auto.
  cbn [app choices_ok] in *. apply andb_true_iff in H. destruct H as [H1 H2].
  rewrite H1. apply (IHf1 f2). auto.
Qed.

Lemma live_phase : forall V width fus lm len frames choices t bm, 1 <= V -> 1 <= width ->
  t + length frames <= len ->
  choices_ok V width fus lm 0%Qc len t frames choices bm = true ->
  inv V bm -> b_t bm = t ->
  let bm' := sloop V width fus lm len t frames choices bm in
  inv V bm' /\ b_t bm' = t + length frames /\
  (frames <> [] -> Kp bm' = width /\ sorted_eps 0%Qc (probs_of bm') = true).
Proof.
  intros V width fus lm len. induction frames as [|[nonext blank] frames];
    intros choices t bm Vpos Wpos L C I T; cbv zeta.
  - cbn [sloop length]. split; [auto|split; [lia|]]. intros H. exfalso. apply H. reflexivity.
  - cbn [sloop choices_ok length] in *. cbn [length] in L.
    replace (len <=? t) with false in * by (symmetry; apply Nat.leb_gt; lia).
    cbn [orb] in C. apply andb_true_iff in C. destruct C as [C1 C2].
    pose proof (topk_ok_facts _ _ _ _ _ C1) as F. destruct F as [F1 F2 F3 F4 F5].
    unfold sstep in *. set (fr := mk_frame fus lm nonext blank bm) in *.
    set (nx := fst (advance V fr bm width (hd [] choices))) in *.
    assert (Inx : inv V nx) by (apply advance_inv; auto).
    assert (Tnx : b_t nx = S t) by (unfold nx, advance; cbn; congruence).
    destruct (IHframes (tl choices) (S t) nx Vpos Wpos) as (J1 & J2 & J3); auto; try lia.
    split; [exact J1|]. split; [lia|]. intros _. destruct frames as [|f frames].
    + cbn [sloop]. split.
      * apply (nx_Kp V width fr bm (hd [] choices)); auto.
      * apply advance_sorted; auto.
    + apply J3. discriminate.
Qed.

(* ---- the returned beam ---------------------------------------------------------------------------- *)

Section SearchThms.
  Variables (V width : nat) (fus : fusion) (lm : list nat -> list Qc) (len : nat).
  Variables (frames : list (list Qc * Qc)) (choices : list (list nat)).
  Hypothesis Vpos : 1 <= V.
  Hypothesis Wpos : 1 <= width.
  Hypothesis COK : choices_ok V width fus lm 0%Qc len 0 frames choices init_beam = true.

  Definition live_frames : list (list Qc * Qc) := firstn len frames.
  Definition live_beam : beam := sloop V width fus lm len 0 live_frames choices init_beam.

  Lemma live_len : length live_frames = Nat.min len (length frames).
  Proof. apply firstn_length. Qed.

  Lemma live_ok : choices_ok V width fus lm 0%Qc len 0 live_frames choices init_beam = true.
  Proof.
    apply choices_ok_app with (f2 := skipn len frames). unfold live_frames. rewrite firstn_skipn. exact COK.
  Qed.

  Lemma live_facts :
    inv V live_beam /\ b_t live_beam = length live_frames /\
    (live_frames <> [] -> Kp live_beam = width /\ sorted_eps 0%Qc (probs_of live_beam) = true).
  Proof.
    pose proof live_len as LL.
    apply (live_phase V width fus lm len live_frames choices 0 init_beam); auto.
    - lia.
    - apply live_ok.
    - apply init_inv.
  Qed.

  Lemma live_kp : kpb live_beam = width \/ kpb live_beam = 1.
  Proof.
    destruct live_facts as (_ & _ & H). unfold live_beam in *. destruct live_frames.
    - right. reflexivity.
    - left. apply H. discriminate.
  Qed.

  Lemma search_obs : observe (search V width fus lm len frames choices) = bobs width live_beam.
  Proof.
    pose proof live_len as LL. destruct live_facts as (I & T & _).
    pose proof (wf_wfv _ (inv_wf V _ I)) as Wv.
    assert (E : sloop V width fus lm len 0 frames choices init_beam
                = sloop V width fus lm len (0 + length live_frames) (skipn len frames)
                    (skipn (length live_frames) choices) live_beam).
    { rewrite <- (firstn_skipn len frames) at 1. apply sloop_app. }
    destruct (skipn len frames) as [|f rest] eqn:SK.
    - cbn [sloop] in E. rewrite observe_search; rewrite E; auto.
    - assert (LF : len < length frames).
      { destruct (le_lt_dec (length frames) len) as [C|C]; auto.
        rewrite skipn_all2 in SK by auto. discriminate. }
      destruct (dead_phase V width fus lm len (f :: rest) (skipn (length live_frames) choices)
                  (0 + length live_frames) live_beam Wpos) as [D1 D2]; auto; try lia.
      + apply live_kp.
      + rewrite observe_search; rewrite E; auto.
  Qed.
End SearchThms.

(* "an element's result equals that of searching its own valid frames alone" *)
Lemma element_independent : forall V width fus lm len frames choices, 1 <= V -> 1 <= width ->
  choices_ok V width fus lm 0%Qc len 0 frames choices init_beam = true ->
  observe (search V width fus lm len frames choices)
  = observe (search V width fus lm len (firstn len frames) choices).
Proof.
  intros V width fus lm len frames choices Vpos Wpos C.
  rewrite (search_obs V width fus lm len frames choices Vpos Wpos C).
  rewrite (search_obs V width fus lm len (firstn len frames) choices Vpos Wpos).
  - unfold live_beam, live_frames. rewrite firstn_firstn, Nat.min_id. reflexivity.
  - apply (live_ok V width fus lm len frames choices C).
Qed.

(* what the returned slots are, in terms of the last beam the element really computed *)
Lemma out_slot : forall V width fus lm len frames choices, 1 <= V -> 1 <= width ->
  choices_ok V width fus lm 0%Qc len 0 frames choices init_beam = true ->
  let '(P, Ls, Ps) := observe (search V width fus lm len frames choices) in
  let bm := live_beam V width fus lm len frames choices in
  length P = width /\ length Ls = width /\ length Ps = width /\ sorted_desc Ps /\
  forall i q, nth i Ps NegInf = Fin q ->
    valid bm i /\ nth i (probs_of bm) NegInf = Fin q /\
    nth i P [] = pref bm i /\ nth i Ls 0 = lens bm i.
Proof.
  intros V width fus lm len frames choices Vpos Wpos C.
  rewrite (search_obs V width fus lm len frames choices Vpos Wpos C).
  destruct (live_facts V width fus lm len frames choices Vpos Wpos C) as (I & T & H).
  pose proof (live_kp V width fus lm len frames choices Vpos Wpos C) as KP.
  set (bm := live_beam V width fus lm len frames choices) in *.
  pose proof (inv_wf V bm I) as W. pose proof (wf_wfv bm W) as Wv.
  assert (PL : length (probs_of bm) = kpb bm).
  { unfold probs_of. rewrite map2_length; auto. rewrite (wfv_b bm Wv). reflexivity. }
  assert (VAL : forall i q, nth i (probs_of bm) NegInf = Fin q -> valid bm i).
  { intros i q Hq. assert (Li : i < kpb bm).
    { destruct (le_lt_dec (kpb bm) i); auto. rewrite nth_overflow in Hq by lia. discriminate. }
    split; auto. unfold invalid. unfold probs_of in Hq.
    rewrite (map2_nth madd _ _ i NegInf NegInf) in Hq by (rewrite ?(wfv_b bm Wv); auto).
    rewrite Hq. reflexivity. }
  unfold bobs. destruct ((kpb bm =? 1) && negb (width =? 1)) eqn:Cnd.
  - (* only the initial slot exists; the rest of the width is filled with -inf *)
    apply andb_true_iff in Cnd. destruct Cnd as [C1 C2]. apply Nat.eqb_eq in C1.
    rewrite !repeat_length, app_length, repeat_length, PL, C1.
    assert (SD : sorted_eps 0%Qc (probs_of bm ++ repeat NegInf (width - 1)) = true).
    { apply sorted_eps_app_neginf. destruct (probs_of bm) as [|x [|y l]]; cbn in PL; try lia. reflexivity. }
    split; [lia|]. split; [lia|]. split; [lia|]. split; [apply sorted_eps_desc; auto|].
    intros i q Hq. destruct i.
    + rewrite app_nth1 in Hq by lia. split; [eapply VAL; eauto|]. split; [exact Hq|].
      rewrite !nth_repeat_if. replace (0 <? width) with true by (symmetry; apply Nat.ltb_lt; lia). auto.
    + exfalso. rewrite app_nth2 in Hq by lia. rewrite nth_repeat_if in Hq.
      destruct (S i - length (probs_of bm) <? width - 1); discriminate.
  - assert (KW : kpb bm = width).
    { destruct KP as [KP|KP]; auto. apply andb_false_iff in Cnd. destruct Cnd as [Cnd|Cnd].
      - apply Nat.eqb_neq in Cnd. lia.
      - apply negb_false_iff, Nat.eqb_eq in Cnd. lia. }
    rewrite map_length, seq_length, (wfv_lens bm Wv), PL, KW.
    assert (SD : sorted_eps 0%Qc (probs_of bm) = true).
    { unfold bm, live_beam in *. destruct (live_frames len frames) eqn:LFr.
      - reflexivity.
      - apply H. discriminate. }
    split; [auto|]. split; [auto|]. split; [auto|]. split; [apply sorted_eps_desc; auto|].
    intros i q Hq. pose proof (VAL i q Hq) as Vi. split; auto. split; [exact Hq|]. destruct Vi as [Li _]. change (i < kpb bm) in Li.
    split; [|reflexivity].
    rewrite (nth_indep _ [] (pref bm 0)); [|rewrite map_length, seq_length; lia].
    rewrite map_nth, seq_nth by lia. reflexivity.
Qed.

Lemma nothing_pruned_app : forall V width fus lm len f1 f2 choices t bm,
  nothing_pruned V width fus lm len t (f1 ++ f2) choices bm = true ->
  nothing_pruned V width fus lm len t f1 choices bm = true.
Proof.
  intros V width fus lm len. induction f1 as [|[nonext blank] f1]; intros f2 choices t bm H; auto.
  cbn [app nothing_pruned] in *. apply andb_true_iff in H. destruct H as [H1 H2].
  rewrite H1. apply (IHf1 f2). auto.
Qed.

(* every valid slot of the last live beam is returned, at its own position *)
Lemma out_slot_rev : forall V width fus lm len frames choices, 1 <= V -> 1 <= width ->
  choices_ok V width fus lm 0%Qc len 0 frames choices init_beam = true ->
  let '(P, Ls, Ps) := observe (search V width fus lm len frames choices) in
  let bm := live_beam V width fus lm len frames choices in
  forall k, valid bm k ->
    k < width /\ nth k P [] = pref bm k /\ nth k Ps NegInf = nth k (probs_of bm) NegInf.
Proof.
  intros V width fus lm len frames choices Vpos Wpos C.
  rewrite (search_obs V width fus lm len frames choices Vpos Wpos C).
  destruct (live_facts V width fus lm len frames choices Vpos Wpos C) as (I & T & H).
  pose proof (live_kp V width fus lm len frames choices Vpos Wpos C) as KP.
  set (bm := live_beam V width fus lm len frames choices) in *.
  pose proof (inv_wf V bm I) as W. pose proof (wf_wfv bm W) as Wv.
  assert (PL : length (probs_of bm) = kpb bm).
  { unfold probs_of. rewrite map2_length; auto. rewrite (wfv_b bm Wv). reflexivity. }
  unfold bobs. destruct ((kpb bm =? 1) && negb (width =? 1)) eqn:Cnd.
  - apply andb_true_iff in Cnd. destruct Cnd as [C1 C2]. apply Nat.eqb_eq in C1.
    intros k [Lk _]. change (k < kpb bm) in Lk. assert (k = 0) by lia. subst k.
    split; [lia|]. rewrite nth_repeat_if. replace (0 <? width) with true by (symmetry; apply Nat.ltb_lt; lia).
    split; auto. rewrite app_nth1 by lia. reflexivity.
  - assert (KW : kpb bm = width).
    { destruct KP as [KP|KP]; auto. apply andb_false_iff in Cnd. destruct Cnd as [Cnd|Cnd].
      - apply Nat.eqb_neq in Cnd. lia.
      - apply negb_false_iff, Nat.eqb_eq in Cnd. lia. }
    intros k [Lk _]. change (k < kpb bm) in Lk. split; [lia|]. split; auto.
    rewrite (nth_indep _ [] (pref bm 0)); [|rewrite map_length, seq_length; lia].
    rewrite map_nth, seq_nth by lia. reflexivity.
Qed.
