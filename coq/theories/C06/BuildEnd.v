(* C06 — build_trie_ok, part 7: end to end.  Composition of [build_trie_ok] with the lookup
   lemmas of Proofs.v: on the buffers the model of _build_trie returns for a well-formed table,
   every entry point of the lookup computes the back-off recursion on that table. *)
From Coq Require Import List ZArith Bool Arith Lia ZifyBool ZifyNat.
From PV Require Import C06.Model C06.Spec C06.Proofs C06.BuildBase C06.BuildSort C06.BuildLevels
  C06.BuildDescent C06.BuildClosure C06.BuildTrie.
Import ListNotations.
Local Open Scope Z_scope.

Lemma build_tail_consts V s N G U O I P uni higher bt :
  build_tail V s N G U O I P uni higher = Some bt -> bt_order bt = N /\ bt_gnodes bt = G.
Proof.
  unfold build_tail. cbv zeta.
  destruct (opt_all _); [|discriminate]. destruct (build_levels _ _ _ _ _); [|discriminate].
  destruct (infer_maxdesc _ _ _); [|discriminate]. intros [= <-]. split; reflexivity.
Qed.

Lemma build_trie_order V s dicts bt : build_trie V s dicts = Some bt -> bt_order bt = length dicts.
Proof.
  rewrite build_trie_core. destruct (rev dicts) as [|top lower]; [discriminate|].
  destruct (match top with [] => true | _ => false end); [discriminate|].
  destruct (negb _); [discriminate|]. unfold build_core. cbv zeta.
  destruct (map (fun d => map (ren_entry V s) d) (closed0 V s top lower)) as [|uni higher]; [discriminate|].
  intros H. apply build_tail_consts in H. apply H.
Qed.

Lemma wf_table_ok V s dicts : wf_dicts V s dicts = true -> tab_ok V s (table_of dicts).
Proof.
  intros H. destruct (wf_dicts_spec V s dicts H) as (_ & Hwf & _).
  unfold tab_ok, table_of. rewrite Forall_forall. intros e He.
  apply in_concat in He as (d & Hd & He). apply In_nth_error in Hd as [i Hi].
  destruct (Hwf i d Hi) as [_ Hk]. apply (Hk e He).
Qed.

Section EndToEnd.
  Variables (V s : Z) (dicts : list dict) (bt : built).
  Hypothesis Hwf : wf_dicts V s dicts = true.
  Hypothesis Hbuild : build_trie V s dicts = Some bt.
  Let b := bt_bufs bt.
  Let sh := built_shape V s bt.
  Let t := table_of dicts.

  Lemma built_trie : TrieOK b sh (tmap sh t).
  Proof. exact (build_trie_ok V s dicts bt Hwf Hbuild). Qed.

  Lemma built_tab : tab_ok (vocab sh) (sos sh) t.
  Proof. exact (wf_table_ok V s dicts Hwf). Qed.

  Lemma built_order : order sh = length dicts.
  Proof. exact (build_trie_order V s dicts bt Hbuild). Qed.

  (* one batch element, one context window of N-1 tokens (each a vocabulary id or sos) *)
  Lemma build_then_lookup w v hidx :
    (length w = length dicts - 1)%nat -> (1 <= length w)%nat ->
    Forall (tok_ok V s) w -> 0 <= v < V -> Z.of_nat (length w) <= hidx ->
    lookup1 b sh hidx (mapwin sh w) v = katz t w v.
  Proof.
    intros Hlen Hpos Hw Hv Hidx. pose proof (wf_dicts_spec V s dicts Hwf) as (HV & _).
    rewrite (lookup1_trie b sh (tmap sh t) (mapwin sh w) v hidx built_trie);
      rewrite ?mapwin_length; try assumption; try (rewrite built_order; lia).
    - apply (katz_tmap sh t w v built_tab); assumption.
    - apply last_mapwin_range; [cbn; lia| |exact Hw]. intros E. rewrite E in Hpos. cbn in Hpos. lia.
  Qed.

  Lemma build_then_index hist B i : hist_ok sh hist B -> (i <= length hist)%nat ->
    lookup_batch b sh hist B (Scalar (Z.of_nat i)) =
    Some (spec_at t (length dicts) V s hist B (repeat i B)).
  Proof.
    intros Hh Hi. destruct built_trie as (Hl & Ho & Hrest).
    rewrite lookup_batch_scalar by assumption. f_equal. rewrite <- built_order.
    apply (batch_rows_spec b sh t hist B _ (conj Hl (conj Ho Hrest)) built_tab Hh).
  Qed.

  Lemma build_then_index_vector hist B l : hist_ok sh hist B -> length l = B -> (2 <= B)%nat ->
    Forall (fun i => (i <= length hist)%nat) l ->
    lookup_batch b sh hist B (Vec (map Z.of_nat l)) = Some (spec_at t (length dicts) V s hist B l).
  Proof.
    intros Hh HlB HB Hil. destruct built_trie as (Hl & Ho & Hrest).
    rewrite lookup_batch_vec by assumption. f_equal. rewrite <- built_order.
    apply (batch_rows_spec b sh t hist B _ (conj Hl (conj Ho Hrest)) built_tab Hh).
  Qed.

  Lemma build_then_chunked hist B chunk : hist_ok sh hist B -> (1 <= chunk)%nat ->
    chunked b sh hist B chunk = Some (spec_full t (length dicts) V s hist B).
  Proof.
    intros Hh Hc. destruct built_trie as (Hl & Ho & Hrest).
    rewrite chunked_spec by (try assumption; apply Hh). f_equal. unfold spec_full.
    apply map_ext. intros i. unfold all_rows. rewrite <- built_order.
    apply (batch_rows_spec b sh t hist B _ (conj Hl (conj Ho Hrest)) built_tab Hh).
  Qed.

  Lemma build_then_forward_full hist B : hist_ok sh hist B ->
    forward b sh hist B None = Some (Full (spec_full t (length dicts) V s hist B)).
  Proof. intros Hh. unfold forward. rewrite build_then_chunked by (try assumption; lia). reflexivity. Qed.

  Lemma build_then_forward_index hist B i : hist_ok sh hist B -> - zlen hist - 1 <= i <= zlen hist ->
    forward b sh hist B (Some (Scalar i)) =
    Some (AtIdx (spec_at t (length dicts) V s hist B
                   (repeat (Z.to_nat ((i + zlen hist + 1) mod (zlen hist + 1))) B))).
  Proof.
    intros Hh Hi. unfold forward, norm_idx.
    replace ((i <? - zlen hist - 1) || (zlen hist <? i)) with false by lia.
    set (j := (i + zlen hist + 1) mod (zlen hist + 1)).
    assert (Hj : 0 <= j < zlen hist + 1) by (subst j; apply Z.mod_pos_bound; unfold zlen; lia).
    rewrite <- (Z2Nat.id j) at 1 by lia.
    rewrite build_then_index by (try assumption; unfold zlen in Hj; lia). reflexivity.
  Qed.
End EndToEnd.
