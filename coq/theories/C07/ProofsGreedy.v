(* C07 - ctc_greedy_search: argmax, repeat/blank removal, compaction and scores. *)
From Coq Require Import List ZArith Bool Arith Lia.
From PV Require Import C07.Model C07.Spec C07.Lib.
Import ListNotations.

(* ---------- argmax_first returns the first maximal entry --------------------------------- *)

Lemma argmax_from_spec : forall l pre best bi,
  bi < length pre -> nth bi pre 0%Z = best ->
  (forall j, j < length pre -> (nth j pre 0 <= best)%Z) ->
  (forall j, j < bi -> (nth j pre 0 < best)%Z) ->
  let '(v, r) := argmax_from best bi (length pre) l in is_best (pre ++ l) v r.
Proof.
  induction l as [|x t IH]; intros pre best bi Hbi Hnth Hle Hlt.
  - cbn. rewrite app_nil_r. repeat split; assumption.
  - cbn [argmax_from].
    assert (Hlen : length (pre ++ [x]) = S (length pre)) by (rewrite app_length; cbn; lia).
    replace (pre ++ x :: t) with ((pre ++ [x]) ++ t) by (rewrite <- app_assoc; reflexivity).
    rewrite <- Hlen.
    destruct (Z.ltb_spec best x) as [Hbx|Hbx].
    + apply IH.
      * lia.
      * rewrite app_nth2, Nat.sub_diag by lia. reflexivity.
      * intros j Hj. destruct (Nat.eq_dec j (length pre)) as [->|Hne].
        -- rewrite app_nth2, Nat.sub_diag by lia. cbn. lia.
        -- rewrite app_nth1 by lia. specialize (Hle j). lia.
      * intros j Hj. rewrite app_nth1 by lia. specialize (Hle j). lia.
    + apply IH.
      * lia.
      * rewrite app_nth1 by lia. exact Hnth.
      * intros j Hj. destruct (Nat.eq_dec j (length pre)) as [->|Hne].
        -- rewrite app_nth2, Nat.sub_diag by lia. cbn. lia.
        -- rewrite app_nth1 by lia. apply Hle. lia.
      * intros j Hj. rewrite app_nth1 by lia. apply Hlt. lia.
Qed.

Lemma argmax_first_spec row : row <> [] ->
  is_best row (fst (argmax_first row)) (snd (argmax_first row)).
Proof.
  destruct row as [|x t]; [congruence|]. intros _. unfold argmax_first.
  pose proof (argmax_from_spec t [x] x 0) as H. cbn [length] in H.
  destruct (argmax_from x 0 1 t) as [v r]. cbn [fst snd].
  apply H; cbn; try lia; try reflexivity.
  intros j Hj. destruct j; [lia|lia].
Qed.

(* ---------- prefix masks --------------------------------------------------------------------- *)

Definition pmask (l T : nat) : list bool := map (fun t => t <? l) (seq 0 T).

Lemma pmask_length l T : length (pmask l T) = T.
Proof. unfold pmask. now rewrite map_length, seq_length. Qed.

Lemma pmask_S l T : pmask l (S T) = (0 <? l) :: pmask (pred l) T.
Proof.
  unfold pmask. cbn [seq map]. f_equal.
  rewrite <- seq_shift, map_map. apply map_ext. intros a. destruct l; reflexivity.
Qed.

Lemma pmask_min l T : pmask (Nat.min T l) T = pmask l T.
Proof.
  unfold pmask. apply map_ext_in. intros a Ha. apply in_seq in Ha.
  destruct (Nat.ltb_spec a (Nat.min T l)), (Nat.ltb_spec a l); try reflexivity; lia.
Qed.

Lemma pmask_Z z T : map (fun t => (Z.of_nat t <? z)%Z) (seq 0 T) = pmask (Z.to_nat z) T.
Proof.
  unfold pmask. apply map_ext. intros a.
  destruct (Z.ltb_spec (Z.of_nat a) z), (Nat.ltb_spec a (Z.to_nat z)); try reflexivity; lia.
Qed.

Lemma map_all_true {X} (f : X -> bool) : forall l,
  (forall a, In a l -> f a = true) -> map f l = repeat true (length l).
Proof.
  induction l as [|x l IH]; intros H; [reflexivity|].
  cbn. rewrite (H x) by (left; reflexivity). f_equal. apply IH. intros a Ha. apply H. now right.
Qed.

Lemma pmask_full T : repeat true T = pmask T T.
Proof.
  unfold pmask. rewrite map_all_true.
  - now rewrite seq_length.
  - intros a Ha. apply in_seq in Ha. apply Nat.ltb_lt. lia.
Qed.

(* ---------- keep mask = collapse --------------------------------------------------------------- *)

Fixpoint dedup_prev (p : nat) (l : list nat) : list nat :=
  match l with
  | [] => []
  | x :: t => if x =? p then dedup_prev x t else x :: dedup_prev x t
  end.

Lemma dedup_cons : forall t x, dedup (x :: t) = x :: dedup_prev x t.
Proof.
  induction t as [|y r IH]; intros x; [reflexivity|].
  change (dedup (x :: y :: r)) with (if x =? y then dedup (y :: r) else x :: dedup (y :: r)).
  rewrite IH. cbn [dedup_prev]. rewrite (Nat.eqb_sym y x).
  destruct (Nat.eqb_spec x y) as [->|Hne]; reflexivity.
Qed.

Definition dprev (prev : option nat) (l : list nat) : list nat :=
  match prev with None => dedup l | Some p => dedup_prev p l end.

Lemma select_keep b : forall am prev,
  select (keep_from b prev am) am = filter (fun a => negb (a =? b)) (dprev prev am).
Proof.
  induction am as [|a t IH]; intros prev; [destruct prev; reflexivity|].
  cbn [keep_from select]. rewrite IH. cbn [dprev].
  destruct prev as [p|]; cbn [dprev].
  - cbn [dedup_prev]. destruct (a =? p); cbn [negb andb].
    + rewrite andb_false_r. reflexivity.
    + rewrite andb_true_r. cbn [filter]. destruct (negb (a =? b)); reflexivity.
  - rewrite dedup_cons. rewrite andb_true_r. cbn [filter]. destruct (negb (a =? b)); reflexivity.
Qed.

Lemma keep_from_firstn b : forall am prev l,
  keep_from b prev (firstn l am) = firstn l (keep_from b prev am).
Proof.
  induction am as [|a t IH]; intros prev l; [destruct l; reflexivity|].
  destruct l; [reflexivity|]. cbn [firstn keep_from]. now rewrite IH.
Qed.

Lemma keep_from_length b : forall am prev, length (keep_from b prev am) = length am.
Proof. induction am as [|a t IH]; intros prev; cbn; [reflexivity|now rewrite IH]. Qed.

Lemma select_nil_r {X} (m : list bool) : select m (@nil X) = [].
Proof. destruct m; reflexivity. Qed.

Lemma select_pmask {X} : forall (am : list X) k l T,
  length k = length am -> length am = T ->
  select (map2 andb k (pmask l T)) am = select (firstn l k) (firstn l am).
Proof.
  induction am as [|a t IH]; intros k l T Hk HT.
  - rewrite select_nil_r. destruct l; cbn; rewrite ?select_nil_r; reflexivity.
  - destruct k as [|kk k']; [discriminate|]. destruct T as [|T']; [discriminate|].
    rewrite pmask_S. cbn [map2].
    destruct l as [|l'].
    + cbn [Nat.ltb Nat.leb andb]. rewrite andb_false_r. cbn [select pred firstn].
      rewrite (IH k' 0 T') by (cbn in *; lia). reflexivity.
    + cbn [pred]. replace (0 <? S l') with true by reflexivity. rewrite andb_true_r.
      cbn [firstn select]. rewrite (IH k' l' T') by (cbn in *; lia). reflexivity.
Qed.

Lemma count_select {X} : forall (k : list bool) (am : list X), length k = length am ->
  sumn (map b2n k) = length (select k am).
Proof.
  induction k as [|kk k IH]; intros [|a t] H; try discriminate; [reflexivity|].
  cbn [map sumn fold_right select]. change (fold_right Nat.add 0 (map b2n k)) with (sumn (map b2n k)).
  rewrite (IH t) by (cbn in H; lia). destruct kk; reflexivity.
Qed.

Lemma select_length_le {X} : forall (k : list bool) (am : list X), length (select k am) <= length am.
Proof.
  induction k as [|kk k IH]; intros [|a t]; cbn; try lia.
  destruct kk; cbn; specialize (IH t); lia.
Qed.

(* the row's kept labels are the collapse of the labels within the valid length *)
Lemma row_select b l T am : length am = T ->
  select (map2 andb (keep_from b None am) (pmask l T)) am = collapse b (firstn l am).
Proof.
  intros HT. rewrite (select_pmask am _ l T) by (rewrite ?keep_from_length; lia).
  rewrite <- keep_from_firstn, select_keep. reflexivity.
Qed.

(* ---------- compaction by masked_scatter ------------------------------------------------------- *)

Lemma mscatter_false {X} : forall (dst src : list X) T,
  mscatter (pmask 0 T) src dst = (dst, src).
Proof.
  induction dst as [|x t IH]; intros src T.
  - destruct (pmask 0 T) as [|[|] ?]; reflexivity.
  - destruct T as [|T']; [reflexivity|].
    rewrite pmask_S. cbn [Nat.ltb Nat.leb pred mscatter]. rewrite IH. reflexivity.
Qed.

Lemma mscatter_pmask {X} : forall (dst sel rest : list X),
  length sel <= length dst ->
  mscatter (pmask (length sel) (length dst)) (sel ++ rest) dst = (sel ++ skipn (length sel) dst, rest).
Proof.
  induction dst as [|x t IH]; intros sel rest H.
  - destruct sel; [reflexivity|cbn in H; lia].
  - cbn [length]. rewrite pmask_S. destruct sel as [|s sel'].
    + cbn [length Nat.ltb Nat.leb pred app mscatter skipn].
      rewrite mscatter_false. reflexivity.
    + cbn [length pred app mscatter skipn]. replace (0 <? S (length sel')) with true by reflexivity.
      rewrite IH by (cbn in H; lia). reflexivity.
Qed.

(* ---------- scores ----------------------------------------------------------------------------------- *)

Lemma score_sum : forall mx l T, length mx = T ->
  fold_right Z.add 0%Z (map2 (fun (i : bool) v => if i then v else 0%Z) (pmask l T) mx)
  = fold_right Z.add 0%Z (firstn l mx).
Proof.
  induction mx as [|v t IH]; intros l T HT.
  - destruct (pmask l T), l; reflexivity.
  - destruct T as [|T']; [discriminate|]. rewrite pmask_S. cbn [map2 fold_right].
    rewrite (IH (pred l) T') by (cbn in HT; lia).
    destruct l; cbn [Nat.ltb Nat.leb pred firstn fold_right]; [|reflexivity].
    destruct t; reflexivity.
Qed.

Lemma score_prod one : forall mx l T, length mx = T ->
  fold_right Z.mul 1%Z (map2 (fun (i : bool) v => if i then v else one) (pmask l T) mx)
  = (fold_right Z.mul 1 (firstn l mx) * one ^ Z.of_nat (T - l))%Z.
Proof.
  induction mx as [|v t IH]; intros l T HT.
  - cbn in HT. subst T. destruct l; reflexivity.
  - destruct T as [|T']; [discriminate|]. rewrite pmask_S. cbn [map2 fold_right].
    rewrite (IH (pred l) T') by (cbn in HT; lia).
    destruct l as [|l']; cbn [Nat.ltb Nat.leb pred firstn fold_right].
    + rewrite !Nat.sub_0_r. rewrite Nat2Z.inj_succ, Z.pow_succ_r by lia.
      destruct t; cbn [firstn fold_right]; ring.
    + replace (S T' - S l') with (T' - l') by lia. ring.
Qed.

(* ---------- the whole batch ---------------------------------------------------------------------------- *)

Lemma in_mask_eff T in_lens (lp : list (list (list Z))) :
  (forall ls, in_lens = Some ls -> length ls = length lp) ->
  match in_lens with
  | None => map (fun _ => repeat true T) lp
  | Some ls => map (fun l => map (fun t => (Z.of_nat t <? l)%Z) (seq 0 T)) ls
  end = map (fun l => pmask l T) (eff_lens T in_lens (length lp)).
Proof.
  intros H. destruct in_lens as [ls|]; cbn [eff_lens].
  - rewrite map_map. apply map_ext. intros z. rewrite pmask_Z, pmask_min. reflexivity.
  - clear H. induction lp as [|x t IH]; [reflexivity|].
    cbn [map length repeat]. rewrite IH, pmask_full. reflexivity.
Qed.

Lemma rows_paths b T : forall (lp : list (list (list Z))) ll rest,
  length ll = length lp -> (forall fr, In fr lp -> length fr = T) ->
  let am := map labels lp in
  let keep := map2 (map2 andb) (map (keep_from b None) am) (map (fun l => pmask l T) ll) in
  mscatter_rows (map (fun l => map (fun t => t <? l) (seq 0 T)) (map (fun k => sumn (map b2n k)) keep))
                (concat (map2 select keep am) ++ rest) am
  = map2 (fun l fr => row_path b T l fr ++ skipn (length (row_path b T l fr)) (labels fr)) ll lp.
Proof.
  induction lp as [|fr lp IH]; intros ll rest Hl HT; destruct ll as [|l ll]; try discriminate; [reflexivity|].
  cbn zeta in *. cbn [map map2 concat mscatter_rows].
  assert (Hfr : length (labels fr) = T)
    by (unfold labels; rewrite !map_length; apply HT; left; reflexivity).
  rewrite (row_select b l T (labels fr) Hfr).
  rewrite (count_select _ (labels fr)) by (rewrite map2_length, keep_from_length, pmask_length; lia).
  rewrite (row_select b l T (labels fr) Hfr).
  fold (row_path b T l fr). rewrite <- app_assoc.
  change (map (fun t => t <? length (row_path b T l fr)) (seq 0 T)) with (pmask (length (row_path b T l fr)) T).
  assert (Hle : length (row_path b T l fr) <= length (labels fr)).
  { unfold row_path. rewrite <- (row_select b l T (labels fr) Hfr). apply select_length_le. }
  match goal with |- context [mscatter _ (_ ++ ?R) _] =>
    pose proof (mscatter_pmask (labels fr) (row_path b T l fr) R Hle) as Hm end.
  rewrite Hfr in Hm. rewrite Hm. clear Hm.
  f_equal. apply IH; [cbn in Hl; lia|]. intros fr' Hin. apply HT. now right.
Qed.

Lemma rows_lens b T : forall (lp : list (list (list Z))) ll,
  length ll = length lp -> (forall fr, In fr lp -> length fr = T) ->
  map (fun k => sumn (map b2n k))
      (map2 (map2 andb) (map (keep_from b None) (map labels lp)) (map (fun l => pmask l T) ll))
  = map2 (fun l fr => length (row_path b T l fr)) ll lp.
Proof.
  induction lp as [|fr lp IH]; intros ll Hl HT; destruct ll as [|l ll]; try discriminate; [reflexivity|].
  cbn [map map2].
  assert (Hfr : length (labels fr) = T)
    by (unfold labels; rewrite !map_length; apply HT; left; reflexivity).
  rewrite (count_select _ (labels fr)) by (rewrite map2_length, keep_from_length, pmask_length; lia).
  rewrite (row_select b l T (labels fr) Hfr). f_equal.
  apply IH; [cbn in Hl; lia|]. intros fr' Hin. apply HT. now right.
Qed.

Lemma rows_scores (is_probs : bool) (one : Z) T : forall (lp : list (list (list Z))) ll,
  length ll = length lp -> (forall fr, In fr lp -> length fr = T) -> (forall l, In l ll -> l <= T) ->
  map (if is_probs then fold_right Z.mul 1%Z else fold_right Z.add 0%Z : list Z -> Z)
      (map2 (map2 (fun (i : bool) (v : Z) => if i then v else if is_probs then one else 0%Z))
            (map (fun l => pmask l T) ll) (map maxima lp))
  = map2 (row_score is_probs one T) ll lp.
Proof.
  induction lp as [|fr lp IH]; intros ll Hl HT Hle; destruct ll as [|l ll]; try discriminate; [reflexivity|].
  cbn [map map2].
  assert (Hfr : length (maxima fr) = T)
    by (unfold maxima; rewrite !map_length; apply HT; left; reflexivity).
  f_equal.
  - unfold row_score. destruct is_probs; [apply score_prod|apply score_sum]; exact Hfr.
  - apply IH; [cbn in Hl; lia| |]; intros; [apply HT|apply Hle]; now right.
Qed.

Lemma eff_lens_length T in_lens N : (forall ls, in_lens = Some ls -> length ls = N) ->
  length (eff_lens T in_lens N) = N.
Proof.
  intros H. destruct in_lens as [ls|]; cbn; [rewrite map_length; now apply H|apply repeat_length].
Qed.

Lemma eff_lens_le T in_lens N l : In l (eff_lens T in_lens N) -> l <= T.
Proof.
  destruct in_lens as [ls|]; cbn.
  - intros H. apply in_map_iff in H as (z & <- & _). lia.
  - intros H. apply repeat_spec in H. lia.
Qed.

Lemma map2_firstn_app {X} : forall (a : list (list X)) (b : list (list X)),
  length a = length b ->
  map2 (fun l p => firstn l p) (map (@length X) a) (map2 (fun x y => x ++ y) a b) = a.
Proof.
  induction a as [|x a IH]; intros [|y b] H; try discriminate; [reflexivity|].
  cbn [map map2]. rewrite firstn_app_exact, IH by (cbn in H; lia). reflexivity.
Qed.

Lemma firstn_rows b T : forall (lp : list (list (list Z))) (ll : list nat),
  map2 (fun l p => firstn l p)
       (map2 (fun l fr => length (row_path b T l fr)) ll lp)
       (map2 (fun l fr => row_path b T l fr ++ skipn (length (row_path b T l fr)) (labels fr)) ll lp)
  = map2 (row_path b T) ll lp.
Proof.
  induction lp as [|fr lp IH]; intros [|l ll]; try reflexivity.
  cbn [map2]. rewrite firstn_app_exact, IH. reflexivity.
Qed.

Theorem greedy_correct (is_probs : bool) (one : Z) V blank T in_lens (lp : list (list (list Z))) :
  (- V <= blank <= V - 1)%Z ->
  (forall fr, In fr lp -> length fr = T) ->
  (forall ls, in_lens = Some ls -> length ls = length lp) ->
  let b := norm_blank V blank in
  let ll := eff_lens T in_lens (length lp) in
  exists g, ctc_greedy is_probs one V blank T in_lens lp = Some g /\
    g_lens g = map2 (fun l fr => length (row_path b T l fr)) ll lp /\
    map2 (fun l p => firstn l p) (g_lens g) (g_paths g) = map2 (row_path b T) ll lp /\
    g_score g = map2 (row_score is_probs one T) ll lp.
Proof.
  intros Hb HT Hls b ll. unfold ctc_greedy.
  replace ((blank <? - V)%Z || (V - 1 <? blank)%Z) with false
    by (symmetry; apply orb_false_iff; split; apply Z.ltb_ge; lia).
  eexists; split; [reflexivity|]. cbn [g_lens g_paths g_score].
  rewrite (in_mask_eff T in_lens lp Hls). fold ll. fold b.
  assert (Hll : length ll = length lp) by (apply eff_lens_length; exact Hls).
  assert (Ham : map (map snd) (map (map argmax_first) lp) = map labels lp)
    by (rewrite map_map; reflexivity).
  assert (Hmx : map (map fst) (map (map argmax_first) lp) = map maxima lp)
    by (rewrite map_map; reflexivity).
  rewrite Ham, Hmx. change (Z.to_nat ((blank + V) mod V)) with b.
  rewrite (rows_lens b T lp ll Hll HT).
  split; [reflexivity|]. split.
  - pose proof (rows_paths b T lp ll [] Hll HT) as H. cbn zeta in H.
    rewrite app_nil_r in H. rewrite (rows_lens b T lp ll Hll HT) in H. rewrite H. clear H.
    apply firstn_rows.
  - apply (rows_scores is_probs one T lp ll Hll HT). intros l. apply eff_lens_le.
Qed.

Lemma greedy_error is_probs one V blank T in_lens lp :
  ctc_greedy is_probs one V blank T in_lens lp = None <-> (blank < - V \/ V - 1 < blank)%Z.
Proof.
  unfold ctc_greedy.
  destruct (Z.ltb_spec blank (- V)) as [Ha|Ha], (Z.ltb_spec (V - 1) blank) as [Hc|Hc]; cbn [orb];
    split; intros Hx; try reflexivity; try discriminate; try lia.
Qed.
