(* C18, second tie — the translated source of `mean_var_norm`, `MeanVarianceNormalization.forward / accumulate /
   store` (src/pydrobert/torch/_feats.py) as executables: the environment [ext_t] / [ext18b], the encoding of the
   model's values and of the module object as MiniPy values, the GLUE that stands for Python's reference semantics
   where MiniPy's value semantics loses it, and the correspondence entry points [src_*_check] with the interfaces
   of Model.check_ops / check_norm.  DEFINITIONS ONLY; the lemmas are in TieB*.v.

   PV.Gen.C18BSrc.{mvn_body, fwd_body, acc_body, store_body} are regenerated from the working tree on every run by
   harness/py2coq/translate.py (function bodies; decorators - `@script`, `@functional_wrapper`, `@torch.jit.export` -
   are outside them: TorchScript is NOT modelled, the tie is about the Python text as eager CPython runs it).

   The module object `self` is a [VDict] with the attributes dim, eps and the five buffers mean, std, sum, sumsq,
   count (None or a tensor) - "self.<buffer>" is a place in the variable store.  The global `torch` is a [VDict] of
   opaque tokens (torch.double, torch.float, torch.Tensor).

   What reaches [ext_t] (see MiniPy.Interp), with the meaning of PV.MiniTorch.OpsC18B (exact rationals):
     x.ndim, x.dtype, x.device            "$attr.<name>"   (dtype / device: opaque tokens, only handed back to torch)
     x.size(d) x.transpose(a, b) x.unsqueeze(d) x.flatten(s[, e]) x.view(list) x.double() x.to(dtype | tensor)
     x.square() x.sum(1) x.mean(1) x.std(1, False) x.clamp_min(c) x.clamp_min_(c) x.sqrt_()
                                          "$method.<name>", receiver first
     torch.zeros(n, dtype=, device=)      keywords accepted and ignored (values do not depend on them)
     isinstance(v, torch.Tensor)          is v (the encoding of) a tensor
     a - b, a / b (tensors, broadcasting), t + n, t - n (tensor and Python number), [1] * D (list repetition)
                                          "operator" [name; a; b]
     t += u, t *= u (tensors)             "operator" ["add" | "mul"; t; u] with the IN-PLACE meaning (OpsC18B.iadd /
                                          imul: the shape of t does not change).  MiniPy hands `t += u` and `t + u`
                                          to ext under the same name; in these bodies a tensor is added / multiplied
                                          to a tensor only by `+=` / `*=`.
     count < 2                            "compare" ["lt"; t; 2]: the truth value of the one-element result, as a bool
   sqrt is the oracle [sq].  ASSUMPTIONS: floating dtypes, rounding not modelled (as everywhere in C18); `.double()`
   and `.to(..)` are the identity.

   GLUE (hand-written, NOT translated; theorems that rest on it are named `_partial`):  in `accumulate`,
       count, sum_, sumsq = self.count, self.sum, self.sumsq ... count += ..; sum_ += ..; sumsq += ..
   binds three local names to the buffer OBJECTS and updates them in place (Tensor.__iadd__): afterwards
   self.count / self.sum / self.sumsq hold the new values.  MiniPy has value semantics: the interpreted body ends
   with the new values in the LOCALS count, sum_, sumsq and the old ones in `self`.  [src_accumulate] therefore
   reads the module's new statistics from those three locals.  (The translator does not reject the body because
   `name += e` on an immutable value rebinds the name; for a tensor it mutates the object.  `store` needs no glue:
   its aliases are only read, its in-place methods act on fresh tensors.) *)
From Coq Require Import ZArith QArith Qabs List String Bool.
From PV Require Import MiniPy.Syntax MiniPy.Interp MiniTorch.Ops MiniTorch.Value Gen.C18BSrc.
From PV Require C18.Model.
From PV Require Import C18.SrcRun.
From PV Require Import MiniTorch.OpsC18B.
Import ListNotations.
Local Open Scope string_scope.

Module M := PV.C18.Model.

(* ---- tensors as values ------------------------------------------------------------------------------------- *)
Definition dect (v : val) : option M.tensor := option_map to_model (dec v).

Definition undef (why : string) : outcome val := Stuck ("MiniTorch C18B: outside the modelled domain: " ++ why).

Definition ret (why : string) (r : res M.tensor) (st : state) : outcome val :=
  match r with ROk t => Ok (enc_tensor t) st | RRaise e => Exc e st | RUndef => undef why end.

Definition ret_n (why : string) (r : res nat) (st : state) : outcome val :=
  match r with ROk n => Ok (VInt (Z.of_nat n)) st | RRaise e => Exc e st | RUndef => undef why end.

Definition ret_b (why : string) (r : res bool) (st : state) : outcome val :=
  match r with ROk b => Ok (VBool b) st | RRaise e => Exc e st | RUndef => undef why end.

Definition on1 (why : string) (v : val) (k : M.tensor -> res M.tensor) (st : state) : outcome val :=
  match dect v with Some t => ret why (k t) st | None => Stuck ("C18B: not a tensor: " ++ why) end.

Definition on2 (why : string) (v w : val) (k : M.tensor -> M.tensor -> res M.tensor) (st : state) : outcome val :=
  match dect v, dect w with
  | Some t, Some u => ret why (k t u) st
  | _, _ => Stuck ("C18B: not a tensor: " ++ why)
  end.

Fixpoint dec_zs (l : list val) : option (list Z) :=
  match l with
  | [] => Some []
  | VInt z :: r => option_map (cons z) (dec_zs r)
  | _ => None
  end.

Fixpoint dects (l : list val) : option (list M.tensor) :=
  match l with
  | [] => Some []
  | v :: r => match dect v, dects r with Some t, Some ts => Some (t :: ts) | _, _ => None end
  end.

(* a slice bound: None or an int *)
Definition opt_int (v : val) : option (option Z) :=
  match v with VNone => Some None | VInt z => Some (Some z) | _ => None end.

(* ---- tokens ------------------------------------------------------------------------------------------------ *)
Definition double_token : val := VStr "$dtype.double".
Definition float_token : val := VStr "$dtype.float".
Definition tensor_class : val := VStr "$class.Tensor".
Definition torch_mod : val :=
  VDict [(VStr "double", double_token); (VStr "float", float_token); (VStr "Tensor", tensor_class)].

Definition is_dtype (v : val) : bool := val_eqb v dtype_token || val_eqb v double_token || val_eqb v float_token.

Definition create_kw_ok (kw : list (string * val)) : bool :=
  forallb (fun kv => (is (fst kv) "device" && val_eqb (snd kv) device_token)
                     || (is (fst kv) "dtype" && is_dtype (snd kv)))%bool kw.

(* Python: list * int = that many copies, none for a non-positive count *)
Definition list_repeat (l : list val) (n : Z) : list val := List.concat (repeat l (Z.to_nat n)).

(* ---- the torch calls ------------------------------------------------------------------------------------------- *)
Definition ext_t (sq : Q -> Q) (f : string) (args : list val) (kw : list (string * val)) (st : state) : outcome val :=
  if is f "torch.zeros" then
    match args with
    | [VInt n] => if create_kw_ok kw then ret "zeros" (zeros n) st else Stuck "zeros: keyword"
    | _ => Stuck "zeros"
    end
  else if is f "torch.arange" then
    match args with
    | [VInt a; VInt b; VInt s] => if create_kw_ok kw then ret "arange" (arange3 a b s) st else Stuck "arange: keyword"
    | _ => Stuck "arange"
    end
  else if is f "torch.nn.functional.conv1d" then
    match args, kw with
    | [x; w], [] => on2 "conv1d" x w (fun a b => conv1d a b 0) st
    | [x; w], [(k, VInt p)] =>
        if (is k "padding" && (0 <=? p)%Z)%bool then on2 "conv1d" x w (fun a b => conv1d a b (Z.to_nat p)) st
        else Stuck "conv1d: keyword"
    | _, _ => Stuck "conv1d"
    end
  else if negb (no_kw kw) then Stuck ("ext_t: keyword arguments of " ++ f)
  else if is f "$attr.ndim" then
    match args with
    | [t] => match dect t with Some x => Ok (VInt (Z.of_nat (ndim x))) st | None => Stuck "ndim" end
    | _ => Stuck "ndim"
    end
  else if is f "$attr.shape" then
    match args with
    | [t] => match dect t with
             | Some x => Ok (VTuple (map (fun n => VInt (Z.of_nat n)) (M.shape x))) st
             | None => Stuck "shape"
             end
    | _ => Stuck "shape"
    end
  else if is f "$attr.dtype" then
    match args with
    | [t] => match dect t with Some _ => Ok dtype_token st | None => Stuck "dtype" end
    | _ => Stuck "dtype"
    end
  else if is f "$attr.device" then
    match args with
    | [t] => match dect t with Some _ => Ok device_token st | None => Stuck "device" end
    | _ => Stuck "device"
    end
  else if is f "$method.size" then
    match args with
    | [t; VInt d] => match dect t with Some x => ret_n "size" (OpsC18B.size x d) st | None => Stuck "size" end
    | _ => Stuck "size"
    end
  else if is f "$method.transpose" then
    match args with
    | [t; VInt a; VInt b] => on1 "transpose" t (fun x => OpsC18B.transpose x a b) st
    | _ => Stuck "transpose"
    end
  else if is f "$method.unsqueeze" then
    match args with
    | [t; VInt d] => on1 "unsqueeze" t (fun x => OpsC18B.unsqueeze x d) st
    | _ => Stuck "unsqueeze"
    end
  else if is f "$method.flatten" then
    match args with
    | [t] => on1 "flatten" t (fun x => flatten x 0 (-1)) st
    | [t; VInt s] => on1 "flatten" t (fun x => flatten x s (-1)) st
    | [t; VInt s; VInt e] => on1 "flatten" t (fun x => flatten x s e) st
    | _ => Stuck "flatten"
    end
  else if is f "$method.view" then
    match args with
    | [t; VList l] | [t; VTuple l] =>
        match dec_zs l with Some zs => on1 "view" t (fun x => view x zs) st | None => Stuck "view" end
    | t :: l => match dec_zs l with Some zs => on1 "view" t (fun x => view x zs) st | None => Stuck "view" end
    | _ => Stuck "view"
    end
  else if is f "$method.double" then
    match args with [t] => on1 "double" t (fun x => ROk x) st | _ => Stuck "double" end
  else if is f "$method.to" then
    match args with
    | [t; d] => if (is_dtype d || match dect d with Some _ => true | None => false end)%bool
                then on1 "to" t (fun x => ROk x) st else Stuck "to"
    | _ => Stuck "to"
    end
  else if is f "$method.square" then
    match args with [t] => on1 "square" t (fun x => ROk (square x)) st | _ => Stuck "square" end
  else if is f "$method.sum" then
    match args with
    | [t; VInt 1] => on1 "sum" t sum1 st
    | [t] => on1 "sum" t (fun x => ROk (sum_all x)) st
    | _ => Stuck "sum"
    end
  else if is f "$method.mean" then
    match args with
    | [t; VInt 1] => on1 "mean" t mean1 st
    | _ => Stuck "mean"
    end
  else if is f "$method.std" then
    match args with
    | [t; VInt 1; VBool false] => on1 "std" t (std1 sq) st
    | _ => Stuck "std"
    end
  else if (is f "$method.clamp_min" || is f "$method.clamp_min_")%bool then
    match args with
    | [t; c] => match scalar c with
                | Some q => on1 "clamp_min" t (fun x => ROk (OpsC18B.clamp_min x q)) st
                | None => Stuck "clamp_min"
                end
    | _ => Stuck "clamp_min"
    end
  else if is f "$method.sqrt_" then
    match args with [t] => on1 "sqrt_" t (fun x => ROk (sqrt_ sq x)) st | _ => Stuck "sqrt_" end
  else if is f "isinstance" then
    match args with
    | [v; c] => if val_eqb c tensor_class
                then Ok (VBool (match dect v with Some _ => true | None => false end)) st
                else Stuck "isinstance"
    | _ => Stuck "isinstance"
    end
  else if is f "operator" then
    match args with
    | [VStr o; a; b] =>
        match dect a, dect b with
        | Some x, Some y =>
            if is o "sub" then ret "sub" (OpsC18B.sub x y) st
            else if is o "truediv" then ret "div" (div x y) st
            else if is o "add" then ret "iadd" (iadd x y) st
            else if is o "mul" then ret "imul" (imul x y) st
            else Stuck ("operator " ++ o)
        | Some x, None =>
            match scalar b with
            | Some c => if is o "add" then ret "add" (ROk (add_scalar x c)) st
                        else if is o "sub" then ret "sub" (ROk (sub_scalar x c)) st
                        else Stuck ("operator " ++ o)
            | None => Stuck ("operator " ++ o)
            end
        | None, _ =>
            match a, b with
            | VList l, VInt n => if is o "mul" then Ok (VList (list_repeat l n)) st else Stuck ("operator " ++ o)
            | VTuple l, VTuple r => if is o "add" then Ok (VTuple (l ++ r)%list) st else Stuck ("operator " ++ o)
            | _, _ => Stuck ("operator " ++ o)
            end
        end
    | _ => Stuck "operator"
    end
  else if is f "compare" then
    match args with
    | [VStr o; a; b] =>
        match dect a, scalar b with
        | Some x, Some c => if is o "lt" then ret_b "lt" (lt_scalar_truth x c) st else Stuck ("compare " ++ o)
        | _, _ => Stuck "compare"
        end
    | _ => Stuck "compare"
    end
  else if is f "$setitem" then
    match args with
    | [t; VInt k; v] => match scalar v with
                        | Some q => on1 "setitem" t (fun x => setitem1 x k q) st
                        | None => Stuck "setitem"
                        end
    | _ => Stuck "setitem"
    end
  else if is f "$getitem" then
    match args with
    | [VTuple l; VTuple [VStr tag; lo; hi; VNone]] =>
        if (String.eqb tag "$slice" && negb (foreign (VTuple l)))%bool then
          match opt_int lo, opt_int hi with
          | Some a, Some b => Ok (VTuple (slice_list l a b)) st
          | _, _ => Stuck "getitem"
          end
        else Stuck "getitem"
    | _ => Stuck "getitem"
    end
  else if is f "torch.nn.functional.pad" then
    match args with
    | [t; VTuple [VInt l; VInt r]; VStr mode; v] =>
        match scalar v with
        | Some q => on1 "pad" t (fun x => pad_last x l r mode q) st
        | None => Stuck "pad"
        end
    | _ => Stuck "pad"
    end
  else if is f "torch.stack" then
    match args with
    | [VList l] => match dects l with Some ts => ret "stack" (stack1 ts) st | None => Stuck "stack" end
    | _ => Stuck "stack"
    end
  else if is f "movedim" then
    match args with
    | [t; VInt a; VInt b] => on1 "movedim" t (fun x => movedim x a b) st
    | _ => Stuck "movedim"
    end
  else Stuck ("ext_t: " ++ f).

(* ---- calls of other translated functions ------------------------------------------------------------------------ *)
(* mean_var_norm(x, dim, mean, std, eps) called from forward: the translated body of mean_var_norm is run on the
   arguments (a fresh frame; its effects on its own frame are dropped, an exception propagates) *)
Definition mvn_vars (x dim mean std eps : val) : list (string * val) :=
  [("x", x); ("dim", dim); ("mean", mean); ("std", std); ("eps", eps)].

Definition fdf_vars (order width : val) : list (string * val) :=
  [("order", order); ("width", width); ("torch", torch_mod)].

Definition ext18b (sq : Q -> Q) (f : string) (args : list val) (kw : list (string * val)) (st : state) : outcome val :=
  if is f "mean_var_norm" then
    match args, kw with
    | [x; dim; mean; std; eps], [] =>
        match Interp.run (ext_t sq) mvn_body (mvn_vars x dim mean std eps) with
        | Ok v _ => Ok v st
        | Exc n _ => Exc n st
        | Stuck w => Stuck w
        end
    | _, _ => Stuck "mean_var_norm"
    end
  else if is f "_feat_delta_filters" then
    match args, kw with
    | [order; width], [] =>
        match Interp.run (ext_t sq) fdf_body (fdf_vars order width) with
        | Ok v _ => Ok v st
        | Exc n _ => Exc n st
        | Stuck w => Stuck w
        end
    | _, _ => Stuck "_feat_delta_filters"
    end
  else ext_t sq f args kw st.

(* ---- the module object -------------------------------------------------------------------------------------------- *)
Definition vec (l : list Q) : M.tensor := M.mkT [List.length l] l.
Definition opt_vec (o : option (list Q)) : val := match o with None => VNone | Some l => enc_tensor (vec l) end.

Record mstate := mkM { m_dim : Z; m_eps : Q; m_mean : option (list Q); m_std : option (list Q);
                       m_stats : option M.stats }.

Definition count_val (o : option M.stats) : val :=
  match o with None => VNone | Some s => enc_tensor (M.mkT [1%nat] [M.cnt s]) end.
Definition sum_val (o : option M.stats) : val := opt_vec (option_map M.ssum o).
Definition sumsq_val (o : option M.stats) : val := opt_vec (option_map M.ssq o).

Definition self_val (m : mstate) : val :=
  VDict [(VStr "dim", VInt (m_dim m)); (VStr "eps", VQ (m_eps m));
         (VStr "mean", opt_vec (m_mean m)); (VStr "std", opt_vec (m_std m));
         (VStr "sum", sum_val (m_stats m)); (VStr "sumsq", sumsq_val (m_stats m));
         (VStr "count", count_val (m_stats m))].

(* reading values back *)
Definition dec_vec (v : val) : option (list Q) :=
  match dect v with
  | Some t => match M.shape t with [_] => Some (M.data t) | _ => None end
  | None => None
  end.
Definition dec_opt_vec (v : val) : option (option (list Q)) :=
  match v with VNone => Some None | _ => option_map Some (dec_vec v) end.
Definition dec_count (v : val) : option Q :=
  match dec_vec v with Some [c] => Some c | _ => None end.

Definition dec_stats (c s q : val) : option (option M.stats) :=
  match c, s, q with
  | VNone, VNone, VNone => Some None
  | _, _, _ => match dec_count c, dec_vec s, dec_vec q with
               | Some c', Some s', Some q' => Some (Some (M.mkStats c' s' q'))
               | _, _, _ => None
               end
  end.

Definition dec_self (v : val) : option mstate :=
  match v with
  | VDict [(VStr "dim", VInt d); (VStr "eps", VQ e); (VStr "mean", mn); (VStr "std", sd);
           (VStr "sum", s); (VStr "sumsq", q); (VStr "count", c)] =>
      match dec_opt_vec mn, dec_opt_vec sd, dec_stats c s q with
      | Some mn', Some sd', Some st' => Some (mkM d e mn' sd' st')
      | _, _, _ => None
      end
  | _ => None
  end.

Definition err_of (n : string) : option M.err :=
  if String.eqb n index_error then Some M.EIndex
  else if String.eqb n OpsC18B.runtime_error then Some M.ERuntime
  else None.

(* ---- accumulate ----------------------------------------------------------------------------------------------------- *)
Definition acc_vars (m : mstate) (x : M.tensor) : list (string * val) :=
  [("self", self_val m); ("x", enc_tensor x); ("torch", torch_mod)].

Definition run_acc (sq : Q -> Q) (m : mstate) (x : M.tensor) : outcome val :=
  Interp.run (ext_t sq) acc_body (acc_vars m x).

(* GLUE: the module's statistics after the call are the final values of the locals count, sum_, sumsq (the buffer
   objects, updated in place) - see the header.  outer None: stuck / not decodable / another exception. *)
Definition src_accumulate (sq : Q -> Q) (m : mstate) (x : M.tensor) : option (M.result M.stats) :=
  match run_acc sq m x with
  | Ok _ fin =>
      match lookup "count" (vars fin), lookup "sum_" (vars fin), lookup "sumsq" (vars fin) with
      | Some c, Some s, Some q =>
          match dec_count c, dec_vec s, dec_vec q with
          | Some c', Some s', Some q' => Some (M.Ok (M.mkStats c' s' q'))
          | _, _, _ => None
          end
      | _, _, _ => None
      end
  | Exc n _ => option_map M.Err (err_of n)
  | Stuck _ => None
  end.

(* ---- store ------------------------------------------------------------------------------------------------------------ *)
Definition store_vars (m : mstate) (del bessel : bool) : list (string * val) :=
  [("self", self_val m); ("delete_stats", VBool del); ("bessel", VBool bessel); ("torch", torch_mod)].

Definition run_store (sq : Q -> Q) (m : mstate) (del bessel : bool) : outcome val :=
  Interp.run (ext_t sq) store_body (store_vars m del bessel).

(* no glue: the module after the call is the value of `self` in the final frame; the result recorded for a successful
   store is (self.mean, self.std) as Model.run_ops records (mean, variance) - self.std is [map sq variance] *)
Definition src_store (sq : Q -> Q) (m : mstate) (del bessel : bool)
  : option (M.result (list Q * list Q) * mstate) :=
  match run_store sq m del bessel with
  | Ok _ fin =>
      match option_map dec_self (lookup "self" (vars fin)) with
      | Some (Some m') =>
          match m_mean m', m_std m' with
          | Some mn, Some sd => Some (M.Ok (mn, sd), m')
          | _, _ => None
          end
      | _ => None
      end
  | Exc n fin =>
      match option_map dec_self (lookup "self" (vars fin)), err_of n with
      | Some (Some m'), Some e => Some (M.Err e, m')
      | _, _ => None
      end
  | Stuck _ => None
  end.

(* ---- histories (Model.run_ops with the interpreted source in place of Model.accumulate / Model.store) ---------- *)
Definition set_stats (m : mstate) (s : option M.stats) : mstate := mkM (m_dim m) (m_eps m) (m_mean m) (m_std m) s.

Fixpoint src_run_ops (sq : Q -> Q) (m : mstate) (ops : list M.op) (outs : list (M.result (list Q * list Q)))
  : option (list (M.result (list Q * list Q)) * M.result (option M.stats)) :=
  match ops with
  | [] => Some (rev outs, M.Ok (m_stats m))
  | M.OpAcc x :: t =>
      match src_accumulate sq m x with
      | Some (M.Ok s) => src_run_ops sq (set_stats m (Some s)) t outs
      | Some (M.Err e) => Some (rev outs, M.Err e)
      | None => None
      end
  | M.OpStore del b :: t =>
      match src_store sq m del b with
      | Some (r, m') => src_run_ops sq m' t (r :: outs)
      | None => None
      end
  end.

Definition fresh_module (dim : Z) : mstate := mkM dim 0 None None None.

(* same interface as Model.check_ops.  The sqrt oracle is the identity: self.std then holds the variance, which is
   compared with the square of the implementation's std exactly as Model.check_ops compares the model's variance. *)
Definition src_ops_check (dim : Z) (ops : list M.op) (tol tola : Q)
  (impl_stores : list (M.result (list Q * list Q)))
  (impl_final : M.result (option (Q * list Q * list Q))) : bool :=
  match src_run_ops (fun v => v) (fresh_module dim) ops [] with
  | Some (stores, final) =>
      M.all2 (M.res_match (M.store_close tol)) stores impl_stores && M.res_match (M.ostats_eqb tola) final impl_final
  | None => false
  end.

(* ---- forward / mean_var_norm ------------------------------------------------------------------------------------ *)
Definition fwd_vars (m : mstate) (x : M.tensor) : list (string * val) :=
  [("self", self_val m); ("x", enc_tensor x)].

Definition run_fwd (sq : Q -> Q) (m : mstate) (x : M.tensor) : outcome val :=
  Interp.run (ext18b sq) fwd_body (fwd_vars m x).

Definition run_mvn (sq : Q -> Q) (x : M.tensor) (dim : Z) (mean std : option (list Q)) (eps : Q) : outcome val :=
  Interp.run (ext_t sq) mvn_body (mvn_vars (enc_tensor x) (VInt dim) (opt_vec mean) (opt_vec std) (VQ eps)).

Definition tensor_outcome (o : outcome val) : option (M.result M.tensor) :=
  match o with
  | Ok v _ => option_map M.Ok (dect v)
  | Exc n _ => option_map M.Err (err_of n)
  | Stuck _ => None
  end.

Definition src_forward (sq : Q -> Q) (m : mstate) (x : M.tensor) : option (M.result M.tensor) :=
  tensor_outcome (run_fwd sq m x).

(* the harness's oracle: torch's own std vector [sigma] is data; sqrt(v) is answered with the element of sigma whose
   square is nearest to v (0 when there is none) *)
Definition nearest_sqrt (sigma : list Q) (v : Q) : Q :=
  fold_right (fun s best => if Qle_bool (Qabs (s * s - v)) (Qabs (best * best - v)) then s else best)
             (hd 0%Q sigma) sigma.

(* same interface as Model.check_norm (the audit of sigma against the model's own variance is the model's business:
   here a wrong variance makes the oracle answer with a wrong sigma, and the result differs) *)
Definition src_norm_check (x : M.tensor) (dim : Z) (mean std : option (list Q)) (eps : Q) (sigma : list Q)
  (tol : Q) (impl : M.result M.tensor) : bool :=
  match src_forward (nearest_sqrt sigma) (mkM dim eps mean std None) x with
  | Some o => M.res_match (M.tensor_close tol) o impl
  | None => false
  end.

(* ---- feat_deltas ------------------------------------------------------------------------------------------------ *)
Definition mode_name (m : M.padmode) : string :=
  match m with M.Replicate => "replicate" | M.Constant => "constant" | M.Reflect => "reflect" | M.Circular => "circular" end.

(* feat_deltas(x, dim, time_dim, concatenate, order, width, pad_mode, value, _filters=None) *)
Definition fd_vars (x : M.tensor) (dim time_dim : Z) (conc : bool) (order width : Z) (m : M.padmode) (v : Q)
  : list (string * val) :=
  [("x", enc_tensor x); ("dim", VInt dim); ("time_dim", VInt time_dim); ("concatenate", VBool conc);
   ("order", VInt order); ("width", VInt width); ("pad_mode", VStr (mode_name m)); ("value", VQ v);
   ("_filters", VNone)].

Definition id_sq (v : Q) : Q := v.     (* no square root is taken in these bodies *)

Definition run_fd (x : M.tensor) (dim time_dim : Z) (conc : bool) (order width : Z) (m : M.padmode) (v : Q) : outcome val :=
  Interp.run (ext18b id_sq) fd_body (fd_vars x dim time_dim conc order width m v).

Definition run_fdf (order width : Z) : outcome val :=
  Interp.run (ext_t id_sq) fdf_body (fdf_vars (VInt order) (VInt width)).

Definition src_deltas (x : M.tensor) (dim time_dim : Z) (conc : bool) (order width : Z) (m : M.padmode) (v : Q)
  : option (M.result M.tensor) :=
  tensor_outcome (run_fd x dim time_dim conc order width m v).

(* same interface as Model.check_deltas *)
Definition src_deltas_check (x : M.tensor) (dim time_dim : Z) (conc : bool) (order width : Z) (m : M.padmode) (v : Q)
  (tol : Q) (impl : M.result M.tensor) : bool :=
  match src_deltas x dim time_dim conc order width m v with
  | Some o => M.res_match (M.tensor_close tol) o impl
  | None => false
  end.
