(* C17 - declarative reading of the property, independent of how the commands work, and boolean
   judgements of implementation outputs. *)
From Coq Require Import List ZArith Bool QArith Arith.
From PV Require Import C11.Model C01.Spec C17.Model.
Import ListNotations.
Local Open Scope Z_scope.

(* ---- alignments and token segments ------------------------------------------------------------- *)

(* "ref partitions a frame sequence of length T": rows (token, start, end), the first starts at 0,
   each starts where the previous one ended, the last ends at T *)
Fixpoint partitions_from (t : Z) (rows : list (list Z)) (T : Z) : Prop :=
  match rows with
  | [] => t = T
  | r :: rest => length r = 3%nat /\ row_start r = t /\ t <= row_end r /\ partitions_from (row_end r) rest T
  end.

(* the alignment a partition denotes: ali[t] = token of the segment containing t *)
Definition denotes (rows : list (list Z)) (ali : list Z) : Prop :=
  partitions_from 0 rows (Z.of_nat (length ali)) /\
  forall r, In r rows -> forall t, row_start r <= t < row_end r -> nth (Z.to_nat t) ali (-1) = row_tok r.

(* "each segment corresponding to the longest contiguous span of the same frame-wise label":
   segments are non-empty and neighbours carry different labels *)
Fixpoint maximal (rows : list (list Z)) : Prop :=
  match rows with
  | [] => True
  | r :: rest =>
      row_start r < row_end r /\
      match rest with [] => True | r' :: _ => row_tok r <> row_tok r' end /\ maximal rest
  end.

(* boolean forms, for judging an implementation output *)
Fixpoint partitions_fromb (t : Z) (rows : list (list Z)) (T : Z) : bool :=
  match rows with
  | [] => t =? T
  | r :: rest => Nat.eqb (length r) 3 && (row_start r =? t) && (t <=? row_end r)
                 && partitions_fromb (row_end r) rest T
  end.

Fixpoint maximalb (rows : list (list Z)) : bool :=
  match rows with
  | [] => true
  | r :: rest =>
      (row_start r <? row_end r)
      && match rest with [] => true | r' :: _ => negb (row_tok r =? row_tok r') end
      && maximalb rest
  end.

(* the token directory entry produced for alignment [ali] is the maximal segmentation of it *)
Definition ref_of_ali_okb (ali : list Z) (t : tensor) : bool :=
  match t with
  | Mat 3 rows =>
      partitions_fromb 0 rows (Z.of_nat (length ali)) && maximalb rows
      && lz_eqb (expand_rows rows) ali
  | _ => false
  end.

(* ---- error rates --------------------------------------------------------------------------------- *)

(* "--replace ... processed before --ignore": map, then filter *)
Definition filtered (rep : list (tk * tk)) (ign : list tk) (tr : list tk) : list tk :=
  filter (fun t => negb (ignored ign t)) (map (apply_replace rep) tr).

(* the figure the command must print in total mode, for the paired utterances, given any numbering
   [enc] of the tokens: total edits / total reference length (or / number of utterances) *)
Definition er_total_spec (dist : Z -> list Z -> list Z -> Z) (enc : tk -> Z)
  (rep : list (tk * tk)) (ign : list tk) (distances : bool) (pairs : list (list tk * list tk))
  : Z * Z :=
  (sumZ (map (fun p => dist 0 (map enc (filtered rep ign (fst p))) (map enc (filtered rep ign (snd p)))) pairs),
   if distances then Z.of_nat (length pairs)
   else sumZ (map (fun p => Z.of_nat (length (filtered rep ign (fst p)))) pairs)).

(* a numbering that never confuses two tokens of the corpus *)
Definition injective_on (enc : tk -> Z) (l : list tk) : Prop :=
  forall a b, In a l -> In b l -> enc a = enc b -> a = b.

(* ---- sub-setting --------------------------------------------------------------------------------- *)

(* the destination holds exactly the requested files, each with the content it has in the source *)
Definition is_filter_of {A} (names : list str) (src dst : gdir A) : Prop :=
  forall n, dir_get dst n = if existsb (str_eqb n) names then dir_get src n else None.

(* ---- directories as maps --------------------------------------------------------------------------- *)
Definition dir_equiv {A} (a b : gdir A) : Prop := forall n, dir_get a n = dir_get b n.

(* ---- boolean judgement of a printed total (unit costs) ---------------------------------------- *)
Definition enc_of (tbl : list (tk * Z)) (t : tk) : Z :=
  match assoc tk_eqb t tbl with Some z => z | None => -1 end.

Definition er_total_okb (enc : list (tk * Z)) (rep : list (tk * tk)) (ign : list tk) (distances : bool)
  (pairs : list (list tk * list tk)) (q : Q) : bool :=
  let '(n, d) := er_total_spec (fun _ => lev 1 1 1) (enc_of enc) rep ign distances pairs in
  negb (d =? 0) && ratio_ok n d q.
