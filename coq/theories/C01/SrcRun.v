(* C01 — the translated source of `_string_matching` (_string.py) as an executable: the environment
   [ext01], the encoding of the model's inputs as MiniPy tensor values, and the correspondence entry
   point [src_edit_distance_check].  Definitions only; the lemmas are in Tie*.v.

   PV.Gen.C01Src.{sm_body, sm_pre, sm_row0, sm_main, sm_fin, sm_loop} are regenerated from
   /repo/src/pydrobert/torch/_string.py on every run by harness/py2coq/translate.py:
     sm_body   the WHOLE body of _string_matching (every branch: masks, prefixes, mistakes)
     sm_pre    "assert not return_mask ..."  ..  "if eos is not None: ... else: ..."   (argument checks, the
               uniform-cost shortcut, transposition, shapes, length inference)
     sm_row0   "rrange = torch.arange(..)" .. "row = row.unsqueeze(1).expand(..)"      (row 0 and del_mat)
     sm_main   "if return_mask:" (before the loop) .. "if return_mistakes: er = .. else: er = row.gather(..)"
               (= the flag block, the `for hyp_idx` loop, the return_mask / return_prf_dsts exits, the gather)
     sm_fin    "er = er * mult" .. "return er"                                          (mult, norm)
     sm_loop   the `for hyp_idx in range(..)` statement alone (it is the second statement of sm_main)
   The blocks are consecutive and cover the body; [sm_blocks] runs them in sequence.  The decorators
   and TorchScript are outside the bodies: the tie is about the text as eager CPython runs it.
     sm_lens   the whole body of `_lens_from_eos` (the same text as unit C07LensSrc of C07, translated again here so
               that a C01 run regenerates it)
   `_lens_from_eos(tok, eos, dim)` is the call of that OTHER translated function: its body [sm_lens] is
   interpreted by PV.C07.SrcRun.call_body (environment C07.SrcRun.ext07_ops) on fresh variables.

   [ext01] gives the torch calls the meaning defined in PV.MiniTorch.OpsC01 / OpsC07 on the path of
   the plain edit distance (return_mask = return_prf_dsts = return_mistakes = False); what the other
   branches would need (float comparisons, keyword `keepdim`, torch.stack, ...) is NOT in its
   vocabulary: Stuck.  What arrives here (see MiniPy.Interp):
     float("inf")                                   "float" [VStr "inf"]
     torch.empty(0), torch.full((n,), v, device=, dtype=torch.long), torch.full_like(x, v),
     torch.arange(n, device=, dtype=torch.float), torch.min(a, b), torch.where(c, a, b)
     x.dim() x.t() x.detach() x.any() x.to(dtype) x.float() x.eq(c) x.gt(c) x.unsqueeze(d) x.squeeze(d)
     x.expand(a, b) x.triu(k) x.gather(0, i) x.min(d)             "$method.<name>", the tensor first
     x.shape x.device x.dtype                                     "$attr.<name>" (device / dtype: opaque tokens)
     a + b, a - b, a * b, a / b                                   "operator" [name; a; b]
     c < x, x >= c, x == c, x != y                                "compare" [name; a; b]
     x[i], x[a:b], x[a:b] = v                                     "$getitem" / "$setitem"
   ASSUMPTIONS: ref / hyp are integer (long) tensors; costs are Python floats (exact rationals [VQ]) or
   ints; dtypes only select conversions (bool -> long / float, long -> float), devices are ignored;
   `x.any()` is returned as its truth value (a Python bool) since it is only used as an `if` test;
   IEEE rounding is not modelled. *)
From Coq Require Import ZArith QArith Qabs List String Bool.
From PV Require Import MiniPy.Syntax MiniPy.Interp MiniTorch.Ops MiniTorch.OpsC07 MiniTorch.OpsC01.
From PV Require Import Gen.C01Src.
From PV Require C07.SrcRun C01.Obs C01.Model.
Import ListNotations.
Local Open Scope string_scope.

Definition index_error : string := "IndexError".
Definition runtime_error : string := "RuntimeError".
Definition assertion_error : string := "AssertionError".
Definition device_token : val := C07.SrcRun.device_token.
Definition long_token : val := C07.SrcRun.long_token.
Definition float_token : val := VStr "$torch.float".
Definition bool_token : val := VStr "$torch.bool".

(* the module global the body reads: `torch` (torch.long / torch.float / torch.bool as values) *)
Definition globals01 : list (string * val) :=
  [("torch", VDict [(VStr "long", long_token); (VStr "float", float_token); (VStr "bool", bool_token)])].

Definition oob (why : string) : outcome val := Stuck ("MiniTorch(C01): outside the modelled domain: " ++ why).

Definition ret01 (why : string) (o : option any01) (st : state) : outcome val :=
  match o with Some t => Ok (enc01 t) st | None => oob why end.

Definition no_kw (kw : list (string * val)) : bool := match kw with [] => true | _ => false end.

Definition kw2_is (n1 : string) (t1 : val) (n2 : string) (t2 : val) (kw : list (string * val)) : bool :=
  match kw with
  | [(a, v); (b, w)] => (is a n1 && val_eqb v t1 && is b n2 && val_eqb w t2)%bool
  | _ => false
  end.

(* a Python number used as an operand of a float tensor *)
Definition num_q (v : val) : option Q :=
  match v with VQ q => Some q | VInt z => Some (inject_Z z) | _ => None end.

Definition dec_bound (v : val) : option (option Z) :=
  match v with VNone => Some None | VInt z => Some (Some z) | _ => None end.

(* a:b (no step) *)
Definition dec_slice (k : val) : option (option Z * option Z) :=
  match k with
  | VTuple [VStr s; a; b; VNone] =>
      if String.eqb s "$slice" then
        match dec_bound a, dec_bound b with Some x, Some y => Some (x, y) | _, _ => None end
      else None
  | _ => None
  end.

Definition dtype_token (t : any01) : val :=
  match t with AB _ => bool_token | AI _ => long_token | AX _ => float_token end.

Definition convert (t : any01) (tok : val) : option any01 :=
  match t with
  | AB x => if val_eqb tok bool_token then Some t
            else if val_eqb tok long_token then Some (AI (bool_to_long x))
            else if val_eqb tok float_token then Some (AX (bool_to_float x)) else None
  | AI x => if val_eqb tok long_token then Some t
            else if val_eqb tok float_token then Some (AX (long_to_float x)) else None
  | AX x => if val_eqb tok float_token then Some t else None
  end.

(* everything but the call of _lens_from_eos *)
Definition ext01_ops (f : string) (args : list val) (kw : list (string * val)) (st : state) : outcome val :=
  if is f "torch.full" then
    match args with
    | [VTuple [VInt n]; VInt v] =>
        if kw2_is "device" device_token "dtype" long_token kw
        then (if Z.ltb n 0 then oob "full" else Ok (enc_i (full [Z.to_nat n] v)) st)
        else Stuck "full: keyword"
    | _ => Stuck "full"
    end
  else if is f "torch.arange" then
    match args with
    | [VInt n] =>
        if kw2_is "device" device_token "dtype" float_token kw
        then ret01 "arange" (option_map AX (arange_f n)) st
        else Stuck "arange: keyword"
    | _ => Stuck "arange"
    end
  else if negb (no_kw kw) then Stuck ("ext01: keyword arguments of " ++ f)
  else if is f "float" then
    match args with
    | [VStr s] => if String.eqb s "inf" then Ok (VInf true) st else Stuck "float(str)"
    | _ => Stuck "float"
    end
  else if is f "torch.empty" then
    match args with
    | [VInt 0] => Ok (enc_x (mkTn [0%nat] [])) st
    | _ => Stuck "empty"
    end
  else if is f "torch.full_like" then
    match args with
    | [t; v] => match dec01 t, val_fx v with
                | Some (AX x), Some c => Ok (enc_x (full (shp x) c)) st
                | _, _ => Stuck "full_like"
                end
    | _ => Stuck "full_like"
    end
  else if is f "torch.min" then
    match args with
    | [a; b] => match dec01 a, dec01 b with
                | Some (AX x), Some (AX y) => ret01 "min" (option_map AX (bin_f fmin x y)) st
                | _, _ => Stuck "torch.min"
                end
    | _ => Stuck "torch.min"
    end
  else if is f "torch.where" then
    match args with
    | [c; a; b] => match dec01 c, dec01 a, dec01 b with
                   | Some (AB m), Some (AX x), Some (AX y) => ret01 "where" (option_map AX (where_f m x y)) st
                   | _, _, _ => Stuck "where"
                   end
    | _ => Stuck "where"
    end
  else if is f "$method.dim" then
    match args with
    | [t] => match dec01 t with Some x => Ok (VInt (Z.of_nat (List.length (shape01 x)))) st | None => Stuck "dim" end
    | _ => Stuck "dim"
    end
  else if is f "$attr.shape" then
    match args with
    | [t] => match dec01 t with
             | Some x => Ok (VTuple (map (fun n => VInt (Z.of_nat n)) (shape01 x))) st
             | None => Stuck "shape"
             end
    | _ => Stuck "shape"
    end
  else if is f "$attr.device" then
    match args with
    | [t] => match dec01 t with Some _ => Ok device_token st | None => Stuck "device" end
    | _ => Stuck "device"
    end
  else if is f "$attr.dtype" then
    match args with
    | [t] => match dec01 t with Some x => Ok (dtype_token x) st | None => Stuck "dtype" end
    | _ => Stuck "dtype"
    end
  else if is f "$method.t" then
    match args with
    | [t] => match dec01 t with
             | Some x => ret01 "t" (map01 (fun X d y => transpose2 d y) x) st
             | None => Stuck "t"
             end
    | _ => Stuck "t"
    end
  else if is f "$method.detach" then
    match args with
    | [t] => match dec01 t with Some x => Ok (enc01 x) st | None => Stuck "detach" end
    | _ => Stuck "detach"
    end
  else if is f "$method.any" then
    match args with
    | [t] => match dec01 t with Some (AB x) => Ok (VBool (any_b x)) st | _ => Stuck "any" end
    | _ => Stuck "any"
    end
  else if is f "$method.to" then
    match args with
    | [t; tok] => match dec01 t with
                  | Some x => ret01 "to" (convert x tok) st
                  | None => Stuck "to"
                  end
    | _ => Stuck "to"
    end
  else if is f "$method.float" then
    match args with
    | [t] => match dec01 t with
             | Some x => ret01 "float" (convert x float_token) st
             | None => Stuck "float()"
             end
    | _ => Stuck "float()"
    end
  else if is f "$method.eq" then
    match args with
    | [t; VInt c] => match dec01 t with Some (AI x) => Ok (enc_b (eq_s x c)) st | _ => Stuck "eq" end
    | _ => Stuck "eq"
    end
  else if is f "$method.gt" then
    match args with
    | [t; VInt c] => match dec01 t with Some (AI x) => Ok (enc_b (cmp_scalar Z.gtb x c)) st | _ => Stuck "gt" end
    | _ => Stuck "gt"
    end
  else if is f "$method.unsqueeze" then
    match args with
    | [t; VInt d] => match dec01 t with
                     | Some x => ret01 "unsqueeze" (map01 (fun X _ y => unsqueeze y d) x) st
                     | None => Stuck "unsqueeze"
                     end
    | _ => Stuck "unsqueeze"
    end
  else if is f "$method.squeeze" then
    match args with
    | [t; VInt d] => match dec01 t with
                     | Some x => ret01 "squeeze" (map01 (fun X _ y => squeeze_dim y d) x) st
                     | None => Stuck "squeeze"
                     end
    | _ => Stuck "squeeze"
    end
  else if is f "$method.expand" then
    match args with
    | [t; VInt a; VInt b] => match dec01 t with
                             | Some x => ret01 "expand" (map01 (fun X d y => expand2 d y a b) x) st
                             | None => Stuck "expand"
                             end
    | _ => Stuck "expand"
    end
  else if is f "$method.triu" then
    match args with
    | [t; VInt k] => match dec01 t with
                     | Some (AX x) => ret01 "triu" (option_map AX (triu_f x k)) st
                     | _ => Stuck "triu"
                     end
    | _ => Stuck "triu"
    end
  else if is f "$method.gather" then
    match args with
    | [t; VInt d; i] =>
        match dec01 t, dec01 i with
        | Some (AX x), Some (AI y) =>
            if (d =? 0)%Z then ret01 "gather" (option_map AX (gather0 x y)) st else oob "gather: only dim = 0"
        | _, _ => Stuck "gather"
        end
    | _ => Stuck "gather"
    end
  else if is f "$method.min" then
    match args with
    | [t; VInt d] =>
        match dec01 t with
        | Some (AX x) =>
            match min_dim x d with
            | Some (Some (v, i)) => Ok (VTuple [enc_x v; enc_i i]) st
            | Some None => Exc index_error st
            | None => oob "min"
            end
        | _ => Stuck "min: not a float tensor"
        end
    | _ => Stuck "min"
    end
  else if is f "$getitem" then
    match args with
    | [t; VInt i] =>
        match dec01 t with
        | Some (AI x) => match select0 x i with
                         | Some (Some r) => Ok (enc_i r) st
                         | Some None => Exc index_error st
                         | None => oob "getitem"
                         end
        | Some (AX x) => match select0 x i with
                         | Some (Some r) => Ok (enc_x r) st
                         | Some None => Exc index_error st
                         | None => oob "getitem"
                         end
        | _ => Stuck "getitem: integer key"
        end
    | [t; k] =>
        match dec01 t, dec_slice k with
        | Some x, Some (a, b) => ret01 "getitem slice" (map01 (fun X _ y => slice0 y a b) x) st
        | _, _ => Stuck "getitem"
        end
    | _ => Stuck "getitem"
    end
  else if is f "$setitem" then
    match args with
    | [t; k; v] =>
        match dec01 t, dec_slice k, dec01 v with
        | Some (AX x), Some (a, b), Some (AX y) => ret01 "setitem slice" (option_map AX (set_slice0 x a b y)) st
        | _, _, _ => Stuck "setitem"
        end
    | _ => Stuck "setitem"
    end
  else if is f "operator" then
    match args with
    | [VStr o; a; b] =>
        if is o "add" then
          match dec01 a, dec01 b, b with
          | Some (AX x), Some (AX y), _ => ret01 "add" (option_map AX (bin_f fadd x y)) st
          | Some (AI x), Some (AI y), _ => ret01 "add" (option_map AI (bin_i Z.add x y)) st
          | Some (AI x), None, VInt c => Ok (enc_i (add_s x c)) st
          | _, _, _ => Stuck "add"
          end
        else if is o "sub" then
          match dec01 a, dec01 b with
          | Some (AX x), Some (AX y) => ret01 "sub" (option_map AX (bin_f fsub x y)) st
          | Some (AI x), Some (AI y) => ret01 "sub" (option_map AI (bin_i Z.sub x y)) st
          | _, _ => Stuck "sub"
          end
        else if is o "mul" then
          match dec01 a, dec01 b with
          | Some (AX x), None => match num_q b with
                                 | Some q => Ok (enc_x (map_t (fun e => fmul e (Fq q)) x)) st
                                 | None => Stuck "mul"
                                 end
          | None, Some (AX y) => match num_q a with
                                 | Some q => Ok (enc_x (map_t (fmul (Fq q)) y)) st
                                 | None => Stuck "mul"
                                 end
          | _, _ => Stuck "mul"
          end
        else if is o "truediv" then
          match dec01 a, dec01 b with
          | Some (AX x), Some (AX y) => ret01 "truediv" (option_map AX (bin_f fdiv x y)) st
          | _, _ => Stuck "truediv"
          end
        else Stuck ("operator " ++ o)
    | _ => Stuck "operator"
    end
  else if is f "compare" then
    match args with
    | [VStr o; a; b] =>
        if is o "lt" then
          match a, dec01 b with
          | VInt c, Some (AI y) => Ok (enc_b (map_t (fun v => Z.ltb c v) y)) st
          | _, _ => Stuck "compare lt"
          end
        else if is o "ge" then
          match dec01 a, b with
          | Some (AI x), VInt c => Ok (enc_b (ge_s x c)) st
          | _, _ => Stuck "compare ge"
          end
        else if is o "eq" then
          match dec01 a, b with
          | Some (AI x), VInt c => Ok (enc_b (eq_s x c)) st
          | _, _ => Stuck "compare eq"
          end
        else if is o "ne" then
          match dec01 a, dec01 b with
          | Some (AI x), Some (AI y) => ret01 "ne" (option_map AB (cmp_i (fun u v => negb (Z.eqb u v)) x y)) st
          | _, _ => Stuck "compare ne"
          end
        else Stuck ("compare " ++ o)
    | _ => Stuck "compare"
    end
  else Stuck ("ext01: " ++ f).

Definition ext01 (f : string) (args : list val) (kw : list (string * val)) (st : state) : outcome val :=
  if is f "_lens_from_eos" then
    match args, kw with
    | [tok; eos; dim], [] =>
        C07.SrcRun.call_body (fun x => x) sm_lens
          (("tok", tok) :: ("eos", eos) :: ("dim", dim) :: C07.SrcRun.globals07) st
    | _, _ => Stuck "_lens_from_eos: arguments"
    end
  else ext01_ops f args kw st.

(* ---- the arguments ----------------------------------------------------------------------------------- *)
Definition opt_int (e : option Z) : val := match e with Some z => VInt z | None => VNone end.

(* _string_matching(ref, hyp, eos, include_eos, batch_first, ins_cost, del_cost, sub_cost, warn, norm,
   return_mask=False, return_prf_dsts=False, exclude_last=False, padding, return_mistakes=False): the call made by
   edit_distance *)
Definition sm_vars (ref hyp : tn Z) (eos : option Z) (incl bf : bool) (qi qd qs : Q) (warn norm : bool) (pad : Z)
  : list (string * val) :=
  [("ref", enc_i ref); ("hyp", enc_i hyp); ("eos", opt_int eos); ("include_eos", VBool incl);
   ("batch_first", VBool bf); ("ins_cost", VQ qi); ("del_cost", VQ qd); ("sub_cost", VQ qs);
   ("warn", VBool warn); ("norm", VBool norm); ("return_mask", VBool false); ("return_prf_dsts", VBool false);
   ("exclude_last", VBool false); ("padding", VInt pad); ("return_mistakes", VBool false)] ++ globals01.

(* the blocks in sequence *)
Definition sm_blocks : stmt := SSeq sm_pre (SSeq sm_row0 (SSeq sm_main sm_fin)).

(* ---- executable entry points for the correspondence -------------------------------------------------
   [ref] / [hyp]: the matrix exactly as handed to the implementation, as a list of rows (N rows when
   batch_first, else one row per time step with N entries).  Costs k/scale as exact rationals. *)
Definition mat_tensor (bf : bool) (N : nat) (m : list (list Z)) : tn Z :=
  mkTn (if bf then [N; List.length (hd [] m)] else [List.length m; N]) (List.concat m).

Definition cost_q (scale k : Z) : Q := Qred (k # Z.to_pos scale).

Definition cfg_vars (c : C01.Model.cfg) (scale : Z) (N : nat) (ref hyp : list (list Z)) : list (string * val) :=
  sm_vars (mat_tensor (C01.Model.c_bf c) N ref) (mat_tensor (C01.Model.c_bf c) N hyp)
    (C01.Model.c_eos c) (C01.Model.c_incl c) (C01.Model.c_bf c)
    (cost_q scale (C01.Model.c_ins c)) (cost_q scale (C01.Model.c_del c)) (cost_q scale (C01.Model.c_sub c))
    false (C01.Model.c_norm c) (C01.Model.c_pad c).

(* outer None: the interpreter got stuck / returned something that is not a 1-D float tensor;
   Some None: the source raised *)
Definition src_ed (body : stmt) (c : C01.Model.cfg) (scale : Z) (N : nat) (ref hyp : list (list Z))
  : option (option (list fx)) :=
  match Interp.run ext01 body (cfg_vars c scale N ref hyp) with
  | Ok v _ => match dec01 v with
              | Some (AX t) => if nats_eqb (shp t) [N] then Some (Some (dat t)) else None
              | _ => None
              end
  | Exc _ _ => Some None
  | Stuck _ => None
  end.

(* an observed float (exact rational) against the value the interpreted source computes with exact
   arithmetic: equal, or - for a normalised result, which is one IEEE division in the implementation -
   within relative 2^-23 *)
Definition fx_matches (norm : bool) (x : fx) (q : Q) : bool :=
  match x with
  | Fq p => (Qeq_bool p q || (norm && Qle_bool (Qabs (q - p) * (8388608 # 1)) (Qabs p)))%bool
  | _ => false
  end.

Definition src_ed_check (body : stmt) (c : C01.Model.cfg) (scale : Z) (N : nat) (ref hyp : list (list Z))
  (obs : list Q) : bool :=
  match src_ed body c scale N ref hyp with
  | Some (Some out) => C01.Obs.forall2b (fx_matches (C01.Model.c_norm c)) out obs
  | _ => false
  end.

(* same interface as Model.check_ed: the blocks run in sequence AND the whole body as one term *)
Definition src_edit_distance_check (c : C01.Model.cfg) (scale : Z) (N : nat) (ref hyp : list (list Z))
  (obs : list Q) : bool :=
  (src_ed_check sm_blocks c scale N ref hyp obs && src_ed_check sm_body c scale N ref hyp obs)%bool.
