(* C03 - the arithmetic behind the source tie of the mask path, free of the interpreter: the float expressions the
   interpreted `_string_matching(return_mask=True)` builds per entry (MiniTorch arithmetic on [ofx s o] = the float o / s,
   +inf for None) are the values of PV.C03.Model ([ostep_row], [inf_past], [mask_step], [oeqb]) scaled by the common
   denominator s.  Reuses C01.TieMath (zf, ofx, fadd_ofx_zf, fmin_ofx, fmin_list_ofx, del_entry_src) read-only. *)
From Coq Require Import ZArith QArith List Bool Arith Lia ZifyBool ZifyNat.
From PV Require Import MiniTorch.Ops MiniTorch.Lemmas MiniTorch.OpsC07 MiniTorch.LemmasC07 MiniTorch.OpsC01 MiniTorch.LemmasC01
  MiniTorch.OpsC03 MiniTorch.LemmasC03.
From PV Require Import C01.TieMath.
From PV Require C01.Model C01.Proofs C03.Model C03.ProofsMask.
Import ListNotations.
Local Open Scope Z_scope.

Lemma fadd_ofx_ofx : forall s a b, fadd (ofx s a) (ofx s b) = ofx s (C03.Model.oadd2 a b).
Proof. intros s [a|] [b|]; cbn [ofx C03.Model.oadd2]; try reflexivity. apply fadd_zf. Qed.

Lemma fx_eqb_ofx : forall s a b, fx_eqb (ofx s a) (ofx s b) = C03.Model.oeqb a b.
Proof. intros s [a|] [b|]; cbn [ofx C03.Model.oeqb]; try reflexivity. unfold zf, fx_eqb. apply qz_eqb. Qed.

Lemma ofx_if : forall s (b : bool) x, (if b then FPInf else ofx s x) = ofx s (if b then None else x).
Proof. intros s [|] x; reflexivity. Qed.

(* ---- one step of one column, by index ------------------------------------------------------------------------ *)
Section Step.
  Variables (ci cd cs : Z) (R H : nat).
  Variables (rcol hcol : nat -> Z) (lcol : nat -> option Z) (rlen hlen k : nat) (excl : bool).

  Let r := map rcol (seq 0 R).
  Let h := map hcol (seq 0 H).
  Let last := map lcol (seq 0 (S R)).

  (* insertion / substitution candidates of entry j (before the deletion fold), with +inf *)
  Definition ocandf (j : nat) : option Z :=
    let im := if (k <=? hlen)%nat then 1 else 0 in
    match j with
    | O => C01.Model.oadd (lcol 0%nat) (ci * im)
    | S j' => C01.Model.omin (C01.Model.oadd (lcol (S j')) (ci * im))
                             (C01.Model.oadd (lcol j') (cs * (if rcol j' =? hcol (k - 1)%nat then 0 else 1)))
    end.

  Hypothesis Hk : (1 <= k <= H)%nat.

  Let Lr : length r = R.  Proof. unfold r. now rewrite map_length, seq_length. Qed.
  Let Ll : length last = S (length r).  Proof. unfold last. now rewrite map_length, seq_length, Lr. Qed.

  Lemma ocand_list :
    C03.ProofsMask.ocand ci cs r (nth (k - 1) h 0) (if (k <=? hlen)%nat then 1 else 0) last = map ocandf (seq 0 (S R)).
  Proof.
    unfold C03.ProofsMask.ocand.
    set (im := if (k <=? hlen)%nat then 1 else 0). set (tok := nth (k - 1) h 0).
    set (neq_mask := map (fun a => if a =? tok then 0 else 1) r).
    set (row := map (fun x => C01.Model.oadd x (ci * im)) last).
    set (sub_row := C01.Model.map2 (fun x m => C01.Model.oadd x (cs * m)) (removelast last) neq_mask).
    assert (Htok : tok = hcol (k - 1)%nat).
    { unfold tok, h. rewrite C01.Proofs.nth_map_seq by lia. reflexivity. }
    assert (Ll' : length last = S R) by (now rewrite Ll, Lr).
    assert (Lrow : length row = S R) by (unfold row; now rewrite map_length).
    assert (Ln : length neq_mask = R) by (unfold neq_mask; now rewrite map_length).
    assert (Ls : length sub_row = R).
    { unfold sub_row. rewrite C01.Proofs.map2_length, C01.Proofs.length_removelast, Ll', Ln. lia. }
    apply (nth_ext _ _ None None).
    - cbn [length]. rewrite C01.Proofs.map2_length, C01.Proofs.length_tl, Lrow, Ls, map_length, seq_length. lia.
    - intros i Hi. cbn [length] in Hi. rewrite C01.Proofs.map2_length, C01.Proofs.length_tl, Lrow, Ls in Hi.
      assert (HiR : (i < S R)%nat) by lia.
      rewrite (C01.Proofs.nth_map_seq ocandf 0 (S R) i None HiR). cbn [Nat.add].
      destruct i as [|i'].
      + cbn [nth]. rewrite C01.Proofs.hd_nth0. unfold row.
        rewrite (C01.Proofs.nth_map_lt (fun x => C01.Model.oadd x (ci * im)) last 0 None None) by lia.
        unfold last. rewrite C01.Proofs.nth_map_seq by lia. reflexivity.
      + cbn [nth]. rewrite (C01.Proofs.nth_map2 C01.Model.omin (tl row) sub_row i' None None None)
          by (rewrite ?C01.Proofs.length_tl, ?Lrow, ?Ls; lia).
        rewrite C01.Proofs.nth_tl. unfold row at 1.
        rewrite (C01.Proofs.nth_map_lt (fun x => C01.Model.oadd x (ci * im)) last (S i') None None) by lia.
        unfold sub_row.
        rewrite (C01.Proofs.nth_map2 (fun x m => C01.Model.oadd x (cs * m)) (removelast last) neq_mask i' None 0 None)
          by (rewrite ?C01.Proofs.length_removelast, ?Ll', ?Ln; lia).
        rewrite C01.Proofs.nth_removelast by (rewrite Ll'; lia).
        unfold last. rewrite !C01.Proofs.nth_map_seq by lia. cbn [Nat.add].
        unfold neq_mask. rewrite (C01.Proofs.nth_map_lt (fun a => if a =? tok then 0 else 1) r i' 0 0)
          by (rewrite Lr; lia).
        unfold r. rewrite C01.Proofs.nth_map_seq by lia. cbn [Nat.add]. rewrite Htok. reflexivity.
  Qed.

  Lemma ocand_len : forall tok m, length (C03.ProofsMask.ocand ci cs r tok m last) = S R.
  Proof.
    intros. unfold C03.ProofsMask.ocand. cbn [length].
    rewrite !C01.Proofs.map2_length, C01.Proofs.length_tl, C01.Proofs.length_removelast, !map_length, Ll, Lr. lia.
  Qed.

  Lemma inf_past_len : forall row, length (C03.Model.inf_past rlen row) = length row.
  Proof. intros. unfold C03.Model.inf_past. rewrite C01.Proofs.map2_length, seq_length. lia. Qed.

  Definition ostep_at (i : nat) : option Z :=
    if C03.Model.not_done_at hlen excl k
    then C01.Model.omin_list (map (fun j => C03.Model.oadd2 (C01.Model.del_entry cd i j) (ocandf j)) (seq 0 (S R)))
    else lcol i.

  Lemma ostep_entry : forall i, (i < S R)%nat ->
    nth i (C03.Model.ostep_row ci cd cs r h hlen excl k last) None = ostep_at i.
  Proof.
    intros i Hi. rewrite C03.ProofsMask.ostep_row_unfold. unfold ostep_at.
    destruct (C03.Model.not_done_at hlen excl k).
    - rewrite ocand_list. unfold C03.Model.odel_fold. rewrite map_length, seq_length.
      rewrite C01.Proofs.nth_map_seq by exact Hi. cbn [Nat.add]. f_equal.
      apply map_ext_in. intros j Hj. apply in_seq in Hj. rewrite C01.Proofs.nth_map_seq by lia. reflexivity.
    - unfold last. rewrite C01.Proofs.nth_map_seq by exact Hi. reflexivity.
  Qed.

  Lemma ostep_length : length (C03.Model.ostep_row ci cd cs r h hlen excl k last) = S R.
  Proof.
    rewrite C03.ProofsMask.ostep_row_unfold. destruct (C03.Model.not_done_at hlen excl k).
    - now rewrite C03.ProofsMask.odel_fold_length, ocand_len.
    - now rewrite Ll, Lr.
  Qed.

  (* the row carried to the next step: +inf past the reference length *)
  Definition mrow_at (i : nat) : option Z := if (rlen <? i)%nat then None else ostep_at i.

  Definition mrow : list (option Z) := fst (C03.Model.mask_step ci cd cs r h rlen hlen excl k last).
  Definition mbits : list bool := snd (C03.Model.mask_step ci cd cs r h rlen hlen excl k last).

  Lemma mrow_length : length mrow = S R.
  Proof. unfold mrow, C03.Model.mask_step. cbn [fst]. now rewrite inf_past_len, ostep_length. Qed.

  Lemma mrow_entry : forall i, (i < S R)%nat -> nth i mrow None = mrow_at i.
  Proof.
    intros i Hi. unfold mrow, C03.Model.mask_step. cbn [fst].
    rewrite C03.ProofsMask.inf_past_nth by (now rewrite ostep_length). unfold mrow_at. now rewrite ostep_entry.
  Qed.

  Lemma mrow_as_map : mrow = map mrow_at (seq 0 (S R)).
  Proof.
    apply (nth_ext _ _ None None).
    - now rewrite mrow_length, map_length, seq_length.
    - intros i Hi. rewrite mrow_length in Hi. rewrite C01.Proofs.nth_map_seq by exact Hi. now apply mrow_entry.
  Qed.

  Lemma mbits_length : length mbits = R.
  Proof.
    unfold mbits, C03.Model.mask_step. cbn [snd].
    change (C03.Model.inf_past rlen (C03.Model.ostep_row ci cd cs r h hlen excl k last)) with mrow.
    rewrite map_length, C01.Proofs.length_removelast, mrow_length. lia.
  Qed.

  Lemma mbits_entry : forall i, (i < R)%nat ->
    nth i mbits false =
    (C03.Model.oeqb (mrow_at i) (C01.Model.omin_list (map mrow_at (seq 0 (S R)))) && C03.Model.not_done_at hlen excl k)%bool.
  Proof.
    intros i Hi. unfold mbits, C03.Model.mask_step. cbn [snd].
    change (C03.Model.inf_past rlen (C03.Model.ostep_row ci cd cs r h hlen excl k last)) with mrow.
    rewrite (C01.Proofs.nth_map_lt _ _ i None) by (rewrite C01.Proofs.length_removelast, mrow_length; lia).
    rewrite C01.Proofs.nth_removelast by (rewrite mrow_length; lia).
    rewrite mrow_entry by lia. now rewrite mrow_as_map.
  Qed.

  (* ---- the float expressions the interpreted loop body leaves ------------------------------------------------------ *)
  Definition candx (s : positive) (j : nat) : fx :=
    match j with
    | O => fadd (ofx s (lcol 0%nat)) (fmul (Fq (qz s ci)) (b2f (Z.of_nat hlen >=? Z.of_nat k)%Z))
    | S j' => fmin (fadd (ofx s (lcol (S j'))) (fmul (Fq (qz s ci)) (b2f (Z.of_nat hlen >=? Z.of_nat k)%Z)))
                   (fadd (ofx s (lcol j')) (fmul (Fq (qz s cs)) (b2f (negb (rcol j' =? hcol (k - 1)%nat)%Z))))
    end.

  Lemma candx_ocandf : forall s j, candx s j = ofx s (ocandf j).
  Proof.
    intros s j. unfold candx, ocandf.
    replace (Z.of_nat hlen >=? Z.of_nat k)%Z with (k <=? hlen)%nat by lia.
    destruct j as [|j'].
    - rewrite fmul_zf_b2f, fadd_ofx_zf. reflexivity.
    - rewrite !fmul_zf_b2f, !fadd_ofx_zf, fmin_ofx. do 3 f_equal.
      destruct (rcol j' =? hcol (k - 1)%nat)%Z; reflexivity.
  Qed.

  (* entry i after the step and the +inf fill; [nd] is the test the source computes for not_done *)
  Definition stepx (s : positive) (nd : bool) (i : nat) : fx :=
    if fx_gtb (z2f (Z.of_nat i)) (z2f (Z.of_nat rlen)) then FPInf
    else if nd
         then fmin_list (map (fun j => fadd (ofx s (C01.Model.del_entry cd i j)) (candx s j)) (seq 0 (S R)))
         else ofx s (lcol i).

  Lemma stepx_mrow : forall s nd i, nd = C03.Model.not_done_at hlen excl k -> stepx s nd i = ofx s (mrow_at i).
  Proof.
    intros s nd i ->. unfold stepx, mrow_at, ostep_at. rewrite fx_gtb_z2f.
    replace (Z.of_nat i >? Z.of_nat rlen)%Z with (rlen <? i)%nat by lia.
    destruct (rlen <? i)%nat; [reflexivity|].
    destruct (C03.Model.not_done_at hlen excl k); [|reflexivity].
    rewrite (map_ext _ (fun j => ofx s (C03.Model.oadd2 (C01.Model.del_entry cd i j) (ocandf j)))).
    - rewrite <- (map_map (fun j => C03.Model.oadd2 (C01.Model.del_entry cd i j) (ocandf j)) (ofx s)).
      apply fmin_list_ofx.
    - intros j. now rewrite candx_ocandf, fadd_ofx_ofx.
  Qed.

  Lemma stepx_entry : forall s nd i, (i < S R)%nat -> nd = C03.Model.not_done_at hlen excl k ->
    stepx s nd i = ofx s (nth i mrow None).
  Proof. intros s nd i Hi E. rewrite mrow_entry by exact Hi. now apply stepx_mrow. Qed.

  (* the mask bit the source computes at position i *)
  Lemma bitx_entry : forall s nd i, (i < R)%nat -> nd = C03.Model.not_done_at hlen excl k ->
    (fx_eqb (stepx s nd i) (fmin_list (map (stepx s nd) (seq 0 (S R)))) && nd)%bool = nth i mbits false.
  Proof.
    intros s nd i Hi E. rewrite mbits_entry by exact Hi.
    rewrite (map_ext _ (fun i' => ofx s (mrow_at i'))) by (intros; now apply stepx_mrow).
    rewrite <- (map_map mrow_at (ofx s)), fmin_list_ofx, (stepx_mrow s nd i E), fx_eqb_ofx. now rewrite E.
  Qed.
End Step.

(* ---- the rows / masks of the model as an iteration ------------------------------------------------------------------- *)
Fixpoint iter_mrow (ci cd cs : Z) (r h : list Z) (rlen hlen : nat) (excl : bool) (fuel k : nat) (last : list (option Z))
  : list (option Z) :=
  match fuel with
  | O => last
  | S f => iter_mrow ci cd cs r h rlen hlen excl f (S k) (fst (C03.Model.mask_step ci cd cs r h rlen hlen excl k last))
  end.

Lemma masks_loop_snoc : forall ci cd cs r h rlen hlen excl fuel k last,
  C03.Model.masks_loop ci cd cs r h rlen hlen excl (S fuel) k last =
  C03.Model.masks_loop ci cd cs r h rlen hlen excl fuel k last ++
  [snd (C03.Model.mask_step ci cd cs r h rlen hlen excl (k + fuel)
         (iter_mrow ci cd cs r h rlen hlen excl fuel k last))].
Proof.
  intros ci cd cs r h rlen hlen excl fuel. induction fuel as [|f IH]; intros k last.
  - cbn [C03.Model.masks_loop iter_mrow app]. now rewrite Nat.add_0_r.
  - change (C03.Model.masks_loop ci cd cs r h rlen hlen excl (S (S f)) k last)
      with (snd (C03.Model.mask_step ci cd cs r h rlen hlen excl k last)
            :: C03.Model.masks_loop ci cd cs r h rlen hlen excl (S f) (S k)
                 (fst (C03.Model.mask_step ci cd cs r h rlen hlen excl k last))).
    rewrite IH. replace (k + S f)%nat with (S k + f)%nat by lia. reflexivity.
Qed.
