(* C01 - the arithmetic behind the source tie, free of the interpreter: the float expressions the
   interpreted `_string_matching` builds per entry (MiniTorch.OpsC01 arithmetic on [zf s z] = the
   float z / s) are the integers of PV.C01.Model ([step_row], [row0], [del_entry], the gather and
   the normalisation), scaled by the common denominator s. *)
From Coq Require Import ZArith QArith List Bool Arith Lia ZifyBool ZifyNat.
From PV Require Import MiniTorch.Ops MiniTorch.Lemmas MiniTorch.OpsC07 MiniTorch.LemmasC07 MiniTorch.OpsC01 MiniTorch.LemmasC01.
From PV Require C01.Model C01.Proofs.
Import ListNotations.
Local Open Scope Z_scope.

(* the model's integers as floats: z / s in lowest terms; None = +inf *)
Definition zf (s : positive) (z : Z) : fx := Fq (qz s z).
Definition ofx (s : positive) (o : option Z) : fx := match o with Some a => zf s a | None => FPInf end.

Lemma fadd_zf : forall s a b, fadd (zf s a) (zf s b) = zf s (a + b).
Proof. intros. unfold fadd, zf. now rewrite qz_add. Qed.

Lemma fsub_zf : forall s a b, fsub (zf s a) (zf s b) = zf s (a - b).
Proof. intros. unfold fsub, zf. now rewrite qz_sub. Qed.

Lemma fmul_zf_b2f : forall s c (b : bool), fmul (Fq (qz s c)) (b2f b) = zf s (c * (if b then 1 else 0)).
Proof. intros. unfold fmul, b2f, zf. now rewrite qz_mul_bool. Qed.

Lemma fmin_zf : forall s a b, fmin (zf s a) (zf s b) = zf s (Z.min a b).
Proof.
  intros. unfold fmin, zf. rewrite qz_le. destruct (Z.leb_spec a b).
  - now rewrite Z.min_l by lia.
  - now rewrite Z.min_r by lia.
Qed.

Lemma fmul_z2f_zf : forall s i c, fmul (z2f i) (Fq (qz s c)) = zf s (i * c).
Proof. intros. unfold fmul, z2f, zf. now rewrite qz_mul_int_l. Qed.

Lemma fadd_zf_0 : forall s a, fadd (zf s a) (Fq 0) = zf s a.
Proof. intros. unfold fadd, zf. now rewrite qz_add_0. Qed.

(* an entry of del_mat as the source builds it: (row0[i] - row0[j]) + (inf above the diagonal, else 0) *)
Lemma del_entry_src : forall s cd i j,
  fadd (fsub (fmul (z2f (Z.of_nat i)) (Fq (qz s cd))) (fmul (z2f (Z.of_nat j)) (Fq (qz s cd))))
       (if (i + 1 <=? j)%nat then FPInf else Fq 0)
  = ofx s (Model.del_entry cd i j).
Proof.
  intros. rewrite !fmul_z2f_zf, fsub_zf. unfold Model.del_entry.
  replace (j <=? i)%nat with (negb (i + 1 <=? j)%nat) by lia.
  destruct (i + 1 <=? j)%nat; cbn [negb ofx]; [reflexivity|apply fadd_zf_0].
Qed.

Lemma fadd_ofx_zf : forall s o x, fadd (ofx s o) (zf s x) = ofx s (Model.oadd o x).
Proof. intros s [a|] x; cbn [ofx Model.oadd]; [apply fadd_zf|reflexivity]. Qed.

Lemma fmin_ofx : forall s a b, fmin (ofx s a) (ofx s b) = ofx s (Model.omin a b).
Proof. intros s [a|] [b|]; cbn [ofx Model.omin]; try reflexivity. apply fmin_zf. Qed.

Lemma fmin_list_ofx : forall s (l : list (option Z)), fmin_list (map (ofx s) l) = ofx s (Model.omin_list l).
Proof.
  intros s l. induction l as [|a l IH]; [reflexivity|].
  unfold fmin_list, Model.omin_list in *. cbn [map fold_right]. rewrite IH. apply fmin_ofx.
Qed.

Lemma omin_list_some : forall (l : list (option Z)) a, In (Some a) l -> exists x, Model.omin_list l = Some x.
Proof.
  induction l as [|b l IH]; intros a Hin; [destruct Hin|destruct Hin as [Hb|Hl]].
  - subst b. unfold Model.omin_list. cbn [fold_right]. destruct (fold_right Model.omin None l); eexists; reflexivity.
  - destruct (IH a Hl) as [x Hx]. unfold Model.omin_list in *. cbn [fold_right]. rewrite Hx.
    destruct b; eexists; reflexivity.
Qed.

(* entry i of the deletion fold, as the option the fold computes *)
Lemma del_fold_entry : forall cd v i, (i < length v)%nat ->
  Model.omin_list (map (fun j => Model.oadd (Model.del_entry cd i j) (nth j v 0)) (seq 0 (length v)))
  = Some (nth i (Model.del_fold cd v) 0).
Proof.
  intros cd v i Hi.
  destruct (omin_list_some (map (fun j => Model.oadd (Model.del_entry cd i j) (nth j v 0)) (seq 0 (length v)))
              (Z.of_nat i * cd - Z.of_nat i * cd + nth i v 0)) as [x Hx].
  { apply in_map_iff. exists i. split; [|apply in_seq; lia]. unfold Model.del_entry.
    replace (i <=? i)%nat with true by lia. reflexivity. }
  rewrite Hx. unfold Model.del_fold. rewrite Proofs.nth_map_seq by exact Hi. cbn [Nat.add]. now rewrite Hx.
Qed.

(* ---- the candidates of one step, by index ------------------------------------------------------------------ *)
Section Step.
  Variables (ci cd cs : Z) (R H : nat).
  Variables (rcol : nat -> Z) (hcol : nat -> Z) (lcol : nat -> Z) (hlen k : nat).

  Let r := map rcol (seq 0 R).
  Let h := map hcol (seq 0 H).
  Let last := map lcol (seq 0 (S R)).

  (* insertion / substitution candidates of entry j (before the deletion fold) *)
  Definition cand (j : nat) : Z :=
    let im := if (k <=? hlen)%nat then 1 else 0 in
    match j with
    | O => lcol 0%nat + ci * im
    | S j' => Z.min (lcol (S j') + ci * im) (lcol j' + cs * (if rcol j' =? hcol (k - 1)%nat then 0 else 1))
    end.

  Hypothesis Hk : (1 <= k <= H)%nat.

  Lemma cands_list :
    let im := if (k <=? hlen)%nat then 1 else 0 in
    let tok := nth (k - 1) h 0 in
    let neq_mask := map (fun a => if a =? tok then 0 else 1) r in
    let row := map (fun x => x + ci * im) last in
    let sub_row := Model.map2 (fun x m => x + cs * m) (removelast last) neq_mask in
    hd 0 row :: Model.map2 Z.min (tl row) sub_row = map cand (seq 0 (S R)).
  Proof.
    intros im tok neq_mask row sub_row.
    assert (Htok : tok = hcol (k - 1)%nat).
    { unfold tok, h. rewrite Proofs.nth_map_seq by lia. reflexivity. }
    assert (Ll : length last = S R) by (unfold last; now rewrite map_length, seq_length).
    assert (Lr : length row = S R) by (unfold row; now rewrite map_length).
    assert (Ln : length neq_mask = R) by (unfold neq_mask, r; now rewrite !map_length, seq_length).
    assert (Ls : length sub_row = R).
    { unfold sub_row. rewrite Proofs.map2_length, Proofs.length_removelast, Ll, Ln. lia. }
    apply (nth_ext _ _ 0 0).
    - cbn [length]. rewrite Proofs.map2_length, Proofs.length_tl, Lr, Ls, map_length, seq_length. lia.
    - intros i Hi. cbn [length] in Hi. rewrite Proofs.map2_length, Proofs.length_tl, Lr, Ls in Hi.
      assert (HiR : (i < S R)%nat) by lia.
      rewrite (Proofs.nth_map_seq cand 0 (S R) i 0 HiR). cbn [Nat.add].
      destruct i as [|i'].
      + cbn [nth]. rewrite Proofs.hd_nth0. unfold row.
        rewrite (Proofs.nth_map_lt (fun x => x + ci * im) last 0 0 0) by lia.
        unfold last. rewrite Proofs.nth_map_seq by lia. reflexivity.
      + cbn [nth]. rewrite (Proofs.nth_map2 Z.min (tl row) sub_row i' 0 0 0)
          by (rewrite ?Proofs.length_tl, ?Lr, ?Ls; lia).
        rewrite Proofs.nth_tl. unfold row at 1.
        rewrite (Proofs.nth_map_lt (fun x => x + ci * im) last (S i') 0 0) by lia.
        unfold sub_row.
        rewrite (Proofs.nth_map2 (fun x m => x + cs * m) (removelast last) neq_mask i' 0 0 0)
          by (rewrite ?Proofs.length_removelast, ?Ll, ?Ln; lia).
        rewrite Proofs.nth_removelast by (rewrite Ll; lia).
        unfold last. rewrite !Proofs.nth_map_seq by lia. cbn [Nat.add].
        unfold neq_mask. rewrite (Proofs.nth_map_lt (fun a => if a =? tok then 0 else 1) r i' 0 0)
          by (unfold r; rewrite map_length, seq_length; lia).
        unfold r. rewrite Proofs.nth_map_seq by lia. cbn [Nat.add]. rewrite Htok. reflexivity.
  Qed.

  (* one entry of the row after the step *)
  Lemma step_row_entry : forall i, (i < S R)%nat ->
    nth i (Model.step_row ci cd cs r h hlen false k last) 0 =
    if (k - 1 <? hlen)%nat
    then match Model.omin_list (map (fun j => Model.oadd (Model.del_entry cd i j) (cand j)) (seq 0 (S R))) with
         | Some x => x
         | None => 0
         end
    else lcol i.
  Proof.
    intros i Hi. unfold Model.step_row. cbv zeta.
    destruct (k - 1 <? hlen)%nat.
    - rewrite cands_list. unfold Model.del_fold. rewrite map_length, seq_length.
      rewrite Proofs.nth_map_seq by exact Hi. cbn [Nat.add].
      replace (map (fun j => Model.oadd (Model.del_entry cd i j) (nth j (map cand (seq 0 (S R))) 0)) (seq 0 (S R)))
        with (map (fun j => Model.oadd (Model.del_entry cd i j) (cand j)) (seq 0 (S R))); [reflexivity|].
      apply map_ext_in. intros j Hj. apply in_seq in Hj. rewrite Proofs.nth_map_seq by lia. reflexivity.
    - unfold last. rewrite Proofs.nth_map_seq by exact Hi. reflexivity.
  Qed.

  Lemma step_row_length : length (Model.step_row ci cd cs r h hlen false k last) = S R.
  Proof.
    unfold Model.step_row. cbv zeta. destruct (k - 1 <? hlen)%nat.
    - rewrite cands_list, Proofs.del_fold_length, map_length, seq_length. reflexivity.
    - unfold last. now rewrite map_length, seq_length.
  Qed.

  (* the float expression the interpreted loop body leaves at entry i *)
  Lemma step_entry_src : forall s i, (i < S R)%nat ->
    (if (Z.of_nat (k - 1) <? Z.of_nat hlen)%Z
     then fmin_list (map (fun j =>
            fadd (ofx s (Model.del_entry cd i j))
              match j with
              | O => fadd (zf s (lcol 0%nat)) (fmul (Fq (qz s ci)) (b2f (Z.of_nat hlen >=? Z.of_nat k)%Z))
              | S j' => fmin (fadd (zf s (lcol (S j'))) (fmul (Fq (qz s ci)) (b2f (Z.of_nat hlen >=? Z.of_nat k)%Z)))
                             (fadd (zf s (lcol j')) (fmul (Fq (qz s cs)) (b2f (negb (rcol j' =? hcol (k - 1)%nat)%Z))))
              end) (seq 0 (S R)))
     else zf s (lcol i))
    = zf s (nth i (Model.step_row ci cd cs r h hlen false k last) 0).
  Proof.
    intros s i Hi. rewrite (step_row_entry i Hi).
    replace (Z.of_nat (k - 1) <? Z.of_nat hlen)%Z with (k - 1 <? hlen)%nat by lia.
    destruct (k - 1 <? hlen)%nat; [|reflexivity].
    rewrite (map_ext _ (fun j => ofx s (Model.oadd (Model.del_entry cd i j) (cand j)))).
    - rewrite <- (map_map (fun j => Model.oadd (Model.del_entry cd i j) (cand j)) (ofx s)), fmin_list_ofx.
      destruct (omin_list_some (map (fun j => Model.oadd (Model.del_entry cd i j) (cand j)) (seq 0 (S R)))
                  (Z.of_nat i * cd - Z.of_nat i * cd + cand i)) as [x Hx].
      { apply in_map_iff. exists i. split; [|apply in_seq; lia]. unfold Model.del_entry.
        replace (i <=? i)%nat with true by lia. reflexivity. }
      rewrite Hx. reflexivity.
    - intros j. rewrite <- fadd_ofx_zf. f_equal. unfold cand.
      replace (Z.of_nat hlen >=? Z.of_nat k)%Z with (k <=? hlen)%nat by lia.
      destruct j as [|j'].
      + rewrite fmul_zf_b2f, fadd_zf. reflexivity.
      + rewrite !fmul_zf_b2f, !fadd_zf, fmin_zf. f_equal. f_equal. f_equal. f_equal.
        destruct (rcol j' =? hcol (k - 1)%nat)%Z; reflexivity.
  Qed.
End Step.

(* ---- the rows of the model as an iteration ------------------------------------------------------------------- *)
Fixpoint iter_rows (ci cd cs : Z) (r h : list Z) (hlen : nat) (fuel k : nat) (last : list Z) : list Z :=
  match fuel with
  | O => last
  | S f => iter_rows ci cd cs r h hlen f (S k) (Model.step_row ci cd cs r h hlen false k last)
  end.

Lemma last_cons : forall {A} (l : list A) a d, List.last (a :: l) d = List.last l a.
Proof.
  intros A l. induction l as [|b l IH]; intros a d; [reflexivity|].
  change (List.last (a :: b :: l) d) with (List.last (b :: l) d). rewrite !IH. reflexivity.
Qed.

Lemma iter_rows_loop : forall ci cd cs r h hlen fuel k last,
  iter_rows ci cd cs r h hlen fuel k last = List.last (Model.rows_loop ci cd cs r h hlen false fuel k last) last.
Proof.
  intros ci cd cs r h hlen fuel. induction fuel as [|f IH]; intros k last; [reflexivity|].
  cbn [iter_rows Model.rows_loop]. rewrite IH, last_cons. reflexivity.
Qed.

Lemma iter_rows_all : forall ci cd cs r h hlen steps,
  iter_rows ci cd cs r h hlen steps 1 (Model.row0 cd r) = List.last (Model.all_rows ci cd cs r h hlen false steps) [].
Proof.
  intros. rewrite iter_rows_loop. unfold Model.all_rows. now rewrite last_cons.
Qed.
