(* C09 — pad_variable: every output row is the per-sequence padding followed by fill. *)
From Coq Require Import List Arith Bool Lia ZArith ZifyBool ZifyNat.
From PV Require Import C09.Model C09.Spec C09.Proofs C09.Buffers.
Import ListNotations.
Local Open Scope nat_scope.

Lemma mode_eq_constant (md : mode) : {md = Constant} + {md <> Constant}.
Proof. destruct md; [left; reflexivity| right; discriminate ..]. Qed.

Lemma match_not_constant {X} (md : mode) (a b : X) :
  md <> Constant -> match md with Constant => a | _ => b end = b.
Proof. destruct md; congruence. Qed.

Lemma nth_map_lt {X Y} (f : X -> Y) (l : list X) n dx dy :
  n < length l -> nth n (map f l) dy = f (nth n l dx).
Proof.
  intros H. rewrite (nth_indep _ dy (f dx)) by (now rewrite map_length). apply map_nth.
Qed.

Section PadProofs.
  Context {A : Type}.
  Notation prow := (prow A).

  Definition p_seq (r : prow) : list A := firstn (p_len r) (p_cells r).
  Definition p_ok (T : nat) (md : mode) (rows : list prow) : Prop :=
    rows_ok p_cells p_len p_l p_r T md rows.
  Definition p_Tp (rows : list prow) : nat := list_max (map p_new rows).

  Lemma buffers_ok T d fill md (rows : list prow) :
    rows <> [] -> p_ok T md rows ->
    exists bufs, get_padding_buffers p_cells p_len p_l p_r T d md rows = Ok bufs /\
                 (md <> Constant ->
                  bufs = (concat (map (fun r => lpart md fill (p_l r) (p_seq r)) rows),
                          concat (map (fun r => rpart md fill (p_r r) (p_seq r)) rows))).
  Proof.
    intros Hne Hok. destruct md.
    - eexists; split; [reflexivity|congruence].
    - eexists; split; [apply (padding_buffers_correct p_cells p_len p_l p_r T d fill); auto|reflexivity].
    - eexists; split; [apply (padding_buffers_correct p_cells p_len p_l p_r T d fill); auto|reflexivity].
    - destruct rows as [|r rows]; [congruence|].
      destruct (Hok r (or_introl eq_refl)) as (_ & _ & H). discriminate.
  Qed.

  Theorem pad_variable_rows_correct T d fill md (rows : list prow) :
    rows <> [] -> p_ok T md rows ->
    pad_variable_rows T d fill md rows
    = Ok (map (fun r => pad1 md fill (p_l r) (p_r r) (p_seq r) ++ repeat fill (p_Tp rows - p_new r)) rows).
  Proof.
    intros Hne Hok.
    destruct (buffers_ok T d fill md rows Hne Hok) as (bufs & Hb & Hbufs).
    unfold pad_variable_rows. rewrite Hb. cbn [bind]. rewrite match_nonempty by assumption.
    cbv zeta. fold (p_Tp rows). set (Tp := p_Tp rows).
    assert (Hnew : forall r, In r rows -> p_new r <= Tp) by (intros; now apply list_max_map_in).
    assert (Hs : forall r, In r rows -> length (p_seq r) = p_len r).
    { intros r Hr. apply (seqf_length p_cells p_len p_l p_r T md rows r Hok Hr). }
    (* the selected cells *)
    unfold lt_mask at 1.
    erewrite (map_ext_in p_cells (fun r => [] ++ p_seq r ++ skipn (p_len r) (p_cells r)) rows)
      by (intros; cbn [app]; unfold p_seq; now rewrite firstn_skipn).
    rewrite (select2_seg rows (fun r t => t <? p_len r) T).
    2:{ intros r Hr. destruct (Hok r Hr) as (Hc & HT & _). specialize (Hs r Hr).
        split; [cbn [length app]; rewrite skipn_length; lia|]. unfold seg_mask. intros. cbn [length]. lia. }
    (* scatter the sequences *)
    rewrite repeat_map_const.
    erewrite (map_ext_in (fun _ => repeat fill Tp)
                (fun r => repeat fill (p_l r) ++ repeat fill (p_len r) ++ repeat fill (Tp - p_mid r)) rows).
    2:{ intros r Hr. specialize (Hnew r Hr). unfold p_new, p_mid in *. rewrite <- !repeat_app. f_equal. lia. }
    unfold between_mask at 1.
    rewrite (scatter2_seg rows (fun r t => (t <? p_mid r) && negb (t <? p_l r)) Tp _ _ _ p_seq).
    2:{ intros r Hr. specialize (Hnew r Hr). specialize (Hs r Hr). unfold p_new, p_mid in *.
        rewrite !repeat_length. split; [lia|]. split; [lia|]. seg_solve. }
    cbn [bind].
    destruct (mode_eq_constant md) as [-> | Hnc].
    - (* constant *)
      f_equal. apply map_ext_in. intros r Hr. specialize (Hnew r Hr). unfold p_new, p_mid in *.
      cbn [pad1]. rewrite <- !app_assoc. do 2 f_equal. rewrite <- repeat_app. f_equal. lia.
    - assert (Hmd : md <> OtherMode).
      { intros ->. destruct rows as [|r rows]; [congruence|].
        destruct (Hok r (or_introl eq_refl)) as (_ & _ & H). discriminate. }
      rewrite (Hbufs Hnc). cbn [fst snd].
      assert (Hlp : forall r, In r rows -> length (lpart md fill (p_l r) (p_seq r)) = p_l r).
      { intros r Hr. destruct (Hok r Hr) as (_ & _ & Hl). apply (lpart_length md fill (p_l r) (p_r r)).
        now rewrite (Hs r Hr). }
      assert (Hrp : forall r, In r rows -> length (rpart md fill (p_r r) (p_seq r)) = p_r r).
      { intros r Hr. destruct (Hok r Hr) as (_ & _ & Hl). apply (rpart_length md fill (p_l r) (p_r r)).
        now rewrite (Hs r Hr). }
      rewrite match_not_constant by assumption.
      (* left buffer *)
      unfold lt_mask at 1.
      erewrite (map_ext_in (fun r => repeat fill (p_l r) ++ p_seq r ++ repeat fill (Tp - p_mid r))
                  (fun r => [] ++ repeat fill (p_l r) ++ (p_seq r ++ repeat fill (Tp - p_mid r))) rows)
        by reflexivity.
      rewrite (scatter2_seg rows (fun r t => t <? p_l r) Tp _ _ _ (fun r => lpart md fill (p_l r) (p_seq r))).
      2:{ intros r Hr. specialize (Hnew r Hr). specialize (Hs r Hr). specialize (Hlp r Hr).
          unfold p_new, p_mid in *. rewrite !app_length, !repeat_length. cbn [length].
          split; [lia|]. split; [lia|]. seg_solve. }
      cbn [bind].
      (* right buffer *)
      unfold between_mask at 1.
      erewrite (map_ext_in (fun r => [] ++ lpart md fill (p_l r) (p_seq r) ++ (p_seq r ++ repeat fill (Tp - p_mid r)))
                  (fun r => (lpart md fill (p_l r) (p_seq r) ++ p_seq r) ++ repeat fill (p_r r)
                            ++ repeat fill (Tp - p_new r)) rows).
      2:{ intros r Hr. specialize (Hnew r Hr). unfold p_new, p_mid in *. cbn [app].
          rewrite <- !app_assoc. do 2 f_equal. rewrite <- repeat_app. f_equal. lia. }
      rewrite (scatter2_seg rows (fun r t => (t <? p_new r) && negb (t <? p_mid r)) Tp _ _ _
                 (fun r => rpart md fill (p_r r) (p_seq r))).
      2:{ intros r Hr. specialize (Hnew r Hr). specialize (Hs r Hr). specialize (Hlp r Hr). specialize (Hrp r Hr).
          unfold p_new, p_mid in *. rewrite !app_length, !repeat_length.
          split; [lia|]. split; [lia|]. unfold seg_mask. intros. cbn beta. rewrite !app_length, repeat_length. lia. }
      f_equal. apply map_ext_in. intros r Hr. rewrite (pad1_parts md) by assumption.
      rewrite <- !app_assoc. reflexivity.
  Qed.

  (* ----- from rows back to the tensors the caller passed ----- *)
  Definition row_at (x : list (list A)) (lens pl pr : list nat) (n : nat) : prow :=
    mkProw (nth n x []) (nth n lens 0) (nth n pl 0) (nth n pr 0).

  Lemma zip_prows_length (x : list (list A)) lens pl pr : length (zip_prows x lens pl pr) = length x.
  Proof. unfold zip_prows. now rewrite map_length, seq_length. Qed.

  Lemma zip_prows_nth (x : list (list A)) lens pl pr n r0 :
    n < length x -> nth n (zip_prows x lens pl pr) r0 = row_at x lens pl pr n.
  Proof.
    intros H. unfold zip_prows.
    rewrite (nth_indep _ r0 (row_at x lens pl pr 0)) by (now rewrite map_length, seq_length).
    rewrite (map_nth (row_at x lens pl pr)), seq_nth by assumption. reflexivity.
  Qed.

  Lemma zip_prows_in (x : list (list A)) lens pl pr r :
    In r (zip_prows x lens pl pr) -> exists n, n < length x /\ r = row_at x lens pl pr n.
  Proof.
    unfold zip_prows. intros H. apply in_map_iff in H as (n & <- & Hn). apply in_seq in Hn.
    exists n. split; [lia|reflexivity].
  Qed.

  Lemma zip_prows_row_in (x : list (list A)) lens pl pr n :
    n < length x -> In (row_at x lens pl pr n) (zip_prows x lens pl pr).
  Proof.
    intros Hn. rewrite <- (zip_prows_nth x lens pl pr n (row_at x lens pl pr 0) Hn). apply nth_In.
    now rewrite zip_prows_length.
  Qed.

  Definition inputs_ok (T : nat) (md : mode) (x : list (list A)) (lens pl pr : list nat) : Prop :=
    x <> [] /\ length lens = length x /\ length pl = length x /\ length pr = length x /\
    forall n, n < length x ->
      length (nth n x []) = T /\ nth n lens 0 <= T /\
      legalb md (nth n pl 0) (nth n pr 0) (nth n lens 0) = true.

  Lemma list_max_attained (l : list nat) : l <> [] -> In (list_max l) l.
  Proof.
    induction l as [|a l IH]; [congruence|]. intros _. cbn [list_max fold_right].
    fold (list_max l). destruct l as [|b l].
    - left. cbn. lia.
    - destruct (Nat.max_spec a (list_max (b :: l))) as [[_ ->] | [_ ->]].
      + right. apply IH. discriminate.
      + now left.
  Qed.

  Theorem pad_variable_correct T d fill md (x : list (list A)) lens pl pr :
    inputs_ok T md x lens pl pr ->
    exists Tp out,
      pad_variable T d fill md x lens pl pr = Ok out /\ length out = length x /\
      (forall n, n < length x ->
         let new := nth n lens 0 + (nth n pl 0 + nth n pr 0) in
         new <= Tp /\
         nth n out [] = pad1 md fill (nth n pl 0) (nth n pr 0) (firstn (nth n lens 0) (nth n x []))
                          ++ repeat fill (Tp - new)) /\
      (exists n, n < length x /\ nth n lens 0 + (nth n pl 0 + nth n pr 0) = Tp).
  Proof.
    intros (Hne & Hl1 & Hl2 & Hl3 & Hrows).
    set (rows := zip_prows x lens pl pr).
    assert (Hrne : rows <> []).
    { intros E. apply (f_equal (@length _)) in E. unfold rows in E. rewrite zip_prows_length in E.
      destruct x; [congruence|discriminate]. }
    assert (Hok : p_ok T md rows).
    { intros r Hr. apply zip_prows_in in Hr as (n & Hn & ->). apply (Hrows n Hn). }
    exists (p_Tp rows), (map (fun r => pad1 md fill (p_l r) (p_r r) (p_seq r) ++ repeat fill (p_Tp rows - p_new r)) rows).
    split; [|split; [|split]].
    - unfold pad_variable. rewrite Hl1, Hl2, Hl3, Nat.eqb_refl. cbn [andb].
      apply pad_variable_rows_correct; assumption.
    - rewrite map_length. apply zip_prows_length.
    - intros n Hn. cbv zeta. split.
      + change (p_new (row_at x lens pl pr n) <= p_Tp rows). apply list_max_map_in.
        now apply zip_prows_row_in.
      + rewrite (nth_map_lt _ rows n (row_at x lens pl pr 0)) by (unfold rows; now rewrite zip_prows_length).
        replace (nth n rows (row_at x lens pl pr 0)) with (row_at x lens pl pr n)
          by (symmetry; apply zip_prows_nth; assumption).
        reflexivity.
    - assert (Hin : In (p_Tp rows) (map p_new rows)).
      { apply list_max_attained. intros E. apply map_eq_nil in E. contradiction. }
      apply in_map_iff in Hin as (r & Hr & Hin). apply zip_prows_in in Hin as (n & Hn & ->).
      exists n. split; [assumption|exact Hr].
  Qed.

  (* an illegal pad amount (reflect: pad >= len; replicate: len = 0) makes the call raise *)
  Theorem pad_variable_illegal T d fill md (x : list (list A)) lens pl pr n :
    length lens = length x -> length pl = length x -> length pr = length x ->
    n < length x -> legalb md (nth n pl 0) (nth n pr 0) (nth n lens 0) = false ->
    (md = Reflect -> pad_variable T d fill md x lens pl pr = ErrNotImpl) /\
    (md = Replicate -> pad_variable T d fill md x lens pl pr = ErrRuntime) /\
    md <> Constant.
  Proof.
    intros Hl1 Hl2 Hl3 Hn Hleg.
    pose proof (zip_prows_row_in x lens pl pr n Hn) as Hin.
    pose proof (padding_buffers_illegal p_cells p_len p_l p_r T d md _ _ Hin Hleg) as H.
    unfold pad_variable, pad_variable_rows. rewrite Hl1, Hl2, Hl3, Nat.eqb_refl. cbn [andb].
    split; [|split].
    - intros ->. rewrite H. reflexivity.
    - intros ->. rewrite H. reflexivity.
    - intros ->. exact H.
  Qed.

  (* lens / pad of the wrong shape: ValueError *)
  Theorem pad_variable_bad_shape T (d fill : A) md (x : list (list A)) lens pl pr :
    length lens <> length x \/ length pl <> length x \/ length pr <> length x ->
    pad_variable T d fill md x lens pl pr = ErrValue.
  Proof.
    intros H. unfold pad_variable.
    destruct (Nat.eqb_spec (length lens) (length x)); [|reflexivity].
    destruct (Nat.eqb_spec (length pl) (length x)); [|reflexivity].
    destruct (Nat.eqb_spec (length pr) (length x)); [|reflexivity]. lia.
  Qed.
End PadProofs.
