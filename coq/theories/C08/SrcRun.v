(* C08 - the translated source of `spec_augment_draw_parameters` (src/pydrobert/torch/_img.py) as an
   executable: the environment [ext08], the encoding of the model's inputs as MiniPy values, the reading
   of the returned 8-tuple as per-element [Model.params], and the correspondence entry point
   [src_draw_check].  Definitions only; the lemmas are in Tie*.v.

   PV.Gen.C08Src.draw_body (the WHOLE body) and the blocks draw_head / draw_twarp / draw_fwarp /
   draw_tmask / draw_fmask / draw_ret are regenerated from /repo on every run by
   harness/py2coq/translate.py.  The decorators (`@script`, `@functional_wrapper`) are outside the
   body: TorchScript compilation is NOT modelled, the tie is about the text as eager CPython runs it.

   [ext08 a rnd] gives the calls of the body the meaning defined in PV.MiniTorch.OpsC08 with the float32
   rounding [r32 a] of the C08 model; [rnd] is the oracle behind torch.rand (k-th call, flat position).
   What arrives here (see MiniPy.Interp):
     _spec_augment_check_input(feats, lengths)   the function's own argument check, by its documented
                                     behaviour: RuntimeError unless feats is 3-D and lengths is None or a 1-D
                                     long tensor of N entries, each in (0, T]
     feats.shape, feats.device, lengths.dtype    "$attr.<name>" (shape: a tuple of ints; device / dtype: opaque
                                     tokens that are only ever passed back to torch functions)
     _get_tensor_eps(feats)          torch.finfo(feats.dtype).eps, a Python float (part of the [feats] value)
     torch.full((N,), T, dtype=torch.float, device=..), lengths.to(device).float()
     x / 2, x - eps, 2 * W, a - b, u * x, x + W, max_ + omeps, lengths.unsqueeze(1) - t, F - f, (F - f) + omeps
                                     "operator" [name; a; b] (MiniPy's own arithmetic is stuck on a tensor)
     x.clamp(0, hi), torch.clamp(x, max=hi), x.floor(), x.to(device), x.unsqueeze(1), x.long(),
     x.masked_fill(mask, 0), a <= b ("compare"), torch.arange(n, dtype=.., device=..), torch.empty(0)
     torch.rand(size, device=..)     the oracle; the call counter is the number of events emitted so far (one
                                     event per call)
   `torch.float` is the attribute `float` of the module object bound to the global name `torch`.
   Python-level arithmetic on numbers (1 - eps, F / 2 - eps, min / max, max_ + omeps for the frequency
   masks, 2 * V, F - 2 * V) is MiniPy's own: exact over Q.  Everything else is Stuck. *)
From Coq Require Import ZArith QArith Qround List String Bool.
From PV Require Import MiniPy.Syntax MiniPy.Interp MiniTorch.Ops MiniTorch.OpsC08 Gen.C08Src.
From PV Require C08.Model.
Import ListNotations.
Local Open Scope string_scope.

Definition runtime_error : string := "RuntimeError".
Definition device_token : val := VStr "$device".
Definition float_token : val := VStr "$torch.float".

(* the module globals the body reads: `torch` (only torch.float is used as a value) *)
Definition globals08 : list (string * val) := [("torch", VDict [(VStr "float", float_token)])].

Definition oob (why : string) : outcome val := Stuck ("MiniTorch: outside the modelled domain: " ++ why).
Definition ret_f (why : string) (o : option (tn Q)) (st : state) : outcome val :=
  match o with Some t => Ok (enc_f t) st | None => oob why end.
Definition ret_l (why : string) (o : option (tn Z)) (st : state) : outcome val :=
  match o with Some t => Ok (enc_l t) st | None => oob why end.
Definition ret_b (why : string) (o : option (tn bool)) (st : state) : outcome val :=
  match o with Some t => Ok (enc_b t) st | None => oob why end.

(* a Python number where torch takes a scalar *)
Definition number (v : val) : option Q :=
  match v with VInt z => Some (inject_Z z) | VQ q => Some q | _ => None end.

(* the size argument of torch.rand: a tuple or list of non-negative ints *)
Definition size_arg (v : val) : option (list nat) :=
  match v with VTuple l | VList l => dec_nats l | _ => None end.

Definition no_kw (kw : list (string * val)) : bool := match kw with [] => true | _ => false end.
Definition kw_device (kw : list (string * val)) : bool :=
  match kw with [(n, v)] => (is n "device" && val_eqb v device_token)%bool | _ => false end.
Definition kw_dtype_device (kw : list (string * val)) : bool :=
  match kw with
  | [(n1, v1); (n2, v2)] => (is n1 "dtype" && val_eqb v1 float_token && is n2 "device" && val_eqb v2 device_token)%bool
  | _ => false
  end.

(* every entry l of lengths satisfies 0 < l <= T *)
Definition lens_in_range (T : nat) (l : list Z) : bool :=
  forallb (fun z => (0 <? z)%Z && (z <=? Z.of_nat T)%Z) l.

Section Ext.
  Variable a : Model.arith.
  Variable rnd : nat -> nat -> Q.

  Definition operator (o : string) (x y : val) (st : state) : outcome val :=
    if is o "truediv" then
      match dec_any x, number y with
      | Some (TF t), Some s => ret_f "truediv" (div_s a t s) st
      | _, _ => Stuck "truediv"
      end
    else if is o "sub" then
      match dec_any x, dec_any y with
      | Some (TF t), Some (TF u) => ret_f "sub" (sub_t a t u) st
      | Some (TF t), Some (TL u) => ret_f "sub" (sub_fl a t u) st
      | Some (TF t), None => match number y with Some s => Ok (enc_f (sub_s a t s)) st | None => Stuck "sub" end
      | None, Some (TL u) => match x with VInt k => Ok (enc_l (rsub_l k u)) st | _ => Stuck "sub" end
      | _, _ => Stuck "sub"
      end
    else if is o "mul" then
      match dec_any x, dec_any y with
      | Some (TF t), Some (TF u) => ret_f "mul" (mul_t a t u) st
      | Some (TF t), None => match number y with Some s => Ok (enc_f (mul_s a t s)) st | None => Stuck "mul" end
      | None, Some (TF u) => match number x with Some s => Ok (enc_f (mul_s a u s)) st | None => Stuck "mul" end
      | _, _ => Stuck "mul"
      end
    else if is o "add" then
      match dec_any x, dec_any y with
      | Some (TF t), Some (TF u) => ret_f "add" (add_t a t u) st
      | Some (TF t), None => match number y with Some s => Ok (enc_f (add_s a t s)) st | None => Stuck "add" end
      | Some (TL t), None => match y with VQ s => Ok (enc_f (add_ls a t s)) st | _ => Stuck "add" end
      | _, _ => Stuck "add"
      end
    else Stuck ("ext08: operator " ++ o).

  Definition ext08 (f : string) (args : list val) (kw : list (string * val)) (st : state) : outcome val :=
    if is f "torch.rand" then
      match args with
      | [sz] =>
          if kw_device kw then
            match size_arg sz with
            | Some sh => Ok (enc_f (rand rnd (List.length (events st)) sh)) (emit ("torch.rand", [sz]) st)
            | None => Stuck "rand: size"
            end
          else Stuck "rand: keyword"
      | _ => Stuck "rand"
      end
    else if is f "torch.full" then
      match args with
      | [VTuple [VInt n]; VInt v] =>
          if (kw_dtype_device kw && (0 <=? n)%Z)%bool then Ok (enc_f (full1 a (Z.to_nat n) v)) st else Stuck "full: keyword"
      | _ => Stuck "full"
      end
    else if is f "torch.arange" then
      match args with
      | [VInt n] => if (kw_dtype_device kw && (0 <=? n)%Z)%bool then Ok (enc_f (arange_f (Z.to_nat n))) st else Stuck "arange: keyword"
      | _ => Stuck "arange"
      end
    else if is f "torch.clamp" then
      match args, kw with
      | [x], [(n, hi)] =>
          match dec_any x, number hi with
          | Some (TF t), Some h => if is n "max" then Ok (enc_f (clamp a t None (Some h))) st else Stuck "clamp: keyword"
          | _, _ => Stuck "clamp"
          end
      | _, _ => Stuck "clamp"
      end
    else if negb (no_kw kw) then Stuck ("ext08: keyword arguments of " ++ f)
    else if is f "_spec_augment_check_input" then
      match args with
      | [ft; ln] =>
          match dec_feats ft with
          | Some ([N; T; _], _) =>
              match ln with
              | VNone => Ok VNone st
              | _ => match dec_any ln with
                     | Some (TL l) =>
                         match shp l with
                         | [n] => if (Nat.eqb n N && lens_in_range T (dat l))%bool then Ok VNone st else Exc runtime_error st
                         | _ => Exc runtime_error st
                         end
                     | _ => Stuck "check_input: lengths"
                     end
              end
          | Some _ => Exc runtime_error st
          | None => Stuck "check_input: feats"
          end
      | _ => Stuck "check_input"
      end
    else if is f "_get_tensor_eps" then
      match args with
      | [ft] => match dec_feats ft with Some (_, eps) => Ok (VQ eps) st | None => Stuck "eps" end
      | _ => Stuck "eps"
      end
    else if is f "$attr.shape" then
      match args with
      | [ft] => match dec_feats ft with
                | Some (sh, _) => Ok (VTuple (map (fun n => VInt (Z.of_nat n)) sh)) st
                | None => Stuck "shape"
                end
      | _ => Stuck "shape"
      end
    else if is f "$attr.device" then
      match args with
      | [ft] => match dec_feats ft with Some _ => Ok device_token st | None => Stuck "device" end
      | _ => Stuck "device"
      end
    else if is f "$attr.dtype" then
      match args with
      | [x] => match dec_any x with Some (TF _) => Ok float_token st | _ => Stuck "dtype" end
      | _ => Stuck "dtype"
      end
    else if is f "torch.empty" then
      match args with
      | [VInt 0%Z] => Ok (enc_f empty0) st
      | _ => Stuck "empty"
      end
    else if is f "$method.to" then
      match args with
      | [x; d] => match dec_any x with
                  | Some _ => if val_eqb d device_token then Ok x st else Stuck "to: not a device"
                  | None => Stuck "to"
                  end
      | _ => Stuck "to"
      end
    else if is f "$method.float" then
      match args with
      | [x] => match dec_any x with Some (TL t) => Ok (enc_f (float_of_long a t)) st | _ => Stuck "float" end
      | _ => Stuck "float"
      end
    else if is f "$method.long" then
      match args with
      | [x] => match dec_any x with Some (TF t) => Ok (enc_l (long_of_float t)) st | _ => Stuck "long" end
      | _ => Stuck "long"
      end
    else if is f "$method.floor" then
      match args with
      | [x] => match dec_any x with Some (TF t) => Ok (enc_f (floor t)) st | _ => Stuck "floor" end
      | _ => Stuck "floor"
      end
    else if is f "$method.clamp" then
      match args with
      | [x; lo; hi] =>
          match dec_any x, number lo, number hi with
          | Some (TF t), Some l, Some h => Ok (enc_f (clamp a t (Some l) (Some h))) st
          | _, _, _ => Stuck "clamp"
          end
      | _ => Stuck "clamp"
      end
    else if is f "$method.unsqueeze" then
      match args with
      | [x; VInt d] => match dec_any x with Some (TF t) => ret_f "unsqueeze" (unsqueeze t d) st | _ => Stuck "unsqueeze" end
      | _ => Stuck "unsqueeze"
      end
    else if is f "$method.masked_fill" then
      match args with
      | [x; m; VInt v] =>
          match dec_any x, dec_any m with
          | Some (TL t), Some (TB b) => ret_l "masked_fill" (masked_fill_l t b v) st
          | _, _ => Stuck "masked_fill"
          end
      | _ => Stuck "masked_fill"
      end
    else if is f "compare" then
      match args with
      | [VStr o; x; y] =>
          if is o "le" then
            match dec_any x, dec_any y with
            | Some (TF t), Some (TF u) => ret_b "le" (le_t t u) st
            | _, _ => Stuck "le"
            end
          else Stuck ("ext08: compare " ++ o)
      | _ => Stuck "compare"
      end
    else if is f "operator" then
      match args with
      | [VStr o; x; y] => operator o x y st
      | _ => Stuck "operator"
      end
    else Stuck ("ext08: " ++ f).
End Ext.

(* ---- inputs --------------------------------------------------------------------------------------- *)
(* the arguments of one call: feats (N, T, F) with finfo eps [eps], the eight limits of [c], lengths
   None or a long tensor *)
Definition lengths_val (lens : option (list Z)) : val :=
  match lens with None => VNone | Some l => enc_l (mkTn [List.length l] l) end.

Definition draw_vars (eps : Q) (c : Model.cfg) (N T F : nat) (lens : option (list Z)) : list (string * val) :=
  [("feats", enc_feats [N; T; F] eps);
   ("max_time_warp", VQ (Model.c_Wt c)); ("max_freq_warp", VQ (Model.c_Wf c));
   ("max_time_mask", VInt (Model.c_Mt c)); ("max_freq_mask", VInt (Model.c_Mf c));
   ("max_time_mask_proportion", VQ (Model.c_pt c)); ("num_time_mask", VInt (Z.of_nat (Model.c_nt c)));
   ("num_time_mask_proportion", VQ (Model.c_npt c)); ("num_freq_mask", VInt (Z.of_nat (Model.c_nf c)));
   ("lengths", lengths_val lens)] ++ globals08.

Definition run_draw (a : Model.arith) (rnd : nat -> nat -> Q) (eps : Q) (c : Model.cfg) (N T F : nat)
  (lens : option (list Z)) : outcome val :=
  Interp.run (ext08 a rnd) draw_body (draw_vars eps c N T F lens).

(* ---- reading the returned tuple (w_0, w, v_0, v, t_0, t, f_0, f) --------------------------------- *)
(* as the harness canonicalises torch's tensors (props/c08.py canon_params): a group is absent (None) when
   both tensors have no element; a real group holds (N,) float tensors, a mask group two (N, M) long tensors *)
Definition any_numel (t : anyt) : nat :=
  match t with TF x => numel (shp x) | TL x => numel (shp x) | TB x => numel (shp x) end.

Definition warp_group (N : nat) (x y : anyt) : option (list (option (Q * Q))) :=
  if (Nat.eqb (any_numel x) 0 && Nat.eqb (any_numel y) 0)%bool then Some (repeat None N)
  else match x, y with
       | TF p, TF q =>
           if (nats_eqb (shp p) [N] && nats_eqb (shp q) [N])%bool
           then Some (map (fun n => Some (nth n (dat p) 0%Q, nth n (dat q) 0%Q)) (seq 0 N))
           else None
       | _, _ => None
       end.

Definition mask_group (N : nat) (x y : anyt) : option (list (option (list (Z * Z)))) :=
  if (Nat.eqb (any_numel x) 0 && Nat.eqb (any_numel y) 0)%bool then Some (repeat None N)
  else match x, y with
       | TL p, TL q =>
           match shp p with
           | [n; M] =>
               if (Nat.eqb n N && nats_eqb (shp q) [N; M])%bool
               then Some (map (fun i => Some (map (fun m => (get2 0%Z M (dat p) i m, get2 0%Z M (dat q) i m)) (seq 0 M)))
                              (seq 0 N))
               else None
           | _ => None
           end
       | _, _ => None
       end.

Fixpoint zip4 (tw fw : list (option (Q * Q))) (tm fm : list (option (list (Z * Z)))) : list Model.params :=
  match tw, fw, tm, fm with
  | p :: tw', q :: fw', r :: tm', s :: fm' => Model.mkParams p q r s :: zip4 tw' fw' tm' fm'
  | _, _, _, _ => []
  end.

Definition read_out (N : nat) (v : val) : option (list Model.params) :=
  match v with
  | VTuple [w0; w; v0; v1; t0; t; f0; f] =>
      match dec_any w0, dec_any w, dec_any v0, dec_any v1, dec_any t0, dec_any t, dec_any f0, dec_any f with
      | Some xw0, Some xw, Some xv0, Some xv, Some xt0, Some xt, Some xf0, Some xf =>
          match warp_group N xw0 xw, warp_group N xv0 xv, mask_group N xt0 xt, mask_group N xf0 xf with
          | Some tw, Some fw, Some tm, Some fm => Some (zip4 tw fw tm fm)
          | _, _, _, _ => None
          end
      | _, _, _, _, _, _, _, _ => None
      end
  | _ => None
  end.

(* the interpreted source, as a function: per batch element what was drawn; None = exception / stuck *)
Definition src_draw (a : Model.arith) (rnd : nat -> nat -> Q) (eps : Q) (c : Model.cfg) (N T F : nat)
  (lens : option (list Z)) : option (list Model.params) :=
  match run_draw a rnd eps c N T F lens with
  | Ok v _ => read_out N v
  | _ => None
  end.

(* ---- the oracle of a case ----------------------------------------------------------------------- *)
(* the harness serves the variates of a case through a patched torch.rand in the order the code asks for
   them (props/c08.py expected_calls); [calls] is that list, each entry the flat row-major data of one call *)
Definition rnd_of (calls : list (list Q)) (k i : nat) : Q := nth i (nth k calls []) 0%Q.

(* the variates of all batch elements -> the calls the configuration makes *)
Definition calls_of (c : Model.cfg) (us : list Model.uv) : list (list Q) :=
  (if Model.nonzero (Model.c_Wt c) then [map Model.u_w0 us; map Model.u_w us] else [])
  ++ (if Model.nonzero (Model.c_Wf c) then [map Model.u_v0 us; map Model.u_v us] else [])
  ++ (if (negb (Model.c_Mt c =? 0)%Z && Model.nonzero (Model.c_pt c) && negb (Nat.eqb (Model.c_nt c) 0)
          && Model.nonzero (Model.c_npt c))%bool
      then [flat_map Model.u_t us; flat_map Model.u_t0 us] else [])
  ++ (if (negb (Model.c_Mf c =? 0)%Z && negb (Nat.eqb (Model.c_nf c) 0))%bool
      then [flat_map Model.u_f us; flat_map Model.u_f0 us] else []).

(* correspondence entry point: the whole batch of one draw case.  [lens] as passed (None = omitted),
   [us] / [impl] one entry per batch element; same judgement as Model.check_draw element by element
   (bit for bit: [ieee]) *)
Definition src_draw_check (d : Model.dtype) (c : Model.cfg) (N T F : nat) (lens : option (list Z))
  (us : list Model.uv) (impl : list Model.params) : bool :=
  match src_draw Model.ieee (rnd_of (calls_of c us)) (Model.eps_of d) c N T F lens with
  | Some ps => Model.list_eqb Model.params_eqb ps impl
  | None => false
  end.

(* the model side of the same case, for comparison *)
Definition model_draw (a : Model.arith) (eps : Q) (c : Model.cfg) (T F : nat) (lens : option (list Z))
  (us : list Model.uv) : list Model.params :=
  match lens with
  | Some l => map (fun lu => Model.draw a eps c (Z.of_nat F) (fst lu) (snd lu)) (combine l us)
  | None => map (fun u => Model.draw a eps c (Z.of_nat F) (Z.of_nat T) u) us
  end.

(* ---- the model instance the interpreted source is tied to ---------------------------------------- *)
(* float32 operations round with [r32 a]; Python-level float arithmetic is MiniPy's: exact over Q, results
   kept in lowest terms - i.e. the model's double rounding [r64] is [Qred], the identity up to [==] *)
Definition pyq (a : Model.arith) : Model.arith := Model.mkArith (Model.r32 a) Qred.

(* the variates of batch element n as the oracle serves them: call indices in the order the code draws
   (time warp, frequency warp, time masks, frequency masks; a disabled group makes no call) *)
Definition tmask_enabled (c : Model.cfg) : bool :=
  (negb (Model.c_Mt c =? 0)%Z && Model.nonzero (Model.c_pt c) && negb (Nat.eqb (Model.c_nt c) 0)
   && Model.nonzero (Model.c_npt c))%bool.
Definition fmask_enabled (c : Model.cfg) : bool :=
  (negb (Model.c_Mf c =? 0)%Z && negb (Nat.eqb (Model.c_nf c) 0))%bool.
Definition k_fwarp (c : Model.cfg) : nat := if Model.nonzero (Model.c_Wt c) then 2%nat else 0%nat.
Definition k_tmask (c : Model.cfg) : nat := k_fwarp c + (if Model.nonzero (Model.c_Wf c) then 2 else 0)%nat.
Definition k_fmask (c : Model.cfg) : nat := k_tmask c + (if tmask_enabled c then 2 else 0)%nat.

Definition uv_of (rnd : nat -> nat -> Q) (c : Model.cfg) (n : nat) : Model.uv :=
  let nt := Model.c_nt c in let nf := Model.c_nf c in
  Model.mkUV (rnd 0%nat n) (rnd 1%nat n) (rnd (k_fwarp c) n) (rnd (S (k_fwarp c)) n)
    (map (fun m => rnd (k_tmask c) (n * nt + m)%nat) (seq 0 nt)) (map (fun m => rnd (S (k_tmask c)) (n * nt + m)%nat) (seq 0 nt))
    (map (fun m => rnd (k_fmask c) (n * nf + m)%nat) (seq 0 nf)) (map (fun m => rnd (S (k_fmask c)) (n * nf + m)%nat) (seq 0 nf)).

(* the valid length of batch element n: lengths[n], or T when lengths is omitted *)
Definition len_of (T : nat) (lens : option (list Z)) (n : nat) : Z :=
  match lens with None => Z.of_nat T | Some l => nth n l 0%Z end.

(* two parameter tuples agree: mask groups are equal, warp groups are equal as rationals *)
Definition warp_eqv (x y : option (Q * Q)) : Prop :=
  match x, y with
  | None, None => True
  | Some p, Some q => (fst p == fst q)%Q /\ (snd p == snd q)%Q
  | _, _ => False
  end.
Definition params_eqv (p q : Model.params) : Prop :=
  warp_eqv (Model.p_tw p) (Model.p_tw q) /\ warp_eqv (Model.p_fw p) (Model.p_fw q)
  /\ Model.p_tm p = Model.p_tm q /\ Model.p_fm p = Model.p_fm q.
