(* C07 - property theorems (in progress) *)
From Coq Require Import List ZArith Bool Arith.
From PV Require Import C07.Model C07.Spec C07.Proofs.
Import ListNotations.
