(* C13 — lemmas about the epoch-sampler model. *)
From Coq Require Import List Arith Bool Lia ZArith ZifyNat.
From PV Require Import C13.Model.
Import ListNotations.
Ltac Zify.zify_post_hook ::= Z.to_euclidean_division_equations.

(* ---------- stride / islice ------------------------------------------- *)

Lemma stride_skipn {A} (w r : nat) (l : list A) :
  stride w 0 (skipn r l) = stride w r l.
Proof.
  revert l; induction r as [|r IH]; intros l; [reflexivity|].
  destruct l as [|x t]; [reflexivity|]. cbn [skipn stride]. apply IH.
Qed.

Lemma stride_length {A} (w : nat) (l : list A) : 0 < w ->
  forall k, length (stride w k l) = (length l + w - 1 - k) / w.
Proof.
  intros Hw. induction l as [|x t IH]; intros k; cbn [stride length].
  - symmetry. apply Nat.div_small. lia.
  - destruct k as [|k'].
    + cbn [length]. rewrite IH.
      replace (length t + w - 1 - (w - 1)) with (length t) by lia.
      replace (S (length t) + w - 1 - 0) with (length t + 1 * w) by lia.
      rewrite Nat.div_add by lia. lia.
    + rewrite IH. f_equal. lia.
Qed.

Lemma stride_nth {A} (w : nat) (d : A) : 0 < w ->
  forall (l : list A) k j, nth j (stride w k l) d = nth (k + j * w) l d.
Proof.
  intros Hw. induction l as [|x t IH]; intros k j; cbn [stride].
  - destruct j, (k + _ * w); reflexivity.
  - destruct k as [|k'].
    + destruct j as [|j']; [reflexivity|]. cbn [nth]. rewrite IH.
      replace (0 + S j' * w) with (S (w - 1 + j' * w)) by lia. reflexivity.
    + rewrite IH. reflexivity.
Qed.

Fixpoint sum_upto (f : nat -> nat) (n : nat) : nat :=
  match n with 0 => 0 | S n' => sum_upto f n' + f n' end.

Lemma sum_upto_ext f g n : (forall i, i < n -> f i = g i) -> sum_upto f n = sum_upto g n.
Proof.
  induction n as [|n IH]; intros H; cbn; [reflexivity|].
  rewrite IH, H by (intros; try apply H; lia). reflexivity.
Qed.

Lemma sum_upto_shift f n : sum_upto f (S n) = f 0 + sum_upto (fun i => f (S i)) n.
Proof.
  induction n as [|n IH]; [cbn; lia|].
  change (sum_upto f (S (S n))) with (sum_upto f (S n) + f (S n)).
  rewrite IH. cbn. lia.
Qed.

Lemma sum_upto_ge2 f n i j : i < j -> j < n -> f i + f j <= sum_upto f n.
Proof.
  induction n as [|n IH]; intros Hij Hj; [lia|]. cbn.
  destruct (Nat.eq_dec j n) as [->|Hne].
  - assert (f i <= sum_upto f n); [|lia].
    clear IH Hj. induction n as [|n IH]; [lia|]. cbn.
    destruct (Nat.eq_dec i n) as [->|]; [lia|]. assert (i < n) by lia. specialize (IH H). lia.
  - assert (j < n) by lia. specialize (IH Hij H). lia.
Qed.

(* dealing a list to w phases loses and duplicates nothing *)
Lemma stride_count (w : nat) (v : nat) : 0 < w -> forall l : list nat,
  sum_upto (fun r => count_occ Nat.eq_dec (stride w r l) v) w = count_occ Nat.eq_dec l v.
Proof.
  intros Hw. induction l as [|x t IH].
  - cbn [stride count_occ]. induction w as [|w' IHw]; [reflexivity|]. cbn.
    destruct w'; [reflexivity|]. rewrite IHw by lia. reflexivity.
  - destruct w as [|w']; [lia|]. rewrite sum_upto_shift.
    cbn [stride]. replace (S w' - 1) with w' by lia.
    cbn [count_occ]. rewrite <- IH. cbn [sum_upto].
    destruct (Nat.eq_dec x v); lia.
Qed.

(* ---------- the sampler ------------------------------------------------ *)

Definition wf (s : sampler) : Prop :=
  0 < world s /\ rank s < world s /\ eff s <= total s.

Definition dist_ok (dist : option (nat * nat)) : Prop :=
  match dist with None => True | Some (r, w) => r < w end.

Lemma init_wf n dist m e0 s : dist_ok dist -> init n dist m e0 = Some s ->
  wf s /\ total s = n /\ epoch s = e0.
Proof.
  unfold init, wf. intros Hd H.
  destruct m, dist as [[r w]|]; cbn in Hd;
    try (destruct (Nat.eqb (n mod w) 0)); inversion H; subst; cbn; lia.
Qed.

Lemma samples_stride s order : samples s order = stride (world s) (rank s) (firstn (eff s) order).
Proof. unfold samples, islice. apply stride_skipn. Qed.

Lemma len_eq_yielded s order : wf s -> length order = total s ->
  length (samples s order) = len s.
Proof.
  intros (Hw & Hr & He) Hl. rewrite samples_stride, stride_length by assumption.
  rewrite firstn_length, Hl. unfold len. f_equal. lia.
Qed.

Lemma samples_nth s order d j : wf s ->
  nth j (samples s order) d = nth (rank s + j * world s) (firstn (eff s) order) d.
Proof. intros (Hw & _). rewrite samples_stride. apply stride_nth. exact Hw. Qed.

(* position i < eff of the epoch order is the (i / W)-th sample of rank i mod W *)
Lemma position_owner s order d i : wf s -> length order = total s -> i < eff s ->
  let s' := mkSampler (total s) (eff s) (i mod world s) (world s) (epoch s) in
  i / world s < len s' /\ nth (i / world s) (samples s' order) d = nth i order d.
Proof.
  intros (Hw & Hr & He) Hl Hi s'. split.
  - unfold len, s'; cbn. apply Nat.div_le_lower_bound; [lia|].
    pose proof (Nat.div_mod i (world s)). pose proof (Nat.mod_upper_bound i (world s)).
    lia.
  - rewrite samples_nth by (unfold wf, s'; cbn; repeat split; try lia; apply Nat.mod_upper_bound; lia).
    unfold s'; cbn.
    replace (i mod world s + i / world s * world s) with i
      by (pose proof (Nat.div_mod i (world s)); lia).
    clear s'. revert i Hi. generalize (eff s) as e. intros e.
    revert order Hl. clear. intros order _. revert order.
    induction e as [|e IH]; intros order i Hi; [lia|].
    destruct order as [|x t]; [destruct i; reflexivity|].
    destruct i as [|i]; [reflexivity|]. cbn. apply IH. lia.
Qed.

(* every yielded sample sits at a position below eff *)
Lemma sample_position s j : wf s -> j < len s -> rank s + j * world s < eff s.
Proof.
  intros (Hw & Hr & He) Hj. unfold len in Hj.
  assert (world s * ((eff s + world s - 1 - rank s) / world s) <= eff s + world s - 1 - rank s)
    by (apply Nat.mul_div_le; lia).
  assert (world s * S j <= world s * ((eff s + world s - 1 - rank s) / world s))
    by (apply Nat.mul_le_mono_l; lia).
  lia.
Qed.

Definition with_rank (s : sampler) (r : nat) : sampler :=
  mkSampler (total s) (eff s) r (world s) (epoch s).

Lemma ranks_cover_count s order v : 0 < world s ->
  sum_upto (fun r => count_occ Nat.eq_dec (samples (with_rank s r) order) v) (world s)
  = count_occ Nat.eq_dec (firstn (eff s) order) v.
Proof.
  intros Hw. rewrite <- (stride_count (world s) v Hw).
  apply sum_upto_ext. intros r _. rewrite samples_stride. reflexivity.
Qed.

Lemma In_firstn {A} (l : list A) n x : In x (firstn n l) -> In x l.
Proof.
  revert n; induction l as [|y t IH]; intros n H; destruct n; cbn in *; try tauto.
  destruct H as [H|H]; [left; exact H|right; eapply IH; exact H].
Qed.

Lemma NoDup_firstn {A} (l : list A) n : NoDup l -> NoDup (firstn n l).
Proof.
  revert n; induction l as [|x t IH]; intros n H; destruct n; cbn; try constructor.
  - inversion H; subst. intros Hin. apply H2. eapply In_firstn; exact Hin.
  - inversion H; subst. auto.
Qed.

Lemma count_occ_NoDup_le1 (l : list nat) v : NoDup l -> count_occ Nat.eq_dec l v <= 1.
Proof. intros H. apply (proj1 (NoDup_count_occ Nat.eq_dec l) H). Qed.

Lemma ranks_disjoint s order r1 r2 v : 0 < world s -> NoDup order ->
  r1 < world s -> r2 < world s -> r1 <> r2 ->
  In v (samples (with_rank s r1) order) -> ~ In v (samples (with_rank s r2) order).
Proof.
  intros Hw Hnd H1 H2 Hne Hin1 Hin2.
  pose proof (ranks_cover_count s order v Hw) as Hsum.
  pose proof (count_occ_NoDup_le1 _ v (NoDup_firstn order (eff s) Hnd)) as Hle.
  apply (count_occ_In Nat.eq_dec) in Hin1. apply (count_occ_In Nat.eq_dec) in Hin2.
  set (f := fun r => count_occ Nat.eq_dec (samples (with_rank s r) order) v) in *.
  destruct (Nat.lt_ge_cases r1 r2) as [Hlt|Hge].
  - pose proof (sum_upto_ge2 f (world s) r1 r2 Hlt H2). unfold f in *. lia.
  - assert (Hlt : r2 < r1) by lia.
    pose proof (sum_upto_ge2 f (world s) r2 r1 Hlt H1). unfold f in *. lia.
Qed.

Lemma ranks_cover_once s order v : 0 < world s -> NoDup order ->
  In v (firstn (eff s) order) ->
  sum_upto (fun r => count_occ Nat.eq_dec (samples (with_rank s r) order) v) (world s) = 1.
Proof.
  intros Hw Hnd Hin. rewrite ranks_cover_count by exact Hw.
  pose proof (count_occ_NoDup_le1 _ v (NoDup_firstn order (eff s) Hnd)).
  apply (count_occ_In Nat.eq_dec) in Hin. lia.
Qed.

Lemma sum_upto_pos f n : 0 < sum_upto f n -> exists r, r < n /\ 0 < f r.
Proof.
  induction n as [|n IH]; cbn; [lia|]. intros H.
  destruct (f n) eqn:E.
  - destruct IH as (r & Hr & Hf); [lia|]. exists r; split; [lia|exact Hf].
  - exists n; split; [lia|lia].
Qed.

Lemma ranks_cover_some s order v : 0 < world s ->
  In v (firstn (eff s) order) ->
  exists r, r < world s /\ In v (samples (with_rank s r) order).
Proof.
  intros Hw Hin. apply (count_occ_In Nat.eq_dec) in Hin.
  rewrite <- ranks_cover_count in Hin by exact Hw.
  destruct (sum_upto_pos _ _ Hin) as (r & Hr & Hf). exists r; split; [exact Hr|].
  apply (count_occ_In Nat.eq_dec). exact Hf.
Qed.

Lemma samples_subset s order v : In v (samples s order) -> In v (firstn (eff s) order).
Proof.
  rewrite samples_stride. generalize (firstn (eff s) order) as l. generalize (rank s) as k.
  intros k l; revert k. induction l as [|x t IH]; intros k; cbn [stride]; [tauto|].
  destruct k as [|k'].
  - intros [->|H]; [left; reflexivity|right; eapply IH; exact H].
  - intros H. right. eapply IH; exact H.
Qed.

Lemma drop_equal_counts n r w e0 s : r < w ->
  init n (Some (r, w)) Drop e0 = Some s ->
  eff s = w * (n / w) /\ len s = n / w /\ total s - eff s = n mod w.
Proof.
  intros Hr. unfold init. destruct (Nat.eqb_spec (n mod w) 0) as [E|E];
    intros H; inversion H; subst; unfold len; cbn.
  - assert (Hw : w <> 0) by lia. pose proof (Nat.div_mod n w Hw). assert (Hn : n = w * (n / w)) by lia.
    repeat split; try lia.
    rewrite Hn at 1. replace (w * (n / w) + w - 1 - r) with (w - 1 - r + (n / w) * w) by lia.
    rewrite Nat.div_add by lia. rewrite Nat.div_small by lia. lia.
  - assert (Hw : w <> 0) by lia. pose proof (Nat.div_mod n w Hw). pose proof (Nat.mod_upper_bound n w Hw).
    pose proof (Nat.mod_le n w Hw).
    assert (Hn : n - n mod w = w * (n / w)) by lia.
    repeat split; try lia.
    rewrite Hn. replace (w * (n / w) + w - 1 - r) with (w - 1 - r + (n / w) * w) by lia.
    rewrite Nat.div_add by lia. rewrite Nat.div_small by lia. lia.
Qed.

Lemma raise_iff_indivisible n r w e0 :
  init n (Some (r, w)) Raise e0 = None <-> n mod w <> 0.
Proof.
  unfold init. destruct (Nat.eqb_spec (n mod w) 0) as [E|E]; split; intros H.
  - discriminate.
  - contradiction.
  - exact E.
  - reflexivity.
Qed.

Lemma non_drop_eff n dist m e0 s : m <> Drop -> init n dist m e0 = Some s -> eff s = n.
Proof.
  unfold init. intros Hm H. destruct m, dist as [[r w]|]; try congruence;
    try (destruct (Nat.eqb (n mod w) 0)); inversion H; reflexivity.
Qed.

Lemma stride_one {A} (l : list A) : stride 1 0 l = l.
Proof. induction l as [|x t IH]; cbn; [reflexivity|]. f_equal. exact IH. Qed.

Lemma ignore_gives_full_epoch n dist e0 s order : length order = n ->
  init n dist Ignore e0 = Some s -> samples s order = order /\ len s = n.
Proof.
  intros Hl H. cbn in H. inversion H; subst.
  unfold samples, islice, len; cbn [total eff rank world epoch skipn].
  rewrite firstn_all, stride_one. split; [reflexivity|].
  rewrite Nat.div_1_r. lia.
Qed.

Lemma iterate_spec order k s :
  fst (iterate order k s) = map (fun e => samples s (order e)) (seq (epoch s) k)
  /\ snd (iterate order k s) = mkSampler (total s) (eff s) (rank s) (world s) (epoch s + k).
Proof.
  revert s; induction k as [|k IH]; intros s.
  - cbn. split; [reflexivity|]. destruct s; cbn. f_equal. lia.
  - cbn [iterate next]. 
    destruct (iterate order k (mkSampler (total s) (eff s) (rank s) (world s) (S (epoch s)))) as [ys s''] eqn:E.
    specialize (IH (mkSampler (total s) (eff s) (rank s) (world s) (S (epoch s)))).
    rewrite E in IH. cbn in IH. destruct IH as [IH1 IH2]. cbn. split.
    + f_equal. rewrite IH1. apply map_ext. intros e. reflexivity.
    + rewrite IH2. f_equal. lia.
Qed.

(* the (k+1)-th yield of a sampler started at epoch 0 is the first yield of one
   started at epoch k: the order depends on (seed, epoch) only *)
Lemma order_function_of_epoch n dist m order k s0 sk :
  init n dist m 0 = Some s0 -> init n dist m k = Some sk ->
  nth k (fst (iterate order (S k) s0)) [] = fst (next order sk)
  /\ fst (next order sk) = samples s0 (order k).
Proof.
  intros H0 Hk.
  assert (Hs : samples s0 (order k) = samples sk (order k) /\ epoch sk = k /\ epoch s0 = 0).
  { unfold init in *. destruct m, dist as [[r w]|];
      try (destruct (Nat.eqb (n mod w) 0)); inversion H0; inversion Hk; subst; cbn; auto. }
  destruct Hs as (Hs & Hek & He0).
  rewrite (proj1 (iterate_spec order (S k) s0)). rewrite He0.
  unfold next; cbn [fst]. rewrite Hek, <- Hs. split; [|reflexivity].
  rewrite (nth_indep _ [] ((fun e => samples s0 (order e)) 0))
    by (rewrite map_length, seq_length; lia).
  rewrite (map_nth (fun e => samples s0 (order e))). rewrite seq_nth by lia. reflexivity.
Qed.
