(* C19 tie - from the batch loop of the interpreted sampler (TieSrswor.bloop) to the model's per-element
   sampler (Combinatorics.srswor): every row the source returns is Model.srswor run on a script of uniforms
   in [0, 1) that is read off the oracle's draws - PROVIDED the oracle draws 1 at p = 1 and 0 at p = 0
   ([oracle_ok]) and the given counts are non-negative.  Pure list / number reasoning, no interpreter. *)
From Coq Require Import ZArith QArith List Bool Arith Lia.
From PV Require Import MiniTorch.Ops MiniTorch.Lemmas MiniTorch.OpsC19 MiniTorch.LemmasC19.
From PV Require Import C19.Combinatorics C19.Spec C19.ProofsComb C19.TieSrswor.
Import ListNotations.
Local Open Scope Z_scope.

(* ---- the probability remainder_ell / remainder_t ------------------------------------------------------- *)
Lemma qdiv_z_pos : forall e pt, (inject_Z e / inject_Z (Zpos pt) == e # pt)%Q.
Proof. intros. unfold Qeq, Qdiv, Qmult, Qinv, inject_Z. cbn. lia. Qed.

Section Prob.
  Variables (e t : Z).
  Hypothesis Hinv : 0 <= e <= t /\ 1 <= t.
  Let p : Q := (inject_Z e / inject_Z t)%Q.

  Lemma p_is : exists pt, t = Zpos pt /\ (p == e # pt)%Q.
  Proof. destruct t as [|pt|pt]; try lia. exists pt. split; [reflexivity|apply qdiv_z_pos]. Qed.

  Lemma p_zero_iff : (p == 0)%Q <-> e = 0.
  Proof. destruct p_is as [pt [Ht Hp]]. rewrite Hp. unfold Qeq. cbn. lia. Qed.

  Lemma p_one_iff : (p == 1)%Q <-> e = t.
  Proof. destruct p_is as [pt [Ht Hp]]. rewrite Hp, Ht. unfold Qeq. cbn. lia. Qed.

  Lemma p_nonneg : (0 <= p)%Q.
  Proof. destruct p_is as [pt [Ht Hp]]. rewrite Hp. unfold Qle. cbn. lia. Qed.

  Lemma p_pos : e <> 0 -> (0 < p)%Q.
  Proof. intros He. destruct p_is as [pt [Ht Hp]]. rewrite Hp. unfold Qlt. cbn. lia. Qed.

  Lemma p_lt1 : e <> t -> (p < 1)%Q.
  Proof. intros He. destruct p_is as [pt [Ht Hp]]. rewrite Hp. unfold Qlt. cbn. lia. Qed.
End Prob.

Section Rows.
  Variable orc : oracle.
  Hypothesis Hok : oracle_ok orc.

  Definition inv (e t : Z) : Prop := 0 <= e <= t /\ 1 <= t.

  (* the uniform that reproduces the draw b at probability p *)
  Definition u_of (b : bool) (p : Q) : Q := if b then 0%Q else Qred p.

  Lemma nth_zinj : forall l n, nth n (zinj l) 0%Q = inject_Z (nth n l 0).
  Proof. intros. unfold zinj. change 0%Q with (inject_Z 0). apply map_nth. Qed.

  Lemma nth_zsub : forall ells bits n, length ells = length bits ->
    nth n (zsub ells bits) 0 = nth n ells 0 - b2z (nth n bits false).
  Proof.
    intros ells bits n H. unfold zsub.
    transitivity ((fun eb : Z * bool => fst eb - b2z (snd eb)) (nth n (combine ells bits) (0, false))).
    - exact (map_nth (fun eb : Z * bool => fst eb - b2z (snd eb)) (combine ells bits) (0, false) n).
    - now rewrite combine_nth by assumption.
  Qed.

  Lemma nth_zdec : forall trems n, (n < length trems)%nat -> nth n (zdec trems) 0 = Z.max (nth n trems 0 - 1) 1.
  Proof.
    intros trems n H. unfold zdec. rewrite (nth_indep _ 0 1) by now rewrite map_length.
    exact (map_nth (fun t => Z.max (t - 1) 1) trems 0 n).
  Qed.

  Lemma row_of_bloop : forall s k ells trems n,
    length ells = length trems -> (n < length ells)%nat -> inv (nth n ells 0) (nth n trems 0) ->
    exists us, Forall unit_u us /\
      map (fun bt => b2z (nth n bt false)) (bloop orc k s ells trems) = srswor_loop s (nth n ells 0) (nth n trems 0) us.
  Proof.
    induction s as [|s IH]; intros k ells trems n Hl Hn Hinv.
    - exists []. split; [constructor|reflexivity].
    - cbn [bloop map].
      set (e := nth n ells 0) in *. set (t := nth n trems 0) in *.
      set (P := step_p (zinj ells) (zinj trems)).
      assert (HP : length P = length ells).
      { unfold P, step_p, zinj. rewrite map2_length; rewrite !map_length; auto. }
      set (bits := draw orc k ells trems).
      assert (Hbl : length bits = length ells) by (unfold bits; now apply draw_length).
      assert (Hpn : nth n P 0%Q = Qred (inject_Z e / inject_Z t)).
      { unfold P, step_p. rewrite nth_map2; [|unfold zinj; rewrite !map_length; auto|unfold zinj; now rewrite map_length].
        now rewrite !nth_zinj. }
      set (b := nth n bits false).
      assert (Hb : b = orc k P n).
      { unfold b, bits, draw. fold P. rewrite (nth_indep _ false (orc k P 0%nat)) by (rewrite map_length, seq_length; lia).
        rewrite map_nth, seq_nth by lia. reflexivity. }
      destruct (Hok k P n ltac:(lia)) as [H1 H0]. rewrite Hpn in H1, H0. rewrite <- Hb in H1, H0.
      pose proof (Qred_correct (inject_Z e / inject_Z t)) as Hred.
      assert (Hb1 : e = t -> b = true) by (intros E; apply H1; rewrite Hred; now apply p_one_iff).
      assert (Hb0 : e = 0 -> b = false) by (intros E; apply H0; rewrite Hred; now apply p_zero_iff).
      set (u := u_of b (inject_Z e / inject_Z t)).
      assert (Hbern : bern (inject_Z e / inject_Z t) u = b2z b).
      { unfold bern, u, u_of. destruct b; cbn [b2z].
        - destruct (Qle_bool (inject_Z e / inject_Z t) 0) eqn:E; [|reflexivity].
          apply Qle_bool_iff in E. assert (e <> 0) by (intros E0; specialize (Hb0 E0); discriminate).
          pose proof (p_pos e t Hinv H). exfalso. eapply Qlt_irrefl. eapply Qlt_le_trans; eassumption.
        - replace (Qle_bool (inject_Z e / inject_Z t) (Qred (inject_Z e / inject_Z t))) with true; [reflexivity|].
          symmetry. apply Qle_bool_iff. rewrite Hred. apply Qle_refl. }
      assert (Hu : unit_u u).
      { unfold unit_u, u, u_of. destruct b.
        - split; [apply Qle_refl|reflexivity].
        - rewrite Hred. split; [now apply p_nonneg|]. apply p_lt1; [assumption|]. intros E. specialize (Hb1 E). discriminate. }
      destruct (IH (S k) (zsub ells bits) (zdec trems) n) as [us [Hus Hrow]].
      + rewrite zsub_length by congruence. unfold zdec. now rewrite map_length.
      + rewrite zsub_length by congruence. assumption.
      + rewrite nth_zsub by congruence. rewrite nth_zdec by lia. fold e t b. unfold inv in *.
        destruct b; cbn [b2z].
        * assert (e <> 0) by (intros E0; specialize (Hb0 E0); discriminate). lia.
        * assert (e <> t) by (intros E0; specialize (Hb1 E0); discriminate). lia.
      + exists (u :: us). split; [constructor; assumption|].
        cbn [srswor_loop hd tl]. fold b. rewrite Hbern. f_equal.
        rewrite Hrow. rewrite nth_zsub by congruence. rewrite nth_zdec by lia. reflexivity.
  Qed.
End Rows.
