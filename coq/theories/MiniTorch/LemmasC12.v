(* MiniTorch, unit C12Src — the algebra of OpsC12 on the canonical 1-D / 2-D tensors [T1] / [T2] (no new
   definitions of semantics; no axioms). *)
From Coq Require Import List ZArith Bool Arith Lia String ZifyBool.
From PV Require Import C12.Model MiniTorch.OpsC12.
Import ListNotations.
Local Open Scope list_scope.

(* ---- lists ---- *)
Lemma chunks_concat : forall (w : nat) (rows : list (list Z)),
  Forall (fun r => List.length r = w) rows -> chunks (List.length rows) w (List.concat rows) = rows.
Proof.
  intros w rows H. induction H as [|r rows Hr _ IH]; [reflexivity|].
  subst w. cbn [List.length chunks List.concat].
  assert (E1 : firstn (List.length r) (r ++ List.concat rows) = r).
  { rewrite firstn_app, Nat.sub_diag, firstn_all. cbn. apply app_nil_r. }
  assert (E2 : skipn (List.length r) (r ++ List.concat rows) = List.concat rows).
  { rewrite skipn_app, Nat.sub_diag, skipn_all. reflexivity. }
  rewrite E1, E2, IH. reflexivity.
Qed.

Lemma Forall_len_app : forall (w : nat) (a b : list (list Z)),
  Forall (fun r => List.length r = w) a -> Forall (fun r => List.length r = w) b ->
  Forall (fun r => List.length r = w) (a ++ b).
Proof. intros. apply Forall_app. now split. Qed.

Lemma numel_of_1 : forall w, numel_of [w] = w.
Proof. intros. cbn. lia. Qed.

Lemma shape_eqb_refl : forall s, shape_eqb s s = true.
Proof. induction s as [|x s IH]; [reflexivity|]. cbn. now rewrite Nat.eqb_refl, IH. Qed.

Lemma dtype_beq_refl : forall d, dtype_beq d d = true.
Proof. now destruct d. Qed.

Lemma dtype_of_name_name : forall d, dtype_of_name (dtype_name d) = Some d.
Proof. now destruct d. Qed.

(* ---- what may be written ---- *)
Lemma in_range_numeric : forall dt s, in_range dt s = true -> cast_fill dt (-1) = Some (minus1 dt).
Proof. intros dt s H. destruct dt; try discriminate H; reflexivity. Qed.

Lemma cast_fill_in_range : forall dt s, in_range dt s = true -> cast_fill dt s = Some s.
Proof. intros dt s H. unfold cast_fill. now rewrite H. Qed.

(* ---- metadata ---- *)
Lemma ndim_T1 : forall cu dt l, ndim (T1 cu dt l) = 1%nat. Proof. reflexivity. Qed.
Lemma ndim_T2 : forall cu dt w rows, ndim (T2 cu dt w rows) = 2%nat. Proof. reflexivity. Qed.
Lemma size_T2_1 : forall cu dt w rows, size (T2 cu dt w rows) 1 = Some w. Proof. reflexivity. Qed.
Lemma size_T2_0 : forall cu dt w rows, size (T2 cu dt w rows) 0 = Some (List.length rows). Proof. reflexivity. Qed.
Lemma size_T1_0 : forall cu dt l, size (T1 cu dt l) 0 = Some (List.length l). Proof. reflexivity. Qed.
Lemma cpu_T1 : forall cu dt l, cpu (T1 cu dt l) = T1 false dt l. Proof. reflexivity. Qed.
Lemma cpu_T2 : forall cu dt w rows, cpu (T2 cu dt w rows) = T2 false dt w rows. Proof. reflexivity. Qed.
Lemma long_T1 : forall cu dt l, long (T1 cu dt l) = T1 cu DI64 l. Proof. reflexivity. Qed.
Lemma long_T2 : forall cu dt w rows, long (T2 cu dt w rows) = T2 cu DI64 w rows. Proof. reflexivity. Qed.

(* ---- construction ---- *)
Lemma new_full_T1 : forall t w v x, cast_fill (t_dtype t) v = Some x ->
  new_full t [w] v = Some (T1 (t_cuda t) (t_dtype t) (repeat x w)).
Proof. intros t w v x H. unfold new_full, T1. now rewrite H, numel_of_1, repeat_length. Qed.

Lemma unsqueeze_T1_0 : forall cu dt l w, List.length l = w -> unsqueeze (T1 cu dt l) 0 = Some (T2 cu dt w [l]).
Proof. intros cu dt l w <-. unfold unsqueeze, T1, T2. cbn. now rewrite app_nil_r. Qed.

Lemma concat_singletons : forall (l : list Z), List.concat (map (fun x => [x]) l) = l.
Proof. induction l as [|x l IH]; [reflexivity|]. cbn. now rewrite IH. Qed.

Lemma unsqueeze_T1_1 : forall cu dt l, unsqueeze (T1 cu dt l) 1 = Some (T2 cu dt 1 (map (fun x => [x]) l)).
Proof. intros. unfold unsqueeze, T1, T2. cbn. now rewrite map_length, concat_singletons. Qed.

Lemma cat0_T1 : forall cu dt a b, cat (T1 cu dt a) (T1 cu dt b) 0 = Val (T1 cu dt (a ++ b)).
Proof. intros. unfold cat, T1. cbn. rewrite dtype_beq_refl, eqb_reflx. cbn. now rewrite app_length. Qed.

Lemma cat0_T2 : forall cu dt w a b, cat (T2 cu dt w a) (T2 cu dt w b) 0 = Val (T2 cu dt w (a ++ b)).
Proof.
  intros. unfold cat, T2. cbn. rewrite dtype_beq_refl, eqb_reflx, Nat.eqb_refl. cbn.
  now rewrite app_length, concat_app.
Qed.

(* a 1-D tensor with at least one element next to a tensor without dimensions / with >= 3 dimensions *)
Lemma cat0_T1_0d : forall cu dt x l d, cat (T1 cu dt (x :: l)) (mkT cu dt [] d) 0 = Raise "RuntimeError"%string.
Proof. intros. unfold cat, T1. cbn. now rewrite dtype_beq_refl, eqb_reflx. Qed.
Lemma cat0_0d_T1 : forall cu dt l d, cat (mkT cu dt [] d) (T1 cu dt l) 0 = Raise "RuntimeError"%string.
Proof. intros. unfold cat, T1. cbn. now rewrite dtype_beq_refl, eqb_reflx. Qed.
Lemma cat0_T1_3d : forall cu dt x l a b c s d,
  cat (T1 cu dt (x :: l)) (mkT cu dt (a :: b :: c :: s) d) 0 = Raise "RuntimeError"%string.
Proof. intros. unfold cat, T1. cbn. rewrite dtype_beq_refl, eqb_reflx. now destruct a. Qed.
Lemma cat0_3d_T1 : forall cu dt x l a b c s d,
  cat (mkT cu dt (a :: b :: c :: s) d) (T1 cu dt (x :: l)) 0 = Raise "RuntimeError"%string.
Proof. intros. unfold cat, T1. cbn. rewrite dtype_beq_refl, eqb_reflx. now destruct a. Qed.

(* ---- reading ---- *)
Lemma select_col_T2_0 : forall cu dt w rows, Forall (fun r => List.length r = S w) rows ->
  select_col (T2 cu dt (S w) rows) 0 = Val (T1 cu dt (map (fun r => hd 0%Z r) rows)).
Proof.
  intros cu dt w rows H. unfold select_col, T2, T1. cbn [t_shape t_data t_cuda t_dtype].
  rewrite (chunks_concat (S w) rows H). cbn. rewrite map_length. do 2 f_equal.
  apply map_ext. intros r. now destruct r.
Qed.

Lemma select_col_T2_w0 : forall cu dt rows, select_col (T2 cu dt 0 rows) 0 = Raise "IndexError"%string.
Proof. reflexivity. Qed.

Lemma clip_none : forall n d, clip n d None = d. Proof. reflexivity. Qed.
Lemma clip_nat : forall n d k, clip n d (Some (Z.of_nat k)) = Nat.min n k.
Proof. intros. unfold clip. replace (Z.of_nat k <? 0)%Z with false by lia. now rewrite Nat2Z.id. Qed.

Lemma slice0_T1_from : forall cu dt l k, slice0 (T1 cu dt l) (Some (Z.of_nat k)) None = Some (T1 cu dt (skipn k l)).
Proof.
  intros. unfold slice0, T1. cbn [t_shape t_data t_cuda t_dtype]. rewrite clip_none, clip_nat.
  destruct (Nat.le_gt_cases (List.length l) k) as [Hk|Hk].
  - rewrite Nat.min_l by lia. rewrite Nat.sub_diag. cbn [firstn]. now rewrite skipn_all2 by lia.
  - rewrite Nat.min_r by lia. rewrite <- (skipn_length k l), firstn_all. reflexivity.
Qed.

Lemma slice0_T1_to : forall cu dt l k, slice0 (T1 cu dt l) None (Some (Z.of_nat k)) = Some (T1 cu dt (firstn k l)).
Proof.
  intros. unfold slice0, T1. cbn [t_shape t_data t_cuda t_dtype]. rewrite clip_none, clip_nat. cbn [skipn]. rewrite Nat.sub_0_r.
  destruct (Nat.le_gt_cases (List.length l) k) as [Hk|Hk].
  - rewrite Nat.min_l by lia. now rewrite !firstn_all, firstn_all2 by lia.
  - now rewrite Nat.min_r by lia.
Qed.

Lemma slice0_T2_from : forall cu dt w rows k, Forall (fun r => List.length r = w) rows ->
  slice0 (T2 cu dt w rows) (Some (Z.of_nat k)) None = Some (T2 cu dt w (skipn k rows)).
Proof.
  intros cu dt w rows k H. unfold slice0, T2. cbn [t_shape t_data t_cuda t_dtype]. rewrite clip_none, clip_nat, (chunks_concat w rows H).
  destruct (Nat.le_gt_cases (List.length rows) k) as [Hk|Hk].
  - rewrite Nat.min_l by lia. rewrite Nat.sub_diag. cbn [firstn]. now rewrite skipn_all2 by lia.
  - rewrite Nat.min_r by lia. rewrite <- (skipn_length k rows), firstn_all. reflexivity.
Qed.

Lemma slice0_T2_to : forall cu dt w rows k, Forall (fun r => List.length r = w) rows ->
  slice0 (T2 cu dt w rows) None (Some (Z.of_nat k)) = Some (T2 cu dt w (firstn k rows)).
Proof.
  intros cu dt w rows k H. unfold slice0, T2. cbn [t_shape t_data t_cuda t_dtype]. rewrite clip_none, clip_nat, (chunks_concat w rows H).
  cbn [skipn]. rewrite Nat.sub_0_r.
  destruct (Nat.le_gt_cases (List.length rows) k) as [Hk|Hk].
  - rewrite Nat.min_l by lia. now rewrite !firstn_all, firstn_all2 by lia.
  - now rewrite Nat.min_r by lia.
Qed.

Lemma eq_scalar_T1 : forall cu dt l s,
  eq_scalar (T1 cu dt l) s = T1 cu DBool (map (fun x => if (x =? s)%Z then 1%Z else 0%Z) l).
Proof. intros. unfold eq_scalar, T1. cbn. now rewrite map_length. Qed.

(* the index tensor torch.nonzero returns for a 1-D input: one row per index *)
Definition NZ (cu : bool) (idx : list Z) : tens := mkT cu DI64 [List.length idx; 1%nat] idx.

Lemma nonzero_T1 : forall cu dt l, nonzero (T1 cu dt l) = Some (NZ cu (nonzero_idx 0 l)).
Proof. reflexivity. Qed.

Lemma numel_NZ : forall cu idx, numel (NZ cu idx) = List.length idx.
Proof. intros. unfold numel, NZ. cbn. lia. Qed.

Lemma chunks_1 : forall (l : list Z), chunks (List.length l) 1 l = map (fun x => [x]) l.
Proof. induction l as [|x l IH]; [reflexivity|]. cbn [List.length chunks map]. cbn [firstn skipn]. now rewrite IH. Qed.

Lemma get_item_NZ_first : forall cu i idx, get_item (NZ cu (i :: idx)) 0 = Val (inr (T1 cu DI64 [i])).
Proof. intros. unfold get_item, NZ. cbn [t_shape t_data t_cuda t_dtype]. rewrite chunks_1. reflexivity. Qed.

Lemma nth_last_map : forall (f : Z -> list Z) idx i,
  nth (List.length idx) (map f (i :: idx)) [] = f (last (i :: idx) 0%Z).
Proof.
  intros f idx. induction idx as [|j idx IH]; intros i; [reflexivity|].
  change (nth (List.length (j :: idx)) (map f (i :: j :: idx)) []) with (nth (List.length idx) (map f (j :: idx)) []).
  now rewrite IH.
Qed.

Lemma get_item_NZ_last : forall cu i idx, get_item (NZ cu (i :: idx)) (-1) = Val (inr (T1 cu DI64 [last (i :: idx) 0%Z])).
Proof.
  intros. unfold get_item, NZ. cbn [t_shape t_data t_cuda t_dtype]. rewrite chunks_1. unfold norm_index.
  replace (-1 <? 0)%Z with true by reflexivity.
  replace ((0 <=? -1 + Z.of_nat (List.length (i :: idx)))%Z && (-1 + Z.of_nat (List.length (i :: idx)) <? Z.of_nat (List.length (i :: idx)))%Z)%bool
    with true by (cbn [List.length]; lia).
  replace (Z.to_nat (-1 + Z.of_nat (List.length (i :: idx)))) with (List.length idx) by (cbn [List.length]; lia).
  now rewrite nth_last_map.
Qed.

Lemma item_T1_1 : forall cu dt x, item (T1 cu dt [x]) = Some x. Proof. reflexivity. Qed.

(* ---- writing ---- *)
Lemma set_item_T1_0 : forall cu dt x l v y, cast_fill dt v = Some y ->
  set_item (T1 cu dt (x :: l)) 0 v = Val (T1 cu dt (y :: l)).
Proof. intros cu dt x l v y H. unfold set_item, T1. cbn [t_shape t_data t_cuda t_dtype List.length]. cbn. now rewrite H. Qed.

Lemma set_item_T1_nil : forall cu dt v, set_item (T1 cu dt []) 0 v = Raise "IndexError"%string.
Proof. reflexivity. Qed.
