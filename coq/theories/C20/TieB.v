(* C20, second tie - `MultiHeadedAttention.forward` / `check_input` (_attn.py) against PV.C20.Model.mha, checked by
   the kernel.  PV.Gen.C20BSrc.* are the MiniPy terms harness/py2coq/translate.py regenerates from /repo on every run;
   PV.MiniPy.Interp is their semantics; the calls mean what SrcRunB.ext_mha says (torch operations: MiniTorch.OpsC20 /
   OpsC20B / OpsC07); the wrapped single-head attention is the translated GlobalSoftAttention.forward of the first tie. *)
From Coq Require Import ZArith QArith List String Bool Arith Lia ZifyBool ZifyNat.
From PV Require Import MiniPy.Syntax MiniPy.Interp MiniTorch.Ops MiniTorch.OpsC07 MiniTorch.OpsC20 MiniTorch.LemmasC20.
From PV Require Import MiniTorch.OpsC20B MiniTorch.LemmasC20B.
From PV Require Import Gen.C20Src Gen.C20BSrc C20.SrcRun C20.SrcRunB C20.TieOps C20.Tie.
From PV Require C20.Model C20.ModelB C20.Spec C20.Index C20.Proofs C20.Broadcast C20.MHA MiniTorch.LemmasC07.
Import ListNotations.
Local Open Scope string_scope.

#[local] Arguments enc_b : simpl never.
#[local] Arguments enc_f : simpl never.
#[local] Arguments enc_q : simpl never.
#[local] Arguments dec_b : simpl never.
#[local] Arguments dec_q : simpl never.
#[local] Arguments dec_x : simpl never.
#[local] Arguments mat : simpl never.
#[local] Arguments rd : simpl never.
#[local] Arguments runsq : simpl never.
#[local] Arguments Z.add : simpl never.
#[local] Arguments Z.sub : simpl never.
#[local] Arguments Z.of_nat : simpl never.
#[local] Arguments Z.eqb : simpl never.
#[local] Arguments Z.ltb : simpl never.
#[local] Arguments Z.leb : simpl never.
#[local] Arguments Nat.mul : simpl never.
#[local] Arguments dec_nats : simpl never.

Lemma dec_nats2 H d : dec_nats [VInt (Z.of_nat H); VInt (Z.of_nat d)] = Some [H; d].
Proof. exact (LemmasC07.dec_nats_enc [H; d]). Qed.

(* ---- what reaches [extB_ops], call by call: the operations of the first tie unchanged ... -------------------- *)
Section ExtBLemmas.
  Variables expf tanhf : Q -> Q.
  Notation ext := (extB_ops expf tanhf).

  Lemma extB_dim_q x st : ext "$method.dim" [enc_q x] [] st = Ok (VInt (Z.of_nat (List.length (shp x)))) st.
  Proof. exact (ext_dim_q expf x st). Qed.
  Lemma extB_shape_q x st : ext "$attr.shape" [enc_q x] [] st = Ok (shape_val (shp x)) st.
  Proof. exact (ext_shape_q expf x st). Qed.
  Lemma extB_shape_b x st : ext "$attr.shape" [enc_b x] [] st = Ok (shape_val (shp x)) st.
  Proof. exact (ext_shape_b expf x st). Qed.
  Lemma extB_device_q x st : ext "$attr.device" [enc_q x] [] st = Ok device_token st.
  Proof. exact (ext_device_q expf x st). Qed.
  Lemma extB_ones st :
    ext "torch.ones" [VTuple [VInt 1]] [("device", device_token); ("dtype", bool_token)] st = Ok (enc_b (ones_bool [1%nat])) st.
  Proof. reflexivity. Qed.
  Lemma extB_unsqueeze x d st : ext "$method.unsqueeze" [enc_q x; VInt d] [] st = ret_q "unsqueeze" (unsqueeze x d) st.
  Proof. exact (ext_unsqueeze expf x d st). Qed.
  Lemma extB_bshapes a b st :
    ext "broadcast_shapes" [shape_val a; shape_val b] [] st =
    match broadcast_shapes a b with Some s => Ok (shape_val s) st | None => Exc runtime_error st end.
  Proof. exact (ext_bshapes expf a b st). Qed.
  Lemma extB_shape_init s st :
    ext "$getitem" [shape_val s; VTuple [VStr "$slice"; VNone; VInt (-1); VNone]] [] st = Ok (shape_val (removelast s)) st.
  Proof. exact (ext_shape_init expf s st). Qed.
  Lemma extB_shape_snoc s st :
    ext "operator" [VStr "add"; shape_val s; VTuple [VInt 1]] [] st = Ok (shape_val (s ++ [1%nat])) st.
  Proof. exact (ext_shape_snoc expf s st). Qed.
  Lemma extB_linear x w bo st :
    ext "torch.nn.functional.linear" [enc_q x; enc_q w; match bo with None => VNone | Some t => enc_q t end] [] st
    = ret_q "linear" (linear x w bo) st.
  Proof. exact (ext_linear expf x w bo st). Qed.

  (* ... and the new ones *)
  Lemma extB_scripting st : ext "torch.jit.is_scripting" [] [] st = Ok (VBool false) st.
  Proof. reflexivity. Qed.

  Lemma extB_unflatten x H d st :
    ext "unflatten" [enc_q x; VInt (-1); VList [VInt (Z.of_nat H); VInt (Z.of_nat d)]] [] st
    = ret_q "unflatten" (unflatten_last x [H; d]) st.
  Proof.
    unfold extB_ops. cbn. rewrite dec_q_enc_q, dec_nats2. reflexivity.
  Qed.

  Lemma extB_flatten x d st : ext "$method.flatten" [enc_q x; VInt d] [] st = ret_q "flatten" (flatten_from x d) st.
  Proof. unfold extB_ops. cbn. now rewrite dec_q_enc_q. Qed.

  Lemma extB_size_q x d st :
    ext "$method.size" [enc_q x; VInt d] [] st
    = match size_dim (shp x) d with Some n => Ok (VInt (Z.of_nat n)) st | None => oob "size" end.
  Proof. unfold extB_ops. cbn. now rewrite any_shape_q. Qed.

  Lemma extB_unsqueeze_b x d st :
    ext "$method.unsqueeze" [enc_b x; VInt d] [] st
    = match unsqueeze x d with Some r => Ok (enc_b r) st | None => oob "unsqueeze" end.
  Proof. unfold extB_ops. cbn. now rewrite dec_b_enc_b. Qed.
  Lemma extB_squeeze x d st : ext "$method.squeeze" [enc_q x; VInt d] [] st = ret_q "squeeze" (squeeze_dim x d) st.
  Proof. unfold extB_ops. cbn. now rewrite dec_q_enc_q. Qed.

  Lemma extB_expand x sizes st :
    ext "$method.expand" [enc_q x; VList (map (fun n => VInt (Z.of_nat n)) sizes)] [] st
    = ret_q "expand" (expand_to x sizes) st.
  Proof. unfold extB_ops. cbn. now rewrite dec_q_enc_q, LemmasC07.dec_nats_enc. Qed.

  Lemma extB_cat x y st :
    ext "torch.cat" [VList [enc_q x; enc_q y]; VInt (-1)] [] st = ret_q "cat" (cat_last x y) st.
  Proof. unfold extB_ops. cbn. now rewrite !dec_q_enc_q. Qed.

  Lemma extB_tanh x st : ext "torch.tanh" [enc_q x] [] st = Ok (enc_q (tanh_t tanhf x)) st.
  Proof. unfold extB_ops. cbn. now rewrite dec_q_enc_q. Qed.

  (* the remaining operations of GlobalSoftAttention.forward, unchanged *)
  Lemma extB_float_inf st : ext "float" [VStr "inf"] [] st = Ok (VInf true) st.
  Proof. reflexivity. Qed.
  Lemma extB_invert m st : ext "$invert" [enc_b m] [] st = Ok (enc_b (invert m)) st.
  Proof. exact (ext_invert expf m st). Qed.
  Lemma extB_sum x d st : ext "$method.sum" [enc_q x; VInt d] [] st = ret_q "sum" (sum_dim x d) st.
  Proof. exact (ext_sum expf x d st). Qed.
  Lemma extB_masked_fill x m st :
    ext "$method.masked_fill" [enc_q x; enc_b m; VInf false] [] st =
    match masked_fill_ninf x m with Some r => Ok (enc_f r) st | None => oob "masked_fill" end.
  Proof. exact (ext_masked_fill expf x m st). Qed.
  Lemma extB_mul x y st : ext "operator" [VStr "mul"; enc_q x; enc_q y] [] st = ret_q "mul" (mul x y) st.
  Proof. exact (ext_mul expf x y st). Qed.
  Lemma extB_softmax_q x d st :
    ext "torch.nn.functional.softmax" [enc_q x; VInt d] [] st =
    ret_q "softmax" (softmax expf (mkTn (shp x) (map Fin (dat x))) d) st.
  Proof. exact (ext_softmax_q expf x d st). Qed.
  Lemma extB_softmax_f x d st :
    ext "torch.nn.functional.softmax" [enc_f x; VInt d] [] st = ret_q "softmax" (softmax expf x d) st.
  Proof. exact (ext_softmax_f expf x d st). Qed.
End ExtBLemmas.

#[local] Arguments extB_ops : simpl never.
#[local] Arguments ext20_ops : simpl never.
#[local] Arguments cmp_eval : simpl never.
#[local] Arguments subscript : simpl never.
#[local] Arguments broadcast_shapes : simpl never.
#[local] Arguments shape_val : simpl never.
#[local] Arguments call_with : simpl never.
#[local] Arguments single_forward : simpl never.

(* ---- x.size(-1) ---------------------------------------------------------------------------------------------- *)
Lemma size_dim_last s x r : rev s = x :: r -> size_dim s (-1) = Some x.
Proof.
  intros H. apply (f_equal (@rev nat)) in H. rewrite rev_involutive in H. subst s. cbn [rev].
  unfold size_dim. rewrite app_length. cbn [List.length]. rewrite Nat.add_1_r, wrap_dim_last. cbn [option_map].
  rewrite app_nth2 by lia. rewrite Nat.sub_diag. reflexivity.
Qed.

(* ---- MultiHeadedAttention.check_input ------------------------------------------------------------------------- *)
Lemma mha_check_input_accepts expf tanhf d (q k v : tn Q) (mt : tn bool) dim qs ks vs sq' sk' sv' qu uq' es ms ps :
  dict_get d (VStr "dim") = Some (VInt dim) ->
  dict_get d (VStr "query_size") = Some (VInt (Z.of_nat qs)) ->
  dict_get d (VStr "key_size") = Some (VInt (Z.of_nat ks)) ->
  dict_get d (VStr "value_size") = Some (VInt (Z.of_nat vs)) ->
  S (List.length (shp q)) = List.length (shp k) -> List.length (shp v) = List.length (shp k) ->
  rev (shp q) = qs :: sq' -> rev (shp k) = ks :: sk' -> rev (shp v) = vs :: sv' ->
  (1 - Z.of_nat (List.length (shp k)) <= dim <= Z.of_nat (List.length (shp k)) - 2)%Z ->
  unsqueeze q dim = Some qu -> rev (shp qu) = qs :: uq' ->
  Model.bshape uq' sk' = Some es ->
  Model.bshape es (rev (shp mt)) = Some ms ->
  Model.bshape (1%nat :: es) (rev (shp v)) = Some ps ->
  exists st, Interp.run (extB_ops expf tanhf) mha_check_input (forward_vars_v (VDict d) (enc_q q) (enc_q k) (enc_q v) (enc_b mt))
             = Ok VNone st.
Proof.
  intros Hd Hq Hk Hvs Hrq Hrv Hsq Hsk Hsv Hdim Hu Hsu Hes Hms Hps.
  unfold Interp.run, mha_check_input, forward_vars_v, globals20.
  set (kr := List.length (shp k)) in *.
  assert (B1 : (Z.of_nat (List.length (shp q)) =? Z.of_nat kr - 1)%Z = true) by lia.
  assert (B2 : (Z.of_nat kr =? Z.of_nat (List.length (shp v)))%Z = true) by lia.
  assert (B3 : (Z.of_nat kr - 2 <? dim)%Z = false) by lia.
  assert (B4 : (Z.of_nat kr =? -1)%Z = false) by lia.
  assert (B5 : (dim <? - Z.of_nat kr + 1)%Z = false) by lia.
  cstep. rewrite extB_dim_q. cstep. rewrite extB_dim_q. cstep. fold kr. rewrite B1. cstep.
  rewrite extB_dim_q. cstep. rewrite B2. cstep.
  rewrite extB_shape_q. cstep. rewrite (subscript_last _ _ _ _ Hsq). cstep. rewrite Hq. cstep.
  rewrite Z.eqb_refl. cstep.
  rewrite extB_shape_q. cstep. rewrite (subscript_last _ _ _ _ Hsk). cstep. rewrite Hk. cstep.
  rewrite Z.eqb_refl. cstep.
  rewrite Hd. cstep. rewrite B3. cstep. rewrite B4. cstep. rewrite Hd. cstep. rewrite B5. cstep.
  rewrite Hd. cstep. rewrite extB_unsqueeze, Hu. cstep. rewrite extB_shape_q. cstep. rewrite subscript_slice, extB_shape_init. cstep.
  rewrite extB_shape_q. cstep. rewrite subscript_slice, extB_shape_init. cstep.
  rewrite extB_bshapes, (bshapes_init _ _ _ _ _ _ _ Hsu Hsk Hes). cstep.
  cstep.
  rewrite extB_shape_b. cstep. rewrite extB_bshapes, (bshapes_rev _ _ _ Hms). cstep.
  rewrite binop_add_shape, extB_shape_snoc. cstep. rewrite extB_shape_q. cstep.
  rewrite extB_bshapes, (bshapes_snoc _ _ _ Hps). cstep.
  rewrite extB_size_q, (size_dim_last _ _ _ Hsv). cstep. rewrite Hvs. cstep. rewrite Z.eqb_refl. cstep.
  eexists. reflexivity.
Qed.

(* check_input raises RuntimeError: a query of the wrong rank *)
Lemma mha_check_input_rejects_rank expf tanhf d (q k v : tn Q) (mt : tn bool) :
  S (List.length (shp q)) <> List.length (shp k) ->
  exists st, Interp.run (extB_ops expf tanhf) mha_check_input (forward_vars_v (VDict d) (enc_q q) (enc_q k) (enc_q v) (enc_b mt))
             = Exc runtime_error st.
Proof.
  intros Hrq. unfold Interp.run, mha_check_input, forward_vars_v, globals20.
  set (kr := List.length (shp k)) in *.
  assert (B1 : (Z.of_nat (List.length (shp q)) =? Z.of_nat kr - 1)%Z = false) by lia.
  cstep. rewrite extB_dim_q. cstep. rewrite extB_dim_q. cstep. fold kr. rewrite B1. cstep.
  eexists. reflexivity.
Qed.

(* ---- GlobalSoftAttention.check_input under [extB_ops] (the forward pass of a ConcatSoftAttention) -------------- *)
Lemma gsa_check_input_accepts_B expf tanhf d (q k v : tn Q) (mt : tn bool) dim qs ks sq' sk' qu uq' es ms ps :
  dict_get d (VStr "dim") = Some (VInt dim) ->
  dict_get d (VStr "query_size") = Some (VInt (Z.of_nat qs)) ->
  dict_get d (VStr "key_size") = Some (VInt (Z.of_nat ks)) ->
  S (List.length (shp q)) = List.length (shp k) -> List.length (shp v) = List.length (shp k) ->
  rev (shp q) = qs :: sq' -> rev (shp k) = ks :: sk' ->
  (1 - Z.of_nat (List.length (shp k)) <= dim <= Z.of_nat (List.length (shp k)) - 2)%Z ->
  unsqueeze q dim = Some qu -> rev (shp qu) = qs :: uq' ->
  Model.bshape uq' sk' = Some es ->
  Model.bshape es (rev (shp mt)) = Some ms ->
  Model.bshape (1%nat :: es) (rev (shp v)) = Some ps ->
  exists st, Interp.run (extB_ops expf tanhf) gsa_check_input (forward_vars_v (VDict d) (enc_q q) (enc_q k) (enc_q v) (enc_b mt))
             = Ok VNone st.
Proof.
  intros Hd Hq Hk Hrq Hrv Hsq Hsk Hdim Hu Hsu Hes Hms Hps.
  unfold Interp.run, gsa_check_input, forward_vars_v, globals20.
  set (kr := List.length (shp k)) in *.
  assert (B1 : (Z.of_nat (List.length (shp q)) =? Z.of_nat kr - 1)%Z = true) by lia.
  assert (B2 : (Z.of_nat kr =? Z.of_nat (List.length (shp v)))%Z = true) by lia.
  assert (B3 : (Z.of_nat kr - 2 <? dim)%Z = false) by lia.
  assert (B4 : (Z.of_nat kr =? -1)%Z = false) by lia.
  assert (B5 : (dim <? - Z.of_nat kr + 1)%Z = false) by lia.
  cstep. rewrite extB_dim_q. cstep. rewrite extB_dim_q. cstep. fold kr. rewrite B1. cstep.
  rewrite extB_dim_q. cstep. rewrite B2. cstep.
  rewrite extB_shape_q. cstep. rewrite (subscript_last _ _ _ _ Hsq). cstep. rewrite Hq. cstep.
  rewrite Z.eqb_refl. cstep.
  rewrite extB_shape_q. cstep. rewrite (subscript_last _ _ _ _ Hsk). cstep. rewrite Hk. cstep.
  rewrite Z.eqb_refl. cstep.
  rewrite Hd. cstep. rewrite B3. cstep. rewrite B4. cstep. rewrite Hd. cstep. rewrite B5. cstep.
  rewrite Hd. cstep. rewrite extB_unsqueeze, Hu. cstep. rewrite extB_shape_q. cstep. rewrite subscript_slice, extB_shape_init. cstep.
  rewrite extB_shape_q. cstep. rewrite subscript_slice, extB_shape_init. cstep.
  rewrite extB_bshapes, (bshapes_init _ _ _ _ _ _ _ Hsu Hsk Hes). cstep.
  cstep.
  rewrite extB_shape_b. cstep. rewrite extB_bshapes, (bshapes_rev _ _ _ Hms). cstep.
  rewrite binop_add_shape, extB_shape_snoc. cstep. rewrite extB_shape_q. cstep.
  rewrite extB_bshapes, (bshapes_snoc _ _ _ Hps). cstep.
  eexists. reflexivity.
Qed.
