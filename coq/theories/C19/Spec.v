(* C19 - declarative reading of the property, independent of how the estimators work.

   "the average over the whole sample space of the value returned by the estimator - and of its
    gradient - equals the exact expectation and its exact gradient":

     space_average q N G  =  sum over all N-tuples t of outcomes of  (prod_n q(t_n)) * G(t)     (a dual)
     exact p f            =  (sum_b p(b) f(b),  sum_b dp(b) f(b) + p(b) df(b))                   (a dual)

   [unbiased_okb] evaluates this on IMPLEMENTATION outputs (one dual per sample tuple) with a tolerance;
   it is what the harness uses to judge an implementation that differs from the model. *)
From Coq Require Import List ZArith QArith Qabs Bool.
From PV Require Import C19.Model.
Import ListNotations.
Local Open Scope Q_scope.

(* probability of drawing the tuple t i.i.d. from the table qd *)
Definition weight (qd : ptable) (t : list nat) : Q := Qprod (map (pr qd) t).

Definition space_average (qd : ptable) (N : nat) (G : list nat -> dual) : dual :=
  dsum (map (fun t => dscale (weight qd t) (G t)) (tuples (length qd) N)).

Definition exact (pd : ptable) (f : list dual) : dual := expect_dual pd f.

(* equality of duals up to Qeq *)
Definition deq (a b : dual) : Prop := fst a == fst b /\ snd a == snd b.

(* a table is a differentiable family of probability distributions with full support *)
Definition is_dist (pd : ptable) : Prop :=
  Qsum (map fst pd) == 1 /\ Qsum (map snd pd) == 0 /\ Forall (fun e => 0 < fst e) pd.

(* a table is a differentiable positive density (not necessarily normalised) *)
Definition is_density (pd : ptable) : Prop := Forall (fun e => 0 < fst e) pd.

Definition unbiased (pd qd : ptable) (f : list dual) (N : nat) (G : list nat -> dual) : Prop :=
  deq (space_average qd N G) (exact pd f).

(* the same on a list of implementation outputs in tuple order, with tolerance *)
Definition space_average_list (qd : ptable) (N : nat) (outs : list dual) : dual :=
  dsum (map2 (fun t o => dscale (weight qd t) o) (tuples (length qd) N) outs).

Definition unbiased_okb (tol : Q) (N : nat) (pd qd : ptable) (f : list dual) (outs : list dual) : bool :=
  Nat.eqb (length outs) (length (tuples (length qd) N)) &&
  dclose tol (space_average_list qd N outs) (exact pd f).

(* ------------------------------------------------------------------------------------------ *)
(* fixed-cardinality sampling and support enumeration                                           *)
(* ------------------------------------------------------------------------------------------ *)
Local Open Scope Z_scope.

Definition zsum_s (l : list Z) : Z := fold_right Z.add 0 l.
Definition is_bit (v : Z) : bool := (v =? 0) || (v =? 1).

(* "fixed-cardinality sampling always returns the requested number of ones inside the permitted
    positions": a vector of [out] bits, [given] ones among the first [total], zeros after *)
Definition srswor_ok (total given : Z) (out : nat) (bits : list Z) : Prop :=
  length bits = out /\ Forall (fun v => v = 0 \/ v = 1) bits /\
  zsum_s (firstn (Z.to_nat total) bits) = given /\
  Forall (fun v => v = 0) (skipn (Z.to_nat total) bits).

Definition srswor_okb (total given : Z) (out : nat) (bits : list Z) : bool :=
  Nat.eqb (length bits) out && forallb is_bit bits &&
  (zsum_s (firstn (Z.to_nat total) bits) =? given) &&
  forallb (fun v => v =? 0) (skipn (Z.to_nat total) bits).

(* Pascal's triangle, the reference binomial coefficient *)
Fixpoint choose (n k : nat) : Z :=
  match n, k with
  | _, O => 1
  | O, S _ => 0
  | S n', S k' => choose n' k' + choose n' (S k')
  end.

Definition row_eqb (a b : list Z) : bool :=
  Nat.eqb (length a) (length b) && forallb (fun xy => fst xy =? snd xy) (combine a b).
Fixpoint nodup_rows (l : list (list Z)) : bool :=
  match l with [] => true | r :: t => negb (existsb (row_eqb r) t) && nodup_rows t end.

(* an enumeration of all sequences of [len] symbols below [V]: right count, right shape, in range,
   no repetition (hence, by counting, complete) *)
Definition enum_vocab_okb (len V : Z) (rows : list (list Z)) : bool :=
  (Z.of_nat (length rows) =? V ^ len) &&
  forallb (fun r => (Z.of_nat (length r) =? len) && forallb (fun v => (0 <=? v) && (v <? V)) r) rows &&
  nodup_rows rows.

(* an enumeration of all bit vectors of width [width] with [cnt] ones among the first [len] positions
   and zeros after: right count (Pascal), right shape, no repetition *)
Definition enum_card_okb (len cnt : Z) (width : nat) (rows : list (list Z)) : bool :=
  (Z.of_nat (length rows) =? choose (Z.to_nat len) (Z.to_nat cnt)) &&
  forallb (fun r => srswor_okb len cnt width r) rows &&
  nodup_rows rows.
