(* C10 - statements about the entry points (slice_spect_data, chunk_tokens, chunk_utt), assembled from the
   per-policy developments. *)
From Coq Require Import List ZArith Bool Arith Lia Sorted.
From PV Require Export C10.Model C10.Spec C10.Lists C10.ProofsTokens C10.ProofsFixed C10.ProofsRef
     C10.ProofsAliOps C10.ProofsAliRows C10.ProofsAli C10.ProofsAliSpec C10.ProofsDir.
Import ListNotations.
Local Open Scope Z_scope.

(* ---- slice_spect_data ---- *)
Lemma dispatch : forall v T inp il ol wt vo lobe, (1 <= T)%nat -> 0 <= lobe ->
  slice_spect_data v T inp il ol wt vo lobe
  = match inp with
    | InFixed N => slice_fixed v N (Z.of_nat T) il wt vo lobe
    | InAli rows => slice_ali v T rows il wt vo lobe
    | InRef rows => slice_ref v T rows il ol wt vo lobe
    end.
Proof.
  intros. unfold slice_spect_data. destruct (Nat.eqb_spec T 0); [lia|].
  destruct (Z.ltb_spec lobe 0); [lia|]. reflexivity.
Qed.

Theorem sd_fixed_windows_spec : forall v N T in_lens other_lens wt vo lobe,
  d3 v = false -> (1 <= T)%nat -> 0 <= lobe -> lens_ok N (Z.of_nat T) in_lens ->
  exists out, slice_spect_data v T (InFixed N) in_lens other_lens wt vo lobe = Some out
              /\ fixed_spec N (len_of (Z.of_nat T) in_lens) wt vo lobe out.
Proof. intros. rewrite dispatch by assumption. apply fixed_windows_spec; try assumption. lia. Qed.

Theorem sd_ali_windows_spec : forall v T rows in_lens other_lens wt vo lobe,
  d1 v = false -> d4 v = false -> (1 <= T)%nat -> 0 <= lobe ->
  Forall (fun r => length r = T) rows -> lens_ok (length rows) (Z.of_nat T) in_lens ->
  exists out, slice_spect_data v T (InAli rows) in_lens other_lens wt vo lobe = Some out
              /\ ali_spec rows (len_of (Z.of_nat T) in_lens) wt vo lobe out.
Proof. intros. rewrite dispatch by assumption. now apply ali_windows_spec. Qed.

Theorem sd_ref_windows_spec : forall v T rows in_lens other_lens wt vo lobe,
  d2 v = false -> (1 <= T)%nat -> 0 <= lobe -> ref_lens_ok T rows in_lens other_lens ->
  exists out, slice_spect_data v T (InRef rows) in_lens other_lens wt vo lobe = Some out
              /\ ref_spec rows (ref_len T in_lens) (ref_other T rows in_lens other_lens) wt vo lobe out.
Proof. intros. rewrite dispatch by assumption. now apply ref_windows_spec. Qed.

(* sequences of length 0 have no windows, and the T = 0 early return gives none *)
Theorem fixed_len0_no_windows : forall wt vo lobe out, 0 <= lobe -> fixed_seq_spec wt vo lobe 0 out -> out = [].
Proof.
  intros wt vo lobe out Hl (K & E & H). destruct K as [|K]; [assumption|exfalso].
  pose proof (proj1 (H 0%nat) ltac:(lia)) as Hk. unfold fx_keep, fx_win, fx_mid, inside in Hk.
  pose proof (half_sym lobe Hl) as Hh.
  assert (0 <= (lobe + 1) / 2) by (apply Z.div_pos; lia).
  destruct wt, vo; cbn [fx_off fx_size fst snd] in Hk; rewrite ?Hh in Hk; lia.
Qed.

Theorem empty_input_no_windows : forall v inp il ol wt vo lobe, slice_spect_data v 0 inp il ol wt vo lobe = Some [].
Proof. reflexivity. Qed.

(* with valid_only every returned window lies inside its sequence (non-negative start, end within the length the
   policy is given: in_lens / T for fixed and ali, other_lens for ref) *)
Theorem sd_valid_only_inside : forall v T inp in_lens other_lens wt lobe out w n,
  d1 v = false -> d2 v = false -> d3 v = false -> d4 v = false -> (1 <= T)%nat -> 0 <= lobe ->
  match inp with
  | InFixed N => lens_ok N (Z.of_nat T) in_lens
  | InAli rows => Forall (fun r => length r = T) rows /\ lens_ok (length rows) (Z.of_nat T) in_lens
  | InRef rows => ref_lens_ok T rows in_lens other_lens
  end ->
  slice_spect_data v T inp in_lens other_lens wt true lobe = Some out -> In (w, Z.of_nat n) out ->
  inside (match inp with
          | InRef rows => ref_other T rows in_lens other_lens n
          | _ => len_of (Z.of_nat T) in_lens n
          end) w.
Proof.
  intros v T inp in_lens other_lens wt lobe out w n H1 H2 H3 H4 HT Hl Hok Hs Hin. destruct inp as [N|rows|rows].
  - destruct (sd_fixed_windows_spec v N T in_lens other_lens wt true lobe H3 HT Hl Hok) as (o & Ho & Hsp).
    rewrite Ho in Hs. inversion Hs; subst o. apply (fixed_valid_inside _ _ _ _ _ Hsp _ _ Hin).
  - destruct Hok as [Hr Hok].
    destruct (sd_ali_windows_spec v T rows in_lens other_lens wt true lobe H1 H4 HT Hl Hr Hok) as (o & Ho & Hsp).
    rewrite Ho in Hs. inversion Hs; subst o. destruct (ali_valid_inside _ _ _ _ _ Hl Hsp _ _ Hin) as [Hn Hi].
    pose proof (len_of_range _ _ _ _ Hok Hn). unfold zlen in Hi. rewrite firstn_length in Hi.
    rewrite Forall_forall in Hr. rewrite (Hr (nth n rows [])) in Hi by (apply nth_In; assumption).
    replace (Z.of_nat (Nat.min (Z.to_nat (len_of (Z.of_nat T) in_lens n)) T)) with (len_of (Z.of_nat T) in_lens n) in Hi by lia.
    exact Hi.
  - destruct (sd_ref_windows_spec v T rows in_lens other_lens wt true lobe H2 HT Hl Hok) as (o & Ho & Hsp).
    rewrite Ho in Hs. inversion Hs; subst o. apply (ref_valid_inside _ _ _ _ _ _ Hsp _ _ Hin).
Qed.

(* ---- chunk_tokens ---- *)
Definition tokens_shape_ok (refs : list (list (Z * Z * Z))) (slices : list (Z * Z)) (R : nat) : Prop :=
  Forall (fun r => length r = R) refs /\ length slices = length refs.

Theorem tokens_kept_spec : forall v refs slices ref_lens partial retain R n,
  tokens_shape_ok refs slices R -> (n < length refs)%nat -> (retain = true \/ k1 v = false) ->
  let out := chunk_tokens v refs slices ref_lens partial retain in
  tokens_row_spec partial retain (rowL ref_lens n) (nth n slices (0, 0)) (nth n refs []) (nth n (fst out) [])
  /\ nth n (snd out) 0 = zlen (nth n (fst out) [])
  /\ length (fst out) = length refs /\ length (snd out) = length refs.
Proof.
  intros v refs slices ref_lens partial retain R n [HR Hl] Hn Hv out.
  destruct (chunk_tokens_nth v refs slices ref_lens partial retain R n HR Hl Hn) as (L1 & L2 & E & El).
  fold out in L1, L2, E, El. rewrite E. repeat split; try assumption.
  - now apply row_out_meets_spec.
  - now rewrite <- E.
Qed.

(* whatever the boundary arithmetic: the kept tokens are the spec's, in the order of the source *)
Theorem tokens_order_preserved : forall v refs slices ref_lens partial retain R n,
  tokens_shape_ok refs slices R -> (n < length refs)%nat ->
  let out := chunk_tokens v refs slices ref_lens partial retain in
  subseq (map tk_tok (nth n (fst out) [])) (map tk_tok (nth n refs []))
  /\ map tk_tok (nth n (fst out) []) = map tk_tok (nth n (fst (chunk_tokens repaired refs slices ref_lens partial retain)) []).
Proof.
  intros v refs slices ref_lens partial retain R n [HR Hl] Hn out.
  destruct (chunk_tokens_nth v refs slices ref_lens partial retain R n HR Hl Hn) as (_ & _ & E & _).
  destruct (chunk_tokens_nth repaired refs slices ref_lens partial retain R n HR Hl Hn) as (_ & _ & E' & _).
  fold out in E. rewrite E, E'. split; [apply row_out_tok_subseq|].
  unfold row_out. rewrite !map_map. apply map_ext. intros [[t s] e]. unfold shift_of, shift_tok. destruct retain; reflexivity.
Qed.

Theorem retain_keeps_boundaries : forall v refs slices ref_lens partial R n,
  tokens_shape_ok refs slices R -> (n < length refs)%nat ->
  subseq (nth n (fst (chunk_tokens v refs slices ref_lens partial true)) []) (nth n refs []).
Proof.
  intros v refs slices ref_lens partial R n [HR Hl] Hn.
  destruct (chunk_tokens_nth v refs slices ref_lens partial true R n HR Hl Hn) as (_ & _ & E & _).
  rewrite E. apply row_out_subseq.
Qed.

Theorem relative_boundaries_characterised : forall v refs slices ref_lens partial R n,
  tokens_shape_ok refs slices R -> (n < length refs)%nat -> k1 v = true ->
  nth n (fst (chunk_tokens v refs slices ref_lens partial false)) []
  = map (fun x => (tk_tok x, tk_start x + 2 * fst (nth n slices (0, 0)), tk_end x + 2 * fst (nth n slices (0, 0))))
        (nth n (fst (chunk_tokens repaired refs slices ref_lens partial false)) [])
  /\ snd (chunk_tokens v refs slices ref_lens partial false) = snd (chunk_tokens repaired refs slices ref_lens partial false).
Proof.
  intros v refs slices ref_lens partial R n [HR Hl] Hn Hv.
  destruct (chunk_tokens_nth v refs slices ref_lens partial false R n HR Hl Hn) as (_ & _ & E & _).
  destruct (chunk_tokens_nth repaired refs slices ref_lens partial false R n HR Hl Hn) as (_ & _ & E' & _).
  rewrite E, E'. split; [now apply row_out_as_coded|].
  now rewrite !(chunk_tokens_rows _ refs slices ref_lens partial false R HR Hl).
Qed.

Theorem relative_boundaries_refuted :
  exists refs slices,
    tokens_shape_ok refs slices 1
    /\ fst (chunk_tokens as_coded refs slices None false false) = [[(8, 4, 7)]]
    /\ ~ tokens_row_spec false false None (nth 0 slices (0, 0)) (nth 0 refs []) [(8, 4, 7)]
    /\ tokens_row_spec false false None (nth 0 slices (0, 0)) (nth 0 refs []) [(8, 0, 3)].
Proof.
  exists [[(8, 2, 5)]], [(2, 9)].
  assert (Hs : tokens_row_spec false false None (2, 9) [(8, 2, 5)] [(8, 0, 3)])
    by exact (row_out_meets_spec repaired false false None (2, 9) [(8, 2, 5)] (or_intror eq_refl)).
  split; [split; [repeat constructor|reflexivity]|]. split; [reflexivity|]. split; [|exact Hs].
  intros H. pose proof (selects_unique _ _ _ _ _ _ _ _ H Hs). discriminate.
Qed.
