(* C11 source tie - transcript_to_token, the time conversion: the `try: ... except TypeError: pass` statement of the loop
   body ([try_tie]).  For a plain token (an int: len() raises TypeError, caught; a str: len(token) == 3 may hold, then
   np.isreal(token[1]) is False) start and end stay -1; for a (token, start, end) triple they become Model.frames_of
   (floor / round-half-up / max(+1) with a frame shift, int() without).  The variables the statement assigns live in an
   ARBITRARY tail [rest] of the variable list (nothing is assumed about which temporaries already exist): lookups in it
   are resolved by rewriting, the persistent variables are a concrete prefix ([kbase]). *)
From Coq Require Import ZArith QArith Qround List String Ascii Bool Lia.
From PV Require C11.Spec.
From PV Require Import C11.Model MiniPy.Syntax MiniPy.Interp MiniPy.Lemmas MiniTorch.OpsC11 Gen.C11Src C11.SrcRun C11.TieBase.
Import ListNotations.
Local Open Scope string_scope.

#[local] Arguments Qred : simpl never.
#[local] Arguments Qmult : simpl never.
#[local] Arguments Qplus : simpl never.
#[local] Arguments Qdiv : simpl never.
#[local] Arguments Qeq_bool : simpl never.
#[local] Arguments Qcompare : simpl never.
#[local] Arguments inject_Z : simpl never.
#[local] Arguments Z.of_nat : simpl never.
#[local] Arguments floordiv : simpl never.
#[local] Arguments qtrunc : simpl never.

Ltac zofnat := repeat match goal with
  | |- context [Z.of_nat 0] => change (Z.of_nat 0) with 0%Z
  | |- context [Z.of_nat 1] => change (Z.of_nat 1) with 1%Z
  | |- context [Z.of_nat 2] => change (Z.of_nat 2) with 2%Z
  | |- context [Z.of_nat 3] => change (Z.of_nat 3) with 3%Z
  end.
Ltac lk := repeat (rewrite lookup_update_eq || rewrite lookup_update_neq by reflexivity).
Ltac posnat := repeat match goal with |- context [Pos.to_nat ?p] =>
  let v := eval compute in (Pos.to_nat p) in change (Pos.to_nat p) with v end.
Ltac norm_with tac := repeat (progress (cbn; zofnat; lk; posnat; tac)).
Ltac norm := norm_with idtac.

Definition tk_body : stmt :=
  match src_to_token with SSeq _ (SSeq _ (SSeq _ (SSeq _ (SSeq (SFor _ _ b) _)))) => b | _ => SPass end.
Definition tk_try : stmt :=
  match tk_body with SSeq _ (SSeq _ (SSeq _ (SSeq t _))) => t | _ => SPass end.

Definition kbase (TR T2I FS UNK : val) (skip : bool) (SZ TOK : val) : list (string * val) :=
  [("transcript", TR); ("token2id", T2I); ("frame_shift_ms", FS); ("unk", UNK); ("skip_frame_times", VBool skip);
   ("torch", torch_obj); ("tok_size", SZ); ("tok", TOK)].

Definition fs_ok (fs : option Q) : Prop := match fs with Some d => Qeq_bool d 0 = false | None => True end.

(* the model's (start, end) of an item *)
Definition times_of (fs : option Q) (it : Model.item) : Z * Z :=
  match it with Plain _ => (-1, -1)%Z | Timed _ s e => frames_of fs s e end.

(* ---- numbers ---------------------------------------------------------------------------------------------------------- *)
Lemma qtrunc_inject z : qtrunc (inject_Z z) = z.
Proof.
  unfold qtrunc. destruct (Qlt_le_dec (inject_Z z) 0) as [H|H].
  - change (- inject_Z z)%Q with (inject_Z (- z)). rewrite Qfloor_Z. lia.
  - apply Qfloor_Z.
Qed.

Lemma floordiv_comp p p' d : p == p' -> floordiv p d = floordiv p' d.
Proof. intros H. unfold floordiv. apply Qfloor_comp. rewrite H. reflexivity. Qed.

Lemma floordiv_red p d : floordiv (Qred p) d = floordiv p d.
Proof. apply floordiv_comp. apply Qred_correct. Qed.

Lemma floordiv_red_add a b d : floordiv (Qred (Qred a + Qred b)) d = floordiv (a + b) d.
Proof. apply floordiv_comp. rewrite !Qred_correct. reflexivity. Qed.

Lemma gt_inject a b :
  match (inject_Z a ?= inject_Z b)%Q with Datatypes.Gt => true | _ => false end = (b <? a)%Z.
Proof. rewrite Qcompare_inject, <- Z.gtb_ltb. reflexivity. Qed.

Lemma max_pick ef sf : (if (ef <? sf + 1)%Z then (sf + 1)%Z else ef) = Z.max ef (sf + 1).
Proof. destruct (Z.ltb_spec ef (sf + 1)); lia. Qed.

Lemma len4 n : (Z.of_nat (S (S (S (S n)))) =? 3)%Z = false.
Proof. apply Z.eqb_neq. lia. Qed.

Ltac fin Ht Hs He :=
  do 3 eexists; split; [reflexivity|]; repeat split; lk; rewrite ?Ht, ?Hs, ?He; try reflexivity.

Lemma try_tie TR T2I fs UNK skip SZ TOK it rest evs :
  fs_ok fs ->
  lookup "token" rest = Some (enc_item it) ->
  lookup "start" rest = Some (VInt (-1)) -> lookup "end" rest = Some (VInt (-1)) ->
  exists rest' sv ev,
    exec ext11 tk_try (mkState (kbase TR T2I (enc_fs fs) UNK skip SZ TOK ++ rest) evs)
    = Ok CNormal (mkState (kbase TR T2I (enc_fs fs) UNK skip SZ TOK ++ rest') evs) /\
    lookup "token" rest' = Some (enc_tk (C11.Spec.item_tok it)) /\
    lookup "start" rest' = Some sv /\ lookup "end" rest' = Some ev /\
    to_long sv = Some (fst (times_of fs it)) /\ to_long ev = Some (snd (times_of fs it)) /\
    lookup "i" rest' = lookup "i" rest.
Proof.
  intros Hfs Ht Hs He. unfold tk_try, tk_body, src_to_token, kbase.
  destruct it as [t|t s e]; cbn [enc_item C11.Spec.item_tok times_of] in *.
  - (* a plain token *)
    destruct t as [z|str0]; cbn [enc_tk] in *.
    + norm_with ltac:(rewrite ?Ht). fin Ht Hs He.
    + unfold enc_str in Ht. destruct str0 as [|a [|b [|c [|d0 s']]]]; cbn [map] in Ht.
      all: norm_with ltac:(rewrite ?Ht, ?len4); fin Ht Hs He.
  - (* (token, start, end) *)
    destruct fs as [d|]; unfold enc_fs, fs_ok in *.
    + destruct t as [z|str0]; cbn [enc_tk] in *.
      all: norm_with ltac:(rewrite ?Ht, ?Hfs).
      all: unfold frames_of; destruct (Qeq_bool s e) eqn:Ese; norm_with ltac:(rewrite ?Ht, ?Hfs).
      all: rewrite ?Qred_inject_add, ?gt_inject; norm_with ltac:(rewrite ?Ht, ?Hfs).
      all: fin Ht Hs He.
      all: try (cbn [to_long]; rewrite qtrunc_inject, floordiv_red; reflexivity).
      all: match goal with |- context [if ?c then _ else _] => destruct c eqn:Ec end; cbn [to_long];
           rewrite qtrunc_inject; rewrite ?floordiv_red_add, ?floordiv_red in *; f_equal;
           [apply Z.ltb_lt in Ec|apply Z.ltb_ge in Ec]; change (inject_Z 1000) with (1000 # 1) in *; lia.
    + destruct t as [z|str0]; cbn [enc_tk] in *.
      all: norm_with ltac:(rewrite ?Ht). all: fin Ht Hs He.
Qed.
