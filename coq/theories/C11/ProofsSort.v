(* C11 - generic lemmas: three-way comparisons, the stable insertion sort [sort_by], chunking. *)
From Coq Require Import List ZArith Bool Lia Permutation Sorted.
From PV Require Import C11.Model.
Import ListNotations.
Local Open Scope Z_scope.

(* ---------- comparisons ------------------------------------------------------------------ *)

Record good {A} (cmp : A -> A -> comparison) : Prop := mkGood
  { g_eq : forall a b, cmp a b = Eq <-> a = b;
    g_opp : forall a b, cmp b a = CompOpp (cmp a b);
    g_trans : forall a b c, cmp a b = Lt -> cmp b c = Lt -> cmp a c = Lt }.

Lemma good_Z : good Z.compare.
Proof.
  split.
  - intros a b. apply Z.compare_eq_iff.
  - intros a b. apply Z.compare_antisym.
  - intros a b c H1 H2. rewrite Z.compare_lt_iff in *. lia.
Qed.

Lemma good_pair {A B} (ca : A -> A -> comparison) (cb : B -> B -> comparison) :
  good ca -> good cb -> good (pair_cmp ca cb).
Proof.
  intros [ea oa ta] [eb ob tb]. split.
  - intros [a1 b1] [a2 b2]. unfold pair_cmp, lexc; cbn [fst snd]. split.
    + destruct (ca a1 a2) eqn:E; try discriminate. intros H. apply ea in E. apply eb in H. subst. reflexivity.
    + intros H. inversion H. subst. rewrite (proj2 (ea a2 a2) eq_refl). apply eb. reflexivity.
  - intros [a1 b1] [a2 b2]. unfold pair_cmp, lexc; cbn [fst snd]. rewrite oa.
    destruct (ca a1 a2); cbn; [apply ob|reflexivity|reflexivity].
  - intros [a1 b1] [a2 b2] [a3 b3]. unfold pair_cmp, lexc; cbn [fst snd].
    destruct (ca a1 a2) eqn:E1; try discriminate; destruct (ca a2 a3) eqn:E2; try discriminate; intros H1 H2.
    + apply ea in E1. apply ea in E2. subst. rewrite (proj2 (ea a3 a3) eq_refl). eapply tb; eassumption.
    + apply ea in E1. subst. rewrite E2. reflexivity.
    + apply ea in E2. subst. rewrite E1. reflexivity.
    + rewrite (ta _ _ _ E1 E2). reflexivity.
Qed.

Lemma good_str : good str_cmp.
Proof.
  split.
  - induction a as [|x a IH]; destruct b as [|y b]; cbn [str_cmp]; try (split; intros H; (discriminate || reflexivity)).
    unfold lexc. split.
    + destruct (x ?= y) eqn:E; try discriminate. intros H. apply Z.compare_eq in E. apply IH in H. subst. reflexivity.
    + intros H. inversion H. subst. rewrite Z.compare_refl. apply IH. reflexivity.
  - induction a as [|x a IH]; destruct b as [|y b]; cbn [str_cmp]; try reflexivity.
    unfold lexc. rewrite (Z.compare_antisym x y). destruct (x ?= y); cbn; [apply IH|reflexivity|reflexivity].
  - induction a as [|x a IH]; destruct b as [|y b]; destruct c as [|z c]; cbn [str_cmp]; try discriminate; try reflexivity.
    unfold lexc.
    destruct (x ?= y) eqn:E1; try discriminate; destruct (y ?= z) eqn:E2; try discriminate; intros H1 H2.
    + apply Z.compare_eq in E1. apply Z.compare_eq in E2. subst. rewrite Z.compare_refl. eapply IH; eassumption.
    + apply Z.compare_eq in E1. subst. rewrite E2. reflexivity.
    + apply Z.compare_eq in E2. subst. rewrite E1. reflexivity.
    + rewrite Z.compare_lt_iff in *. assert (x < z) by lia. rewrite (proj2 (Z.compare_lt_iff x z)); [reflexivity|assumption].
Qed.

Lemma good_inj {A B} (g : A -> B) (cmp : B -> B -> comparison) :
  good cmp -> (forall a b, g a = g b -> a = b) -> good (fun a b => cmp (g a) (g b)).
Proof.
  intros [e o t] Hinj. split.
  - intros a b. rewrite e. split; [apply Hinj|intros; subst; reflexivity].
  - intros a b. apply o.
  - intros a b c. apply t.
Qed.

Section Order.
  Context {A : Type} (cmp : A -> A -> comparison) (G : good cmp).
  Let le a b := leb_of cmp a b = true.

  Lemma le_refl a : le a a.
  Proof. unfold le, leb_of. rewrite (proj2 (g_eq cmp G a a) eq_refl). reflexivity. Qed.

  Lemma le_total a b : le a b \/ le b a.
  Proof.
    unfold le, leb_of. rewrite (g_opp cmp G a b). destruct (cmp a b); cbn; auto.
  Qed.

  Lemma le_antisym a b : le a b -> le b a -> a = b.
  Proof.
    unfold le, leb_of. rewrite (g_opp cmp G a b). destruct (cmp a b) eqn:E; cbn; try discriminate.
    intros _ _. apply (g_eq cmp G). exact E.
  Qed.

  Lemma le_trans a b c : le a b -> le b c -> le a c.
  Proof.
    unfold le, leb_of. intros H1 H2.
    destruct (cmp a b) eqn:E1; try discriminate; destruct (cmp b c) eqn:E2; try discriminate.
    - apply (g_eq cmp G) in E1. apply (g_eq cmp G) in E2. subst. rewrite (proj2 (g_eq cmp G c c) eq_refl). reflexivity.
    - apply (g_eq cmp G) in E1. subst. rewrite E2. reflexivity.
    - apply (g_eq cmp G) in E2. subst. rewrite E1. reflexivity.
    - rewrite (g_trans cmp G _ _ _ E1 E2). reflexivity.
  Qed.

  Lemma not_le a b : leb_of cmp a b = false -> le b a.
  Proof. intros H. destruct (le_total a b) as [H'|H']; [unfold le in H'; congruence|exact H']. Qed.
End Order.

(* ---------- sort_by ---------------------------------------------------------------------- *)

Section Sort.
  Context {A : Type} (leb : A -> A -> bool).
  Let le a b := leb a b = true.

  Lemma insert_perm x l : Permutation (x :: l) (insert_by leb x l).
  Proof.
    induction l as [|y t IH]; cbn [insert_by]; [apply Permutation_refl|].
    destruct (leb y x); [|apply Permutation_refl].
    eapply Permutation_trans; [apply perm_swap|]. apply perm_skip. exact IH.
  Qed.

  Lemma fold_insert_perm l : forall acc,
    Permutation (acc ++ l) (fold_left (fun acc x => insert_by leb x acc) l acc).
  Proof.
    induction l as [|x l IH]; intros acc; cbn [fold_left].
    - rewrite app_nil_r. apply Permutation_refl.
    - eapply Permutation_trans; [|apply IH].
      eapply Permutation_trans; [apply Permutation_sym, Permutation_middle|].
      change (x :: acc ++ l) with ((x :: acc) ++ l). apply Permutation_app_tail. apply insert_perm.
  Qed.

  Lemma sort_by_perm l : Permutation l (sort_by leb l).
  Proof. exact (fold_insert_perm l []). Qed.

  (* inserting something that is >= everything already there appends it *)
  Lemma insert_last x l : Forall (fun y => le y x) l -> insert_by leb x l = l ++ [x].
  Proof.
    induction 1 as [|y t Hy _ IH]; cbn [insert_by app]; [reflexivity|].
    unfold le in Hy. rewrite Hy, IH. reflexivity.
  Qed.

  (* a list that is already in order is left alone (this is the stability that matters here) *)
  Lemma fold_insert_sorted l : forall acc, StronglySorted le (acc ++ l) ->
    fold_left (fun acc x => insert_by leb x acc) l acc = acc ++ l.
  Proof.
    induction l as [|x l IH]; intros acc H; cbn [fold_left]; [rewrite app_nil_r; reflexivity|].
    assert (Hx : Forall (fun y => le y x) acc).
    { clear IH. induction acc as [|a acc IHa]; [constructor|].
      cbn [app] in H. inversion H as [|? ? Hs Hf]; subst. constructor.
      - rewrite Forall_forall in Hf. apply Hf. apply in_or_app. right. left. reflexivity.
      - apply IHa. exact Hs. }
    rewrite (insert_last x acc Hx). rewrite IH; rewrite <- app_assoc; [reflexivity|exact H].
  Qed.

  Lemma sort_by_sorted l : StronglySorted le l -> sort_by leb l = l.
  Proof. intros H. exact (fold_insert_sorted l [] H). Qed.
End Sort.

Section SortOrder.
  Context {A : Type} (leb : A -> A -> bool).
  Let le a b := leb a b = true.
  Hypothesis Htot : forall a b, le a b \/ le b a.
  Hypothesis Htr : forall a b c, le a b -> le b c -> le a c.

  Lemma insert_sorted x l : StronglySorted le l -> StronglySorted le (insert_by leb x l).
  Proof.
    induction 1 as [|y t Hs IH Hf]; cbn [insert_by]; [repeat constructor|].
    destruct (leb y x) eqn:E.
    - constructor; [exact IH|].
      rewrite Forall_forall. intros z Hz.
      apply (Permutation_in _ (Permutation_sym (insert_perm leb x t))) in Hz. destruct Hz as [Hz|Hz].
      + subst z. exact E.
      + rewrite Forall_forall in Hf. apply Hf. exact Hz.
    - assert (Hxy : le x y) by (destruct (Htot x y) as [H|H]; [exact H|unfold le in H; congruence]).
      constructor; [constructor; assumption|].
      constructor; [exact Hxy|].
      rewrite Forall_forall in *. intros z Hz. apply (Htr x y z Hxy). apply Hf. exact Hz.
  Qed.

  Lemma fold_insert_sorted' l : forall acc, StronglySorted le acc ->
    StronglySorted le (fold_left (fun acc x => insert_by leb x acc) l acc).
  Proof.
    induction l as [|x l IH]; intros acc H; cbn [fold_left]; [exact H|].
    apply IH. apply insert_sorted. exact H.
  Qed.

  Lemma sort_by_is_sorted l : StronglySorted le (sort_by leb l).
  Proof. apply fold_insert_sorted'. constructor. Qed.

  Hypothesis Hanti : forall a b, le a b -> le b a -> a = b.

  (* a total antisymmetric order has one sorted arrangement of a multiset *)
  Lemma sorted_perm_unique l1 : forall l2,
    Permutation l1 l2 -> StronglySorted le l1 -> StronglySorted le l2 -> l1 = l2.
  Proof.
    induction l1 as [|a l1 IH]; intros l2 Hp H1 H2.
    - apply Permutation_nil in Hp. subst. reflexivity.
    - destruct l2 as [|b l2]; [apply Permutation_sym, Permutation_nil in Hp; discriminate|].
      inversion H1 as [|? ? Hs1 Hf1]; subst. inversion H2 as [|? ? Hs2 Hf2]; subst.
      assert (Hab : a = b).
      { rewrite Forall_forall in Hf1, Hf2.
        assert (Hb : In b (a :: l1)) by (apply (Permutation_in _ (Permutation_sym Hp)); left; reflexivity).
        assert (Ha : In a (b :: l2)) by (apply (Permutation_in _ Hp); left; reflexivity).
        destruct Hb as [Hb|Hb]; [exact Hb|]. destruct Ha as [Ha|Ha]; [symmetry; exact Ha|].
        apply Hanti; [apply Hf1; exact Hb|apply Hf2; exact Ha]. }
      subst b. f_equal. apply IH; [|assumption|assumption].
      apply Permutation_cons_inv in Hp. exact Hp.
  Qed.

  Lemma sort_by_unique l l' : Permutation l l' -> StronglySorted le l' -> sort_by leb l = l'.
  Proof.
    intros Hp Hs. apply sorted_perm_unique.
    - eapply Permutation_trans; [apply Permutation_sym, sort_by_perm|exact Hp].
    - apply sort_by_is_sorted.
    - exact Hs.
  Qed.
End SortOrder.

(* ---------- chunking, imap ------------------------------------------------------------------ *)

Lemma chunks_fuel_concat {A} : forall fuel k (l : list A), (1 <= k)%nat -> (length l <= fuel)%nat ->
  concat (chunks_fuel fuel k l) = l.
Proof.
  induction fuel as [|fuel IH]; intros k l Hk Hl.
  - destruct l; [reflexivity|cbn in Hl; lia].
  - cbn [chunks_fuel]. destruct l as [|x l]; [reflexivity|].
    cbn [concat]. rewrite IH.
    + apply firstn_skipn.
    + exact Hk.
    + rewrite skipn_length. cbn [length] in *. lia.
Qed.

Lemma chunks_concat {A} k (l : list A) : concat (chunks k l) = l.
Proof. unfold chunks. apply chunks_fuel_concat; lia. Qed.

Lemma chunks_fuel_length {A} : forall fuel k (l : list A), (length (chunks_fuel fuel k l) <= fuel)%nat.
Proof.
  induction fuel as [|fuel IH]; intros k l; cbn [chunks_fuel]; [cbn; lia|].
  destruct l; cbn [length]; [lia|]. specialize (IH k (skipn k (a :: l))). lia.
Qed.

Lemma chunks_length {A} k (l : list A) : (length (chunks k l) <= length l)%nat.
Proof. apply chunks_fuel_length. Qed.

Lemma lookup_map {B} (g : nat -> B) sched i : In i sched ->
  lookup_nat i (map (fun j => (j, g j)) sched) = Some (g i).
Proof.
  induction sched as [|j t IH]; intros H; [destruct H|]. cbn [map lookup_nat].
  destruct (Nat.eqb i j) eqn:E.
  - apply Nat.eqb_eq in E. subst. reflexivity.
  - destruct H as [H|H]; [subst; rewrite Nat.eqb_refl in E; discriminate|]. apply IH. exact H.
Qed.

Lemma map_nth_seq {A B} (g : A -> B) (d : A) (l : list A) :
  map (fun i => g (nth i l d)) (seq 0 (length l)) = map g l.
Proof.
  induction l as [|x l IH]; [reflexivity|]. cbn [length seq map nth]. f_equal.
  rewrite <- seq_shift, map_map. exact IH.
Qed.

(* whatever the completion order, as long as every chunk is completed *)
Lemma imap_eq_map {A B} (f : A -> B) sched k (l : list A) :
  (forall i, (i < length l)%nat -> In i sched) -> imap f sched k l = map f l.
Proof.
  intros H. unfold imap.
  set (cs := chunks k l).
  assert (Hm : map (fun i => match lookup_nat i (map (fun i0 => (i0, map f (nth i0 cs []))) sched) with
                             | Some r => r | None => [] end) (seq 0 (length cs))
               = map (fun i => map f (nth i cs [])) (seq 0 (length cs))).
  { apply map_ext_in. intros i Hi. apply in_seq in Hi.
    rewrite (lookup_map (fun j => map f (nth j cs [])) sched i); [reflexivity|].
    apply H. pose proof (chunks_length k l). fold cs in H0. lia. }
  rewrite Hm. rewrite (map_nth_seq (map f) [] cs). rewrite <- concat_map. unfold cs. rewrite chunks_concat. reflexivity.
Qed.
