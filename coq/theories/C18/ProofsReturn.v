(* C18 — time_distributed_return: the triangular discount matrix product satisfies
   R_t = r_t + gamma * R_(t+1), R beyond the horizon = 0, for both layouts and every gamma. *)
From Coq Require Import List ZArith QArith Qabs Bool Arith Lia.
From PV Require Import C18.Model C18.Spec C18.QLemmas C18.Tensor.
Import ListNotations.
Local Open Scope Q_scope.

Definition disc (g : Q) (t k : nat) : Q := if (t <=? k)%nat then qpow g (k - t) else 0.

(* the entry of the product: sum_k gamma^(k-t) [t <= k] r_k *)
Definition ret_sum (g : Q) (rk : nat -> Q) (T t : nat) : Q :=
  Qsum (map (fun k => disc g t k * rk k) (seq 0 T)).

Lemma get_disc_triu : forall g T i j, (i < T)%nat -> (j < T)%nat -> get (disc_triu g T) [i; j] = disc g i j.
Proof. intros. unfold disc_triu. rewrite get_tabulate by now apply valid2. reflexivity. Qed.

Lemma get_disc_tril : forall g T i j, (i < T)%nat -> (j < T)%nat -> get (disc_tril g T) [i; j] = disc g j i.
Proof. intros. unfold disc_tril. rewrite get_tabulate by now apply valid2. reflexivity. Qed.

Lemma get_matmul : forall a b i j, (i < nth 0 (shape a) 0)%nat -> (j < nth 1 (shape b) 0)%nat ->
  get (matmul a b) [i; j] =
  qsum (map (fun k => get a [i; k] * get b [k; j]) (seq 0 (nth 1 (shape a) 0%nat))).
Proof. intros. unfold matmul. rewrite get_tabulate by now apply valid2. reflexivity. Qed.

Lemma disc_step : forall g t k,
  disc g t k == (if (k =? t)%nat then 1 else 0) + g * disc g (S t) k.
Proof.
  intros g t k. unfold disc.
  destruct (Nat.leb_spec t k) as [H|H]; destruct (Nat.leb_spec (S t) k) as [H'|H'];
    destruct (Nat.eqb_spec k t) as [E|E]; try lia.
  - replace (k - t)%nat with (S (k - S t)) by lia. cbn [qpow]. rewrite Qred_correct. ring.
  - subst. rewrite Nat.sub_diag. cbn [qpow]. ring.
  - ring.
Qed.

Lemma ret_sum_rec : forall g rk T t, (t < T)%nat ->
  ret_sum g rk T t == rk t + g * ret_sum g rk T (S t).
Proof.
  intros g rk T t Ht. unfold ret_sum.
  rewrite (Qsum_map_ext _ (fun k => (if (k =? t)%nat then rk k else 0) + (disc g (S t) k * rk k) * g)).
  - rewrite Qsum_map_plus, Qsum_map_scal, Qsum_single_nat by assumption. ring.
  - intros k. rewrite disc_step. destruct (k =? t)%nat; ring.
Qed.

Lemma ret_sum_end : forall g rk T t, (T <= t)%nat -> ret_sum g rk T t == 0.
Proof.
  intros g rk T t Ht. unfold ret_sum. apply Qsum_map_zero.
  intros k Hk. apply in_seq in Hk. unfold disc.
  destruct (Nat.leb_spec t k); [lia|ring].
Qed.

Lemma return_entries : forall r g (bf : bool) T N out,
  shape r = (if bf then [N; T] else [T; N]) -> Qeq_bool g 0 = false ->
  time_distributed_return r g bf = Ok out ->
  shape out = shape r /\
  forall t n, (t < T)%nat -> (n < N)%nat -> at2 bf out t n == ret_sum g (fun k => at2 bf r k n) T t.
Proof.
  intros r g bf T N out Hsh Hg H. unfold time_distributed_return in H.
  rewrite Hsh, Hg in H. destruct bf; cbn in H; inversion H; subst out; clear H.
  - split; [unfold matmul, tabulate; cbn [shape]; rewrite Hsh; reflexivity|]. intros t n Ht Hn. unfold at2. cbv iota.
    rewrite get_matmul by (rewrite ?Hsh; cbn; lia).
    rewrite qsum_Qsum, Hsh. cbn [nth]. unfold ret_sum.
    apply Qsum_map_ext_in. intros k Hk. apply in_seq in Hk.
    rewrite get_disc_tril by lia. ring.
  - split; [unfold matmul, tabulate; cbn [shape]; rewrite Hsh; reflexivity|]. intros t n Ht Hn. unfold at2. cbv iota.
    rewrite get_matmul by (rewrite ?Hsh; cbn; lia).
    rewrite qsum_Qsum. cbn [nth shape disc_triu tabulate]. unfold ret_sum.
    apply Qsum_map_ext_in. intros k Hk. apply in_seq in Hk.
    rewrite get_disc_triu by lia. ring.
Qed.

Lemma return_recursion : forall r g (bf : bool) T N out,
  shape r = (if bf then [N; T] else [T; N]) ->
  time_distributed_return r g bf = Ok out ->
  shape out = shape r /\
  forall t n, (t < T)%nat -> (n < N)%nat ->
    at2 bf out t n == at2 bf r t n + g * (if (S t <? T)%nat then at2 bf out (S t) n else 0).
Proof.
  intros r g bf T N out Hsh H.
  destruct (Qeq_bool g 0) eqn:Hg.
  - apply Qeq_bool_iff in Hg. unfold time_distributed_return in H.
    rewrite Hsh in H. replace (Qeq_bool g 0) with true in H by (symmetry; now apply Qeq_bool_iff).
    assert (out = r) by (destruct bf; cbn in H; now inversion H). subst out.
    split; [reflexivity|]. intros t n _ _. rewrite Hg. ring.
  - destruct (return_entries r g bf T N out Hsh Hg H) as [Hs He]. split; [assumption|].
    intros t n Ht Hn. rewrite He by assumption. rewrite ret_sum_rec by assumption.
    destruct (Nat.ltb_spec (S t) T) as [H'|H'].
    + rewrite He by assumption. reflexivity.
    + rewrite ret_sum_end by lia. reflexivity.
Qed.

(* ------------------------------------------------------------------------------ *)
(* any solution of the recursion is the declarative return [ret_rec]              *)
(* ------------------------------------------------------------------------------ *)
Lemma ret_rec_cons : forall g r rs, ret_rec g (r :: rs) = (r + g * hd 0 (ret_rec g rs)) :: ret_rec g rs.
Proof. reflexivity. Qed.

Lemma hd_nth0 : forall (l : list Q), hd 0 l = nth 0 l 0.
Proof. destruct l; reflexivity. Qed.

Lemma length_ret_rec : forall g rs, length (ret_rec g rs) = length rs.
Proof. induction rs as [|r rs IH]; [reflexivity|]. rewrite ret_rec_cons. cbn [length]. now rewrite IH. Qed.

Lemma recursion_unique : forall g (rf R : nat -> Q) T,
  (forall t, (t < T)%nat -> R t == rf t + g * (if (S t <? T)%nat then R (S t) else 0)) ->
  forall len s, (s + len = T)%nat -> forall t, (t < len)%nat ->
    nth t (ret_rec g (map rf (seq s len))) 0 == R (s + t)%nat.
Proof.
  intros g rf R T HR. induction len as [|len IH]; intros s Hs t Ht; [lia|].
  cbn [seq map]. rewrite ret_rec_cons. destruct t as [|t].
  - cbn [nth]. rewrite Nat.add_0_r, (HR s) by lia. rewrite hd_nth0.
    destruct (Nat.ltb_spec (S s) T) as [H'|H'].
    + rewrite (IH (S s)) by lia. rewrite Nat.add_0_r. reflexivity.
    + assert (len = 0)%nat by lia. subst len. cbn. reflexivity.
  - cbn [nth]. rewrite (IH (S s)) by lia. replace (S s + t)%nat with (s + S t)%nat by lia. reflexivity.
Qed.

Lemma return_eq_spec : forall r g (bf : bool) T N out,
  shape r = (if bf then [N; T] else [T; N]) ->
  time_distributed_return r g bf = Ok out ->
  forall t n, (t < T)%nat -> (n < N)%nat ->
    at2 bf out t n == nth t (ret_rec g (map (fun k => at2 bf r k n) (seq 0 T))) 0.
Proof.
  intros r g bf T N out Hsh H t n Ht Hn.
  destruct (return_recursion r g bf T N out Hsh H) as [_ Hrec].
  symmetry.
  apply (recursion_unique g (fun k => at2 bf r k n) (fun k => at2 bf out k n) T); try lia.
  intros t' Ht'. now apply Hrec.
Qed.

(* outcomes: only the number of dimensions matters *)
Lemma return_error_iff : forall r g bf,
  time_distributed_return r g bf = Err ERuntime <-> length (shape r) <> 2%nat.
Proof.
  intros r g bf. unfold time_distributed_return.
  destruct (Nat.eqb_spec (length (shape r)) 2) as [E|E]; cbn [negb].
  - split; [|contradiction]. destruct (Qeq_bool g 0); [discriminate|]. destruct bf; discriminate.
  - split; auto.
Qed.
