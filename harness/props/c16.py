"""C16 — crash safety of TrainingStateController.update_for_epoch.

Correspondence between /repo's controller (run with os.replace / os.remove / torch.save /
tempfile.NamedTemporaryFile / the CSV append patched to count file-system calls and to kill
the "process" after k of them) and PV.C16.Model.run; every implementation observation is
also judged by PV.C16.Spec.spec_parts (the property read on observations alone).
"""
import builtins
import itertools
import json
import os
import re
import shutil
import tempfile
import warnings
from unittest import mock

import torch

torch.set_num_threads(1)

from vlib import CoqError, cb, cl, cn, co, cp, cz, coq_eval_bools, coq_eval_print, exc_kind, load_corpus, shrink

IMPORTS = "From PV Require Import C16.Model C16.Spec.\n"

# name -> (saved_model_fmt, saved_optimizer_fmt, model has {epoch}, optimizer has {epoch})
FMTS = {
    "ep": ("model_{epoch:03d}.pt", "optim_{epoch:03d}.pt", True, True),   # the defaults
    "e2": ("m-{epoch}.pt", "o-{epoch}.pt", True, True),
    "no": ("model.pt", "optim.pt", False, False),
    "mo": ("model_{epoch}.pt", "optim.pt", True, False),
    "om": ("model.pt", "optim_{epoch:02d}.pt", False, True),
}
PARTS = ["hist_prefix", "load_last", "load_best", "final_hist", "dir_has", "dir_only", "load_all"]
SCALE = 4.0  # metrics are k/4: exact under the "{:.4e}" formatting of get_best_epoch


class Crash(BaseException):
    """the process dies here (BaseException: not swallowed by `except OSError`)"""


# ----------------------------------------------------------------------------------------
# implementation side
# ----------------------------------------------------------------------------------------


def _name_re(fmt):
    pat = re.escape(fmt)
    pat = re.sub(r"\\\{epoch[^}]*\\\}", r"(\\d+)", pat)
    return re.compile("^" + pat + "$")


class Names:
    def __init__(self, fmt):
        fm, fo, self.em, self.eo = FMTS[fmt]
        self.rm, self.ro = _name_re(fm), _name_re(fo)

    def parse(self, name):
        """file name -> ("M"|"O", epoch|None) or None for anything else (temporary files)"""
        for k, r, he in (("M", self.rm, self.em), ("O", self.ro, self.eo)):
            m = r.match(name)
            if m:
                return [k, int(m.group(1)) if he else None]
        return None

    def listing(self, d):
        names = sorted(os.listdir(d)) if os.path.isdir(d) else []
        ck = [self.parse(n) for n in names]
        return [c for c in ck if c is not None], sum(1 for c in ck if c is None)


class Injector:
    """counts file-system mutating calls, logs them, raises Crash instead of the k-th"""

    def __init__(self, names, csv_path, crash_at):
        self.names, self.csv, self.crash_at = names, os.path.abspath(csv_path), crash_at
        self.n = 0
        self.cur = None  # log of the current update call

    def tick(self, what):
        if self.cur is None:  # not inside update_for_epoch (lazy imports of torch, ...)
            return
        if self.crash_at is not None and self.n == self.crash_at:
            raise Crash()
        self.n += 1
        self.cur.append(what)

    def __enter__(self):
        inj = self
        r_replace, r_remove, r_save, r_open, r_ntf = os.replace, os.remove, torch.save, builtins.open, tempfile.NamedTemporaryFile

        def replace(src, dst, *a, **k):
            inj.tick(["rep", inj.names.parse(os.path.basename(dst))])
            return r_replace(src, dst, *a, **k)

        def remove(p, *a, **k):
            inj.tick(["rem", inj.names.parse(os.path.basename(p))])
            return r_remove(p, *a, **k)

        def save(obj, f, *a, **k):
            inj.tick(["fill"])
            return r_save(obj, f, *a, **k)

        def ntf(*a, **k):
            inj.tick(["mk"])
            return r_ntf(*a, **k)

        def open_(file, mode="r", *a, **k):
            if isinstance(file, (str, bytes, os.PathLike)) and any(c in mode for c in "wax+"):
                try:
                    same = os.path.abspath(os.fspath(file)) == inj.csv
                except Exception:
                    same = False
                if same:
                    inj.tick(["app"])
                elif not str(file).startswith("/dev/"):
                    inj.tick(["open-write", os.path.basename(str(file))])
            return r_open(file, mode, *a, **k)

        self.ps = [mock.patch.object(os, "replace", replace), mock.patch.object(os, "remove", remove),
                   mock.patch.object(os, "unlink", remove), mock.patch.object(os, "rename", replace),
                   mock.patch.object(torch, "save", save), mock.patch.object(builtins, "open", open_),
                   mock.patch.object(tempfile, "NamedTemporaryFile", ntf)]
        for p in self.ps:
            p.start()
        return self

    def __exit__(self, *a):
        for p in self.ps:
            p.stop()


_WARM = []


def _warm_up(workdir):
    """make torch do its lazy imports before anything is patched"""
    if _WARM:
        return
    m, o = _mk(0)
    m(torch.zeros(1, 1)).sum().backward()
    o.step()
    f = os.path.join(str(workdir), "warm%d.pt" % os.getpid())
    torch.save(o.state_dict(), f)
    o.load_state_dict(torch.load(f, map_location="cpu"))
    os.remove(f)
    _WARM.append(1)


def _mk(tag):
    m = torch.nn.Linear(1, 1, bias=False)
    with torch.no_grad():
        m.weight.fill_(float(tag))
    o = torch.optim.SGD(m.parameters(), lr=1.0)
    o.param_groups[0]["vtag"] = int(tag)
    return m, o


def _params(case):
    from pydrobert.torch.training import TrainingStateParams
    fm, fo, _, _ = FMTS[case["fmt"]]
    return TrainingStateParams(keep_last_and_best_only=bool(case["klb"]), saved_model_fmt=fm,
                               saved_optimizer_fmt=fo, **case.get("ctl", {}))


def _controller(params, csvp, sd):
    from pydrobert.torch.training import TrainingStateController
    c = TrainingStateController(params, csvp, sd, warn=False)
    c.add_entry("tag", int)
    return c


def _observe(case, params, names, csvp, sd, outcome, log, notes):
    """what a controller started now on the files sees"""
    c = _controller(params, csvp, sd)
    rows = []
    if os.path.exists(csvp):
        with open(csvp) as f:
            rd = list(__import__("csv").DictReader(f))
        for r in rd:
            rows.append([int(r["epoch"]), float(r["train_met"]) * SCALE, float(r["val_met"]) * SCALE, int(r["tag"])])
    for r in rows:
        if r[1] != int(r[1]) or r[2] != int(r[2]):
            notes.append("metric off the grid in the CSV: %r" % (r,))
        r[1], r[2] = int(r[1]), int(r[2])
    last, best = int(c.get_last_epoch()), int(c.get_best_epoch(bool(case["bt"])))
    # the cache of the fresh controller is the CSV
    cached = sorted(e for e in c.cache_hist if e)
    if cached != sorted(set(r[0] for r in rows)):
        notes.append("cache epochs %r differ from CSV epochs" % (cached,))
    loads = []
    for e in range(1, last + 1):
        vm = vo = None
        both = False
        if e in c.cache_hist:
            m, o = _mk(-7)
            try:
                c.load_model_for_epoch(m, e)
                vm = int(m.weight.item())
            except Exception:
                vm = None
            m2, o2 = _mk(-7)
            try:
                c.load_model_and_optimizer_for_epoch(m2, o2, e)
                both = True
                vo = int(o2.param_groups[0].get("vtag"))
                if int(m2.weight.item()) != vm:
                    notes.append("load_model_for_epoch and load_model_and_optimizer_for_epoch disagree at epoch %d" % e)
            except Exception:
                # which of the two files is the unusable one?
                try:
                    sdict = torch.load(c.get_optimizer_path_with_info(c.get_info(e)), map_location="cpu")
                    vo = int(sdict["param_groups"][0].get("vtag"))
                except Exception:
                    vo = None
            if both != (vm is not None and vo is not None):
                notes.append("combined load success %r inconsistent with separate loads at epoch %d" % (both, e))
        loads.append([e, vm, vo])
    # default arguments: last epoch / best epoch (validation metric)
    if last and loads[last - 1][1] is not None and loads[last - 1][2] is not None:
        m, o = _mk(-7)
        c.load_model_and_optimizer_for_epoch(m, o)
        if [int(m.weight.item()), int(o.param_groups[0].get("vtag"))] != loads[last - 1][1:]:
            notes.append("load_model_and_optimizer_for_epoch() without epoch did not give the last epoch")
    if not case["bt"] and best and loads[best - 1][1] is not None:
        m, o = _mk(-7)
        c.load_model_for_epoch(m)
        if int(m.weight.item()) != loads[best - 1][1]:
            notes.append("load_model_for_epoch() without epoch did not give the best epoch")
    ck, nt = names.listing(sd)
    return {"outcome": outcome, "hist": rows, "last": last, "best": best, "loads": loads,
            "ckpts": ck, "ntmp": nt, "log": log}


def _met(case, e, j):
    """metric handed to update_for_epoch: the grid value, optionally moved by a few 1e-8 (case["jit"]) - a raw value
    that prints, under the history file's '{:.4e}', as the grid value itself.  The live process then holds a raw
    metric that differs from what a restarted process reads back, while both must rank the epochs alike."""
    base = case["mets"][e - 1][j] / SCALE
    jit = case.get("jit")
    if not jit:
        return base
    x = base + jit[e - 1][j] * 1e-8
    assert float("{:.4e}".format(x)) == base, (x, base)
    return x


def _process(case, params, names, csvp, sd, ctr, crash_at, calls):
    """one process: new controller, continue after the last recorded epoch"""
    mets = case["mets"]
    log = []
    inj = Injector(names, csvp, crash_at)
    outcome = "Done"
    c = _controller(params, csvp, sd)
    try:
        with inj:
            while c.continue_training():
                e = c.get_last_epoch() + 1
                if e > len(mets):
                    break
                ctr[0] += 1
                m, o = _mk(ctr[0])
                inj.cur = []
                calls.append(inj.cur)
                entry = [inj.cur, None]
                log.append(entry)
                cont = c.update_for_epoch(m, o, _met(case, e, 0), _met(case, e, 1),
                                          best_is_train=bool(case["bt"]), tag=ctr[0])
                entry[1] = list(names.listing(sd))
                inj.cur = None
                if not cont:
                    break
    except Crash:
        outcome = "Crashed"
    except ValueError:
        outcome = "Raised"
        log.pop()  # the raising call made no file-system call (checked below)
        if calls and calls[-1]:
            log.append([calls[-1], None])
            outcome = "Raised-after-calls"
    return outcome, log


def run_schedule_impl(case, workdir, crashes):
    """-> (list of observations, removal orders per update call, notes)"""
    d = tempfile.mkdtemp(dir=str(workdir), prefix="run")
    try:
        csvp, sd = os.path.join(d, "hist.csv"), os.path.join(d, "states")
        params, names = _params(case), Names(case["fmt"])
        ctr, calls, notes, obs = [0], [], [], []
        for k in list(crashes) + [None]:
            outcome, log = _process(case, params, names, csvp, sd, ctr, k, calls)
            obs.append(_observe(case, params, names, csvp, sd, outcome, log, notes))
            if outcome != "Crashed":
                break
        ros = [[op[1] for op in call if op[0] == "rem"] for call in calls]
        return obs, ros, notes, ctr[0]
    finally:
        shutil.rmtree(d, ignore_errors=True)


_UNINT = {}


def _base_key(case):
    return json.dumps([case["klb"], case["fmt"], case["bt"], case.get("ctl", {}), case["mets"], case.get("jit")],
                      sort_keys=True)


def _unint(case, workdir):
    k = _base_key(case)
    if k not in _UNINT:
        if len(_UNINT) > 2000:
            _UNINT.clear()
        _UNINT[k] = run_schedule_impl(case, workdir, [])
    return _UNINT[k]


def run_impl(case, workdir):
    _warm_up(workdir)
    with warnings.catch_warnings():
        warnings.simplefilter("ignore")
        try:
            u_obs, u_ros, u_notes, u_calls = _unint(case, workdir)
            if case["crashes"]:
                obs, ros, notes, _ = run_schedule_impl(case, workdir, case["crashes"])
            else:
                obs, ros, notes = u_obs, u_ros, list(u_notes)
            return {"unint": u_obs[0], "n_calls": u_calls, "obs": obs, "ros": ros, "notes": sorted(set(notes + u_notes))}
        except Exception as e:  # not a legal outcome of any run
            return {"error": exc_kind(e) + ": " + str(e)[:200]}


# ----------------------------------------------------------------------------------------
# Coq terms
# ----------------------------------------------------------------------------------------


def t_path(p):
    if p is None:
        return "(Tmp 0 KM)"
    k, e = p
    return "(Ckpt %s %s)" % ("KM" if k == "M" else "KO", co(cn(e)) if e is not None else "None")


def t_params(case):
    _, _, em, eo = FMTS[case["fmt"]]
    return "(mkParams %s %s %s %s)" % (cb(case["klb"]), cb(em), cb(eo), cb(case["bt"]))


def t_row(r):
    return "(mkRow %s %s %s %s)" % (cn(r[0]), cz(r[1]), cz(r[2]), cz(r[3]))


def t_code(op):
    if op[0] == "mk":
        return "TMk"
    if op[0] == "fill":
        return "TFill"
    if op[0] == "app":
        return "TApp"
    if op[0] == "rep":
        return "(TRep %s)" % t_path(op[1])
    if op[0] == "rem":
        return "(TRem %s)" % t_path(op[1])
    return "(TRem (Tmp 1 KM))"  # a call the model never makes


def t_obs(o):
    oc = o["outcome"] if o["outcome"] in ("Done", "Crashed", "Raised") else "Crashed"
    loads = cl([cp(cn(e), cp(co(cz(vm)) if vm is not None else "None", co(cz(vo)) if vo is not None else "None"))
                for e, vm, vo in o["loads"]])
    log = cl([cp(cl([t_code(op) for op in ops]),
                 "None" if lst is None else co(cp(cl([t_path(p) for p in lst[0]]), cn(lst[1]))))
              for ops, lst in o["log"]])
    return "(mkObs %s %s %s %s %s %s %s %s)" % (oc, cl([t_row(r) for r in o["hist"]]), cn(o["last"]), cn(o["best"]),
                                                 loads, cl([t_path(p) for p in o["ckpts"]]), cn(o["ntmp"]), log)


def t_mets(case, out):
    return cl([cp(cz(a), cz(b)) for a, b in case["mets"][:out["n_calls"]]])


def model_args(case, out):
    return "%s %s %s %s" % (t_params(case), t_mets(case, out),
                            cl([cl([t_path(p) for p in r]) for r in out["ros"]]),
                            cl([cn(k) for k in case["crashes"]]))


def model_term(case, out):
    if "error" in out or any(o["outcome"] == "Raised-after-calls" for o in out["obs"]):
        return "false"
    return "check %s %s" % (model_args(case, out), cl([t_obs(o) for o in out["obs"]]))


IMPORTS_SRC = "From PV Require Import C16.Model C16.SrcRun.\n"


def src_term(case, out):
    """bool: the regenerated source terms (PV.Gen.C16Src: get_last_epoch, get_best_epoch and the two file-logic blocks of
    update_for_epoch), run by PV.MiniPy.Interp under ext16 inside Coq in place of Model.update_ops, give the
    observations the implementation gave (same traces of file-system calls per update, same ValueError, same files)."""
    if "error" in out or any(o["outcome"] == "Raised-after-calls" for o in out["obs"]):
        return "false"
    return "src_check %s %s" % (model_args(case, out), cl([t_obs(o) for o in out["obs"]]))


def source_tie(chk, cases, outs, model_ok):
    """run the translated source inside Coq on (a sample of) the runs of this check: validates translator + MiniPy
    semantics + ext16 against CPython's recorded traces; independent of whether the tie lemmas still compile.
    Only runs the model reproduces are used (a run the model misses is reported by the correspondence itself)."""
    idx = [i for i, ok in enumerate(model_ok) if ok and "error" not in outs[i]]
    cap = 4000 if chk.tier == "thorough" else 1500
    if len(idx) > cap:       # deterministic slice: every k-th run, all streams and both modes stay represented
        step = len(idx) / float(cap)
        idx = sorted(set(idx[int(j * step)] for j in range(cap)))
    try:
        res = coq_eval_bools(chk.workdir, IMPORTS_SRC, [src_term(cases[i], outs[i]) for i in idx], shard=100, tag="src")
    except CoqError as e:
        chk.extra["source_tie_run"] = "not evaluated: " + str(e)[-400:]
        return
    bad = [idx[j] for j, ok in enumerate(res) if not ok]
    calls = sum(sum(len(o["log"]) for o in outs[i]["obs"]) for i in idx)
    chk.extra["source_tie_run"] = {"runs": len(idx), "update_calls": calls, "disagreements": len(bad)}
    # diagnosis only: runs the model misses - does the interpreted source reproduce them?  (yes = the source text itself
    # changed behaviour and the translation tracks it; the correspondence reports those runs)
    miss = [i for i, ok in enumerate(model_ok) if not ok and "error" not in outs[i]][:200]
    if miss:
        try:
            mres = coq_eval_bools(chk.workdir, IMPORTS_SRC, [src_term(cases[i], outs[i]) for i in miss], shard=100, tag="srcm")
            chk.extra["source_tie_run"]["model_misses"] = len(miss)
            chk.extra["source_tie_run"]["model_misses_reproduced_by_source"] = sum(1 for ok in mres if ok)
        except CoqError:
            pass
    chk.count("source_tie_runs", len(idx))
    if bad:
        i = bad[0]
        chk.report({"case": cases[i], "impl": outs[i],
                    "what": "the Python source as translated to MiniPy and interpreted in Coq (PV.C16.SrcRun.src_run: get_last_epoch, "
                            "get_best_epoch and the file-operation blocks of update_for_epoch under ext16) does not reproduce the "
                            "implementation's traces of file-system calls, although PV.C16.Model.run does: translator / interpreter / "
                            "ext16 no longer describe the code",
                    "correspondence": "tie:C16:py2coq+MiniPy.Interp:TrainingStateController.{update_for_epoch,get_best_epoch,get_last_epoch}",
                    "theorems_at_stake": ["c16_source_update_is_model", "c16_source_best_epoch_is_model",
                                          "c16_source_last_epoch_is_model"]}, no_failing_input=True)


def spec_term(case, out, part=None):
    if "error" in out:
        return "false"
    H = cl([t_row(r) for r in out["unint"]["hist"]])
    os_ = cl([t_obs(o) for o in out["obs"]])
    if part is None:
        return "spec_okb %s %s %s" % (t_params(case), H, os_)
    return "spec_part %s %s %s %s" % (cn(part), t_params(case), H, os_)


# ----------------------------------------------------------------------------------------
# known findings
# ----------------------------------------------------------------------------------------


def crash_windows(out):
    """for each crashed update call: did the process die after the history append and before
    the last os.replace of that call (the row is recorded, the checkpoint is not in place)?"""
    res = []
    for o in out.get("obs", []):
        for ops, lst in o["log"]:
            if lst is None and o["outcome"] == "Crashed":
                kinds = [op[0] for op in ops]
                res.append("app" in kinds and kinds[kinds.index("app"):].count("rep") < 2)
    return res


def needed_files(case, hist, e):
    """the files of the last (e) and the best epoch among the first e rows of the history"""
    col = 1 if case["bt"] else 2
    rows = [r for r in hist if r[0] <= e]
    best = min(rows, key=lambda r: (r[col], r[0]))[0] if rows else 0
    _, _, em, eo = FMTS[case["fmt"]]
    need = set()
    for x in (e, best):
        if x:
            need.add(("M", x if em else None))
            need.add(("O", x if eo else None))
    return need


def extras_are_crash_leftovers(case, out):
    """every file found after a completed update that is not one of the two epochs' files was
    already there when an earlier process died, and no completed update adds a temporary file"""
    H = out["unint"]["hist"]
    seen, tmp_at_crash, e = set(), 0, 0
    some_extra = False
    for o in out["obs"]:
        for ops, lst in o["log"]:
            if lst is None:
                continue
            e += 1
            extra = set(tuple(p) for p in lst[0]) - needed_files(case, H, e)
            if extra or lst[1]:
                some_extra = True
            if not extra <= seen or lst[1] != tmp_at_crash:
                return False
        if o["outcome"] == "Crashed":
            seen |= set(tuple(p) for p in o["ckpts"])
            tmp_at_crash = o["ntmp"]
        e = max([r[0] for r in o["hist"]] + [0])
    return some_extra


def best_overwritten_by_last(case, out):
    """wherever the best epoch does not load with its own parameters, it is older than the last
    recorded epoch, whose parameters are what the shared file holds"""
    _, _, em, eo = FMTS[case["fmt"]]
    hit = False
    for o in out["obs"]:
        if not o["best"] or not o["last"]:
            continue
        tag = {r[0]: r[3] for r in o["hist"]}
        lb, ll = o["loads"][o["best"] - 1], o["loads"][o["last"] - 1]
        if lb[1] == tag[o["best"]] and lb[2] == tag[o["best"]]:
            continue
        hit = True
        if o["best"] >= o["last"]:
            return False
        if (not em and lb[1] != ll[1]) or (not eo and lb[2] != ll[2]):
            return False
        if (em and lb[1] != tag[o["best"]]) or (eo and lb[2] != tag[o["best"]]):
            return False
    return hit


LOAD_PARTS = {"load_last", "load_best", "load_all"}


def part_groups(parts):
    """a case can show several findings at once: judge the load clauses, the 'nothing else'
    clause and the remaining clauses separately"""
    gs = [[p for p in parts if p in LOAD_PARTS], [p for p in parts if p == "dir_only"],
          [p for p in parts if p not in LOAD_PARTS and p != "dir_only"]]
    return [g for g in gs if g]


def signature_fn(entry, rec):
    sig, case, out = entry["signature"], rec["case"], rec["impl"]
    failing = set(rec["failing_parts"])
    if not failing or not failing <= set(sig["failing_parts_subset_of"]):
        return False
    if out.get("notes") or "error" in out:
        return False
    _, _, em, eo = FMTS[case["fmt"]]
    if "all_formats_have_epoch" in sig and sig["all_formats_have_epoch"] != (em and eo):
        return False
    if "keep_last_and_best_only" in sig and sig["keep_last_and_best_only"] != bool(case["klb"]):
        return False
    if sum(1 for o in out["obs"] if o["outcome"] == "Crashed") < sig.get("min_crashes", 0):
        return False
    if sig.get("crash_after_append_before_last_replace") and not any(crash_windows(out)):
        return False
    if sig.get("extras_existed_at_an_earlier_crash") and not extras_are_crash_leftovers(case, out):
        return False
    if sig.get("best_is_not_last_wherever_best_fails") and not best_overwritten_by_last(case, out):
        return False
    return True


# ----------------------------------------------------------------------------------------
# generators
# ----------------------------------------------------------------------------------------

CTLS = [
    {},
    {"early_stopping_threshold": 0.5, "early_stopping_patience": 2, "early_stopping_burnin": 1},
    {"reduce_lr_threshold": 0.5, "reduce_lr_patience": 1, "reduce_lr_cooldown": 1, "reduce_lr_factor": 0.5,
     "log10_learning_rate": 0},
    {"early_stopping_threshold": 0.25, "early_stopping_patience": 3, "reduce_lr_threshold": 0.25,
     "reduce_lr_patience": 2, "reduce_lr_factor": 0.5, "log10_learning_rate": 0, "reduce_lr_burnin": 1},
]


def total_calls(case, workdir):
    """number of file-system calls of the uninterrupted run"""
    c = dict(case, crashes=[])
    _warm_up(workdir)
    with warnings.catch_warnings():
        warnings.simplefilter("ignore")
        obs, _, _, _ = _unint(c, workdir)
    return sum(len(ops) for ops, _ in obs[0]["log"])


def _work(args):
    """pool worker: a chunk of cases that share their uninterrupted run"""
    cases, workdir = args
    torch.set_num_threads(1)
    return [run_impl(c, workdir) for c in cases]


def run_impl_many(cases, workdir):
    """implementation runs, grouped by (parameters, history), over a process pool"""
    import multiprocessing as mp
    jobs = max(1, min(int(os.environ.get("VERIF_JOBS", "16")) // 2, os.cpu_count() or 1, 8))
    groups = {}
    for i, c in enumerate(cases):
        groups.setdefault(_base_key(c), []).append(i)
    chunks, cur = [], []
    for idx in groups.values():
        cur += idx
        if len(cur) >= 24:
            chunks.append(cur)
            cur = []
    if cur:
        chunks.append(cur)
    outs = [None] * len(cases)
    if jobs == 1 or len(cases) < 40:
        for ch in chunks:
            for i, o in zip(ch, _work(([cases[i] for i in ch], str(workdir)))):
                outs[i] = o
        return outs
    with mp.get_context("spawn").Pool(jobs) as pool:
        for ch, res in zip(chunks, pool.imap(_work, [([cases[i] for i in ch], str(workdir)) for ch in chunks])):
            for i, o in zip(ch, res):
                outs[i] = o
    return outs


def gen_cases(chk):
    rng, cases = chk.rng, []
    thorough = chk.tier == "thorough"

    def add(stream, klb, fmt, mets, crashes, bt=False, ctl=None, num_epochs=False, jit=None):
        ctl = dict(ctl or {})
        if num_epochs:
            ctl["num_epochs"] = len(mets)
        cases.append({"klb": klb, "fmt": fmt, "bt": bt, "mets": [list(m) for m in mets], "ctl": ctl,
                      "crashes": list(crashes), "stream": stream})
        if jit is not None:
            cases[-1]["jit"] = [list(j) for j in jit]

    # (a) every single crash point of every update of every small history
    L = 4 if thorough else 3
    grid = [4, 8, 12]
    seqs = [s for n in range(1, L + 1) for s in itertools.product(grid, repeat=n)]
    if not thorough:
        seqs = [s for i, s in enumerate(seqs) if len(s) <= 2 or i % 5 == chk.seed % 5]
    for klb, fmt in itertools.product([True, False], ["ep", "no", "mo"]):
        for s in seqs:
            mets = [(20 - v, v) for v in s]
            base = {"klb": klb, "fmt": fmt, "bt": False, "mets": mets, "ctl": {}, "crashes": []}
            tot = total_calls(base, chk.workdir)
            add("exhaustive-single", klb, fmt, mets, [])
            for k in range(tot):
                add("exhaustive-single", klb, fmt, mets, [k])
    chk.extra["exhaustive"] = thorough
    chk.extra["exhaustive_scope"] = ("validation metrics over a 3-point grid, histories of length <= %d%s, both retention modes, "
                                     "formats ep/no/mo, every file-system call of every update as the single crash point; "
                                     "plus every pair of crash points of 2-epoch histories in keep-all mode" % (L, "" if thorough else " (slice of the length-3 ones)"))
    # (b) every pair of crash points, two-epoch histories
    for klb, fmt in ([(False, "ep"), (True, "ep"), (False, "no")] if thorough else [(False, "ep")]):
        for s in ([(8, 4), (4, 8)] if thorough else [(8, 4)]):
            mets = [(v, v) for v in s]
            tot = total_calls({"klb": klb, "fmt": fmt, "bt": False, "mets": mets, "ctl": {}, "crashes": []}, chk.workdir)
            for k1 in range(tot):
                for k2 in range(tot - k1 + 7):
                    add("exhaustive-double", klb, fmt, mets, [k1, k2])
    # (b') raw metrics a few 1e-8 off the grid (they print as the grid value): ties and near-ties between what a live
    #      process holds and what a restarted one reads back; every single crash point
    jseqs = [((8, 8), (0, -2)), ((8, 8), (0, 3)), ((8, 8, 8), (0, -1, -3)), ((8, 4, 4), (2, 0, -4)), ((4, 8, 4), (0, 0, -2)),
             ((8, 8, 12), (-3, -4, 0)), ((12, 8, 8, 8), (0, 1, -1, -2))]
    if not thorough:
        jseqs = jseqs[chk.seed % 2::2] + jseqs[:1]
    for klb, fmt in ([(True, "ep"), (False, "ep"), (True, "e2")] if thorough else [(True, "ep")]):
        for s, js in jseqs:
            for bt in ([False, True] if thorough else [False]):
                mets = [(v, v) for v in s]
                jit = [(j, j) for j in js]
                base = {"klb": klb, "fmt": fmt, "bt": bt, "mets": mets, "ctl": {}, "crashes": [], "jit": jit}
                tot = total_calls(base, chk.workdir)
                for k in [None] + list(range(tot)):
                    add("jitter-single", klb, fmt, mets, [] if k is None else [k], bt=bt, jit=jit)
    # (c) random: longer histories, C15 parameter settings, several crashes
    nrand = 4000 if thorough else 400
    for _ in range(nrand):
        n = rng.choice([1, 2, 3, 3, 4, 4, 5, 6, 7])
        style = rng.choice(["any", "any", "improving", "ties", "worsening"])
        vals = []
        for i in range(n):
            if style == "improving":
                vals.append(40 - 3 * i - rng.randint(0, 2))
            elif style == "worsening":
                vals.append(4 + 3 * i + rng.randint(0, 2))
            elif style == "ties":
                vals.append(rng.choice([8, 8, 12]))
            else:
                vals.append(rng.randint(1, 40))
        bt = rng.random() < 0.25
        mets = [(rng.randint(1, 40) if bt or rng.random() < 0.5 else v, v) for v in vals]
        klb = rng.random() < 0.55
        fmt = rng.choice(["ep", "ep", "e2", "no", "mo", "om"])
        ctl = rng.choice(CTLS)
        ncr = rng.choice([0, 1, 1, 2, 2, 3, 4])
        per = 9
        crashes = []
        for j in range(ncr):
            if rng.random() < 0.5:
                crashes.append(rng.randint(0, per))          # early in the next update
            else:
                crashes.append(rng.randint(0, per * n))
        jit = None
        if not ctl and rng.random() < 0.4:   # decisions of C15 (thresholds) stay on the grid: no jitter with a ctl
            jit = [(rng.choice([0, 0, -4, -2, -1, 1, 3]), rng.choice([0, 0, -4, -2, -1, 1, 3])) for _ in range(n)]
        add("random", klb, fmt, mets, crashes, bt=bt, ctl=ctl, num_epochs=rng.random() < 0.3, jit=jit)
    return cases


def nontrivial(case, out):
    """at least one crash point strictly inside an update (some but not all of its calls made)"""
    if "error" in out:
        return False
    return any(o["outcome"] == "Crashed" and o["log"] and o["log"][-1][1] is None and len(o["log"][-1][0]) >= 1
               for o in out["obs"])


# ----------------------------------------------------------------------------------------
# judging
# ----------------------------------------------------------------------------------------


def _cands(case):
    if case["crashes"]:
        for i in range(len(case["crashes"])):
            c = dict(case)
            c["crashes"] = case["crashes"][:i] + case["crashes"][i + 1:]
            yield c
    if len(case["mets"]) > 1:
        c = dict(case)
        c["mets"] = case["mets"][:-1]
        if case.get("jit"):
            c["jit"] = case["jit"][:-1]
        yield c
        c = dict(case)
        c["mets"] = case["mets"][1:]
        if case.get("jit"):
            c["jit"] = case["jit"][1:]
        yield c
    if case.get("jit"):
        c = dict(case)
        c.pop("jit")
        yield c
    if case.get("ctl"):
        c = dict(case)
        c["ctl"] = {}
        yield c
    if case["bt"]:
        c = dict(case)
        c["bt"] = False
        yield c
    for i, k in enumerate(case["crashes"]):
        if k > 0:
            c = dict(case)
            c["crashes"] = case["crashes"][:i] + [k - 1] + case["crashes"][i + 1:]
            yield c


def failing_parts(chk, case, out):
    res = coq_eval_bools(chk.workdir, IMPORTS, [spec_term(case, out, i) for i in range(len(PARTS))], tag="parts")
    return [PARTS[i] for i, ok in enumerate(res) if not ok]


def make_record(chk, case, out, model_ok, parts, with_model=True):
    rec = {"case": case, "impl": out, "failing_parts": parts, "model_agrees": model_ok,
           "spec_accepts_impl": not parts and not out.get("notes"),
           "correspondence": "corr:C16:TrainingStateController.update_for_epoch/load_model_and_optimizer_for_epoch",
           "theorems_at_stake": ["c16_crash_history_is_prefix", "c16_crash_then_continue_same_history",
                                 "c16_crash_last_and_best_loadable", "c16_keep_all_every_epoch_loadable",
                                 "c16_completed_update_dir_exact"]}
    if with_model and "error" not in out:
        rec["model"] = coq_eval_print(chk.workdir, IMPORTS, "run " + model_args(case, out))
    if parts or out.get("notes") or "error" in out:
        rec["what"] = ("crash-consistency violated: " + ", ".join(parts + out.get("notes", []) + ([out["error"]] if "error" in out else [])))
    else:
        rec["what"] = "implementation's file-system calls / observations differ from the model, but satisfy the property's boolean reading"
    return rec


def run(chk, cases=None):
    chk.rule = ("case = (retention mode, file-name formats, best_is_train, C15 parameters, metric history, list of crash points); "
                "the real controller is run in a scratch directory with os.replace/os.remove/torch.save/NamedTemporaryFile/CSV append "
                "counted and the process killed (BaseException) instead of the k-th call, then restarted, for every crash point of the "
                "list; after each death and at the end a fresh controller's history, last/best epoch, the result of loading every "
                "recorded epoch, the directory listing, the trace of calls of every update and the listing after every completed update "
                "are compared with PV.C16.Model.run, and judged by PV.C16.Spec.spec_parts. non-trivial = some crash strictly inside an update")
    chk.assumptions += ["os.replace and the CSV append (open 'a' + writerow, flushed at close) are atomic; no torn writes",
                        "metrics lie on a grid where '{:.4e}' is exact; learning rates stay representable (C15's K4 is not re-tested here)",
                        "parameter values are one integer per update call, written to the model weight, the optimizer param group and the user entry 'tag'",
                        "the iteration order of the Python set clean_up is read back from the trace and handed to the model as an oracle",
                        "stopping decisions (early stopping, num_epochs) are C15's: the model gets the metric list cut where the uninterrupted implementation stopped"]
    import time
    t0 = time.time()
    timing = chk.extra.setdefault("timing_s", {})
    explicit = cases is not None
    if cases is None:
        cases = gen_cases(chk)
        for c in load_corpus("C16"):
            c = dict(c.get("case", c))
            c["stream"] = "corpus"
            cases.append(c)
    terms, sterms = [], []
    streams = [c.pop("stream", "random") for c in cases]
    timing["generate"] = round(time.time() - t0, 1)
    t0 = time.time()
    outs = run_impl_many(cases, chk.workdir)
    timing["implementation"] = round(time.time() - t0, 1)
    t0 = time.time()
    for c, stream, out in zip(cases, streams, outs):
        terms.append(model_term(c, out))
        sterms.append(spec_term(c, out))
        chk.note_case(c, nontrivial(c, out), stream)
        chk.count("mode=" + ("last+best" if c["klb"] else "keep-all"))
        chk.count("fmt=" + c["fmt"])
        chk.count("crashes=%d" % len(c["crashes"]))
        chk.count("epochs=%d" % len(c["mets"]))
        chk.count("raw_metrics=" + ("off-grid(1e-8)" if c.get("jit") else "grid"))
        if "error" in out:
            chk.count("outcome=harness-error")
        else:
            chk.count("final=" + out["obs"][-1]["outcome"])
            for o in out["obs"]:
                if o["outcome"] == "Crashed" and o["log"]:
                    ops = o["log"][-1][0]
                    chk.count("crash-after=" + (ops[-1][0] if ops else "nothing"))
    res = coq_eval_bools(chk.workdir, IMPORTS, terms)
    sres = coq_eval_bools(chk.workdir, IMPORTS, sterms, tag="spec")
    timing["coq_model_and_spec"] = round(time.time() - t0, 1)
    t0 = time.time()
    source_tie(chk, cases, outs, res)
    timing["coq_source_tie"] = round(time.time() - t0, 1)
    bad = [i for i, ok in enumerate(res) if not ok]
    sbad = [i for i, ok in enumerate(sres) if not ok or outs[i].get("notes") or "error" in outs[i]]
    chk.extra["model_disagreements"] = len(bad)
    chk.extra["spec_rejections"] = len(sbad)
    reported = 0
    concrete = False
    # (1) every implementation output the spec rejects: known finding or violation
    todo = [i for i in sbad if "error" not in outs[i] and not outs[i].get("notes")]
    pres = coq_eval_bools(chk.workdir, IMPORTS, [spec_term(cases[i], outs[i], j) for i in todo for j in range(len(PARTS))],
                          shard=700, tag="parts")
    parts_of = {i: [PARTS[j] for j in range(len(PARTS)) if not pres[n * len(PARTS) + j]] for n, i in enumerate(todo)}
    for i in sbad:
        case, out = cases[i], outs[i]
        if out.get("notes") or "error" in out:
            if reported < 8:
                parts = failing_parts(chk, case, out) if "error" not in out else ["harness-error"]
                chk.report(make_record(chk, case, out, res[i], parts, with_model=False))
            concrete = True
            reported += 1
            continue
        parts = parts_of[i]
        for g in part_groups(parts):
            rec = make_record(chk, case, out, res[i], g, with_model=False)
            e = chk.known_match(signature_fn, rec)
            if e is not None:
                chk.report(rec, signature_fn)
                chk.count("known=" + e["id"])
                continue
            concrete = True
            reported += 1
            if reported > 8:
                continue
            small = case if explicit else shrink(case, lambda c: _still_rejected(chk, c, g), _cands, budget=30)
            sout = run_impl(small, chk.workdir)
            sparts = [q for q in failing_parts(chk, small, sout) if q in g] if "error" not in sout else ["harness-error"]
            if not sparts:
                small, sout, sparts = case, out, g
            chk.report(make_record(chk, small, sout, None, sparts))
    # (2) the model no longer describes the code
    unexplained = [i for i in bad if i not in set(sbad)]
    if unexplained and not concrete:
        i = unexplained[0]
        small = cases[i] if explicit else shrink(cases[i], lambda c: _disagrees(chk, c), _cands, budget=30)
        sout = run_impl(small, chk.workdir)
        chk.report(make_record(chk, small, sout, False, []), no_failing_input=True)
    elif bad and not concrete:
        # disagreements only on cases that show known findings: the model must contain those too
        i = bad[0]
        chk.report(make_record(chk, cases[i], outs[i], False, []), no_failing_input=True)


def _still_rejected(chk, case, group):
    """the same clauses still fail and are still not a known finding"""
    out = run_impl(case, chk.workdir)
    if "error" in out or out.get("notes"):
        return False
    if coq_eval_bools(chk.workdir, IMPORTS, [spec_term(case, out)], tag="shr")[0]:
        return False
    g = [q for q in failing_parts(chk, case, out) if q in group]
    if not g:
        return False
    return chk.known_match(signature_fn, {"case": case, "impl": out, "failing_parts": g}) is None


def _disagrees(chk, case):
    out = run_impl(case, chk.workdir)
    return not coq_eval_bools(chk.workdir, IMPORTS, [model_term(case, out)], tag="shr")[0]


def replay(chk, path):
    rec = json.loads(open(path).read())
    case = dict(rec["case"])
    case.pop("stream", None)
    run(chk, [case])
