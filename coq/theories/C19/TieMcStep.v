(* C19 tie - one Metropolis-Hastings step of the interpreted blocks (mh_accept; mh_update) IS the model's step, for every
   batch element; and its composition with the model theorem mh_accepts_all_when_equal. *)
From Coq Require Import ZArith QArith List Bool Arith Lia.
From PV Require Import MiniPy.Syntax MiniPy.Interp.
From PV Require Import MiniTorch.Ops MiniTorch.Value MiniTorch.Lemmas MiniTorch.OpsC19 MiniTorch.LemmasC19 Gen.C19McSrc.
From PV Require Import C19.Model C19.Proofs.
From PV Require Import C19.SrcRun C19.SrcRunMc C19.TieLib C19.TieMc.
Import ListNotations.

(* ---- pointwise reading of the data the blocks compute --------------------------------------------------------------- *)
Lemma acc_data_length : forall B LR UD CR0 n, length CR0 = B -> length LR = B -> length (ud_row B UD n) = B ->
  length (acc_data B LR UD CR0 n) = B.
Proof. intros. unfold acc_data, zipl. rewrite map_length, combine_length, map_length, combine_length. lia. Qed.

Lemma acc_data_nth : forall B LR UD CR0 n j, length CR0 = B -> length LR = B -> length (ud_row B UD n) = B -> (j < B)%nat ->
  nth j (acc_data B LR UD CR0 n) 0%Q = qbool (lgt (lsub' (nth j CR0 LNaN) (nth j LR LNaN)) (nth j (ud_row B UD n) LNaN)).
Proof.
  intros B LR UD CR0 n j H1 H2 H3 Hj. unfold acc_data, zipl.
  rewrite (nth_mc _ _ _ LNaN LNaN) by (rewrite ?map_length, ?combine_length; lia). cbn [fst snd].
  rewrite (nth_mc _ _ _ LNaN LNaN) by lia. reflexivity.
Qed.

Lemma nr_data_length : forall LR CR0 ACC B, length CR0 = B -> length LR = B -> length ACC = B -> length (nr_data LR CR0 ACC) = B.
Proof. intros. unfold nr_data. rewrite map_length, combine_length, !map_length, !combine_length, map_length. lia. Qed.

Lemma nr_data_nth : forall LR CR0 ACC B j, length CR0 = B -> length LR = B -> length ACC = B -> (j < B)%nat ->
  nth j (nr_data LR CR0 ACC) LNaN =
  ladd (bmul (qtrue (nth j ACC 0%Q)) (nth j CR0 LNaN)) (bmul (negb (qtrue (nth j ACC 0%Q))) (nth j LR LNaN)).
Proof.
  intros LR CR0 ACC B j H1 H2 H3 Hj. unfold nr_data.
  set (INV := map (fun q : Q => qbool (negb (qtrue q))) ACC).
  assert (L0 : length INV = B) by (unfold INV; rewrite map_length; lia).
  set (f1 := fun mx : Q * lv => bmul (qtrue (fst mx)) (snd mx)).
  assert (L1 : length (map f1 (combine ACC CR0)) = B) by (rewrite map_length, combine_length; lia).
  assert (L2 : length (map f1 (combine INV LR)) = B) by (rewrite map_length, combine_length; lia).
  rewrite (nth_mc _ _ _ LNaN LNaN) by lia. cbn [fst snd].
  rewrite (nth_mc f1 ACC CR0 0%Q LNaN) by lia. rewrite (nth_mc f1 INV LR 0%Q LNaN) by lia. unfold f1. cbn [fst snd].
  f_equal. f_equal. unfold INV.
  rewrite (nth_indep _ 0%Q ((fun q => qbool (negb (qtrue q))) 0%Q)) by (rewrite map_length; lia).
  rewrite (map_nth (fun q => qbool (negb (qtrue q)))). now rewrite qtrue_qbool.
Qed.

Lemma where_data_length : forall ACC CS LS B, length ACC = B -> length CS = B -> length LS = B -> length (where_data ACC CS LS) = B.
Proof. intros. unfold where_data. rewrite map_length, !combine_length. lia. Qed.

Lemma where_data_nth : forall ACC CS LS B j, length ACC = B -> length CS = B -> length LS = B -> (j < B)%nat ->
  nth j (where_data ACC CS LS) 0%Q = if qtrue (nth j ACC 0%Q) then nth j CS 0%Q else nth j LS 0%Q.
Proof.
  intros ACC CS LS B j H1 H2 H3 Hj. unfold where_data.
  rewrite (nth_mc _ _ _ 0%Q (0%Q, 0%Q)) by (rewrite ?combine_length; lia). cbn [fst snd].
  rewrite combine_nth by lia. reflexivity.
Qed.

Lemma map_lw_nth : forall l j, (j < length l)%nat -> nth j (map lw l) LNaN = lw (nth j l 0%Q).
Proof. intros l j Hj. rewrite (nth_indep _ LNaN (lw 0%Q)) by (rewrite map_length; lia). apply map_nth. Qed.

Lemma map_lv_log_nth : forall l j, (j < length l)%nat -> nth j (map lv_log l) LNaN = lv_log (nth j l 0%Q).
Proof. intros l j Hj. rewrite (nth_indep _ LNaN (lv_log 0%Q)) by (rewrite map_length; lia). apply map_nth. Qed.

(* ==================================================================================================== *)
Section Step.
  Variables (w f : nat -> nat -> Q) (props : list (list nat)) (us : list (list Q)).
  Notation ext := (ext19mc w f props us).
  Variables (Nz burn : Z) (Bs : nat) (nk : val) (B N : nat).
  Let UD : list lv := map lv_log (List.concat us).
  Notation stm := (st_mh (self_val Nz burn Bs) nk B N UD).

  (* torch.rand's rows: N rows of B uniforms, none negative *)
  Hypothesis Hus_len : length us = N.
  Hypothesis Hus_rows : Forall (fun r => length r = B) us.
  Hypothesis Hus_pos : Forall (Forall (fun u => (0 <= u)%Q)) us.

  (* the chain state of every batch element: last outcome, model ratio state, and the stored log-ratio that represents it *)
  Variables (lasts : list nat) (lastws : list (option Q)) (LR : list lv).
  Hypothesis Hlasts : length lasts = B.
  Hypothesis HLR : length LR = B.
  Hypothesis Hrel : forall j, (j < B)%nat -> rel_lv (nth j lastws None) (nth j LR LNaN).

  (* this step's proposals and uniforms *)
  Variables (evs : list event) (n : nat).
  Let d : list nat := nth (length evs) props [].
  Hypothesis Hd : length d = B.
  Hypothesis Hn : (n < N)%nat.

  Definition step_nxt (j : nat) : nat :=
    mnxt (w j) (nth j lasts 0%nat) (nth j lastws None) (nth j d 0%nat) (nth j (nth n us []) 0%Q).
  Definition step_nw (j : nat) : option Q :=
    mnw (w j) (nth j lastws None) (nth j d 0%nat) (nth j (nth n us []) 0%Q).

  Let CR0 : list lv := map lw (welt w d).
  Let ACC : list Q := acc_data B LR UD CR0 (Z.of_nat n).
  Let NR : list lv := nr_data LR CR0 ACC.

  Lemma LR_no_neginf : Forall (fun x => x <> LNegInf) LR.
  Proof.
    apply Forall_forall. intros x Hx. destruct (In_nth _ _ LNaN Hx) as [j [Hj E]]. subst x.
    apply (rel_lv_not_neginf (nth j lastws None)). apply Hrel. lia.
  Qed.

  Lemma row_ok : length (nth n us []) = B /\ Forall (fun u => (0 <= u)%Q) (nth n us []).
  Proof.
    rewrite Forall_forall in Hus_rows, Hus_pos.
    assert (Hin : List.In (nth n us []) us) by (apply nth_In; lia). split; [now apply Hus_rows|now apply Hus_pos].
  Qed.

  Lemma ud_len : length (ud_row B UD (Z.of_nat n)) = B.
  Proof. unfold UD. rewrite ud_row_us by (assumption || lia). rewrite map_length. apply row_ok. Qed.

  Lemma CR0_len : length CR0 = B.
  Proof. unfold CR0, welt. rewrite !map_length, combine_length, seq_length. lia. Qed.

  (* the accept bit of element j is the model's *)
  Lemma ACC_nth : forall j, (j < B)%nat ->
    nth j ACC 0%Q = qbool (macc (w j) (nth j lastws None) (nth j d 0%nat) (nth j (nth n us []) 0%Q)) /\
    rel_lv (step_nw j) (nth j NR LNaN).
  Proof.
    intros j Hj. destruct row_ok as [Hrl Hrp].
    assert (Hu : (0 <= nth j (nth n us []) 0)%Q).
    { rewrite Forall_forall in Hrp. apply Hrp. apply nth_In. lia. }
    pose proof (elt_step (w j (nth j d 0%nat)) (nth j (nth n us []) 0%Q) _ _ (Hrel j Hj) Hu) as [Ha Hr]. cbv zeta in Ha, Hr.
    assert (E : nth j ACC 0%Q = qbool (lgt (lsub' (lw (w j (nth j d 0%nat))) (nth j LR LNaN)) (lv_log (nth j (nth n us []) 0%Q)))).
    { unfold ACC. rewrite (acc_data_nth B) by (apply CR0_len || apply ud_len || assumption).
      unfold CR0. rewrite map_lw_nth by (unfold welt; rewrite map_length, combine_length, seq_length; lia).
      rewrite welt_nth by lia. unfold UD. rewrite ud_row_us by (assumption || lia).
      rewrite map_lv_log_nth by lia. reflexivity. }
    split.
    - rewrite E, Ha. unfold macc. reflexivity.
    - unfold NR. rewrite (nr_data_nth _ _ _ B) by (apply CR0_len || assumption || (unfold ACC; apply acc_data_length; (apply CR0_len || apply ud_len || assumption))).
      rewrite E, qtrue_qbool. unfold CR0. rewrite map_lw_nth by (unfold welt; rewrite map_length, combine_length, seq_length; lia).
      rewrite welt_nth by lia. unfold step_nw, mnw, macc. rewrite <- Ha. exact Hr.
  Qed.

  Lemma ACC_len : length ACC = B.
  Proof. unfold ACC. apply acc_data_length; [apply CR0_len|assumption|apply ud_len]. Qed.

  (* the new sample of every element is the model's next state *)
  Lemma where_is_nxt : where_data ACC (inj_idx d) (inj_idx lasts) = inj_idx (map step_nxt (seq 0 B)).
  Proof.
    apply (nth_ext _ _ 0%Q 0%Q).
    - transitivity B; [apply where_data_length; rewrite ?inj_idx_length; auto using ACC_len|].
      rewrite inj_idx_length, List.map_length, seq_length. reflexivity.
    - intros j Hj. rewrite (where_data_length _ _ _ B) in Hj by (rewrite ?inj_idx_length; auto using ACC_len).
      rewrite (where_data_nth _ _ _ B) by (rewrite ?inj_idx_length; auto using ACC_len).
      destruct (ACC_nth j Hj) as [Ea _]. rewrite Ea, qtrue_qbool, !inj_idx_nth.
      rewrite (nth_indep (map step_nxt (seq 0 B)) 0%nat (step_nxt 0%nat)) by (rewrite map_length, seq_length; lia).
      rewrite (map_nth step_nxt), seq_nth by lia. rewrite Nat.add_0_l. unfold step_nxt, mnxt.
      destruct (macc (w j) (nth j lastws None) (nth j d 0%nat) (nth j (nth n us []) 0%Q)); reflexivity.
  Qed.

  (* ---- the step ---------------------------------------------------------------------------------------------------- *)
  Definition v_ok (vv : val) : Prop := (Z.of_nat n <= burn)%Z \/ exists V, vv = tv [B] V.

  Theorem mh_step_tie : forall vv cs cr ac fb t1, v_ok vv ->
    exists st1 LR' v' cs' cr' ac' fb' t1' evs',
      exec ext mh_accept (stm (inj_idx lasts) LR vv (VInt (Z.of_nat n)) cs cr ac fb t1 evs) = Ok CNormal st1 /\
      exec ext mh_update st1 = Ok CNormal (stm (inj_idx (map step_nxt (seq 0 B))) LR' v' (VInt (Z.of_nat n)) cs' cr' ac' fb' t1' evs') /\
      length LR' = B /\ (forall j, (j < B)%nat -> rel_lv (step_nw j) (nth j LR' LNaN)) /\
      length evs' = S (length evs).
  Proof.
    intros vv cs cr ac fb t1 Hv.
    pose proof (accept_run w f props us (self_val Nz burn Bs) vv nk B N (inj_idx lasts) LR UD (Z.of_nat n) cs cr ac fb t1 evs
                  ltac:(lia) Hd LR_no_neginf) as HA. cbv zeta in HA. fold d CR0 ACC NR in HA.
    assert (HNR : length NR = B) by (unfold NR; apply (nr_data_length _ _ _ B); [apply CR0_len|assumption|apply ACC_len]).
    assert (Hrel' : forall j, (j < B)%nat -> rel_lv (step_nw j) (nth j NR LNaN)) by (intros j Hj; apply ACC_nth; assumption).
    assert (Hev : forall e : event, length (evs ++ [e]) = S (length evs)) by (intros; rewrite app_length; cbn; lia).
    destruct (Z.lt_trichotomy (Z.of_nat n) burn) as [Hlt|[Heq|Hgt]].
    - eexists _, NR, _, _, _, _, _, _, _. split; [exact HA|]. split; [|split; [exact HNR|split; [exact Hrel'|apply Hev]]].
      rewrite (update_run_burning w f props us Nz burn Bs nk B N UD) by exact Hlt. rewrite where_is_nxt. reflexivity.
    - eexists _, NR, _, _, _, _, _, _, _. split; [exact HA|]. split; [|split; [exact HNR|split; [exact Hrel'|apply Hev]]].
      rewrite Heq. rewrite (update_run_first w f props us Nz burn Bs nk B N UD). rewrite where_is_nxt. reflexivity.
    - destruct Hv as [Hv|[V ->]]; [lia|].
      eexists _, NR, _, _, _, _, _, _, _. split; [exact HA|]. split; [|split; [exact HNR|split; [exact Hrel'|apply Hev]]].
      rewrite (update_run_adding w f props us Nz burn Bs nk B N UD) by exact Hgt. rewrite where_is_nxt. reflexivity.
  Qed.
End Step.

(* ==================================================================================================== *)
(* COMPOSED with the model theorem Proofs.mh_accepts_all_when_equal                                       *)
(* ==================================================================================================== *)
(* one step of the model chain, read off the theorem about whole chains *)
Lemma model_step_accepts : forall (w : nat -> Q) c last prop u,
  (0 < c)%Q -> (forall i, (w i == c)%Q) -> (0 <= u)%Q /\ (u < 1)%Q ->
  mnxt w last (Some (w last)) prop u = prop.
Proof.
  intros w c last prop u Hc Hw Hu.
  destruct (mh_accepts_all_when_equal w c (fun _ => 0%Q) last [prop] [u] 0%nat Hc Hw ltac:(constructor; [exact Hu|constructor]) ltac:(cbn; lia)) as [E _].
  rewrite imh_chain_step in E. injection E as E1. exact E1.
Qed.

Lemma list_tab : forall (d : list nat) B, length d = B -> map (fun j => nth j d 0%nat) (seq 0 B) = d.
Proof. intros d B H. subst B. symmetry. apply (nth_ext _ _ 0%nat 0%nat).
  - now rewrite map_length, seq_length.
  - intros j Hj. rewrite (nth_indep (map _ _) 0%nat ((fun j => nth j d 0%nat) 0%nat)) by (rewrite map_length, seq_length; lia).
    rewrite (map_nth (fun j => nth j d 0%nat)), seq_nth by lia. reflexivity.
Qed.

Section Equal.
  Variables (w f : nat -> nat -> Q) (props : list (list nat)) (us : list (list Q)).
  Notation ext := (ext19mc w f props us).
  Variables (Nz burn : Z) (Bs : nat) (nk : val) (B N : nat).
  Notation stm := (st_mh (self_val Nz burn Bs) nk B N (map lv_log (List.concat us))).
  Hypothesis Hus_len : length us = N.
  Hypothesis Hus_rows : Forall (fun r => length r = B) us.
  Hypothesis Hus_unit : Forall (Forall (fun u => (0 <= u)%Q /\ (u < 1)%Q)) us.
  (* proposal = target: the ratio of every batch element is a positive constant *)
  Hypothesis Hw : forall j, (j < B)%nat -> exists c, (0 < c)%Q /\ forall i, (w j i == c)%Q.
  Variables (lasts : list nat) (LR : list lv).
  Hypothesis Hlasts : length lasts = B.
  Hypothesis HLR : length LR = B.
  (* the stored log-ratio is the ratio of the last sample *)
  Hypothesis Hrel : forall j, (j < B)%nat -> rel_lv (Some (w j (nth j lasts 0%nat))) (nth j LR LNaN).
  Variables (evs : list event) (n : nat).
  Hypothesis Hd : length (nth (length evs) props []) = B.
  Hypothesis Hn : (n < N)%nat.

  (* purely about the interpreted blocks: every batch element accepts - last_sample becomes this step's proposal *)
  Theorem mh_source_step_accepts_all : forall vv cs cr ac fb t1, v_ok burn B n vv ->
    exists st1 LR' v' cs' cr' ac' fb' t1' evs',
      exec ext mh_accept (stm (inj_idx lasts) LR vv (VInt (Z.of_nat n)) cs cr ac fb t1 evs) = Ok CNormal st1 /\
      exec ext mh_update st1 = Ok CNormal (stm (inj_idx (nth (length evs) props [])) LR' v' (VInt (Z.of_nat n)) cs' cr' ac' fb' t1' evs') /\
      (forall j, (j < B)%nat -> rel_lv (Some (w j (nth j (nth (length evs) props []) 0%nat))) (nth j LR' LNaN)).
  Proof.
    intros vv cs cr ac fb t1 Hv.
    set (lastws := map (fun j => Some (w j (nth j lasts 0%nat))) (seq 0 B)).
    assert (Hlw : forall j, (j < B)%nat -> nth j lastws None = Some (w j (nth j lasts 0%nat))).
    { intros j Hj. unfold lastws. rewrite (nth_indep _ None ((fun j => Some (w j (nth j lasts 0%nat))) 0%nat)) by (rewrite map_length, seq_length; lia).
      rewrite (map_nth (fun j => Some (w j (nth j lasts 0%nat)))), seq_nth by lia. reflexivity. }
    assert (Hpos : Forall (Forall (fun u => (0 <= u)%Q)) us).
    { eapply Forall_impl; [|exact Hus_unit]. intros r Hr. eapply Forall_impl; [|exact Hr]. intros u [H _]. exact H. }
    assert (Hrel0 : forall j, (j < B)%nat -> rel_lv (nth j lastws None) (nth j LR LNaN)) by (intros j Hj; rewrite Hlw by assumption; now apply Hrel).
    destruct (mh_step_tie w f props us Nz burn Bs nk B N Hus_len Hus_rows Hpos lasts lastws LR Hlasts HLR Hrel0 evs n Hd Hn vv cs cr ac fb t1 Hv)
      as [st1 [LR' [v' [cs' [cr' [ac' [fb' [t1' [evs' [HA [HB [HL [HR HE]]]]]]]]]]]]].
    assert (Hnx : forall j, (j < B)%nat -> step_nxt w props us lasts lastws evs n j = nth j (nth (length evs) props []) 0%nat
                                          /\ step_nw w props us lastws evs n j = Some (w j (nth j (nth (length evs) props []) 0%nat))).
    { intros j Hj. destruct (Hw j Hj) as [c [Hc Hwc]].
      assert (Hu : (0 <= nth j (nth n us []) 0)%Q /\ (nth j (nth n us []) 0 < 1)%Q).
      { rewrite Forall_forall in Hus_unit, Hus_rows. assert (Hin : List.In (nth n us []) us) by (apply nth_In; lia).
        pose proof (Hus_unit _ Hin) as Hr. pose proof (Hus_rows _ Hin) as Hl. rewrite Forall_forall in Hr. apply Hr. apply nth_In. lia. }
      pose proof (model_step_accepts (w j) c (nth j lasts 0%nat) (nth j (nth (length evs) props []) 0%nat) _ Hc Hwc Hu) as E.
      unfold step_nxt, step_nw. rewrite Hlw by assumption. split; [exact E|].
      unfold mnxt in E. unfold mnw. destruct (macc (w j) (Some (w j (nth j lasts 0%nat))) (nth j (nth (length evs) props []) 0%nat) (nth j (nth n us []) 0%Q)) eqn:Em; [reflexivity|].
      (* not accepted: then the model keeps the last state, which equals the proposal only if they coincide; the ratio is the same constant *)
      exfalso. unfold macc in Em. apply negb_false_iff in Em. apply Qle_bool_iff in Em. rewrite !Hwc in Em.
      destruct Hu as [Hu0 Hu1]. assert ((nth j (nth n us []) 0 * c < 1 * c)%Q) by (apply Qmult_lt_compat_r; assumption).
      rewrite Qmult_1_l in H. apply (Qlt_irrefl c). eapply Qle_lt_trans; eassumption. }
    assert (Hnxt : map (step_nxt w props us lasts lastws evs n) (seq 0 B) = nth (length evs) props []).
    { transitivity (map (fun j => nth j (nth (length evs) props []) 0%nat) (seq 0 B)); [|apply list_tab; exact Hd].
      apply map_ext_in. intros j Hj. apply in_seq in Hj. apply Hnx. lia. }
    rewrite Hnxt in HB.
    eexists st1, LR', v', cs', cr', ac', fb', t1', evs'. split; [exact HA|split; [exact HB|]].
    intros j Hj. destruct (Hnx j Hj) as [_ E]. rewrite <- E. apply HR. exact Hj.
  Qed.
End Equal.
