(* C19 - the real-number reading of the relaxed-distribution formulas of Relaxed.v (exp, ln of Coq's
   Reals): density factorisation, thresholding a conditional sample, the conditional sample as a
   re-parametrised relaxed sample.  These are the only results that need the Reals axioms. *)
From Coq Require Import Reals Lra List Bool Lia.
From PV Require Import C19.Relaxed.
Import ListNotations.
Local Open Scope R_scope.

(* ========================================================================== *)

(* the real-number instance of the formulas of Relaxed.v *)
Definition Rleb (a b : R) : bool := if Rle_dec a b then true else false.
Definition Rarith : arith R :=
  mkArith R IZR Rplus Rminus Rmult Rdiv Ropp exp ln (fun x => ln (1 + x)) Rleb.

Lemma Rleb_true : forall a b, Rleb a b = true <-> a <= b.
Proof. intros. unfold Rleb. destruct (Rle_dec a b); split; auto; discriminate. Qed.
Lemma Rleb_false : forall a b, Rleb a b = false <-> b < a.
Proof. intros. unfold Rleb. destruct (Rle_dec a b); split; try discriminate; try lra; auto. Qed.

Lemma ln_pos : forall x, 1 < x -> 0 < ln x.
Proof. intros x H. rewrite <- ln_1. apply ln_increasing; lra. Qed.

Lemma ln_div' : forall a b, 0 < a -> 0 < b -> ln (a / b) = ln a - ln b.
Proof.
  intros a b Ha Hb. unfold Rdiv. rewrite ln_mult by (try apply Rinv_0_lt_compat; lra). rewrite ln_Rinv by lra. ring.
Qed.

(* ---------------- LogisticBernoulli ---------------- *)
(* "the relaxed density factors as threshold probability times conditional density" *)
Theorem logistic_density_factorises : forall l z,
  exists c, lb_clog_prob Rarith l z (lb_threshold Rarith z) = Some c /\
            lb_log_prob Rarith l z = lb_tlog_prob Rarith l (lb_threshold Rarith z) + c.
Proof.
  intros l z. unfold lb_clog_prob. rewrite eqb_reflx. eexists; split; [reflexivity|].
  unfold lb_log_prob, lb_tlog_prob, bnum. cbn [aadd asub amul aneg aexp alog1p aZ Rarith].
  destruct (lb_threshold Rarith z); ring.
Qed.

(* off the conditioning value the conditional density is zero (log = -inf) *)
Theorem logistic_clog_prob_off_value : forall l z b,
  b <> lb_threshold Rarith z -> lb_clog_prob Rarith l z b = None.
Proof.
  intros l z b H. unfold lb_clog_prob. destruct (eqb (lb_threshold Rarith z) b) eqn:E; [|reflexivity].
  apply eqb_prop in E. congruence.
Qed.

(* "thresholding a conditional relaxed sample always returns the conditioning value" *)
Theorem logistic_threshold_of_csample : forall p v b eps,
  0 < p < 1 -> 0 < v < 1 -> 0 <= eps ->
  lb_threshold Rarith (lb_csample Rarith p v b eps) = b.
Proof.
  intros p v b eps Hp Hv He. unfold lb_threshold, lb_csample, bnum.
  cbn [aadd asub amul adiv aneg alog aleb aZ Rarith].
  destruct b.
  - apply Rleb_true.
    assert (Hd : 0 < (1 - v) * ((1 - 1) * p + 1 * (1 - p))) by nra.
    assert (Hq : 0 < v / ((1 - v) * ((1 - 1) * p + 1 * (1 - p)))) by (apply Rdiv_lt_0_compat; lra).
    pose proof (ln_pos (v / ((1 - v) * ((1 - 1) * p + 1 * (1 - p))) + 1) ltac:(lra)). nra.
  - apply Rleb_false.
    assert (Hd : 0 < (1 - v) * ((1 - 0) * p + 0 * (1 - p))) by nra.
    assert (Hq : 0 < v / ((1 - v) * ((1 - 0) * p + 0 * (1 - p)))) by (apply Rdiv_lt_0_compat; lra).
    pose proof (ln_pos (v / ((1 - v) * ((1 - 0) * p + 0 * (1 - p))) + 1) ltac:(lra)). nra.
Qed.

(* the conditional sample IS the relaxed sample at an affinely mapped uniform: the map sends [0,1] onto the
   part of [0,1] whose relaxed sample thresholds to b (measure p resp. 1-p) - the conditional law is the
   relaxed law restricted to the threshold region *)
Theorem logistic_csample_is_rsample : forall p v,
  0 < p < 1 -> 0 < v < 1 ->
  lb_csample Rarith p v true 0 = lb_rsample Rarith (ln (p / (1 - p))) (1 - p + p * v) /\
  lb_csample Rarith p v false 0 = lb_rsample Rarith (ln (p / (1 - p))) ((1 - p) * (1 - v)).
Proof.
  intros p v Hp Hv. unfold lb_csample, lb_rsample, bnum.
  cbn [aadd asub amul adiv aneg alog alog1p aZ Rarith].
  assert (Hpp : 0 < p / (1 - p)) by (apply Rdiv_lt_0_compat; lra).
  split.
  - set (u := 1 - p + p * v). assert (Hu : 0 < u < 1) by (unfold u; nra).
    replace ((2 * 1 - 1) * ln (v / ((1 - v) * ((1 - 1) * p + 1 * (1 - p))) + 1) + 1 * 0)
      with (ln (v / ((1 - v) * (1 - p)) + 1)) by (replace ((1 - 1) * p + 1 * (1 - p)) with (1 - p) by ring; ring).
    replace (1 + - u) with (1 - u) by ring.
    rewrite <- ln_mult by lra.
    rewrite <- (ln_div' (p / (1 - p) * u) (1 - u)) by (try apply Rmult_lt_0_compat; lra).
    f_equal. unfold u. field. nra.
  - set (u := (1 - p) * (1 - v)). assert (Hu : 0 < u < 1) by (unfold u; nra).
    replace ((2 * 0 - 1) * ln (v / ((1 - v) * ((1 - 0) * p + 0 * (1 - p))) + 1) + 0 * 0)
      with (- ln (v / ((1 - v) * p) + 1)) by (replace ((1 - 0) * p + 0 * (1 - p)) with p by ring; ring).
    replace (1 + - u) with (1 - u) by ring.
    assert (Hz : 0 < v / ((1 - v) * p) + 1).
    { assert (0 < v / ((1 - v) * p)) by (apply Rdiv_lt_0_compat; nra). lra. }
    rewrite <- ln_Rinv by exact Hz.
    rewrite <- ln_mult by lra.
    rewrite <- (ln_div' (p / (1 - p) * u) (1 - u)) by (try apply Rmult_lt_0_compat; lra).
    f_equal. unfold u. field. nra.
Qed.

(* ========================================================================== *)

Definition bR (b : bool) : R := if b then 1 else 0.
Definition Rsum (l : list R) : R := fold_right Rplus 0 l.

Lemma asum_Rsum : forall l, asum Rarith l = Rsum l.
Proof. reflexivity. Qed.
Lemma bnum_bR : forall b, bnum Rarith b = bR b.
Proof. destruct b; reflexivity. Qed.

(* ---------------- one-hot vectors ---------------- *)
Lemma onehot_sum : forall n s k,
  Rsum (map bR (map (Nat.eqb k) (seq s n))) = if (s <=? k)%nat && (k <? s + n)%nat then 1 else 0.
Proof.
  induction n as [|n IH]; intros s k.
  - cbn [seq map Rsum fold_right]. destruct ((s <=? k)%nat && (k <? s + 0)%nat) eqn:E; [|reflexivity].
    apply andb_prop in E. destruct E as [E1 E2]. apply Nat.leb_le in E1. apply Nat.ltb_lt in E2. lia.
  - cbn [seq map Rsum fold_right]. fold (Rsum (map bR (map (Nat.eqb k) (seq (S s) n)))). rewrite IH.
    destruct (Nat.eqb_spec k s) as [->|Hne].
    + cbn [bR]. rewrite Nat.leb_refl.
      replace (S s <=? s)%nat with false by (symmetry; apply Nat.leb_gt; lia).
      replace (s <? s + S n)%nat with true by (symmetry; apply Nat.ltb_lt; lia). cbn. ring.
    + cbn [bR].
      destruct (s <=? k)%nat eqn:E1, (S s <=? k)%nat eqn:E2, (k <? S s + n)%nat eqn:E3, (k <? s + S n)%nat eqn:E4;
        cbn; try ring;
        repeat match goal with
               | H : (_ <=? _)%nat = true |- _ => apply Nat.leb_le in H
               | H : (_ <=? _)%nat = false |- _ => apply Nat.leb_gt in H
               | H : (_ <? _)%nat = true |- _ => apply Nat.ltb_lt in H
               | H : (_ <? _)%nat = false |- _ => apply Nat.ltb_ge in H
               end; lia.
Qed.

Lemma onehot_pick : forall zs s k,
  Rsum (zip2 (fun z b => z * bR b) zs (map (Nat.eqb k) (seq s (length zs)))) =
  if (s <=? k)%nat && (k <? s + length zs)%nat then nth (k - s) zs 0 else 0.
Proof.
  induction zs as [|z zs IH]; intros s k.
  - cbn [length seq map zip2 Rsum fold_right]. destruct ((s <=? k)%nat && (k <? s + 0)%nat); [destruct (k - s)%nat|]; reflexivity.
  - cbn [length seq map zip2 Rsum fold_right].
    fold (Rsum (zip2 (fun z b => z * bR b) zs (map (Nat.eqb k) (seq (S s) (length zs))))). rewrite IH.
    destruct (Nat.eqb_spec k s) as [->|Hne].
    + cbn [bR]. rewrite Nat.leb_refl, Nat.sub_diag.
      replace (S s <=? s)%nat with false by (symmetry; apply Nat.leb_gt; lia).
      replace (s <? s + S (length zs))%nat with true by (symmetry; apply Nat.ltb_lt; lia). cbn. ring.
    + cbn [bR].
      destruct (s <=? k)%nat eqn:E1, (S s <=? k)%nat eqn:E2, (k <? S s + length zs)%nat eqn:E3,
               (k <? s + S (length zs))%nat eqn:E4; cbn [andb];
        repeat match goal with
               | H : (_ <=? _)%nat = true |- _ => apply Nat.leb_le in H
               | H : (_ <=? _)%nat = false |- _ => apply Nat.leb_gt in H
               | H : (_ <? _)%nat = true |- _ => apply Nat.ltb_lt in H
               | H : (_ <? _)%nat = false |- _ => apply Nat.ltb_ge in H
               end; try lia; try ring.
      replace (k - s)%nat with (S (k - S s)) by lia. cbn [nth]. ring.
Qed.

Lemma onehot_nth_true : forall n k j, nth j (one_hot k n) false = true -> j = k /\ (j < n)%nat.
Proof.
  intros n k j H. unfold one_hot in H.
  destruct (Nat.lt_ge_cases j n) as [Hj|Hj].
  - rewrite (nth_indep _ false (Nat.eqb k 0)) in H by (rewrite map_length, seq_length; exact Hj).
    rewrite map_nth, seq_nth in H by exact Hj. apply Nat.eqb_eq in H. lia.
  - rewrite nth_overflow in H by (rewrite map_length, seq_length; exact Hj). discriminate.
Qed.

Lemma one_hot_length : forall k n, length (one_hot k n) = n.
Proof. intros. unfold one_hot. rewrite map_length, seq_length. reflexivity. Qed.

(* ---------------- argmax ---------------- *)
Lemma argmax_from_range : forall zs best bi i,
  argmax_from Rarith best bi i zs = bi \/
  (i <= argmax_from Rarith best bi i zs < i + length zs)%nat.
Proof.
  induction zs as [|z zs IH]; intros best bi i; [left; reflexivity|].
  cbn [argmax_from length]. destruct (aleb Rarith z best).
  - destruct (IH best bi (S i)) as [H|H]; [left; exact H|right; lia].
  - destruct (IH z i (S i)) as [H|H]; right; lia.
Qed.

Lemma argmax_lt : forall zs, zs <> [] -> (argmax Rarith zs < length zs)%nat.
Proof.
  intros [|z zs] H; [congruence|]. cbn [argmax length].
  destruct (argmax_from_range zs z 0%nat 1%nat) as [E|E]; lia.
Qed.

(* ---------------- the identity behind the factorisation ---------------- *)
(* the finite branch of g_clog_prob with z_k abstracted as Z *)
Definition clog_body (ls zc : list R) (bs : list bool) (Z : R) : R :=
  let negb_ := map (fun b => asub Rarith (aZ Rarith 1) (bnum Rarith b)) bs in
  let ls' := zip2 (amul Rarith) ls negb_ in
  let g := zip2 (fun l z => let g := asub Rarith l z in asub Rarith g (aexp Rarith g)) ls' zc in
  let G := zip2 (fun l nb => amul Rarith (aneg Rarith (aexp Rarith (asub Rarith l Z))) nb) ls' negb_ in
  asum Rarith (zip2 (asub Rarith) g G).

Lemma clog_unfold : forall ls zc bs,
  g_clog_prob Rarith ls zc bs =
  if bools_eqb (g_threshold Rarith zc) bs
  then Some (clog_body ls zc bs (asum Rarith (zip2 (fun z b => amul Rarith z (bnum Rarith b)) zc bs)))
  else None.
Proof. reflexivity. Qed.

Lemma gumbel_identity_aux : forall ls zs bs Z,
  length zs = length ls -> length bs = length ls ->
  (forall j, nth j bs false = true -> nth j zs 0 = Z) ->
  g_log_prob Rarith ls zs
  = g_tlog_prob Rarith ls bs + clog_body ls zs bs Z + exp (- Z) * (Rsum (map bR bs) - Rsum (map exp ls)).
Proof.
  unfold g_log_prob, g_tlog_prob, clog_body, asum.
  induction ls as [|l ls IH]; intros zs bs Z Hz Hb Hsel.
  - destruct zs, bs; try discriminate. cbn. ring.
  - destruct zs as [|z zs]; [discriminate|]. destruct bs as [|b bs]; [discriminate|].
    assert (Hsel' : forall j, nth j bs false = true -> nth j zs 0 = Z) by (intros j Hj; apply (Hsel (S j)); exact Hj).
    specialize (IH zs bs Z ltac:(cbn in Hz; lia) ltac:(cbn in Hb; lia) Hsel').
    cbn [zip2 map fold_right Rsum] in IH |- *. cbv zeta in IH |- *.
    cbn [aadd asub amul aneg aexp aZ Rarith bnum] in IH |- *.
    rewrite IH. clear IH.
    assert (El : exp (l - Z) = exp l * exp (- Z)) by (replace (l - Z) with (l + - Z) by ring; apply exp_plus).
    destruct b; cbn [bR]; change (bnum Rarith true) with 1; change (bnum Rarith false) with 0; unfold Rsum.
    + assert (z = Z) by (apply (Hsel 0%nat); reflexivity). subst z.
      replace (l * (1 - 1)) with 0 by ring. replace (0 - Z) with (- Z) by ring. rewrite El. ring.
    + replace (l * (1 - 0)) with l by ring. rewrite El. ring.
Qed.

Lemma bools_eqb_refl : forall l, bools_eqb l l = true.
Proof.
  intros l. unfold bools_eqb. rewrite Nat.eqb_refl. cbn [andb].
  induction l as [|b l IH]; [reflexivity|]. cbn. rewrite eqb_reflx. exact IH.
Qed.

Theorem gumbel_density_factorises : forall ls zs,
  length zs = length ls -> zs <> [] -> Rsum (map exp ls) = 1 ->
  exists c, g_clog_prob Rarith ls zs (g_threshold Rarith zs) = Some c /\
            g_log_prob Rarith ls zs = g_tlog_prob Rarith ls (g_threshold Rarith zs) + c.
Proof.
  intros ls zs Hlen Hne Hnorm. rewrite clog_unfold, bools_eqb_refl.
  eexists; split; [reflexivity|].
  unfold g_threshold.
  set (k := argmax Rarith zs). set (n := length zs).
  assert (Hk : (k < n)%nat) by (apply argmax_lt; exact Hne).
  set (Z := asum Rarith (zip2 (fun z b => amul Rarith z (bnum Rarith b)) zs (one_hot k n))).
  assert (HZ : Z = nth k zs 0).
  { unfold Z, one_hot, n.
    transitivity (Rsum (zip2 (fun z b => z * bR b) zs (map (Nat.eqb k) (seq 0 (length zs))))); [reflexivity|].
    rewrite onehot_pick. cbn [Nat.leb andb].
    replace (k <? 0 + length zs)%nat with true by (symmetry; apply Nat.ltb_lt; exact Hk).
    rewrite Nat.sub_0_r. reflexivity. }
  rewrite (gumbel_identity_aux ls zs (one_hot k n) Z Hlen ltac:(rewrite one_hot_length; unfold n; lia)).
  - unfold one_hot at 3. rewrite onehot_sum, Hnorm. cbn [Nat.leb andb].
    replace (k <? 0 + n)%nat with true by (symmetry; apply Nat.ltb_lt; exact Hk).
    cbn [aadd Rarith]. ring.
  - intros j Hj. apply onehot_nth_true in Hj. destruct Hj as [-> _]. symmetry. exact HZ.
Qed.

(* ========================================================================== *)

Lemma nth_zip2 : forall {X Y W} (f : X -> Y -> W) la lb j da db d,
  (j < length la)%nat -> (j < length lb)%nat ->
  nth j (zip2 f la lb) d = f (nth j la da) (nth j lb db).
Proof.
  intros X Y W f la. induction la as [|a la IH]; intros lb j da db d Ha Hb; [cbn in Ha; lia|].
  destruct lb as [|b lb]; [cbn in Hb; lia|]. destruct j as [|j]; [reflexivity|].
  cbn [zip2 nth]. apply IH; cbn in Ha, Hb; lia.
Qed.

Lemma zip2_length : forall {X Y W} (f : X -> Y -> W) la lb,
  length (zip2 f la lb) = Nat.min (length la) (length lb).
Proof.
  intros X Y W f la. induction la as [|a la IH]; intros [|b lb]; cbn; auto.
Qed.

Lemma zip2_map_l : forall {X X' Y W} (f : X' -> Y -> W) (g : X -> X') la lb,
  zip2 f (map g la) lb = zip2 (fun x y => f (g x) y) la lb.
Proof. intros X X' Y W f g la. induction la as [|a la IH]; intros [|b lb]; cbn; auto. f_equal. apply IH. Qed.

(* argmax returns the position of a strict, unique maximum *)
Lemma argmax_from_keep : forall zs best bi i,
  (forall z, In z zs -> z <= best) -> argmax_from Rarith best bi i zs = bi.
Proof.
  induction zs as [|z zs IH]; intros best bi i H; [reflexivity|].
  cbn [argmax_from]. replace (aleb Rarith z best) with true.
  - apply IH. intros; apply H; auto using in_cons.
  - symmetry. apply Rleb_true. apply H. apply in_eq.
Qed.

Lemma argmax_from_unique : forall zs best bi i k M,
  (k < length zs)%nat -> nth k zs 0 = M ->
  (forall j, (j < length zs)%nat -> j <> k -> nth j zs 0 < M) -> best < M ->
  argmax_from Rarith best bi i zs = (i + k)%nat.
Proof.
  induction zs as [|z zs IH]; intros best bi i k M Hk HM Hlt Hb; [cbn in Hk; lia|].
  cbn [argmax_from]. destruct k as [|k].
  - cbn [nth] in HM. subst z.
    replace (aleb Rarith M best) with false by (symmetry; apply Rleb_false; exact Hb).
    rewrite argmax_from_keep; [lia|].
    intros z Hz. apply In_nth with (d := 0) in Hz. destruct Hz as [j [Hj <-]].
    left. apply (Hlt (S j)); cbn; lia.
  - cbn [nth] in HM.
    assert (Hz : z < M) by (apply (Hlt 0%nat); cbn; lia).
    assert (Hlt' : forall j, (j < length zs)%nat -> j <> k -> nth j zs 0 < M).
    { intros j Hj Hne. apply (Hlt (S j)); cbn; lia. }
    destruct (aleb Rarith z best).
    + rewrite (IH best bi (S i) k M); auto; cbn in Hk; lia.
    + rewrite (IH z i (S i) k M); auto; cbn in Hk; lia.
Qed.

Lemma argmax_unique : forall zs k M,
  (k < length zs)%nat -> nth k zs 0 = M ->
  (forall j, (j < length zs)%nat -> j <> k -> nth j zs 0 < M) -> argmax Rarith zs = k.
Proof.
  intros [|z zs] k M Hk HM Hlt; [cbn in Hk; lia|]. cbn [argmax].
  destruct k as [|k].
  - cbn [nth] in HM. subst z. apply argmax_from_keep.
    intros z Hz. apply In_nth with (d := 0) in Hz. destruct Hz as [j [Hj <-]].
    left. apply (Hlt (S j)); cbn; lia.
  - cbn [nth] in HM. rewrite (argmax_from_unique zs z 0%nat 1%nat k M); auto.
    + cbn in Hk; lia.
    + intros j Hj Hne. apply (Hlt (S j)); cbn; lia.
    + apply (Hlt 0%nat); cbn; lia.
Qed.

Lemma ln_neg : forall v, 0 < v < 1 -> ln v < 0.
Proof. intros v H. rewrite <- ln_1. apply ln_increasing; lra. Qed.

Lemma onehot_nth : forall n k j, (j < n)%nat -> nth j (one_hot k n) false = Nat.eqb k j.
Proof.
  intros n k j Hj. unfold one_hot.
  rewrite (nth_indep _ false (Nat.eqb k 0)) by (rewrite map_length, seq_length; exact Hj).
  rewrite map_nth, seq_nth by exact Hj. reflexivity.
Qed.

(* "thresholding a conditional relaxed sample always returns the conditioning value" (categorical) *)
Theorem gumbel_threshold_of_csample : forall ps vs k eps,
  length ps = length vs -> (k < length vs)%nat ->
  Forall (fun p => 0 < p) ps -> Forall (fun v => 0 < v < 1) vs -> 0 <= eps ->
  g_threshold Rarith (g_csample Rarith ps vs (one_hot k (length vs)) eps) = one_hot k (length vs).
Proof.
  intros ps vs k eps Hlen Hk Hps Hvs Heps.
  set (n := length vs). set (bs := one_hot k n).
  unfold g_threshold, g_csample.
  set (log_v := map (alog Rarith) vs).
  set (zmatch := zip2 (fun lv b => amul Rarith (aneg Rarith (alog Rarith (aneg Rarith lv))) (bnum Rarith b)) log_v bs).
  set (M := asum Rarith zmatch).
  set (sb := asum Rarith (zip2 (fun lv b => amul Rarith lv (bnum Rarith b)) log_v bs)).
  set (znom := zip2 (fun lv p => aneg Rarith (alog Rarith (asub Rarith (adiv Rarith (aneg Rarith lv) p) sb))) log_v ps).
  set (znom' := zip2 (fun x b => amul Rarith (amin Rarith (asub Rarith M eps) x)
                                     (asub Rarith (aZ Rarith 1) (bnum Rarith b))) znom bs).
  set (out := zip2 (aadd Rarith) zmatch znom').
  assert (Llog : length log_v = n) by (unfold log_v; rewrite map_length; reflexivity).
  assert (Lbs : length bs = n) by (unfold bs; apply one_hot_length).
  assert (Lm : length zmatch = n) by (unfold zmatch; rewrite zip2_length, Llog, Lbs; lia).
  assert (Lnom : length znom = n) by (unfold znom; rewrite zip2_length, Llog, Hlen; fold n; lia).
  assert (Lnom' : length znom' = n) by (unfold znom'; rewrite zip2_length, Lnom, Lbs; lia).
  assert (Lout : length out = n) by (unfold out; rewrite zip2_length, Lm, Lnom'; lia).
  rewrite Lout.
  assert (Hv : forall j, (j < n)%nat -> 0 < nth j vs 0 < 1).
  { intros j Hj. rewrite Forall_forall in Hvs. apply Hvs. apply nth_In. exact Hj. }
  assert (Hp : forall j, (j < n)%nat -> 0 < nth j ps 1).
  { intros j Hj. rewrite Forall_forall in Hps. apply Hps. apply nth_In. rewrite Hlen. exact Hj. }
  assert (Hlv : forall j, (j < n)%nat -> nth j log_v 0 = ln (nth j vs 0)).
  { intros j Hj. unfold log_v. rewrite (nth_indep _ 0 (alog Rarith 0)) by (rewrite map_length; exact Hj).
    rewrite map_nth. reflexivity. }
  (* M = -ln(-ln v_k),  sb = ln v_k *)
  assert (HM : M = - ln (- ln (nth k vs 0))).
  { unfold M, zmatch, bs, one_hot.
    transitivity (Rsum (zip2 (fun z b => z * bR b) (map (fun lv => - ln (- lv)) log_v)
                              (map (Nat.eqb k) (seq 0 (length (map (fun lv => - ln (- lv)) log_v)))))).
    - rewrite zip2_map_l, map_length, Llog. reflexivity.
    - rewrite onehot_pick, map_length, Llog. cbn [Nat.leb andb].
      replace (k <? 0 + n)%nat with true by (symmetry; apply Nat.ltb_lt; exact Hk).
      rewrite Nat.sub_0_r.
      rewrite (nth_indep _ 0 ((fun lv => - ln (- lv)) 0)) by (rewrite map_length, Llog; exact Hk).
      rewrite (map_nth (fun lv => - ln (- lv))), Hlv by exact Hk. reflexivity. }
  assert (Hsb : sb = ln (nth k vs 0)).
  { unfold sb, bs, one_hot.
    transitivity (Rsum (zip2 (fun z b => z * bR b) log_v (map (Nat.eqb k) (seq 0 (length log_v))))).
    - rewrite Llog. reflexivity.
    - rewrite onehot_pick, Llog. cbn [Nat.leb andb].
      replace (k <? 0 + n)%nat with true by (symmetry; apply Nat.ltb_lt; exact Hk).
      rewrite Nat.sub_0_r. apply Hlv. exact Hk. }
  (* the entries *)
  assert (Hentry : forall j, (j < n)%nat ->
            nth j out 0 =
            (- ln (- ln (nth j vs 0))) * bR (Nat.eqb k j)
            + amin Rarith (M - eps) (- ln ((- ln (nth j vs 0)) / nth j ps 1 - sb)) * (1 - bR (Nat.eqb k j))).
  { intros j Hj. unfold out.
    rewrite (nth_zip2 _ zmatch znom' j 0 0 0) by lia.
    unfold zmatch. rewrite (nth_zip2 _ log_v bs j 0 false 0) by lia.
    unfold znom'. rewrite (nth_zip2 _ znom bs j 0 false 0) by lia.
    unfold znom. rewrite (nth_zip2 _ log_v ps j 0 1 0) by (rewrite ?Hlen; fold n; lia).
    unfold bs. rewrite onehot_nth, Hlv by exact Hj.
    cbn [aadd asub amul adiv aneg alog aZ Rarith]. rewrite bnum_bR. reflexivity. }
  assert (Emax : argmax Rarith out = k).
  { apply (argmax_unique out k M).
    - lia.
    - rewrite Hentry by exact Hk. rewrite Nat.eqb_refl. cbn [bR]. rewrite HM. ring.
    - intros j Hj Hne. rewrite Lout in Hj. rewrite Hentry by exact Hj.
      replace (Nat.eqb k j) with false by (symmetry; apply Nat.eqb_neq; lia). cbn [bR].
      pose proof (Hv j Hj) as Hvj. pose proof (Hv k Hk) as Hvk. pose proof (Hp j Hj) as Hpj.
      pose proof (ln_neg _ Hvj) as Lj. pose proof (ln_neg _ Hvk) as Lk.
      assert (Hq : 0 < - ln (nth j vs 0) / nth j ps 1) by (apply Rdiv_lt_0_compat; lra).
      assert (Hnom : - ln (- ln (nth j vs 0) / nth j ps 1 - sb) < M).
      { rewrite HM, Hsb. apply Ropp_lt_contravar. apply ln_increasing; lra. }
      unfold amin. destruct (aleb Rarith (M - eps) (- ln (- ln (nth j vs 0) / nth j ps 1 - sb))) eqn:E.
      + apply Rleb_true in E. lra.
      + lra. }
  rewrite Emax. reflexivity.
Qed.

(* ========================================================================== *)

(* the thresholded relaxed sample is 1 exactly on u in [1 - p, 1): an event of Lebesgue measure p *)
Theorem logistic_threshold_iff : forall p u, 0 < p < 1 -> 0 < u < 1 ->
  (lb_threshold Rarith (lb_rsample Rarith (ln (p / (1 - p))) u) = true <-> 1 - p <= u).
Proof.
  intros p u Hp Hu. unfold lb_threshold, lb_rsample.
  cbn [aadd asub aneg alog alog1p aleb aZ Rarith].
  assert (Hpp : 0 < p / (1 - p)) by (apply Rdiv_lt_0_compat; lra).
  replace (1 + - u) with (1 - u) by ring.
  rewrite <- ln_mult by lra.
  rewrite <- (ln_div' (p / (1 - p) * u) (1 - u)) by (try apply Rmult_lt_0_compat; lra).
  set (x := p / (1 - p) * u / (1 - u)).
  assert (Hx : 0 < x) by (unfold x; apply Rdiv_lt_0_compat; [apply Rmult_lt_0_compat|]; lra).
  assert (Hxe : x - 1 = (u - (1 - p)) / ((1 - p) * (1 - u))) by (unfold x; field; lra).
  assert (Hden : 0 < (1 - p) * (1 - u)) by nra.
  rewrite Rleb_true. split.
  - intros H. destruct (Rle_or_lt (1 - p) u) as [|Hlt]; [assumption|]. exfalso.
    assert (x < 1).
    { assert ((u - (1 - p)) / ((1 - p) * (1 - u)) < 0); [|lra].
      pose proof (Rinv_0_lt_compat _ Hden). unfold Rdiv. nra. }
    pose proof (ln_increasing x 1 Hx H0) as L. rewrite ln_1 in L. lra.
  - intros H. assert (1 <= x).
    { assert (0 <= (u - (1 - p)) / ((1 - p) * (1 - u))); [|lra].
      pose proof (Rinv_0_lt_compat _ Hden). unfold Rdiv. nra. }
    rewrite <- ln_1. destruct H0 as [H0|H0]; [left; apply ln_increasing; lra|rewrite <- H0; right; reflexivity].
Qed.
