(* C03 - the source tie of `optimal_completion` (src/pydrobert/torch/_string.py), whole body: the call of
   `_string_matching(..., return_mask=True, exclude_last=..)` (= the interpretation of PV.Gen.C03Src.sm3_body, Tie.mask_body_is_model),
   the post-processing (TieOc.post_run, fin_run) and the identification of its closed forms with PV.C03.Model (TieOcModel):
   the interpreted PV.Gen.C03Src.oc_body returns the tensor of Model.optimal_completion - for every batch, widths, tokens,
   eos / include_eos / batch_first / exclude_last / padding setting and costs c / s. *)
From Coq Require Import ZArith QArith List String Bool Arith Lia ZifyBool ZifyNat.
From PV Require Import MiniPy.Syntax MiniPy.Interp MiniPy.Lemmas MiniTorch.Ops MiniTorch.Lemmas MiniTorch.OpsC07 MiniTorch.LemmasC07
  MiniTorch.OpsC01 MiniTorch.LemmasC01 MiniTorch.OpsC03 MiniTorch.LemmasC03.
From PV Require Import Gen.C03Src C01.SrcRun C01.TieLib C01.TieWhole C01.TiePre C03.SrcRun C03.TieLib C03.TieOcLib C03.TieOc C03.TieOcModel C03.Tie.
From PV Require C01.Obs C01.Spec C01.Model C01.Proofs C01.TieLoop C01.TieBlocks C01.Tie
  C03.Spec C03.Model C03.ProofsSelect C03.ProofsTop C03.ProofsMask C03.ProofsMain.
Import ListNotations.
Local Open Scope string_scope.

#[local] Arguments dec01 : simpl never.
#[local] Arguments enc_b : simpl never.
#[local] Arguments enc_i : simpl never.
#[local] Arguments enc_x : simpl never.
#[local] Arguments tab2 : simpl never.
#[local] Arguments tab3 : simpl never.
#[local] Arguments qz : simpl never.
#[local] Arguments Z.of_nat : simpl never.
#[local] Arguments ext01 : simpl never.
#[local] Arguments ext03 : simpl never.
#[local] Arguments ext03_sm : simpl never.
#[local] Arguments ext03_oc : simpl never.
#[local] Arguments seq : simpl never.
#[local] Arguments mat_tensor : simpl never.

Notation colf := C01.TieLoop.colf.
Notation wf_src := C01.Tie.wf_src.
Notation at_src := C01.Tie.at_src.

(* ---- nested lists and flat tables ------------------------------------------------------------------------------------ *)
Lemma nth_skipn_gen : forall {A} k i (l : list A) d, nth i (skipn k l) d = nth (k + i) l d.
Proof. intros A k. induction k as [|k IH]; intros i [|a l] d; cbn [skipn nth Nat.add]; try reflexivity; [now destruct i|apply IH]. Qed.

Lemma chunk_tab3 : forall A B C (f : nat -> nat -> nat -> Z) a b, (a < A)%nat -> (b < B)%nat ->
  firstn C (skipn ((a * B + b) * C) (tab3 A B C f)) = map (f a b) (seq 0 C).
Proof.
  intros A B C f a b Ha Hb.
  assert (H1 : (a * B + b + 1 <= A * B)%nat) by nia.
  assert (H2 : ((a * B + b) * C + C <= A * (B * C))%nat).
  { replace ((a * B + b) * C + C)%nat with ((a * B + b + 1) * C)%nat by lia. rewrite Nat.mul_assoc. now apply Nat.mul_le_mono_r. }
  apply (nth_ext _ _ 0%Z 0%Z).
  - rewrite firstn_length, skipn_length, length_tab3, map_length, seq_length. lia.
  - intros i Hi. rewrite firstn_length, skipn_length, length_tab3 in Hi.
    assert (HiC : (i < C)%nat) by lia.
    rewrite C03.ProofsTop.nth_firstn_lt by exact HiC. rewrite nth_skipn_gen, nth_map_seq by exact HiC.
    now apply nth_tab3.
Qed.

Definition nest3 (A B C : nat) (f : nat -> nat -> nat -> Z) : list (list (list Z)) :=
  map (fun a => map (fun b => map (f a b) (seq 0 C)) (seq 0 B)) (seq 0 A).

Lemma unflatten_tab3 : forall A B C f, C03.Model.unflatten A B C (tab3 A B C f) = nest3 A B C f.
Proof.
  intros. unfold C03.Model.unflatten, nest3. apply map_ext_seq. intros a Ha. apply map_ext_seq. intros b Hb.
  now apply chunk_tab3.
Qed.

Lemma concat_nest3 : forall A B C f, List.concat (List.concat (nest3 A B C f)) = tab3 A B C f.
Proof.
  intros. unfold nest3, tab3. rewrite <- flat_map_concat_map, concat_flat_map.
  apply flat_map_ext_seq. intros a Ha. now rewrite <- flat_map_concat_map.
Qed.

Lemma transpose01_nest3 : forall A B C f,
  C03.Model.transpose01 A B (nest3 A B C f) = nest3 B A C (fun b a c => f a b c).
Proof.
  intros. unfold C03.Model.transpose01, nest3. apply map_ext_seq. intros b Hb. apply map_ext_seq. intros a Ha.
  rewrite (nth_map_seq (fun a0 => map (fun b0 => map (f a0 b0) (seq 0 C)) (seq 0 B)) A a []) by exact Ha.
  now rewrite (nth_map_seq (fun b0 => map (f a b0) (seq 0 C)) B b []) by exact Hb.
Qed.

Lemma map2_as_seq : forall {A B C} (f : A -> B -> C) n (l1 : list A) (l2 : list B) d1 d2,
  List.length l1 = n -> List.length l2 = n ->
  C01.Model.map2 f l1 l2 = map (fun i => f (nth i l1 d1) (nth i l2 d2)) (seq 0 n).
Proof.
  intros A B C f n l1. revert n. induction l1 as [|x l1 IH]; intros n [|y l2] d1 d2 H1 H2; cbn [List.length] in *; subst n;
    try discriminate; [reflexivity|].
  cbn [C01.Model.map2]. rewrite <- cons_seq. cbn [map nth]. f_equal. rewrite <- seq_shift, map_map.
  apply IH; [reflexivity|cbn [List.length] in H2; lia].
Qed.

(* ---- the model's cells are the source's ------------------------------------------------------------------------------ *)
Section Conn.
  Variables (c : C01.Model.cfg) (N R' H : nat) (ref hyp : list (list Z)).
  Notation R := (S R').
  Notation bf := (C01.Model.c_bf c).
  Hypothesis HN : (0 < N)%nat.
  Hypothesis Hr : wf_src bf N R ref.
  Hypothesis Hh : wf_src bf N H hyp.

  Let rf := at_src bf ref.
  Let K := C03.Model.oc_rows c N hyp.
  Let mk (k i n : nat) : bool := nth i (nth k (nth n (C03.Model.oc_masks c N ref hyp) []) []) false.
  Let Hwr := C01.Tie.wf_src_model _ _ _ _ Hr.
  Let Hwh := C01.Tie.wf_src_model _ _ _ _ Hh.

  Lemma refs_nth n : (n < N)%nat -> nth n (C01.Model.sequences bf N ref) [] = rcolz R' rf n.
  Proof. intros Hn. rewrite C01.Proofs.sequences_nth by assumption. symmetry. exact (C01.Tie.colf_seq_of _ N R ref n Hn Hr). Qed.

  Lemma masks_nth k n : (k < K)%nat -> (n < N)%nat ->
    nth k (nth n (C03.Model.oc_masks c N ref hyp) []) [] = mrow R' mk k n.
  Proof.
    intros Hk Hn. unfold mrow. apply list_as_map_nth.
    rewrite (C03.ProofsTop.oc_masks_nth c N ref hyp _ _ _ _ n (eff_costs_eq c) Hn).
    rewrite C03.ProofsMask.pair_masks_row_length by (try apply C01.Proofs.eff_len_le; unfold K in Hk; lia).
    rewrite refs_nth by exact Hn. unfold rcolz. now rewrite map_length, seq_length.
  Qed.

  Lemma cells_model : C03.ProofsTop.sel_rows c N ref hyp = sel_cells R' N K rf mk.
  Proof.
    unfold C03.ProofsTop.sel_rows, C03.Model.oc_cells, C03.Model.oc_grid, sel_cells. fold K.
    rewrite <- flat_map_concat_map, map_flat_map. apply flat_map_ext_seq. intros k Hk.
    rewrite (map2_as_seq _ N _ _ [] []) by (now rewrite ?C01.Proofs.sequences_length, ?C03.ProofsTop.oc_masks_length).
    rewrite map_map. apply map_ext_seq. intros n Hn. cbn [fst snd].
    rewrite refs_nth, masks_nth by assumption. reflexivity.
  Qed.

  Lemma width_model : C03.Model.oc_width c N ref hyp = widthf R' N K rf mk.
  Proof.
    unfold C03.Model.oc_width. rewrite C03.ProofsTop.oc_counts_sel, cells_model. symmetry. apply width_cells.
    - unfold K, C03.Model.oc_rows. lia.
    - lia.
  Qed.

  (* the tensor of the model's result, in the layout the function returns *)
  Definition model_oc_tensor : tn Z :=
    mkTn (if bf then [N; K; C03.Model.oc_width c N ref hyp] else [K; N; C03.Model.oc_width c N ref hyp])
         (List.concat (List.concat (C03.Model.optimal_completion c N ref hyp))).

  Lemma opt_as_nest :
    C03.Model.optimal_completion c N ref hyp =
    if bf then nest3 N K (widthf R' N K rf mk) (fun n k w => outf R' N K rf mk (C01.Model.c_pad c) k n w)
    else nest3 K N (widthf R' N K rf mk) (outf R' N K rf mk (C01.Model.c_pad c)).
  Proof.
    assert (HK : K <> 0%nat) by (unfold K, C03.Model.oc_rows; lia). assert (HN' : N <> 0%nat) by lia.
    unfold C03.Model.optimal_completion. cbv zeta.
    change (List.concat (map (fun sm => C03.Model.masked_select (fst sm) (snd sm)) (C03.Model.oc_cells c N ref hyp)))
      with (List.concat (C03.ProofsTop.sel_rows c N ref hyp)).
    rewrite C03.ProofsTop.oc_flat. fold K. rewrite width_model.
    assert (Eflat : List.concat (map (C03.ProofsTop.padrow c N ref hyp) (C03.ProofsTop.sel_rows c N ref hyp))
                    = tab3 K N (widthf R' N K rf mk) (outf R' N K rf mk (C01.Model.c_pad c))).
    { rewrite cells_model. rewrite <- (out_cells R' N K rf mk (C01.Model.c_pad c) HK HN').
      f_equal. apply map_ext. intros L. unfold C03.ProofsTop.padrow, padcell. now rewrite width_model. }
    rewrite Eflat, unflatten_tab3. destruct bf; [apply transpose01_nest3|reflexivity].
  Qed.

  Lemma result_model : oc_result bf R' N K rf mk (outf R' N K rf mk (C01.Model.c_pad c)) = enc_i model_oc_tensor.
  Proof.
    unfold oc_result, model_oc_tensor. rewrite opt_as_nest, width_model. destruct bf; now rewrite concat_nest3.
  Qed.

  (* row (k, n) of the returned tensor, read off its flat data, is the model's entry *)
  Lemma flat_row_entry k n : (k < K)%nat -> (n < N)%nat ->
    let W := C03.Model.oc_width c N ref hyp in
    firstn W (skipn ((if bf then n * K + k else k * N + n) * W) (dat model_oc_tensor))
    = C03.ProofsTop.entry3 bf k n (C03.Model.optimal_completion c N ref hyp).
  Proof.
    intros Hk Hn W. unfold model_oc_tensor, W. cbn [dat]. rewrite opt_as_nest, width_model. unfold C03.ProofsTop.entry3.
    destruct bf; rewrite concat_nest3, chunk_tab3 by assumption; unfold nest3.
    - rewrite (nth_map_seq _ N n []) by exact Hn. now rewrite (nth_map_seq _ K k []) by exact Hk.
    - rewrite (nth_map_seq _ K k []) by exact Hk. now rewrite (nth_map_seq _ N n []) by exact Hn.
  Qed.
End Conn.

(* ---- the whole body --------------------------------------------------------------------------------------------------- *)
#[local] Arguments call_body3 : simpl never.

(* optimal_completion(ref, hyp, eos, include_eos, batch_first, ins_cost, del_cost, sub_cost, padding, exclude_last, warn) *)
Definition oc_params (s : positive) (c : C01.Model.cfg) (N : nat) (ref hyp : list (list Z)) (w : bool) : list (string * val) :=
  [("ref", enc_i (mat_tensor (C01.Model.c_bf c) N ref)); ("hyp", enc_i (mat_tensor (C01.Model.c_bf c) N hyp));
   ("eos", opt_int (C01.Model.c_eos c)); ("include_eos", VBool (C01.Model.c_incl c)); ("batch_first", VBool (C01.Model.c_bf c));
   ("ins_cost", VQ (qz s (C01.Model.c_ins c))); ("del_cost", VQ (qz s (C01.Model.c_del c))); ("sub_cost", VQ (qz s (C01.Model.c_sub c)));
   ("padding", VInt (C01.Model.c_pad c)); ("exclude_last", VBool (C01.Model.c_excl c)); ("warn", VBool w)] ++ globals01.

Definition run_oc (prog : stmt) (s : positive) (c : C01.Model.cfg) (N : nat) (ref hyp : list (list Z)) (w : bool) : outcome val :=
  Interp.run ext03_oc prog (oc_params s c N ref hyp w).

(* the blocks in sequence: the call, the post-processing, the scatter and return *)
Definition oc_blocks : stmt := SSeq oc_call (SSeq oc_post oc_fin).

Lemma oc_body_split : forall st, exec ext03_oc oc_body st = exec ext03_oc oc_blocks st.
Proof. intros st. unfold oc_blocks. rewrite !(xexec_flatten ext03_oc). f_equal. Qed.

Theorem oc_blocks_is_model :
  forall (s : positive) (c : C01.Model.cfg) (N R' H : nat) (ref hyp : list (list Z)) (w : bool),
  (0 < N)%nat -> wf_src (C01.Model.c_bf c) N (S R') ref -> wf_src (C01.Model.c_bf c) N H hyp ->
  (C01.Model.c_eos c <> None -> H <> 0%nat) ->
  exists st', run_oc oc_blocks s c N ref hyp w = Ok (enc_i (model_oc_tensor c N ref hyp)) st'.
Proof.
  intros s c N R' H ref hyp w HN Hr Hh Hnz.
  destruct (mask_body_is_model s c N (S R') H ref hyp w HN ltac:(discriminate) Hr Hh Hnz) as [stm Hm].
  unfold run_mask_body, run_prog3, ext03 in Hm.
  unfold run_oc, Interp.run. match goal with |- context [exec ext03_oc _ ?st0] => set (st0' := st0) end.
  assert (K0 : known3 st0' (oc_params s c N ref hyp w)).
  { unfold st0', oc_params, globals01. cbn [known3 app]. repeat split; reflexivity. }
  unfold oc_params, globals01 in K0. open_known3 K0.
  assert (Hret : returns3 (enc_i (model_oc_tensor c N ref hyp)) (exec ext03_oc oc_blocks st0')).
  { unfold oc_blocks, oc_call.
    assign3x ltac:(evo; unfold call_body3;
                   match goal with |- match ?r with _ => _ end = _ =>
                     replace r with (Ok (enc_b (model_mask_tensor c N (S R') ref hyp)) stm) by (symmetry; exact Hm)
                   end; reflexivity).
    match goal with L : lookup "ref" (vars _) = Some _ |- _ => rewrite (C01.Tie.mat_tensor_in _ N (S R') ref HN Hr) in L end.
    pose (rf := at_src (C01.Model.c_bf c) ref). pose (Kr := C03.Model.oc_rows c N hyp).
    pose (mk := fun k i n => nth i (nth k (nth n (C03.Model.oc_masks c N ref hyp) []) []) false).
    assert (HK : Kr <> 0%nat) by (unfold Kr, C03.Model.oc_rows; lia). assert (HN' : N <> 0%nat) by lia.
    eapply xreturns_seq.
    - apply (post_run (C01.Model.c_bf c) R' N Kr rf mk (C01.Model.c_pad c)); [exact HK|exact HN'|].
      unfold oc_stage0, model_mask_tensor in *. close_known3.
    - intros st1 K1. rewrite <- (result_model c N R' H ref hyp HN Hr Hh).
      apply (fin_run (C01.Model.c_bf c) R' N Kr rf mk (C01.Model.c_pad c)); [|exact K1].
      now apply scatter_cells. }
  destruct Hret as [st' He]. rewrite He. now exists st'.
Qed.

Theorem oc_body_is_model :
  forall (s : positive) (c : C01.Model.cfg) (N R' H : nat) (ref hyp : list (list Z)) (w : bool),
  (0 < N)%nat -> wf_src (C01.Model.c_bf c) N (S R') ref -> wf_src (C01.Model.c_bf c) N H hyp ->
  (C01.Model.c_eos c <> None -> H <> 0%nat) ->
  exists st', run_oc oc_body s c N ref hyp w = Ok (enc_i (model_oc_tensor c N ref hyp)) st'.
Proof.
  intros s c N R' H ref hyp w HN Hr Hh Hnz.
  destruct (oc_blocks_is_model s c N R' H ref hyp w HN Hr Hh Hnz) as [st' He]. exists st'.
  unfold run_oc, Interp.run in *. now rewrite oc_body_split.
Qed.

(* the executable of the harness is this run *)
Corollary src_oc_is_model :
  forall (c : C01.Model.cfg) (scale : Z) (N R' H : nat) (ref hyp : list (list Z)),
  (0 < N)%nat -> wf_src (C01.Model.c_bf c) N (S R') ref -> wf_src (C01.Model.c_bf c) N H hyp ->
  (C01.Model.c_eos c <> None -> H <> 0%nat) ->
  src_oc oc_body c scale N ref hyp = Some (Some (model_oc_tensor c N ref hyp)).
Proof.
  intros c scale N R' H ref hyp HN Hr Hh Hnz.
  destruct (oc_body_is_model (Z.to_pos scale) c N R' H ref hyp false HN Hr Hh Hnz) as [st' He].
  unfold src_oc, oc_vars, cost_q. unfold run_oc, oc_params, qz in He. rewrite He, dec01_enc_i. reflexivity.
Qed.

(* ---- composed with the property theorem of the model: a statement purely about the interpreted source ---------------- *)
Theorem oc_source_rows_correct :
  forall (s : positive) (c : C01.Model.cfg) (N R' H : nat) (ref hyp : list (list Z)) (w : bool),
  (0 < N)%nat -> wf_src (C01.Model.c_bf c) N (S R') ref -> wf_src (C01.Model.c_bf c) N H hyp ->
  (C01.Model.c_eos c <> None -> H <> 0%nat) ->
  (0 < C01.Model.c_ins c)%Z -> (0 < C01.Model.c_del c)%Z -> (0 < C01.Model.c_sub c)%Z ->
  exists (K W : nat) (data : list Z) st',
    run_oc oc_body s c N ref hyp w
      = Ok (enc_i (mkTn (if C01.Model.c_bf c then [N; K; W] else [K; N; W]) data)) st' /\
    K = S (H + (if C01.Model.c_excl c then 0 else 1) - 1) /\
    forall n k, (n < N)%nat ->
      let rseq := C01.Spec.denote (C01.Model.c_eos c) (C01.Model.c_incl c) (C01.Proofs.seq_of (C01.Model.c_bf c) n ref) in
      let hseq := C01.Spec.denote (C01.Model.c_eos c) (C01.Model.c_incl c) (C01.Proofs.seq_of (C01.Model.c_bf c) n hyp) in
      (k = 0 \/ k < List.length hseq + (if C01.Model.c_excl c then 0 else 1))%nat ->
      exists L,
        firstn W (skipn ((if C01.Model.c_bf c then n * K + k else k * N + n) * W) data)
          = (L ++ repeat (C01.Model.c_pad c) (W - List.length L))%list /\
        (List.length L <= W)%nat /\ Sorted.StronglySorted Z.lt L /\
        forall t, List.In t L <->
          C03.Spec.preserving (C01.Model.c_ins c) (C01.Model.c_del c) (C01.Model.c_sub c) rseq (firstn k hseq) t.
Proof.
  intros s c N R' H ref hyp w HN Hr Hh Hnz Hi Hd Hs.
  destruct (oc_body_is_model s c N R' H ref hyp w HN Hr Hh Hnz) as [st' He].
  pose proof (C01.Tie.wf_src_model _ _ _ _ Hr) as Hwr. pose proof (C01.Tie.wf_src_model _ _ _ _ Hh) as Hwh.
  assert (HT : C01.Proofs.time_len (C01.Model.c_bf c) hyp = H).
  { rewrite <- (C01.Proofs.seq_of_length _ N hyp 0 HN Hwh), <- (C01.Tie.colf_seq_of _ N H hyp 0 HN Hh).
    apply C01.TiePre.colf_length. }
  assert (Hrows : C03.Model.oc_rows c N hyp = S (H + (if C01.Model.c_excl c then 0 else 1) - 1)).
  { rewrite (C03.ProofsMain.oc_rows_time c N ref hyp 0 HN Hwh), HT. reflexivity. }
  exists (C03.Model.oc_rows c N hyp), (C03.Model.oc_width c N ref hyp), (dat (model_oc_tensor c N ref hyp)), st'.
  split; [exact He|]. split; [exact Hrows|].
  intros n k Hn rseq hseq Hk.
  assert (Hlen : (List.length hseq <= H)%nat).
  { unfold hseq. rewrite C01.Proofs.length_denote. rewrite <- HT, <- (C01.Proofs.seq_of_length _ N hyp n Hn Hwh).
    apply C01.Proofs.eff_len_le. }
  assert (HkK : (k < C03.Model.oc_rows c N hyp)%nat) by (rewrite Hrows; destruct Hk; lia).
  rewrite (flat_row_entry c N R' H ref hyp HN Hr Hh k n HkK Hn).
  exact (C03.ProofsMain.oc_row_correct c N ref hyp n Hn Hwr Hwh k Hi Hd Hs Hk).
Qed.
