(* C11 - what the property says, independent of how the code works.
   (1) which transcripts are "expressible in the format" (hypotheses of the theorems),
   (2) boolean readings of the round-trip clauses on IMPLEMENTATION outputs, used by the harness to
       judge an output that differs from the model. *)
From Coq Require Import List ZArith Bool QArith Qabs.
From PV Require Import C11.Model.
Import ListNotations.
Local Open Scope Z_scope.

(* ---------------------------------------------------------------------------------- trn *)

(* a character that is neither white space nor "{" ... *)
Definition plain_top (c : char) : bool := negb (is_space c) && negb (c =? c_lbrace).
(* ... and inside an alternate also neither "/" nor "}" *)
Definition plain_in (c : char) : bool :=
  plain_top c && negb (c =? c_slash) && negb (c =? c_rbrace).

Definition tok_okb (inside : bool) (t : str) : bool :=
  match t with [] => false | _ :: _ => forallb (if inside then plain_in else plain_top) t end.

Definition is_nil {A} (l : list A) : bool := match l with [] => true | _ => false end.

(* an alternate has at least one branch and its last branch is not empty (sclite's "{ }" is an
   error); other branches may be empty ("{ / a }"); nesting is unbounded *)
Fixpoint elem_okb (inside : bool) (x : elem) : bool :=
  match x with
  | Tok t => tok_okb inside t
  | Alt brs =>
      negb (is_nil brs) && negb (is_nil (last brs [])) &&
      forallb (fun b => forallb (elem_okb true) b) brs
  end.

(* an utterance id may contain anything (spaces, ")", braces ...) but "(" and line breaks *)
Definition utt_okb (u : str) : bool :=
  forallb (fun c => negb (c =? c_lpar) && negb (c =? c_nl) && negb (c =? 13)) u.

Definition trn_okb (ts : list (str * list elem)) : bool :=
  forallb (fun ut => utt_okb (fst ut) && forallb (elem_okb false) (snd ut)) ts.

(* boolean reading of "writing then reading returns the same utterances and tokens" *)
Definition trn_roundtrip_okb (ts : list (str * list elem)) (read_back : res (list (str * list elem)))
  : bool :=
  implb (trn_okb ts) (res_eqb (list_eqb utt_eqb) (Ok ts) read_back).

(* ---------------------------------------------------------------------------------- ctm *)

Fixpoint remove_first {A} (eqb : A -> A -> bool) (x : A) (l : list A) : option (list A) :=
  match l with
  | [] => None
  | y :: t => if eqb x y then Some t
              else match remove_first eqb x t with Some r => Some (y :: r) | None => None end
  end.

Fixpoint permb {A} (eqb : A -> A -> bool) (a b : list A) : bool :=
  match a with
  | [] => is_nil b
  | x :: a' => match remove_first eqb x b with Some b' => permb eqb a' b' | None => false end
  end.

Fixpoint sortedb {A} (leb : A -> A -> bool) (l : list A) : bool :=
  match l with
  | [] => true
  | x :: t => match t with [] => true | y :: _ => leb x y && sortedb leb t end
  end.

Definition wc_ltb (a b : str * str) : bool := match wc_cmp a b with Lt => true | _ => false end.

(* [key u] = the (waveform, channel) the utterance is filed under.  The read-back list must hold
   the same utterances, ordered by key, each with the same multiset of (token, start, end),
   ordered by start time - "up to their mandated ordering". *)
Definition ctm_roundtrip_okb (key : str -> str * str) (ts out : list (str * list timed)) : bool :=
  permb str_eqb (map fst ts) (map fst out)
  && sortedb (fun a b => wc_ltb (key (fst a)) (key (fst b))) out
  && forallb (fun ut =>
       match assoc str_eqb (fst ut) out with
       | Some toks => permb timed_eqb (snd ut) toks && sortedb timed_start_leb toks
       | None => false
       end) ts.

(* --------------------------------------------------------------------------------- TextGrid *)

Definition half_unit (p : nat) : Q := 1 # (2 * Z.to_pos (pow10 p)).

Definition close_to (p : nat) (x y : Q) : bool :=
  if Qlt_le_dec (half_unit p) (Qabs (x - y)) then false else true.

(* same tokens in the same order, times within half a unit of the last printed digit; a point
   tier keeps only the start time *)
Definition tg_roundtrip_okb (p : nat) (point : bool) (tr out : list entry) : bool :=
  list_eqb (fun a b =>
              str_eqb (e_tok a) (e_tok b) && close_to p (e_start a) (e_start b)
              && (if point then Qeq_bool (e_end b) (e_start b) else close_to p (e_end a) (e_end b)))
           tr out.

(* "unlabelled gaps filled on request": the result tiles [xmin, xmax] *)
Fixpoint contiguous (t : Q) (xmax : Q) (l : list entry) : Prop :=
  match l with
  | [] => (t == xmax)%Q
  | x :: r => (e_start x == t)%Q /\ contiguous (e_end x) xmax r
  end.

Fixpoint contiguousb (t : Q) (xmax : Q) (l : list entry) : bool :=
  match l with
  | [] => Qeq_bool t xmax
  | x :: r => Qeq_bool (e_start x) t && contiguousb (e_end x) xmax r
  end.

(* [sub] is obtained from [l] by deleting some entries that all carry the token [ft] *)
Inductive filled_from (ft : str) : list entry -> list entry -> Prop :=
| ff_nil : filled_from ft [] []
| ff_keep x l l' : filled_from ft l l' -> filled_from ft (x :: l) (x :: l')
| ff_gap (s e : Q) l l' : (s < e)%Q -> filled_from ft l l' -> filled_from ft l ((ft, s, e) :: l').

(* ------------------------------------------------------------------------------- frames *)

(* times recovered "to within one frame shift" (d in milliseconds, times in seconds) *)
Definition within_shift (d : Q) (orig back : Q) : Prop := (Qabs (back - orig) < d / 1000)%Q.

Definition within_shiftb (d : Q) (orig back : Q) : bool :=
  if Qlt_le_dec (Qabs (back - orig)) (d / 1000) then true else false.

Definition tokens_roundtrip_okb (d : Q) (tr back : list item) : bool :=
  list_eqb (fun a b =>
              match a, b with
              | Plain x, Plain y => tk_eqb x y
              | Timed x s e, Timed y s' e' => tk_eqb x y && within_shiftb d s s' && within_shiftb d e e'
              | _, _ => false
              end) tr back.
