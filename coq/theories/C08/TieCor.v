(* C08 tie - corollaries: the model theorems on mask widths / counts / positions restated about the
   INTERPRETED SOURCE ([run_draw] = Interp.run of the regenerated body), by composing Tie.draw_tie with the
   theorems of ProofsDraw (over Q) and ProofsRound (float32, any arithmetic satisfying the laws). *)
From Coq Require Import ZArith QArith Qround List Bool Arith Lia.
From PV Require Import C08.Model C08.Spec C08.ProofsDraw C08.ProofsRound C08.ProofsIeee C08.Proofs.
From PV Require Import MiniPy.Syntax MiniPy.Interp C08.SrcRun C08.TieBlocks2 C08.TieModel C08.Tie.
Import ListNotations.
Local Open Scope Q_scope.

Definition no_params : params := mkParams None None None None.

Lemma len_of_range N T lens n : lens_ok N T lens -> (n < N)%nat -> (0 <= len_of T lens n <= Z.of_nat T)%Z.
Proof.
  intros H Hn. unfold len_of. destruct lens as [l|]; [|lia].
  destruct H as [HL HR]. subst N. unfold lens_in_range in HR. rewrite forallb_forall in HR.
  specialize (HR (nth n l 0%Z) (nth_In l 0%Z Hn)). lia.
Qed.

Lemma Forall_map_seq {X} (P : X -> Prop) (f : nat -> X) n : (forall i, P (f i)) -> Forall P (map f (seq 0 n)).
Proof. intros H. apply Forall_forall. intros x Hx. apply in_map_iff in Hx. destruct Hx as [i [<- _]]. apply H. Qed.

(* what [draw_tie] says about the two mask groups of a batch element *)
Lemma masks_of_tie a rnd eps c F len n p :
  params_eqv p (draw (pyq a) eps c F len (uv_of rnd c n)) ->
  p_tm p = (if tmask_enabled c then Some (time_masks (pyq a) eps c len (u_t (uv_of rnd c n)) (u_t0 (uv_of rnd c n))) else None)
  /\ p_fm p = (if fmask_enabled c then Some (freq_masks (pyq a) eps c F (u_f (uv_of rnd c n)) (u_f0 (uv_of rnd c n))) else None).
Proof. intros [_ [_ [H1 H2]]]. split; [exact H1|exact H2]. Qed.

(* over Q: every mask drawn by the interpreted source obeys the absolute and the proportional width caps
   and the count caps, and lies inside the valid frames / coefficients *)
Theorem source_masks_within_limits : forall rnd eps c N T F lens,
  0 < eps -> eps <= 1 -> (0 <= c_Mt c)%Z -> (0 <= c_Mf c)%Z -> 0 <= c_pt c /\ c_pt c <= 1 -> 0 <= c_npt c ->
  (forall k i, unit_u (rnd k i)) -> lens_ok N T lens ->
  exists v st ps,
    run_draw exact rnd eps c N T F lens = Ok v st /\ read_out N v = Some ps /\ length ps = N
    /\ forall n, (n < N)%nat ->
         opt_ok (tmasks_ok 0 c (len_of T lens n)) (p_tm (nth n ps no_params))
         /\ opt_ok (fmasks_ok c (Z.of_nat F)) (p_fm (nth n ps no_params)).
Proof.
  intros rnd eps c N T F lens E0 E1 HMt HMf Hpt Hnpt Hu Hl.
  destruct (draw_tie exact rnd eps c N T F lens exact_laws Hl) as [v [st [ps [H1 [H2 [H3 H4]]]]]].
  exists v, st, ps. repeat split; try assumption.
  - destruct (masks_of_tie _ _ _ _ _ _ _ _ (H4 n H)) as [Et _]. unfold no_params. rewrite Et.
    destruct (tmask_enabled c); [|exact I]. cbn [opt_ok]. rewrite time_masks_pyq_exact.
    apply time_masks_ok; try assumption.
    + apply (len_of_range N T lens n Hl H).
    + cbn [u_t uv_of]. apply Forall_map_seq. intros i. apply Hu.
    + cbn [u_t0 uv_of]. apply Forall_map_seq. intros i. apply Hu.
  - destruct (masks_of_tie _ _ _ _ _ _ _ _ (H4 n H)) as [_ Ef]. unfold no_params. rewrite Ef.
    destruct (fmask_enabled c); [|exact I]. cbn [opt_ok]. rewrite freq_masks_pyq_exact.
    apply freq_masks_ok; try assumption; try lia.
    + cbn [u_f uv_of]. apply Forall_map_seq. intros i. apply Hu.
    + cbn [u_f0 uv_of]. apply Forall_map_seq. intros i. apply Hu.
Qed.

(* the interpreted source at the exact arithmetic draws the masks of [draw exact] *)
Theorem source_masks_exact : forall rnd eps c N T F lens, lens_ok N T lens ->
  exists v st ps,
    run_draw exact rnd eps c N T F lens = Ok v st /\ read_out N v = Some ps /\ length ps = N
    /\ forall n, (n < N)%nat ->
         let m := draw exact eps c (Z.of_nat F) (len_of T lens n) (uv_of rnd c n) in
         p_tm (nth n ps no_params) = p_tm m /\ p_fm (nth n ps no_params) = p_fm m.
Proof.
  intros rnd eps c N T F lens Hl.
  destruct (draw_tie exact rnd eps c N T F lens exact_laws Hl) as [v [st [ps [H1 [H2 [H3 H4]]]]]].
  exists v, st, ps. repeat split; try assumption.
  - destruct (masks_of_tie _ _ _ _ _ _ _ _ (H4 n H)) as [Et _]. unfold no_params. rewrite Et.
    unfold draw. cbn [p_tm]. fold (tmask_enabled c). destruct (tmask_enabled c); [|reflexivity].
    now rewrite time_masks_pyq_exact.
  - destruct (masks_of_tie _ _ _ _ _ _ _ _ (H4 n H)) as [_ Ef]. unfold no_params. rewrite Ef.
    unfold draw. cbn [p_fm]. fold (fmask_enabled c). destruct (fmask_enabled c); [|reflexivity].
    now rewrite freq_masks_pyq_exact.
Qed.

(* float32: the same bounds for the interpreted source run with the IEEE rounding the harness compares bit
   for bit with torch - every dtype's eps, every float32 variate u <= 1 - 2^-24, T, F < 2^24 *)
Theorem source_masks_float32 : forall d rnd c N T F lens,
  (Z.of_nat T < two24)%Z -> (Z.of_nat F < two24)%Z -> (0 <= c_Mt c)%Z -> (0 <= c_Mf c)%Z -> 0 <= c_pt c /\ c_pt c <= 1 ->
  (forall k i, grid_u (rnd k i)) -> lens_ok N T lens ->
  exists v st ps,
    run_draw ieee rnd (eps_of d) c N T F lens = Ok v st /\ read_out N v = Some ps /\ length ps = N
    /\ forall n, (n < N)%nat ->
         let len := len_of T lens n in
         opt_ok (Forall (fun b : Z * Z =>
                   (0 <= snd b <= c_Mt c)%Z /\ z2q (snd b) <= r32 ieee (lenq ieee len * r32 ieee (c_pt c))
                   /\ (0 <= fst b)%Z /\ (fst b + snd b <= len)%Z)) (p_tm (nth n ps no_params))
         /\ opt_ok (fmasks_ok c (Z.of_nat F)) (p_fm (nth n ps no_params)).
Proof.
  intros d rnd c N T F lens HT HF HMt HMf Hpt Hu Hl.
  destruct (draw_tie ieee rnd (eps_of d) c N T F lens ieee_laws Hl) as [v [st [ps [H1 [H2 [H3 H4]]]]]].
  exists v, st, ps. repeat split; try assumption.
  - destruct (masks_of_tie _ _ _ _ _ _ _ _ (H4 n H)) as [Et _]. unfold no_params. rewrite Et.
    destruct (tmask_enabled c); [|exact I]. cbn [opt_ok].
    pose proof (len_of_range N T lens n Hl H) as R.
    apply (time_masks_each_r (pyq ieee) (pyq_laws ieee ieee_laws) (eps_of d) (eps_of_range d)); try assumption.
    + lia.
    + cbn [u_t uv_of]. apply Forall_map_seq. intros i. apply Hu.
    + cbn [u_t0 uv_of]. apply Forall_map_seq. intros i. apply Hu.
  - destruct (masks_of_tie _ _ _ _ _ _ _ _ (H4 n H)) as [_ Ef]. unfold no_params. rewrite Ef.
    destruct (fmask_enabled c); [|exact I]. cbn [opt_ok].
    apply (freq_masks_ok_r (pyq ieee) (pyq_laws ieee ieee_laws) (eps_of d) (eps_of_range d)); try assumption.
    + lia.
    + cbn [u_f uv_of]. apply Forall_map_seq. intros i. apply Hu.
    + cbn [u_f0 uv_of]. apply Forall_map_seq. intros i. apply Hu.
Qed.

