(* C01, second half of the property ("per prefix") - the source tie of `_string_matching` in the configuration of
   prefix_edit_distances (return_prf_dsts = True, exclude_last / padding as given, return_mask = return_mistakes = False):
   PV.Gen.C01Src.sm_body (the WHOLE body of the function, regenerated from /repo on every run) and the block sequence
   sm_pre; sm_row0; sm_main; sm_fin, interpreted by PV.MiniPy.Interp with the torch calls of PV.C01.SrcRunP.ext01p g
   (= SrcRun.ext01 plus the vocabulary of this path; g = the contents of the uninitialised `torch.empty` table, ANY g),
   return the tensor of PV.C01.Model.prefix_edit_distances, entry for entry, in the layout asked for; composed with
   Proofs.prefix_edit_distances_correct: entry (j, n) is the Levenshtein distance between the reference and the length-j
   prefix of hypothesis n (each cut at its eos), the padding value past the hypothesis's own length. *)
From Coq Require Import ZArith QArith List String Bool Arith Lia ZifyBool ZifyNat.
From PV Require Import MiniPy.Syntax MiniPy.Interp MiniPy.Lemmas MiniTorch.Ops MiniTorch.Lemmas MiniTorch.OpsC07 MiniTorch.LemmasC07
  MiniTorch.OpsC01 MiniTorch.LemmasC01 MiniTorch.OpsC01P MiniTorch.LemmasC01P.
From PV Require Import Gen.C01Src C01.SrcRun C01.SrcRunP C01.TieLib C01.TieMath C01.TieLoop C01.TieBlocks C01.TieWhole C01.TieLens
  C01.TiePre C01.TieBody C01.Tie C01.TiePLib C01.TiePMath C01.TiePLoop C01.TiePBlocks C01.TiePRest C01.TiePValue.
From PV Require C01.Obs C01.Spec C01.Model C01.Proofs.
Import ListNotations.
Local Open Scope string_scope.

#[local] Arguments ext01 : simpl never.
#[local] Arguments ext01p : simpl never.
#[local] Arguments ext01p_new : simpl never.
#[local] Arguments enc_x : simpl never.
#[local] Arguments enc_i : simpl never.
#[local] Arguments tab2 : simpl never.
#[local] Arguments zf : simpl never.
#[local] Arguments seq : simpl never.
#[local] Arguments tsize : simpl never.

Lemma greturns_seq_l : forall E v a b st, returns v (exec E a st) -> returns v (exec E (SSeq a b) st).
Proof. intros E v a b st [st1 He]. cbn [exec]. rewrite He. cbn [bind]. eexists. reflexivity. Qed.

(* a loop statement with the property of TiePLoop.loop_tie_p *)
Definition loop_ok_p (g : nat -> fx) (lp : stmt) : Prop :=
  forall s ci cd cs R N H rf hf rl hl excl vmult vnorm vwarn vpad vbf,
    (forall n, (n < N)%nat -> (rl n <= R)%nat) ->
    forall st lf pf,
    body_pre_p s ci cd cs R N H rf hf rl hl excl vmult vnorm vwarn vpad vbf lf pf st ->
    lookup "max_hyp_steps" (vars st) = Some (VInt (Z.of_nat H)) -> (0 < tsize H excl)%nat ->
    runs_to (body_pre_p s ci cd cs R N H rf hf rl hl excl vmult vnorm vwarn vpad vbf
               (fun i n => nth i (iter_col_x ci cd cs R H rf hf hl excl (tsize H excl - 1) 0 lf n) 0%Z)
               (iter_tab s ci cd cs R H rf hf rl hl excl (tsize H excl - 1) 0 lf pf))
            (exec (ext01p g) lp st).

Lemma sm_loop_ok_p : forall g, loop_ok_p g sm_loop.
Proof. unfold loop_ok_p. intros. now apply loop_tie_p. Qed.

Lemma loop3_ok_p : forall g, loop_ok_p g loop3.
Proof. unfold loop_ok_p. intros. now apply loop_tie_p3. Qed.

Section TailAll.
  Variable g : nat -> fx.
  Variables (s : positive) (ci cd cs : Z) (mult : Q) (R N H : nat) (rf hf : nat -> nat -> Z) (rl hl : nat -> nat).
  Variables (nm w bf excl : bool) (pad : Z).
  Hypothesis Hrl : forall n, (n < N)%nat -> (rl n <= R)%nat.
  Hypothesis HT : (0 < tsize H excl)%nat.
  Notation E := (ext01p g).

  Theorem tail_run_p : forall lp, loop_ok_p g lp -> forall st,
    known st (stageA' s ci cd cs mult R N H rf hf rl hl nm w bf excl pad) ->
    returns (enc_x (out_tensor g s ci cd cs mult R N H rf hf rl hl nm bf excl pad))
            (exec E (SSeq sm_row0 (SSeq (SSeq main_flags (SSeq lp main_rest)) sm_fin)) st).
  Proof.
    intros lp Hlp st K.
    eapply greturns_seq; [exact (row0_run_p g s ci cd cs mult R N H rf hf rl hl nm w bf excl pad Hrl st K)|]. intros st1 K1.
    apply greturns_seq_l.
    eapply greturns_seq; [exact (flags_run_p g s ci cd cs mult R N H rf hf rl hl nm w bf excl pad Hrl st1 HT K1)|]. intros st2 [P2 Hmax].
    eapply greturns_seq; [apply Hlp; [exact Hrl|exact P2|exact Hmax|exact HT]|]. intros st3 P3.
    eapply rest_run_p. exact P3.
  Qed.
End TailAll.

(* ---- the whole call ------------------------------------------------------------------------------------------- *)
Definition run_prefix_prog (g : nat -> fx) (prog : stmt) (s : positive) (c : C01.Model.cfg) (N : nat) (ref hyp : list (list Z))
  (w : bool) : outcome val :=
  Interp.run (ext01p g) prog
    (smp_vars (mat_tensor (C01.Model.c_bf c) N ref) (mat_tensor (C01.Model.c_bf c) N hyp)
       (C01.Model.c_eos c) (C01.Model.c_incl c) (C01.Model.c_bf c)
       (qz s (C01.Model.c_ins c)) (qz s (C01.Model.c_del c)) (qz s (C01.Model.c_sub c)) w (C01.Model.c_norm c)
       (C01.Model.c_pad c) (C01.Model.c_excl c)).

(* the shape of the returned table and the row-major position of entry (j, n) *)
Definition out_shape (bf : bool) (T N : nat) : list nat := if bf then [N; T] else [T; N].
Definition out_pos (bf : bool) (T N j n : nat) : nat := if bf then (n * T + j)%nat else (j * N + n)%nat.

Lemma out_tensor_entry : forall g s ci cd cs mult R N H rf hf rl hl nm bf excl pad j n,
  (j < tsize H excl)%nat -> (n < N)%nat ->
  nth (out_pos bf (tsize H excl) N j n) (dat (out_tensor g s ci cd cs mult R N H rf hf rl hl nm bf excl pad)) FNaN =
  fin_entry_p g s ci cd cs mult R N H rf hf rl hl nm excl pad j n.
Proof. intros. unfold out_tensor, out_pos. destruct bf; cbn [dat]; now rewrite nth_tab2. Qed.

(* the table after the loop, entry by entry: ers_at of the column *)
Lemma tabL_entry : forall g s ci cd cs R N H rf hf rl hl excl j n, (j < tsize H excl)%nat ->
  tabL g s ci cd cs R N H rf hf rl hl excl j n =
  zf s (ers_at ci cd cs (colf R rf n) (colf H hf n) (rl n) (hl n) excl j).
Proof.
  intros g s ci cd cs R N H rf hf rl hl excl j n Hj. unfold tabL, iter_tab, tab0, ers_at.
  destruct j as [|j].
  - reflexivity.
  - replace ((0 <? S j) && (S j <=? 0 + (tsize H excl - 1)))%nat with true by lia.
    unfold iter_col_x. rewrite Nat.sub_0_r. do 3 f_equal.
    unfold Model.row0, colf. now rewrite map_length, seq_length.
Qed.

Section Whole.
  Variable g : nat -> fx.
  Notation E := (ext01p g).

  (* any program that runs like sm_pre; sm_row0; flag block; <a loop with the property of sm_loop>; exits; gather; sm_fin *)
  Lemma prefix_prog_is_model :
    forall (prog lp : stmt), loop_ok_p g lp ->
    (forall st, exec E prog st
                = exec E (SSeq sm_pre (SSeq sm_row0 (SSeq (SSeq main_flags (SSeq lp main_rest)) sm_fin))) st) ->
    forall (s : positive) (c : C01.Model.cfg) (N R H : nat) (ref hyp : list (list Z)) (w : bool),
    (0 < N)%nat -> wf_src (C01.Model.c_bf c) N R ref -> wf_src (C01.Model.c_bf c) N H hyp ->
    (C01.Model.c_eos c <> None -> R <> 0%nat /\ H <> 0%nat) ->
    (C01.Model.c_excl c = true -> H <> 0%nat) ->
    let T := tsize H (C01.Model.c_excl c) in
    exists out st',
      run_prefix_prog g prog s c N ref hyp w = Ok (enc_x (mkTn (out_shape (C01.Model.c_bf c) T N) out)) st' /\
      List.length out = (T * N)%nat /\
      forall j n, (j < T)%nat -> (n < N)%nat ->
        nth (out_pos (C01.Model.c_bf c) T N j n) out FNaN =
        val_fx s (C01.Proofs.entry (C01.Model.c_bf c) j n (C01.Model.prefix_edit_distances c N ref hyp)).
  Proof.
    intros prog lp Hlp Hprog s c N R H ref hyp w HN Hr Hh Hnz Hex T.
    unfold run_prefix_prog, Interp.run. rewrite Hprog.
    rewrite (mat_tensor_in _ N R ref HN Hr), (mat_tensor_in _ N H hyp HN Hh).
    set (rf := at_src (C01.Model.c_bf c) ref). set (hf := at_src (C01.Model.c_bf c) hyp).
    match goal with |- context [exec E _ ?st0] => set (st0' := st0) end.
    assert (K : known st0' (params_p s c R N H rf hf w)).
    { unfold st0', params_p, smp_vars, globals01, torch_module. cbn [known app]. repeat split; reflexivity. }
    assert (HT : (0 < T)%nat).
    { unfold T, tsize. destruct (C01.Model.c_excl c); [specialize (Hex eq_refl)|]; lia. }
    assert (Hrl : forall n, (n < N)%nat -> (ref_len c R rf n <= R)%nat).
    { intros n Hn. unfold ref_len. rewrite <- (colf_length R rf n) at 2. apply C01.Proofs.eff_len_le. }
    set (ot := out_tensor g (eff_scale s c) (eff_ci c) (eff_cd c) (eff_cs c) (eff_mult s c) R N H rf hf
                 (ref_len c R rf) (hyp_len c H hf) (C01.Model.c_norm c) (C01.Model.c_bf c) (C01.Model.c_excl c) (C01.Model.c_pad c)).
    assert (Hret : returns (enc_x ot)
                     (exec E (SSeq sm_pre (SSeq sm_row0 (SSeq (SSeq main_flags (SSeq lp main_rest)) sm_fin))) st0')).
    { eapply greturns_seq; [apply pre_run_p; [exact Hnz|exact K]|]. intros st1 K1.
      eapply tail_run_p; [exact Hrl|exact HT|exact Hlp|]. exact K1. }
    destruct Hret as [st' He]. rewrite He.
    exists (dat ot), st'.
    assert (Hshape : shp ot = out_shape (C01.Model.c_bf c) T N /\ List.length (dat ot) = (T * N)%nat).
    { unfold ot, out_tensor, out_shape, T. destruct (C01.Model.c_bf c); cbn [shp dat]; (split; [reflexivity|]);
        rewrite tab2_length; lia. }
    destruct Hshape as [Hs Hl]. split; [|split; [exact Hl|]].
    - rewrite <- Hs. destruct ot; reflexivity.
    - intros j n Hj Hn.
      pose proof (out_tensor_entry g (eff_scale s c) (eff_ci c) (eff_cd c) (eff_cs c) (eff_mult s c) R N H rf hf
                  (ref_len c R rf) (hyp_len c H hf) (C01.Model.c_norm c) (C01.Model.c_bf c) (C01.Model.c_excl c)
                  (C01.Model.c_pad c) j n Hj Hn) as Hent.
      fold ot in Hent. fold T in Hent. rewrite Hent. clear Hent.
      rewrite C01.Proofs.prefix_edit_distances_nth; try assumption; try (eapply wf_src_model; eassumption).
      2:{ unfold C01.Proofs.time_len. unfold T, tsize in Hj.
          replace (if C01.Model.c_bf c then List.length (hd [] hyp) else List.length hyp) with H; [exact Hj|].
          unfold wf_src in Hh. destruct (C01.Model.c_bf c); destruct Hh as [HL HW]; [|lia].
          destruct hyp as [|row hyp]; [cbn in HL; lia|]. symmetry. apply HW. left. reflexivity. }
      rewrite <- (colf_seq_of _ N R ref n Hn Hr), <- (colf_seq_of _ N H hyp n Hn Hh). fold rf. fold hf.
      unfold fin_entry_p. rewrite tabL_entry by exact Hj. unfold ref_len, hyp_len.
      apply (prefix_value s c R H (colf R rf n) (colf H hf n) j (colf_length R rf n) (colf_length H hf n)).
      exact Hj.
  Qed.
End Whole.

Lemma time_len_src : forall bf N H hyp, (0 < N)%nat -> wf_src bf N H hyp -> C01.Proofs.time_len bf hyp = H.
Proof.
  intros bf N H hyp HN Hh. unfold C01.Proofs.time_len, wf_src in *. destruct bf; destruct Hh as [HL HW]; [|exact HL].
  destruct hyp as [|row hyp]; [cbn in HL; lia|]. apply HW. left. reflexivity.
Qed.

Lemma sm_body_split_p : forall g st,
  exec (ext01p g) sm_body st =
  exec (ext01p g) (SSeq sm_pre (SSeq sm_row0 (SSeq (SSeq main_flags (SSeq loop3 main_rest)) sm_fin))) st.
Proof. intros g st. rewrite !gexec_flatten. f_equal. Qed.

Lemma sm_blocks_split_p : forall g st,
  exec (ext01p g) sm_blocks st =
  exec (ext01p g) (SSeq sm_pre (SSeq sm_row0 (SSeq (SSeq main_flags (SSeq sm_loop main_rest)) sm_fin))) st.
Proof. intros g st. unfold sm_blocks. rewrite !gexec_flatten. f_equal. Qed.

(* the call prefix_edit_distances makes, on the WHOLE body of the function as one term *)
Definition run_prefix (g : nat -> fx) (s : positive) (c : C01.Model.cfg) (N : nat) (ref hyp : list (list Z)) (w : bool)
  : outcome val := run_prefix_prog g sm_body s c N ref hyp w.

(* the same call on the block sequence sm_pre; sm_row0; sm_main; sm_fin *)
Definition run_prefix_blocks (g : nat -> fx) (s : positive) (c : C01.Model.cfg) (N : nat) (ref hyp : list (list Z)) (w : bool)
  : outcome val := run_prefix_prog g sm_blocks s c N ref hyp w.

Theorem prefix_is_model :
  forall (g : nat -> fx) (s : positive) (c : C01.Model.cfg) (N R H : nat) (ref hyp : list (list Z)) (w : bool),
  (0 < N)%nat -> wf_src (C01.Model.c_bf c) N R ref -> wf_src (C01.Model.c_bf c) N H hyp ->
  (C01.Model.c_eos c <> None -> R <> 0%nat /\ H <> 0%nat) ->
  (C01.Model.c_excl c = true -> H <> 0%nat) ->
  let T := tsize H (C01.Model.c_excl c) in
  exists out st',
    run_prefix g s c N ref hyp w = Ok (enc_x (mkTn (out_shape (C01.Model.c_bf c) T N) out)) st' /\
    List.length out = (T * N)%nat /\
    forall j n, (j < T)%nat -> (n < N)%nat ->
      nth (out_pos (C01.Model.c_bf c) T N j n) out FNaN =
      val_fx s (C01.Proofs.entry (C01.Model.c_bf c) j n (C01.Model.prefix_edit_distances c N ref hyp)).
Proof.
  intros g s c N R H ref hyp w. apply (prefix_prog_is_model g sm_body loop3 (loop3_ok_p g) (sm_body_split_p g)).
Qed.

Theorem prefix_blocks_is_model :
  forall (g : nat -> fx) (s : positive) (c : C01.Model.cfg) (N R H : nat) (ref hyp : list (list Z)) (w : bool),
  (0 < N)%nat -> wf_src (C01.Model.c_bf c) N R ref -> wf_src (C01.Model.c_bf c) N H hyp ->
  (C01.Model.c_eos c <> None -> R <> 0%nat /\ H <> 0%nat) ->
  (C01.Model.c_excl c = true -> H <> 0%nat) ->
  let T := tsize H (C01.Model.c_excl c) in
  exists out st',
    run_prefix_blocks g s c N ref hyp w = Ok (enc_x (mkTn (out_shape (C01.Model.c_bf c) T N) out)) st' /\
    List.length out = (T * N)%nat /\
    forall j n, (j < T)%nat -> (n < N)%nat ->
      nth (out_pos (C01.Model.c_bf c) T N j n) out FNaN =
      val_fx s (C01.Proofs.entry (C01.Model.c_bf c) j n (C01.Model.prefix_edit_distances c N ref hyp)).
Proof.
  intros g s c N R H ref hyp w. apply (prefix_prog_is_model g sm_blocks sm_loop (sm_loop_ok_p g) (sm_blocks_split_p g)).
Qed.

(* composed with Proofs.prefix_edit_distances_correct: purely about the interpreted source.  Entry (j, n) of the returned
   table is the value the property names for the length-j prefix of hypothesis n - the (normalised, when asked) weighted
   Levenshtein distance to reference n, both cut at their eos - and the padding value past the hypothesis's own length *)
Theorem prefix_is_spec :
  forall (g : nat -> fx) (s : positive) (c : C01.Model.cfg) (N R H : nat) (ref hyp : list (list Z)) (w : bool),
  (0 < N)%nat -> wf_src (C01.Model.c_bf c) N R ref -> wf_src (C01.Model.c_bf c) N H hyp ->
  (C01.Model.c_eos c <> None -> R <> 0%nat /\ H <> 0%nat) ->
  (C01.Model.c_excl c = true -> H <> 0%nat) ->
  let T := tsize H (C01.Model.c_excl c) in
  exists out st',
    run_prefix g s c N ref hyp w = Ok (enc_x (mkTn (out_shape (C01.Model.c_bf c) T N) out)) st' /\
    List.length out = (T * N)%nat /\
    forall j n, (j < T)%nat -> (n < N)%nat ->
      let rn := C01.Spec.denote (C01.Model.c_eos c) (C01.Model.c_incl c) (C01.Proofs.seq_of (C01.Model.c_bf c) n ref) in
      let hn := C01.Spec.denote (C01.Model.c_eos c) (C01.Model.c_incl c) (C01.Proofs.seq_of (C01.Model.c_bf c) n hyp) in
      nth (out_pos (C01.Model.c_bf c) T N j n) out FNaN =
      if (j <? List.length hn + (if C01.Model.c_excl c then 0 else 1))%nat
      then val_fx s (C01.Spec.spec_value (C01.Model.c_norm c) (C01.Model.c_ins c) (C01.Model.c_del c) (C01.Model.c_sub c)
                       rn (firstn j hn))
      else z2f (C01.Model.c_pad c).
Proof.
  intros g s c N R H ref hyp w HN Hr Hh Hnz Hex. cbv zeta.
  destruct (prefix_is_model g s c N R H ref hyp w HN Hr Hh Hnz Hex) as (out & st' & He & Hl & Hent).
  exists out, st'. split; [exact He|]. split; [exact Hl|].
  intros j n Hj Hn. rewrite (Hent j n Hj Hn).
  set (rn := C01.Spec.denote (C01.Model.c_eos c) (C01.Model.c_incl c) (C01.Proofs.seq_of (C01.Model.c_bf c) n ref)).
  set (hn := C01.Spec.denote (C01.Model.c_eos c) (C01.Model.c_incl c) (C01.Proofs.seq_of (C01.Model.c_bf c) n hyp)).
  rewrite C01.Proofs.prefix_edit_distances_correct; try assumption; try (eapply wf_src_model; eassumption).
  2:{ rewrite (time_len_src _ N H hyp HN Hh). exact Hj. }
  fold rn. fold hn. destruct (j <? List.length hn + (if C01.Model.c_excl c then 0 else 1))%nat; reflexivity.
Qed.

Theorem prefix_is_lev :
  forall (g : nat -> fx) (s : positive) (c : C01.Model.cfg) (N R H : nat) (ref hyp : list (list Z)) (w : bool),
  (0 < N)%nat -> wf_src (C01.Model.c_bf c) N R ref -> wf_src (C01.Model.c_bf c) N H hyp ->
  (C01.Model.c_eos c <> None -> R <> 0%nat /\ H <> 0%nat) ->
  (C01.Model.c_excl c = true -> H <> 0%nat) -> C01.Model.c_norm c = false ->
  let T := tsize H (C01.Model.c_excl c) in
  exists out st',
    run_prefix g s c N ref hyp w = Ok (enc_x (mkTn (out_shape (C01.Model.c_bf c) T N) out)) st' /\
    List.length out = (T * N)%nat /\
    forall j n, (j < T)%nat -> (n < N)%nat ->
      let rn := C01.Spec.denote (C01.Model.c_eos c) (C01.Model.c_incl c) (C01.Proofs.seq_of (C01.Model.c_bf c) n ref) in
      let hn := C01.Spec.denote (C01.Model.c_eos c) (C01.Model.c_incl c) (C01.Proofs.seq_of (C01.Model.c_bf c) n hyp) in
      nth (out_pos (C01.Model.c_bf c) T N j n) out FNaN =
      if (j <? List.length hn + (if C01.Model.c_excl c then 0 else 1))%nat
      then zf s (C01.Spec.lev (C01.Model.c_ins c) (C01.Model.c_del c) (C01.Model.c_sub c) rn (firstn j hn))
      else z2f (C01.Model.c_pad c).
Proof.
  intros g s c N R H ref hyp w HN Hr Hh Hnz Hex Hnorm. cbv zeta.
  destruct (prefix_is_spec g s c N R H ref hyp w HN Hr Hh Hnz Hex) as (out & st' & He & Hl & Hent).
  exists out, st'. split; [exact He|]. split; [exact Hl|].
  intros j n Hj Hn. rewrite (Hent j n Hj Hn).
  unfold C01.Spec.spec_value. rewrite Hnorm. reflexivity.
Qed.

(* the executable the harness evaluates on the cases of every run IS that run (uninitialised table = NaN) *)
Corollary src_prefix_is_model :
  forall (c : C01.Model.cfg) (scale : Z) (N R H : nat) (ref hyp : list (list Z)),
  (0 < N)%nat -> wf_src (C01.Model.c_bf c) N R ref -> wf_src (C01.Model.c_bf c) N H hyp ->
  (C01.Model.c_eos c <> None -> R <> 0%nat /\ H <> 0%nat) ->
  (C01.Model.c_excl c = true -> H <> 0%nat) ->
  let T := tsize H (C01.Model.c_excl c) in
  exists out,
    src_prefix sm_body c scale N ref hyp = Some (Some (mkTn (out_shape (C01.Model.c_bf c) T N) out)) /\
    List.length out = (T * N)%nat /\
    forall j n, (j < T)%nat -> (n < N)%nat ->
      nth (out_pos (C01.Model.c_bf c) T N j n) out FNaN =
      val_fx (Z.to_pos scale) (C01.Proofs.entry (C01.Model.c_bf c) j n (C01.Model.prefix_edit_distances c N ref hyp)).
Proof.
  intros c scale N R H ref hyp HN Hr Hh Hnz Hex. cbv zeta.
  destruct (prefix_is_model garbage_nan (Z.to_pos scale) c N R H ref hyp false HN Hr Hh Hnz Hex) as (out & st' & He & Hl & Hent).
  exists out. split; [|split; [exact Hl|exact Hent]].
  unfold src_prefix, cfgp_vars, cost_q. unfold run_prefix, run_prefix_prog, qz in He. rewrite He.
  rewrite dec01_enc_x. reflexivity.
Qed.

(* ---- one execution of the loop body of the whole function (TieBody.body3) in this configuration ------------------ *)
Definition run_loop_body_p (g : nat -> fx) (k : nat) (st : state) : outcome ctl :=
  exec (ext01p g) body3 (set_var "hyp_idx" (VInt (Z.of_nat k)) st).

Theorem prefix_loop_body_is_step_row :
  forall (g : nat -> fx) (s : positive) (ci cd cs : Z) (R N H : nat) (rf hf : nat -> nat -> Z) (rl hl : nat -> nat) (excl : bool)
         (vmult vnorm vwarn vpad vbf : val),
  (forall n, (n < N)%nat -> (rl n <= R)%nat) ->
  forall (st : state) (k : nat) (lf : nat -> nat -> Z) (pf : nat -> nat -> fx),
  (1 <= k <= H)%nat -> (k < tsize H excl)%nat ->
  body_pre_p s ci cd cs R N H rf hf rl hl excl vmult vnorm vwarn vpad vbf lf pf st ->
  runs_to (body_pre_p s ci cd cs R N H rf hf rl hl excl vmult vnorm vwarn vpad vbf
             (fun i n => nth i (C01.Model.step_row ci cd cs (colf R rf n) (colf H hf n) (hl n) excl k (colf (S R) lf n)) 0%Z)
             (fun i n => if (i =? k)%nat
                         then zf s (nth (rl n) (C01.Model.step_row ci cd cs (colf R rf n) (colf H hf n) (hl n) excl k (colf (S R) lf n)) 0%Z)
                         else pf i n))
          (run_loop_body_p g k st).
Proof. intros. now apply body_run_p3. Qed.
