(* C20, second tie - the tensor operations of `_concat_soft_attention`, composed the way the source composes them,
   compute the model's score tensor [e_at (score tanhf (Concat W b v))] (pure algebra; the interpreter is in
   TieBConcat.v).  Stated, like TieOps.v, for arbitrary model tensors under [attend_facts]. *)
From Coq Require Import List ZArith QArith Bool Arith Lia.
From PV Require Import MiniPy.Syntax MiniTorch.Ops MiniTorch.OpsC07 MiniTorch.OpsC20 MiniTorch.LemmasC20.
From PV Require Import MiniTorch.OpsC20B MiniTorch.LemmasC20B.
From PV Require Import C20.Model C20.Spec C20.Index C20.Proofs C20.Broadcast.
From PV Require C20.TieOps.
Import ListNotations.
Local Open Scope nat_scope.

(* linear_row as a table over the rows of W *)
Lemma linear_row_table W b x :
  match b with None => True | Some bl => length bl = length W end ->
  linear_row W b x
  = map (fun c => match b with
                  | None => dotq x (nth c W [])
                  | Some bl => (dotq x (nth c W []) + nth c bl 0)%Q
                  end) (seq 0 (length W)).
Proof.
  intros Hb. unfold linear_row. destruct b as [bl|].
  - rewrite (TieOps.vadd_as_seq _ bl (length W)) by (rewrite ?map_length; congruence).
    apply map_ext_in. intros c Hc. apply in_seq in Hc. f_equal.
    rewrite (TieOps.map_as_seq [] (fun w => dotq x w) W).
    rewrite (nth_indep _ 0%Q (dotq x (nth 0 W []))) by (rewrite map_length, seq_length; lia).
    rewrite (map_nth (fun c0 => dotq x (nth c0 W []))), seq_nth by lia. reflexivity.
  - apply (TieOps.map_as_seq [] (fun w => dotq x w) W).
Qed.

Section Concat.
  Variables q k v : tensor Q.
  Variable m : option (tensor bool).
  Variable p : nat.
  Variables es ps : shape.
  Hypothesis F : attend_facts q k v m p es ps.

  Lemma concat_score_ops tanhf W b vv qs ks :
    hd 0 (tshape q) = qs -> hd 0 (tshape k) = ks -> fl_sizes (Concat W b vv) qs ks = true ->
    exists QE KE CAT WC L2,
      expand_to (runsq p (mat q)) (rev es ++ [qs]) = Some QE /\
      expand_to (mat k) (rev es ++ [ks]) = Some KE /\
      cat_last QE KE = Some CAT /\
      OpsC20.linear CAT (rows_tn (qs + ks) W) (option_map vec_tn b) = Some WC /\
      OpsC20.linear (tanh_t tanhf WC) (rows_tn (length vv) [vv]) None = Some L2 /\
      squeeze_dim L2 (-1) = Some (mat (mkT es (e_at (score tanhf (Concat W b vv)) q k p))).
  Proof.
    intros Hq Hk Hfl.
    pose proof (f_p _ _ _ _ _ _ _ F) as Hp.
    destruct (TieOps.shapes_qk q k v m p es ps F) as [sq' [sk' [Eq [Ek [Hpe Htl]]]]]. rewrite Hq in Eq. rewrite Hk in Ek.
    pose proof (af_es _ _ _ _ _ _ _ F) as Hes. rewrite Htl, Ek in Hes. cbn [tl] in Hes.
    destruct (bshape_into _ _ _ Hes) as [Hiq Hik].
    cbn [fl_sizes] in Hfl. apply andb_true_iff in Hfl. destruct Hfl as [Hfl Hbl].
    apply andb_true_iff in Hfl. destruct Hfl as [Hrows Hlv]. apply Nat.eqb_eq in Hlv.
    assert (Hall : Forall (fun w => length w = qs + ks) W).
    { apply Forall_forall. intros w Hw. rewrite forallb_forall in Hrows. apply Nat.eqb_eq, Hrows, Hw. }
    assert (Hb : match b with None => True | Some bl => length bl = length W end).
    { destruct b as [bl|]; [apply Nat.eqb_eq; exact Hbl|exact I]. }
    set (QEm := mkT (qs :: es) (fun i => bget (unsq p q) i)).
    set (KEm := mkT (ks :: es) (fun i => bget k i)).
    set (CATm := mkT ((qs + ks) :: es)
                     (fun ci => match ci with
                                | c :: i => if c <? qs then tat QEm (c :: i) else tat KEm ((c - qs) :: i)
                                | [] => 0%Q
                                end)).
    set (TWm := mkT (tshape (linear W b CATm)) (fun i => tanhf (tat (linear W b CATm) i))).
    exists (mat QEm), (mat KEm), (mat CATm), (mat (linear W b CATm)), (mat (linear [vv] None TWm)).
    split.
    { change (rev es ++ [qs]) with (rev (qs :: es)). apply expand_unsq_mat.
      - rewrite Eq. cbn [length]. lia.
      - rewrite Eq, Hp, ins_S. cbn [intob]. rewrite Nat.eqb_refl. cbn [orb andb]. exact Hiq. }
    split.
    { change (rev es ++ [ks]) with (rev (ks :: es)). apply expand_mat.
      rewrite Ek. cbn [intob]. rewrite Nat.eqb_refl. cbn [orb andb]. exact Hik. }
    split; [apply (cat_last_mat QEm KEm qs ks es); reflexivity|].
    split; [apply (linear_mat CATm W b (qs + ks) es); [reflexivity|exact Hall|exact Hb]|].
    split.
    { rewrite tanh_mat. fold TWm.
      exact (linear_mat TWm [vv] None (length vv) es
               (f_equal (fun n => n :: es) (eq_sym Hlv)) (Forall_cons _ eq_refl (Forall_nil _)) I). }
    rewrite (squeeze_last_mat (linear [vv] None TWm) es) by reflexivity. f_equal.
    apply mat_ext. intros i Hi.
    unfold e_at, score, qu. cbn [linear tat tshape hd nth TWm].
    rewrite <- (map_map (fun j => tat (linear W b CATm) (j :: i)) tanhf). f_equal. f_equal.
    rewrite (linear_row_table W b _ Hb).
    apply map_ext_in. intros c Hc.
    assert (HX : map (fun j => tat CATm (j :: i)) (seq 0 (qs + ks)) = brow (unsq p q) i ++ brow k i).
    { rewrite seq_app, map_app. f_equal.
      - unfold brow. rewrite unsq_shape, Eq, Hp, ins_S. cbn [hd].
        apply map_ext_in. intros j Hj. apply in_seq in Hj. cbn [CATm tat QEm].
        replace (j <? qs) with true by (symmetry; apply Nat.ltb_lt; lia). rewrite <- Hp. reflexivity.
      - unfold brow. rewrite Ek. cbn [hd Nat.add]. rewrite (seq_add qs ks), map_map.
        apply map_ext_in. intros j Hj. apply in_seq in Hj. cbn [CATm tat KEm].
        replace (qs + j <? qs) with false by (symmetry; apply Nat.ltb_ge; lia).
        replace (qs + j - qs) with j by lia. reflexivity. }
    change (tat (linear W b CATm) (c :: i))
      with (let y := dotq (map (fun j => tat CATm (j :: i)) (seq 0 (qs + ks))) (nth c W []) in
            match b with None => y | Some bl => (y + nth c bl 0)%Q end).
    cbv zeta. rewrite HX. destruct b; reflexivity.
  Qed.
End Concat.
