(* C10 - chunk_token_sequences_by_slices: the flat select/scatter code computes a per-row filter; the kept tokens are
   those of the spec; relative boundaries are wrong as coded (K1) and right in the repaired variant. *)
From Coq Require Import List ZArith Bool Arith Lia Sorted.
From PV Require Import C10.Model C10.Spec C10.Lists.
Import ListNotations.
Local Open Scope Z_scope.

(* ---- what one row of the result is ---- *)
Definition rowL (ref_lens : option (list Z)) (n : nat) : option Z :=
  match ref_lens with Some ls => Some (nth n ls 0) | None => None end.
Definition kept_row (partial : bool) (L : option Z) (sl : window) (row : list token) : list token :=
  map snd (filter (fun rx => tok_keep partial L sl (fst rx) (snd rx)) (enumerate row)).
Definition shift_of (v : variant) (retain : bool) (sl : window) (x : token) : token :=
  if retain then x else shift_tok (if k1 v then fst sl else - fst sl) x.
Definition row_out v partial retain L sl row : list token :=
  map (shift_of v retain sl) (kept_row partial L sl row).

Lemma gtb_false : forall a b, a <= b -> (a >? b) = false.
Proof. intros. rewrite Z.gtb_ltb. apply Z.ltb_ge. lia. Qed.
Lemma gtb_true : forall a b, b < a -> (a >? b) = true.
Proof. intros. rewrite Z.gtb_ltb. apply Z.ltb_lt. lia. Qed.

(* ---- masked_scatter_ of concatenated rows into prefix masks is row-wise placement ---- *)
Lemma scatter_row_false : forall A (d : A) (f : nat -> bool) l src,
  (forall r, In r l -> f r = false) -> scatter_row d (map f l) src = (repeat d (length l), src).
Proof.
  intros A d f l; induction l as [|r l IH]; intros src H; [reflexivity|].
  cbn [map scatter_row]. rewrite (H r) by now left.
  rewrite IH by (intros; apply H; now right). reflexivity.
Qed.

Lemma scatter_row_prefix : forall A (d : A) R (kept rest : list A) s, (length kept <= R)%nat ->
  scatter_row d (map (fun r => Z.of_nat (s + length kept) >? Z.of_nat r) (seq s R)) (kept ++ rest)
  = (kept ++ repeat d (R - length kept), rest).
Proof.
  intros A d R; induction R as [|R IH]; intros kept rest s Hl.
  - destruct kept; cbn in Hl; [reflexivity|lia].
  - cbn [seq map scatter_row]. destruct kept as [|x k].
    + cbn [length app]. rewrite (gtb_false (Z.of_nat (s + 0)) (Z.of_nat s)) by lia.
      rewrite scatter_row_false.
      * rewrite seq_length. reflexivity.
      * intros r Hr. apply in_seq in Hr. apply gtb_false. lia.
    + cbn [length app]. rewrite (gtb_true (Z.of_nat (s + S (length k))) (Z.of_nat s)) by lia.
      rewrite (map_ext _ (fun r => Z.of_nat (S s + length k) >? Z.of_nat r))
        by (intros; do 2 f_equal; lia).
      cbn in Hl. rewrite IH by lia. reflexivity.
Qed.

Lemma masked_scatter_rows : forall A E (d : A) R (kept : E -> list A) (es : list E) rest,
  (forall e, In e es -> (length (kept e) <= R)%nat) ->
  masked_scatter d (map (fun e => map (fun r => zlen (kept e) >? Z.of_nat r) (seq 0 R)) es)
                 (flat_map kept es ++ rest)
  = map (fun e => kept e ++ repeat d (R - length (kept e))) es.
Proof.
  intros A E d R kept es; induction es as [|e es IH]; intros rest H; [reflexivity|].
  cbn [map flat_map masked_scatter]. rewrite <- app_assoc.
  pose proof (scatter_row_prefix A d R (kept e) (flat_map kept es ++ rest) 0 (H e (or_introl eq_refl))) as P.
  cbn [Nat.add] in P. unfold zlen. rewrite P. f_equal. apply IH. intros; apply H; now right.
Qed.

(* ---- the model, row by row ---- *)
Lemma kept_row_length : forall partial L sl row, (length (kept_row partial L sl row) <= length row)%nat.
Proof.
  intros. unfold kept_row. rewrite map_length.
  etransitivity; [apply filter_len_le|]. rewrite enumerate_enum_from, enum_from_length. lia.
Qed.

Lemma select_row : forall partial L sl row,
  map fst (filter snd (combine row (tok_mask_row partial L sl row))) = kept_row partial L sl row.
Proof.
  intros. unfold tok_mask_row, kept_row.
  rewrite <- (map_snd_enum_from _ 0 row) at 1. rewrite <- enumerate_enum_from.
  apply mask_select_filter.
Qed.

Lemma count_row : forall partial L sl row,
  zlen (filter (fun b : bool => b) (tok_mask_row partial L sl row)) = zlen (kept_row partial L sl row).
Proof.
  intros. unfold zlen, tok_mask_row, kept_row. now rewrite count_true_filter, map_length.
Qed.

Theorem chunk_tokens_rows : forall v refs slices ref_lens partial retain R,
  Forall (fun r => length r = R) refs -> length slices = length refs ->
  let E := enumerate (combine refs slices) in
  chunk_tokens v refs slices ref_lens partial retain
  = (map (fun e => row_out v partial retain (rowL ref_lens (fst e)) (snd (snd e)) (fst (snd e))) E,
     map (fun e => zlen (kept_row partial (rowL ref_lens (fst e)) (snd (snd e)) (fst (snd e)))) E).
Proof.
  intros v refs slices ref_lens partial retain R HR Hl E.
  set (kept := fun e : nat * (list token * window) =>
                 kept_row partial (rowL ref_lens (fst e)) (snd (snd e)) (fst (snd e))).
  assert (Hrefs : refs = map (fun e => fst (snd e)) E).
  { subst E. rewrite enumerate_enum_from, <- (map_map snd fst), map_snd_enum_from.
    symmetry. apply map_fst_combine. lia. }
  assert (Hsl : slices = map (fun e => snd (snd e)) E).
  { subst E. rewrite enumerate_enum_from, <- (map_map snd snd), map_snd_enum_from.
    symmetry. apply map_snd_combine. lia. }
  assert (HER : forall e, In e E -> length (fst (snd e)) = R).
  { intros e He. rewrite Forall_forall in HR. apply HR. rewrite Hrefs. apply in_map_iff. now exists e. }
  unfold chunk_tokens. fold E.
  set (Rm := match refs with [] => 0%nat | r :: _ => length r end).
  assert (HRm : forall e, In e E -> (length (kept e) <= Rm)%nat).
  { intros e He. subst Rm. destruct refs as [|r0 refs'].
    - subst E. cbn in He. contradiction.
    - rewrite Forall_forall in HR. rewrite (HR r0 (or_introl eq_refl)), <- (HER e He). apply kept_row_length. }
  (* the mask, the lengths, the flat buffer *)
  set (mask := map _ E).
  assert (Hmask : mask = map (fun e => tok_mask_row partial (rowL ref_lens (fst e)) (snd (snd e)) (fst (snd e))) E)
    by reflexivity.
  clearbody mask. subst mask.
  rewrite !map_map.
  rewrite (map_ext _ (fun e => zlen (kept e))) by (intros; apply count_row).
  assert (Hflat : masked_select refs
                    (map (fun e => tok_mask_row partial (rowL ref_lens (fst e)) (snd (snd e)) (fst (snd e))) E)
                  = flat_map kept E).
  { unfold masked_select. rewrite Hrefs at 1. rewrite combine_map_map, flat_map_map.
    apply flat_map_ext_in. intros e _. cbn [fst snd]. apply select_row. }
  rewrite Hflat.
  rewrite <- (app_nil_r (flat_map kept E)).
  match goal with
  | |- context [masked_scatter _ (map ?f E) _] =>
      rewrite (map_ext f (fun e => map (fun r => zlen (kept e) >? Z.of_nat r) (seq 0 Rm)))
        by (intros; now rewrite count_row)
  end.
  rewrite (masked_scatter_rows _ _ (0, 0, 0) Rm kept E [] HRm).
  f_equal.
  destruct retain.
  - rewrite map2_map_map. apply map_ext. intros e. unfold row_out, shift_of.
    unfold zlen. rewrite Nat2Z.id, firstn_app_exact. fold (kept e). now rewrite map_id.
  - rewrite Hsl at 1. rewrite map2_map_map, map2_map_map. apply map_ext. intros e.
    unfold zlen. rewrite Nat2Z.id, map_app, <- (map_length (shift_tok (if k1 v then fst (snd (snd e)) else - fst (snd (snd e)))) (kept e)).
    rewrite firstn_app_exact. reflexivity.
Qed.

(* row n of the result, by position *)
Theorem chunk_tokens_nth : forall v refs slices ref_lens partial retain R n,
  Forall (fun r => length r = R) refs -> length slices = length refs -> (n < length refs)%nat ->
  let out := chunk_tokens v refs slices ref_lens partial retain in
  length (fst out) = length refs /\ length (snd out) = length refs
  /\ nth n (fst out) [] = row_out v partial retain (rowL ref_lens n) (nth n slices (0, 0)) (nth n refs [])
  /\ nth n (snd out) 0 = zlen (nth n (fst out) []).
Proof.
  intros v refs slices ref_lens partial retain R n HR Hl Hn out. subst out.
  rewrite (chunk_tokens_rows v refs slices ref_lens partial retain R HR Hl). cbn [fst snd].
  set (E := enumerate (combine refs slices)).
  assert (HlE : length E = length refs).
  { subst E. rewrite enumerate_enum_from, enum_from_length, combine_length. lia. }
  rewrite !map_length, HlE. split; [reflexivity|]. split; [reflexivity|].
  assert (HnE : nth n E (0%nat, ([], (0, 0))) = (n, (nth n refs [], nth n slices (0, 0)))).
  { subst E. rewrite enumerate_enum_from, nth_enum_from by (rewrite combine_length; lia).
    now rewrite combine_nth by lia. }
  set (f := fun e : nat * (list token * window) => row_out v partial retain (rowL ref_lens (fst e)) (snd (snd e)) (fst (snd e))).
  set (g := fun e : nat * (list token * window) => zlen (kept_row partial (rowL ref_lens (fst e)) (snd (snd e)) (fst (snd e)))).
  rewrite (nth_indep (map f E) [] (f (0%nat, ([], (0, 0))))) by (rewrite map_length; lia).
  rewrite (nth_indep (map g E) 0 (g (0%nat, ([], (0, 0))))) by (rewrite map_length; lia).
  rewrite !map_nth, HnE. subst f g; cbn [fst snd]. split; [reflexivity|].
  unfold row_out, zlen. now rewrite map_length.
Qed.

(* ---- the kept tokens are those the spec names ---- *)
Lemma tok_keep_iff : forall partial L sl r x, tok_keep partial L sl r x = true <-> tok_kept partial L sl r x.
Proof.
  intros partial L sl r x. unfold tok_keep, tok_kept, tok_known, tok_in.
  rewrite !andb_true_iff. destruct L as [l|]; destruct partial; rewrite ?andb_true_iff;
    repeat match goal with
           | |- context [(?a >? ?b) = true] => rewrite (Z.gtb_ltb a b), (Z.ltb_lt b a)
           | |- context [(?a >=? ?b) = true] => rewrite (Z.geb_leb a b), (Z.leb_le b a)
           | |- context [(?a <? ?b) = true] => rewrite (Z.ltb_lt a b)
           | |- context [(?a <=? ?b) = true] => rewrite (Z.leb_le a b)
           end; intuition lia.
Qed.

(* exactly the tokens whose known segments are contained in / overlap the slice, in order, boundaries re-expressed
   (repaired) or retained *)
Theorem row_out_meets_spec : forall v partial retain L sl row,
  (retain = true \/ k1 v = false) ->
  tokens_row_spec partial retain L sl row (row_out v partial retain L sl row).
Proof.
  intros v partial retain L sl row Hv. unfold tokens_row_spec, row_out, kept_row.
  rewrite map_map.
  rewrite (map_ext (fun x => shift_of v retain sl (snd x)) (fun tx => tok_out retain sl (snd tx))).
  - apply selects_filter. intros; apply tok_keep_iff.
  - intros [r x]. cbn [snd]. unfold shift_of, tok_out, shift_tok.
    destruct retain; [reflexivity|]. destruct Hv as [Hv|Hv]; [discriminate|]. rewrite Hv.
    apply f_equal2; [apply f_equal2; [reflexivity|lia]|lia].
Qed.

(* as coded: every kept boundary is the spec's plus twice the slice start (all inputs) *)
Theorem row_out_as_coded : forall v partial L sl row,
  k1 v = true ->
  row_out v partial false L sl row
  = map (fun x => (tk_tok x, tk_start x + 2 * fst sl, tk_end x + 2 * fst sl))
        (row_out repaired partial false L sl row).
Proof.
  intros v partial L sl row Hv. unfold row_out. rewrite map_map. apply map_ext. intros x.
  unfold shift_of, shift_tok, tk_tok, tk_start, tk_end. rewrite Hv. cbn [k1 repaired fst snd].
  apply f_equal2; [apply f_equal2; [reflexivity|lia]|lia].
Qed.

Theorem row_out_subseq : forall v partial L sl row, subseq (row_out v partial true L sl row) row.
Proof.
  intros. unfold row_out, kept_row. rewrite enumerate_enum_from.
  rewrite (map_ext (shift_of v true sl) (fun x => x)) by reflexivity. rewrite map_id.
  apply subseq_filter_enum.
Qed.

(* in order, whatever the boundary arithmetic: the kept token ids are a subsequence of the source's *)
Theorem row_out_tok_subseq : forall v partial retain L sl row,
  subseq (map tk_tok (row_out v partial retain L sl row)) (map tk_tok row).
Proof.
  intros. unfold row_out. rewrite map_map.
  rewrite (map_ext (fun x => tk_tok (shift_of v retain sl x)) tk_tok).
  - apply subseq_map. unfold kept_row. rewrite enumerate_enum_from. apply subseq_filter_enum.
  - intros [[t s] e]. unfold shift_of, shift_tok. destruct retain; reflexivity.
Qed.

(* for a non-empty token and slice, "overlap" is sharing a frame *)
Theorem overlap_iff_common_frame : forall sl x, tk_start x < tk_end x -> fst sl < snd sl ->
  (tok_in true sl x <-> exists t, fst sl <= t < snd sl /\ tk_start x <= t < tk_end x).
Proof.
  intros sl x Hx Hs. unfold tok_in. split.
  - intros [H1 H2]. exists (Z.max (fst sl) (tk_start x)). lia.
  - intros (t & H1 & H2). lia.
Qed.

Theorem contained_overlaps : forall sl x, tk_start x < tk_end x -> tok_in false sl x -> tok_in true sl x.
Proof. unfold tok_in. intros. lia. Qed.
