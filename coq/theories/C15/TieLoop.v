(* C15 — tie lemmas, part 2: sequencing, the loop over optimizer.param_groups, the script for the learning-rate block. *)
From Coq Require Import ZArith QArith List String Bool Arith Lia ZifyBool ZifyNat ZifyComparison.
From PV Require Import C15.Model.
From PV Require Import MiniPy.Syntax MiniPy.Interp Gen.C15Src C15.SrcRun C15.TieLib.
Import ListNotations.
Local Open Scope string_scope.
Local Open Scope Z_scope.

#[local] Arguments Z.sub : simpl never.
#[local] Arguments Z.add : simpl never.
#[local] Arguments Z.mul : simpl never.
#[local] Arguments Z.max : simpl never.
#[local] Arguments Z.of_nat : simpl never.
#[local] Arguments Z.to_nat : simpl never.
#[local] Arguments Z.eqb : simpl never.
#[local] Arguments Z.leb : simpl never.
#[local] Arguments Z.ltb : simpl never.
#[local] Arguments Z.compare : simpl never.
#[local] Arguments Qred : simpl never.
#[local] Arguments Qmult : simpl never.
#[local] Arguments Qminus : simpl never.
#[local] Arguments Qplus : simpl never.
#[local] Arguments Qcompare : simpl never.
#[local] Arguments Qeq_bool : simpl never.
#[local] Arguments Qle_bool : simpl never.
#[local] Arguments enc_cache : simpl never.
#[local] Arguments enc_user : simpl never.

(* ---- sequencing ---------------------------------------------------------------------------------------- *)
(* statement lists are right-nested SSeq; [seq_app] appends two of them *)
Fixpoint seq_app (a b : stmt) : stmt :=
  match a with SSeq x y => SSeq x (seq_app y b) | _ => SSeq a b end.

Definition then_ ext (b : stmt) (c : ctl) (st : state) : outcome ctl :=
  match c with CNormal => exec ext b st | CReturn _ => Ok c st end.

Lemma exec_seq_app ext a b : forall st,
  exec ext (seq_app a b) st = bind (exec ext a st) (then_ ext b).
Proof.
  induction a; intros st; try reflexivity.
  cbn [seq_app]. change (exec ext (SSeq a1 (seq_app a2 b)) st)
    with (bind (exec ext a1 st) (then_ ext (seq_app a2 b))).
  change (exec ext (SSeq a1 a2) st) with (bind (exec ext a1 st) (then_ ext a2)).
  destruct (exec ext a1 st) as [c st1|n st1|w]; cbn [bind]; try reflexivity.
  destruct c; cbn [then_]; [apply IHa2|reflexivity].
Qed.

Lemma control_split :
  ufe_control = seq_app ufe_es (seq_app ufe_es_cont (seq_app ufe_rlr ufe_record)).
Proof. reflexivity. Qed.

(* ---- the loop over optimizer.param_groups ---------------------------------------------------------------- *)
Definition for_loop ext (x : string) (body : stmt) :=
  fix loop (l : list val) (st : state) {struct l} : outcome ctl :=
    match l with
    | [] => Ok CNormal st
    | i :: r =>
        bind (exec ext body (set_var x i st)) (fun c st' =>
          match c with CNormal => loop r st' | CReturn _ => Ok c st' end)
    end.

Lemma exec_for ext x e body st :
  exec ext (SFor x e body) st
  = bind (eval ext e st) (fun v st1 =>
      match iter_items v with
      | None => Stuck "for over a non-container"
      | Some items => for_loop ext x body items st1
      end).
Proof. reflexivity. Qed.

Lemma for_loop_cons ext x body i r st :
  for_loop ext x body (i :: r) st
  = bind (exec ext body (set_var x i st)) (fun c st' =>
      match c with CNormal => for_loop ext x body r st' | CReturn _ => Ok c st' end).
Proof. reflexivity. Qed.

Fixpoint find_for (s : stmt) : option stmt :=
  match s with
  | SFor _ _ _ => Some s
  | SSeq a b => match find_for a with Some f => Some f | None => find_for b end
  | SIf _ a b => match find_for a with Some f => Some f | None => find_for b end
  | _ => None
  end.

(* the variables in scope at the loop, in the order the run binds them *)
Definition loop_vars (sv ov iv ev vv tv cv x y z w old nv eps : val) (tail : list (string * val))
  : list (string * val) :=
  ([("self", sv); ("optimizer", ov); ("info", iv); ("epoch", ev); ("val_met", vv); ("train_met", tv);
    ("cont", cv); ("es_epoch", x); ("es_info", y); ("rlr_epoch", z); ("rlr_info", w); ("old_lr", old);
    ("new_lr", nv); ("rlr_epsilon", eps)] ++ tail)%list.

Definition optv (gs : list val) (dv : val) : val :=
  VDict [(VStr "param_groups", VList gs); (VStr "defaults", dv)].

Definition upd_group (nv : val) (d : list (val * val)) : val := VDict (dict_set d (VStr "lr") nv).

Lemma subscript_nth l i g st : nth_error l i = Some g ->
  subscript (VList l) (VInt (0 + Z.of_nat i)) st = Ok g st.
Proof.
  intros H. unfold subscript.
  assert (Hi : (i < List.length l)%nat) by (apply nth_error_Some; congruence).
  replace (0 + Z.of_nat i <? 0) with false by lia.
  replace ((0 <=? 0 + Z.of_nat i) && (0 + Z.of_nat i <? Z.of_nat (List.length l)))%bool with true by lia.
  replace (Z.to_nat (0 + Z.of_nat i)) with i by lia.
  rewrite (nth_error_nth _ _ _ H). reflexivity.
Qed.

Lemma list_set_app a g b v : list_set (a ++ g :: b) (List.length a) v = (a ++ v :: b)%list.
Proof. induction a as [|x a IH]; cbn; [reflexivity|]. rewrite IH. reflexivity. Qed.

Definition loop_tail (tl : list (string * val)) : Prop :=
  tl = [] \/ exists a b, tl = [("$t1", a); ("param_group", b)].

Lemma pg_loop_rest L x0 body sv dv iv ev vv tv cv x y z w old nv eps :
  find_for ufe_rlr = Some L -> L = SFor x0 (ECall "range" [ECall "len" [EAttr (EName "optimizer") "param_groups"] []] []) body ->
  forall todo done tl, loop_tail tl ->
  exists tl',
    for_loop ext15 x0 body (map (fun j => VInt (0 + Z.of_nat j)) (seq (List.length done) (List.length todo)))
      (st_of (loop_vars sv (optv (map (upd_group nv) done ++ map VDict todo) dv) iv ev vv tv cv x y z w old nv eps tl))
    = Ok CNormal
        (st_of (loop_vars sv (optv (map (upd_group nv) (done ++ todo)) dv) iv ev vv tv cv x y z w old nv eps tl')).
Proof.
  intros HL HL'. rewrite HL' in HL. cbn in HL. injection HL as Hx Hb. subst x0 body.
  induction todo as [|d todo IH]; intros done tl Htl.
  - exists tl. cbn [List.length seq map for_loop]. rewrite !app_nil_r. reflexivity.
  - cbn [List.length seq map]. rewrite for_loop_cons.
    assert (Hstep :
      exec ext15
        (SSeq (SAssign [TName "param_group"] (ESub (EAttr (EName "optimizer") "param_groups") (EName "$t1")))
           (SSeq (SAssign [TSub (EName "param_group") (EConst (VStr "lr"))] (EName "new_lr"))
              (SAssign [TSub (EAttr (EName "optimizer") "param_groups") (EName "$t1")] (EName "param_group"))))
        (set_var "$t1" (VInt (0 + Z.of_nat (List.length done)))
           (st_of (loop_vars sv (optv (map (upd_group nv) done ++ VDict d :: map VDict todo) dv) iv ev vv tv cv x y z w
                     old nv eps tl)))
      = Ok CNormal
          (st_of (loop_vars sv (optv (map (upd_group nv) (done ++ [d]) ++ map VDict todo) dv) iv ev vv tv cv x y z w
                    old nv eps [("$t1", VInt (0 + Z.of_nat (List.length done))); ("param_group", upd_group nv d)]))).
    { unfold st_of, loop_vars, optv, set_var.
      destruct Htl as [->|[a [b ->]]].
      all: cbn -[subscript list_set List.length].
      all: erewrite subscript_nth
        by (rewrite nth_error_app2, map_length, Nat.sub_diag; [reflexivity | rewrite map_length; lia]).
      all: unfold set_var; cbn -[list_set List.length].
      all: replace (0 + Z.of_nat (List.length done) <? 0) with false by lia.
      all: rewrite app_length, map_length; cbn [List.length].
      all: replace ((0 <=? 0 + Z.of_nat (List.length done)) &&
               (0 + Z.of_nat (List.length done) <? Z.of_nat (List.length done + S (List.length (map VDict todo)))))%bool
        with true by lia.
      all: replace (Z.to_nat (0 + Z.of_nat (List.length done))) with (List.length (map (upd_group nv) done))
        by (rewrite map_length; lia).
      all: rewrite list_set_app; cbn.
      all: rewrite map_app, <- app_assoc; reflexivity. }
    rewrite Hstep. cbn [bind].
    destruct (IH (done ++ [d])%list [("$t1", VInt (0 + Z.of_nat (List.length done))); ("param_group", upd_group nv d)])
      as [tl' H]; [right; eauto|].
    exists tl'.
    rewrite app_length, Nat.add_1_r, <- app_assoc in H. cbn [app] in H. exact H.
Qed.

(* for param_group in optimizer.param_groups: param_group["lr"] = new_lr *)
Lemma pg_loop_tie L sv dv iv ev vv tv cv x y z w old nv eps ds :
  find_for ufe_rlr = Some L ->
  exists tl,
    exec ext15 L (st_of (loop_vars sv (optv (map VDict ds) dv) iv ev vv tv cv x y z w old nv eps []))
    = Ok CNormal (st_of (loop_vars sv (optv (map (upd_group nv) ds) dv) iv ev vv tv cv x y z w old nv eps tl)).
Proof.
  intros HL. pose proof HL as HL0. cbn in HL0. injection HL0 as HL0. 
  destruct (pg_loop_rest L _ _ sv dv iv ev vv tv cv x y z w old nv eps HL (eq_sym HL0) ds [] [] (or_introl eq_refl))
    as [tl H].
  exists tl. rewrite <- HL0. rewrite exec_for.
  unfold st_of, loop_vars, optv. cbn -[for_loop zrange].
  unfold zrange. rewrite Z.sub_0_r, Nat2Z.id, map_length. exact H.
Qed.

(* ---- the learning-rate block ------------------------------------------------------------------------------ *)
Definition grp (o : Q) : list (val * val) := [(VStr "lr", VQ o)].

Lemma enc_opt_optv os dflt :
  enc_opt os dflt = optv (map VDict (map grp os)) (VDict [(VStr "lr", VQ dflt)]).
Proof. unfold enc_opt, optv. rewrite map_map. reflexivity. Qed.

Lemma upd_groups n os : map (upd_group (VQ n)) (map grp os) = map enc_group (map (fun _ => n) os).
Proof. rewrite !map_map. apply map_ext. intros o. reflexivity. Qed.

Ltac use_loop :=
  lazymatch goal with
  | HL : find_for ufe_rlr = Some ?L |- context [exec ext15 ?L (mkState ?vs [])] =>
      lazymatch vs with
      | [("self", ?sv); ("optimizer", VDict [(_, VList (map VDict ?ds)); (_, ?dv)]); ("info", ?iv); ("epoch", ?ev);
         ("val_met", ?vv); ("train_met", ?tv); ("cont", ?cv); ("es_epoch", ?x); ("es_info", ?y); ("rlr_epoch", ?z);
         ("rlr_info", ?w); ("old_lr", ?old); ("new_lr", ?nv); ("rlr_epsilon", ?eps)] =>
          let tl := fresh "tl" in let Ht := fresh "Ht" in
          destruct (pg_loop_tie L sv dv iv ev vv tv cv x y z w old nv eps ds HL) as [tl Ht];
          unfold st_of, loop_vars, optv in Ht; cbn [app] in Ht; rewrite Ht; clear Ht
      end
  end.

Ltac hide_loop L HF :=
  match goal with |- context [SFor ?x ?e ?b] =>
    let HL := fresh "HL" in
    remember (SFor x e b) as L eqn:HL;
    assert (HF : find_for ufe_rlr = Some L) by (rewrite HL; reflexivity);
    clear HL
  end.

Ltac rlr_o_tac :=
  unfold rlr_o, rlr_step, below, nonzero, Qlt_b;
  repeat match goal with H : ?b = _ |- context [?b] => rewrite H end;
  cbn; reflexivity.

Ltac rlr_opt_tac :=
  lazymatch goal with
  | |- context [map (rlr_o ?p ?c ?r ?e ?v ?l) ?os] =>
      lazymatch goal with
      | |- context [upd_group (VQ ?n)] =>
          rewrite (map_ext (rlr_o p c r e v l) (fun _ => n)) by (intro; rlr_o_tac);
          rewrite upd_groups; reflexivity
      | _ =>
          rewrite (map_ext (rlr_o p c r e v l) (fun o => o)) by (intro; rlr_o_tac);
          rewrite map_id, enc_opt_optv; reflexivity
      end
  end.

Ltac rlr_script :=
  let L := fresh "L" in let HF := fresh "HF" in
  hide_loop L HF; run_tests;
  unfold set_var; cbn;
  try use_loop; run_tests;
  unfold set_var; cbn; try (eexists; reflexivity);
  unfold Qcompare in *; cbn [Qnum Qden inject_Z] in *; try (exfalso; lia);
  eexists; (split; [reflexivity|]); cbn;
  (split; [reflexivity|]); (split; [reflexivity|]); rlr_opt_tac.

