(* C06 — the in-range hypothesis of the source tie.

   The model reads its flat buffers with [zget] (a default stands for "never read"); torch's advanced indexing
   raises IndexError on an index beyond the buffer and counts a negative one from the end, and
   PV.MiniTorch.OpsC06.index1 is undefined on both.  The tensor program evaluates EVERY lane of the batch on
   every step (also the lanes whose path has already failed: they keep their last node), so the interpreted
   source equals the model exactly when every node the two-path descent can reach is "safe":

     0 <= j < P                                        (logps[j])
     and, for a node above the last level:
     j + 1 < O                                         (offsets[j], offsets[j + 1], logbs[min(j, O - 1)])
     the labels of its candidate children are distinct (the masked sum is then one of them)
     S = 0  or  U <= offsets[j] + j  and  U <= P - 1   (ids[min(pos, P - 1) - U] for the S positions from its first child)

   [safe_okb] checks this on the nodes [Spec.level] enumerates (the same enumeration the validator [trie_okb]
   uses); the harness evaluates it on the implementation's ACTUAL buffers of every table whose queries are
   run through the interpreted source.  TrieOK alone does not imply it (TrieOK is stated through the model's
   own [ext], i.e. through [zget]). *)
From Coq Require Import List ZArith Bool Arith Lia.
From PV Require Import C06.Model C06.Spec.
Import ListNotations.
Local Open Scope Z_scope.

Definition node_safe (b : bufs) (sh : shape) (d : nat) (nd : list Z * Z) : bool :=
  let j := snd nd in
  (0 <=? j) && (j <? psize b sh) &&
  (if Nat.ltb d (order sh - 1) then
     (j + 1 <? osize b) && nodupb (map (idat b sh) (cands b sh j)) &&
     (Nat.eqb (maxdesc sh) 0 ||
      ((usize sh <=? zget (offsets b) j 0 + j) && (usize sh <=? psize b sh - 1)))
   else true).

(* + max_direct_descendants <= V + 1: `srange = vrange[:S]` is cut from torch.arange(V + 1) *)
Definition safe_okb (b : bufs) (sh : shape) : bool :=
  lens_ok b sh && Nat.leb 1 (order sh) && (nroots sh <=? zlen (logps b))
  && (Z.of_nat (maxdesc sh) <=? vocab sh + 1)
  && forallb (fun d => forallb (node_safe b sh d) (level b sh d)) (seq 0 (order sh)).
