(* C08 tie - symbolic runs of the blocks, continued: frequency warp, head, return (see TieBlocks.v). *)
From Coq Require Import ZArith QArith Qround List String Bool Arith Lia.
From PV Require Import MiniPy.Syntax MiniPy.Interp MiniTorch.Ops MiniTorch.OpsC08 MiniTorch.LemmasC08.
From PV Require Import Gen.C08Src C08.SrcRun C08.TieLib C08.TieBlocks.
From PV Require C08.Model.
Import ListNotations.
Local Open Scope string_scope.

#[local] Arguments Qred : simpl never.
#[local] Arguments Qdiv : simpl never.
#[local] Arguments Qmult : simpl never.
#[local] Arguments Qplus : simpl never.
#[local] Arguments Qminus : simpl never.
#[local] Arguments Qcompare : simpl never.
#[local] Arguments Qeq_bool : simpl never.
#[local] Arguments inject_Z : simpl never.
#[local] Arguments Z.of_nat : simpl never.
#[local] Arguments Z.add : simpl never.
#[local] Arguments Z.sub : simpl never.
#[local] Arguments Z.mul : simpl never.
#[local] Arguments Z.eqb : simpl never.

Section Blocks2.
  Variable a : Model.arith.
  Variable rnd : nat -> nat -> Q.
  Notation ext := (ext08 a rnd).

  (* ---- frequency warp -------------------------------------------------------------------------------- *)
  (* V = min(max(F / 2 - eps, 0), max_freq_warp) is Python-level arithmetic: MiniPy's own (exact, in lowest
     terms; max / min return one of their operands, so V is the int 0 or a float) *)
  Definition fw_x1 (eps : Q) (F : Z) : Q := Qred (Qred (inject_Z F / inject_Z 2) - eps).
  Definition V_val (eps Wf : Q) (F : Z) : val :=
    match Qcompare (inject_Z 0) (fw_x1 eps F) with
    | Datatypes.Gt => match Qcompare Wf (inject_Z 0) with Datatypes.Lt => VQ Wf | _ => VInt 0 end
    | _ => match Qcompare Wf (fw_x1 eps F) with Datatypes.Lt => VQ Wf | _ => VQ (fw_x1 eps F) end
    end.
  (* the Python numbers F - 2 * V, V, 2 * V *)
  Definition fw_s1 (F : Z) (Vv : val) : Q :=
    match Vv with VInt z => inject_Z (F - 2 * z) | VQ q => Qred (inject_Z F - Qred (inject_Z 2 * q)) | _ => 0 end.
  Definition fw_s2 (Vv : val) : Q := match Vv with VInt z => inject_Z z | VQ q => q | _ => 0 end.
  Definition fw_s3 (Vv : val) : Q :=
    match Vv with VInt z => inject_Z (2 * z) | VQ q => Qred (inject_Z 2 * q) | _ => 0 end.

  Definition then_of (s : stmt) : stmt := match s with SIf _ t _ => t | _ => SPass end.
  Definition rest_of (s : stmt) : stmt := match s with SSeq _ r => r | _ => SPass end.

  Definition vars_fwarp_rest (k N : nat) (F : Z) (Vv : val) (vs : list (string * val)) : list (string * val) :=
    update "v" (enc_f (T1 N (fun n => s_v a (fw_s3 Vv) (fw_s2 Vv) (rnd (S k) n))))
      (update "v_0" (enc_f (T1 N (fun n => s_v0 a (fw_s1 F Vv) (fw_s2 Vv) (rnd k n)))) vs).

  Lemma fwarp_rest vs ev N F Vv :
    (exists z, Vv = VInt z) \/ (exists q, Vv = VQ q) ->
    lookup "V" vs = Some Vv -> lookup "F" vs = Some (VInt F) ->
    lookup "N" vs = Some (VInt (Z.of_nat N)) -> lookup "device" vs = Some device_token ->
    exec ext (rest_of (then_of draw_fwarp)) (mkState vs ev)
    = Ok CNormal (mkState (vars_fwarp_rest (List.length ev) N F Vv vs) (ev ++ [ev_list1 N; ev_list1 N])).
  Proof.
    intros HV HVv HF HN Hd. unfold draw_fwarp, then_of, rest_of, vars_fwarp_rest.
    destruct HV as [[z ->]|[q ->]].
    - stmt. run. close_state.
    - stmt. run. close_state.
  Qed.

  Definition vars_fwarp (k N : nat) (eps Wf : Q) (F : Z) (vs : list (string * val)) : list (string * val) :=
    if Model.nonzero Wf
    then vars_fwarp_rest k N F (V_val eps Wf F) (update "V" (V_val eps Wf F) vs)
    else update "v" (enc_f empty0) (update "v_0" (enc_f empty0) vs).

  Definition events_fwarp (N : nat) (Wf : Q) : list event :=
    if Model.nonzero Wf then [ev_list1 N; ev_list1 N] else [].

  Lemma V_val_shape eps Wf F : (exists z, V_val eps Wf F = VInt z) \/ (exists q, V_val eps Wf F = VQ q).
  Proof. unfold V_val. destruct (Qcompare (inject_Z 0) (fw_x1 eps F)); destruct (Qcompare Wf _); eauto. Qed.

  Lemma fwarp_run vs ev N eps Wf F :
    lookup "max_freq_warp" vs = Some (VQ Wf) -> lookup "eps" vs = Some (VQ eps) -> lookup "F" vs = Some (VInt F) ->
    lookup "N" vs = Some (VInt (Z.of_nat N)) -> lookup "device" vs = Some device_token ->
    exec ext draw_fwarp (mkState vs ev)
    = Ok CNormal (mkState (vars_fwarp (List.length ev) N eps Wf F vs) (ev ++ events_fwarp N Wf)).
  Proof.
    intros HW He HF HN Hd. unfold vars_fwarp, events_fwarp.
    assert (E : exec ext draw_fwarp (mkState vs ev) =
                if Model.nonzero Wf then exec ext (then_of draw_fwarp) (mkState vs ev)
                else exec ext (SAssign [TName "v_0"; TName "v"] (ECall "torch.empty" [EConst (VInt 0)] [])) (mkState vs ev)).
    { unfold draw_fwarp, then_of. erewrite exec_if_val by (cbn; rewrite HW; reflexivity). reflexivity. }
    rewrite E. clear E. destruct (Model.nonzero Wf).
    - assert (E1 : exec ext (then_of draw_fwarp) (mkState vs ev)
                   = exec ext (rest_of (then_of draw_fwarp)) (mkState (update "V" (V_val eps Wf F) vs) ev)).
      { unfold draw_fwarp, then_of, rest_of. apply exec_seq_ok. unfold V_val, fw_x1. run.
        destruct (Qcompare (inject_Z 0) _); run; destruct (Qcompare Wf _); run; reflexivity. }
      rewrite E1. apply fwarp_rest.
      + apply V_val_shape.
      + rewrite lookup_update. reflexivity.
      + rewrite lookup_update. exact HF.
      + rewrite lookup_update. exact HN.
      + rewrite lookup_update. exact Hd.
    - run. close_state.
  Qed.

  (* ---- return ---------------------------------------------------------------------------------------- *)
  Lemma ret_run vs ev w0 w v0 v t0 t f0 f :
    lookup "w_0" vs = Some w0 -> lookup "w" vs = Some w -> lookup "v_0" vs = Some v0 -> lookup "v" vs = Some v ->
    lookup "t_0" vs = Some t0 -> lookup "t" vs = Some t -> lookup "f_0" vs = Some f0 -> lookup "f" vs = Some f ->
    exec ext draw_ret (mkState vs ev) = Ok (CReturn (VTuple [w0; w; v0; v; t0; t; f0; f])) (mkState vs ev).
  Proof. intros. unfold draw_ret. run. reflexivity. Qed.

  (* ---- head ------------------------------------------------------------------------------------------ *)
  (* the float32 lengths: torch.full((N,), T, dtype=torch.float) or lengths.to(device).float() *)
  Definition L_of (T : nat) (lens : option (list Z)) (n : nat) : Q :=
    match lens with
    | None => Model.r32 a (Model.z2q (Z.of_nat T))
    | Some l => Model.r32 a (Model.z2q (nth n l 0%Z))
    end.

  Definition lens_ok (N T : nat) (lens : option (list Z)) : Prop :=
    match lens with None => True | Some l => List.length l = N /\ lens_in_range T l = true end.

  Definition vars_head (eps : Q) (c : Model.cfg) (N T F : nat) (lens : option (list Z)) : list (string * val) :=
    update "lengths" (enc_f (T1 N (L_of T lens)))
      (update "omeps" (VQ (Qred (inject_Z 1 - eps)))
         (update "eps" (VQ eps)
            (update "device" device_token
               (update "F" (VInt (Z.of_nat F))
                  (update "T" (VInt (Z.of_nat T))
                     (update "N" (VInt (Z.of_nat N))
                        (update "$t1" (VTuple [VInt (Z.of_nat N); VInt (Z.of_nat T); VInt (Z.of_nat F)])
                           (draw_vars eps c N T F lens)))))))).

  Lemma tmap_list {X Y} (f : X -> Y) (d : X) (l : list X) :
    tmap f (mkTn [List.length l] l) = T1 (List.length l) (fun n => f (nth n l d)).
  Proof.
    unfold tmap, T1. cbn [shp dat]. f_equal.
    apply (nth_ext _ _ (f d) (f d)); [now rewrite !map_length, seq_length|].
    intros n Hn. rewrite map_length in Hn. rewrite map_nth.
    rewrite (MiniTorch.Lemmas.nth_map_seq (fun n => f (nth n l d))) by assumption. reflexivity.
  Qed.

  Lemma cmp_is_none_none : cmp_eval Is VNone VNone = Some true.  Proof. reflexivity. Qed.
  #[local] Arguments cmp_eval : simpl never.
  Ltac hrun := repeat first [ run1 | progress (change (Pos.to_nat 1) with 1%nat; change (Pos.to_nat 2) with 2%nat)
                            | progress rewrite ?cmp_is_none_l, ?cmp_is_none_none ].

  Lemma head_run eps c N T F lens : lens_ok N T lens ->
    exec ext draw_head (mkState (draw_vars eps c N T F lens) [])
    = Ok CNormal (mkState (vars_head eps c N T F lens) []).
  Proof.
    intros Hok. unfold draw_head, vars_head, draw_vars, globals08, lengths_val. destruct lens as [l|].
    - destruct Hok as [HN HR]. subst N.
      erewrite exec_seq_ok; [ | run; rewrite (ext_check_lens a rnd (List.length l) T F eps l _ eq_refl HR); reflexivity ].
      erewrite exec_seq_ok; [ | solve [hrun; reflexivity] ].
      stmt. stmt. stmt. hrun. rewrite (tmap_list _ 0%Z). close_state.
    - erewrite exec_seq_ok; [ | run; rewrite (ext_check_none a rnd N T F eps); reflexivity ].
      erewrite exec_seq_ok; [ | solve [hrun; reflexivity] ].
      stmt. stmt. stmt. hrun. close_state.
  Qed.
End Blocks2.
