(* C14 - the property read on OUTPUTS alone, independently of how the code computes them.

   Part A (Prop): what the property text promises, clause by clause.
   Part B (bool): executable checkers used by the harness to judge an implementation output
   when it differs from the model; [Proofs.v] shows each checker implies the Prop reading. *)
From Coq Require Import List Arith Bool ZArith Sorting.Permutation Sorting.Sorted.
From PV Require Import C14.Model.
Import ListNotations.

(* ====================================================================================== *)
(* A. declarative                                                                         *)
(* ====================================================================================== *)

(* the bucket a (non-empty) batch belongs to *)
Definition bucket_of (bk : nat -> nat) (b : list nat) : nat := bk (hd 0 b).

(* the sub-sequence of the sampler's indices that fall in bucket h *)
Definition in_bucket (bk : nat -> nat) (h : nat) (s : list nat) : list nat :=
  filter (fun i => Nat.eqb (bk i) h) s.

(* the batches of bucket h, in the order they were yielded *)
Definition batches_of (bk : nat -> nat) (h : nat) (out : list (list nat)) : list (list nat) :=
  filter (fun b => Nat.eqb (bucket_of bk b) h) out.

(* "each batch ... contains indices of a single bucket" *)
Definition single_bucket (bk : nat -> nat) (out : list (list nat)) : Prop :=
  forall b, In b out -> b <> [] /\ forall x, In x b -> bk x = bucket_of bk b.

(* "... in sampler order", "every index the underlying sampler produced appears in exactly one
   batch - or in none only when its incomplete batch was dropped": per bucket, the batches
   concatenated are the bucket's indices in sampler order, all of them, or (drop) all but a
   trailing remainder shorter than the bucket's batch size *)
Definition covers_in_order (bk sz : nat -> nat) (drop : bool) (s : list nat)
  (out : list (list nat)) : Prop :=
  forall h, exists rest,
    concat (batches_of bk h out) ++ rest = in_bucket bk h s /\
    (rest = [] \/ (drop = true /\ length rest < sz h)).

(* "has that bucket's size (only trailing batches may be short, and only if incomplete batches
   are kept)": the output is a run of full batches followed by the short ones, which exist only
   when incomplete batches are kept, at most one per bucket (ascending bucket ids) *)
Definition sizes_ok (bk sz : nat -> nat) (drop : bool) (out : list (list nat)) : Prop :=
  exists full trailing,
    out = full ++ trailing /\
    Forall (fun b => length b = sz (bucket_of bk b)) full /\
    Forall (fun b => length b < sz (bucket_of bk b)) trailing /\
    (drop = true -> trailing = []) /\
    StronglySorted lt (map (bucket_of bk) trailing).

Definition bbs_spec (bk sz : nat -> nat) (drop : bool) (s : list nat) (out : list (list nat)) : Prop :=
  single_bucket bk out /\ covers_in_order bk sz drop s out /\ sizes_ok bk sz drop out.

(* length classes: two lengths are in the same class when no bound separates them *)
Definition same_class (bounds : list nat) (l1 l2 : nat) : Prop :=
  forall b, In b bounds -> (l1 <= b <-> l2 <= b).

(* collation: what cutting a padded batch back to the reported sizes gives.  [cell] reads entry
   (n, t) of a padded tensor in either layout *)
Definition cell {A} (batch_first : bool) (d : A) (m : list (list A)) (n t : nat) : A :=
  if batch_first then nth t (nth n m []) d else nth n (nth t m []) d.

Definition cut_back {A} (batch_first : bool) (d : A) (m : list (list A)) (n size : nat) : list A :=
  map (cell batch_first d m n) (seq 0 size).

(* number of time steps of a padded tensor *)
Definition time_len {A} (batch_first : bool) (m : list (list A)) : nat :=
  if batch_first then length (hd [] m) else length m.

Definition uncollate_field {A} (batch_first : bool) (d : A) (m : list (list A)) (sizes : list nat)
  : list (list A) :=
  map (fun ns => cut_back batch_first d m (fst ns) (snd ns)) (combine (seq 0 (length sizes)) sizes).

(* all cells beyond the reported size hold the pad value *)
Definition padding_is {A} (batch_first : bool) (pad : A) (m : list (list A)) (sizes : list nat) : Prop :=
  forall n t, n < length sizes -> nth n sizes 0 <= t -> t < time_len batch_first m ->
              cell batch_first pad m n t = pad.

(* the items a collated SpectDataSet batch stands for *)
Definition uncollate_spect (batch_first : bool) (b : sbatch) : list utt :=
  let N := length (b_fsz b) in
  let feats := uncollate_field batch_first [] (b_feats b) (b_fsz b) in
  map (fun n =>
         mkUtt (nth n feats [])
               (match b_alis b with
                | Some a => Some (cut_back batch_first 0%Z a n (nth n (b_fsz b) 0))
                | None => None end)
               (match b_refs b, b_rsz b with
                | Some r, Some rs => Some (cut_back batch_first [] r n (nth n rs 0))
                | _, _ => None end)
               (nth n (b_ids b) 0))
      (seq 0 N).

(* what the collate functions document: ali (ref) is dropped for the whole batch when any is missing *)
Definition mask_missing (sq : list utt) : list utt :=
  let a := forallb (fun u => is_some (u_ali u)) sq in
  let r := forallb (fun u => is_some (u_ref u)) sq in
  map (fun u => mkUtt (u_feat u) (if a then u_ali u else None) (if r then u_ref u else None) (u_id u)) sq.

(* context-window batches are concatenations: cutting the concatenation at the reported window
   counts gives the utterances back *)
Fixpoint split_by {A} (sizes : list nat) (l : list A) : list (list A) :=
  match sizes with
  | [] => []
  | n :: t => firstn n l :: split_by t (skipn n l)
  end.

(* the alignment of an utterance, when present, has one entry per frame *)
Definition wf_utt (u : utt) : Prop :=
  forall a, u_ali u = Some a -> length a = length (u_feat u).

(* edge-replicated context window: entry k is frame clamp(idx - left + k) *)
Definition clamp_frame (T idx left k : nat) : nat :=
  Nat.min (T - 1) (idx + k - left).

(* ====================================================================================== *)
(* B. boolean checkers                                                                    *)
(* ====================================================================================== *)

Fixpoint prefixb (a b : list nat) : bool :=
  match a, b with
  | [], _ => true
  | x :: a', y :: b' => Nat.eqb x y && prefixb a' b'
  | _, _ => false
  end.

Fixpoint strictly_incb (l : list nat) : bool :=
  match l with
  | [] => true
  | x :: t => match t with [] => true | y :: _ => Nat.ltb x y && strictly_incb t end
  end.

Fixpoint drop_while {A} (f : A -> bool) (l : list A) : list A :=
  match l with
  | [] => []
  | x :: t => if f x then drop_while f t else l
  end.

Definition bbs_okb (bk sz : nat -> nat) (drop : bool) (s : list nat) (out : list (list nat)) : bool :=
  let keys := nodup Nat.eq_dec (map bk s) in
  forallb (fun b => match b with [] => false | _ => true end
                    && forallb (fun x => Nat.eqb (bk x) (bucket_of bk b)) b
                    && existsb (Nat.eqb (bucket_of bk b)) keys) out
  && forallb (fun h =>
                let got := concat (batches_of bk h out) in
                let want := in_bucket bk h s in
                if drop then prefixb got want && Nat.ltb (length want - length got) (sz h)
                else ln_eqb got want) keys
  && (let trailing := drop_while (fun b => Nat.eqb (length b) (sz (bucket_of bk b))) out in
      forallb (fun b => Nat.ltb (length b) (sz (bucket_of bk b))) trailing
      && (negb drop || match trailing with [] => true | _ => false end)
      && strictly_incb (map (bucket_of bk) trailing)).

(* the bucket assignment a length-bucketed loader exposes (idx2bucket, bucket2size as tables):
   monotone in the length (so equal lengths share a bucket and buckets are length intervals),
   at most nb buckets, every bucket has a size; fixed sizes are batch_size, dynamic sizes are
   the greatest x with x * y <= Y * batch_size (y longest in the bucket, Y longest overall) *)
Definition max_list (l : list nat) : nat := fold_right Nat.max 0 l.

Definition params_okb (lens : list nat) (nb bs : nat) (dyn : bool) (i2b b2s : list nat) : bool :=
  Nat.eqb (length i2b) (length lens)
  && Nat.leb (length b2s) nb
  && forallb (fun j => Nat.ltb j (length b2s)) i2b
  && forallb (fun i => forallb (fun j =>
        negb (Nat.leb (nth i lens 0) (nth j lens 0)) || Nat.leb (nth i i2b 0) (nth j i2b 0))
        (seq 0 (length lens))) (seq 0 (length lens))
  && forallb (fun j =>
        let members := map fst (filter (fun li => Nat.eqb (snd li) j) (combine lens i2b)) in
        let y := max_list members in
        let Y := max_list lens in
        let x := nth j b2s 0 in
        Nat.leb 1 x &&
        if dyn then
          match members with
          | [] => true
          | _ => if Nat.eqb y 0 then Nat.leb bs x
                 else Nat.leb (x * y) (Y * bs) && Nat.ltb (Y * bs) ((x + 1) * y)
          end
        else Nat.eqb x bs) (seq 0 (length b2s)).

(* plain batching (num_length_buckets = 1): consecutive chunks of the order *)
Definition plain_okb (bs : nat) (drop : bool) (order : list nat) (out : list (list nat)) : bool :=
  let got := concat out in
  (if drop then prefixb got order && Nat.ltb (length order - length got) bs else ln_eqb got order)
  && (let trailing := drop_while (fun b => Nat.eqb (length b) bs) out in
      match trailing with
      | [] => true
      | [b] => negb drop && Nat.ltb (length b) bs && Nat.ltb 0 (length b)
      | _ => false
      end).

(* a loader's epoch: len() = number of batches, and the batches are right *)
Definition loader_okb (lens : list nat) (p : lparams) (tables : option (list nat * list nat))
  (order : list nat) (ln : nat) (out : list (list nat)) : bool :=
  Nat.eqb ln (length out)
  && forallb (fun b => forallb (fun i => Nat.ltb i (length lens)) b) out
  && match tables with
     | Some (i2b, b2s) =>
         Nat.ltb 1 (p_nb p)
         && params_okb lens (p_nb p) (p_bs p) (p_dyn p) i2b b2s
         && bbs_okb (tbl i2b) (tbl b2s) (p_drop p) order out
     | None => Nat.leb (p_nb p) 1 && plain_okb (p_bs p) (p_drop p) order out
     end.

(* collation *)
Definition utt_eqb (a b : utt) : bool :=
  llz_eqb (u_feat a) (u_feat b) && opt_eqb lz_eqb (u_ali a) (u_ali b)
  && opt_eqb llz_eqb (u_ref a) (u_ref b) && Nat.eqb (u_id a) (u_id b).

Fixpoint remove_first {A} (eqb : A -> A -> bool) (x : A) (l : list A) : option (list A) :=
  match l with
  | [] => None
  | y :: t => if eqb x y then Some t
              else match remove_first eqb x t with Some r => Some (y :: r) | None => None end
  end.

Fixpoint permb {A} (eqb : A -> A -> bool) (a b : list A) : bool :=
  match a with
  | [] => match b with [] => true | _ => false end
  | x :: a' => match remove_first eqb x b with Some b' => permb eqb a' b' | None => false end
  end.

Fixpoint non_increasingb (l : list nat) : bool :=
  match l with
  | [] => true
  | x :: t => match t with [] => true | y :: _ => Nat.leb y x && non_increasingb t end
  end.

Definition padding_okb {A} (eqb : A -> A -> bool) (batch_first : bool) (pad : A)
  (m : list (list A)) (sizes : list nat) : bool :=
  forallb (fun n => forallb (fun t => Nat.ltb t (nth n sizes 0) || eqb (cell batch_first pad m n t) pad)
                            (seq 0 (time_len batch_first m)))
          (seq 0 (length sizes)).

(* shape: N rows, each with the same number of time steps *)
Definition shape_okb {A} (batch_first : bool) (m : list (list A)) (N : nat) : bool :=
  if batch_first then Nat.eqb (length m) N && forallb (fun r => Nat.eqb (length r) (time_len true m)) m
  else forallb (fun r => Nat.eqb (length r) N) m.

(* has_ids = false: the ids are not part of the output, compare with ids erased *)
Definition erase_id (has_ids : bool) (u : utt) : utt :=
  if has_ids then u else mkUtt (u_feat u) (u_ali u) (u_ref u) 0.

Definition spect_collate_okb (bf sort has_ids : bool) (F W : nat) (sq : list utt) (b : sbatch) : bool :=
  let N := length sq in
  let back := map (erase_id has_ids) (uncollate_spect bf b) in
  let want := map (erase_id has_ids) (mask_missing sq) in
  Nat.eqb (length (b_fsz b)) N
  && (if sort then permb utt_eqb back want && non_increasingb (b_fsz b)
      else list_eqb utt_eqb back want)
  && shape_okb bf (b_feats b) N
  && Nat.eqb (time_len bf (b_feats b)) (max_list (b_fsz b))
  && padding_okb lz_eqb bf (repeat 0%Z F) (b_feats b) (b_fsz b)
  && match b_alis b with
     | Some a => shape_okb bf a N && Nat.eqb (time_len bf a) (max_list (b_fsz b))
                 && padding_okb Z.eqb bf PADV a (b_fsz b)
     | None => true
     end
  && match b_refs b, b_rsz b with
     | Some r, Some rs => Nat.eqb (length rs) N && shape_okb bf r N
                          && Nat.eqb (time_len bf r) (max_list rs)
                          && padding_okb lz_eqb bf (repeat PADV W) r rs
     | None, None => true
     | _, _ => false
     end.
