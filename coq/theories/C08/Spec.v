(* C08 - the property read on *outputs* (no reference to how the code computes them).

   Draws: [draw_ok] is the declarative reading of "the drawn parameters respect every
   configured limit"; [draw_okb] is its boolean form, evaluated by the harness on what the
   implementation drew ([wslack] absorbs the epsilon the code subtracts from len/2 and
   the float32 rounding of the real-valued warp parameters, [pslack] the float32 rounding
   of a non-dyadic proportion; the theorems use wslack = eps and pslack = 0).
   Masking: [masked_cell] says which cells a parameter tuple masks.
   Linear warp: [mono_okb] / [pinned_okb] read "valid frames are read in non-decreasing
   order, beginning and ending within half a frame of the first and last valid frame" on
   a grid returned by warp_1d_grid. *)
From Coq Require Import List ZArith QArith Qround Qabs Bool.
From PV Require Import C08.Model.
Import ListNotations.
Local Open Scope Q_scope.

(* ---- time masks ---------------------------------------------------------------- *)
Definition count_nonzero (l : list (Z * Z)) : Z :=
  Z.of_nat (length (filter (fun b => negb (snd b =? 0)%Z) l)).

(* one time mask (t_0, t) of a sequence of [len] valid frames *)
Definition tmask_ok (slack : Q) (c : cfg) (len : Z) (b : Z * Z) : Prop :=
  (0 <= snd b)%Z /\ (snd b <= c_Mt c)%Z                      (* absolute width cap *)
  /\ z2q (snd b) <= z2q len * c_pt c * (1 + slack)           (* proportional width cap *)
  /\ (0 <= fst b)%Z /\ (fst b + snd b <= len)%Z.             (* inside the valid frames *)

Definition tmasks_ok (slack : Q) (c : cfg) (len : Z) (l : list (Z * Z)) : Prop :=
  length l = c_nt c
  /\ Forall (tmask_ok slack c len) l
  /\ (count_nonzero l <= Z.of_nat (c_nt c))%Z                (* absolute count cap *)
  /\ z2q (count_nonzero l) <= z2q len * c_npt c * (1 + slack). (* proportional count cap *)

(* ---- frequency masks ----------------------------------------------------------- *)
Definition fmask_ok (c : cfg) (F : Z) (b : Z * Z) : Prop :=
  (0 <= snd b)%Z /\ (snd b <= c_Mf c)%Z /\ (0 <= fst b)%Z /\ (fst b + snd b <= F)%Z.

Definition fmasks_ok (c : cfg) (F : Z) (l : list (Z * Z)) : Prop :=
  length l = c_nf c /\ Forall (fmask_ok c F) l.

(* ---- warps: centre x0 and shift x of a dimension of [len] points, limit Wmax ----
   the permitted half-width is W = min(Wmax, len/2); the centre stays in [W, len - W],
   the shift in [-W, W] *)
Definition warp_ok (slack : Q) (Wmax : Q) (len : Z) (p : Q * Q) : Prop :=
  let W := qmin Wmax (z2q len / 2) in
  W - slack <= fst p /\ fst p <= z2q len - W + slack
  /\ - W - slack <= snd p /\ snd p <= W + slack.

Definition opt_ok {A} (P : A -> Prop) (o : option A) : Prop :=
  match o with None => True | Some x => P x end.

(* a parameter group may always be absent (nothing is then warped or masked); if the
   configuration disables it, a present group must be trivial, which the caps enforce *)
Definition draw_ok (wslack pslack : Q) (c : cfg) (F len : Z) (p : params) : Prop :=
  opt_ok (warp_ok wslack (c_Wt c) len) (p_tw p)
  /\ opt_ok (warp_ok wslack (c_Wf c) F) (p_fw p)
  /\ opt_ok (tmasks_ok pslack c len) (p_tm p)
  /\ opt_ok (fmasks_ok c F) (p_fm p).

(* ---- boolean forms --------------------------------------------------------------- *)
Definition tmask_okb (slack : Q) (c : cfg) (len : Z) (b : Z * Z) : bool :=
  (0 <=? snd b)%Z && (snd b <=? c_Mt c)%Z
  && Qle_bool (z2q (snd b)) (z2q len * c_pt c * (1 + slack))
  && (0 <=? fst b)%Z && (fst b + snd b <=? len)%Z.

Definition tmasks_okb (slack : Q) (c : cfg) (len : Z) (l : list (Z * Z)) : bool :=
  Nat.eqb (length l) (c_nt c) && forallb (tmask_okb slack c len) l
  && (count_nonzero l <=? Z.of_nat (c_nt c))%Z
  && Qle_bool (z2q (count_nonzero l)) (z2q len * c_npt c * (1 + slack)).

Definition fmask_okb (c : cfg) (F : Z) (b : Z * Z) : bool :=
  (0 <=? snd b)%Z && (snd b <=? c_Mf c)%Z && (0 <=? fst b)%Z && (fst b + snd b <=? F)%Z.

Definition fmasks_okb (c : cfg) (F : Z) (l : list (Z * Z)) : bool :=
  Nat.eqb (length l) (c_nf c) && forallb (fmask_okb c F) l.

Definition warp_okb (slack : Q) (Wmax : Q) (len : Z) (p : Q * Q) : bool :=
  let W := qmin Wmax (z2q len / 2) in
  Qle_bool (W - slack) (fst p) && Qle_bool (fst p) (z2q len - W + slack)
  && Qle_bool (- W - slack) (snd p) && Qle_bool (snd p) (W + slack).

Definition opt_okb {A} (f : A -> bool) (o : option A) : bool :=
  match o with None => true | Some x => f x end.

Definition draw_okb (wslack pslack : Q) (c : cfg) (F len : Z) (p : params) : bool :=
  opt_okb (warp_okb wslack (c_Wt c) len) (p_tw p)
  && opt_okb (warp_okb wslack (c_Wf c) F) (p_fw p)
  && opt_okb (tmasks_okb pslack c len) (p_tm p)
  && opt_okb (fmasks_okb c F) (p_fm p).

(* ---- masking ---------------------------------------------------------------------- *)
Definition opt_bands (o : option (list (Z * Z))) : list (Z * Z) :=
  match o with Some l => l | None => [] end.

(* cell (t, f) is masked: some time band covers t or some frequency band covers f *)
Definition masked_cell (tm fm : option (list (Z * Z))) (t f : Z) : Prop :=
  (exists b, In b (opt_bands tm) /\ (fst b <= t < fst b + snd b)%Z)
  \/ (exists b, In b (opt_bands fm) /\ (fst b <= f < fst b + snd b)%Z).

(* ---- linear warp, read on a grid (grid_sample coordinates, one per output frame) --- *)
(* pixel positions read by the first [len] output frames *)
Definition reads (T len : Z) (grid : list Q) : list Q :=
  map (unnorm T) (firstn (Z.to_nat len) grid).

Fixpoint nondecr (tol : Q) (l : list Q) : bool :=
  match l with
  | x :: ((y :: _) as t) => Qle_bool (x - tol) y && nondecr tol t
  | _ => true
  end.

Definition mono_okb (tol : Q) (T len : Z) (grid : list Q) : bool :=
  nondecr tol (reads T len grid).

Definition pinned_okb (tol : Q) (T len : Z) (grid : list Q) : bool :=
  let r := reads T len grid in
  Qle_bool (Qabs (nth 0 r 0)) ((1 # 2) + tol)
  && Qle_bool (Qabs (nth (Z.to_nat (len - 1)) r 0 - z2q (len - 1))) ((1 # 2) + tol).
