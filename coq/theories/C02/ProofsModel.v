(* C02 — lemmas tying Model.v (the `mistakes` table of _string_matching) to Spec.v.
   Central statements: [body_fst] / [cost_rows_are_c01_rows] (the cost row kept beside the
   mistakes is C01's cost row), [mistakes_invariant] (every cell of the mistakes table is
   the number of edits of a script whose cost is the cell of the cost table = lev),
   [pair_er_correct], [pair_prefix_er_correct], and the batch-level headlines. *)
From Coq Require Import List ZArith QArith Bool Arith Lia.
From PV Require Import C01.Obs C01.Spec C01.Model C01.LevFacts C01.Proofs.
From PV Require Import C02.Spec C02.Model C02.ProofsSpec.
Import ListNotations.
Local Open Scope Z_scope.

(* ======================================================================================
   where / the sequential deletion loop
   ====================================================================================== *)
Lemma where3_length p x y :
  length (where3 p x y) = Nat.min (length p) (Nat.min (length x) (length y)).
Proof.
  revert x y; induction p as [|b p IH]; intros x y; [reflexivity|].
  destruct x as [|a x], y as [|c y]; cbn [where3 length Nat.min]; try reflexivity.
  rewrite IH. reflexivity.
Qed.

Lemma nth_where3 p x y i :
  (i < length p)%nat -> (i < length x)%nat -> (i < length y)%nat ->
  nth i (where3 p x y) 0 = if nth i p false then nth i x 0 else nth i y 0.
Proof.
  revert x y i; induction p as [|b p IH]; intros [|a x] [|c y] i Hp Hx Hy; cbn [length] in *; try lia.
  destruct i as [|i]; [reflexivity|]. cbn [where3 nth]. apply IH; lia.
Qed.

(* where(row[1:] >= sub_row, sub_row, row[1:]) is the elementwise minimum *)
Lemma where3_min x : forall y, where3 (map2 (fun a b => b <=? a) x y) y x = map2 Z.min x y.
Proof.
  induction x as [|a x IH]; intros [|b y]; cbn [map2 where3]; try reflexivity.
  rewrite IH. f_equal. destruct (b <=? a) eqn:E; [apply Z.leb_le in E|apply Z.leb_gt in E]; lia.
Qed.

(* the cost part of the in-place loop: v[i] = min(v[i], v[i-1] + d), left to right *)
Fixpoint ssweep (cd p : Z) (l : list Z) : list Z :=
  match l with
  | [] => []
  | x :: t => let x' := Z.min x (p + cd) in x' :: ssweep cd x' t
  end.

Lemma ssweep_length cd p l : length (ssweep cd p l) = length l.
Proof. revert p; induction l as [|x l IH]; intros p; cbn [ssweep length]; [reflexivity|]. rewrite IH. reflexivity. Qed.

Lemma del_loop_fst cd row : forall mist pr pm, length mist = length row ->
  fst (del_loop cd pr pm row mist) = ssweep cd pr row.
Proof.
  induction row as [|x row IH]; intros [|m mist] pr pm HL; cbn [length] in HL; try lia; [reflexivity|].
  cbn [del_loop ssweep].
  assert (E : (if x <=? pr + cd then x else pr + cd) = Z.min x (pr + cd)).
  { destruct (x <=? pr + cd) eqn:E; [apply Z.leb_le in E|apply Z.leb_gt in E]; lia. }
  rewrite E.
  destruct (del_loop cd (Z.min x (pr + cd)) (if x <=? pr + cd then m else pm + 1) row mist)
    as [rr mm] eqn:ED.
  cbn [fst]. f_equal. rewrite <- (IH mist _ (if x <=? pr + cd then m else pm + 1)) by lia.
  rewrite ED. reflexivity.
Qed.

Lemma nth_ssweep_0 cd p l : l <> [] -> nth 0 (ssweep cd p l) 0 = Z.min (nth 0 l 0) (p + cd).
Proof. destruct l; [contradiction|reflexivity]. Qed.

Lemma nth_ssweep_S cd l : forall p k, (S k < length l)%nat ->
  nth (S k) (ssweep cd p l) 0 = Z.min (nth (S k) l 0) (nth k (ssweep cd p l) 0 + cd).
Proof.
  induction l as [|y l IH]; intros p k Hk; cbn [length] in Hk; [lia|].
  cbn [ssweep nth]. destruct k as [|k].
  - rewrite nth_ssweep_0 by (destruct l; [cbn in Hk; lia|discriminate]). reflexivity.
  - rewrite IH by lia. reflexivity.
Qed.

Lemma sweep_at_ssweep cd x t k : (k < length t)%nat ->
  sweep_at cd (x :: t) (S k) = nth k (ssweep cd x t) 0.
Proof.
  induction k as [|k IH]; intros Hk.
  - cbn [sweep_at nth]. rewrite nth_ssweep_0 by (destruct t; [cbn in Hk; lia|discriminate]).
    reflexivity.
  - change (sweep_at cd (x :: t) (S (S k)))
      with (Z.min (nth (S (S k)) (x :: t) 0) (sweep_at cd (x :: t) (S k) + cd)).
    rewrite IH by lia. rewrite nth_ssweep_S by lia. reflexivity.
Qed.

Lemma sweep_cons cd x t : sweep cd (x :: t) = x :: ssweep cd x t.
Proof.
  apply (nth_ext _ _ 0 0).
  - unfold sweep. rewrite map_length, seq_length. cbn [length]. rewrite ssweep_length. reflexivity.
  - intros i Hi. unfold sweep in *. rewrite map_length, seq_length in Hi.
    rewrite nth_map_seq by exact Hi. cbn [Nat.add]. destruct i as [|i]; [reflexivity|].
    cbn [nth]. apply sweep_at_ssweep. cbn [length] in Hi. lia.
Qed.

Lemma del_sweep_fst cd row mist : length mist = length row ->
  fst (del_sweep cd row mist) = del_fold cd row.
Proof.
  intros HL. rewrite del_fold_is_sweep. destruct row as [|x row], mist as [|m mist];
    cbn [length] in HL; try lia; [reflexivity|].
  cbn [del_sweep]. destruct (del_loop cd x m row mist) as [rr mm] eqn:ED. cbn [fst].
  rewrite sweep_cons. f_equal. rewrite <- (del_loop_fst cd row mist x m) by lia. rewrite ED. reflexivity.
Qed.

(* ======================================================================================
   one pair
   ====================================================================================== *)
Section Rows.
  Variables ci cd cs : Z.
  Variables r h : list Z.
  Notation lev := (lev ci cd cs).
  Notation cost := (cost ci cd cs).
  Notation lrow := (lrow ci cd cs r h).
  Notation body := (body ci cd cs r).
  Notation R := (length r).

  (* ---- the cost row of the mistakes branch is C01's cost row --------------------------- *)
  Lemma body_fst tok im last lastm :
    length last = S R -> length lastm = S R ->
    fst (body tok im (last, lastm)) = del_fold cd (cand_row ci cs r tok im last).
  Proof.
    intros HL HM. unfold Model.body. rewrite del_sweep_fst.
    - rewrite where3_min. reflexivity.
    - cbn [length]. f_equal.
      rewrite !where3_length, !map2_length, !length_tl, !length_removelast, !map_length, HL, HM. lia.
  Qed.

  (* ---- witnesses: a cell (cost c, mistakes m) at reference prefix i, hypothesis prefix j - *)
  Definition W (i j : nat) (c m : Z) : Prop :=
    exists s, transforms s (firstn i r) (firstn j h) /\ cost s = c /\ edits s = m.

  Lemma W_ins i j c m : (j < length h)%nat -> W i j c m -> W i (S j) (c + ci) (m + 1).
  Proof.
    intros Hj [s [T [C E]]]. exists (s ++ [Ins (nth j h 0)]). split; [|split].
    - rewrite (firstn_snoc_nth h j 0) by exact Hj. rewrite <- (app_nil_r (firstn i r)).
      apply transforms_app; [exact T|]. repeat constructor.
    - rewrite cost_app, C. cbn [Spec.cost op_cost]. lia.
    - rewrite edits_app, E. cbn [edits is_edit]. lia.
  Qed.

  Lemma W_del i j c m : (i < R)%nat -> W i j c m -> W (S i) j (c + cd) (m + 1).
  Proof.
    intros Hi [s [T [C E]]]. exists (s ++ [Del (nth i r 0)]). split; [|split].
    - rewrite (firstn_snoc_nth r i 0) by exact Hi. rewrite <- (app_nil_r (firstn j h)).
      apply transforms_app; [exact T|]. repeat constructor.
    - rewrite cost_app, C. cbn [Spec.cost op_cost]. lia.
    - rewrite edits_app, E. cbn [edits is_edit]. lia.
  Qed.

  Lemma W_sub i j c m : (i < R)%nat -> (j < length h)%nat -> W i j c m ->
    W (S i) (S j) (c + cs * (if nth i r 0 =? nth j h 0 then 0 else 1))
                  (m + (if nth i r 0 =? nth j h 0 then 0 else 1)).
  Proof.
    intros Hi Hj [s [T [C E]]]. unfold W.
    rewrite (firstn_snoc_nth r i 0) by exact Hi. rewrite (firstn_snoc_nth h j 0) by exact Hj.
    destruct (nth i r 0 =? nth j h 0) eqn:Eab.
    - apply Z.eqb_eq in Eab. exists (s ++ [Keep (nth i r 0)]). split; [|split].
      + rewrite <- Eab. apply transforms_app; [exact T|]. repeat constructor.
      + rewrite cost_app, C. cbn [Spec.cost op_cost]. lia.
      + rewrite edits_app, E. cbn [edits is_edit]. lia.
    - apply Z.eqb_neq in Eab. exists (s ++ [Sub (nth i r 0) (nth j h 0)]). split; [|split].
      + apply transforms_app; [exact T|]. constructor; [exact Eab|constructor].
      + rewrite cost_app, C. cbn [Spec.cost op_cost]. lia.
      + rewrite edits_app, E. cbn [edits is_edit]. lia.
  Qed.

  Lemma W_0 i : (i <= R)%nat -> W i 0 (Z.of_nat i * cd) (Z.of_nat i).
  Proof.
    intros Hi. exists (map Del (firstn i r)). cbn [firstn]. split; [apply transforms_all_del|].
    rewrite cost_all_del, edits_all_del, firstn_length, Nat.min_l by lia. split; reflexivity.
  Qed.

  (* both tables have R + 1 entries and every cell has a witness *)
  Definition Wst (j : nat) (st : list Z * list Z) : Prop :=
    length (fst st) = S R /\ length (snd st) = S R /\
    forall i, (i <= R)%nat -> W i j (nth i (fst st) 0) (nth i (snd st) 0).

  Lemma state0_W : Wst 0 (state0 cd r).
  Proof.
    unfold Wst, state0, row0. cbn [fst snd]. rewrite !map_length, seq_length.
    split; [reflexivity|split; [reflexivity|]]. intros i Hi.
    rewrite !nth_map_seq by lia. cbn [Nat.add]. apply W_0. exact Hi.
  Qed.

  (* the deletion loop keeps witnesses *)
  Lemma del_loop_W j cdrow : forall mist pr pm i0,
    length mist = length cdrow -> (i0 + length cdrow <= R)%nat ->
    W i0 j pr pm ->
    (forall k, (k < length cdrow)%nat -> W (S i0 + k) j (nth k cdrow 0) (nth k mist 0)) ->
    length (fst (del_loop cd pr pm cdrow mist)) = length cdrow /\
    length (snd (del_loop cd pr pm cdrow mist)) = length cdrow /\
    forall k, (k < length cdrow)%nat ->
      W (S i0 + k) j (nth k (fst (del_loop cd pr pm cdrow mist)) 0)
                     (nth k (snd (del_loop cd pr pm cdrow mist)) 0).
  Proof.
    induction cdrow as [|x row IH]; intros [|m mist] pr pm i0 HL Hi0 Hp Hk; cbn [length] in *; try lia.
    - cbn [del_loop fst snd length]. split; [reflexivity|split; [reflexivity|]]. intros k Hlt. lia.
    - cbn [del_loop].
      set (x' := if x <=? pr + cd then x else pr + cd).
      set (m' := if x <=? pr + cd then m else pm + 1).
      assert (Hx' : W (S i0) j x' m').
      { unfold x', m'. destruct (x <=? pr + cd).
        - specialize (Hk 0%nat ltac:(lia)). rewrite Nat.add_0_r in Hk. exact Hk.
        - apply W_del; [lia|exact Hp]. }
      destruct (IH mist x' m' (S i0)) as [L1 [L2 L3]]; [lia|lia|exact Hx'| |].
      { intros k Hlt. specialize (Hk (S k) ltac:(lia)). cbn [nth] in Hk.
        replace (S (S i0) + k)%nat with (S i0 + S k)%nat by lia. exact Hk. }
      destruct (del_loop cd x' m' row mist) as [rr mm] eqn:ED. cbn [fst snd length] in *.
      split; [lia|split; [lia|]]. intros k Hlt. destruct k as [|k]; cbn [nth].
      + rewrite Nat.add_0_r. exact Hx'.
      + replace (S i0 + S k)%nat with (S (S i0) + k)%nat by lia. apply L3. lia.
  Qed.

  Lemma del_sweep_W j row mist :
    length row = S R -> length mist = S R ->
    (forall i, (i <= R)%nat -> W i j (nth i row 0) (nth i mist 0)) ->
    Wst j (del_sweep cd row mist).
  Proof.
    intros HL HM HW. destruct row as [|x row], mist as [|m mist]; cbn [length] in *; try lia.
    cbn [del_sweep].
    destruct (del_loop_W j row mist x m 0%nat) as [L1 [L2 L3]]; [lia|lia|exact (HW 0%nat ltac:(lia))| |].
    { intros k Hk. exact (HW (S k) ltac:(lia)). }
    destruct (del_loop cd x m row mist) as [rr mm] eqn:ED. cbn [fst snd] in *.
    unfold Wst. cbn [fst snd length]. split; [lia|split; [lia|]].
    intros i Hi. destruct i as [|i]; cbn [nth].
    - exact (HW 0%nat ltac:(lia)).
    - apply (L3 i). lia.
  Qed.

  (* one live step (ins_mask = 1) *)
  Lemma body_W j st : (j < length h)%nat -> Wst j st -> Wst (S j) (body (nth j h 0) 1 st).
  Proof.
    intros Hj [HL [HM HW]]. destruct st as [last lastm]. cbn [fst snd] in *.
    unfold Model.body.
    set (tok := nth j h 0).
    set (neq := map (fun a => if a =? tok then 0 else 1) r).
    set (row := map (fun x => x + ci * 1) last).
    set (sub_row := map2 (fun x m => x + cs * m) (removelast last) neq).
    set (pick := map2 (fun a b => b <=? a) (tl row) sub_row).
    set (mist := map (fun x => x + 1) lastm).
    set (msub := map2 (fun x m => x + m) (removelast lastm) neq).
    assert (Lneq : length neq = R) by (unfold neq; apply map_length).
    assert (Lrow : length row = S R) by (unfold row; rewrite map_length; exact HL).
    assert (Lmist : length mist = S R) by (unfold mist; rewrite map_length; exact HM).
    assert (Lsub : length sub_row = R)
      by (unfold sub_row; rewrite map2_length, length_removelast, HL, Lneq; lia).
    assert (Lmsub : length msub = R)
      by (unfold msub; rewrite map2_length, length_removelast, HM, Lneq; lia).
    assert (Lpick : length pick = R)
      by (unfold pick; rewrite map2_length, length_tl, Lrow, Lsub; lia).
    apply del_sweep_W.
    - cbn [length]. rewrite where3_length, Lpick, Lsub, length_tl, Lrow. lia.
    - cbn [length]. rewrite where3_length, Lpick, Lmsub, length_tl, Lmist. lia.
    - intros i Hi. destruct i as [|i]; cbn [nth].
      + rewrite !hd_nth0. unfold row, mist.
        rewrite (nth_map_lt _ last 0%nat 0), (nth_map_lt _ lastm 0%nat 0) by lia.
        replace (ci * 1) with ci by lia. apply W_ins; [exact Hj|]. apply HW. lia.
      + rewrite !nth_where3 by (rewrite ?length_tl; lia).
        destruct (nth i pick false).
        * unfold sub_row, msub.
          rewrite (nth_map2 _ _ _ i 0 0 0) by (rewrite ?length_removelast; lia).
          rewrite (nth_map2 _ _ _ i 0 0 0) by (rewrite ?length_removelast; lia).
          rewrite !nth_removelast by lia.
          unfold neq. rewrite (nth_map_lt _ r i 0) by lia.
          fold tok. unfold tok. apply W_sub; [lia|exact Hj|]. apply HW. lia.
        * rewrite !nth_tl. unfold row, mist.
          rewrite (nth_map_lt _ last (S i) 0), (nth_map_lt _ lastm (S i) 0) by lia.
          replace (ci * 1) with ci by lia. apply W_ins; [exact Hj|]. apply HW. lia.
  Qed.

  (* ---- the states of a pair that is still live ------------------------------------------ *)
  Fixpoint ideal (j : nat) : list Z * list Z :=
    match j with
    | O => state0 cd r
    | S j' => body (nth j' h 0) 1 (ideal j')
    end.

  Lemma ideal_W j : (j <= length h)%nat -> Wst j (ideal j).
  Proof.
    induction j as [|j IH]; intros Hj; [apply state0_W|].
    cbn [ideal]. apply body_W; [lia|]. apply IH. lia.
  Qed.

  Lemma ideal_fst j : (j <= length h)%nat -> fst (ideal j) = lrow j.
  Proof.
    induction j as [|j IH]; intros Hj.
    - cbn [ideal state0 fst]. apply row0_lrow.
    - cbn [ideal]. destruct (ideal_W j ltac:(lia)) as [HL [HM _]].
      destruct (ideal j) as [last lastm] eqn:EI. cbn [fst snd] in *.
      rewrite body_fst by assumption. rewrite IH by lia. apply step_lrow. lia.
  Qed.

  (* every cell of the mistakes table counts the edits of a script that realises the cell
     of the cost table, and that cell is the minimum cost *)
  Theorem ideal_cells j i : (j <= length h)%nat -> (i <= R)%nat ->
    nth i (fst (ideal j)) 0 = lev (firstn i r) (firstn j h) /\
    er_spec ci cd cs (firstn i r) (firstn j h) (nth i (snd (ideal j)) 0).
  Proof.
    intros Hj Hi. destruct (ideal_W j Hj) as [_ [_ HW]].
    assert (E : nth i (fst (ideal j)) 0 = lev (firstn i r) (firstn j h))
      by (rewrite ideal_fst by exact Hj; apply lrow_nth; exact Hi).
    split; [exact E|]. destruct (HW i Hi) as [s [T [C Ed]]]. exists s. split; [|exact Ed].
    apply optimal_iff_lev. split; [exact T|]. rewrite C. exact E.
  Qed.

  (* ---- the loop, with freezing -------------------------------------------------------- *)
  Variables (hlen : nat) (excl : bool).
  Notation frozen := (frozen hlen excl).
  Notation step_rm := (step_rm ci cd cs r h hlen excl).

  Lemma step_rm_live idx : (hlen <= length h)%nat -> (1 <= idx)%nat -> (idx <= frozen)%nat ->
    step_rm idx (ideal (idx - 1)) = ideal idx.
  Proof.
    intros Hh H1 Hf. unfold Model.step_rm, Proofs.frozen in *.
    replace (idx - (if excl then 0 else 1) <? hlen)%nat with true
      by (symmetry; apply Nat.ltb_lt; destruct excl; lia).
    replace (idx <=? hlen)%nat with true by (symmetry; apply Nat.leb_le; destruct excl; lia).
    replace idx with (S (idx - 1)) at 3 by lia. reflexivity.
  Qed.

  Lemma step_rm_frozen idx st : (frozen < idx)%nat -> step_rm idx st = st.
  Proof.
    intros Hf. unfold Model.step_rm, Proofs.frozen in *.
    replace (idx - (if excl then 0 else 1) <? hlen)%nat with false
      by (symmetry; apply Nat.ltb_ge; destruct excl; lia).
    reflexivity.
  Qed.

  Lemma rm_loop_length fuel : forall idx st,
    length (rm_loop ci cd cs r h hlen excl fuel idx st) = fuel.
  Proof. induction fuel as [|f IH]; intros; cbn [rm_loop length]; [reflexivity|]. rewrite IH. reflexivity. Qed.

  Lemma rm_loop_nth : (hlen <= length h)%nat -> forall fuel idx st k,
    (1 <= idx)%nat -> st = ideal (Nat.min (idx - 1) frozen) -> (k < fuel)%nat ->
    nth k (rm_loop ci cd cs r h hlen excl fuel idx st) ([], []) = ideal (Nat.min (idx + k) frozen).
  Proof.
    intros Hh. induction fuel as [|f IH]; intros idx st k H1 HS Hk; [lia|].
    cbn [rm_loop].
    assert (Hstep : step_rm idx st = ideal (Nat.min idx frozen)).
    { subst st. destruct (le_lt_dec idx frozen) as [Hle|Hgt].
      - rewrite !Nat.min_l by lia. apply step_rm_live; assumption.
      - rewrite step_rm_frozen by exact Hgt. rewrite !Nat.min_r by lia. reflexivity. }
    destruct k as [|k]; cbn [nth].
    - rewrite Hstep. f_equal. lia.
    - rewrite (IH (S idx) _ k); [f_equal; lia|lia| |lia].
      rewrite Hstep. f_equal. lia.
  Qed.

  Lemma all_rm_length steps : length (all_rm ci cd cs r h hlen excl steps) = S steps.
  Proof. unfold all_rm. cbn [length]. rewrite rm_loop_length. reflexivity. Qed.

  Lemma all_rm_nth steps k : (hlen <= length h)%nat -> (k <= steps)%nat ->
    nth k (all_rm ci cd cs r h hlen excl steps) ([], []) = ideal (Nat.min k frozen).
  Proof.
    intros Hh Hk. unfold all_rm. destruct k as [|k]; cbn [nth]; [reflexivity|].
    rewrite (rm_loop_nth Hh steps 1 (state0 cd r) k); [reflexivity|lia|reflexivity|lia].
  Qed.

  Lemma frozen_le : (hlen <= length h)%nat -> (frozen <= length h)%nat.
  Proof. unfold Proofs.frozen. destruct excl; lia. Qed.

  (* mechanism 1: the cost rows kept by the return_mistakes branch are the rows of the
     cost-only branch (C01's model), step for step, frozen rows included *)
  Theorem cost_rows_are_c01_rows steps : (hlen <= length h)%nat ->
    map fst (all_rm ci cd cs r h hlen excl steps) = all_rows ci cd cs r h hlen excl steps.
  Proof.
    intros Hh. apply (nth_ext _ _ [] []).
    - rewrite map_length, all_rm_length, all_rows_length. reflexivity.
    - intros k Hk. rewrite map_length, all_rm_length in Hk.
      rewrite (nth_map_lt fst _ k ([], [])) by (rewrite all_rm_length; exact Hk).
      rewrite all_rm_nth, all_rows_nth by lia.
      apply ideal_fst. pose proof (frozen_le Hh). lia.
  Qed.

  (* mechanism 1, headline form: while the pair is live, cell i of the row after hyp_idx = j
     is (lev, number of edits of a minimum-cost script) on the prefixes *)
  Theorem mistakes_invariant steps j i :
    (hlen <= length h)%nat -> (j <= steps)%nat -> (j <= frozen)%nat -> (i <= R)%nat ->
    let st := nth j (all_rm ci cd cs r h hlen excl steps) ([], []) in
    nth i (fst st) 0 = lev (firstn i r) (firstn j h) /\
    exists s, transforms s (firstn i r) (firstn j h)
              /\ cost s = lev (firstn i r) (firstn j h)
              /\ (forall s', transforms s' (firstn i r) (firstn j h) -> cost s <= cost s')
              /\ edits s = nth i (snd st) 0.
  Proof.
    intros Hh Hj Hf Hi. cbv zeta. rewrite all_rm_nth, Nat.min_l by assumption.
    pose proof (frozen_le Hh).
    destruct (ideal_cells j i ltac:(lia) Hi) as [E [s [Hopt Ed]]].
    split; [exact E|]. exists s. destruct Hopt as [T Hmin].
    split; [exact T|split; [|split; [exact Hmin|exact Ed]]].
    apply optimal_iff_lev. split; assumption.
  Qed.

  (* finished pairs keep both tables *)
  Theorem rm_freeze steps j :
    (hlen <= length h)%nat -> (j <= steps)%nat -> (frozen <= j)%nat ->
    nth j (all_rm ci cd cs r h hlen excl steps) ([], []) = ideal frozen.
  Proof. intros Hh Hj Hf. rewrite all_rm_nth, Nat.min_r by assumption. reflexivity. Qed.

  (* the same without naming the live states: later entries repeat entry [frozen] *)
  Theorem rm_freeze_nth steps j :
    (hlen <= length h)%nat -> (j <= steps)%nat -> (frozen <= j)%nat ->
    nth j (all_rm ci cd cs r h hlen excl steps) ([], [])
    = nth frozen (all_rm ci cd cs r h hlen excl steps) ([], []).
  Proof.
    intros Hh Hj Hf. rewrite !all_rm_nth by lia. rewrite Nat.min_r, Nat.min_id by assumption.
    reflexivity.
  Qed.
End Rows.

(* ======================================================================================
   one pair: what the code returns is admitted by the spec
   ====================================================================================== *)
Lemma uniform_costs_true i d s : uniform_costs i d s = true -> i = s /\ d = s /\ 0 < s.
Proof.
  unfold uniform_costs. intros E. apply andb_true_iff in E as [E E3].
  apply andb_true_iff in E as [E1 E2]. apply Z.eqb_eq in E1, E2. apply Z.ltb_lt in E3. lia.
Qed.

Lemma normalise_er_spec norm ci cd cs (r' h' : list Z) rl hl m :
  rl = length r' -> hl = length h' -> er_spec ci cd cs r' h' m ->
  spec_er_val norm ci cd cs r' h' (normalise norm rl m (0 <? hl)%nat).
Proof.
  intros -> -> Hm. unfold normalise, spec_er_val. destruct norm; [|exists m; auto].
  destruct (length r') eqn:EL; cbn [Nat.eqb]; [reflexivity|]. exists m. auto.
Qed.

Lemma spec_value_er_spec norm c (r' h' : list Z) : 0 < c ->
  spec_er_val norm c c c r' h' (spec_value norm 1 1 1 r' h').
Proof.
  intros Hc. unfold spec_value, spec_er_val. pose proof (uniform_er_spec c r' h' Hc).
  destruct norm; [|eexists; eauto].
  destruct (length r'); [reflexivity|]. eexists; eauto.
Qed.

Theorem pair_er_correct c r h :
  spec_er_val (c_norm c) (c_ins c) (c_del c) (c_sub c)
    (denote (c_eos c) (c_incl c) r) (denote (c_eos c) (c_incl c) h) (pair_er c r h).
Proof.
  unfold pair_er. destruct (uniform_costs (c_ins c) (c_del c) (c_sub c)) eqn:EU.
  - apply uniform_costs_true in EU as [E1 [E2 E3]]. rewrite E1, E2.
    rewrite pair_ed_correct. unfold spec_pair_ed, unit_cfg. cbn [c_eos c_incl c_norm c_ins c_del c_sub].
    apply spec_value_er_spec. exact E3.
  - pose proof (eff_len_le (c_eos c) (c_incl c) r) as Hr.
    pose proof (eff_len_le (c_eos c) (c_incl c) h) as Hh.
    rewrite last_nth, all_rm_length.
    replace (S (length h) - 1)%nat with (length h) by lia.
    rewrite all_rm_nth by lia. unfold frozen. rewrite Nat.min_r by lia.
    destruct (ideal_cells (c_ins c) (c_del c) (c_sub c) r h _ _ Hh Hr) as [_ Hs].
    rewrite !firstn_eff_len in Hs.
    apply normalise_er_spec; [symmetry; apply length_denote|symmetry; apply length_denote|exact Hs].
Qed.

(* entry k of the per-prefix table of one pair *)
Definition prefix_entry_ok (c : cfg) (r h : list Z) (k : nat) (v : val) : Prop :=
  let R' := denote (c_eos c) (c_incl c) r in
  let H' := denote (c_eos c) (c_incl c) h in
  if (k <? length H' + (if c_excl c then 0 else 1))%nat
  then spec_er_val (c_norm c) (c_ins c) (c_del c) (c_sub c) R' (firstn k H') v
  else v = Lit (c_pad c).

Lemma pair_prefix_er_length c r h :
  length (pair_prefix_er c r h) = (length h + (if c_excl c then 0 else 1))%nat.
Proof.
  unfold pair_prefix_er. destruct (uniform_costs (c_ins c) (c_del c) (c_sub c)).
  - rewrite pair_prefix_correct. unfold spec_pair_prefix. rewrite map_length, seq_length. reflexivity.
  - rewrite map2_length, seq_length. cbn [length]. rewrite map_length, length_tl, all_rm_length. lia.
Qed.

Theorem pair_prefix_er_correct c r h k :
  (k < length h + (if c_excl c then 0 else 1))%nat ->
  prefix_entry_ok c r h k (nth k (pair_prefix_er c r h) (Lit 0)).
Proof.
  intros Hk. unfold prefix_entry_ok, pair_prefix_er.
  destruct (uniform_costs (c_ins c) (c_del c) (c_sub c)) eqn:EU.
  - apply uniform_costs_true in EU as [E1 [E2 E3]]. rewrite E1, E2.
    rewrite pair_prefix_correct. unfold spec_pair_prefix, unit_cfg.
    cbn [c_eos c_incl c_norm c_ins c_del c_sub c_excl c_pad].
    rewrite nth_map_seq by exact Hk. cbn [Nat.add].
    destruct (k <? _)%nat; [|reflexivity]. apply spec_value_er_spec. exact E3.
  - set (rl := eff_len (c_eos c) (c_incl c) r).
    set (hl := eff_len (c_eos c) (c_incl c) h).
    set (out_len := (length h + (if c_excl c then 0 else 1))%nat) in *.
    assert (Hr : (rl <= length r)%nat) by apply eff_len_le.
    assert (Hh : (hl <= length h)%nat) by apply eff_len_le.
    set (sts := all_rm (c_ins c) (c_del c) (c_sub c) r h hl (c_excl c) (out_len - 1)).
    set (ers := Z.of_nat rl :: map (fun st => nth rl (snd st) 0) (tl sts)).
    assert (Hers_len : length ers = S (out_len - 1)).
    { unfold ers. cbn [length]. rewrite map_length, length_tl. unfold sts.
      rewrite all_rm_length. lia. }
    assert (Hers : nth k ers 0
                   = nth rl (snd (ideal (c_ins c) (c_del c) (c_sub c) r h
                                    (Nat.min k (frozen hl (c_excl c))))) 0).
    { unfold ers. destruct k as [|k']; cbn [nth].
      - rewrite Nat.min_0_l. cbn [ideal state0 snd]. rewrite nth_map_seq by lia. reflexivity.
      - rewrite (nth_map_lt _ _ _ ([], [])).
        2:{ rewrite length_tl. unfold sts. rewrite all_rm_length. lia. }
        rewrite nth_tl. unfold sts. rewrite all_rm_nth by lia. reflexivity. }
    rewrite (nth_map2 _ _ _ k 0%nat 0 (Lit 0)) by (rewrite ?seq_length, ?Hers_len; lia).
    rewrite seq_nth by exact Hk. cbn [Nat.add].
    rewrite length_denote. fold hl.
    destruct (hl + (if c_excl c then 0 else 1) <=? k)%nat eqn:E.
    + apply Nat.leb_le in E.
      replace (k <? hl + (if c_excl c then 0 else 1))%nat with false
        by (symmetry; apply Nat.ltb_ge; exact E).
      reflexivity.
    + apply Nat.leb_gt in E.
      replace (k <? hl + (if c_excl c then 0 else 1))%nat with true
        by (symmetry; apply Nat.ltb_lt; exact E).
      rewrite Hers. rewrite Nat.min_l by (unfold frozen; destruct (c_excl c); lia).
      assert (Hkh : (k <= hl)%nat) by (destruct (c_excl c); lia).
      destruct (ideal_cells (c_ins c) (c_del c) (c_sub c) r h k rl ltac:(lia) Hr) as [_ Hs].
      unfold rl in Hs at 1. rewrite firstn_eff_len in Hs.
      rewrite <- (firstn_firstn_le h k hl) in Hs by exact Hkh.
      unfold hl in Hs at 1. rewrite firstn_eff_len in Hs.
      apply normalise_er_spec; [symmetry; apply length_denote| |exact Hs].
      rewrite firstn_length, length_denote, Nat.min_l by (fold hl; lia). reflexivity.
Qed.

(* ======================================================================================
   the batch, both layouts
   ====================================================================================== *)
Theorem error_rate_nth c N ref hyp n :
  (n < N)%nat -> wf_tensor (c_bf c) N ref -> wf_tensor (c_bf c) N hyp ->
  nth n (error_rate c N ref hyp) (Lit 0)
  = pair_er c (seq_of (c_bf c) n ref) (seq_of (c_bf c) n hyp).
Proof.
  intros Hn Hr Hh. unfold error_rate.
  rewrite (nth_map2 _ _ _ n [] [] (Lit 0)) by (rewrite sequences_length; exact Hn).
  rewrite !sequences_nth by assumption. reflexivity.
Qed.

Lemma error_rate_length c N ref hyp : length (error_rate c N ref hyp) = N.
Proof. unfold error_rate. rewrite map2_length, !sequences_length. lia. Qed.

Theorem prefix_error_rates_nth c N ref hyp n k :
  (n < N)%nat -> wf_tensor (c_bf c) N ref -> wf_tensor (c_bf c) N hyp ->
  (k < time_len (c_bf c) hyp + (if c_excl c then 0 else 1))%nat ->
  entry (c_bf c) k n (prefix_error_rates c N ref hyp)
  = nth k (pair_prefix_er c (seq_of (c_bf c) n ref) (seq_of (c_bf c) n hyp)) (Lit 0).
Proof.
  intros Hn Hr Hh Hk. unfold prefix_error_rates.
  set (hyps := sequences (c_bf c) N hyp).
  set (per_pair := map2 (pair_prefix_er c) (sequences (c_bf c) N ref) hyps).
  assert (Hhd : length (hd [] hyps) = time_len (c_bf c) hyp).
  { rewrite hd_nth0. unfold hyps. rewrite sequences_nth by (assumption || lia).
    apply (seq_of_length _ N); [lia|assumption]. }
  rewrite Hhd. set (out_len := (time_len (c_bf c) hyp + (if c_excl c then 0 else 1))%nat) in *.
  assert (Hpp : nth n per_pair []
                = pair_prefix_er c (seq_of (c_bf c) n ref) (seq_of (c_bf c) n hyp)).
  { unfold per_pair, hyps.
    rewrite (nth_map2 _ _ _ n [] [] []) by (rewrite sequences_length; exact Hn).
    rewrite !sequences_nth by assumption. reflexivity. }
  assert (Hlen : length per_pair = N).
  { unfold per_pair, hyps. rewrite map2_length, !sequences_length. lia. }
  assert (Htm : nth n (nth k (transpose (Lit 0) out_len per_pair) []) (Lit 0)
                = nth k (nth n per_pair []) (Lit 0)).
  { unfold transpose. rewrite nth_map_seq by exact Hk. cbn [Nat.add]. unfold col.
    rewrite (nth_map_lt _ per_pair n []) by lia. reflexivity. }
  unfold entry. destruct (c_bf c).
  - unfold transpose at 1. rewrite nth_map_seq by exact Hn. cbn [Nat.add]. unfold col at 1.
    rewrite (nth_map_lt _ _ k []).
    2:{ unfold transpose. rewrite map_length, seq_length. exact Hk. }
    rewrite Htm, Hpp. reflexivity.
  - rewrite Htm, Hpp. reflexivity.
Qed.

(* ======================================================================================
   headline statements (quoted by Properties.v)
   ====================================================================================== *)
Section Headline.
  Variable c : cfg.
  Variables (N : nat) (ref hyp : list (list Z)).
  Let bf := c_bf c.
  Let ci := c_ins c.
  Let cd := c_del c.
  Let cs := c_sub c.
  Let Rn n := denote (c_eos c) (c_incl c) (seq_of bf n ref).
  Let Hn n := denote (c_eos c) (c_incl c) (seq_of bf n hyp).
  Let out_len := (time_len bf hyp + (if c_excl c then 0 else 1))%nat.

  Theorem error_rate_spec n :
    (n < N)%nat -> wf_tensor bf N ref -> wf_tensor bf N hyp ->
    spec_er_val (c_norm c) ci cd cs (Rn n) (Hn n) (nth n (error_rate c N ref hyp) (Lit 0)).
  Proof.
    intros Hlt Hr Hh. subst bf. rewrite error_rate_nth by assumption. apply pair_er_correct.
  Qed.

  (* un-normalised: the count of a minimum-cost alignment *)
  Theorem error_rate_optimal_alignment n :
    (n < N)%nat -> wf_tensor bf N ref -> wf_tensor bf N hyp -> c_norm c = false ->
    exists m s,
      nth n (error_rate c N ref hyp) (Lit 0) = Cost m
      /\ transforms s (Rn n) (Hn n)
      /\ (forall s', transforms s' (Rn n) (Hn n) -> cost ci cd cs s <= cost ci cd cs s')
      /\ cost ci cd cs s = lev ci cd cs (Rn n) (Hn n)
      /\ edits s = m.
  Proof.
    intros Hlt Hr Hh Hnorm. pose proof (error_rate_spec n Hlt Hr Hh) as Hs.
    unfold spec_er_val in Hs. rewrite Hnorm in Hs. destruct Hs as [m [E [s [Hopt Ed]]]].
    exists m, s. destruct (proj1 (optimal_iff_lev _ _ _ _ _ _) Hopt) as [T C].
    destruct Hopt as [_ Hmin]. auto.
  Qed.

  Theorem error_rate_within_min_max n :
    (n < N)%nat -> wf_tensor bf N ref -> wf_tensor bf N hyp -> c_norm c = false ->
    exists m,
      nth n (error_rate c N ref hyp) (Lit 0) = Cost m
      /\ fewest_edits ci cd cs (Rn n) (Hn n) (min_opt_edits ci cd cs (Rn n) (Hn n))
      /\ most_edits ci cd cs (Rn n) (Hn n) (max_opt_edits ci cd cs (Rn n) (Hn n))
      /\ min_opt_edits ci cd cs (Rn n) (Hn n) <= m <= max_opt_edits ci cd cs (Rn n) (Hn n)
      /\ (forall lo hi, fewest_edits ci cd cs (Rn n) (Hn n) lo ->
                        most_edits ci cd cs (Rn n) (Hn n) hi -> lo <= m <= hi).
  Proof.
    intros Hlt Hr Hh Hnorm. pose proof (error_rate_spec n Hlt Hr Hh) as Hs.
    unfold spec_er_val in Hs. rewrite Hnorm in Hs. destruct Hs as [m [E Hm]].
    exists m. split; [exact E|]. split; [apply min_opt_edits_fewest|].
    split; [apply max_opt_edits_most|]. split; [apply er_spec_within_computed; exact Hm|].
    intros lo hi Hlo Hhi. apply (er_spec_within ci cd cs (Rn n) (Hn n)); assumption.
  Qed.

  Theorem error_rate_uniform_is_levenshtein n :
    (n < N)%nat -> wf_tensor bf N ref -> wf_tensor bf N hyp ->
    ci = cd -> cd = cs -> 0 < cs ->
    nth n (error_rate c N ref hyp) (Lit 0) = spec_value (c_norm c) 1 1 1 (Rn n) (Hn n).
  Proof.
    intros Hlt Hr Hh E1 E2 E3. subst bf. rewrite error_rate_nth by assumption.
    unfold pair_er. replace (uniform_costs (c_ins c) (c_del c) (c_sub c)) with true.
    - rewrite pair_ed_correct. reflexivity.
    - symmetry. unfold uniform_costs. subst ci cd cs. rewrite E1, E2, Z.eqb_refl.
      cbn [andb]. apply Z.ltb_lt. exact E3.
  Qed.

  Theorem error_rate_norm n :
    (n < N)%nat -> wf_tensor bf N ref -> wf_tensor bf N hyp -> c_norm c = true ->
    match length (Rn n) with
    | O => nth n (error_rate c N ref hyp) (Lit 0)
           = Lit (if (0 <? length (Hn n))%nat then 1 else 0)
    | S _ => exists m, nth n (error_rate c N ref hyp) (Lit 0) = Ratio m (length (Rn n))
                       /\ er_spec ci cd cs (Rn n) (Hn n) m
    end.
  Proof.
    intros Hlt Hr Hh Hnorm. pose proof (error_rate_spec n Hlt Hr Hh) as Hs.
    unfold spec_er_val in Hs. rewrite Hnorm in Hs. exact Hs.
  Qed.

  Theorem prefix_error_rates_correct n k :
    (n < N)%nat -> wf_tensor bf N ref -> wf_tensor bf N hyp -> (k < out_len)%nat ->
    let v := entry bf k n (prefix_error_rates c N ref hyp) in
    if (k <? length (Hn n) + (if c_excl c then 0 else 1))%nat
    then spec_er_val (c_norm c) ci cd cs (Rn n) (firstn k (Hn n)) v
    else v = Lit (c_pad c).
  Proof.
    intros Hlt Hr Hh Hk. cbv zeta. subst bf. rewrite prefix_error_rates_nth by assumption.
    apply pair_prefix_er_correct. rewrite (seq_of_length _ N) by assumption. exact Hk.
  Qed.
End Headline.

(* the boolean judgements of Spec.v used by the harness accept exactly the admitted values *)
Lemma existsb_opt_counts ci cd cs r h (f : Z -> bool) :
  existsb f (opt_counts ci cd cs r h) = true <-> exists m, er_spec ci cd cs r h m /\ f m = true.
Proof.
  rewrite existsb_exists. split; intros [m [H1 H2]]; exists m; split; try assumption;
    apply opt_counts_iff; assumption.
Qed.

Theorem spec_er_q_okb_iff norm ci cd cs r h q :
  spec_er_q_okb norm ci cd cs r h q = true <->
  exists v, spec_er_val norm ci cd cs r h v /\ match_val 1 v q = true.
Proof.
  unfold spec_er_q_okb, spec_er_val. destruct norm.
  - destruct (length r) eqn:EL.
    + split; [intros H; eexists; split; [reflexivity|exact H]|intros [v [-> H]]; exact H].
    + rewrite existsb_opt_counts. split.
      * intros [m [H1 H2]]. exists (Ratio m (S n)). split; [exists m; auto|exact H2].
      * intros [v [[m [-> H1]] H2]]. exists m. auto.
  - rewrite existsb_opt_counts. split.
    + intros [m [H1 H2]]. exists (Cost m). split; [exists m; auto|exact H2].
    + intros [v [[m [-> H1]] H2]]. exists m. auto.
Qed.
