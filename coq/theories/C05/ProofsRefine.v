(* C05 - the vectorised model refines the textbook prefix beam search on a finite map:
   the valid slots of the beam, read as (prefix |-> (nb, b)), evolve by Spec.pbs_keeps. *)
From Coq Require Import List Arith Bool QArith Qcanon Lia.
From PV Require Import C05.Model C05.Spec C05.ProofsNum C05.ProofsSpec C05.ProofsModel
  C05.ProofsSearch C05.ProofsMass.
Import ListNotations.
Local Open Scope nat_scope.

(* ---- the beam as a finite map -------------------------------------------------------------- *)

Definition slots (bm : beam) : list nat :=
  filter (fun k => negb (invalid bm k)) (seq 0 (Kp bm)).
Definition entry_of (bm : beam) (k : nat) : entry := (pref bm k, (nbq bm k, bq bm k)).
Definition view (bm : beam) : list entry := map (entry_of bm) (slots bm).

Lemma slots_valid : forall bm k, In k (slots bm) <-> valid bm k.
Proof.
  intros. unfold slots, valid. rewrite filter_In, in_seq, negb_true_iff. intuition lia.
Qed.

Lemma slots_nodup : forall bm, NoDup (slots bm).
Proof. intros. apply NoDup_filter, seq_NoDup. Qed.

Lemma NoDup_map_on : forall {A B} (f : A -> B) l,
  NoDup l -> (forall a b, In a l -> In b l -> f a = f b -> a = b) -> NoDup (map f l).
Proof.
  induction l; intros ND H; cbn [map]; constructor; inversion ND; subst.
  - intro I. apply in_map_iff in I. destruct I as (b & E & Ib).
    assert (a = b) by (apply H; auto with datatypes). subst. auto.
  - apply IHl; auto. intros; apply H; auto with datatypes.
Qed.

Lemma view_nodup : forall V bm, inv V bm -> NoDup (map fst (view bm)).
Proof.
  intros V bm I. unfold view. rewrite map_map. cbn [entry_of fst].
  apply NoDup_map_on; [apply slots_nodup|].
  intros a b Ha Hb E. apply slots_valid in Ha, Hb. apply (inv_dist V bm I); auto.
Qed.

Lemma view_in : forall bm k, valid bm k -> In (entry_of bm k) (view bm).
Proof. intros. unfold view. apply in_map. apply slots_valid. auto. Qed.

Lemma view_in_inv : forall bm e, In e (view bm) -> exists k, valid bm k /\ e = entry_of bm k.
Proof.
  intros bm e H. unfold view in H. apply in_map_iff in H. destruct H as (k & <- & Hk).
  exists k. split; auto. apply slots_valid. auto.
Qed.

Lemma view_lookup : forall V bm k, inv V bm -> valid bm k ->
  lookup (view bm) (pref bm k) = (nbq bm k, bq bm k).
Proof.
  intros V bm k I Vk. apply lookup_in; [apply (view_nodup V); auto|]. apply (view_in bm k Vk).
Qed.

Lemma view_inb : forall bm p, inb (view bm) p = true <-> exists k, valid bm k /\ pref bm k = p.
Proof.
  intros. rewrite inb_true. split.
  - intros (m & H). apply view_in_inv in H. destruct H as (k & Vk & E). inversion E; subst. eauto.
  - intros (k & Vk & <-). eexists. apply (view_in bm k Vk).
Qed.

Lemma view_lookup_none : forall bm p, (forall k, valid bm k -> pref bm k <> p) ->
  lookup (view bm) p = (0%Qc, 0%Qc) /\ inb (view bm) p = false.
Proof.
  intros bm p H. assert (inb (view bm) p = false).
  { destruct (inb (view bm) p) eqn:E; auto. apply view_inb in E. destruct E as (k & Vk & Pk).
    exfalso. apply (H k Vk Pk). }
  split; auto. apply lookup_notin. auto.
Qed.

(* ---- twins: whatever the prefix matrix relates to a valid slot is itself in the map --------- *)

Definition twins (bm : beam) : Prop :=
  forall k k', k < Kp bm -> k' < Kp bm -> valid bm k -> isp bm k k' = true ->
    exists k'', valid bm k'' /\ pref bm k'' = pref bm k'.

Lemma twins_init : twins init_beam.
Proof.
  intros k k' L L' Vk _. cbn in L, L'. assert (k' = 0) by lia. subst k'.
  exists 0. split; auto. split; [cbn; lia|reflexivity].
Qed.

(* extending valid slot k by v, in terms of the map only *)
Lemma ext_by_view : forall V fr bm (L : list sframe) E k v, inv V bm ->
  frame_agrees V fr bm L E (b_t bm) -> valid bm k -> v < V ->
  nb_ext V fr bm k v
  = (((if opt_is (last_opt (pref bm k)) v then 0 else nbq bm k) + bq bm k)
     * E (b_t bm) (pref bm k) v)%Qc.
Proof.
  intros V fr bm L E k v I (F1 & F2 & F3) Vk Hv.
  unfold nb_ext. rewrite (F3 k v Vk Hv).
  destruct (Nat.eq_dec (lens bm k) 0) as [L0|L0].
  - rewrite (inv_nb0 V bm I k Vk L0).
    destruct (v =? lastc V bm k); destruct (opt_is (last_opt (pref bm k)) v); ring.
  - assert (NE : pref bm k <> []).
    { intro C. apply (f_equal (@length nat)) in C.
      rewrite pref_length in C by (try apply (inv_wf V bm I); apply Vk). cbn in C. lia. }
    rewrite (last_opt_last _ NE). cbn [opt_is].
    rewrite (inv_last V bm I k Vk) by lia. rewrite Nat.eqb_sym.
    destruct (last (pref bm k) 0 =? v); ring.
Qed.

Lemma to_match_pref : forall V bm k k', wf bm -> lens bm k < lens bm k' ->
  to_match V bm k k' = clampV V (nth (lens bm k) (pref bm k') 0).
Proof.
  intros V bm k k' W L. pose proof (wf_len bm W k') as LT. unfold to_match.
  replace (b_t bm =? 0) with false by (symmetry; apply Nat.eqb_neq; lia).
  replace (Nat.min (lens bm k) (b_t bm - 1)) with (lens bm k) by lia.
  rewrite pref_nth by auto. reflexivity.
Qed.

Section RefineStep.
  Variables (V width : nat) (fr : frame) (bm : beam) (choice : list nat).
  Variables (L : list sframe) (E : score).
  Hypothesis Vpos : 1 <= V.
  Hypothesis Wpos : 1 <= width.
  Hypothesis I : inv V bm.
  Hypothesis TW : twins bm.
  Hypothesis TK : topk_facts V fr bm width choice.
  Hypothesis FA : frame_agrees V fr bm L E (b_t bm).

  Let W := inv_wf V bm I.
  Let n := b_t bm.
  Let nx := fst (advance V fr bm width choice).
  Let K := Kout V bm width.
  Let Clen := tk_len V fr bm width choice TK.
  Let Crange := tk_range V fr bm width choice TK.
  Let Cnodup := tk_nodup V fr bm width choice TK.
  Let B := view bm.
  Notation chj := (ch choice).

  (* whatever [ext_is_exact] relates a valid slot to, a valid slot holds that one-token extension *)
  Lemma exact_to_twin : forall k k', valid bm k -> k' < Kp bm -> ext_is_exact bm k k' = true ->
    exists k4, valid bm k4 /\ pref bm k4 = pref bm k ++ [to_match V bm k k'] /\ to_match V bm k k' < V.
  Proof.
    intros k k' Vk Lk' EX. pose proof EX as EX0. unfold ext_is_exact in EX. apply andb_true_iff in EX.
    destruct EX as [EL EI]. apply Nat.eqb_eq in EL.
    destruct (TW k k' (proj1 Vk) Lk' Vk EI) as (k4 & Vk4 & Pk4).
    assert (L4 : lens bm k4 = lens bm k').
    { rewrite <- !pref_length by (auto; apply Vk4). congruence. }
    assert (TM : to_match V bm k k4 = to_match V bm k k').
    { rewrite !to_match_pref by (auto; lia). congruence. }
    assert (EX4 : ext_is_exact bm k k4 = true).
    { unfold ext_is_exact. apply andb_true_iff. split; [apply Nat.eqb_eq; lia|].
      apply (inv_cmp V bm I); auto. rewrite Pk4. apply (inv_snd V bm I); auto. apply Vk. }
    destruct (exact_pre V width bm choice Vpos Wpos I Clen k k4 (proj1 Vk) Vk4 EX4) as (P1 & P2 & P3).
    exists k4. split; auto. rewrite <- TM, P2. split.
    - rewrite P1. apply snoc_decomp. auto.
    - pose proof (inv_lt V bm I k4 Vk4) as F. rewrite (snoc_decomp _ 0 P3) in F.
      apply Forall_app in F. destruct F as [_ F]. inversion F; auto.
  Qed.

  Lemma has_match_twin : forall k v, valid bm k -> has_match V bm k v = true ->
    exists k4, valid bm k4 /\ pref bm k4 = pref bm k ++ [v].
  Proof.
    intros k v Vk H. unfold has_match in H. apply existsb_exists in H. destruct H as (k' & Hk' & H).
    apply in_seq in Hk'. apply andb_true_iff in H. destruct H as [H1 H2]. apply Nat.eqb_eq in H1.
    destruct (exact_to_twin k k' Vk (proj2 Hk') H2) as (k4 & V4 & P4 & _). rewrite H1 in P4. eauto.
  Qed.

  Lemma merged_view : forall src, valid bm src -> 0 < lens bm src ->
    let p := pref bm src in let v := last p 0 in
    merged V fr bm src
    = (if inb B (removelast p)
       then let '(np, bp) := lookup B (removelast p) in
            ((if opt_is (last_opt (removelast p)) v then 0 else np) + bp) * E n (removelast p) v
       else 0)%Qc.
  Proof.
    intros src Vs Ls p v.
    pose proof (inv_lt V bm I src Vs) as PV. fold p in PV.
    assert (NE : p <> []).
    { intro C. apply (f_equal (@length nat)) in C. unfold p in C.
      rewrite pref_length in C by (auto; apply Vs). cbn in C. lia. }
    pose proof (snoc_decomp p 0 NE) as D. fold v in D.
    assert (Hv : v < V) by (rewrite D in PV; apply Forall_app in PV; destruct PV as [_ F]; inversion F; auto).
    assert (LP : length p = lens bm src) by (apply pref_length; auto; apply Vs).
    assert (ZERO : forall k, k < Kp bm -> ext_is_exact bm k src = true -> invalid bm k = true ->
                   nb_ext V fr bm k (to_match V bm k src) = 0%Qc).
    { intros k _ _ IV. unfold nb_ext, nbq, bq. rewrite IV. destruct (_ =? _); ring. }
    destruct (inb B (removelast p)) eqn:INB.
    - apply view_inb in INB. destruct INB as (k0 & Vk0 & Pk0).
      unfold B. rewrite <- Pk0, (view_lookup V bm k0 I Vk0), Pk0.
      assert (EX0 : ext_is_exact bm k0 src = true).
      { unfold ext_is_exact. apply andb_true_iff. split.
        - apply Nat.eqb_eq. rewrite <- (pref_length bm k0), Pk0, removelast_length, LP by (auto; apply Vk0). lia.
        - apply (inv_cmp V bm I); auto. rewrite Pk0. fold p. rewrite D at 2. apply is_pre_app. }
      unfold merged. rewrite (qsum_single _ _ k0).
      + rewrite EX0. destruct (exact_pre V width bm choice Vpos Wpos I Clen k0 src (proj1 Vk0) Vs EX0) as (_ & TM & _).
        fold p in TM. fold v in TM. rewrite TM, (ext_by_view V fr bm L E k0 v I FA Vk0 Hv), Pk0. reflexivity.
      + apply seq_NoDup.
      + apply in_seq. destruct Vk0. lia.
      + intros k Hk Nk. apply in_seq in Hk. destruct (ext_is_exact bm k src) eqn:EX; auto.
        destruct (invalid bm k) eqn:IV; [apply ZERO; auto; apply Hk|].
        exfalso. apply Nk. destruct (exact_pre V width bm choice Vpos Wpos I Clen k src (proj2 Hk) Vs EX) as (Pk & _).
        apply (inv_dist V bm I); auto; [split; [apply Hk|auto]|]. fold p in Pk. congruence.
    - unfold merged. apply qsum_map_zero. intros k Hk. apply in_seq in Hk.
      destruct (ext_is_exact bm k src) eqn:EX; auto.
      destruct (invalid bm k) eqn:IV; [apply ZERO; auto; apply Hk|].
      exfalso. destruct (exact_pre V width bm choice Vpos Wpos I Clen k src (proj2 Hk) Vs EX) as (Pk & _).
      fold p in Pk. assert (inb B (removelast p) = true); [|congruence].
      apply view_inb. exists k. split; auto. split; [apply Hk|auto].
  Qed.

  (* the candidate "slot src keeps its prefix" is the map recursion's entry for that prefix *)
  Lemma entry_nonext : forall src, valid bm src ->
    new_entry V L E n B (pref bm src)
    = (pref bm src, (nb_nonext1 V fr bm src, b_nonext fr bm src)).
  Proof.
    intros src Vs. destruct FA as (F1 & F2 & F3).
    unfold new_entry. unfold B at 1. rewrite (view_lookup V bm src I Vs).
    fold (fr_at L n). fold n in F1, F2. rewrite <- F1, <- F2.
    unfold nb_nonext1, nb_nonext0, b_nonext.
    destruct (Nat.eq_dec (lens bm src) 0) as [L0|L0].
    - assert (PE : pref bm src = []).
      { apply length_zero_iff_nil. rewrite pref_length; auto. apply Vs. }
      rewrite PE. cbn [last_opt]. rewrite (inv_nb0 V bm I src Vs L0).
      unfold merged. rewrite qsum_map_zero.
      + f_equal; f_equal; ring.
      + intros k _. unfold ext_is_exact. rewrite L0.
        replace (lens bm k + 1 =? 0) with false by (symmetry; apply Nat.eqb_neq; lia). reflexivity.
    - assert (NE : pref bm src <> []).
      { intro C. apply (f_equal (@length nat)) in C. rewrite pref_length in C by (auto; apply Vs). cbn in C. lia. }
      rewrite (last_opt_last _ NE). rewrite (merged_view src Vs) by lia.
      rewrite (inv_last V bm I src Vs) by lia. reflexivity.
  Qed.

  (* the candidate "slot src extended by v", when it was not cleared *)
  Lemma entry_ext : forall src v, valid bm src -> v < V -> has_match V bm src v = false ->
    new_entry V L E n B (pref bm src ++ [v])
    = (pref bm src ++ [v], (nb_ext V fr bm src v, 0%Qc)).
  Proof.
    intros src v Vs Hv HM.
    assert (NONE : forall k, valid bm k -> pref bm k <> pref bm src ++ [v]).
    { intros k Vk C. rewrite (has_match_of_ext V bm src k v Vpos I Vs Vk Hv C) in HM. discriminate. }
    destruct (view_lookup_none bm _ NONE) as [LK _].
    unfold new_entry. fold B in LK. rewrite LK. rewrite last_opt_snoc, removelast_snoc.
    assert (INB : inb B (pref bm src) = true) by (apply view_inb; eauto).
    rewrite INB. unfold B at 1. rewrite (view_lookup V bm src I Vs).
    rewrite (ext_by_view V fr bm L E src v I FA Vs Hv). fold n.
    f_equal. f_equal; ring.
  Qed.
End RefineStep.

Lemma filter_length_le : forall {A} (f : A -> bool) l, length (filter f l) <= length l.
Proof. induction l; cbn; auto. destruct (f a); cbn; lia. Qed.

Lemma filter_all : forall {A} (f : A -> bool) l, (forall x, In x l -> f x = true) -> filter f l = l.
Proof.
  induction l; intros H; cbn; auto. rewrite H by auto with datatypes. f_equal. apply IHl.
  intros; apply H; auto with datatypes.
Qed.

Section RefineStep2.
  Variables (V width : nat) (fr : frame) (bm : beam) (choice : list nat).
  Variables (L : list sframe) (E : score).
  Hypothesis Vpos : 1 <= V.
  Hypothesis Wpos : 1 <= width.
  Hypothesis I : inv V bm.
  Hypothesis TW : twins bm.
  Hypothesis TK : topk_facts V fr bm width choice.
  Hypothesis FA : frame_agrees V fr bm L E (b_t bm).

  Let W := inv_wf V bm I.
  Let n := b_t bm.
  Let nx := fst (advance V fr bm width choice).
  Let K := Kout V bm width.
  Let Clen := tk_len V fr bm width choice TK.
  Let Crange := tk_range V fr bm width choice TK.
  Let Cnodup := tk_nodup V fr bm width choice TK.
  Let Cdom := tk_dom V fr bm width choice TK.
  Let B := view bm.
  Let Inx : inv V nx := advance_inv V width fr bm choice Vpos Wpos I Clen Crange Cnodup.
  Notation chj := (ch choice).

  Lemma chosen_slot : forall u, In u choice -> exists j, j < K /\ chj j = u.
  Proof.
    intros u H. apply In_nth with (d := 0) in H. destruct H as (j & Lj & Ej).
    exists j. unfold K. rewrite <- Clen. auto.
  Qed.

  Lemma slot_chosen : forall j, j < K -> In (chj j) choice.
  Proof. intros. apply nth_In. rewrite Clen. auto. Qed.

  Lemma valid_of_fin : forall j, j < K -> cand V fr bm (chj j) <> NegInf -> valid nx j.
  Proof.
    intros j Lj H. split.
    - unfold nx. rewrite (nx_Kp V width fr bm choice Vpos Wpos Clen). unfold K, Kout in Lj. lia.
    - unfold nx. rewrite (nx_invalid V width fr bm choice Vpos Wpos Clen Crange). fold K.
      apply Nat.ltb_lt in Lj. rewrite Lj. destruct (cand V fr bm (chj j)); [congruence|reflexivity].
  Qed.

  Lemma fin_of_valid : forall j, valid nx j ->
    j < K /\ cand V fr bm (chj j) = Fin (nbq nx j + bq nx j)%Qc.
  Proof.
    intros j Vj.
    destruct (valid_nx V width fr bm choice Vpos Wpos Clen Crange j Vj) as (Lj & R & _).
    split; auto. destruct Vj as [_ IV]. unfold nbq, bq. rewrite IV. unfold invalid in IV.
    unfold nx in IV |- *. rewrite (nx_nb V width fr bm choice Clen), (nx_b V width fr bm choice Clen) in IV.
    rewrite (nx_nb V width fr bm choice Clen), (nx_b V width fr bm choice Clen).
    apply Nat.ltb_lt in Lj. rewrite Lj in IV. rewrite Lj.
    rewrite <- (cnb_cb_cand V fr bm (chj j) Vpos R).
    destruct (c_nb V fr bm (chj j)); [discriminate|]. destruct (c_b V fr bm (chj j)); [discriminate|].
    reflexivity.
  Qed.

  (* if an invalid candidate was selected then every live one was *)
  Lemma all_fin_chosen : forall c, In c choice -> cand V fr bm c = NegInf ->
    forall u, u < ncand V bm -> cand V fr bm u <> NegInf -> In u choice.
  Proof.
    intros c Hc Nc u R H. destruct (in_dec Nat.eq_dec u choice) as [Y|N]; auto.
    exfalso. pose proof (Cdom u R N c Hc) as M. rewrite Nc in M.
    destruct (cand V fr bm u); [congruence|exact M].
  Qed.

  Lemma full_when_unchosen : forall u, u < ncand V bm -> ~ In u choice -> K = width.
  Proof.
    intros u R N. unfold K, Kout. destruct (le_lt_dec width (ncand V bm)); [lia|].
    exfalso. apply N.
    assert (INC : incl (seq 0 (ncand V bm)) choice).
    { apply NoDup_length_incl; auto.
      - rewrite seq_length, Clen. unfold Kout. lia.
      - intros x Hx. apply in_seq. split; [lia|]. apply Crange. auto. }
    apply INC. apply in_seq. lia.
  Qed.

  Lemma entry_nx : forall j, valid nx j ->
    entry_of nx j = new_entry V L E n B (pref nx j) /\ In (pref nx j) (cand_prefixes V B).
  Proof.
    intros j Vj.
    destruct (valid_nx V width fr bm choice Vpos Wpos Clen Crange j Vj) as (Lj & R & VS & HM).
    pose proof (pref_nx V width fr bm choice Vpos Wpos I Clen Crange j Lj) as PN. fold nx in PN.
    destruct Vj as [_ IV]. unfold entry_of, nbq, bq. rewrite IV.
    unfold nx at 2 3. rewrite (nx_nb V width fr bm choice Clen), (nx_b V width fr bm choice Clen).
    apply Nat.ltb_lt in Lj. rewrite Lj. apply Nat.ltb_lt in Lj. rewrite PN.
    unfold c_nb, c_b. set (src := c_src V bm (chj j)) in *.
    destruct (c_nonext V bm (chj j)) eqn:NEXT.
    - unfold nb_nonext_c. rewrite (proj2 VS). cbn [fin0]. split.
      + symmetry. apply (entry_nonext V width fr bm choice L E Vpos Wpos I TK FA src VS).
      + apply cand_prefixes_in. left. eexists. apply (view_in bm src VS).
    - specialize (HM eq_refl). unfold c_nonext in NEXT. apply Nat.leb_gt in NEXT.
      assert (ES : Nat.min (chj j) (Kp bm * V - 1) = chj j) by lia. rewrite ES.
      assert (SRC : chj j / V = src).
      { unfold src, c_src, c_nonext. replace (Kp bm * V <=? chj j) with false by (symmetry; apply Nat.leb_gt; lia). reflexivity. }
      rewrite SRC. fold (c_ext V (chj j)). set (v := c_ext V (chj j)) in *.
      assert (Hv : v < V) by (apply (ext_range V width bm choice Vpos Wpos Clen)).
      unfold nb_ext_c. rewrite HM, (proj2 VS). cbn [orb fin0]. split.
      + symmetry. apply (entry_ext V fr bm L E Vpos I FA src v VS Hv HM).
      + apply cand_prefixes_in. right. exists (pref bm src), (nbq bm src, bq bm src), v.
        split; auto. apply (view_in bm src VS).
  Qed.

  (* every candidate prefix of the map recursion is a candidate index of the vectorised step,
     with the same total mass *)
  Lemma cand_of_prefix : forall q, In q (cand_prefixes V B) ->
    exists u, u < ncand V bm /\
      cand V fr bm u = Fin (e_tot (new_entry V L E n B q)) /\
      (forall j, j < K -> chj j = u -> pref nx j = q).
  Proof.
    assert (KEEP : forall k, valid bm k ->
              exists u, u < ncand V bm /\
                cand V fr bm u = Fin (e_tot (new_entry V L E n B (pref bm k))) /\
                (forall j, j < K -> chj j = u -> pref nx j = pref bm k)).
    { intros k Vk. exists (Kp bm * V + k). destruct Vk as [Lk IVk].
      assert (R : Kp bm * V + k < ncand V bm) by (unfold ncand; lia).
      assert (NE : c_nonext V bm (Kp bm * V + k) = true) by (unfold c_nonext; apply Nat.leb_le; lia).
      assert (SR : c_src V bm (Kp bm * V + k) = k) by (unfold c_src; rewrite NE; lia).
      split; auto. split.
      - unfold n, B. rewrite (entry_nonext V width fr bm choice L E Vpos Wpos I TK FA k (conj Lk IVk)).
        unfold cand. replace (Kp bm * V + k <? Kp bm * V) with false by (symmetry; apply Nat.ltb_ge; lia).
        replace (Kp bm * V + k - Kp bm * V) with k by lia.
        unfold nb_nonext_c. rewrite IVk. reflexivity.
      - intros j Lj Ej. unfold nx. rewrite (pref_nx V width fr bm choice Vpos Wpos I Clen Crange j Lj), Ej, NE, SR.
        reflexivity. }
    intros q Hq. apply cand_prefixes_in in Hq.
    destruct Hq as [(m & Hm)|(p & m & v & Hm & Hv & ->)].
    - apply view_in_inv in Hm. destruct Hm as (k & Vk & Em). inversion Em; subst. apply KEEP. auto.
    - apply view_in_inv in Hm. destruct Hm as (k & Vk & Em). inversion Em; subst.
      destruct (inb B (pref bm k ++ [v])) eqn:INB.
      + apply view_inb in INB. destruct INB as (k' & Vk' & Pk'). rewrite <- Pk'. apply KEEP. auto.
      + assert (HM : has_match V bm k v = false).
        { destruct (has_match V bm k v) eqn:HM; auto. exfalso.
          destruct (has_match_twin V width fr bm choice Vpos Wpos I TW TK k v Vk HM) as (k4 & V4 & P4).
          assert (inb B (pref bm k ++ [v]) = true); [|congruence]. apply view_inb. eauto. }
        destruct Vk as [Lk IVk]. exists (k * V + v).
        assert (R1 : k * V + v < Kp bm * V) by nia.
        assert (R : k * V + v < ncand V bm) by (unfold ncand; nia).
        assert (NE : c_nonext V bm (k * V + v) = false) by (unfold c_nonext; apply Nat.leb_gt; auto).
        assert (DV : (k * V + v) / V = k) by (rewrite Nat.div_add_l by lia; rewrite Nat.div_small by auto; lia).
        assert (MD : (k * V + v) mod V = v).
        { rewrite Nat.add_comm, Nat.mod_add by lia. apply Nat.mod_small. auto. }
        assert (SR : c_src V bm (k * V + v) = k) by (unfold c_src; rewrite NE; auto).
        split; auto. split.
        * unfold n, B. rewrite (entry_ext V fr bm L E Vpos I FA k v (conj Lk IVk) Hv HM).
          unfold cand. replace (k * V + v <? Kp bm * V) with true by (symmetry; apply Nat.ltb_lt; auto).
          rewrite DV, MD. unfold nb_ext_c. rewrite HM, IVk. cbn [orb]. unfold e_tot. cbn [fst snd].
          f_equal. ring.
        * intros j Lj Ej. unfold nx. rewrite (pref_nx V width fr bm choice Vpos Wpos I Clen Crange j Lj), Ej, NE, SR.
          unfold c_ext. rewrite MD. reflexivity.
  Qed.

  (* one step of the vectorised code is one admissible step of the map recursion of width [width] *)
  Lemma refine_step : pbs_keeps width (pbs_cands V L E n B) (view nx).
  Proof.
    split; [apply (view_nodup V); exact Inx|]. split; [|split].
    - intros e He. apply view_in_inv in He. destruct He as (j & Vj & ->).
      destruct (entry_nx j Vj) as [E1 E2]. rewrite E1. unfold pbs_cands. apply in_map. exact E2.
    - unfold view. rewrite map_length. unfold slots.
      eapply Nat.le_trans; [apply filter_length_le|]. rewrite seq_length.
      unfold nx. rewrite (nx_Kp V width fr bm choice Vpos Wpos Clen). lia.
    - intros c Hc NI. unfold pbs_cands in Hc. apply in_map_iff in Hc. destruct Hc as (q & <- & Hq).
      destruct (cand_of_prefix q Hq) as (u & R & CU & PU).
      destruct (in_dec Nat.eq_dec u choice) as [Y|N].
      + exfalso. apply NI. destruct (chosen_slot u Y) as (j & Lj & Ej).
        assert (Vj : valid nx j) by (apply valid_of_fin; auto; rewrite Ej, CU; discriminate).
        destruct (entry_nx j Vj) as [E1 _]. rewrite (PU j Lj Ej) in E1. rewrite <- E1. apply view_in. auto.
      + pose proof (full_when_unchosen u R N) as KW.
        assert (ALL : forall j, j < K -> valid nx j /\ mle (cand V fr bm u) (cand V fr bm (chj j))).
        { intros j Lj. pose proof (Cdom u R N (chj j) (slot_chosen j Lj)) as M. split; auto.
          apply valid_of_fin; auto. rewrite CU in M. destruct (cand V fr bm (chj j)); [destruct M|discriminate]. }
        split.
        * unfold view. rewrite map_length. unfold slots. rewrite filter_all, seq_length.
          -- unfold nx. rewrite (nx_Kp V width fr bm choice Vpos Wpos Clen). reflexivity.
          -- intros j Hj. apply in_seq in Hj. unfold nx in Hj. rewrite (nx_Kp V width fr bm choice Vpos Wpos Clen) in Hj.
             destruct (ALL j) as [[_ IV] _]; [lia|]. rewrite IV. reflexivity.
        * intros e He. apply view_in_inv in He. destruct He as (j & Vj & ->).
          destruct (fin_of_valid j Vj) as [Lj CJ]. destruct (ALL j Lj) as [_ M].
          rewrite CU, CJ in M. exact M.
  Qed.

  Lemma twins_step : twins nx.
  Proof.
    intros j j' Lj Lj' Vj H.
    destruct (invalid nx j') eqn:IV'; [|exists j'; split; auto; split; auto].
    unfold nx in H. rewrite (nx_isp V width fr bm choice Clen) in H. fold K in H.
    destruct (j <? K) eqn:E1; [|discriminate]. destruct (j' <? K) eqn:E2; [|discriminate].
    apply Nat.ltb_lt in E1, E2. cbn [andb] in H.
    destruct (valid_nx V width fr bm choice Vpos Wpos Clen Crange j Vj) as (_ & R & VS & _).
    pose proof (ch_range V width bm choice Clen Crange j' E2) as R'.
    pose proof (src_range V width bm choice Vpos Wpos Clen _ R') as SR'.
    unfold c_isp in H. apply andb_true_iff in H. destruct H as [H _].
    apply andb_true_iff in H. destruct H as [H _].
    destruct (TW _ _ (proj1 VS) SR' VS H) as (s & Vs & Ps).
    (* an invalid candidate was selected, so every live candidate was *)
    assert (NEG : cand V fr bm (chj j') = NegInf).
    { unfold nx in IV'. rewrite (nx_invalid V width fr bm choice Vpos Wpos Clen Crange) in IV'. fold K in IV'.
      apply Nat.ltb_lt in E2. rewrite E2 in IV'. destruct (cand V fr bm (chj j')); [auto|discriminate]. }
    pose proof (all_fin_chosen (chj j') (slot_chosen j' E2) NEG) as ALLFIN.
    assert (GET : forall q, In q (cand_prefixes V B) -> exists j'', valid nx j'' /\ pref nx j'' = q).
    { intros q Hq. destruct (cand_of_prefix q Hq) as (u & Ru & CU & PU).
      assert (Y : In u choice) by (apply ALLFIN; auto; rewrite CU; discriminate).
      destruct (chosen_slot u Y) as (j'' & Lj'' & Ej''). exists j''. split; [|apply PU; auto].
      apply valid_of_fin; auto. rewrite Ej'', CU. discriminate. }
    unfold nx. rewrite (pref_nx V width fr bm choice Vpos Wpos I Clen Crange j' E2). fold nx. rewrite <- Ps.
    destruct (c_nonext V bm (chj j')).
    - apply GET. apply cand_prefixes_in. left. eexists. apply (view_in bm s Vs).
    - apply GET. apply cand_prefixes_in. right. exists (pref bm s), (nbq bm s, bq bm s), (c_ext V (chj j')).
      split; [apply (view_in bm s Vs)|]. split; auto. apply (ext_range V width bm choice Vpos Wpos Clen).
  Qed.
End RefineStep2.

(* ---- along the loop ---------------------------------------------------------------------------- *)

Lemma view_init : view init_beam = pbs_init.
Proof. reflexivity. Qed.

Lemma live_refine : forall V width fus lm len (L : list sframe) rest done choices bm,
  1 <= V -> 1 <= width -> L = done ++ rest -> length L <= len ->
  choices_ok V width fus lm 0%Qc len (length done) rest choices bm = true ->
  inv V bm -> twins bm -> b_t bm = length done ->
  pbs_reach V width L (fused_score fus lm L) (length done) (view bm) ->
  pbs_reach V width L (fused_score fus lm L) (length done + length rest)
    (view (sloop V width fus lm len (length done) rest choices bm)).
Proof.
  intros V width fus lm len L. induction rest as [|[nonext blank] rest];
    intros done choices bm Vpos Wpos EL LL C I TW T PR.
  - cbn [sloop length]. rewrite Nat.add_0_r. exact PR.
  - cbn [sloop choices_ok] in *.
    assert (LT : length done < len).
    { rewrite EL, app_length in LL. cbn [length] in LL. lia. }
    replace (len <=? length done) with false in * by (symmetry; apply Nat.leb_gt; lia).
    cbn [orb] in C. apply andb_true_iff in C. destruct C as [C1 C2].
    pose proof (topk_ok_facts _ _ _ _ _ C1) as TK.
    unfold sstep in *. set (fr := mk_frame fus lm nonext blank bm) in *.
    set (nx := fst (advance V fr bm width (hd [] choices))) in *.
    assert (HN : nth (length done) L ([], 0%Qc) = (nonext, blank)).
    { rewrite EL, app_nth2, Nat.sub_diag by lia. reflexivity. }
    assert (FA : frame_agrees V fr bm L (fused_score fus lm L) (b_t bm)).
    { apply mk_frame_agrees with (t := length done); auto. }
    assert (Inx : inv V nx) by (destruct TK; apply advance_inv; auto).
    assert (Tw : twins nx) by (apply (twins_step V width fr bm (hd [] choices) L (fused_score fus lm L)); auto).
    assert (Rnx : pbs_reach V width L (fused_score fus lm L) (S (length done)) (view nx)).
    { apply pbs_S with (B := view bm); auto. rewrite <- T.
      apply (refine_step V width fr bm (hd [] choices) L (fused_score fus lm L)); auto. }
    assert (Tnx : b_t nx = length (done ++ [(nonext, blank)])).
    { rewrite app_length. cbn [length]. unfold nx, advance. cbn [fst b_t]. lia. }
    cbn [length]. replace (length done + S (length rest)) with (length (done ++ [(nonext, blank)]) + length rest)
      by (rewrite app_length; cbn; lia).
    replace (S (length done)) with (length (done ++ [(nonext, blank)])) in * by (rewrite app_length; cbn; lia).
    apply IHrest; auto. rewrite <- app_assoc. exact EL.
Qed.

Lemma probs_of_valid : forall bm k, wf bm -> valid bm k ->
  nth k (probs_of bm) NegInf = Fin (nbq bm k + bq bm k)%Qc.
Proof.
  intros bm k W [Lk IV]. unfold probs_of.
  rewrite (map2_nth madd _ _ k NegInf NegInf) by (rewrite ?(wf_b bm W); auto).
  unfold nbq, bq. rewrite IV. unfold invalid in IV.
  destruct (nth k (b_nb bm) NegInf); [discriminate|]. destruct (nth k (b_b bm) NegInf); [discriminate|].
  reflexivity.
Qed.

(* the property's "the probability reported for a prefix equals the mass the standard prefix-beam
   recursion of that width assigns to it": the returned slots with a mass other than -inf are
   exactly the entries (prefix |-> nb + b) of a beam that the width-[width] prefix beam search on
   a finite map reaches on the element's own valid frames *)
Lemma model_refines_pbs_ref : forall V width fus lm len frames choices, 1 <= V -> 1 <= width ->
  choices_ok V width fus lm 0%Qc len 0 frames choices init_beam = true ->
  let L := firstn len frames in
  let E := fused_score fus lm L in
  exists B, pbs_reach V width L E (length L) B /\
    let '(P, Ls, Ps) := observe (search V width fus lm len frames choices) in
    (forall i q, nth i Ps NegInf = Fin q ->
       exists nb b, In (nth i P [], (nb, b)) B /\ q = (nb + b)%Qc) /\
    (forall p nb b, In (p, (nb, b)) B ->
       exists i, i < width /\ nth i P [] = p /\ nth i Ps NegInf = Fin (nb + b)%Qc).
Proof.
  intros V width fus lm len frames choices Vpos Wpos C L E.
  pose proof (out_slot V width fus lm len frames choices Vpos Wpos C) as O.
  pose proof (out_slot_rev V width fus lm len frames choices Vpos Wpos C) as OR.
  destruct (live_facts V width fus lm len frames choices Vpos Wpos C) as (I & T & _).
  pose proof (live_ok V width fus lm len frames choices C) as CL.
  exists (view (live_beam V width fus lm len frames choices)). split.
  - unfold live_beam, E. fold (live_frames len frames) in L.
    change (length L) with (0 + length (live_frames len frames)).
    apply (live_refine V width fus lm len L (live_frames len frames) [] choices init_beam); auto.
    + unfold L. rewrite live_len. lia.
    + apply init_inv.
    + apply twins_init.
    + rewrite view_init. constructor.
  - destruct (observe (search V width fus lm len frames choices)) as [[P Ls] Ps].
    destruct O as (_ & _ & _ & _ & O).
    set (bm := live_beam V width fus lm len frames choices) in *.
    pose proof (inv_wf V bm I) as W. split.
    + intros i q Hq. destruct (O i q Hq) as (Vi & PQ & -> & _).
      rewrite (probs_of_valid bm i W Vi) in PQ. inversion PQ; subst q.
      exists (nbq bm i), (bq bm i). split; auto. apply (view_in bm i Vi).
    + intros p nb b Hin. apply view_in_inv in Hin. destruct Hin as (k & Vk & Ek). inversion Ek; subst.
      destruct (OR k Vk) as (Lk & E1 & E2). exists k. split; auto. split; auto.
      rewrite E2. apply probs_of_valid; auto.
Qed.
