(* C15 — lemmas, part 1: the countdown bookkeeping with its index arithmetic follows the
   value-tracking rules of Spec.v *)
From Coq Require Import List ZArith QArith Bool Lia.
From PV Require Import C15.Model C15.Spec.
Import ListNotations.
Local Open Scope Z_scope.

Lemma below_fails : forall ref v thr, below ref v thr = fails ref v thr.
Proof.
  intros [r|] v thr; cbn; [|reflexivity].
  destruct (Z.ltb_spec (Z.max (r - v) 0) thr), (Z.ltb_spec 0 thr), (Z.ltb_spec (r - v) thr);
    cbn; try reflexivity; lia.
Qed.

(* ---------- the positional history ----------------------------------------------------- *)
Lemma last_epoch_snoc : forall c x, last_epoch (c ++ [x]) = last_epoch c + 1.
Proof. intros. unfold last_epoch. rewrite app_length. cbn. lia. Qed.

Lemma hget_range : forall c i r, hget c i = Some r -> 0 <= i <= last_epoch c.
Proof.
  unfold hget, last_epoch. intros c i r H.
  destruct (Z.ltb_spec i 0); [discriminate|].
  assert (Hn : nth_error c (Z.to_nat i) <> None) by congruence.
  apply nth_error_Some in Hn. lia.
Qed.

Lemma hget_old : forall c x i r, hget c i = Some r -> hget (c ++ [x]) i = Some r.
Proof.
  unfold hget. intros c x i r H. destruct (i <? 0); [discriminate|].
  rewrite nth_error_app1; auto. apply nth_error_Some. congruence.
Qed.

Lemma hget_new : forall c x, hget (c ++ [x]) (last_epoch c + 1) = Some x.
Proof.
  intros. unfold hget, last_epoch.
  destruct (Z.ltb_spec (Z.of_nat (List.length c) - 1 + 1) 0); [lia|].
  replace (Z.to_nat (Z.of_nat (List.length c) - 1 + 1)) with (List.length c) by lia.
  rewrite nth_error_app2, Nat.sub_diag; auto.
Qed.

Lemma nonzero_pos : forall z, 0 <= z -> nonzero z = (0 <? z).
Proof. intros. unfold nonzero. destruct (Z.eqb_spec z 0), (Z.ltb_spec 0 z); cbn; auto; lia. Qed.

(* ---------- one patience rule against the stored countdowns ---------------------------- *)
(* [res]/[pcd] project the resume and patience countdowns of a row.  The rule's reference
   value sits [bad] rows back, where the patience countdown was last full; between there and
   the last row the countdown descends by one per row. *)
Definition RInv (res pcd : row -> Z) (pat : Z) (c : list row) (r : rule) : Prop :=
  (exists prev, hget c (last_epoch c) = Some prev /\ res prev = wait r /\ pcd prev = pat - bad r) /\
  0 <= wait r /\ 0 <= bad r /\ (0 < wait r -> bad r = 0) /\
  (exists ri, hget c (last_epoch c - bad r) = Some ri /\ r_val ri = ref r) /\
  (forall k, 0 <= k <= bad r ->
             exists rk, hget c (last_epoch c - k) = Some rk /\ pcd rk = pat - bad r + k).

Lemma RInv_reset : forall res pcd pat c r x w v,
  RInv res pcd pat c r -> 0 <= w -> res x = w -> pcd x = pat -> r_val x = Some v ->
  RInv res pcd pat (c ++ [x]) (mkRule w (Some v) 0).
Proof.
  intros res pcd pat c r x w v _ Hw Hres Hpcd Hval. unfold RInv. rewrite last_epoch_snoc. cbn [wait bad ref].
  repeat split; try lia.
  - exists x. rewrite hget_new. repeat split; auto. lia.
  - exists x. replace (last_epoch c + 1 - 0) with (last_epoch c + 1) by lia. rewrite hget_new. auto.
  - intros k Hk. assert (k = 0) by lia. subst k. exists x.
    replace (last_epoch c + 1 - 0) with (last_epoch c + 1) by lia. rewrite hget_new. split; auto. lia.
Qed.

Lemma RInv_fail : forall res pcd pat c r x,
  RInv res pcd pat c r -> wait r = 0 -> res x = 0 -> pcd x = pat - bad r - 1 ->
  RInv res pcd pat (c ++ [x]) (mkRule 0 (ref r) (bad r + 1)).
Proof.
  intros res pcd pat c r x (_ & Hw & Hb & _ & (ri & Hri & Hrv) & Hk) Hw0 Hres Hpcd.
  unfold RInv. rewrite last_epoch_snoc. cbn [wait bad ref].
  repeat split; try lia.
  - exists x. rewrite hget_new. repeat split; auto. lia.
  - exists ri. split; auto. apply hget_old.
    replace (last_epoch c + 1 - (bad r + 1)) with (last_epoch c - bad r) by lia. exact Hri.
  - intros k Hk'. destruct (Z.eq_dec k 0) as [->|Hne].
    + exists x. replace (last_epoch c + 1 - 0) with (last_epoch c + 1) by lia. rewrite hget_new. split; auto. lia.
    + destruct (Hk (k - 1)) as (rk & Hrk & Hp); [lia|]. exists rk. split.
      * apply hget_old. replace (last_epoch c + 1 - k) with (last_epoch c - (k - 1)) by lia. exact Hrk.
      * lia.
Qed.

(* what the rule does to the pair of countdowns of the new row *)
Lemma RInv_step : forall res pcd pat c r x thr v,
  RInv res pcd pat c r -> wait r = 0 \/ bad r = 0 ->
  res x = wait (rule_step r thr v) -> pcd x = pat - bad (rule_step r thr v) -> r_val x = Some v ->
  RInv res pcd pat (c ++ [x]) (rule_step r thr v).
Proof.
  intros res pcd pat c r x thr v H Hwb. pose proof H as (_ & Hw & Hb & Hwz & _).
  unfold rule_step. destruct (Z.ltb_spec 0 (wait r)).
  - cbn [wait bad]. intros. eapply RInv_reset; eauto; lia.
  - destruct (fails (ref r) v thr); cbn [wait bad]; intros.
    + eapply RInv_fail; eauto; lia.
    + eapply RInv_reset; eauto; lia.
Qed.

Lemma some2 : forall (a a' b b' : Z), a = a' -> b = b' -> Some (a, b) = Some (a', b').
Proof. intros; subst; reflexivity. Qed.
Lemma some4 : forall (a a' b b' : Z) (x y : Q), a = a' -> b = b' -> Some (a, b, x, y) = Some (a', b', x, y).
Proof. intros; subst; reflexivity. Qed.

(* ---------- es_step / rlr_step computed through the rule ---------------------------------- *)
Lemma es_step_spec : forall p c prev r v,
  RInv r_esres r_espcd (es_pat p) c r -> hget c (last_epoch c) = Some prev -> bad r < es_pat p ->
  es_step p c prev (last_epoch c + 1) v
  = Some (wait (rule_step r (es_thr p) v), es_pat p - bad (rule_step r (es_thr p) v)).
Proof.
  intros p c prev r v ((prev' & Hp' & Hres & Hpcd) & Hw & Hb & Hwz & (ri & Hri & Hrv) & _) Hprev Hlt.
  rewrite Hprev in Hp'. injection Hp' as <-.
  unfold es_step, rule_step. rewrite Hres, Hpcd, nonzero_pos by lia.
  replace (last_epoch c + 1 - es_pat p + (es_pat p - bad r) - 1) with (last_epoch c - bad r) by lia.
  rewrite Hri, Hrv, below_fails.
  destruct (Z.ltb_spec 0 (wait r)).
  - cbn [wait bad]. rewrite (Hwz H). apply some2; lia.
  - assert (wait r = 0) as -> by lia.
    destruct (fails (ref r) v (es_thr p)); cbn [wait bad].
    + destruct (Z.ltb_spec (es_pat p - bad r - 1) 0); [lia|]. apply some2; lia.
    + apply some2; lia.
Qed.

Definition new_rate (p : params) (rate : Q) (fire : bool) : Q :=
  if fire && Qlt_b (rlr_eps p) (rate - Qred (rate * rlr_fac p)) then Qred (rate * rlr_fac p) else rate.

Lemma rlr_step_spec : forall p c prev r v rate,
  RInv r_rlrres r_rlrpcd (rlr_pat p) c r -> hget c (last_epoch c) = Some prev -> bad r < rlr_pat p ->
  let r1 := rule_step r (rlr_thr p) v in
  let fire := bad r1 =? rlr_pat p in
  let r' := if fire then mkRule (rlr_cool p) (Some v) 0 else r1 in
  rlr_step p c prev (last_epoch c + 1) v rate rate
  = Some (wait r', rlr_pat p - bad r', new_rate p rate fire, new_rate p rate fire).
Proof.
  intros p c prev r v rate ((prev' & Hp' & Hres & Hpcd) & Hw & Hb & Hwz & (ri & Hri & Hrv) & _) Hprev Hlt.
  rewrite Hprev in Hp'. injection Hp' as <-.
  unfold rlr_step, rule_step, new_rate. rewrite Hres, Hpcd, nonzero_pos by lia.
  replace (last_epoch c + 1 - rlr_pat p + (rlr_pat p - bad r) - 1) with (last_epoch c - bad r) by lia.
  rewrite Hri, Hrv, below_fails.
  destruct (Z.ltb_spec 0 (wait r)).
  - cbn [wait bad]. rewrite (Hwz H). destruct (Z.eqb_spec 0 (rlr_pat p)); [lia|]. cbn [andb wait bad].
    apply some4; lia.
  - assert (wait r = 0) as -> by lia.
    destruct (fails (ref r) v (rlr_thr p)); cbn [wait bad].
    + unfold nonzero. destruct (Z.eqb_spec (rlr_pat p - bad r - 1) 0), (Z.eqb_spec (bad r + 1) (rlr_pat p));
        try lia; cbn [negb andb wait bad].
      * destruct (Qlt_b (rlr_eps p) (rate - Qred (rate * rlr_fac p))); apply some4; lia.
      * apply some4; lia.
    + destruct (Z.eqb_spec 0 (rlr_pat p)); [lia|]. cbn [andb wait bad]. apply some4; lia.
Qed.

(* ---------- whole controller state against the spec state -------------------------------------- *)
Definition lr_of (dflt : Q) (r : row) : Q := match r_lr r with Some l => l | None => dflt end.

Definition Inv (p : params) (dflt : Q) (st : state) (s : sstate) : Prop :=
  s_epoch s = last_epoch (cache st) /\
  RInv r_esres r_espcd (es_pat p) (cache st) (s_es s) /\
  RInv r_rlrres r_rlrpcd (rlr_pat p) (cache st) (s_rl s) /\
  bad (s_rl s) < rlr_pat p /\ bad (s_es s) <= es_pat p /\
  (exists prev, hget (cache st) (last_epoch (cache st)) = Some prev /\ lr_of dflt prev = s_rate s) /\
  opt st = s_rate s.

Lemma Inv_init : forall p dflt, wf p -> Inv p dflt (init_state p dflt) (s_init p dflt).
Proof.
  intros p dflt (H1 & H2 & H3 & H4 & H5 & H6 & H7).
  unfold Inv, init_state, s_init, RInv, last_epoch. cbn [cache opt s_epoch s_es s_rl s_rate wait bad ref List.length].
  change (Z.of_nat 1 - 1) with 0. change (0 - 0) with 0. cbn [hget Z.ltb Z.compare Z.to_nat nth_error].
  repeat split; try lia.
  - exists (row0 p). cbn. repeat split; lia.
  - exists (row0 p). auto.
  - intros k Hk. assert (k = 0) by lia. subst. exists (row0 p). cbn. split; auto. lia.
  - exists (row0 p). cbn. repeat split; lia.
  - exists (row0 p). auto.
  - intros k Hk. assert (k = 0) by lia. subst. exists (row0 p). cbn. split; auto. lia.
  - exists (row0 p). split; auto.
Qed.

Lemma rule_step_bad : forall r thr v, 0 <= bad r -> 0 <= bad (rule_step r thr v) <= bad r + 1.
Proof.
  intros. unfold rule_step. destruct (0 <? wait r); cbn; try lia.
  destruct (fails (ref r) v thr); cbn; lia.
Qed.

Lemma rule_step_thr0 : forall r v, bad (rule_step r 0 v) = 0.
Proof.
  intros. unfold rule_step. destruct (0 <? wait r); cbn; auto.
  unfold fails. destruct (ref r); cbn; auto.
Qed.

(* One call of update_for_epoch with acceptable keyword arguments, early stopping not yet fired. *)
Lemma update_follows : forall rnd p decl dflt st s tr v kw u,
  wf p -> Inv p dflt st s -> bad (s_es s) < es_pat p ->
  check_kwargs decl kw = None -> collect decl kw = Some u ->
  let c := fst (s_step p s v) in
  let s' := snd (s_step p s v) in
  exists info,
    update rnd p decl dflt st tr v kw
    = inr (c, mkState (cache st ++ [info])
                      (csv st ++ [mkCrow (r_epoch info) (r_esres info) (r_espcd info) (r_rlrres info) (r_rlrpcd info)
                                         (rnd (s_rate s')) tr v (map (fun nv => print_uval (snd nv)) u)])
                      (s_rate s') ((r_epoch info, s_rate s') :: ckpt st)) /\
    r_lr info = Some (s_rate s') /\ r_user info = u /\ r_val info = Some v /\ r_train info = Some tr /\
    r_epoch info = s_epoch s' /\
    Inv p dflt (mkState (cache st ++ [info]) (csv st ++ [mkCrow (r_epoch info) (r_esres info) (r_espcd info) (r_rlrres info) (r_rlrpcd info)
                                         (rnd (s_rate s')) tr v (map (fun nv => print_uval (snd nv)) u)])
                      (s_rate s') ((r_epoch info, s_rate s') :: ckpt st)) s' /\
    continue_training p (mkState (cache st ++ [info]) (csv st ++ [mkCrow (r_epoch info) (r_esres info) (r_espcd info) (r_rlrres info) (r_rlrpcd info)
                                         (rnd (s_rate s')) tr v (map (fun nv => print_uval (snd nv)) u)])
                      (s_rate s') ((r_epoch info, s_rate s') :: ckpt st)) = c.
Proof.
  intros rnd p decl dflt st s tr v kw u Hwf (Hep & Hes & Hrl & Hrlb & Hesb & (prev & Hprev & Hlr) & Hopt) Hlt Hck Hcol.
  pose proof Hwf as (W1 & W2 & W3 & W4 & W5 & W6 & W7).
  assert (Hesw : wait (s_es s) = 0 \/ bad (s_es s) = 0).
  { destruct Hes as (_ & ? & ? & Hz & _). destruct (Z.ltb_spec 0 (wait (s_es s))); [right; auto | left; lia]. }
  assert (Hrlw : wait (s_rl s) = 0 \/ bad (s_rl s) = 0).
  { destruct Hrl as (_ & ? & ? & Hz & _). destruct (Z.ltb_spec 0 (wait (s_rl s))); [right; auto | left; lia]. }
  assert (Hesb0 : 0 <= bad (s_es s)) by (destruct Hes as (_ & _ & ? & _); auto).
  assert (Hrlb0 : 0 <= bad (s_rl s)) by (destruct Hrl as (_ & _ & ? & _); auto).
  set (es' := rule_step (s_es s) (es_thr p) v).
  set (rl1 := rule_step (s_rl s) (rlr_thr p) v).
  set (fire := bad rl1 =? rlr_pat p).
  set (rl' := if fire then mkRule (rlr_cool p) (Some v) 0 else rl1).
  set (rate' := new_rate p (s_rate s) fire).
  set (e := last_epoch (cache st) + 1).
  set (info := mkRow e (wait es') (es_pat p - bad es') (wait rl') (rlr_pat p - bad rl') (Some rate') (Some tr) (Some v) u).
  assert (Hstep : s_step p s v =
                  (negb (match p_num p with None => false | Some n => n <=? e end || es_fired p (mkS e es' rl' rate')),
                   mkS e es' rl' rate')).
  { unfold s_step. rewrite Hep. reflexivity. }
  intros c s'. subst c s'. rewrite Hstep. cbn [fst snd s_rate s_epoch].
  exists info. cbn [r_lr r_user r_val r_train r_epoch r_esres r_espcd r_rlrres r_rlrpcd info].
  assert (Hupd : update rnd p decl dflt st tr v kw =
    inr (negb (match p_num p with None => false | Some n => n <=? e end || es_fired p (mkS e es' rl' rate')),
         mkState (cache st ++ [info])
                 (csv st ++ [mkCrow e (wait es') (es_pat p - bad es') (wait rl') (rlr_pat p - bad rl') (rnd rate') tr v
                                    (map (fun nv => print_uval (snd nv)) u)])
                 rate' ((e, rate') :: ckpt st))).
  { unfold update. fold e. replace (e - 1) with (last_epoch (cache st)) by (unfold e; lia).
    rewrite Hprev, Hck, Hcol. unfold e.
    rewrite (es_step_spec p (cache st) prev (s_es s) v Hes Hprev Hlt).
    unfold lr_of in Hlr. rewrite Hlr, Hopt.
    rewrite (rlr_step_spec p (cache st) prev (s_rl s) v (s_rate s) Hrl Hprev Hrlb).
    fold es' rl1 fire rl' rate' e. fold info.
    f_equal. f_equal.
    unfold es_fired. cbn [s_es].
    pose proof (rule_step_bad (s_es s) (es_thr p) v Hesb0) as Hb. fold es' in Hb.
    unfold nonzero.
    destruct (Z.eqb_spec (es_thr p) 0) as [E0|E0].
    - destruct (Z.ltb_spec 0 (es_thr p)); [lia|]. cbn [negb andb orb].
      rewrite orb_false_r. destruct (p_num p); auto.
      destruct (Z.ltb_spec e z), (Z.leb_spec z e); auto; lia.
    - destruct (Z.ltb_spec 0 (es_thr p)); [|lia]. cbn [negb andb].
      destruct (Z.eqb_spec (es_pat p - bad es') 0), (Z.eqb_spec (bad es') (es_pat p)); try lia; cbn [negb orb].
      + rewrite orb_true_r. reflexivity.
      + rewrite orb_false_r. destruct (p_num p); auto.
        destruct (Z.ltb_spec e z), (Z.leb_spec z e); auto; lia. }
  split; [exact Hupd|].
  split; [reflexivity|]. split; [reflexivity|]. split; [reflexivity|]. split; [reflexivity|]. split; [reflexivity|].
  split.
  - (* Inv *)
    unfold Inv. cbn [cache opt s_epoch s_es s_rl s_rate]. rewrite last_epoch_snoc. fold e.
    split; [|split; [|split; [|split; [|split; [|split]]]]].
    + reflexivity.
    + apply RInv_step; auto.
    + unfold rl', fire. destruct (Z.eqb_spec (bad rl1) (rlr_pat p)).
      * eapply RInv_reset; eauto; cbn; lia.
      * apply RInv_step; auto.
    + unfold rl', fire. pose proof (rule_step_bad (s_rl s) (rlr_thr p) v Hrlb0) as Hb. fold rl1 in Hb.
      destruct (Z.eqb_spec (bad rl1) (rlr_pat p)); cbn [bad]; lia.
    + pose proof (rule_step_bad (s_es s) (es_thr p) v Hesb0) as Hb. fold es' in Hb. lia.
    + exists info. unfold e. rewrite hget_new. split; auto.
    + reflexivity.
  - (* continue_training *)
    unfold continue_training. cbn [cache]. rewrite last_epoch_snoc. fold e. unfold e at 1. rewrite hget_new. fold e.
    cbn [r_espcd info]. unfold es_fired. cbn [s_es]. unfold nonzero.
    pose proof (rule_step_bad (s_es s) (es_thr p) v Hesb0) as Hb. fold es' in Hb.
    destruct (Z.eqb_spec (es_thr p) 0) as [E0|E0].
    + destruct (Z.ltb_spec 0 (es_thr p)); [lia|]. cbn [negb andb orb].
      rewrite orb_false_r. destruct (p_num p); auto.
      destruct (Z.ltb_spec e z), (Z.leb_spec z e); auto; lia.
    + destruct (Z.ltb_spec 0 (es_thr p)); [|lia]. cbn [negb andb].
      destruct (Z.eqb_spec (es_pat p - bad es') 0), (Z.eqb_spec (bad es') (es_pat p)); try lia; cbn [negb orb].
      * rewrite orb_true_r. reflexivity.
      * rewrite orb_false_r. destruct (p_num p); auto.
        destruct (Z.ltb_spec e z), (Z.leb_spec z e); auto; lia.
Qed.

(* ---------- runs ------------------------------------------------------------------------------- *)
Lemma run_cons_ok : forall rnd rd p decl dflt st s t c st2,
  s_restart s = false -> update rnd p decl dflt st (s_train s) (s_val s) (s_kw s) = inr (c, st2) ->
  run rnd rd p decl dflt st (s :: t)
  = (OOk c (continue_training p st2) (opt st2)
         (match hget (cache st2) (last_epoch (cache st2)) with Some r => r | None => row0 p end)
       :: fst (run rnd rd p decl dflt st2 t), snd (run rnd rd p decl dflt st2 t)).
Proof.
  intros. cbn [run]. rewrite H, H0. destruct (run rnd rd p decl dflt st2 t). reflexivity.
Qed.

Lemma s_run_cons : forall p s v t,
  s_run p s (v :: t) = ((fst (s_step p s v), s_rate (snd (s_step p s v))) :: fst (s_run p (snd (s_step p s v)) t),
                        snd (s_run p (snd (s_step p s v)) t)).
Proof.
  intros. cbn [s_run]. destruct (s_step p s v). cbn [fst snd]. destruct (s_run p s0 t). reflexivity.
Qed.

Lemma not_fired_lt : forall p s v, wf p -> 0 <= bad (s_es s) < es_pat p ->
  es_fired p (snd (s_step p s v)) = false -> bad (s_es (snd (s_step p s v))) < es_pat p.
Proof.
  intros p s v (W1 & W2 & _) Hb. unfold s_step, es_fired. cbn [snd s_es].
  pose proof (rule_step_bad (s_es s) (es_thr p) v (proj1 Hb)) as Hr.
  destruct (Z.ltb_spec 0 (es_thr p)).
  - cbn [andb]. intro E. apply Z.eqb_neq in E. lia.
  - intros _. assert (es_thr p = 0) as -> by lia. rewrite rule_step_thr0. lia.
Qed.

Lemma run_follows : forall rnd rd p decl dflt steps st s,
  wf p -> Inv p dflt st s -> bad (s_es s) < es_pat p -> plain decl steps ->
  quiet_before_last p s (map s_val steps) = true ->
  map obs_core (fst (run rnd rd p decl dflt st steps)) = map rule_obs (fst (s_run p s (map s_val steps))) /\
  Inv p dflt (snd (run rnd rd p decl dflt st steps)) (snd (s_run p s (map s_val steps))).
Proof.
  intros rnd rd p decl dflt steps. induction steps as [|x t IH]; intros st s Hwf HI Hlt Hpl Hq.
  - cbn. auto.
  - inversion Hpl as [|? ? (Hr & Hck & (u & Hcol)) Hpl']; subst.
    destruct (update_follows rnd p decl dflt st s (s_train x) (s_val x) (s_kw x) u Hwf HI Hlt Hck Hcol)
      as (info & Hupd & Hlr & _ & _ & _ & _ & HI' & Hct).
    rewrite (run_cons_ok _ _ _ _ _ _ _ _ _ _ Hr Hupd). cbn [map]. rewrite s_run_cons. cbn [fst snd map].
    rewrite Hct. cbn [cache opt]. rewrite last_epoch_snoc, hget_new.
    destruct t as [|y t'].
    + cbn. unfold obs_core, rule_obs. cbn [fst snd]. rewrite Hlr. split; [reflexivity|exact HI'].
    + assert (Hnf : es_fired p (snd (s_step p s (s_val x))) = false /\
                    quiet_before_last p (snd (s_step p s (s_val x))) (map s_val (y :: t')) = true).
      { cbn [map quiet_before_last] in Hq. cbn [map]. apply andb_prop in Hq. destruct Hq as [Hq1 Hq2].
        apply negb_true_iff in Hq1. auto. }
      destruct Hnf as [Hnf Hq'].
      assert (Hb0 : 0 <= bad (s_es s)) by (destruct HI as (_ & (_ & _ & ? & _) & _); auto).
      pose proof (not_fired_lt p s (s_val x) Hwf (conj Hb0 Hlt) Hnf) as Hlt'.
      destruct (IH _ _ Hwf HI' Hlt' Hpl' Hq') as [IH1 IH2].
      split; [|exact IH2].
      rewrite IH1. unfold obs_core at 1, rule_obs at 1. cbn [fst snd]. rewrite Hlr. reflexivity.
Qed.

Lemma trace_follows_rules : forall rnd rd p decl dflt steps,
  wf p -> plain decl steps -> quiet_before_last p (s_init p dflt) (map s_val steps) = true ->
  map obs_core (fst (run rnd rd p decl dflt (init_state p dflt) steps))
  = map rule_obs (fst (s_run p (s_init p dflt) (map s_val steps))).
Proof.
  intros. eapply run_follows; eauto using Inv_init.
  destruct H as (_ & ? & _). cbn. lia.
Qed.

(* ---------- the index arithmetic recovers the last reset ------------------------------------------ *)
Lemma RInv_last_reset : forall res pcd pat c r prev,
  RInv res pcd pat c r -> hget c (last_epoch c) = Some prev ->
  let j := last_epoch c + 1 - pat + pcd prev - 1 in
  (exists rj, hget c j = Some rj /\ pcd rj = pat /\ r_val rj = ref r) /\
  (forall i ri, j < i <= last_epoch c -> hget c i = Some ri -> pcd ri < pat).
Proof.
  intros res pcd pat c r prev ((prev' & Hp' & _ & Hpcd) & _ & Hb & _ & (ri & Hri & Hrv) & Hk) Hprev j.
  rewrite Hprev in Hp'. injection Hp' as <-.
  assert (Hj : j = last_epoch c - bad r) by (unfold j; lia).
  split.
  - destruct (Hk (bad r)) as (rk & Hrk & Hpk); [lia|]. rewrite Hri in Hrk. injection Hrk as <-.
    exists ri. rewrite Hj. repeat split; auto. lia.
  - intros i ri' Hi Hget. destruct (Hk (last_epoch c - i)) as (rk & Hrk & Hpk); [lia|].
    replace (last_epoch c - (last_epoch c - i)) with i in Hrk by lia. rewrite Hget in Hrk. injection Hrk as <-. lia.
Qed.

Lemma reference_epoch_is_last_reset : forall rnd rd p decl dflt steps prev,
  wf p -> plain decl steps -> quiet_before_last p (s_init p dflt) (map s_val steps) = true ->
  let c := cache (snd (run rnd rd p decl dflt (init_state p dflt) steps)) in
  hget c (last_epoch c) = Some prev ->
  let epoch := last_epoch c + 1 in
  let es_epoch := epoch - es_pat p + r_espcd prev - 1 in
  let rlr_epoch := epoch - rlr_pat p + r_rlrpcd prev - 1 in
  ((exists rj, hget c es_epoch = Some rj /\ r_espcd rj = es_pat p) /\
   (forall i ri, es_epoch < i <= last_epoch c -> hget c i = Some ri -> r_espcd ri < es_pat p)) /\
  ((exists rj, hget c rlr_epoch = Some rj /\ r_rlrpcd rj = rlr_pat p) /\
   (forall i ri, rlr_epoch < i <= last_epoch c -> hget c i = Some ri -> r_rlrpcd ri < rlr_pat p)).
Proof.
  intros rnd rd p decl dflt steps prev Hwf Hpl Hq c Hprev epoch es_epoch rlr_epoch.
  assert (Hlt : bad (s_es (s_init p dflt)) < es_pat p) by (destruct Hwf as (_ & ? & _); cbn; lia).
  destruct (run_follows rnd rd p decl dflt steps _ _ Hwf (Inv_init p dflt Hwf) Hlt Hpl Hq) as [_ HI].
  destruct HI as (_ & Hes & Hrl & _). fold c in Hes, Hrl.
  destruct (RInv_last_reset _ _ _ _ _ _ Hes Hprev) as ((rj & H1 & H2 & _) & H3).
  destruct (RInv_last_reset _ _ _ _ _ _ Hrl Hprev) as ((rj' & H1' & H2' & _) & H3').
  split; (split; [eauto|auto]).
Qed.

(* ---------- the clauses of the property for the last epoch of any run ---------------------------------- *)
Lemma run_app : forall rnd rd p decl dflt a b st,
  run rnd rd p decl dflt st (a ++ b)
  = (fst (run rnd rd p decl dflt st a) ++ fst (run rnd rd p decl dflt (snd (run rnd rd p decl dflt st a)) b),
     snd (run rnd rd p decl dflt (snd (run rnd rd p decl dflt st a)) b)).
Proof.
  induction a as [|s t IH]; intros b st.
  - cbn. destruct (run rnd rd p decl dflt st b). reflexivity.
  - cbn [app run]. destruct (if s_restart s then restart rd p decl dflt st else inr st) as [e|st1].
    + rewrite IH. destruct (run rnd rd p decl dflt st t). cbn. reflexivity.
    + destruct (update rnd p decl dflt st1 (s_train s) (s_val s) (s_kw s)) as [e|[c st2]].
      * rewrite IH. destruct (run rnd rd p decl dflt st1 t). cbn. reflexivity.
      * rewrite IH. destruct (run rnd rd p decl dflt st2 t). cbn. reflexivity.
Qed.

Lemma s_run_app : forall p a b s,
  s_run p s (a ++ b) = (fst (s_run p s a) ++ fst (s_run p (snd (s_run p s a)) b), snd (s_run p (snd (s_run p s a)) b)).
Proof.
  induction a as [|v t IH]; intros b s.
  - cbn. destruct (s_run p s b). reflexivity.
  - cbn [app]. rewrite (s_run_cons p s v (t ++ b)), (s_run_cons p s v t), IH. cbn. reflexivity.
Qed.

Lemma quiet_snoc : forall p vals s v, quiet_before_last p s (vals ++ [v]) = es_quiet p s vals.
Proof.
  induction vals as [|a t IH]; intros s v; [reflexivity|].
  cbn [app quiet_before_last es_quiet]. rewrite <- (IH _ v). destruct (t ++ [v]) eqn:E; [destruct t; discriminate|reflexivity].
Qed.

Lemma es_quiet_before : forall p vals s, es_quiet p s vals = true -> quiet_before_last p s vals = true.
Proof.
  induction vals as [|a t IH]; intros s H; [reflexivity|].
  cbn [es_quiet quiet_before_last] in *. apply andb_prop in H. destruct H as [H1 H2].
  destruct t; [reflexivity|]. rewrite H1. cbn [andb]. auto.
Qed.

Lemma plain_app : forall decl a b, plain decl (a ++ b) -> plain decl a /\ plain decl b.
Proof. intros. apply Forall_app. exact H. Qed.

Lemma s_epoch_after : forall p vals s, s_epoch (snd (s_run p s vals)) = s_epoch s + Z.of_nat (List.length vals).
Proof.
  induction vals as [|v t IH]; intros s; [cbn; lia|].
  rewrite s_run_cons. cbn [snd]. rewrite IH. unfold s_step. cbn [snd s_epoch List.length]. lia.
Qed.

(* last epoch of an uninterrupted run during which early stopping had not fired before *)
Lemma last_epoch_follows : forall rnd rd p decl dflt steps x,
  wf p -> plain decl (steps ++ [x]) -> es_quiet p (s_init p dflt) (map s_val steps) = true ->
  let s := s_after p dflt (map s_val steps) in
  let c := fst (s_step p s (s_val x)) in
  let s' := snd (s_step p s (s_val x)) in
  exists info,
    fst (run rnd rd p decl dflt (init_state p dflt) (steps ++ [x]))
    = fst (run rnd rd p decl dflt (init_state p dflt) steps) ++ [OOk c c (s_rate s') info] /\
    r_lr info = Some (s_rate s') /\
    opt (snd (run rnd rd p decl dflt (init_state p dflt) (steps ++ [x]))) = s_rate s'.
Proof.
  intros rnd rd p decl dflt steps x Hwf Hpl Hq s c s'.
  destruct (plain_app _ _ _ Hpl) as [Hpa Hpb].
  assert (Hlt0 : bad (s_es (s_init p dflt)) < es_pat p) by (destruct Hwf as (_ & ? & _); cbn; lia).
  destruct (run_follows rnd rd p decl dflt steps _ _ Hwf (Inv_init p dflt Hwf) Hlt0 Hpa (es_quiet_before _ _ _ Hq)) as [_ HI].
  fold (s_after p dflt (map s_val steps)) in HI. fold s in HI.
  assert (Hlt : bad (s_es s) < es_pat p).
  { clear - Hwf Hq Hlt0. unfold s, s_after. revert Hq Hlt0. generalize (s_init p dflt).
    induction (map s_val steps) as [|v t IH]; intros s0 Hq Hlt0; [exact Hlt0|].
    rewrite s_run_cons. cbn [snd]. cbn [es_quiet] in Hq. apply andb_prop in Hq. destruct Hq as [H1 H2].
    apply negb_true_iff in H1. apply IH; auto.
    (* bad stays below patience while not fired *)
    assert (Hb0 : 0 <= bad (s_es s0) \/ bad (s_es s0) < 0) by lia.
    destruct Hb0 as [Hb0|Hb0].
    - apply not_fired_lt; auto.
    - destruct Hwf as (W1 & W2 & _). unfold s_step. cbn [snd s_es]. unfold rule_step.
      destruct (0 <? wait (s_es s0)); cbn [bad]; try lia. destruct (fails (ref (s_es s0)) v (es_thr p)); cbn [bad]; lia. }
  inversion Hpb as [|? ? (Hr & Hck & (u & Hcol)) _]; subst.
  destruct (update_follows rnd p decl dflt _ s (s_train x) (s_val x) (s_kw x) u Hwf HI Hlt Hck Hcol)
    as (info & Hupd & Hlr & _ & _ & _ & _ & _ & Hct).
  exists info. rewrite run_app. cbn [fst snd]. rewrite (run_cons_ok _ _ _ _ _ _ _ _ _ _ Hr Hupd).
  cbn [run fst snd]. rewrite Hct. cbn [cache opt]. rewrite last_epoch_snoc, hget_new.
  fold c s'. repeat split; auto.
Qed.

Lemma s_after_epoch : forall p dflt vals, s_epoch (s_after p dflt vals) = Z.of_nat (List.length vals).
Proof. intros. unfold s_after. rewrite s_epoch_after. cbn. lia. Qed.

(* "stops exactly when the epoch budget is reached or, with early stopping enabled, when for the
   configured number of consecutive post-burn-in epochs ..." *)
Lemma stop_iff_rule : forall rnd rd p decl dflt steps x,
  wf p -> plain decl (steps ++ [x]) -> es_quiet p (s_init p dflt) (map s_val steps) = true ->
  let s := s_after p dflt (map s_val steps) in
  exists c ct o info,
    fst (run rnd rd p decl dflt (init_state p dflt) (steps ++ [x]))
    = fst (run rnd rd p decl dflt (init_state p dflt) steps) ++ [OOk c ct o info] /\ ct = c /\
    (c = false <->
     (exists n, p_num p = Some n /\ n <= Z.of_nat (List.length steps) + 1) \/
     (0 < es_thr p /\ bad (rule_step (s_es s) (es_thr p) (s_val x)) = es_pat p)).
Proof.
  intros rnd rd p decl dflt steps x Hwf Hpl Hq s.
  destruct (last_epoch_follows rnd rd p decl dflt steps x Hwf Hpl Hq) as (info & Hrun & _).
  fold s in Hrun. eexists _, _, _, info. split; [exact Hrun|]. split; [reflexivity|].
  unfold s_step. cbn [fst]. unfold es_fired. cbn [s_es].
  unfold s. rewrite s_after_epoch, map_length. fold s.
  rewrite negb_false_iff, orb_true_iff, andb_true_iff, Z.ltb_lt, Z.eqb_eq.
  split.
  - intros [H|H]; [left|right; exact H]. destruct (p_num p) as [n|]; [|discriminate].
    exists n. split; auto. apply Z.leb_le. exact H.
  - intros [(n & -> & H)|H]; [left|right; exact H]. apply Z.leb_le. exact H.
Qed.

(* "multiplies the learning rate by the factor exactly when the analogous reduction criterion fires
   outside cool-down (and the change is not negligible), never otherwise, and writes the new rate
   into the optimizer" *)
Lemma lr_changes_iff_rule : forall rnd rd p decl dflt steps x,
  wf p -> plain decl (steps ++ [x]) -> es_quiet p (s_init p dflt) (map s_val steps) = true ->
  let s := s_after p dflt (map s_val steps) in
  let old := s_rate s in
  let fire := bad (rule_step (s_rl s) (rlr_thr p) (s_val x)) =? rlr_pat p in
  let new := if fire && Qlt_b (rlr_eps p) (old - Qred (old * rlr_fac p)) then Qred (old * rlr_fac p) else old in
  exists c ct info,
    fst (run rnd rd p decl dflt (init_state p dflt) (steps ++ [x]))
    = fst (run rnd rd p decl dflt (init_state p dflt) steps) ++ [OOk c ct new info] /\
    r_lr info = Some new /\
    opt (snd (run rnd rd p decl dflt (init_state p dflt) (steps ++ [x]))) = new.
Proof.
  intros rnd rd p decl dflt steps x Hwf Hpl Hq s old fire new.
  destruct (last_epoch_follows rnd rd p decl dflt steps x Hwf Hpl Hq) as (info & Hrun & Hlr & Hopt).
  fold s in Hrun, Hlr, Hopt. eexists _, _, info. split; [exact Hrun|]. split; [exact Hlr|exact Hopt].
Qed.
