#!/venv/bin/python
"""py2coq: fail-closed translator from a small subset of Python (`ast`) to MiniPy terms (Gallina).

    translate.py --repo /repo --out /verif/coq/theories/Gen        (all units of UNITS)

Every Python construct is mapped node for node to the constructor of PV.MiniPy.Syntax with the same
meaning; a construct without a counterpart raises Unsupported and NO definition is emitted for that
function (the Tie file that mentions it then fails to compile, which the check reports as a broken
proof obligation).  The meaning of the emitted terms is PV.MiniPy.Interp; nothing is simplified here.

Soundness restriction of the interpreter's value semantics (see Interp.v): a function is rejected when
a name that aliases part of another object (`x = y`, `x = d[k]`, `x = self.a`) is later mutated
through (`x[k] = ..`, `x.append(..)`), or when an object is mutated two levels below a root that has
been aliased.  The one idiom that needs references, `for g in <place>: g[k] = v`, is translated to a
loop that writes each element back (SForRef is expressed with SFor + an index store).
"""
import argparse
import ast
import hashlib
import os
import sys
import textwrap
from fractions import Fraction
from pathlib import Path


class Unsupported(Exception):
    pass


def cstr(s):
    if any(ord(ch) > 126 or ord(ch) < 32 for ch in s):
        s = "".join(ch if 32 <= ord(ch) <= 126 else "?" for ch in s)
    return '"' + s.replace('"', '""') + '"'


def clist(items):
    return "[" + "; ".join(items) + "]"


BINOPS = {ast.Add: "Add", ast.Sub: "Sub", ast.Mult: "Mul", ast.FloorDiv: "FloorDiv", ast.Mod: "Mod",
          ast.Pow: "Pow", ast.BitAnd: "BitAnd", ast.BitOr: "BitOr", ast.Div: "Div"}
CMPOPS = {ast.Eq: "Eq", ast.NotEq: "NotEq", ast.Lt: "Lt", ast.LtE: "LtE", ast.Gt: "Gt", ast.GtE: "GtE",
          ast.In: "In", ast.NotIn: "NotIn", ast.Is: "Is", ast.IsNot: "IsNot"}
MUTATING_METHODS = {"append", "add", "setdefault", "pop", "update", "extend", "remove", "clear", "insert"}
# calls whose value is a message only (never influences control flow or state): arguments are still evaluated
IGNORED_STATEMENT_CALLS = {"warnings.warn"}


def dotted(node):
    """a.b.c (Names/Attributes only) -> ['a','b','c'] or None"""
    parts = []
    while isinstance(node, ast.Attribute):
        parts.append(node.attr)
        node = node.value
    if isinstance(node, ast.Name):
        parts.append(node.id)
        return list(reversed(parts))
    return None


def root_name(node):
    while isinstance(node, (ast.Attribute, ast.Subscript)):
        node = node.value
    return node.id if isinstance(node, ast.Name) else None


def depth(node):
    d = 0
    while isinstance(node, (ast.Attribute, ast.Subscript)):
        d += 1
        node = node.value
    return d


# exception classes a typed handler may name: for these, "the handler catches exactly the exceptions of that name" is what
# Python does with the exceptions MiniPy raises itself (none of them is a subclass of another one in this list); "Exception" /
# "BaseException" catch everything (Interp.exc_matches).  A class raised by name in the source that SUBCLASSES one of these
# (user-defined, UnicodeError < ValueError, ...) is outside what the name-based semantics knows.
HANDLER_CLASSES = {"ValueError", "KeyError", "IndexError", "TypeError", "ZeroDivisionError", "AttributeError",
                   "AssertionError", "Exception", "BaseException"}


def own_continue(body):
    """does the statement list contain a `continue` that belongs to the loop whose body it is (not to an inner loop) ?"""
    for s in body:
        if isinstance(s, ast.Continue):
            return True
        if isinstance(s, (ast.For, ast.While, ast.AsyncFor, ast.FunctionDef, ast.AsyncFunctionDef, ast.ClassDef)):
            if isinstance(s, (ast.For, ast.While, ast.AsyncFor)) and own_continue(s.orelse):
                return True
            continue
        for field in ("body", "orelse", "finalbody"):
            if own_continue(getattr(s, field, []) or []):
                return True
        for h in getattr(s, "handlers", []) or []:
            if own_continue(h.body):
                return True
    return False


class FunctionTranslator:
    def __init__(self, fn, where, scope=None, options=None):
        """scope: the statements that are going to be translated when only a marked block of the function is (the scan for
        constructs without a counterpart then looks at these statements only; names and aliasing are still those of the
        whole function).  options: the unit's "options" (see UNIT_OPTIONS); absent = the historical rendering"""
        self.fn = fn
        self.where = where
        self.options = options or {}
        a = fn.args
        if a.vararg or a.posonlyargs:
            raise Unsupported(f"{where}: *args / positional-only parameters")
        self.params = [x.arg for x in a.args] + [x.arg for x in a.kwonlyargs]
        self.kwargs_name = a.kwarg.arg if a.kwarg else None
        self.locals = set(self.params) | ({self.kwargs_name} if self.kwargs_name else set())
        for n in ast.walk(fn):
            if isinstance(n, ast.Name) and isinstance(n.ctx, (ast.Store, ast.Del)):
                self.locals.add(n.id)
        for top in ([fn] if scope is None else scope):
            for n in ast.walk(top):
                if isinstance(n, (ast.FunctionDef, ast.AsyncFunctionDef, ast.ClassDef)) and n is not fn:
                    if isinstance(n, ast.FunctionDef) and self.plain_local_function(n):
                        continue     # `def helper(..)` without captured locals: see stmt(); its calls go to [ext]
                    raise Unsupported(f"{where}: nested function / class at line {n.lineno}")
                # (ast.With: one item `with e as name` is SWith, anything else is rejected by stmt())
                if isinstance(n, (ast.While, ast.AsyncWith, ast.AsyncFor, ast.Global, ast.Nonlocal, ast.Await,
                                  ast.SetComp, ast.DictComp, ast.NamedExpr,
                                  ast.Import, ast.ImportFrom, ast.Match, ast.YieldFrom)):
                    raise Unsupported(f"{where}: {type(n).__name__} at line {getattr(n, 'lineno', '?')}")
        # generator expressions: only as THE argument of a builtin that consumes it on the spot (see genexp())
        self.ok_genexps = self.consumed_genexps(fn)
        for top in ([fn] if scope is None else scope):
            for n in ast.walk(top):
                if isinstance(n, ast.GeneratorExp) and id(n) not in self.ok_genexps and id(n) not in self.lazy_genexps(fn):
                    raise Unsupported(f"{where}: GeneratorExp at line {getattr(n, 'lineno', '?')}")
        self.check_aliasing()
        self.tmp = 0
        self.loop_depth = 0      # number of enclosing SForC loops (a `continue` is only translated inside one)

    # -- generator expressions ------------------------------------------------------------
    # f(elt for x in it if c) with f one of these builtins: the generator object is created and consumed by f before
    # anything else can look at it, so it is rendered as the LIST of its items, tagged for the unit's [ext]:
    #   ECall "$genexp" [EListComp elt x names it c] []        ("$genexp" [l] = l: the items the generator produces)
    # Eager and lazy evaluation of the items differ only (a) when the consumer stops early - all / any: their item and
    # condition must then be a test over names and constants, which neither raises nor has an effect - or (b) when both an
    # item's evaluation and the consumer's own work on an EARLIER item would raise (which exception comes first).
    GENEXP_CONSUMERS = {"all", "any", "sum", "max", "min", "sorted", "list", "tuple", "set", "dict"}

    def consumed_genexps(self, fn):
        ok = set()
        for n in ast.walk(fn):
            if isinstance(n, ast.Call) and isinstance(n.func, ast.Name) and n.func.id in self.GENEXP_CONSUMERS \
                    and n.func.id not in self.locals and len(n.args) == 1 and isinstance(n.args[0], ast.GeneratorExp) \
                    and not n.keywords:
                g = n.args[0]
                if n.func.id in ("all", "any") and not all(
                        self.simple_test(t) for t in [g.elt] + [c for gen in g.generators for c in gen.ifs]):
                    continue
                ok.add(id(g))
        return ok

    def lazy_genexps(self, fn):
        """all(elt for x in it if c) / any(..) whose item is NOT a simple test (it may raise: a format, a subscript): eager
        evaluation would not be Python's, so the call is rendered node for node as EGenCall, whose interpreter clause
        consumes the generator lazily and stops at the first deciding item (Interp.gen_step) -> ids of these generators"""
        out = set()
        for n in ast.walk(fn):
            if isinstance(n, ast.Call) and isinstance(n.func, ast.Name) and n.func.id in ("all", "any") \
                    and n.func.id not in self.locals and len(n.args) == 1 and isinstance(n.args[0], ast.GeneratorExp) \
                    and not n.keywords and id(n.args[0]) not in self.ok_genexps:
                out.add(id(n.args[0]))
        return out

    def lazy_call(self, e):
        """the EGenCall rendering of a call accepted by lazy_genexps"""
        g0 = e.args[0]
        if len(g0.generators) != 1 or g0.generators[0].is_async or len(g0.generators[0].ifs) > 1:
            raise Unsupported(f"{self.where}: generator with several generators / conditions at line {e.lineno}")
        g = g0.generators[0]
        if isinstance(g.target, ast.Name):
            x, names = g.target.id, []
        elif isinstance(g.target, ast.Tuple) and all(isinstance(el, ast.Name) for el in g.target.elts):
            x, names = self.fresh(), [el.id for el in g.target.elts]
        else:
            raise Unsupported(f"{self.where}: generator target at line {e.lineno}")
        cond = self.expr(g.ifs[0]) if g.ifs else "(EConst (VBool true))"
        return (f"(EGenCall {cstr(e.func.id)} {self.expr(g0.elt)} {cstr(x)} {clist([cstr(n) for n in names])} "
                f"{self.expr(g.iter)} {cond})")

    def plain_local_function(self, n):
        """`def helper(params): ...` nested in the translated function, usable as a call target given meaning by the unit's
        [ext] (like a method of self): no decorators / defaults / *args, its name is bound nowhere else and used only as the
        function of a call, and it reads no local of the enclosing function (no closure capture: the call depends on its
        arguments only).  The unit translates the helper itself as a function of its own ("outer.helper")."""
        a = n.args
        if n.decorator_list or a.defaults or a.kw_defaults or a.vararg or a.kwarg or a.posonlyargs or a.kwonlyargs:
            return False
        own = {x.arg for x in a.args}
        for m in ast.walk(n):
            if isinstance(m, ast.Name) and isinstance(m.ctx, (ast.Store, ast.Del)):
                own.add(m.id)
            if isinstance(m, (ast.FunctionDef, ast.AsyncFunctionDef, ast.ClassDef, ast.Lambda, ast.Global, ast.Nonlocal)) \
                    and m is not n:
                return False
        enclosing = set(self.params) | ({self.kwargs_name} if self.kwargs_name else set())
        inner = {id(m) for m in ast.walk(n)}
        for m in ast.walk(self.fn):
            if isinstance(m, ast.Name) and isinstance(m.ctx, (ast.Store, ast.Del)) and id(m) not in inner:
                enclosing.add(m.id)
        for m in ast.walk(n):
            if isinstance(m, ast.Name) and isinstance(m.ctx, ast.Load) and m.id not in own and m.id in enclosing:
                return False     # reads a variable of the enclosing function
        if n.name in enclosing or n.name in own:
            return False
        calls = {id(c.func) for c in ast.walk(self.fn) if isinstance(c, ast.Call)}
        for m in ast.walk(self.fn):
            if isinstance(m, ast.Name) and m.id == n.name and id(m) not in calls:
                return False     # the function is used as a value
            if isinstance(m, (ast.FunctionDef, ast.AsyncFunctionDef, ast.ClassDef)) and m is not n and m is not self.fn \
                    and m.name == n.name:
                return False
        return True

    @staticmethod
    def simple_test(node):
        """a test built from names, constants, comparisons, not / and / or: evaluating it neither raises nor has an effect
        (in the subset: an unbound name is Stuck, a comparison the subset has no answer for goes to [ext])"""
        return all(isinstance(n, (ast.Name, ast.Constant, ast.Compare, ast.BoolOp, ast.UnaryOp, ast.Not, ast.And, ast.Or,
                                  ast.cmpop, ast.Load)) for n in ast.walk(node))

    def alias_reaches_mutation(self, x):
        """flow refinement of the aliasing restriction: can a statement that binds the name x to (part of) another object
        be followed, on some path, by a statement that mutates through x ?  Not when, for every such pair (B, M), M stands
        before B in a common statement list or the two stand in different branches of one `if`, and no loop encloses both
        (a later iteration would bring M after B).  Everything else counts as reaching."""
        pos = {}

        def walk(owner, field, stmts, prefix):
            for i, s in enumerate(stmts):
                p = prefix + [(owner, field, i)]
                pos[id(s)] = p
                for fld in ("body", "orelse", "finalbody"):
                    sub = getattr(s, fld, None)
                    if isinstance(sub, list) and sub and isinstance(sub[0], ast.stmt):
                        walk(s, fld, sub, p)
                for hi, h in enumerate(getattr(s, "handlers", []) or []):
                    walk(s, "handler%d" % hi, h.body, p)
        walk(self.fn, "body", self.fn.body, [])
        binds, muts = [], []
        for n in ast.walk(self.fn):
            if isinstance(n, ast.Assign) and any(isinstance(t, ast.Name) and t.id == x for t in n.targets):
                v = n.value
                if isinstance(v, (ast.Name, ast.Attribute, ast.Subscript)) or (
                        isinstance(v, ast.Call) and isinstance(v.func, ast.Attribute) and v.func.attr in ("setdefault", "get")):
                    binds.append(n)
            ts = n.targets if isinstance(n, (ast.Assign, ast.Delete)) else \
                [n.target] if isinstance(n, (ast.AugAssign, ast.AnnAssign)) else []
            if any(isinstance(t, (ast.Attribute, ast.Subscript)) and root_name(t) == x for t in ts):
                muts.append(n)
            if isinstance(n, ast.Expr) and isinstance(n.value, ast.Call) and isinstance(n.value.func, ast.Attribute) \
                    and n.value.func.attr in MUTATING_METHODS and root_name(n.value.func.value) == x:
                muts.append(n)

        def reaches(b, m):
            pb, pm = pos.get(id(b)), pos.get(id(m))
            if pb is None or pm is None:
                return True
            for (ob, fb, ib), (om, fm, im) in zip(pb, pm):
                if isinstance(ob, (ast.For, ast.While, ast.AsyncFor)):
                    return True          # both inside one loop
                if fb != fm:
                    return not isinstance(ob, ast.If)     # the two branches of an `if` exclude each other
                if ib != im:
                    return ib < im
            return True                  # one statement contains the other
        return any(reaches(b, m) for b in binds for m in muts)

    # -- aliasing restriction -----------------------------------------------------------
    def check_aliasing(self):
        aliases = {}   # name -> root of the place it was bound to
        mutated = set()  # names mutated in place (through the name)
        deep = set()     # roots mutated two or more levels down
        for n in ast.walk(self.fn):
            if isinstance(n, ast.Assign) and isinstance(n.value, (ast.Name, ast.Attribute, ast.Subscript)):
                src = root_name(n.value)
                for t in n.targets:
                    if isinstance(t, ast.Name) and src is not None:
                        aliases[t.id] = src
            if isinstance(n, ast.Assign) and isinstance(n.value, ast.Call) and isinstance(n.value.func, ast.Attribute) \
                    and n.value.func.attr in ("setdefault", "get") and root_name(n.value.func.value) in self.locals:
                for t in n.targets:
                    if isinstance(t, ast.Name):
                        aliases[t.id] = root_name(n.value.func.value)
            targets = []
            if isinstance(n, ast.Assign):
                targets = n.targets
            elif isinstance(n, (ast.AugAssign, ast.AnnAssign)):
                targets = [n.target]
            elif isinstance(n, ast.Delete):
                targets = n.targets
            for t in targets:
                if isinstance(t, (ast.Attribute, ast.Subscript)):
                    r = root_name(t)
                    if r is not None:
                        mutated.add(r)
                        if depth(t) >= 2:
                            deep.add(r)
            if isinstance(n, ast.Expr) and isinstance(n.value, ast.Call) and isinstance(n.value.func, ast.Attribute) \
                    and n.value.func.attr in MUTATING_METHODS:
                r = root_name(n.value.func.value)
                if r is not None and r in self.locals and r != "self":
                    mutated.add(r)
                    if depth(n.value.func.value) >= 1:
                        deep.add(r)
        loop_refs = self.ref_loops()
        place = {self.place_alias(n)[0] for n in ast.walk(self.fn) if self.place_alias(n) is not None}
        for x, src in aliases.items():
            if x in place:
                continue     # rendered as the place d[k] itself (see seq)
            if x in mutated and x not in loop_refs and self.alias_reaches_mutation(x):
                raise Unsupported(f"{self.where}: '{x}' aliases part of '{src}' and is mutated in place")
            if src in deep and src != "self":
                raise Unsupported(f"{self.where}: '{src}' is mutated below an alias held by '{x}'")

    def ref_loops(self):
        """loop variables that are mutated in the body of their `for` (written back element by element)"""
        out = set()
        for n in ast.walk(self.fn):
            if isinstance(n, ast.For) and isinstance(n.target, ast.Name):
                if self.mutates(n.body, n.target.id):
                    out.add(n.target.id)
        return out

    @staticmethod
    def mutates(body, name):
        for s in body:
            for n in ast.walk(s):
                ts = n.targets if isinstance(n, (ast.Assign, ast.Delete)) else \
                    [n.target] if isinstance(n, (ast.AugAssign, ast.AnnAssign)) else []
                for t in ts:
                    if isinstance(t, (ast.Attribute, ast.Subscript)) and root_name(t) == name:
                        return True
                if isinstance(n, ast.Call) and isinstance(n.func, ast.Attribute) and n.func.attr in MUTATING_METHODS \
                        and root_name(n.func.value) == name:
                    return True
        return False

    # -- expressions ------------------------------------------------------------------
    def const(self, v, node):
        if v is None:
            return "(EConst VNone)"
        if v is True or v is False:
            return f"(EConst (VBool {'true' if v else 'false'}))"
        if isinstance(v, int):
            return f"(EConst (VInt ({v})%Z))"
        if isinstance(v, float):
            if v != v or v in (float("inf"), float("-inf")):
                return f"(ECall {cstr('float')} [EConst (VStr {cstr(repr(v))})] [])"
            f = Fraction(v)
            return f"(EConst (VQ ({f.numerator} # {f.denominator})%Q))"
        if isinstance(v, str):
            if self.options.get("exact_strings"):
                # unit option: the literal byte for byte (printable ASCII and the line break, which a Coq string literal
                # holds as it is); cstr() prints every other character as "?" - a unit that looks at the text of its
                # literals cannot use that
                if any(not (32 <= ord(ch) <= 126 or ch == "\n") for ch in v):
                    raise Unsupported(f"{self.where}: string literal outside printable ASCII at line {node.lineno}")
                return '(EConst (VStr "' + v.replace('"', '""') + '"))'
            return f"(EConst (VStr {cstr(v)}))"
        if v is Ellipsis:
            return f"(ECall {cstr('$ellipsis')} [] [])"   # the constant `...` (a tagged value, see Interp.builtin)
        raise Unsupported(f"{self.where}: constant {v!r} at line {node.lineno}")

    def expr(self, e):
        if isinstance(e, ast.Constant):
            return self.const(e.value, e)
        if isinstance(e, ast.Name):
            return f"(EName {cstr(e.id)})"
        if isinstance(e, ast.Attribute):
            return f"(EAttr {self.expr(e.value)} {cstr(e.attr)})"
        if isinstance(e, ast.Subscript):
            return f"(ESub {self.expr(e.value)} {self.expr(e.slice)})"
        if isinstance(e, ast.BinOp):
            if type(e.op) not in BINOPS:
                raise Unsupported(f"{self.where}: operator {type(e.op).__name__} at line {e.lineno}")
            return f"(EBin {BINOPS[type(e.op)]} {self.expr(e.left)} {self.expr(e.right)})"
        if isinstance(e, ast.UnaryOp):
            if isinstance(e.op, ast.Not):
                return f"(ENot {self.expr(e.operand)})"
            if isinstance(e.op, ast.USub):
                return f"(ENeg {self.expr(e.operand)})"
            if isinstance(e.op, ast.Invert):
                # ~x is by definition the call x.__invert__(): no counterpart in the subset's own values, so the
                # unit's [ext] is asked ("$invert", like "$ellipsis" / "$fstring"; not a builtin of Interp)
                return f"(ECall {cstr('$invert')} [{self.expr(e.operand)}] [])"
            raise Unsupported(f"{self.where}: unary {type(e.op).__name__} at line {e.lineno}")
        if isinstance(e, ast.BoolOp):
            con = "EAnd" if isinstance(e.op, ast.And) else "EOr"
            out = self.expr(e.values[-1])
            for v in reversed(e.values[:-1]):
                out = f"({con} {self.expr(v)} {out})"
            return out
        if isinstance(e, ast.Compare):
            if len(e.ops) != 1:
                # a op1 b op2 c  is by definition  (a op1 b) and (b op2 c)  with b evaluated once (language reference
                # 6.10): rendered as that EAnd chain when every middle operand is a plain name or constant (evaluating
                # it twice is then the same as once); anything else stays unsupported
                # (also: an attribute / item read chain over names and constants, `x.shape[0]`: such reads have no effect
                # in the subset and a unit's [ext] gives "$attr." / "$getitem" none, so twice is again the same as once)
                def read_only(m):
                    while isinstance(m, (ast.Attribute, ast.Subscript)):
                        if isinstance(m, ast.Subscript) and not isinstance(m.slice, (ast.Name, ast.Constant)):
                            return False
                        m = m.value
                    return isinstance(m, (ast.Name, ast.Constant))
                if not all(read_only(m) for m in e.comparators[:-1]):
                    raise Unsupported(f"{self.where}: chained comparison at line {e.lineno}")
                operands = [e.left] + list(e.comparators)
                parts = [f"(ECmp {CMPOPS[type(op)]} {self.expr(l)} {self.expr(r)})"
                         for op, l, r in zip(e.ops, operands[:-1], operands[1:])]
                out = parts[-1]
                for p_ in reversed(parts[:-1]):
                    out = f"(EAnd {p_} {out})"
                return out
            return f"(ECmp {CMPOPS[type(e.ops[0])]} {self.expr(e.left)} {self.expr(e.comparators[0])})"
        if isinstance(e, ast.IfExp):
            return f"(EIfExp {self.expr(e.test)} {self.expr(e.body)} {self.expr(e.orelse)})"
        if isinstance(e, ast.Call):
            return self.call(e)
        if isinstance(e, ast.Set):
            return f"(ESetLit {clist([self.expr(x) for x in e.elts])})"
        if isinstance(e, ast.List):
            return f"(EListLit {clist([self.expr(x) for x in e.elts])})"
        if isinstance(e, ast.Tuple):
            return f"(ETupleLit {clist([self.expr(x) for x in e.elts])})"
        if isinstance(e, ast.Dict):
            if any(k is None for k in e.keys):
                raise Unsupported(f"{self.where}: dict unpacking at line {e.lineno}")
            return "(EDictLit " + clist([f"({self.expr(k)}, {self.expr(v)})" for k, v in zip(e.keys, e.values)]) + ")"
        if isinstance(e, ast.Slice):
            # a:b:c inside a subscript is by definition the object slice(a, b, c), missing parts None
            none = "(EConst VNone)"
            parts = [self.expr(x) if x is not None else none for x in (e.lower, e.upper, e.step)]
            return f"(ECall {cstr('slice')} {clist(parts)} [])"
        if isinstance(e, ast.ListComp):
            # [elt for x in it if c] -> EListComp elt x [] it c ; a tuple target `for a, b in it` -> x = a fresh temporary,
            # names = [a; b] (unpacked by Interp.bind_item).  One generator, at most one `if` (node for node).
            if len(e.generators) != 1 or e.generators[0].is_async or len(e.generators[0].ifs) > 1:
                raise Unsupported(f"{self.where}: comprehension with several generators / conditions at line {e.lineno}")
            g = e.generators[0]
            if isinstance(g.target, ast.Name):
                x, names = g.target.id, []
            elif isinstance(g.target, ast.Tuple) and all(isinstance(el, ast.Name) for el in g.target.elts):
                x, names = self.fresh(), [el.id for el in g.target.elts]
            else:
                raise Unsupported(f"{self.where}: comprehension target at line {e.lineno}")
            cond = self.expr(g.ifs[0]) if g.ifs else "(EConst (VBool true))"
            return (f"(EListComp {self.expr(e.elt)} {cstr(x)} {clist([cstr(n) for n in names])} "
                    f"{self.expr(g.iter)} {cond})")
        if isinstance(e, ast.GeneratorExp) and id(e) in self.ok_genexps:
            # the argument of all / sum / sorted / dict / ...: the list of the generator's items, tagged (see GENEXP_CONSUMERS)
            if len(e.generators) != 1 or e.generators[0].is_async or len(e.generators[0].ifs) > 1:
                raise Unsupported(f"{self.where}: generator with several generators / conditions at line {e.lineno}")
            g = e.generators[0]
            if isinstance(g.target, ast.Name):
                x, names = g.target.id, []
            elif isinstance(g.target, ast.Tuple) and all(isinstance(el, ast.Name) for el in g.target.elts):
                x, names = self.fresh(), [el.id for el in g.target.elts]
            else:
                raise Unsupported(f"{self.where}: generator target at line {e.lineno}")
            cond = self.expr(g.ifs[0]) if g.ifs else "(EConst (VBool true))"
            return (f"(ECall {cstr('$genexp')} [(EListComp {self.expr(e.elt)} {cstr(x)} {clist([cstr(n) for n in names])} "
                    f"{self.expr(g.iter)} {cond})] [])")
        if isinstance(e, ast.JoinedStr) and self.options.get("fstring_parts"):
            # unit option: the f-string node for node.  JoinedStr(values) -> ECall "$fstr" [part; ...] (the concatenation
            # of its parts); a literal part is its constant; FormattedValue(value, conversion, format_spec) ->
            # ECall "$format" [value; conversion (-1: none, 115 / 114 / 97: !s !r !a); spec] with spec the format_spec's own
            # "$fstr" (None when absent): the value is formatted as soon as it and its spec have been evaluated, before the
            # next part is looked at - Python's order
            parts = []
            for v in e.values:
                if isinstance(v, ast.Constant) and isinstance(v.value, str):
                    parts.append(self.const(v.value, v))
                elif isinstance(v, ast.FormattedValue):
                    spec = self.expr(v.format_spec) if v.format_spec is not None else "(EConst VNone)"
                    parts.append(f"(ECall {cstr('$format')} [{self.expr(v.value)}; (EConst (VInt ({v.conversion})%Z)); "
                                 f"{spec}] [])")
                else:
                    raise Unsupported(f"{self.where}: f-string part {type(v).__name__} at line {e.lineno}")
            return f"(ECall {cstr('$fstr')} {clist(parts)} [])"
        if isinstance(e, ast.JoinedStr):
            parts = [self.expr(v.value) for v in e.values if isinstance(v, ast.FormattedValue)]
            return f"(ECall {cstr('$fstring')} {clist(parts)} [])"
        raise Unsupported(f"{self.where}: expression {type(e).__name__} at line {getattr(e, 'lineno', '?')}")

    def call(self, e):
        if any(k.arg is None for k in e.keywords):
            raise Unsupported(f"{self.where}: **kwargs in a call at line {e.lineno}")
        f = e.func
        if isinstance(f, ast.Name) and f.id == "sorted" and "sorted" not in self.locals:
            # sorted(e) / sorted(e, key=lambda x: k)  ->  ESorted e x k   (node for node; the lambda is not a value)
            if len(e.args) == 1 and isinstance(e.args[0], ast.Name) and e.args[0].id in self.locals \
                    and sorted(k.arg for k in e.keywords) == ["key", "reverse"]:
                # sorted(s, key=lambda x: k, reverse=r) with s a plain local name: ESorted has no `reverse`; the unit's
                # [ext] is asked, by the protocol ESorted itself uses for keys outside the subset's numbers:
                #   "$sorted" [keys; items] + the keyword reverse=r, the keys being [k for x in s] (x local to the
                #   comprehension, as the lambda's parameter is; s is a name, so reading it twice is reading it once)
                lam = [k.value for k in e.keywords if k.arg == "key"][0]
                rev = [k.value for k in e.keywords if k.arg == "reverse"][0]
                if not (isinstance(lam, ast.Lambda) and len(lam.args.args) == 1 and not lam.args.defaults
                        and not lam.args.vararg and not lam.args.kwarg and not lam.args.kwonlyargs):
                    raise Unsupported(f"{self.where}: sorted() key is not a one-argument lambda at line {e.lineno}")
                s_ = self.expr(e.args[0])
                keys = (f"(EListComp {self.expr(lam.body)} {cstr(lam.args.args[0].arg)} [] {s_} "
                        f"(EConst (VBool true)))")
                return f"(ECall {cstr('$sorted')} [{keys}; {s_}] [({cstr('reverse')}, {self.expr(rev)})])"
            if len(e.args) != 1 or isinstance(e.args[0], ast.Starred) or any(k.arg != "key" for k in e.keywords):
                raise Unsupported(f"{self.where}: sorted() with these arguments at line {e.lineno}")
            if not e.keywords:
                return f"(ESorted {self.expr(e.args[0])} {cstr('$k')} (EName {cstr('$k')}))"
            lam = e.keywords[0].value
            if not (isinstance(lam, ast.Lambda) and len(lam.args.args) == 1 and not lam.args.defaults
                    and not lam.args.vararg and not lam.args.kwarg and not lam.args.kwonlyargs):
                raise Unsupported(f"{self.where}: sorted() key is not a one-argument lambda at line {e.lineno}")
            return f"(ESorted {self.expr(e.args[0])} {cstr(lam.args.args[0].arg)} {self.expr(lam.body)})"
        if len(e.args) == 1 and isinstance(e.args[0], ast.GeneratorExp) and id(e.args[0]) in self.lazy_genexps(self.fn):
            return self.lazy_call(e)      # all(..) / any(..) over items that may raise: EGenCall (lazy, stops early)
        # f(*x): node for node EStar (spliced by Interp's argument evaluation); a Starred anywhere else has no
        # case in expr() and is rejected there
        args = clist([f"(EStar {self.expr(a.value)})" if isinstance(a, ast.Starred) else self.expr(a) for a in e.args])
        kw = clist([f"({cstr(k.arg)}, {self.expr(k.value)})" for k in e.keywords])
        f = e.func
        if isinstance(f, ast.Name):
            if f.id in self.locals:
                raise Unsupported(f"{self.where}: call of a local value '{f.id}' at line {e.lineno}")
            return f"(ECall {cstr(f.id)} {args} {kw})"
        if isinstance(f, ast.Attribute):
            d = dotted(f)
            if d is not None and (d[0] == "self" or d[0] not in self.locals):
                # method of self / function of a module: given meaning by the unit's [ext]
                return f"(ECall {cstr('.'.join(d))} {args} {kw})"
            # method of a local value
            return f"(EMeth {self.expr(f.value)} {cstr(f.attr)} {args} {kw})"
        raise Unsupported(f"{self.where}: call of a computed function at line {e.lineno}")

    # -- statements ----------------------------------------------------------------------
    def target(self, t):
        if isinstance(t, ast.Name):
            return f"(TName {cstr(t.id)})"
        if isinstance(t, ast.Attribute):
            return f"(TAttr {self.expr(t.value)} {cstr(t.attr)})"
        if isinstance(t, ast.Subscript):
            return f"(TSub {self.expr(t.value)} {self.expr(t.slice)})"
        raise Unsupported(f"{self.where}: assignment target {type(t).__name__} at line {t.lineno}")

    def place_alias(self, s):
        """x = d.setdefault(k, default) with d, k plain local names -> (x, d, k, default) else None"""
        if isinstance(s, ast.Assign) and len(s.targets) == 1 and isinstance(s.targets[0], ast.Name) \
                and isinstance(s.value, ast.Call) and isinstance(s.value.func, ast.Attribute) \
                and s.value.func.attr == "setdefault" and isinstance(s.value.func.value, ast.Name) \
                and len(s.value.args) == 2 and not s.value.keywords and isinstance(s.value.args[0], ast.Name) \
                and s.value.func.value.id in self.locals and s.value.args[0].id in self.locals:
            return s.targets[0].id, s.value.func.value.id, s.value.args[0].id, s.value.args[1]
        return None

    def seq(self, stmts):
        for i, s in enumerate(stmts):
            al = self.place_alias(s)
            if al is not None:
                # The object bound to x IS the element d[k].  Python's reference semantics are rendered by reading and
                # writing x as the place d[k] for the rest of the block.  Side conditions (else Unsupported): x has no other
                # binding in the function; d and k are not rebound in the rest of the block; once `del d[...]` has been
                # executed x is not used again in the block (the deleted object would live on only through x); the block
                # is the body of the function or of a loop, so nothing after it can see x.
                x, d, k, dflt = al
                rest = stmts[i + 1:]
                binds = [n for n in ast.walk(self.fn) if isinstance(n, ast.Name) and n.id == x
                         and isinstance(n.ctx, (ast.Store, ast.Del))]
                # other bindings of x: only as the target of a `for` whose body contains every other use of x
                rebound_in = set()
                for fo in ast.walk(self.fn):
                    if isinstance(fo, ast.For) and any(isinstance(t, ast.Name) and t.id == x for t in ast.walk(fo.target)):
                        for b in fo.body:
                            rebound_in.update(id(n) for n in ast.walk(b))
                        rebound_in.update(id(n) for n in ast.walk(fo.target))
                if any(b is not s.targets[0] and id(b) not in rebound_in for b in binds):
                    raise Unsupported(f"{self.where}: place alias '{x}' is bound more than once")
                order = []

                def visit(n):
                    order.append(n)
                    for ch in ast.iter_child_nodes(n):
                        visit(ch)
                for r in rest:
                    visit(r)
                for n in order:
                    if isinstance(n, ast.Name) and n.id in (d, k) and isinstance(n.ctx, (ast.Store, ast.Del)):
                        raise Unsupported(f"{self.where}: '{n.id}' rebound while '{x}' aliases {d}[{k}]")

                def uses(node):
                    return any(isinstance(n, ast.Name) and n.id == x for n in ast.walk(node))

                def flow(block, deleted):
                    """path-sensitive: may `del d[...]` have run before a use of x ?  -> deleted-after flag"""
                    for st in block:
                        if isinstance(st, ast.If):
                            if deleted and uses(st.test):
                                raise Unsupported(f"{self.where}: alias '{x}' used after del {d}[...]")
                            deleted = flow(st.body, deleted) | flow(st.orelse, deleted)
                        elif isinstance(st, (ast.For, ast.Try)):
                            inner = st.body + (st.orelse if isinstance(st, ast.For) else
                                               [h2 for h in st.handlers for h2 in h.body])
                            if deleted and isinstance(st, ast.For) and uses(st.iter):
                                raise Unsupported(f"{self.where}: alias '{x}' used after del {d}[...]")
                            deleted = flow(inner, flow(inner, deleted))
                        elif isinstance(st, ast.Delete) and any(root_name(t) == d for t in st.targets):
                            deleted = True
                        elif deleted and uses(st):
                            raise Unsupported(f"{self.where}: alias '{x}' used after del {d}[...]")
                    return deleted
                flow(rest, False)
                for n in ast.walk(self.fn):
                    if isinstance(n, ast.Name) and n.id == x and n not in order and n not in binds \
                            and id(n) not in rebound_in:
                        raise Unsupported(f"{self.where}: alias '{x}' used outside the block of its binding")

                class Sub(ast.NodeTransformer):
                    def visit_Name(self, node):
                        if node.id == x:
                            return ast.copy_location(ast.Subscript(value=ast.Name(id=d, ctx=ast.Load()),
                                                                   slice=ast.Name(id=k, ctx=ast.Load()), ctx=node.ctx), node)
                        return node
                import copy
                rest2 = [ast.fix_missing_locations(Sub().visit(copy.deepcopy(r))) for r in rest]
                call = ast.copy_location(ast.Expr(value=s.value), s)
                return self.seq(list(stmts[:i]) + [call] + rest2)
        out = [self.stmt(s) for s in stmts]
        out = [s for s in out if s != "SPass"] or ["SPass"]
        acc = out[-1]
        for s in reversed(out[:-1]):
            acc = f"(SSeq {s}\n {acc})"
        return acc

    def pure_message(self, node):
        """an expression used only as a warning / exception message: evaluated for nothing but its text"""
        for n in ast.walk(node):
            if isinstance(n, ast.Call):
                d = dotted(n.func) if isinstance(n.func, (ast.Attribute, ast.Name)) else None
                # x.item() (no arguments): the Python number held by a one-element tensor, read only for the text
                ok = (isinstance(n.func, ast.Attribute) and n.func.attr == "format") or \
                     (isinstance(n.func, ast.Attribute) and n.func.attr == "item" and not n.args and not n.keywords) or \
                     (isinstance(n.func, ast.Attribute) and n.func.attr == "size" and not n.keywords) or \
                     (isinstance(n.func, ast.Attribute) and n.func.attr in ("size", "dim") and not n.keywords and
                      all(isinstance(a, ast.Constant) for a in n.args)) or \
                     (d is not None and d[-1] in ("sorted", "str", "repr", "format", "len", "type"))
                if not ok:
                    return False
            elif not isinstance(n, (ast.Constant, ast.JoinedStr, ast.FormattedValue, ast.Name, ast.Attribute,
                                    ast.Subscript, ast.Slice, ast.BinOp, ast.Load, ast.Add, ast.Sub, ast.Mod, ast.Tuple, ast.keyword,
                                    ast.UnaryOp, ast.USub)):
                return False
        return True

    def stmt(self, s):
        if isinstance(s, ast.Pass):
            return "SPass"
        if isinstance(s, ast.Expr):
            v = s.value
            if isinstance(v, ast.Constant) and isinstance(v.value, str):
                return "SPass"  # docstring
            if isinstance(v, ast.Yield):
                return f"(SYield {self.expr(v.value) if v.value is not None else '(EConst VNone)'})"
            if isinstance(v, ast.Call):
                d = dotted(v.func)
                if d is not None and ".".join(d) in IGNORED_STATEMENT_CALLS:
                    if all(self.pure_message(a) for a in v.args) and all(self.pure_message(k.value) for k in v.keywords):
                        return "SPass"
                    raise Unsupported(f"{self.where}: warning with an impure message at line {s.lineno}")
                ch = self.setdefault_chain(v)
                if ch is not None:
                    return ch
                return f"(SExpr {self.expr(v)})"
            raise Unsupported(f"{self.where}: expression statement {type(v).__name__} at line {s.lineno}")
        if isinstance(s, ast.Assign):
            if any(isinstance(t, (ast.Tuple, ast.List)) for t in s.targets):
                if len(s.targets) != 1:
                    raise Unsupported(f"{self.where}: chained tuple assignment at line {s.lineno}")
                return self.unpack(s.targets[0], s.value)
            return f"(SAssign {clist([self.target(t) for t in s.targets])} {self.expr(s.value)})"
        if isinstance(s, ast.AnnAssign):
            if s.value is None:
                return "SPass"
            return f"(SAssign [{self.target(s.target)}] {self.expr(s.value)})"
        if isinstance(s, ast.AugAssign):
            if type(s.op) not in BINOPS:
                raise Unsupported(f"{self.where}: augmented operator at line {s.lineno}")
            return f"(SAug {self.target(s.target)} {BINOPS[type(s.op)]} {self.expr(s.value)})"
        if isinstance(s, ast.If):
            return f"(SIf {self.expr(s.test)}\n {self.seq(s.body)}\n {self.seq(s.orelse) if s.orelse else 'SPass'})"
        if isinstance(s, ast.For):
            if s.orelse:
                raise Unsupported(f"{self.where}: for-else at line {s.lineno}")
            return self.for_(s)
        if isinstance(s, ast.Raise):
            if s.exc is None:
                return "SReRaise"
            if s.cause is not None:
                raise Unsupported(f"{self.where}: raise ... from at line {s.lineno}")
            exc = s.exc
            if isinstance(exc, ast.Call):
                if not (all(self.pure_message(a) for a in exc.args) and not exc.keywords):
                    raise Unsupported(f"{self.where}: exception with impure arguments at line {s.lineno}")
                exc = exc.func
            if not isinstance(exc, ast.Name):
                raise Unsupported(f"{self.where}: raise of a computed exception at line {s.lineno}")
            return f"(SRaise {cstr(exc.id)})"
        if isinstance(s, ast.Return):
            return f"(SReturn {self.expr(s.value) if s.value is not None else '(EConst VNone)'})"
        if isinstance(s, ast.Assert):
            return f"(SAssert {self.expr(s.test)})"
        if isinstance(s, ast.Try):
            if s.orelse or s.finalbody or not s.handlers:
                raise Unsupported(f"{self.where}: try with else/finally at line {s.lineno}")
            if any(h.name is not None for h in s.handlers):
                raise Unsupported(f"{self.where}: except ... as name at line {s.lineno}")
            if len(s.handlers) == 1 and (s.handlers[0].type is None or (
                    isinstance(s.handlers[0].type, ast.Name) and s.handlers[0].type.id in ("Exception", "BaseException"))):
                if self.loop_depth and own_continue(s.body):
                    # STry catches whatever its body raises, the interpreter's "$continue" signal included
                    raise Unsupported(f"{self.where}: continue inside a catch-all try at line {s.lineno}")
                return f"(STry {self.seq(s.body)}\n {self.seq(s.handlers[0].body)})"
            # typed handlers: try: body / except A: h1 / except (B, C): h2  ->  STryExc body [([A], h1); ([B; C], h2)]
            hs = []
            for h in s.handlers:
                if h.type is None:
                    raise Unsupported(f"{self.where}: bare except next to typed handlers at line {s.lineno}")
                types = h.type.elts if isinstance(h.type, ast.Tuple) else [h.type]
                if not all(isinstance(t, ast.Name) and t.id in HANDLER_CLASSES for t in types):
                    raise Unsupported(f"{self.where}: handler for a class outside {sorted(HANDLER_CLASSES)} at line {s.lineno}")
                hs.append(f"({clist([cstr(t.id) for t in types])}, {self.seq(h.body)})")
            return f"(STryExc {self.seq(s.body)}\n {clist(hs)})"
        if isinstance(s, ast.Continue):
            if not self.loop_depth:
                raise Unsupported(f"{self.where}: continue outside a translated for loop at line {s.lineno}")
            return "SContinue"
        if isinstance(s, ast.With):
            # with e as x: body  ->  SWith e x body   (one item, bound to a plain name; the context manager protocol is the
            # unit's [ext]: "$enter" / "$exit", see Interp.exec)
            if len(s.items) != 1 or not isinstance(s.items[0].optional_vars, ast.Name):
                raise Unsupported(f"{self.where}: with statement without a single `as name` at line {s.lineno}")
            if self.loop_depth and own_continue(s.body):
                raise Unsupported(f"{self.where}: continue inside a with block at line {s.lineno}")
            return (f"(SWith {self.expr(s.items[0].context_expr)} {cstr(s.items[0].optional_vars.id)}\n"
                    f" {self.seq(s.body)})")
        if isinstance(s, ast.FunctionDef):
            # a local helper function that captures nothing (plain_local_function): the statement only binds its name, which
            # is used in call position only; those calls are ECall "<name>" and get their meaning from the unit's [ext]
            if not self.plain_local_function(s):
                raise Unsupported(f"{self.where}: nested function '{s.name}' at line {s.lineno}")
            return "SPass"
        if isinstance(s, ast.Delete):
            if len(s.targets) != 1:
                raise Unsupported(f"{self.where}: del with several targets at line {s.lineno}")
            return f"(SDel {self.target(s.targets[0])})"
        raise Unsupported(f"{self.where}: statement {type(s).__name__} at line {s.lineno}")

    def setdefault_chain(self, v):
        """the statement  d.setdefault(k, dflt).m(args)  with d a local name and k a local name or a constant: the object
        the method is applied to IS the element d[k] (reference semantics), rendered - like the place alias of seq() with an
        anonymous alias - as  d.setdefault(k, dflt); d[k].m(args)   (d and k are evaluated twice: names / constants)"""
        f = v.func
        if not (isinstance(f, ast.Attribute) and isinstance(f.value, ast.Call) and not v.keywords):
            return None
        inner = f.value
        if not (isinstance(inner.func, ast.Attribute) and inner.func.attr == "setdefault"
                and isinstance(inner.func.value, ast.Name) and inner.func.value.id in self.locals
                and len(inner.args) == 2 and not inner.keywords
                and (isinstance(inner.args[0], ast.Constant)
                     or (isinstance(inner.args[0], ast.Name) and inner.args[0].id in self.locals))
                and not any(isinstance(a, ast.Starred) for a in list(v.args) + list(inner.args))):
            return None
        d, k = self.expr(inner.func.value), self.expr(inner.args[0])
        first = f"(SExpr (EMeth {d} {cstr('setdefault')} {clist([k, self.expr(inner.args[1])])} []))"
        second = f"(SExpr (EMeth (ESub {d} {k}) {cstr(f.attr)} {clist([self.expr(a) for a in v.args])} []))"
        return f"(SSeq {first}\n {second})"

    def library_call(self, e):
        """e is syntactically a call of a function of a module (`torch.arange(..)`): dotted name whose root is neither
        `self` nor a local - the same classification call() uses to name an ECall"""
        if not (isinstance(e, ast.Call) and isinstance(e.func, ast.Attribute)):
            return False
        d = dotted(e.func)
        return d is not None and d[0] != "self" and d[0] not in self.locals

    def fresh(self):
        self.tmp += 1
        return f"$t{self.tmp}"

    def unpack(self, tgt, value):
        """a, b = value   ->   $t = value; a = $t[0]; b = $t[1]   (value is evaluated once)"""
        t = self.fresh()
        parts = [f"(SAssign [TName {cstr(t)}] {self.expr(value)})"]
        self.unpack_items(tgt, t, parts)
        acc = parts[-1]
        for p in reversed(parts[:-1]):
            acc = f"(SSeq {p} {acc})"
        return acc

    def unpack_items(self, tgt, t, parts):
        """the components of the value held by the temporary t are bound left to right; a NESTED target
        `a, (b, c), d = v` is by definition unpacked in turn: $t2 = $t[1]; b = $t2[0]; c = $t2[1] (flat targets: as before)"""
        for i, el in enumerate(tgt.elts):
            item = f"(ESub (EName {cstr(t)}) (EConst (VInt ({i})%Z)))"
            if isinstance(el, ast.Name):
                parts.append(f"(SAssign [TName {cstr(el.id)}] {item})")
            elif isinstance(el, (ast.Tuple, ast.List)):
                t2 = self.fresh()
                parts.append(f"(SAssign [TName {cstr(t2)}] {item})")
                self.unpack_items(el, t2, parts)
            else:
                raise Unsupported(f"{self.where}: unpacking into {type(el).__name__} at line {tgt.lineno}")

    def for_(self, s):
        cont = own_continue(s.body)
        if cont:
            # a loop whose body contains a `continue` of its own: SForC (ends the iteration on SContinue), else SFor as before
            self.loop_depth += 1
            try:
                body = self.seq(s.body)
            finally:
                self.loop_depth -= 1
        else:
            saved, self.loop_depth = self.loop_depth, 0     # a `continue` below belongs to an inner loop or is rejected
            try:
                body = self.seq(s.body)
            finally:
                self.loop_depth = saved
        con = "SForC" if cont else "SFor"
        if isinstance(s.target, ast.Name):
            x = s.target.id
            if self.mutates(s.body, x):
                # for g in PLACE: ... g[k] = v ...   ->  iterate over indices, write each element back
                if not isinstance(s.iter, (ast.Name, ast.Attribute, ast.Subscript)):
                    raise Unsupported(f"{self.where}: loop variable mutated but the iterable is not a place (line {s.lineno})")
                i = self.fresh()
                place = self.expr(s.iter)
                load = f"(SAssign [TName {cstr(x)}] (ESub {place} (EName {cstr(i)})))"
                back = f"(SAssign [TSub {place} (EName {cstr(i)})] (EName {cstr(x)}))"
                if cont:
                    raise Unsupported(f"{self.where}: continue in a loop that writes its variable back (line {s.lineno})")
                return (f"(SFor {cstr(i)} (ECall {cstr('range')} [ECall {cstr('len')} [{place}] []] [])\n"
                        f" (SSeq {load} (SSeq {body} {back})))")
            it = self.expr(s.iter)
            if self.library_call(s.iter):
                # for x in lib.f(...): the `for` statement calls iter() on its iterable; that call is made explicit where
                # the iterable is the result of a library function (an object of that library, e.g. a tensor, not a
                # container of the subset): ECall "iter" - the builtin on lists, the unit's [ext] on anything else.
                # (No other iterable is touched: every term translated before this clause existed is unchanged.)
                it = f"(ECall {cstr('iter')} [{it}] [])"
            return f"({con} {cstr(x)} {it}\n {body})"
        if isinstance(s.target, ast.Tuple) and all(isinstance(el, ast.Name) for el in s.target.elts):
            t = self.fresh()
            back = None
            for el in s.target.elts:
                if self.mutates(s.body, el.id):
                    # for i, x in enumerate(P): ... x[k] = v ...   (x IS the element P[i]: a tensor row is a view, a list
                    # element the object itself) -> the same loop, each element written back: P[$t[0]] = x after the body
                    back = self.enumerate_writeback(s, t, cont)    # Unsupported unless the idiom's side conditions hold
            pre = [f"(SAssign [TName {cstr(el.id)}] (ESub (EName {cstr(t)}) (EConst (VInt ({i})%Z))))"
                   for i, el in enumerate(s.target.elts)]
            acc = body if back is None else f"(SSeq {body} {back})"
            for p in reversed(pre):
                acc = f"(SSeq {p} {acc})"
            return f"({con} {cstr(t)} {self.expr(s.iter)}\n {acc})"
        raise Unsupported(f"{self.where}: for target at line {s.lineno}")

    def enumerate_writeback(self, s, t, cont):
        """`for i, x in enumerate(P): body` where body mutates x in place (x[k] = v): the statement `P[$t[0]] = x` that
        renders Python's reference semantics (x is the element P[i]) when run after the body.  Side conditions, else
        Unsupported: exactly two target names and only the second is mutated; the iterable is the builtin enumerate of ONE
        plain local name P; the body neither mentions P nor rebinds x (so P[i] is reachable only through x while the body
        runs); x does not occur outside the loop (no alias survives it); no `continue` of its own (the write-back would be
        skipped); the loop is not inside a `try` of this function (a handler would see P before the write-back)."""
        where = f"{self.where}: loop over enumerate() at line {s.lineno}"
        if len(s.target.elts) != 2 or self.mutates(s.body, s.target.elts[0].id):
            raise Unsupported(f"{where}: only the second of two loop variables may be mutated")
        x = s.target.elts[1].id
        it = s.iter
        if not (isinstance(it, ast.Call) and isinstance(it.func, ast.Name) and it.func.id == "enumerate"
                and "enumerate" not in self.locals and len(it.args) == 1 and not it.keywords
                and isinstance(it.args[0], ast.Name) and it.args[0].id in self.locals):
            raise Unsupported(f"{where}: loop variable mutated but the iterable is not enumerate(<local name>)")
        p = it.args[0].id
        if cont:
            raise Unsupported(f"{where}: continue in a loop that writes its variable back")
        inside = set()
        for b in s.body:
            for n in ast.walk(b):
                inside.add(id(n))
                if isinstance(n, ast.Name) and n.id == p:
                    raise Unsupported(f"{where}: '{p}' is used in the body while '{x}' aliases its elements")
                if isinstance(n, ast.Name) and n.id == x and isinstance(n.ctx, (ast.Store, ast.Del)):
                    raise Unsupported(f"{where}: '{x}' is rebound in the body")
        for n in ast.walk(self.fn):
            if isinstance(n, ast.Name) and n.id == x and id(n) not in inside and n is not s.target.elts[1]:
                raise Unsupported(f"{where}: '{x}' is used outside the loop")
            if isinstance(n, ast.Try) and any(m is s for m in ast.walk(n)):
                raise Unsupported(f"{where}: the loop is inside a try statement")
        return (f"(SAssign [TSub (EName {cstr(p)}) (ESub (EName {cstr(t)}) (EConst (VInt (0)%Z)))] "
                f"(EName {cstr(x)}))")

    def defaults(self):
        a = self.fn.args
        out = []
        pos = a.args
        for arg, d in zip(pos[len(pos) - len(a.defaults):], a.defaults):
            out.append(f"({cstr(arg.arg)}, {self.expr(d)})")
        for arg, d in zip(a.kwonlyargs, a.kw_defaults):
            if d is not None:
                out.append(f"({cstr(arg.arg)}, {self.expr(d)})")
        return clist(out)

    def body(self):
        return self.seq(self.fn.body)


def find_function(tree, qual):
    parts = qual.split(".")
    node = tree
    for p in parts:
        nxt = None
        for ch in node.body:
            if isinstance(ch, (ast.FunctionDef, ast.ClassDef)) and ch.name == p:
                nxt = ch
        if nxt is None:
            return None
        node = nxt
    return node if isinstance(node, ast.FunctionDef) else None


def slice_statements(fn, first, last):
    """the maximal run of top-level statements of fn from the one matching `first` to the one matching `last`
    (substring match on the unparsed first line); used to translate a block of a long function"""
    def in_list(stmts):
        idx = [None, None]
        for i, s in enumerate(stmts):
            head = ast.unparse(s).splitlines()[0]
            if idx[0] is None and first in head:
                idx[0] = i
            if last in head:
                idx[1] = i
        if idx[0] is None or idx[1] is None or idx[1] < idx[0]:
            return None
        return stmts[idx[0]:idx[1] + 1]

    found = in_list(fn.body)
    if found is not None:
        return found
    # markers of a NESTED block (the body of a loop / branch of a long function): the statement lists of compound
    # statements are searched depth first, in source order; the first list that contains both markers wins.
    # A top-level match keeps priority, so units that mark top-level statements are translated as before.

    def nested(stmts):
        for s in stmts:
            subs = [getattr(s, a) for a in ("body", "orelse", "finalbody") if isinstance(getattr(s, a, None), list)]
            subs += [h.body for h in getattr(s, "handlers", [])]
            for sub in subs:
                if not sub or not isinstance(sub[0], ast.stmt):
                    continue
                hit = in_list(sub)
                if hit is None:
                    hit = nested(sub)
                if hit is not None:
                    return hit
        return None
    return nested(fn.body)


HEADER = """(* GENERATED by harness/py2coq/translate.py from {src} - do not edit.
   Regenerated from the working tree on every run; the tie lemmas in theories/{prop}/Tie.v
   are stated about exactly these terms. *)
From Coq Require Import ZArith QArith List String.
From PV Require Import MiniPy.Syntax.
Import ListNotations.
Local Open Scope string_scope.

"""

# unit -> (property, source file, [(Coq name, qualified function name, optional (first, last) statement markers)])
# one JSON file per unit in harness/py2coq/units/: {"property", "source", "functions": [[coqname, qualname, null | [first, last]]]}
def _load_units():
    import json
    out = {}
    for f in sorted((Path(__file__).resolve().parent / "units").glob("*.json")):
        d = json.loads(f.read_text())
        out[f.stem] = (d["property"], d["source"],
                       [(c, q, tuple(m) if m else None) for c, q, m in d["functions"]])
    return out


UNITS = _load_units()


def _load_unit_options():
    """optional "options" object of a unit's JSON file (absent: {} = the historical rendering, byte for byte):
    "exact_strings": string literals byte for byte (printable ASCII + line break) instead of cstr()'s "?" for the rest;
    "fstring_parts": f-strings node for node ("$fstr" / "$format") instead of the effect-preserving "$fstring" call"""
    import json
    out = {}
    for f in sorted((Path(__file__).resolve().parent / "units").glob("*.json")):
        out[f.stem] = json.loads(f.read_text()).get("options", {})
    return out


UNIT_OPTIONS = _load_unit_options()


def translate_unit(repo, unit):
    prop, rel, funcs = UNITS[unit]
    path = Path(repo) / rel
    text = path.read_text()
    tree = ast.parse(text)
    out = [HEADER.format(src=rel, prop=prop)]
    problems = []
    for coqname, qual, markers in funcs:
        fn = find_function(tree, qual)
        if fn is None:
            problems.append(f"{qual}: not found in {rel}")
            continue
        try:
            stmts = None
            if markers is not None:
                stmts = slice_statements(fn, *markers)
                if stmts is None:
                    raise Unsupported(f"{rel}::{qual}: block markers {markers!r} not found")
            tr = FunctionTranslator(fn, f"{rel}::{qual}", scope=stmts, options=UNIT_OPTIONS.get(unit))
            if markers is None:
                body = tr.body()
            else:
                body = tr.seq(stmts)
            if markers is None:
                src, lo, hi = ast.get_source_segment(text, fn) or "", fn.lineno, fn.end_lineno
            else:   # a block: identify the block's own text, so that an edit elsewhere in the function leaves the file as is
                src = "\n".join(ast.get_source_segment(text, st_) or "" for st_ in stmts)
                lo, hi = stmts[0].lineno, stmts[-1].end_lineno
            out.append(f"(* {qual}, lines {lo}-{hi}, sha1 of its text "
                       f"{hashlib.sha1(src.encode()).hexdigest()[:12]} *)\n")
            out.append(f"Definition {coqname}_params : list string := {clist([cstr(p) for p in tr.params])}.\n")
            out.append(f"Definition {coqname}_defaults : list (string * expr) := {tr.defaults()}.\n")
            out.append(f"Definition {coqname} : stmt :=\n {body}.\n\n")
        except Unsupported as e:
            problems.append(str(e))
            out.append(f"(* {qual}: NOT TRANSLATED: {str(e).replace('*)', '* )')} *)\n\n")
    return "".join(out), problems


def write_if_changed(path, text):
    path = Path(path)
    path.parent.mkdir(parents=True, exist_ok=True)
    if path.exists() and path.read_text() == text:
        return False
    tmp = path.with_suffix(".tmp%d" % os.getpid())
    tmp.write_text(text)
    os.replace(tmp, path)
    return True


def regenerate(repo, outdir, units=None):
    """-> {unit: [problems]}"""
    res = {}
    for unit in (units or sorted(UNITS)):
        text, problems = translate_unit(repo, unit)
        write_if_changed(Path(outdir) / f"{unit}.v", text)
        res[unit] = problems
    return res


def units_of(prop):
    return [u for u, (p, _, _) in sorted(UNITS.items()) if p == prop]


def main():
    ap = argparse.ArgumentParser()
    ap.add_argument("--repo", default=os.environ.get("VERIF_REPO", "/repo"))
    ap.add_argument("--out", default=str(Path(__file__).resolve().parent.parent.parent / "coq" / "theories" / "Gen"))
    ap.add_argument("units", nargs="*")
    a = ap.parse_args()
    res = regenerate(a.repo, a.out, a.units or None)
    for u, pr in res.items():
        print(u, "ok" if not pr else "PROBLEMS: " + "; ".join(pr))
    return 0


if __name__ == "__main__":
    sys.exit(main())
