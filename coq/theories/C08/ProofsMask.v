(* C08 - lemmas about the masking part of spec_augment_apply_parameters. *)
From Coq Require Import List ZArith QArith Bool Lia.
From PV Require Import C08.Model C08.Spec.
Import ListNotations.

Lemma mapi_from_length : forall {A B} (f : Z -> A -> B) l i, length (mapi_from i f l) = length l.
Proof. induction l as [|x l IH]; intro i; cbn; [reflexivity|now rewrite IH]. Qed.

Lemma mapi_from_nth : forall {A B} (f : Z -> A -> B) l i k d d',
  (k < length l)%nat -> nth k (mapi_from i f l) d' = f (i + Z.of_nat k)%Z (nth k l d).
Proof.
  induction l as [|x l IH]; intros i k d d' H; cbn in H; [lia|].
  destruct k as [|k]; cbn [mapi_from nth].
  - now rewrite Z.add_0_r.
  - rewrite (IH (i + 1)%Z k d d') by lia. f_equal. lia.
Qed.

Lemma fill_length : forall {A} (zero : A) m img, length (fill zero m img) = length img.
Proof. intros; unfold fill; apply mapi_from_length. Qed.

Lemma fill_row : forall {A} (zero : A) m img t, (t < length img)%nat ->
  nth t (fill zero m img) [] =
  mapi_from 0%Z (fun f x => if m (Z.of_nat t) f then zero else x) (nth t img []).
Proof. intros A zero m img t H. unfold fill. now rewrite (mapi_from_nth _ img 0%Z t [] []) by exact H. Qed.

Lemma fill_cell : forall {A} (zero : A) m img t f d,
  (t < length img)%nat -> (f < length (nth t img []))%nat ->
  nth f (nth t (fill zero m img) []) d =
  if m (Z.of_nat t) (Z.of_nat f) then zero else nth f (nth t img []) d.
Proof.
  intros A zero m img t f d Ht Hf. rewrite fill_row by exact Ht.
  now rewrite (mapi_from_nth _ (nth t img []) 0%Z f d d) by exact Hf.
Qed.

Lemma fill_row_length : forall {A} (zero : A) m img t,
  length (nth t (fill zero m img) []) = length (nth t img []).
Proof.
  intros A zero m img t. destruct (Nat.lt_ge_cases t (length img)) as [H|H].
  - rewrite fill_row by exact H. apply mapi_from_length.
  - rewrite !nth_overflow; [reflexivity|exact H|now rewrite fill_length].
Qed.

Lemma masked_iff : forall bands x,
  masked bands x = true <-> exists b, In b bands /\ (fst b <= x < fst b + snd b)%Z.
Proof.
  intros bands x. unfold masked. rewrite existsb_exists. split; intros [b [I H]]; exists b; split; auto.
  - unfold in_band in H. apply andb_true_iff in H. destruct H as [H1 H2].
    apply Z.leb_le in H1. apply Z.ltb_lt in H2. lia.
  - unfold in_band. apply andb_true_iff. split; [apply Z.leb_le|apply Z.ltb_lt]; lia.
Qed.

Lemma masked_nil : forall x, masked [] x = false.
Proof. reflexivity. Qed.

(* the code's three-way branch is one cell-wise rule *)
Lemma apply_masks_as_fill : forall {A} (zero : A) tm fm img t f d,
  (t < length img)%nat -> (f < length (nth t img []))%nat ->
  nth f (nth t (apply_masks zero tm fm img) []) d =
  if masked (opt_bands tm) (Z.of_nat t) || masked (opt_bands fm) (Z.of_nat f)
  then zero else nth f (nth t img []) d.
Proof.
  intros A zero tm fm img t f d Ht Hf. unfold apply_masks.
  destruct tm as [tb|], fm as [fb|]; cbn [opt_bands]; rewrite ?masked_nil, ?orb_false_r, ?orb_false_l;
    try (rewrite fill_cell by assumption; reflexivity).
  reflexivity.
Qed.

Lemma masked_cell_iff : forall tm fm t f,
  masked (opt_bands tm) t || masked (opt_bands fm) f = true <-> masked_cell tm fm t f.
Proof. intros. unfold masked_cell. rewrite orb_true_iff, !masked_iff. tauto. Qed.

Lemma apply_masks_cell : forall {A} (zero : A) tm fm img t f d,
  (t < length img)%nat -> (f < length (nth t img []))%nat ->
  (masked_cell tm fm (Z.of_nat t) (Z.of_nat f) ->
     nth f (nth t (apply_masks zero tm fm img) []) d = zero)
  /\ (~ masked_cell tm fm (Z.of_nat t) (Z.of_nat f) ->
     nth f (nth t (apply_masks zero tm fm img) []) d = nth f (nth t img []) d).
Proof.
  intros A zero tm fm img t f d Ht Hf. rewrite apply_masks_as_fill by assumption.
  destruct (masked (opt_bands tm) (Z.of_nat t) || masked (opt_bands fm) (Z.of_nat f)) eqn:E.
  - split; [reflexivity|]. intro N. exfalso. apply N, masked_cell_iff, E.
  - split; [|reflexivity]. intro M. apply masked_cell_iff in M. congruence.
Qed.

Lemma apply_masks_shape : forall {A} (zero : A) tm fm img,
  length (apply_masks zero tm fm img) = length img
  /\ forall t, length (nth t (apply_masks zero tm fm img) []) = length (nth t img []).
Proof.
  intros A zero tm fm img. unfold apply_masks.
  destruct tm as [tb|], fm as [fb|]; split; intros;
    rewrite ?fill_length, ?fill_row_length; reflexivity.
Qed.

(* every cell of the output is either the zero or a cell of the input at the same place *)
Lemma apply_masks_cell_cases : forall {A} (zero : A) tm fm img t f d,
  (t < length img)%nat -> (f < length (nth t img []))%nat ->
  nth f (nth t (apply_masks zero tm fm img) []) d = zero
  \/ nth f (nth t (apply_masks zero tm fm img) []) d = nth f (nth t img []) d.
Proof.
  intros A zero tm fm img t f d Ht Hf. rewrite apply_masks_as_fill by assumption.
  destruct (masked _ _ || masked _ _); auto.
Qed.
