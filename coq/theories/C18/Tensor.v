(* C18 — row-major tensors: multi-indices, offsets, tabulate/get, transposition. *)
From Coq Require Import List ZArith QArith Bool Arith Lia Permutation.
From PV Require Import C18.Model C18.Spec.
Import ListNotations.
Local Open Scope nat_scope.

Lemma valid_length : forall sh idx, valid sh idx -> length idx = length sh.
Proof. intros sh idx H. induction H; cbn; congruence. Qed.

Lemma valid_nth : forall sh idx k, valid sh idx -> k < length sh -> nth k idx 0 < nth k sh 0.
Proof.
  intros sh idx k H. revert k. induction H as [|i s idx sh Hi H IH]; intros k Hk; cbn in *; [lia|].
  destruct k; [assumption|]. apply IH. lia.
Qed.

Lemma valid_intro : forall sh idx, length idx = length sh ->
  (forall k, k < length sh -> nth k idx 0 < nth k sh 0) -> valid sh idx.
Proof.
  induction sh as [|s sh IH]; intros [|i idx] HL H; cbn in *; try discriminate.
  - constructor.
  - constructor.
    + apply (H 0). lia.
    + apply IH; [lia|]. intros k Hk. apply (H (S k)). lia.
Qed.

Lemma NoDup_app_intro : forall {A} (a b : list A),
  NoDup a -> NoDup b -> (forall x, In x a -> In x b -> False) -> NoDup (a ++ b).
Proof.
  induction a as [|x a IH]; intros b Ha Hb H; cbn [app]; [assumption|].
  inversion Ha as [|? ? Hx Ha']; subst. constructor.
  - intros Hin. apply in_app_or in Hin. destruct Hin as [Hin|Hin]; [contradiction|].
    apply (H x); [now left|assumption].
  - apply IH; try assumption. intros y Hy. apply H. now right.
Qed.

Lemma prodn_cons : forall s sh, prodn (s :: sh) = s * prodn sh.
Proof. reflexivity. Qed.

Lemma prodn_app : forall a b, prodn (a ++ b) = prodn a * prodn b.
Proof.
  induction a as [|x a IH]; intros b; cbn [app]; [cbn; lia|].
  rewrite !prodn_cons, IH. lia.
Qed.

(* ------------------------------------------------------------------------------ *)
(* flat_map with blocks of constant length                                        *)
(* ------------------------------------------------------------------------------ *)
Lemma length_flat_map_const : forall {A B} (g : A -> list B) l P,
  (forall a, In a l -> length (g a) = P) -> length (flat_map g l) = length l * P.
Proof.
  induction l as [|a l IH]; intros P H; cbn [flat_map length]; [reflexivity|].
  rewrite app_length, (H a) by now left. rewrite (IH P) by (intros; apply H; now right). lia.
Qed.

Lemma nth_flat_map_const : forall {A B} (g : A -> list B) l P i r da db,
  (forall a, In a l -> length (g a) = P) -> i < length l -> r < P ->
  nth (i * P + r) (flat_map g l) db = nth r (g (nth i l da)) db.
Proof.
  induction l as [|a l IH]; intros P i r da db H Hi Hr; cbn [flat_map length] in *; [lia|].
  destruct i as [|i].
  - cbn [Nat.mul Nat.add nth]. rewrite app_nth1 by (rewrite (H a) by (now left); lia). reflexivity.
  - rewrite app_nth2 by (rewrite (H a) by (now left); lia).
    rewrite (H a) by now left.
    replace (S i * P + r - P) with (i * P + r) by lia.
    cbn [nth]. apply IH; [intros; apply H; now right|lia|lia].
Qed.

Lemma skipn_app_plus : forall {A} (a b : list A) k, skipn (length a + k) (a ++ b) = skipn k b.
Proof. induction a as [|x a IH]; intros b k; cbn; [reflexivity|apply IH]. Qed.

Lemma chunk_flat_map_const : forall {A} (g : A -> list Q) l P i da,
  (forall a, In a l -> length (g a) = P) -> i < length l ->
  chunk P i (flat_map g l) = g (nth i l da).
Proof.
  unfold chunk.
  induction l as [|a l IH]; intros P i da H Hi; cbn [flat_map length] in *; [lia|].
  destruct i as [|i].
  - cbn [Nat.mul skipn nth]. rewrite firstn_app, (H a) by now left.
    rewrite Nat.sub_diag. cbn [firstn]. rewrite app_nil_r.
    rewrite <- (H a) at 1 by now left. apply firstn_all.
  - cbn [nth]. replace (S i * P) with (length (g a) + i * P) by (rewrite (H a) by (now left); lia).
    rewrite skipn_app_plus.
    apply IH; [intros; apply H; now right|lia].
Qed.

(* ------------------------------------------------------------------------------ *)
(* indices, ravel                                                                 *)
(* ------------------------------------------------------------------------------ *)
Lemma indices_cons : forall s sh,
  indices (s :: sh) = flat_map (fun i => map (cons i) (indices sh)) (seq 0 s).
Proof. reflexivity. Qed.

Lemma length_indices : forall sh, length (indices sh) = prodn sh.
Proof.
  induction sh as [|s sh IH]; [reflexivity|].
  rewrite indices_cons, (length_flat_map_const _ _ (prodn sh)).
  - rewrite seq_length. reflexivity.
  - intros a _. rewrite map_length. exact IH.
Qed.

Lemma in_indices : forall sh idx, In idx (indices sh) <-> valid sh idx.
Proof.
  induction sh as [|s sh IH]; intros idx.
  - cbn. split.
    + intros [<-|[]]. constructor.
    + intros H. inversion H. now left.
  - rewrite indices_cons, in_flat_map. split.
    + intros [i [Hi Hin]]. apply in_map_iff in Hin. destruct Hin as [t [<- Ht]].
      apply in_seq in Hi. constructor; [lia|]. now apply IH.
    + intros H. inversion H as [|i s' t sh' Hi Ht]; subst.
      exists i. split; [apply in_seq; lia|]. apply in_map. now apply IH.
Qed.

Lemma NoDup_indices : forall sh, NoDup (indices sh).
Proof.
  induction sh as [|s sh IH]; [cbn; repeat constructor; intros []|].
  rewrite indices_cons.
  assert (G : forall n st, NoDup (flat_map (fun i => map (cons i) (indices sh)) (seq st n)) /\
                           forall idx, In idx (flat_map (fun i => map (cons i) (indices sh)) (seq st n)) ->
                                       st <= hd 0 idx).
  { induction n as [|n IHn]; intros st; cbn [seq flat_map].
    - split; [constructor|intros ? []].
    - destruct (IHn (S st)) as [ND Hhd]. split.
      + apply NoDup_app_intro.
        * apply FinFun.Injective_map_NoDup; [|exact IH]. intros a b E. now inversion E.
        * exact ND.
        * intros idx H1 H2. apply in_map_iff in H1. destruct H1 as [t [<- _]].
          apply Hhd in H2. cbn in H2. lia.
      + intros idx H. apply in_app_or in H. destruct H as [H|H].
        * apply in_map_iff in H. destruct H as [t [<- _]]. cbn. lia.
        * apply Hhd in H. lia. }
  apply G.
Qed.

Lemma ravel_lt : forall sh idx, valid sh idx -> ravel sh idx < prodn sh.
Proof.
  intros sh idx H. induction H as [|i s idx sh Hi H IH]; cbn [ravel]; [cbn; lia|].
  rewrite prodn_cons. nia.
Qed.

Lemma nth_ravel_indices : forall sh idx d, valid sh idx -> nth (ravel sh idx) (indices sh) d = idx.
Proof.
  intros sh idx d H. induction H as [|i s idx sh Hi H IH]; [reflexivity|].
  cbn [ravel]. rewrite indices_cons.
  rewrite (nth_flat_map_const _ _ (prodn sh) i (ravel sh idx) 0 d).
  - rewrite seq_nth by assumption. cbn [Nat.add].
    rewrite (nth_indep _ d (i :: d)) by (rewrite map_length, length_indices; now apply ravel_lt).
    rewrite map_nth. f_equal. exact IH.
  - intros a _. rewrite map_length. apply length_indices.
  - rewrite seq_length. assumption.
  - now apply ravel_lt.
Qed.

Lemma get_tabulate : forall sh f idx, valid sh idx -> get (tabulate sh f) idx = f idx.
Proof.
  intros sh f idx H. unfold get, tabulate. cbn [shape data].
  rewrite (nth_indep _ 0%Q (f idx)) by (rewrite map_length, length_indices; now apply ravel_lt).
  rewrite map_nth. f_equal. now apply nth_ravel_indices.
Qed.

(* offsets of concatenated index blocks *)
Lemma ravel_app : forall sh1 idx1 sh2 idx2, length idx1 = length sh1 ->
  ravel (sh1 ++ sh2) (idx1 ++ idx2) = ravel sh1 idx1 * prodn sh2 + ravel sh2 idx2.
Proof.
  induction sh1 as [|s sh1 IH]; intros [|i idx1] sh2 idx2 HL; cbn in HL; try discriminate.
  - cbn. lia.
  - cbn [app ravel]. rewrite IH by lia. rewrite prodn_app. lia.
Qed.

Lemma valid_app : forall sh1 idx1 sh2 idx2, valid sh1 idx1 -> valid sh2 idx2 -> valid (sh1 ++ sh2) (idx1 ++ idx2).
Proof. intros. now apply Forall2_app. Qed.

Lemma valid_app_inv : forall sh1 sh2 idx, valid (sh1 ++ sh2) idx ->
  exists idx1 idx2, idx = idx1 ++ idx2 /\ valid sh1 idx1 /\ valid sh2 idx2.
Proof.
  intros sh1 sh2 idx H. apply Forall2_app_inv_r in H. destruct H as [i1 [i2 [H1 [H2 E]]]].
  exists i1, i2. auto.
Qed.

(* ------------------------------------------------------------------------------ *)
(* swapl / transpose                                                              *)
(* ------------------------------------------------------------------------------ *)
Definition tau (i j k : nat) : nat := if k =? i then j else if k =? j then i else k.

Lemma tau_invol : forall i j k, tau i j (tau i j k) = k.
Proof.
  intros i j k. unfold tau.
  destruct (Nat.eqb_spec k i); [|destruct (Nat.eqb_spec k j)];
    repeat match goal with |- context [?a =? ?b] => destruct (Nat.eqb_spec a b) end; subst; lia.
Qed.

Lemma tau_lt : forall i j k n, i < n -> j < n -> k < n -> tau i j k < n.
Proof. intros. unfold tau. destruct (k =? i); [lia|]. destruct (k =? j); lia. Qed.

Lemma length_swapl : forall l i j, length (swapl l i j) = length l.
Proof. intros. unfold swapl. now rewrite map_length, seq_length. Qed.

Lemma nth_swapl : forall l i j k, k < length l -> nth k (swapl l i j) 0 = nth (tau i j k) l 0.
Proof.
  intros l i j k Hk. unfold swapl.
  set (f := fun k0 => nth (if k0 =? i then j else if k0 =? j then i else k0) l 0).
  rewrite (nth_indep _ 0 (f 0)) by (now rewrite map_length, seq_length).
  rewrite map_nth, seq_nth by assumption. reflexivity.
Qed.

Lemma nth_ext_nat : forall (a b : list nat), length a = length b ->
  (forall k, k < length a -> nth k a 0 = nth k b 0) -> a = b.
Proof. intros a b HL H. apply (nth_ext a b 0 0); assumption. Qed.

Lemma swapl_invol : forall l i j, i < length l -> j < length l -> swapl (swapl l i j) i j = l.
Proof.
  intros l i j Hi Hj. apply nth_ext_nat; [now rewrite !length_swapl|].
  intros k Hk. rewrite !length_swapl in Hk.
  rewrite nth_swapl by (now rewrite length_swapl).
  rewrite nth_swapl by (now apply tau_lt).
  now rewrite tau_invol.
Qed.

Lemma valid_swapl : forall sh idx i j, i < length sh -> j < length sh ->
  valid sh idx -> valid (swapl sh i j) (swapl idx i j).
Proof.
  intros sh idx i j Hi Hj H. pose proof (valid_length _ _ H) as HL.
  apply valid_intro; [now rewrite !length_swapl|].
  intros k Hk. rewrite length_swapl in Hk.
  rewrite !nth_swapl by lia. apply valid_nth; [assumption|now apply tau_lt].
Qed.

Lemma valid_swapl_inv : forall sh idx i j, i < length sh -> j < length sh ->
  valid (swapl sh i j) idx -> valid sh (swapl idx i j).
Proof.
  intros sh idx i j Hi Hj H.
  rewrite <- (swapl_invol sh i j) by assumption.
  apply valid_swapl; rewrite ?length_swapl; assumption.
Qed.

Lemma get_transpose : forall x i j idx, i < length (shape x) -> j < length (shape x) ->
  valid (swapl (shape x) i j) idx -> get (transpose x i j) idx = get x (swapl idx i j).
Proof. intros x i j idx Hi Hj H. unfold transpose. now rewrite get_tabulate. Qed.

Lemma shape_transpose : forall x i j, shape (transpose x i j) = swapl (shape x) i j.
Proof. reflexivity. Qed.

Lemma data_transpose : forall x i j,
  data (transpose x i j) = map (fun idx => get x (swapl idx i j)) (indices (swapl (shape x) i j)).
Proof. reflexivity. Qed.

Lemma swapl_same : forall l i, i < length l -> swapl l i i = l.
Proof.
  intros l i Hi. apply nth_ext_nat; [apply length_swapl|].
  intros k Hk. rewrite length_swapl in Hk. rewrite nth_swapl by assumption.
  unfold tau. destruct (k =? i) eqn:E; [apply Nat.eqb_eq in E; now subst|reflexivity].
Qed.

Lemma valid1 : forall a i, i < a -> valid [a] [i].
Proof. intros. constructor; [assumption|constructor]. Qed.

Lemma valid2 : forall a b i j, i < a -> j < b -> valid [a; b] [i; j].
Proof. intros. constructor; [assumption|]. now apply valid1. Qed.

Lemma norm_dim_lt : forall D dim d, norm_dim D dim = Some d -> (d < D)%nat.
Proof.
  intros D dim d H. unfold norm_dim in H.
  destruct ((dim <? - Z.of_nat D) || (Z.of_nat D <=? dim))%Z eqn:E; [discriminate|].
  inversion H; subst d; clear H. apply orb_false_iff in E. destruct E as [E1 E2].
  apply Z.ltb_ge in E1. apply Z.leb_gt in E2.
  assert (0 < Z.of_nat D)%Z by lia.
  pose proof (Z.mod_pos_bound (dim + Z.of_nat D) (Z.of_nat D) ltac:(lia)). lia.
Qed.

