(* C20 — the multi-headed flavour inherits masked-content blindness and permutation
   invariance from the wrapped attention (through the composition theorem). *)
From Coq Require Import List Arith Bool ZArith QArith Lia Lqa Permutation Setoid Morphisms.
From PV Require Import C20.Model C20.Spec C20.Sums C20.Index C20.Proofs C20.Broadcast C20.MHA.
Import ListNotations.
Local Open Scope nat_scope.

Lemma attend_shape_det expf sc q k v m p qs ks out expf' sc' q' k' v' m' qs' ks' out' :
  attend expf sc q k v m p qs ks = Some out ->
  attend expf' sc' q' k' v' m' p qs' ks' = Some out' ->
  tshape q' = tshape q -> tshape k' = tshape k -> tshape v' = tshape v ->
  tshape out' = tshape out.
Proof.
  intros Ha Ha' Eq Ek Ev.
  destruct (attend_inv _ _ _ _ _ _ _ _ _ _ Ha) as [es [ps [F ->]]].
  destruct (attend_inv _ _ _ _ _ _ _ _ _ _ Ha') as [es' [ps' [F' ->]]].
  rewrite !memo_shape. cbn [tshape].
  pose proof (af_es _ _ _ _ _ _ _ F) as E1. pose proof (af_es _ _ _ _ _ _ _ F') as E2.
  rewrite unsq_shape in E1, E2. rewrite Eq, Ek in E2. rewrite E1 in E2. injection E2 as <-.
  pose proof (af_ps _ _ _ _ _ _ _ F) as P1. pose proof (af_ps _ _ _ _ _ _ _ F') as P2.
  rewrite Ev in P2. rewrite P1 in P2. injection P2 as <-. reflexivity.
Qed.

Lemma brow_raw (t : tensor Q) f s I :
  tshape t = f :: s -> brow t I = map (fun c => tat t (c :: clamp s I)) (seq 0 f).
Proof.
  intros E. unfold brow, bget. rewrite E. cbn [hd]. apply map_ext_in. intros c Hc.
  apply in_seq in Hc. cbn [clamp]. rewrite clamp1_lt by lia. reflexivity.
Qed.

(* a projected head feature depends on the input only through the row it is computed from *)
Lemma slice_read_congr W b (t t' : tensor Q) h d c I I' :
  tshape t' = tshape t -> brow t' I' = brow t I ->
  bget (head_slice h d (linear W b t')) (c :: I') = bget (head_slice h d (linear W b t)) (c :: I).
Proof.
  intros Es Er. unfold bget. rewrite !head_slice_shape, !linear_shape, Es.
  destruct (tshape t) as [|f s] eqn:E.
  - cbn [tl clamp]. cbn [head_slice tat linear]. rewrite Es, E. reflexivity.
  - cbn [tl clamp]. cbn [head_slice tat linear]. rewrite Es, E. cbn [hd].
    rewrite (brow_raw t f s I E) in Er. rewrite (brow_raw t' f s I' Es) in Er.
    rewrite Er. reflexivity.
Qed.

Lemma slice_row_congr W b (t t' : tensor Q) h d I I' :
  tshape t' = tshape t -> brow t' I' = brow t I ->
  brow (head_slice h d (linear W b t')) I' = brow (head_slice h d (linear W b t)) I.
Proof.
  intros Es Er. unfold brow. rewrite !head_slice_shape. cbn [hd]. apply map_ext. intros c.
  apply slice_read_congr; assumption.
Qed.

Lemma nth_S_tl (n : nat) (l : list nat) : nth (S n) l 0 = nth n (tl l) 0.
Proof. destruct l; destruct n; reflexivity. Qed.

Lemma mha_p_pos expf sc P q k v m p mpos qs ks vs out :
  mha expf sc P q k v m p mpos qs ks vs = Some out -> 1 <= p.
Proof.
  intros H. destruct (mha_inv _ _ _ _ _ _ _ _ _ _ _ _ _ H) as [L _].
  unfold mha_legalb in L. repeat (apply andb_true_iff in L; destruct L as [L ?]).
  match goal with X : Nat.leb 1 p = true |- _ => apply Nat.leb_le in X; exact X end.
Qed.

(* shared skeleton: if every head's output coordinate is unchanged, so is the projected result *)
Lemma mha_spec_congr expf sc P q k v m p q' k' v' m' p' bs c j :
  (forall h c', h < num_heads P -> c' < d_v P ->
     match head expf sc P q' k' v' m' p' h, head expf sc P q k v m p h with
     | Some o', Some o => (tat o' (c' :: j) == tat o (c' :: j))%Q
     | _, _ => False
     end) ->
  (tat (mha_spec expf sc P q' k' v' m' p' bs) (c :: j) == tat (mha_spec expf sc P q k v m p bs) (c :: j))%Q.
Proof.
  intros Hh. unfold mha_spec. cbn [linear tat].
  assert (Hrow : Forall2 Qeq
            (map (fun jj => tat (heads_cat expf sc P q' k' v' m' p' bs) (jj :: j))
                 (seq 0 (hd 0 (tshape (heads_cat expf sc P q' k' v' m' p' bs)))))
            (map (fun jj => tat (heads_cat expf sc P q k v m p bs) (jj :: j))
                 (seq 0 (hd 0 (tshape (heads_cat expf sc P q k v m p bs)))))).
  { unfold heads_cat at 2 4. cbn [tshape hd].
    apply Forall2_map_ext. intros jj Hj. apply in_seq in Hj.
    assert (Hdv : d_v P <> 0) by (intros Z; rewrite Z in Hj; lia).
    assert (H1 : jj / d_v P < num_heads P) by (apply Nat.div_lt_upper_bound; [exact Hdv|lia]).
    assert (H2 : jj mod d_v P < d_v P) by (apply Nat.mod_upper_bound; exact Hdv).
    unfold heads_cat. cbn [tat]. specialize (Hh _ _ H1 H2).
    destruct (head expf sc P q' k' v' m' p' (jj / d_v P)); [|destruct Hh].
    destruct (head expf sc P q k v m p (jj / d_v P)); [exact Hh|destruct Hh]. }
  destruct (bC P) as [bl|].
  - rewrite (dotq_ext _ _ _ Hrow). reflexivity.
  - apply dotq_ext, Hrow.
Qed.

Section Two.
  Variables (expf : Q -> Q) (sc : list Q -> list Q -> Q) (P : mha_params).
  Variables (q k v k' v' : tensor Q) (m m' : option (tensor bool)) (p qs ks vs : nat) (out out' : tensor Q).
  Hypothesis Hm : mha expf sc P q k v m p 0 qs ks vs = Some out.
  Hypothesis Hm' : mha expf sc P q k' v' m' p 0 qs ks vs = Some out'.
  Hypothesis Ek : tshape k' = tshape k.
  Hypothesis Ev : tshape v' = tshape v.
  Hypothesis HWQ : length (WQ P) = num_heads P * d_q P.
  Hypothesis HWK : length (WK P) = num_heads P * d_k P.
  Hypothesis HWV : length (WV P) = num_heads P * d_v P.
  Hypothesis Hagree : seq_agree k v p.

  Lemma two_agree' : seq_agree k' v' p.
  Proof. unfold seq_agree in *. rewrite Ek, Ev. exact Hagree. Qed.

  (* both results are the composition over the same batch shape *)
  Lemma two_setup :
    exists bs,
      tshape out = length (WC P) :: bs /\ tshape out' = length (WC P) :: bs /\
      (forall h, exists o, head expf sc P q k v m p h = Some o /\ tshape o = d_v P :: bs) /\
      (forall h, exists o, head expf sc P q k' v' m' p h = Some o /\ tshape o = d_v P :: bs) /\
      (forall i, valid (tshape out) i -> (tat out i == tat (mha_spec expf sc P q k v m p bs) i)%Q) /\
      (forall i, valid (tshape out') i -> (tat out' i == tat (mha_spec expf sc P q k' v' m' p bs) i)%Q).
  Proof.
    destruct (multihead_is_composition_strong _ _ _ _ _ _ _ _ _ _ _ _ Hm HWQ HWK HWV Hagree) as [bs [So [Hh Heq]]].
    destruct (multihead_is_composition_strong _ _ _ _ _ _ _ _ _ _ _ _ Hm' HWQ HWK HWV two_agree') as [bs' [So' [Hh' Heq']]].
    assert (bs' = bs) as ->.
    { destruct (Hh 0) as [o [Ho S1]]. destruct (Hh' 0) as [o' [Ho' S2]].
      unfold head in Ho, Ho'.
      pose proof (attend_shape_det _ _ _ _ _ _ _ _ _ _ _ _ _ _ _ _ _ _ _ Ho Ho') as X.
      rewrite S1, S2 in X.
      assert (Y : d_v P :: bs' = d_v P :: bs).
      { apply X; rewrite !head_slice_shape, !linear_shape, ?Ek, ?Ev; reflexivity. }
      injection Y as ->. reflexivity. }
    exists bs. repeat split; assumption.
  Qed.
End Two.

Lemma multihead_blind_to_masked expf sc P q k v k' v' m p qs ks vs out out' :
  mha expf sc P q k v m p 0 qs ks vs = Some out ->
  mha expf sc P q k' v' m p 0 qs ks vs = Some out' ->
  tshape k' = tshape k -> tshape v' = tshape v ->
  length (WQ P) = num_heads P * d_q P ->
  length (WK P) = num_heads P * d_k P ->
  length (WV P) = num_heads P * d_v P ->
  seq_agree k v p ->
  forall c j, valid (tshape out) (c :: j) ->
  (forall t, t < nth p (tshape k) 0 -> kept_at m (ins (p - 1) t j) = true ->
             brow k' (ins (p - 1) t j) = brow k (ins (p - 1) t j)
             /\ brow v' (ins (p - 1) t j) = brow v (ins (p - 1) t j)) ->
  (tat out' (c :: j) == tat out (c :: j))%Q.
Proof.
  intros Hm Hm' Ek Ev HWQ HWK HWV Ha c j Hv Hsame.
  destruct (two_setup _ _ _ _ _ _ _ _ _ _ _ _ _ _ _ _ Hm Hm' Ek Ev HWQ HWK HWV Ha)
    as [bs [So [So' [Hh [Hh' [Heq Heq']]]]]].
  pose proof (mha_p_pos _ _ _ _ _ _ _ _ _ _ _ _ _ Hm) as Hp.
  assert (Hv' : valid (tshape out') (c :: j)) by (rewrite So'; rewrite So in Hv; exact Hv).
  rewrite (Heq' _ Hv'), (Heq _ Hv).
  rewrite So in Hv. apply valid_cons_inv in Hv. destruct Hv as [_ Hj].
  apply mha_spec_congr. intros h c' Hh1 Hc'.
  destruct (Hh' h) as [o' [Ho' S']]. destruct (Hh h) as [o [Ho S]]. rewrite Ho', Ho.
  unfold head in Ho, Ho'.
  apply (attention_blind_to_masked _ _ _ _ _ _ _ _ _ _ _ _ _ Ho Ho').
  - rewrite !head_slice_shape, !linear_shape, Ek. reflexivity.
  - rewrite !head_slice_shape, !linear_shape, Ev. reflexivity.
  - unfold seq_agree. rewrite !head_slice_shape, !linear_shape.
    destruct p as [|pe]; [lia|]. cbn [nth]. unfold seq_agree in Ha. rewrite !nth_S_tl in Ha. exact Ha.
  - rewrite S. apply valid_cons; assumption.
  - intros t Ht Hk. rewrite head_slice_shape, linear_shape in Ht.
    assert (Ht' : t < nth p (tshape k) 0).
    { destruct p as [|pe]; [lia|]. cbn [nth] in Ht. rewrite nth_S_tl. exact Ht. }
    destruct (Hsame t Ht' Hk) as [Rk Rv]. split.
    + apply slice_row_congr; assumption.
    + apply slice_read_congr; assumption.
Qed.

Lemma multihead_permutation_invariant expf sc P q k v m k' v' m' p qs ks vs out out' (sigma : nat -> nat) :
  mha expf sc P q k v m p 0 qs ks vs = Some out ->
  mha expf sc P q k' v' m' p 0 qs ks vs = Some out' ->
  tshape k' = tshape k -> tshape v' = tshape v -> mask_shape m' = mask_shape m ->
  length (WQ P) = num_heads P * d_q P ->
  length (WK P) = num_heads P * d_k P ->
  length (WV P) = num_heads P * d_v P ->
  seq_agree k v p ->
  Permutation (map sigma (seq 0 (nth p (tshape k) 0))) (seq 0 (nth p (tshape k) 0)) ->
  forall c j, valid (tshape out) (c :: j) ->
  (forall t, t < nth p (tshape k) 0 ->
             brow k' (ins (p - 1) t j) = brow k (ins (p - 1) (sigma t) j)
             /\ brow v' (ins (p - 1) t j) = brow v (ins (p - 1) (sigma t) j)
             /\ kept_at m' (ins (p - 1) t j) = kept_at m (ins (p - 1) (sigma t) j)) ->
  (tat out' (c :: j) == tat out (c :: j))%Q.
Proof.
  intros Hm Hm' Ek Ev Em HWQ HWK HWV Ha Hperm c j Hv Hsame.
  destruct (two_setup _ _ _ _ _ _ _ _ _ _ _ _ _ _ _ _ Hm Hm' Ek Ev HWQ HWK HWV Ha)
    as [bs [So [So' [Hh [Hh' [Heq Heq']]]]]].
  pose proof (mha_p_pos _ _ _ _ _ _ _ _ _ _ _ _ _ Hm) as Hp.
  assert (Hv' : valid (tshape out') (c :: j)) by (rewrite So'; rewrite So in Hv; exact Hv).
  rewrite (Heq' _ Hv'), (Heq _ Hv).
  rewrite So in Hv. apply valid_cons_inv in Hv. destruct Hv as [_ Hj].
  apply mha_spec_congr. intros h c' Hh1 Hc'.
  destruct (Hh' h) as [o' [Ho' S']]. destruct (Hh h) as [o [Ho S]]. rewrite Ho', Ho.
  unfold head in Ho, Ho'.
  assert (HT : nth p (tshape (head_slice h (d_k P) (linear (WK P) (bK P) k))) 0 = nth p (tshape k) 0).
  { rewrite head_slice_shape, linear_shape. destruct p as [|pe]; [lia|]. cbn [nth]. rewrite nth_S_tl. reflexivity. }
  apply (attention_permutation_invariant _ _ _ _ _ _ _ _ _ _ _ _ _ _ sigma Ho Ho').
  - rewrite !head_slice_shape, !linear_shape, Ek. reflexivity.
  - rewrite !head_slice_shape, !linear_shape, Ev. reflexivity.
  - exact Em.
  - unfold seq_agree. rewrite !head_slice_shape, !linear_shape.
    destruct p as [|pe]; [lia|]. cbn [nth]. unfold seq_agree in Ha. rewrite !nth_S_tl in Ha. exact Ha.
  - rewrite HT. exact Hperm.
  - rewrite S. apply valid_cons; assumption.
  - intros t Ht. rewrite HT in Ht.
    destruct (Hsame t Ht) as [Rk [Rv Rm]]. split; [|split].
    + apply slice_row_congr; assumption.
    + apply slice_read_congr; assumption.
    + exact Rm.
Qed.
