(* MiniTorch, unit C03BSrc — the algebra of OpsC03B.v needed by the second C03 tie (no new definitions of meaning):
   the shape operations, the cross entropy and the reductions of `hard_optimal_completion_distillation_loss` on
   tabulated tensors, and the arithmetic of float elements that are reduced rationals [Fq (Qred q)]. *)
From Coq Require Import List ZArith QArith Bool Arith Lia ZifyBool ZifyNat.
From Coq Require String.
From PV Require Import MiniPy.Syntax MiniTorch.Ops MiniTorch.Lemmas MiniTorch.OpsC07 MiniTorch.LemmasC07 MiniTorch.OpsC01
  MiniTorch.LemmasC01 MiniTorch.OpsC03 MiniTorch.LemmasC03 MiniTorch.OpsC03B.
Import ListNotations.
Local Open Scope nat_scope.

(* ---- lists --------------------------------------------------------------------------------------------------- *)
Lemma firstn_skipn_seq : forall {X} (l : list X) k w d, k + w <= length l ->
  firstn w (skipn k l) = map (fun j => nth (k + j) l d) (seq 0 w).
Proof.
  intros X l k. revert l. induction k as [|k IH]; intros l w d H.
  - cbn [skipn Nat.add]. revert l H. induction w as [|w IHw]; intros l H; [reflexivity|].
    destruct l as [|a l]; [cbn [length] in H; lia|]. cbn [firstn]. rewrite <- cons_seq. cbn [map nth]. f_equal.
    rewrite <- seq_shift, map_map. cbn [nth]. apply IHw. cbn [length] in H. lia.
  - destruct l as [|a l]; [cbn [length] in H; lia|]. cbn [skipn]. rewrite (IH l w d) by (cbn [length] in H; lia).
    apply map_ext. intros j. reflexivity.
Qed.

Lemma length_tab4 : forall {X} O N I J (f : nat -> nat -> nat -> nat -> X), length (tab4 O N I J f) = O * (N * (I * J)).
Proof.
  intros. unfold tab4. rewrite (length_flat_map_const _ _ (N * (I * J))); [now rewrite seq_length|].
  intros a _. apply (length_tab3 N I J (f a)).
Qed.

(* row ((a * B + b) * C + c) of a (A x B x C x V) table *)
Lemma row_tab4 : forall {X} A B C V (f : nat -> nat -> nat -> nat -> X) a b c, a < A -> b < B -> c < C ->
  firstn V (skipn (((a * B + b) * C + c) * V) (tab4 A B C V f)) = map (f a b c) (seq 0 V).
Proof.
  intros X A B C V f a b c Ha Hb Hc.
  destruct V as [|V']; [reflexivity|]. set (V := S V') in *.
  assert (Hd : exists d : X, True) by (exists (f 0 0 0 0); exact I). destruct Hd as [d _].
  assert (H1 : a * B + b + 1 <= A * B) by nia.
  assert (H2 : (a * B + b) * C + c + 1 <= A * B * C) by nia.
  rewrite (firstn_skipn_seq _ _ _ d).
  - apply map_ext_seq. intros v Hv. now apply nth_tab4.
  - rewrite length_tab4. replace (A * (B * (C * V))) with (A * B * C * V) by lia.
    replace (((a * B + b) * C + c) * V + V) with (((a * B + b) * C + c + 1) * V) by lia.
    now apply Nat.mul_le_mono_r.
Qed.

(* a list numbered by 0 .. A * (B * C) - 1 is the 3-D table *)
Lemma map_seq_tab3 : forall {X} (G : nat -> X) A B C,
  map G (seq 0 (A * (B * C))) = tab3 A B C (fun a b c => G ((a * B + b) * C + c)).
Proof.
  intros X G A B C. unfold tab3. rewrite seq_mul. apply flat_map_ext_seq. intros a Ha.
  rewrite seq_mul. apply flat_map_ext_seq. intros b Hb. apply map_ext_seq. intros c Hc. f_equal. lia.
Qed.

(* ---- shapes ---------------------------------------------------------------------------------------------------- *)
Lemma size_dim_3_last : forall {X} A B C (d : list X), size_dim (mkTn [A; B; C] d) (-1) = Some C.
Proof. reflexivity. Qed.

Lemma expand_size_m1 : forall a, expand_size a (-1) = Some a.
Proof. reflexivity. Qed.

Lemma expand_size_1 : forall c, expand_size 1 (Z.of_nat c) = Some c.
Proof.
  intros c. unfold expand_size.
  replace (Z.of_nat c =? -1)%Z with false by lia. replace (Z.of_nat c <? 0)%Z with false by lia.
  rewrite Nat2Z.id. destruct (c =? 1) eqn:E; [apply Nat.eqb_eq in E; now subst|reflexivity].
Qed.

(* logits.unsqueeze(2).expand(-1, -1, C, -1) *)
Lemma expand4_rows : forall {X} (d : X) A B C V (lf : nat -> nat -> nat -> X),
  expand4 d (mkTn [A; B; 1; V] (tab3 A B V lf)) (-1) (-1) (Z.of_nat C) (-1) =
  Some (mkTn [A; B; C; V] (tab4 A B C V (fun a b _ v => lf a b v))).
Proof.
  intros. unfold expand4. cbn [shp dat]. rewrite !expand_size_m1, expand_size_1. do 2 f_equal.
  apply tab4_ext. intros a b c v Ha Hb Hc Hv.
  rewrite (bidx_same A a), (bidx_same B b), (bidx_same V v) by assumption. unfold bidx at 1. cbn [Nat.eqb].
  replace (((a * B + b) * 1 + 0) * V + v) with ((a * B + b) * V + v) by lia. now apply nth_tab3.
Qed.

Lemma flatten_4_lead : forall {X} A B C V (d : list X),
  flatten_range (mkTn [A; B; C; V] d) 0 (-2) = Some (mkTn [A * (B * C); V] d).
Proof. reflexivity. Qed.

Lemma flatten_3_all : forall {X} A B C (d : list X),
  flatten_range (mkTn [A; B; C] d) 0 (-1) = Some (mkTn [A * (B * C)] d).
Proof. reflexivity. Qed.

Lemma view_as_3 : forall {X} A B C (d : list X), view_as (mkTn [A * (B * C)] d) [A; B; C] = Some (mkTn [A; B; C] d).
Proof. intros. unfold view_as. cbn [shp numel]. now rewrite Nat.eqb_refl. Qed.

(* ---- cross entropy --------------------------------------------------------------------------------------------- *)
Lemma cross_entropy_tab : forall lsm A B C V (lf : nat -> nat -> nat -> fx) (tf : nat -> nat -> nat -> Z) (w : option (list fx)) ign,
  match w with Some wv => length wv = V | None => True end ->
  (forall a b c, a < A -> b < B -> c < C -> class_ok ign V (tf a b c) = true) ->
  cross_entropy_none lsm (mkTn [A * (B * C); V] (tab4 A B C V (fun a b _ v => lf a b v))) (mkTn [A * (B * C)] (tab3 A B C tf))
    (option_map (fun wv => mkTn [length wv] wv) w) ign =
  Some (Some (mkTn [A * (B * C)] (tab3 A B C (fun a b c => ce_entry lsm w ign (map (lf a b) (seq 0 V)) (tf a b c))))).
Proof.
  intros lsm A B C V lf tf w ign Hw Hok. unfold cross_entropy_none. cbn [shp dat]. rewrite Nat.eqb_refl.
  assert (Ew : match option_map (fun wv => mkTn [length wv] wv) w with Some wt => nats_eqb (shp wt) [V] | None => true end = true).
  { destruct w as [wv|]; [|reflexivity]. cbn [option_map shp]. rewrite Hw. apply nats_eqb_refl. }
  rewrite Ew. cbn [andb]. rewrite forallb_tab3 by exact Hok. do 3 f_equal.
  rewrite map_seq_tab3. apply tab3_ext. intros a b c Ha Hb Hc.
  rewrite row_tab4 by assumption. rewrite nth_tab3 by assumption.
  destruct w; reflexivity.
Qed.

(* ---- element-wise ------------------------------------------------------------------------------------------------ *)
Lemma not_b_tab3 : forall A B C g, not_b (mkTn [A; B; C] (tab3 A B C g)) = mkTn [A; B; C] (tab3 A B C (fun a b c => negb (g a b c))).
Proof. intros. unfold not_b, map_t. cbn [shp dat]. now rewrite map_tab3. Qed.

Lemma clamp_min_tab2 : forall A B g c,
  clamp_min_i (mkTn [A; B] (tab2 A B g)) c = mkTn [A; B] (tab2 A B (fun a b => Z.max (g a b) c)).
Proof. intros. unfold clamp_min_i, map_t. cbn [shp dat]. now rewrite map_tab2. Qed.

Lemma clamp_min_vec : forall B (g : nat -> Z) c,
  clamp_min_i (mkTn [B] (map g (seq 0 B))) c = mkTn [B] (map (fun b => Z.max (g b) c) (seq 0 B)).
Proof. intros. unfold clamp_min_i, map_t. cbn [shp dat]. now rewrite map_map. Qed.

Lemma eq_s_tab3 : forall A B C g c,
  eq_s (mkTn [A; B; C] (tab3 A B C g)) c = mkTn [A; B; C] (tab3 A B C (fun a b k => (g a b k =? c)%Z)).
Proof. intros. unfold eq_s, cmp_scalar. cbn [shp dat]. now rewrite map_tab3. Qed.

Lemma masked_fill_tab3 : forall {X} A B C (g : nat -> nat -> nat -> X) m v,
  masked_fill (mkTn [A; B; C] (tab3 A B C g)) (mkTn [A; B; C] (tab3 A B C m)) v =
  Some (mkTn [A; B; C] (tab3 A B C (fun a b c => if m a b c then v else g a b c))).
Proof. intros. unfold masked_fill, zip_same. cbn [shp dat]. now rewrite nats_eqb_refl, zipw_tab3. Qed.

Lemma div_xi_2 : forall A B g h,
  div_xi (mkTn [A; B] (tab2 A B g)) (mkTn [A; B] (tab2 A B h)) =
  Some (mkTn [A; B] (tab2 A B (fun a b => fdiv (g a b) (z2f (h a b))))).
Proof. intros. unfold div_xi. exact (broadcast_same2 (fun x z => fdiv x (z2f z)) FNaN 0%Z A B g h). Qed.

Lemma div_xi_1 : forall B g h,
  div_xi (mkTn [B] (map g (seq 0 B))) (mkTn [B] (map h (seq 0 B))) =
  Some (mkTn [B] (map (fun b => fdiv (g b) (z2f (h b))) (seq 0 B))).
Proof. intros. unfold div_xi. exact (broadcast_same1 (fun x z => fdiv x (z2f z)) FNaN 0%Z B g h). Qed.

(* ---- reductions ---------------------------------------------------------------------------------------------------- *)
Lemma sum_dim_f_3 : forall A B C (g : nat -> nat -> nat -> fx),
  sum_dim_f (mkTn [A; B; C] (tab3 A B C g)) 2 =
  Some (mkTn [A; B] (tab2 A B (fun a b => fsum (map (g a b) (seq 0 C))))).
Proof.
  intros. unfold sum_dim_f. cbn [rank shp dat length]. change (wrap_dim 3 2) with (Some 2).
  cbv beta iota zeta. cbn [outer extent inner drop_dim firstn skipn nth numel app].
  do 2 f_equal. rewrite tab2_col1, (seq_mul (fun r => fsum (fibre FNaN C 1 (tab3 A B C g) r 0)) A B).
  unfold tab2. apply flat_map_ext_seq. intros a Ha. apply map_ext_seq. intros b Hb. rewrite fibre_last. f_equal.
  apply map_ext_seq. intros c Hc. now apply nth_tab3.
Qed.

Lemma any_dim_3 : forall A B C (g : nat -> nat -> nat -> bool),
  any_dim (mkTn [A; B; C] (tab3 A B C g)) 2 =
  Some (mkTn [A; B] (tab2 A B (fun a b => existsb (fun x => x) (map (g a b) (seq 0 C))))).
Proof.
  intros. unfold any_dim. cbn [rank shp dat length]. change (wrap_dim 3 2) with (Some 2).
  cbv beta iota zeta. cbn [outer extent inner drop_dim firstn skipn nth numel app].
  do 2 f_equal. rewrite tab2_col1, (seq_mul (fun r => existsb (fun x => x) (fibre false C 1 (tab3 A B C g) r 0)) A B).
  unfold tab2. apply flat_map_ext_seq. intros a Ha. apply map_ext_seq. intros b Hb. rewrite fibre_last. f_equal.
  apply map_ext_seq. intros c Hc. now apply nth_tab3.
Qed.

(* a matrix along its second / first dimension *)
Lemma sum_dim_f_2_1 : forall A B (g : nat -> nat -> fx),
  sum_dim_f (mkTn [A; B] (tab2 A B g)) 1 = Some (mkTn [A] (map (fun a => fsum (map (g a) (seq 0 B))) (seq 0 A))).
Proof.
  intros. unfold sum_dim_f. cbn [rank shp dat length]. change (wrap_dim 2 1) with (Some 1).
  cbv beta iota zeta. cbn [outer extent inner drop_dim firstn skipn nth numel app].
  do 2 f_equal. rewrite tab2_col1. apply map_ext_seq. intros a Ha. rewrite fibre_last. f_equal.
  apply map_ext_seq. intros b Hb. now apply nth_tab2.
Qed.

Lemma sum_dim_f_2_0 : forall A B (g : nat -> nat -> fx),
  sum_dim_f (mkTn [A; B] (tab2 A B g)) 0 = Some (mkTn [B] (map (fun b => fsum (map (fun a => g a b) (seq 0 A))) (seq 0 B))).
Proof.
  intros. unfold sum_dim_f. cbn [rank shp dat length]. change (wrap_dim 2 0) with (Some 0).
  cbv beta iota zeta. cbn [outer extent inner drop_dim firstn skipn nth numel app].
  do 2 f_equal. rewrite tab2_1. apply map_ext_seq. intros b Hb. now rewrite fibre_tab2_0.
Qed.

Lemma sum_dim_b_2_1 : forall A B (g : nat -> nat -> bool),
  sum_dim_b (mkTn [A; B] (tab2 A B g)) 1 = Some (mkTn [A] (map (fun a => count_row (map (g a) (seq 0 B))) (seq 0 A))).
Proof.
  intros. unfold sum_dim_b. cbn [rank shp dat length]. change (wrap_dim 2 1) with (Some 1).
  cbv beta iota zeta. cbn [outer extent inner drop_dim firstn skipn nth numel app].
  do 2 f_equal. rewrite tab2_col1. apply map_ext_seq. intros a Ha. rewrite fibre_last. f_equal.
  apply map_ext_seq. intros b Hb. now apply nth_tab2.
Qed.

Lemma sum_dim_b_2_0 : forall A B (g : nat -> nat -> bool),
  sum_dim_b (mkTn [A; B] (tab2 A B g)) 0 = Some (mkTn [B] (map (fun b => count_row (map (fun a => g a b) (seq 0 A))) (seq 0 B))).
Proof.
  intros. unfold sum_dim_b. cbn [rank shp dat length]. change (wrap_dim 2 0) with (Some 0).
  cbv beta iota zeta. cbn [outer extent inner drop_dim firstn skipn nth numel app].
  do 2 f_equal. rewrite tab2_1. apply map_ext_seq. intros b Hb. now rewrite fibre_tab2_0.
Qed.

(* ---- float elements that are reduced rationals -------------------------------------------------------------------- *)
Lemma Qred_Qred : forall q, Qred (Qred q) = Qred q.
Proof. intros. apply Qred_complete, Qred_correct. Qed.

Lemma fadd_red : forall a b, fadd (Fq (Qred a)) (Fq (Qred b)) = Fq (Qred (a + b)).
Proof. intros. cbn [fadd]. f_equal. apply Qred_complete. now rewrite !Qred_correct. Qed.

Lemma fadd_red_r : forall a b, fadd (Fq a) (Fq (Qred b)) = Fq (Qred (a + b)).
Proof. intros. cbn [fadd]. f_equal. apply Qred_complete. now rewrite !Qred_correct. Qed.

Definition qsuml (l : list Q) : Q := fold_right Qplus 0%Q l.

(* the sum of reduced rationals is the reduced sum *)
Lemma fsum_red : forall {I} (f : I -> Q) (l : list I),
  fsum (map (fun i => Fq (Qred (f i))) l) = Fq (Qred (qsuml (map f l))).
Proof.
  intros I f l. induction l as [|i l IH]; [reflexivity|].
  cbn [map fsum fold_right qsuml]. change (fold_right fadd (Fq 0) (map (fun i0 => Fq (Qred (f i0))) l)) with (fsum (map (fun i0 => Fq (Qred (f i0))) l)).
  rewrite IH. apply fadd_red.
Qed.

Lemma fdiv_red_z : forall a z, (0 < z)%Z -> fdiv (Fq (Qred a)) (z2f z) = Fq (Qred (a / inject_Z z)).
Proof.
  intros a z Hz. unfold z2f. cbn [fdiv].
  replace (Qeq_bool (inject_Z z) 0) with false.
  - f_equal. apply Qred_complete. now rewrite Qred_correct.
  - symmetry. apply not_true_is_false. intros H. apply Qeq_bool_iff in H. unfold Qeq in H. cbn in H. lia.
Qed.

Lemma fneg_q : forall p, fneg (Fq p) = Fq (Qred (- p)).
Proof. reflexivity. Qed.

Lemma fmul_red_l : forall a b, fmul (Fq (Qred a)) (Fq b) = Fq (Qred (a * b)).
Proof. intros. cbn [fmul]. f_equal. apply Qred_complete. now rewrite Qred_correct. Qed.
