(* C11, second source tie - the translated source of write_trn (whole function, with its local helper _handle_x),
   write_textgrid (whole function, both entry points) and the path branches of read_ctm / write_ctm as executables
   (DEFINITIONS ONLY; the lemmas are in TieB*.v).  PV.Gen.C11BSrc.* is regenerated from
   /repo/src/pydrobert/torch/_parsing.py on every run by harness/py2coq/translate.py (unit C11BSrc, options
   exact_strings + fstring_parts: string literals byte for byte, f-strings part by part).

   ENCODINGS (trusted; exercised on every run by the harness-side source run against CPython).  As in C11.SrcRun:
   * a str given to the code is the LIST of its characters ("$chr", code point) [enc_str]; a string LITERAL of the
     source is MiniPy's own [VStr] (printable ASCII / line break).  Every operation on text below accepts both [as_text]
     and answers with [enc_str]; `a + b` of two char lists and `==` are MiniPy's own list operations.
   * `isinstance(x, str)` = "is a char list or a literal".  The Python LIST of alternates that _handle_x tells from a
     str by that test is therefore encoded as a TUPLE of its branches (the code only iterates over it); the branches
     and the transcripts are lists.
   * an open text file is ("$file", path | None, text written so far); `f.write(s)` appends.  `open(path, "w")` is a new
     empty file object; what a path call leaves on disk is observed as the event ("$written", [file]) emitted when the
     re-called function returns (the callee works on the object the caller's `with` holds: under value semantics its
     writes come back this way).  File system errors, encodings and newline translation are not modelled.
   * a Python float is an exact rational [VQ]; `f"{x:0.{p}f}"` is C11.Model.fmt_time p x ("correct round-half-even decimal
     rounding", the model's oracle), `f"{n}"` of a non-negative int its decimal digits, of a str the str itself.
   * a call of a function of the unit itself (`_handle_x(xx)`, the path branch's `write_trn(transcripts, trn)`) runs the
     callee's translated body on the arguments (parameters bound positionally, the others to their defaults) one level of
     [extB]'s fuel down: [extB n] interprets call chains of depth <= n. *)
From Coq Require Import ZArith QArith Qround List String Ascii Bool.
From PV Require Import C11.Model C11.ModelB MiniPy.Syntax MiniPy.Interp C11.SrcRun Gen.C11BSrc.
Import ListNotations.
Local Open Scope string_scope.

(* ---- text ------------------------------------------------------------------------------------------ *)
Definition codes (s : string) : str := map (fun a => Z.of_N (N_of_ascii a)) (list_ascii_of_string s).

Definition as_text (v : val) : option str :=
  match v with
  | VStr s => Some (codes s)
  | VList _ => dec_str v
  | _ => None
  end.

Fixpoint texts (l : list val) : option (list str) :=
  match l with
  | [] => Some []
  | v :: r => match as_text v, texts r with Some t, Some ts => Some (t :: ts) | _, _ => None end
  end.

(* ---- files ----------------------------------------------------------------------------------------- *)
Definition mk_file (path : val) (content : str) : val := VTuple [VStr "$file"; path; enc_str content].

Definition is_file (v : val) : option (val * str) :=
  match v with
  | VTuple [VStr tag; p; c] =>
      if String.eqb tag "$file" then match dec_str c with Some t => Some (p, t) | None => None end else None
  | _ => None
  end.

(* ---- numbers as text ------------------------------------------------------------------------------- *)
(* the format spec "0.<digits>f" *)
Definition spec_prec (spec : str) : option nat :=
  match spec with
  | 48%Z :: 46%Z :: r =>
      match rev r with
      | 102%Z :: sd => match sd with
                     | [] => None
                     | _ :: _ => option_map Z.to_nat (of_digits 0%Z (rev sd))
                     end
      | _ => None
      end
  | _ => None
  end.

Definition is_chr (v : val) : bool := match dec_chr v with Some _ => true | None => false end.

Definition config_obj : val :=
  VDict [(VStr "DEFT_TEXTGRID_TIER_NAME", VStr "transcript"); (VStr "DEFT_FLOAT_PRINT_PRECISION", VInt 3%Z);
         (VStr "DEFT_CTM_CHANNEL", VStr "A")].

(* the module's globals the translated functions read *)
Definition globalsB : list (string * val) := [("str", str_type); ("config", config_obj)].

(* ---- the calls outside MiniPy's subset that need no recursion --------------------------------------- *)
Definition extB0 (f : string) (args : list val) (kw : list (string * val)) (st : state) : outcome val :=
  if is f "isinstance" then
    match args with
    | [v; VStr ty] =>
        if String.eqb ty "$type:str"
        then Ok (VBool (match v with VList _ | VStr _ => true | _ => false end)) st
        else Stuck "C11B: isinstance"
    | _ => Stuck "C11B: isinstance"
    end
  else if is f "operator" then
    (* str + str where MiniPy's own `+` has no answer: a literal and a char list *)
    match args with
    | [VStr op; a; b] =>
        if String.eqb op "add" then
          match as_text a, as_text b with
          | Some x, Some y => Ok (enc_str (x ++ y)%list) st
          | _, _ => Stuck "C11B: + on non-text"
          end
        else Stuck "C11B: operator"
    | _ => Stuck "C11B: operator"
    end
  else if is f "$method.join" then
    (* "str.join(iterable): a string which is the concatenation of the strings in iterable [separated by str]" *)
    match args with
    | [sep; VList items] =>
        match as_text sep, texts items with
        | Some s, Some ts => Ok (enc_str (join s ts)) st
        | _, _ => Stuck "C11B: join of non-text"
        end
    | _ => Stuck "C11B: join"
    end
  else if is f "$method!.write" then
    match args with
    | [file; s] =>
        match is_file file, as_text s with
        | Some (p, c), Some t => Ok (mk_file p (c ++ t)%list) st
        | _, _ => Stuck "C11B: write"
        end
    | _ => Stuck "C11B: write"
    end
  else if is f "np.isreal" then
    (* of a Python number: True; of a one-character str: False.  (Of a list numpy answers with an array: not modelled.) *)
    match args with
    | [v] => if is_real v then Ok (VBool true) st
             else if is_chr v then Ok (VBool false) st
             else Stuck "C11B: np.isreal of a non-scalar"
    | _ => Stuck "C11B: np.isreal"
    end
  else if is f "open" then
    match args with
    | [VList p; VStr mode] =>
        if String.eqb mode "w" then Ok (mk_file (VList p) []) st else Stuck "C11B: open mode"
    | _ => Stuck "C11B: open"
    end
  else if is f "$enter" then
    (* a file object is its own context manager: "__enter__ returns self" *)
    match args with
    | [m] => match is_file m with Some _ => Ok m st | None => Stuck "C11B: with on a non-file" end
    | _ => Stuck "C11B: enter"
    end
  else if is f "$exit" then
    (* closing the file; the exception, if any, is not swallowed *)
    match args with
    | [m; _; _] => match is_file m with Some _ => Ok VNone st | None => Stuck "C11B: with on a non-file" end
    | _ => Stuck "C11B: exit"
    end
  else if is f "$genexp" then
    (* the items a generator expression handed to min / max produces (translate.py: GENEXP_CONSUMERS) *)
    match args with [VList l] => Ok (VList l) st | _ => Stuck "C11B: genexp" end
  else if is f "$fstr" then
    match texts args with
    | Some ts => Ok (enc_str (List.concat ts)) st
    | None => Stuck "C11B: f-string part that is not text"
    end
  else if is f "$format" then
    match args with
    | [v; VInt conv; spec] =>
        if negb (Z.eqb conv (-1)%Z) then Stuck "C11B: !r / !s / !a"
        else
        match spec with
        | VNone =>
            match v with
            | VInt n => if Z.leb 0%Z n then Ok (enc_str (int_digits n)) st else Stuck "C11B: negative int"
            | VStr _ | VList _ => match as_text v with Some t => Ok (enc_str t) st | None => Stuck "C11B: format" end
            | _ => Stuck "C11B: format without spec"
            end
        | _ =>
            match as_text spec with
            | Some s =>
                match spec_prec s, num_q v with
                | Some p, Some x => Ok (enc_str (fmt_time p x)) st
                | _, _ => Stuck "C11B: format spec"
                end
            | None => Stuck "C11B: format spec"
            end
        end
    | _ => Stuck "C11B: format"
    end
  else Stuck ("C11B: no meaning given to " ++ f).

(* ---- calls of the unit's own functions ---------------------------------------------------------------- *)
Fixpoint lookup_expr (x : string) (l : list (string * expr)) : option expr :=
  match l with
  | [] => None
  | (y, e) :: r => if String.eqb x y then Some e else lookup_expr x r
  end.

Section Calls.
  Variable ext : string -> list val -> list (string * val) -> state -> outcome val.

  (* parameters <- positional arguments, then defaults (constants / attributes of `config`) *)
  Fixpoint bind_args (params : list string) (defaults : list (string * expr)) (args : list val)
      : option (list (string * val)) :=
    match params with
    | [] => match args with [] => Some [] | _ :: _ => None end
    | p :: ps =>
        match args with
        | a :: r => option_map (cons (p, a)) (bind_args ps defaults r)
        | [] =>
            match lookup_expr p defaults with
            | Some e =>
                match Interp.eval ext e (mkState globalsB []) with
                | Ok v _ => option_map (cons (p, v)) (bind_args ps defaults [])
                | _ => None
                end
            | None => None
            end
        end
    end.

  (* a helper without effects: the caller's state is untouched *)
  Definition call_pure (body : stmt) (params : list string) (args : list val) (kw : list (string * val)) (st : state)
      : outcome val :=
    match kw, bind_args params [] args with
    | [], Some vs =>
        match Interp.run ext body (vs ++ globalsB) with
        | Ok v _ => Ok v st
        | Exc n _ => Exc n st
        | Stuck w => Stuck w
        end
    | _, _ => Stuck "C11B: arguments"
    end.

  (* a function that writes to the file object held by its parameter [fvar]: what it has written when it returns or
     raises is reported to the caller as an event *)
  Definition call_file (body : stmt) (params : list string) (defaults : list (string * expr)) (fvar : string)
      (args : list val) (kw : list (string * val)) (st : state) : outcome val :=
    match kw, bind_args params defaults args with
    | [], Some vs =>
        let back st' := mkState (vars st)
                          (events st ++ events st'
                           ++ [("$written", match lookup fvar (vars st') with Some v => [v] | None => [] end)]) in
        match Interp.run ext body (vs ++ globalsB) with
        | Ok v st' => Ok v (back st')
        | Exc n st' => Exc n (back st')
        | Stuck w => Stuck w
        end
    | _, _ => Stuck "C11B: arguments"
    end.
End Calls.

Fixpoint extB (n : nat) (f : string) (args : list val) (kw : list (string * val)) (st : state) {struct n}
    : outcome val :=
  match n with
  | O => extB0 f args kw st
  | S n' =>
      if is f "_handle_x" then call_pure (extB n') src_handle_x src_handle_x_params args kw st
      else if is f "write_trn" then
        call_file (extB n') src_write_trn src_write_trn_params src_write_trn_defaults "trn" args kw st
      else if is f "write_textgrid" then
        call_file (extB n') src_write_textgrid src_write_textgrid_params src_write_textgrid_defaults "tg" args kw st
      else extB0 f args kw st
  end.

(* ---- encodings of the arguments -------------------------------------------------------------------------- *)
Fixpoint enc_elem (x : elem) : val :=
  match x with
  | Tok t => enc_str t
  | Alt brs => VTuple (map (fun b => VList (map enc_elem b)) brs)
  end.

Definition enc_pynum (n : num) : val := match n with NInt z => VInt z | NQ q => VQ q end.

Definition enc_top (t : top) : val :=
  match t with
  | TBare s => enc_str s
  | TTimed x s e => VTuple [enc_elem x; enc_pynum s; enc_pynum e]
  end.

Definition enc_trn_utt (ut : str * list top) : val := VTuple [enc_str (fst ut); VList (map enc_top (snd ut))].
Definition enc_trn_ts (ts : list (str * list top)) : val := VList (map enc_trn_utt ts).

Definition enc_entry (x : entry) : val := VTuple [enc_str (e_tok x); VQ (e_start x); VQ (e_end x)].
Definition enc_oq (o : option Q) : val := match o with Some q => VQ q | None => VNone end.
Definition enc_ob (o : option bool) : val := match o with Some b => VBool b | None => VNone end.

(* ---- running the functions --------------------------------------------------------------------------------- *)
Definition run_handle_x (n : nat) (x : val) : outcome val :=
  Interp.run (extB n) src_handle_x ([("x", x)] ++ globalsB).

Definition run_write_trn (n : nat) (ts trn : val) : outcome val :=
  Interp.run (extB n) src_write_trn ([("transcripts", ts); ("trn", trn)] ++ globalsB).

Definition run_write_textgrid (n : nat) (tr tg st en name pt p : val) : outcome val :=
  Interp.run (extB n) src_write_textgrid
    ([("transcript", tr); ("tg", tg); ("start_time", st); ("end_time", en); ("tier_name", name);
      ("point_tier", pt); ("precision", p)] ++ globalsB).

(* ---- observing what was written ------------------------------------------------------------------------------ *)
(* open-file call: the text held by the file variable at the end *)
Definition file_text (var : string) (st : state) : option str :=
  match lookup var (vars st) with
  | Some v => option_map snd (is_file v)
  | None => None
  end.

(* path call: the text of the file reported by the last "$written" event, with its path *)
Definition last_written (st : state) : option (val * str) :=
  match rev (events st) with
  | (tag, [v]) :: _ => if String.eqb tag "$written" then is_file v else None
  | _ => None
  end.

Definition a_path : str := [112%Z].    (* "p": the path used by the executable checks (the text written does not depend on it) *)

(* the outcome as the model's [res str]: outer None = stuck / not of the expected form *)
Definition written_res (path : bool) (var : string) (o : outcome val) : option (res str) :=
  match o with
  | Ok VNone st =>
      if path then option_map (fun pc => Model.Ok (snd pc)) (last_written st)
      else option_map (@Model.Ok str) (file_text var st)
  | Ok _ _ => None
  | Exc n _ => option_map (@Model.Raise str) (exn_of n)
  | Stuck _ => None
  end.

Definition file_arg (path : bool) : val := if path then enc_str a_path else mk_file VNone [].

(* write_trn *)
Definition src_write_trn_res (path : bool) (ts : list (str * list top)) : option (res str) :=
  written_res path "trn" (run_write_trn (2 + tdepth ts) (enc_trn_ts ts) (file_arg path)).

Definition src_check_write_trn (path : bool) (ts : list (str * list top)) (impl : str) : bool :=
  match src_write_trn_res path ts with Some r => res_eqb str_eqb r (Model.Ok impl) | None => false end.

(* write_textgrid: the interface of C11.Model.check_write_textgrid *)
Definition src_write_textgrid_res (path : bool) (tr : list entry) (st en : option Q) (name : str)
    (pt : option bool) (p : nat) : option (res str) :=
  written_res path "tg"
    (run_write_textgrid 1 (VList (map enc_entry tr)) (file_arg path) (enc_oq st) (enc_oq en) (enc_str name)
       (enc_ob pt) (VInt (Z.of_nat p))).

Definition src_check_write_textgrid (path : bool) tr st en name pt p (impl : res str) : bool :=
  match src_write_textgrid_res path tr st en name pt p with Some r => res_eqb str_eqb r impl | None => false end.

(* ---- the path branches of read_ctm / write_ctm ------------------------------------------------------------------
   The re-call `read_ctm(ctm, wc2utt)` / `write_ctm(transcripts, ctm, utt2wc)` on the opened file is the open-file
   block of unit C11Src under ext11 (C11.SrcRun.run_read_ctm / run_write_ctm, tied in C11.Tie); everything else is
   ext11.  [fs] is the file system: path -> the lines of the file ([SrcRun]'s field-level lines). *)
Definition rfile (lines : val) : val := VTuple [VStr "$rfile"; lines].
Definition wfile (path : val) : val := VTuple [VStr "$wfile"; path].

Definition extC (fs : list (val * val)) (f : string) (args : list val) (kw : list (string * val)) (st : state)
    : outcome val :=
  if is f "open" then
    match args with
    | [p; VStr mode] =>
        if String.eqb mode "r" then
          match dict_get fs p with
          | Some c => Ok (rfile c) st
          | None => Exc "FileNotFoundError" st
          end
        else if String.eqb mode "w" then Ok (wfile p) st
        else Stuck "C11B: open mode"
    | _ => Stuck "C11B: open"
    end
  else if is f "$enter" then match args with [m] => Ok m st | _ => Stuck "C11B: enter" end
  else if is f "$exit" then match args with [_; _; _] => Ok VNone st | _ => Stuck "C11B: exit" end
  else if is f "read_ctm" then
    match args, kw with
    | [VTuple [VStr tag; VList lines]; wc2utt], [] =>
        if String.eqb tag "$rfile" then
          match run_read_ctm lines wc2utt with
          | Ok v _ => Ok v st
          | Exc n _ => Exc n st
          | Stuck w => Stuck w
          end
        else Stuck "C11B: read_ctm of a non-file"
    | _, _ => Stuck "C11B: read_ctm"
    end
  else if is f "write_ctm" then
    match args, kw with
    | [ts; VTuple [VStr tag; p]; utt2wc], [] =>
        if String.eqb tag "$wfile" then
          let back st' := emit ("$written", match lookup "ctm" (vars st') with Some c => [p; c] | None => [p] end) st in
          match run_write_ctm ts utt2wc with
          | Ok v st' => Ok v (back st')
          | Exc n st' => Exc n (back st')
          | Stuck w => Stuck w
          end
        else Stuck "C11B: write_ctm of a non-file"
    | _, _ => Stuck "C11B: write_ctm"
    end
  else ext11 f args kw st.

Definition run_read_ctm_path (fs : list (val * val)) (path wc2utt : val) : outcome val :=
  Interp.run (extC fs) src_read_ctm_path [("ctm", path); ("wc2utt", wc2utt); ("str", str_type)].

Definition run_write_ctm_path (ts path utt2wc : val) : outcome val :=
  Interp.run (extC []) src_write_ctm_path [("transcripts", ts); ("ctm", path); ("utt2wc", utt2wc); ("str", str_type)].

Definition src_read_ctm_path_res (ls : list seg) wc2utt : option (res (list (str * list timed))) :=
  res_of (dec_list dec_utt)
    (run_read_ctm_path [(enc_str a_path, VList (map enc_seg_line ls))] (enc_str a_path) (enc_wc2utt wc2utt)).

Definition src_check_read_ctm_path ls wc2utt (impl : res (list (str * list timed))) : bool :=
  match src_read_ctm_path_res ls wc2utt with Some r => res_eqb utts_eqb r impl | None => false end.

Definition ctm_written (o : outcome val) : outcome val :=
  match o with
  | Ok VNone st =>
      match rev (events st) with
      | (tag, [_; c]) :: _ => if String.eqb tag "$written" then Ok c st else Stuck "C11B: no file written"
      | _ => Stuck "C11B: no file written"
      end
  | Ok _ _ => Stuck "C11B: write_ctm returned a value"
  | o => o
  end.

Definition src_write_ctm_path_res ts (m : utt2wc_t) : option (res (list seg)) :=
  res_of (dec_list dec_seg) (ctm_written (run_write_ctm_path (VList (map enc_wutt ts)) (enc_str a_path) (enc_utt2wc m))).

Definition src_check_write_ctm_path ts m (impl : res (list seg)) : bool :=
  match src_write_ctm_path_res ts m with Some r => res_eqb (list_eqb seg_eqb) r impl | None => false end.
