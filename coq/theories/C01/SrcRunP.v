(* C01, second half of the property ("per prefix") — the translated source of `_string_matching` (_string.py) run in
   the configuration of prefix_edit_distances / PrefixEditDistances:
       _string_matching(ref, hyp, eos, include_eos, batch_first, ins_cost, del_cost, sub_cost, warn, norm=norm,
                        return_prf_dsts=True, exclude_last=exclude_last, padding=padding, return_mistakes=False)
   Definitions only (lemmas: TieP*.v); additive to SrcRun.v, which is imported unchanged.

   [ext01p g] = SrcRun.ext01 wherever ext01 answers (by construction: ext01 is asked first and only its `Stuck` is
   replaced), plus the vocabulary that only this path meets:
     torch.empty((a, b), device=, dtype=torch.float)        OpsC01P.empty2 g: UNINITIALISED contents = the parameter g
     torch.arange(n, device=)                                OpsC07.arange (int64)
     x[i] = v   (float tensors, integer i)                   OpsC01P.set_select0 (IndexError out of range)
     long_tensor * python_float                              OpsC01P.long_mul_float (type promotion to float)
     x.size(d)   x.expand_as(y)   x.ge(long_tensor)   x.masked_fill(bool_mask, python_int)
   everything else of the path (gather, squeeze, where, truediv, unsqueeze, t, any, to, gt, ==, +) is ext01's.
   ASSUMPTIONS as in SrcRun.v; in addition `padding` is a Python int (it is, by the signature) converted exactly. *)
From Coq Require Import ZArith QArith Qabs List String Bool.
From PV Require Import MiniPy.Syntax MiniPy.Interp MiniTorch.Ops MiniTorch.OpsC07 MiniTorch.OpsC01 MiniTorch.OpsC01P.
From PV Require Import Gen.C01Src C01.SrcRun.
From PV Require C01.Obs C01.Model.
Import ListNotations.
Local Open Scope string_scope.

Definition stuckp : outcome val := Stuck "ext01p: outside the vocabulary of the prefix path".

Definition kw1_is (n1 : string) (t1 : val) (kw : list (string * val)) : bool :=
  match kw with
  | [(a, v)] => (is a n1 && val_eqb v t1)%bool
  | _ => false
  end.

(* the calls ext01 has no answer for *)
Definition ext01p_new (g : nat -> fx) (f : string) (args : list val) (kw : list (string * val)) (st : state) : outcome val :=
  if is f "torch.empty" then
    match args with
    | [VTuple [VInt a; VInt b]] =>
        if kw2_is "device" device_token "dtype" float_token kw
        then ret01 "empty" (option_map AX (empty2 g a b)) st
        else stuckp
    | _ => stuckp
    end
  else if is f "torch.arange" then
    match args with
    | [VInt n] => if kw1_is "device" device_token kw then ret01 "arange" (option_map AI (arange n)) st else stuckp
    | _ => stuckp
    end
  else if negb (no_kw kw) then stuckp
  else if is f "$setitem" then
    match args with
    | [t; VInt i; v] =>
        match dec01 t, dec01 v with
        | Some (AX x), Some (AX y) =>
            match set_select0 x i y with
            | Some (Some r) => Ok (enc_x r) st
            | Some None => Exc index_error st
            | None => oob "setitem row"
            end
        | _, _ => stuckp
        end
    | _ => stuckp
    end
  else if is f "operator" then
    match args with
    | [VStr o; a; VQ q] =>
        if is o "mul" then
          match dec01 a with
          | Some (AI x) => Ok (enc_x (long_mul_float x q)) st
          | _ => stuckp
          end
        else stuckp
    | _ => stuckp
    end
  else if is f "$method.size" then
    match args with
    | [t; VInt d] =>
        match dec01 t with
        | Some (AX x) => match size_dim x d with Some n => Ok (VInt (Z.of_nat n)) st | None => oob "size" end
        | _ => stuckp
        end
    | _ => stuckp
    end
  else if is f "$method.expand_as" then
    match args with
    | [t; o] =>
        match dec01 t, dec01 o with
        | Some x, Some y => ret01 "expand_as" (map01 (fun X d z => expand_as2 d z (shape01 y)) x) st
        | _, _ => stuckp
        end
    | _ => stuckp
    end
  else if is f "$method.ge" then
    match args with
    | [t; u] =>
        match dec01 t, dec01 u with
        | Some (AI x), Some (AI y) => ret01 "ge" (option_map AB (ge_t x y)) st
        | _, _ => stuckp
        end
    | _ => stuckp
    end
  else if is f "$method.masked_fill" then
    match args with
    | [t; m; VInt v] =>
        match dec01 t, dec01 m with
        | Some (AX x), Some (AB b) => ret01 "masked_fill" (option_map AX (masked_fill x b (z2f v))) st
        | _, _ => stuckp
        end
    | _ => stuckp
    end
  else stuckp.

(* ext01 first; its Stuck (and nothing else) is replaced: ext01p g agrees with ext01 on every call ext01 answers *)
Definition ext01p (g : nat -> fx) (f : string) (args : list val) (kw : list (string * val)) (st : state) : outcome val :=
  match ext01 f args kw st with
  | Stuck _ => ext01p_new g f args kw st
  | o => o
  end.

(* ---- the arguments: the call made by prefix_edit_distances ------------------------------------------------ *)
Definition smp_vars (ref hyp : tn Z) (eos : option Z) (incl bf : bool) (qi qd qs : Q) (warn norm : bool) (pad : Z)
  (excl : bool) : list (string * val) :=
  [("ref", enc_i ref); ("hyp", enc_i hyp); ("eos", opt_int eos); ("include_eos", VBool incl);
   ("batch_first", VBool bf); ("ins_cost", VQ qi); ("del_cost", VQ qd); ("sub_cost", VQ qs);
   ("warn", VBool warn); ("norm", VBool norm); ("return_mask", VBool false); ("return_prf_dsts", VBool true);
   ("exclude_last", VBool excl); ("padding", VInt pad); ("return_mistakes", VBool false)] ++ globals01.

Definition cfgp_vars (c : C01.Model.cfg) (scale : Z) (N : nat) (ref hyp : list (list Z)) : list (string * val) :=
  smp_vars (mat_tensor (C01.Model.c_bf c) N ref) (mat_tensor (C01.Model.c_bf c) N hyp)
    (C01.Model.c_eos c) (C01.Model.c_incl c) (C01.Model.c_bf c)
    (cost_q scale (C01.Model.c_ins c)) (cost_q scale (C01.Model.c_del c)) (cost_q scale (C01.Model.c_sub c))
    false (C01.Model.c_norm c) (C01.Model.c_pad c) (C01.Model.c_excl c).

(* the uninitialised table of the executable: NaN everywhere (any leak into the result is then visible) *)
Definition garbage_nan : nat -> fx := fun _ => FNaN.

(* outer None: the interpreter got stuck / returned something that is not a float tensor; Some None: the source raised *)
Definition src_prefix (body : stmt) (c : C01.Model.cfg) (scale : Z) (N : nat) (ref hyp : list (list Z))
  : option (option (tn fx)) :=
  match Interp.run (ext01p garbage_nan) body (cfgp_vars c scale N ref hyp) with
  | Ok v _ => match dec01 v with
              | Some (AX t) => Some (Some t)
              | _ => None
              end
  | Exc _ _ => Some None
  | Stuck _ => None
  end.

(* the observed table: the rows of the returned tensor ((N x T) when batch_first, else (T x N)) *)
Definition src_prefix_check_body (body : stmt) (c : C01.Model.cfg) (scale : Z) (N : nat) (ref hyp : list (list Z))
  (obs : list (list Q)) : bool :=
  match src_prefix body c scale N ref hyp with
  | Some (Some t) =>
      (nats_eqb (shp t) [List.length obs; List.length (hd [] obs)]
       && C01.Obs.forall2b (fx_matches (C01.Model.c_norm c)) (dat t) (List.concat obs))%bool
  | _ => false
  end.

(* same interface as Model.check_prefix: the blocks run in sequence AND the whole body as one term *)
Definition src_prefix_check (c : C01.Model.cfg) (scale : Z) (N : nat) (ref hyp : list (list Z))
  (obs : list (list Q)) : bool :=
  (src_prefix_check_body sm_blocks c scale N ref hyp obs && src_prefix_check_body sm_body c scale N ref hyp obs)%bool.
