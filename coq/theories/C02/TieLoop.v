(* C02 - tie between the `for hyp_idx in range(...)` loop of `_string_matching` (PV.Gen.C02Src.er_loop, regenerated from
   /repo on every run) in the configuration `error_rate` uses (return_mistakes = True, return_mask = return_prf_dsts =
   exclude_last = False) and PV.C02.Model.step_rm, checked by the kernel: interpreting the loop body on the tensors ref
   (R x N), hyp (H x N), hyp_lens (N), the cost row and the parallel `mistakes` table (both R+1 x N) leaves, in every
   column n, exactly Model.step_rm of that column - insertion / substitution candidates with substitution winning ties
   (`pick_sub = row[1:] >= sub_row`), the in-place deletion loop (TieInner), freezing by not_done - for every batch size
   N, widths R, H, lengths, integer costs ci cd cs over any common denominator s (a float cost is c / s; the mistakes are
   floats over 1).  [loop_tie] iterates it over range(1, H + 1). *)
From Coq Require Import ZArith QArith List String Bool Arith Lia ZifyBool ZifyNat.
From PV Require Import MiniPy.Syntax MiniPy.Interp MiniPy.Lemmas MiniTorch.Ops MiniTorch.Lemmas MiniTorch.OpsC07 MiniTorch.LemmasC07
  MiniTorch.OpsC01 MiniTorch.LemmasC01 MiniTorch.OpsC02 MiniTorch.LemmasC02.
From PV Require Import Gen.C02Src C01.SrcRun C01.TieLib C01.TieMath C02.SrcRun C02.TieLib C02.TieMath C02.TieInner.
From PV Require C01.Model C01.Proofs C02.Model.
Import ListNotations.
Local Open Scope string_scope.

#[local] Arguments dec01 : simpl never.
#[local] Arguments enc_b : simpl never.
#[local] Arguments enc_i : simpl never.
#[local] Arguments enc_x : simpl never.
#[local] Arguments tab2 : simpl never.
#[local] Arguments tab3 : simpl never.
#[local] Arguments qz : simpl never.
#[local] Arguments Z.add : simpl never.
#[local] Arguments Z.sub : simpl never.
#[local] Arguments Z.of_nat : simpl never.
#[local] Arguments select0 : simpl never.
#[local] Arguments set_select0 : simpl never.
#[local] Arguments slice0 : simpl never.
#[local] Arguments set_slice0 : simpl never.
#[local] Arguments broadcast : simpl never.
#[local] Arguments where_f : simpl never.
#[local] Arguments min_dim : simpl never.
#[local] Arguments gather0 : simpl never.
#[local] Arguments unsqueeze : simpl never.
#[local] Arguments squeeze_dim : simpl never.
#[local] Arguments expand2 : simpl never.
#[local] Arguments triu_f : simpl never.
#[local] Arguments transpose2 : simpl never.
#[local] Arguments arange_f : simpl never.
#[local] Arguments full : simpl never.
#[local] Arguments fadd : simpl never.
#[local] Arguments fsub : simpl never.
#[local] Arguments fmul : simpl never.
#[local] Arguments fdiv : simpl never.
#[local] Arguments fmin : simpl never.
#[local] Arguments fge : simpl never.
#[local] Arguments b2f : simpl never.
#[local] Arguments z2f : simpl never.
#[local] Arguments ext01 : simpl never.
#[local] Arguments ext02 : simpl never.
#[local] Arguments zf : simpl never.
#[local] Arguments ofx : simpl never.
#[local] Arguments argmin_3 : simpl never.
#[local] Arguments seq : simpl never.
#[local] Arguments fmin_list : simpl never.
#[local] Arguments zrange : simpl never.
#[local] Arguments sw : simpl never.
#[local] Arguments swp : simpl never.

(* column n of a tabulated matrix with T rows *)
Definition colf (T : nat) (f : nat -> nat -> Z) (n : nat) : list Z := map (fun t => f t n) (seq 0 T).

(* what the loop reads and preserves: the error_rate configuration, the tensors of the preamble, the two tables;
   [vrl vmult vnorm vwarn] are carried along untouched for the epilogue *)
Definition body_pre (s : positive) (ci cd cs : Z) (R N H : nat) (rf hf : nat -> nat -> Z) (hl : nat -> nat)
  (vrl vmult vnorm vwarn : val) (lf mf : nat -> nat -> Z) (st : state) : Prop :=
  lookup "exclude_last" (vars st) = Some (VBool false) /\
  lookup "return_mistakes" (vars st) = Some (VBool true) /\
  lookup "return_mask" (vars st) = Some (VBool false) /\
  lookup "return_prf_dsts" (vars st) = Some (VBool false) /\
  lookup "hyp_lens" (vars st) = Some (enc_i (mkTn [N] (map (fun n => Z.of_nat (hl n)) (seq 0 N)))) /\
  lookup "ref" (vars st) = Some (enc_i (mkTn [R; N] (tab2 R N rf))) /\
  lookup "hyp" (vars st) = Some (enc_i (mkTn [H; N] (tab2 H N hf))) /\
  lookup "ins_cost" (vars st) = Some (VQ (qz s ci)) /\
  lookup "sub_cost" (vars st) = Some (VQ (qz s cs)) /\
  lookup "del_cost" (vars st) = Some (VQ (qz s cd)) /\
  lookup "max_ref_steps" (vars st) = Some (VInt (Z.of_nat R)) /\
  lookup "ref_lens" (vars st) = Some vrl /\
  lookup "mult" (vars st) = Some vmult /\
  lookup "norm" (vars st) = Some vnorm /\
  lookup "warn" (vars st) = Some vwarn /\
  lookup "row" (vars st) = Some (enc_x (mkTn [S R; N] (tab2 (S R) N (fun i n => zf s (lf i n))))) /\
  lookup "mistakes" (vars st) = Some (enc_x (mkTn [S R; N] (tab2 (S R) N (fun i n => zf 1 (mf i n))))).

Lemma body_pre_ext s ci cd cs R N H rf hf hl vrl vmult vnorm vwarn lf mf lf' mf' st :
  (forall i n, (i < S R)%nat -> (n < N)%nat -> lf i n = lf' i n) ->
  (forall i n, (i < S R)%nat -> (n < N)%nat -> mf i n = mf' i n) ->
  body_pre s ci cd cs R N H rf hf hl vrl vmult vnorm vwarn lf mf st ->
  body_pre s ci cd cs R N H rf hf hl vrl vmult vnorm vwarn lf' mf' st.
Proof.
  intros E E' P. unfold body_pre in *.
  destruct P as (H1 & H2 & H3 & H4 & H5 & H6 & H7 & H8 & H9 & H10 & H11 & H12 & H13 & H14 & H15 & P & P').
  repeat (split; [assumption|]). split.
  - rewrite P. do 3 f_equal. apply tab2_ext. intros i n Hi Hn. now rewrite E.
  - rewrite P'. do 3 f_equal. apply tab2_ext. intros i n Hi Hn. now rewrite E'.
Qed.

(* the symbolic run of the loop body (goal: runs_to (body_pre ..) (exec ext02 <body> (set_var "hyp_idx" k st)), after the
   introduction of st k lf mf Hk and the seventeen lookups of body_pre); shared by the body of er_loop and the body of the
   loop inside er_body (TieBody.v), whose mistakes branches are the same text *)
Ltac cur_state k := match goal with |- runs_to _ (exec ext02 _ ?st) => k st end.

Ltac body_script s ci cd cs R N H rf hf hl lf mf k Hk :=
    push_state;
    assert (Hidx : (Z.of_nat k - 1)%Z = Z.of_nat (k - 1)) by lia;
    asg; asg; asg;
    assign ltac:(repeat (progress (evn; rewrite ?Hidx, ?select0_mat by lia)); reflexivity);
    asg; asg;
    ifstep; rewrite !exec_seq_assoc;
    asg; setitem; asg; asg; asg; setitem;
    (* the two tables before the deletion loop, by index *)
    pose (X := fun a n => cx ci cs (fun b => rf b n) (fun t => hf t n) (fun b => lf b n) (hl n) k a);
    pose (M := fun a n => cm ci cs (fun b => rf b n) (fun t => hf t n) (fun b => lf b n) (fun b => mf b n) (hl n) k a);
    cur_state ltac:(fun st0 =>
      assert (Hrow0 : lookup "row" (vars st0) = Some (enc_x (mkTn [S R; N] (tab2 (S R) N
                        (fun i n => zf s (fst (swp cd (fun a => X a n) (fun a => M a n) 0 i)))))))
        by (match goal with L : lookup "row" (vars st0) = _ |- _ => rewrite L end; do 3 f_equal; apply tab2_ext; intros i n Hi Hn;
            rewrite swp_0; cbn [fst]; apply (cx_src ci cs (fun b => rf b n) (fun t => hf t n) (fun b => lf b n) (hl n) k s i));
      assert (Hmis0 : lookup "mistakes" (vars st0) = Some (enc_x (mkTn [S R; N] (tab2 (S R) N
                        (fun i n => zf 1 (snd (swp cd (fun a => X a n) (fun a => M a n) 0 i)))))))
        by (match goal with L : lookup "mistakes" (vars st0) = _ |- _ => rewrite L end; do 3 f_equal; apply tab2_ext; intros i n Hi Hn;
            rewrite swp_0; cbn [snd];
            apply (cm_src ci cs (fun b => rf b n) (fun t => hf t n) (fun b => lf b n) (fun b => mf b n) (hl n) k s i));
      rewrite !exec_seq_assoc;
      eapply runs_to_seq;
      [ apply (inner_tie s cd R N X M st0); [unfold inner_pre; repeat split; assumption|assumption] |];
      let st1 := fresh "st" in let F := fresh "F" in
      intros st1 [(_ & ? & ?) F];
      repeat match goal with L : lookup "row" (vars st0) = _ |- _ => clear L end;
      repeat match goal with L : lookup "mistakes" (vars st0) = _ |- _ => clear L end;
      transport F);
    asg; asg; ifstep; ifstep;
    apply runs_to_ok; unfold body_pre; repeat (split; [assumption|]); split;
    [ match goal with L : lookup "row" _ = _ |- _ => rewrite L end; do 3 f_equal; apply tab2_ext; intros i n Hi Hn;
      rewrite Hidx; unfold colf;
      rewrite (step_rm_fst ci cd cs R H (fun b => rf b n) (fun t => hf t n) (fun b => lf b n) (fun b => mf b n) (hl n) k Hk i Hi);
      replace (Z.of_nat (k - 1) <? Z.of_nat (hl n))%Z with (k - 1 <? hl n)%nat by lia;
      rewrite zf_if, swp_full by lia; reflexivity
    | match goal with L : lookup "mistakes" _ = _ |- _ => rewrite L end; do 3 f_equal; apply tab2_ext; intros i n Hi Hn;
      rewrite Hidx; unfold colf;
      rewrite (step_rm_snd ci cd cs R H (fun b => rf b n) (fun t => hf t n) (fun b => lf b n) (fun b => mf b n) (hl n) k Hk i Hi);
      replace (Z.of_nat (k - 1) <? Z.of_nat (hl n))%Z with (k - 1 <? hl n)%nat by lia;
      rewrite zf_if, swp_full by lia; reflexivity ].

Section Body.
  Variables (s : positive) (ci cd cs : Z) (R N H : nat) (rf hf : nat -> nat -> Z) (hl : nat -> nat).
  Variables (vrl vmult vnorm vwarn : val).

  Notation pre := (body_pre s ci cd cs R N H rf hf hl vrl vmult vnorm vwarn).

  (* one column of the two tables after one step *)
  Definition step_col (k : nat) (lf mf : nat -> nat -> Z) (n : nat) : list Z * list Z :=
    C02.Model.step_rm ci cd cs (colf R rf n) (colf H hf n) (hl n) false k (colf (S R) lf n, colf (S R) mf n).

  Theorem body_run : forall st k lf mf, (1 <= k <= H)%nat -> pre lf mf st ->
    runs_to (pre (fun i n => nth i (fst (step_col k lf mf n)) 0%Z) (fun i n => nth i (snd (step_col k lf mf n)) 0%Z))
            (exec ext02 loop_body (set_var "hyp_idx" (VInt (Z.of_nat k)) st)).
  Proof.
    intros st k lf mf Hk (Hexcl & Hmist & Hmask & Hprf & Hhl & Href & Hhyp & Hci & Hcs & Hcd & Hmr & Hrl & Hmu & Hno & Hwa & Hrow & Hmi).
    unfold loop_body, er_loop. cbv iota. unfold step_col.
    body_script s ci cd cs R N H rf hf hl lf mf k Hk.
  Qed.

  (* ---- the loop: range(1, H + 1) ------------------------------------------------------------------------- *)
  Definition iter_col (m a : nat) (lf mf : nat -> nat -> Z) (n : nat) : list Z * list Z :=
    iter_rm ci cd cs (colf R rf n) (colf H hf n) (hl n) m (S a) (colf (S R) lf n, colf (S R) mf n).

  Lemma step_col_lengths k lf mf n : (1 <= k <= H)%nat ->
    List.length (fst (step_col k lf mf n)) = S R /\ List.length (snd (step_col k lf mf n)) = S R.
  Proof. intros Hk. unfold step_col, colf. now apply step_rm_lengths. Qed.

  Lemma step_col_colf k lf mf n : (1 <= k <= H)%nat ->
    (colf (S R) (fun i n0 => nth i (fst (step_col k lf mf n0)) 0%Z) n,
     colf (S R) (fun i n0 => nth i (snd (step_col k lf mf n0)) 0%Z) n) = step_col k lf mf n.
  Proof.
    intros Hk. destruct (step_col_lengths k lf mf n Hk) as [L1 L2]. unfold colf at 1 2.
    rewrite <- L1 at 1. rewrite <- L2 at 1. rewrite !Proofs.map_nth_seq. now destruct (step_col k lf mf n).
  Qed.

  (* any body with the property of [body_run], iterated by `for hyp_idx in range(1, max_hyp_steps + 1)` *)
  Section AnyBody.
    Variable bd : stmt.
    Hypothesis Hbd : forall st k lf mf, (1 <= k <= H)%nat -> pre lf mf st ->
      runs_to (pre (fun i n => nth i (fst (step_col k lf mf n)) 0%Z) (fun i n => nth i (snd (step_col k lf mf n)) 0%Z))
              (exec ext02 bd (set_var "hyp_idx" (VInt (Z.of_nat k)) st)).

    Lemma loop_run_gen : forall m a lf mf st, (a + m <= H)%nat -> pre lf mf st ->
      runs_to (pre (fun i n => nth i (fst (iter_col m a lf mf n)) 0%Z) (fun i n => nth i (snd (iter_col m a lf mf n)) 0%Z))
              (for_loop ext02 "hyp_idx" bd (map (fun i => VInt (1 + Z.of_nat i)) (seq a m)) st).
    Proof.
      induction m as [|m IH]; intros a lf mf st Ham P.
      - apply runs_to_ok. eapply body_pre_ext; [| |exact P];
          intros i n Hi Hn; cbv beta; unfold iter_col, iter_rm, colf; cbn [fst snd]; rewrite Proofs.nth_map_seq by exact Hi; reflexivity.
      - rewrite <- cons_seq. cbn [map for_loop].
        replace (1 + Z.of_nat a)%Z with (Z.of_nat (S a)) by lia.
        destruct (Hbd st (S a) lf mf ltac:(lia) P) as [st1 [He P1]]. rewrite He. cbn [bind].
        destruct (IH (S a) _ _ st1 ltac:(lia) P1) as [st2 [He2 P2]]. exists st2. split; [exact He2|].
        eapply body_pre_ext; [| |exact P2]; intros i n Hi Hn; cbv beta; do 2 f_equal;
          unfold iter_col; cbn [iter_rm]; f_equal; apply step_col_colf; lia.
    Qed.

    Theorem loop_tie_gen : forall st lf mf, pre lf mf st -> lookup "max_hyp_steps" (vars st) = Some (VInt (Z.of_nat H)) ->
      runs_to (pre (fun i n => nth i (fst (iter_col H 0 lf mf n)) 0%Z) (fun i n => nth i (snd (iter_col H 0 lf mf n)) 0%Z))
              (exec ext02 (SFor "hyp_idx" loop_iter bd) st).
    Proof.
      intros st lf mf P Hmax. rewrite exec_for.
      assert (Hexcl : lookup "exclude_last" (vars st) = Some (VBool false)) by apply P.
      assert (Hit : eval ext02 loop_iter st = Ok (VList (zrange 1 (Z.of_nat H + 1))) st).
      { unfold loop_iter, er_loop. cbv iota. ev. reflexivity. }
      rewrite Hit. cbn [bind iter_items container_items]. rewrite zrange_1.
      apply loop_run_gen; [lia|exact P].
    Qed.
  End AnyBody.

  Theorem loop_tie : forall st lf mf, pre lf mf st -> lookup "max_hyp_steps" (vars st) = Some (VInt (Z.of_nat H)) ->
    runs_to (pre (fun i n => nth i (fst (iter_col H 0 lf mf n)) 0%Z) (fun i n => nth i (snd (iter_col H 0 lf mf n)) 0%Z))
            (exec ext02 er_loop st).
  Proof. rewrite er_loop_eq. exact (loop_tie_gen loop_body body_run). Qed.
End Body.
