(* C16 — concrete witnesses: non-vacuity of the hypotheses, and the executions on which the
   property fails of the faithful model (the same cases are in /verif/corpus/C16 and are
   replayed on the implementation by the harness). *)
From Coq Require Import List Arith Bool ZArith Lia.
From PV Require Import C16.Model C16.Spec C16.Proofs C16.Hist C16.Safety.
Import ListNotations.
Local Open Scope Z_scope.

(* the history of the uninterrupted run of the model *)
Definition uninterrupted_hist (P : params) (mets : list (Z * Z)) : list row :=
  match run P mets [] [] with o :: _ => o_hist o | [] => [] end.

Definition P_lb_ep := mkParams true true true false.     (* defaults *)
Definition P_all_ep := mkParams false true true false.
Definition P_all_no := mkParams false false false false.
Definition P_lb_no := mkParams true false false false.

(* three improving epochs, the process dies inside the clean-up of the second update
   (8 of its 9 calls made); keep last and best, default formats *)
Lemma nonvacuous_klb :
  let E := mkEnv [(12, 12); (8, 8); (4, 4)] pv_count (fun _ => []) in
  exists d cn, epf P_lb_ep /\ klb P_lb_ep = true /\ reach P_lb_ep E d cn /\
               seen_last d = 2%nat /\ seen_best P_lb_ep d = 2%nat /\
               fs_get (Ckpt KM (Some 1%nat)) (files d) = None /\
               fs_get (Ckpt KO (Some 1%nat)) (files d) = Some 1 /\
               fs_get (Ckpt KM (Some 2%nat)) (files d) = Some 2.
Proof.
  intros E. eexists. eexists. split; [split; reflexivity|]. split; [reflexivity|]. split.
  - eapply (reach_step P_lb_ep E _ _ _ _ 8).
    + eapply (reach_step P_lb_ep E _ _ _ _ 7); [apply reach_init|]. vm_compute. reflexivity.
    + vm_compute. reflexivity.
  - vm_compute. repeat split; reflexivity.
Qed.

(* keep everything: one crash (after os.replace of the model file), then a completed retry *)
Lemma nonvacuous_keep_all :
  let E := mkEnv [(12, 12); (8, 8)] pv_count (fun _ => []) in
  exists d cn, epf P_all_ep /\ klb P_all_ep = false /\ reach1 P_all_ep E d cn /\ seen_last d = 1%nat /\
               fs_get (Ckpt KO (Some 1%nat)) (files d) = Some 2.
Proof.
  intros E. eexists. eexists. split; [split; reflexivity|]. split; [reflexivity|]. split.
  - apply r1_clean. eapply (c1_crash_full P_all_ep E _ _ _ _ 5); [apply c1_init| |]; vm_compute; reflexivity.
  - vm_compute. split; reflexivity.
Qed.

(* K2: format without {epoch}; epoch 1 completes, the process dies after the history append of
   epoch 2 (call 8 of the run): row 2 is recorded, model.pt still holds epoch 1 *)
Lemma no_epoch_format_refuted :
  exists P mets crashes,
    ep_m P = false /\ ep_o P = false /\ length crashes = 1%nat /\
    spec_part 0 P (uninterrupted_hist P mets) (run P mets [] crashes) = true /\
    spec_part 1 P (uninterrupted_hist P mets) (run P mets [] crashes) = false.
Proof.
  exists P_all_no, [(12, 12); (8, 8)], [8%nat]. repeat split; vm_compute; reflexivity.
Qed.

(* ... and in reach form: a reachable disk whose last recorded epoch is not stored *)
Lemma no_epoch_format_refuted_reach :
  exists P E d cn, ep_m P = false /\ ep_o P = false /\ reach P E d cn /\
                   ~ stored P d (seen_last d).
Proof.
  exists P_all_no, (mkEnv [(12, 12); (8, 8)] pv_count (fun _ => [])).
  eexists. eexists. split; [reflexivity|]. split; [reflexivity|]. split.
  - eapply (reach_step _ _ _ _ _ _ 1).
    + eapply (reach_step _ _ _ _ _ _ 7); [apply reach_init|]. vm_compute. reflexivity.
    + vm_compute. reflexivity.
  - intros (r & Hin & He & Hf). specialize (Hf KM). vm_compute in Hin, He, Hf.
    destruct Hin as [<-|[<-|[]]]; cbn in He, Hf; discriminate.
Qed.

(* K3: keep everything, epoch formats; die after os.replace(model_1) (5 calls), the retry sees
   the file and appends first, die again after that append (1 call): row 1 recorded, the
   optimizer file of epoch 1 does not exist *)
Lemma keep_all_double_crash_refuted :
  exists P mets crashes,
    epf P /\ klb P = false /\ length crashes = 2%nat /\
    spec_part 0 P (uninterrupted_hist P mets) (run P mets [] crashes) = true /\
    spec_part 1 P (uninterrupted_hist P mets) (run P mets [] crashes) = false /\
    spec_part 6 P (uninterrupted_hist P mets) (run P mets [] crashes) = false.
Proof.
  exists P_all_ep, [(12, 12); (8, 8)], [5%nat; 1%nat].
  split; [split; reflexivity|]. repeat split; vm_compute; reflexivity.
Qed.

(* the stale variant: die after both os.replace (6 calls), then after the retry's append *)
Lemma keep_all_double_crash_stale_refuted :
  exists P E d cn, epf P /\ klb P = false /\ reach P E d cn /\ ~ stored P d (seen_last d) /\
                   fs_get (pth P KM (seen_last d)) (files d) = Some 1 /\
                   map r_tag (csv d) = [2].
Proof.
  exists P_all_ep, (mkEnv [(12, 12); (8, 8)] pv_count (fun _ => [])).
  eexists. eexists. split; [split; reflexivity|]. split; [reflexivity|]. split; [|split].
  - eapply (reach_step _ _ _ _ _ _ 1).
    + eapply (reach_step _ _ _ _ _ _ 6); [apply reach_init|]. vm_compute. reflexivity.
    + vm_compute. reflexivity.
  - intros (r & Hin & He & Hf). specialize (Hf KM). vm_compute in Hin, He, Hf.
    destruct Hin as [<-|[]]; cbn in He, Hf; discriminate.
  - vm_compute. split; reflexivity.
Qed.

(* K6: keep last and best, epoch formats; die inside the clean-up of the second update;
   all later completed updates leave model_1.pt behind: every clause holds except
   "and nothing else" *)
Lemma dir_exact_after_crash_refuted :
  exists P mets crashes,
    epf P /\ klb P = true /\ length crashes = 1%nat /\
    map (fun i => spec_part i P (uninterrupted_hist P mets) (run P mets [] crashes)) (seq 0 7)
    = [true; true; true; true; true; false; true].
Proof.
  exists P_lb_ep, [(12, 12); (8, 8); (4, 4); (20, 20)], [15%nat].
  split; [split; reflexivity|]. repeat split; vm_compute; reflexivity.
Qed.

(* K7: keep everything with a format without {epoch}: no crash needed, the best epoch (1) is
   overwritten by the last (2) *)
Lemma keep_all_no_epoch_best_refuted :
  exists P mets,
    klb P = false /\ ep_m P = false /\
    spec_part 2 P (uninterrupted_hist P mets) (run P mets [] []) = false.
Proof.
  exists P_all_no, [(8, 8); (12, 12)]. repeat split; vm_compute; reflexivity.
Qed.
